(* An invariant of every server list the model builds: a server whose address is not link-local
   carries no interface name (ares_sconfig_append copies the interface only for link-local
   addresses).  Used to discharge the side conditions of C16_dup. *)
From CAres.Config Require Import Spec Options_proofs Csv_proofs.
From CAres.Gen Require Import Consts.
Local Open Scope Z_scope.

Definition entry_inv (e : sconf) : Prop :=
  addr_is_linklocal (sc_addr e) = false -> sc_iface e = [] /\ sc_scope e = 0.

Definition olist (l : option (list sconf)) : list sconf := match l with Some x => x | None => [] end.

Lemma sconfig_append_inv ifs l a u t i l' :
  sconfig_append ifs l a u t i = Ok l' -> Forall entry_inv (olist l) -> Forall entry_inv (olist l').
Proof.
  unfold sconfig_append. destruct (addr_blacklisted a); [intros H; apply Ok_inj in H; subst; auto|].
  destruct (addr_is_linklocal a) eqn:El.
  - destruct i.
    + intros H F; apply Ok_inj in H; subst. exact F.
    + destruct (sconfig_linklocal ifs (n :: i)) as [[[nm sc]|]| |]; cbn [bind]; try discriminate;
        intros H F; apply Ok_inj in H; subst; cbn [olist]; [|exact F].
      apply Forall_app. split; [exact F|]. constructor; [|constructor]. unfold entry_inv. cbn [sc_addr]. congruence.
  - intros H F; apply Ok_inj in H; subst. cbn [olist]. apply Forall_app. split; [exact F|].
    constructor; [|constructor]. unfold entry_inv. cbn [sc_iface sc_scope]. auto.
Qed.

Lemma update_one_inv cudp ctcp old e :
  Forall no_stray_iface old -> entry_inv e -> no_stray_iface (update_one cudp ctcp old e).
Proof.
  intros Fo He. unfold update_one. destruct (find (server_matches cudp ctcp e) old) as [sv|] eqn:Ef.
  - apply find_some in Ef as [Hin Hm]. rewrite Forall_forall in Fo. specialize (Fo sv Hin).
    destruct (sc_iface e) as [|i0 ir] eqn:Ei; [exact Fo|].
    unfold no_stray_iface. cbn [sv_addr sv_iface sv_scope]. intros Hll.
    unfold server_matches in Hm. apply andb_true_iff in Hm as [Hm _]. apply andb_true_iff in Hm as [Ha _].
    apply addr_eqb_eq in Ha. rewrite Ha in Hll. destruct (He Hll) as [E _]. congruence.
  - unfold no_stray_iface. destruct (sc_iface e) as [|i0 ir] eqn:Ei; cbn [sv_addr sv_iface sv_scope]; [auto|].
    intros Hll. destruct (He Hll) as [E _]. congruence.
Qed.

Lemma dedup_incl cudp ctcp l : forall seen, incl (dedup_sconf cudp ctcp l seen) l.
Proof.
  induction l as [|s r IH]; intros seen; cbn [dedup_sconf]; [apply incl_refl|].
  destruct (existsb (sconf_match cudp ctcp s) seen).
  - apply incl_tl. apply IH.
  - apply incl_cons; [left; reflexivity|]. apply incl_tl. apply IH.
Qed.

Lemma firstn_In {A} n (l : list A) x : In x (firstn n l) -> In x l.
Proof. revert l. induction n; intros l H; [destruct H|]. destruct l; [destruct H|]. destruct H as [<-|H]; [left; reflexivity|right; apply IHn; exact H]. Qed.

Lemma servers_update_inv flags cudp ctcp old l :
  Forall no_stray_iface old -> Forall entry_inv l -> Forall no_stray_iface (servers_update flags cudp ctcp old l).
Proof.
  intros Fo Fl. unfold servers_update.
  assert (Forall no_stray_iface (map (update_one cudp ctcp old) (dedup_sconf cudp ctcp l []))) as F.
  { apply Forall_forall. intros sv Hin. apply in_map_iff in Hin as (e & <- & He).
    apply update_one_inv; [exact Fo|]. rewrite Forall_forall in Fl. apply Fl. apply (dedup_incl cudp ctcp l [] e He). }
  destruct (Z.testbit flags 1); [|exact F].
  apply Forall_forall. intros sv Hin. rewrite Forall_forall in F. apply F.
  apply (firstn_In 1 _ sv Hin).
Qed.

Definition same_sconfig (c c' : sysconfig) : Prop := s_sconfig c' = s_sconfig c.

Section WithNet.
Variable nf : netfns.

(* any property of the server entry list that ares_sconfig_append preserves holds of what
   ares_init_by_sysconfig gathers *)
Section Preserved.
Variable P : option (list sconf) -> Prop.
Hypothesis P_append : forall ifs l a u t i l', sconfig_append ifs l a u t i = Ok l' -> P l -> P l'.

Lemma append_entries_inv ifs ign es : forall l l',
  append_entries nf ifs ign es l = Ok l' -> P l -> P l'.
Proof.
  induction es as [|e r IH]; intros l l' H F; cbn [append_entries] in H; [apply Ok_inj in H; subst; exact F|].
  assert (forall s, (do l1 <- sconfig_append ifs l (sc_addr s) (sc_udp s) (sc_tcp s) (sc_iface s);
                     append_entries nf ifs ign r l1) = Ok l' -> P l') as Hstep.
  { intros s Hs. destruct (sconfig_append ifs l (sc_addr s) (sc_udp s) (sc_tcp s) (sc_iface s)) as [l1| |] eqn:E; cbn [bind] in Hs; try discriminate.
    eapply IH; [exact Hs|]. eapply P_append; eassumption. }
  destruct (parse_nameserver_uri nf e) as [s| | |k]; try discriminate; [apply (Hstep s); exact H|].
  destruct (parse_nameserver nf e) as [s|st|k]; try discriminate; [apply (Hstep s); exact H|].
  destruct ign; [eapply IH; eassumption|discriminate].
Qed.

Definition sys_inv (s : sysconfig) : Prop := P (s_sconfig s).

Lemma set_options_loop_sconfig opts : forall cfg cfg', set_options_loop cfg opts = Ok cfg' -> s_sconfig cfg' = s_sconfig cfg.
Proof.
  induction opts as [|o r IH]; intros cfg cfg' H; cbn [set_options_loop] in H; [apply Ok_inj in H; subst; reflexivity|].
  destruct (process_option cfg o) as [c1|s|k] eqn:E; try discriminate.
  - rewrite (IH _ _ H). unfold process_option in E.
    destruct (buf_split_str [ch_colon] true false false 2 o) as [kv| |]; cbn [bind] in E; try discriminate.
    destruct kv as [|key vr]; [discriminate|]. destruct (option_value vr);
    repeat match goal with H0 : context [if ?b then _ else _] |- _ => destruct b end; try discriminate; apply Ok_inj in E; subst; reflexivity.
  - destruct (s =? ARES_ENOMEM); [discriminate|]. apply (IH _ _ H).
Qed.

Lemma config_lookup_sconfig cfg b s cfg' : config_lookup cfg b s = Ok cfg' -> s_sconfig cfg' = s_sconfig cfg.
Proof.
  unfold config_lookup. destruct (buf_split_str s true false false 0 b); try (intros H; apply Ok_inj in H; subst; reflexivity).
  destruct (lookup_fold a []) as [ls| |]; cbn [bind]; try discriminate.
  destruct ls; intros H; apply Ok_inj in H; subst; reflexivity.
Qed.

Lemma config_search_sconfig cfg s n cfg' : config_search cfg s n = Ok cfg' -> s_sconfig cfg' = s_sconfig cfg.
Proof.
  unfold config_search. destruct s as [|s0 sr]; [intros H; apply Ok_inj in H; subst; reflexivity|].
  destruct (buf_split_str s_sep_domains false true true 0 (s0 :: sr)) as [[|x l]| |]; intros H; apply Ok_inj in H; subst; reflexivity.
Qed.

Lemma resolv_line_inv fx ifs cfg l cfg' : parse_resolv_line_gen nf fx ifs cfg l = Ok cfg' -> sys_inv cfg -> sys_inv cfg'.
Proof.
  unfold parse_resolv_line_gen. destruct l as [|c r]; [intros H; apply Ok_inj in H; subst; auto|].
  destruct ((c =? ch_hash) || (c =? ch_semi))%N; [intros H; apply Ok_inj in H; subst; auto|].
  cbv zeta.
  destruct (fst (span (fun c0 => negb (isspace c0)) (c :: r))) as [|k0 k]; [intros H; apply Ok_inj in H; subst; auto|].
  destruct (fetch_string 32 (k0 :: k)) as [o| |]; try (intros H; apply Ok_inj in H; subst; auto).
  destruct (fetch_string 512 _) as [v0| |]; try (intros H; apply Ok_inj in H; subst; auto).
  destruct (str_trim v0) as [|v1 vr]; [intros H; apply Ok_inj in H; subst; auto|].
  unfold resolv_dispatch, sys_inv.
  destruct (kw o k_domain).
  { destruct (s_domains cfg); intros H F; [rewrite (config_search_sconfig _ _ _ _ H); exact F|apply Ok_inj in H; subst; exact F]. }
  destruct (kw o k_lookup || kw o k_hostresorder).
  { intros H F. rewrite (config_lookup_sconfig _ _ _ _ H). exact F. }
  destruct (kw o k_search).
  { intros H F. rewrite (config_search_sconfig _ _ _ _ H). exact F. }
  destruct (kw o k_nameserver).
  { unfold sconfig_append_fromstr.
    destruct (append_entries nf ifs true _ (s_sconfig cfg)) as [l'| |] eqn:E; try discriminate.
    intros H F. apply Ok_inj in H. subst cfg'. cbn [set_sconfig s_sconfig]. eapply append_entries_inv; eassumption. }
  destruct (kw o k_sortlist).
  { destruct (parse_sortlist nf (v1 :: vr)) as [sl|s|k']; try discriminate.
    - destruct sl; intros H F; apply Ok_inj in H; subst; destruct fx; exact F.
    - destruct (s =? ARES_ENOMEM); [discriminate|]. intros H F; apply Ok_inj in H; subst. destruct fx; exact F. }
  destruct (kw o k_options).
  { unfold set_options. intros H F. rewrite (set_options_loop_sconfig _ _ _ H). exact F. }
  intros H F; apply Ok_inj in H; subst; exact F.
Qed.

Lemma db_line_inv d seps cfg l cfg' : parse_db_line d seps cfg l = Ok cfg' -> sys_inv cfg -> sys_inv cfg'.
Proof.
  unfold parse_db_line, sys_inv. destruct l as [|c r]; [intros H; apply Ok_inj in H; subst; auto|].
  destruct (c =? ch_hash)%N; [intros H; apply Ok_inj in H; subst; auto|].
  destruct (buf_split [d] true false false 2 (c :: r)) as [|a [|b [|x y]]]; try (intros H; apply Ok_inj in H; subst; auto).
  destruct (fetch_string 32 a) as [o| |]; try (intros H; apply Ok_inj in H; subst; auto).
  destruct (kw o k_hosts); [|intros H; apply Ok_inj in H; subst; auto].
  intros H F. rewrite (config_lookup_sconfig _ _ _ _ H). exact F.
Qed.

Lemma process_lines_inv cb : (forall c l c', cb c l = Ok c' -> sys_inv c -> sys_inv c') ->
  forall ls cfg cfg', process_lines cb cfg ls = Ok cfg' -> sys_inv cfg -> sys_inv cfg'.
Proof.
  intros Hcb. induction ls as [|l r IH]; intros cfg cfg' H F; cbn [process_lines] in H; [apply Ok_inj in H; subst; exact F|].
  destruct (cb cfg l) as [c1| |] eqn:E; cbn [bind] in H; try discriminate.
  eapply IH; [exact H|]. eapply Hcb; eassumption.
Qed.

Lemma process_file_inv cb : (forall c l c', cb c l = Ok c' -> sys_inv c -> sys_inv c') ->
  forall f cfg cfg', process_file cb cfg f = Ok cfg' -> sys_inv cfg -> sys_inv cfg'.
Proof. intros Hcb [content|] cfg cfg' H F; cbn [process_file] in H; [eapply process_lines_inv; eassumption|apply Ok_inj in H; subst; exact F]. Qed.

Lemma read_sysconfig_inv ifs e s : P None -> read_sysconfig nf ifs e = Ok s -> sys_inv s.
Proof.
  unfold read_sysconfig, init_sysconfig_files. intros P0 H.
  destruct (process_file (parse_resolv_line nf ifs) sys_init (f_resolv (e_files e))) as [c1| |] eqn:E1; cbn [bind] in H; try discriminate.
  destruct (process_file parse_nsswitch_line c1 (f_nsswitch (e_files e))) as [c2| |] eqn:E2; cbn [bind] in H; try discriminate.
  destruct (process_file parse_svcconf_line c2 (f_netsvc (e_files e))) as [c3| |] eqn:E3; cbn [bind] in H; try discriminate.
  destruct (process_file parse_svcconf_line c3 (f_svc (e_files e))) as [c4| |] eqn:E4; cbn [bind] in H; try discriminate.
  assert (sys_inv c4) as I4.
  { eapply process_file_inv; [|exact E4|]. { intros; eapply db_line_inv; eassumption. }
    eapply process_file_inv; [|exact E3|]. { intros; eapply db_line_inv; eassumption. }
    eapply process_file_inv; [|exact E2|]. { intros; eapply db_line_inv; eassumption. }
    eapply process_file_inv; [|exact E1|]. { intros; eapply resolv_line_inv; eassumption. }
    exact P0. }
  unfold init_by_environment in H. unfold sys_inv in *.
  destruct (e_localdomain e) as [d|].
  - destruct (config_search c4 d 1) as [c5| |] eqn:E5; cbn [bind] in H; try discriminate.
    pose proof (config_search_sconfig _ _ _ _ E5) as S5.
    destruct (e_res_options e); [|apply Ok_inj in H; subst; rewrite S5; exact I4].
    unfold set_options in H. destruct b; [apply Ok_inj in H; subst; rewrite S5; exact I4|]. rewrite (set_options_loop_sconfig _ _ _ H), S5. exact I4.
  - cbn [bind] in H. destruct (e_res_options e); [|apply Ok_inj in H; subst; exact I4].
    unfold set_options in H. destruct b; [apply Ok_inj in H; subst; exact I4|]. rewrite (set_options_loop_sconfig _ _ _ H). exact I4.
Qed.

End Preserved.

(* a list that exists holds at least one entry (fixes/C15-no-empty-server-list.patch) *)
Definition list_nonempty (l : option (list sconf)) : Prop := l <> Some [].

Lemma sconfig_append_nonempty ifs l a u t i l' : sconfig_append ifs l a u t i = Ok l' -> list_nonempty l -> list_nonempty l'.
Proof.
  unfold sconfig_append, list_nonempty. destruct (addr_blacklisted a); [intros H; apply Ok_inj in H; subst; auto|].
  destruct (addr_is_linklocal a).
  - destruct i; [intros H; apply Ok_inj in H; subst; auto|].
    destruct (sconfig_linklocal ifs (n :: i)) as [[[nm sc]|]| |]; cbn [bind]; try discriminate; intros H F; apply Ok_inj in H; subst; auto.
    intros E. inversion E as [E']. apply app_eq_nil in E' as [_ E']. discriminate.
  - intros H F. apply Ok_inj in H. subst. intros E. inversion E as [E']. apply app_eq_nil in E' as [_ E']. discriminate.
Qed.

Lemma sconfig_append_entry_inv ifs l a u t i l' :
  sconfig_append ifs l a u t i = Ok l' -> Forall entry_inv (olist l) -> Forall entry_inv (olist l').
Proof. apply sconfig_append_inv. Qed.

Lemma read_sysconfig_nonempty ifs e s : read_sysconfig nf ifs e = Ok s -> s_sconfig s <> Some [].
Proof. intros H. apply (read_sysconfig_inv list_nonempty sconfig_append_nonempty ifs e s); [discriminate|exact H]. Qed.

Lemma read_sysconfig_entry_inv ifs e s : read_sysconfig nf ifs e = Ok s -> Forall entry_inv (olist (s_sconfig s)).
Proof. intros H. apply (read_sysconfig_inv (fun l => Forall entry_inv (olist l)) sconfig_append_entry_inv ifs e s); [constructor|exact H]. Qed.

(* every channel ares_init_options returns *)
Theorem init_options_no_stray e o m c : init_options nf e o m = Ok c -> Forall no_stray_iface (c_servers c).
Proof.
  unfold init_options. intros H.
  destruct (init_by_options o m) as [c0| |] eqn:E0; cbn [bind] in H; try discriminate.
  destruct (init_by_sysconfig nf e (chan_set_ifs c0 (e_defifs e))) as [c1| |] eqn:E1; cbn [bind] in H; try discriminate.
  destruct (init_by_defaults e c1) as [c2| |] eqn:E2; cbn [bind] in H; try discriminate.
  apply Ok_inj in H. subst c. cbn [c_servers].
  assert (Forall no_stray_iface (c_servers c0)) as F0.
  { unfold init_by_options in E0. cbv zeta in E0. apply Ok_inj in E0. subst c0. cbn [c_servers].
    unfold opt_servers. destruct (has _ B_SERVERS); [|constructor]. destruct (o_servers o) as [|b0 br]; [constructor|].
    cbn [snd]. apply servers_update_inv; [constructor|].
    apply Forall_forall. intros x Hx. apply in_map_iff in Hx as (b & <- & _). unfold entry_inv. cbn. auto. }
  assert (Forall no_stray_iface (c_servers c1)) as F1.
  { unfold init_by_sysconfig in E1. destruct (read_sysconfig nf (c_ifs (chan_set_ifs c0 (e_defifs e))) e) as [s|st|k] eqn:Er; try discriminate.
    - apply Ok_inj in E1. subst c1. unfold sysconfig_apply, sysconfig_apply_gen. cbn [chan_set_ifs c_servers c_optmask c_flags c_udp c_tcp].
      pose proof (read_sysconfig_entry_inv _ _ _ Er) as Is.
      destruct (s_sconfig s) as [l|]; [|exact F0]. destruct (has (c_optmask c0) B_SERVERS); [exact F0|].
      apply servers_update_inv; [exact F0|exact Is].
    - destruct (st =? NotModelled); [discriminate|]. apply Ok_inj in E1. subst c1. exact F0. }
  unfold init_by_defaults in E2.
  destruct (match c_servers c1 with [] => _ | _ => _ end) as [srv| |] eqn:Es; cbn [bind] in E2; try discriminate.
  apply Ok_inj in E2. subst c2. cbn [c_servers].
  destruct (c_servers c1) as [|s0 sr].
  - destruct (Z.testbit _ 9); [discriminate|]. apply Ok_inj in Es. subst srv.
    apply servers_update_inv; [constructor|]. constructor; [|constructor]. unfold entry_inv. cbn. auto.
  - apply Ok_inj in Es. subst srv. exact F1.
Qed.

(* the flags of a channel the application gave no flags to never contain ARES_FLAG_PRIMARY *)
Theorem init_options_primary e o m c :
  init_options nf e o m = Ok c -> has (c_optmask c) B_FLAGS = false -> Z.testbit (c_flags c) 1 = false.
Proof.
  unfold init_options. intros H.
  destruct (init_by_options o m) as [c0| |] eqn:E0; cbn [bind] in H; try discriminate.
  destruct (init_by_sysconfig nf e (chan_set_ifs c0 (e_defifs e))) as [c1| |] eqn:E1; cbn [bind] in H; try discriminate.
  destruct (init_by_defaults e c1) as [c2| |] eqn:E2; cbn [bind] in H; try discriminate.
  apply Ok_inj in H. subst c. cbn [c_optmask c_flags].
  unfold init_by_defaults in E2.
  destruct (match c_servers c1 with [] => _ | _ => _ end) as [srv| |]; cbn [bind] in E2; try discriminate.
  apply Ok_inj in E2. subst c2. cbn [c_optmask c_flags]. intros Hb. rewrite Hb. reflexivity.
Qed.

End WithNet.
