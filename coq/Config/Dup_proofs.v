(* C16_dup: ares_dup reproduces the covered option fields (save_init_effective), the local
   device / addresses / socket functions, and - when the application set the servers - the
   server list, through its text form (csv_fixpoint_any). *)
From CAres.Config Require Import Spec Options_proofs Csv_proofs Inv_proofs.
From CAres.Gen Require Import Consts.
Local Open Scope Z_scope.

Section WithNet.
Variable nf : netfns.

Lemma covered_same_set_local c d ldev lip4 lip6 ifs : covered_same c d -> covered_same c (chan_set_local d ldev lip4 lip6 ifs).
Proof. intros [H1 H2 H3 H4 H5 H6 H7 H8 H9 H10 H11 H12 H13 H14 H15 H16 H17 H18 H19]. constructor; assumption. Qed.

Lemma covered_same_set_servers c d l : covered_same c d -> covered_same c (chan_set_servers d l true).
Proof.
  intros [H1 H2 H3 H4 H5 H6 H7 H8 H9 H10 H11 H12 H13 H14 H15 H16 H17 H18 H19]. constructor; try assumption.
  intros b Hb Hne. cbn [chan_set_servers c_optmask]. rewrite has_setb_neq; [apply H1; assumption| |congruence].
  unfold B_SERVERS. lia.
Qed.

(* Full statement: dup c agrees with c on every covered field, on the local settings and on the
   ordered server list.  Proved for channels satisfying chan_wf whose servers satisfy
   server_ok (plain or dns:// text form) / pairwise difference, with two side
   conditions on the intermediate channel d0 = init (save c) that hold by construction but are
   not yet proved from the model of ares_init_options: its servers carry no stray interface
   name, and ARES_FLAG_PRIMARY is only set when c has a single server. *)
Theorem dup_effective_partial g e src o m d0 d :
  chan_wf src -> (has (c_optmask src) B_DOMAINS = true -> c_domains src <> []) ->
  save_options g src = Ok (o, m) -> init_options nf e o m = Ok d0 ->
  Forall (server_ok nf (c_ifs src)) (c_servers src) ->
  (forall cu ct, distinct cu ct (c_servers src)) ->
  Forall no_stray_iface (c_servers d0) ->
  (Z.testbit (c_flags d0) 1 = true -> (length (c_servers src) <= 1)%nat) ->
  dup nf g e src = Ok d ->
  covered_same src d /\
  c_ldev d = c_ldev src /\ c_lip4 d = c_lip4 src /\ c_lip6 d = c_lip6 src /\ c_ifs d = c_ifs src /\
  (has m B_SERVERS = true -> c_servers d = c_servers src).
Proof.
  intros W Hdom Hs Hi F D Hold P Hd.
  pose proof (save_init_effective nf g e src o m d0 W Hdom Hs Hi) as CS.
  unfold dup in Hd. rewrite Hs in Hd. cbn [bind] in Hd. rewrite Hi in Hd. cbn [bind] in Hd.
  destruct (has m B_SERVERS) eqn:Eb.
  - destruct (get_servers_csv nf (c_servers src)) as [csv| |] eqn:Ec; try discriminate.
    unfold chan_set_csv in Hd. cbn [chan_set_local c_ifs c_flags c_udp c_tcp c_servers] in Hd.
    rewrite (csv_fixpoint_any nf (c_ifs src) (c_flags d0) (c_udp d0) (c_tcp d0) (c_servers d0) (c_servers src) csv
               F (D _ _) Hold P Ec) in Hd.
    cbn [bind] in Hd. apply Ok_inj in Hd. subst d.
    split; [apply covered_same_set_servers; apply covered_same_set_local; exact CS|].
    cbn [chan_set_servers chan_set_local c_ldev c_lip4 c_lip6 c_ifs c_servers]. repeat split; reflexivity.
  - apply Ok_inj in Hd. subst d.
    split; [apply covered_same_set_local; exact CS|].
    cbn [chan_set_local c_ldev c_lip4 c_lip6 c_ifs]. repeat split; try reflexivity. discriminate.
Qed.

(* the two side conditions follow from the model of ares_init_options (Inv_proofs.v): only
   hypotheses about the source channel remain *)
Theorem dup_effective g e src d :
  chan_wf src -> (has (c_optmask src) B_DOMAINS = true -> c_domains src <> []) ->
  Forall (server_ok nf (c_ifs src)) (c_servers src) ->
  (forall cu ct, distinct cu ct (c_servers src)) ->
  (Z.testbit (c_flags src) 1 = true -> (length (c_servers src) <= 1)%nat) ->
  dup nf g e src = Ok d ->
  covered_same src d /\
  c_ldev d = c_ldev src /\ c_lip4 d = c_lip4 src /\ c_lip6 d = c_lip6 src /\ c_ifs d = c_ifs src /\
  (has (c_optmask src) B_SERVERS = true -> c_servers d = c_servers src).
Proof.
  intros W Hdom F D P Hd.
  pose proof Hd as Hd0. unfold dup in Hd0.
  destruct (save_options g src) as [[o m]| |] eqn:Hs; cbn [bind] in Hd0; try discriminate.
  destruct (init_options nf e o m) as [d0| |] eqn:Hi; cbn [bind] in Hd0; try discriminate.
  pose proof (save_init_effective nf g e src o m d0 W Hdom Hs Hi) as CS.
  assert (m = c_optmask src) as Em.
  { unfold save_options in Hs. destruct (_ || _ || _ || _); [discriminate|]. apply Ok_inj in Hs. injection Hs as _ Hm.
    subst m. apply i32_small. exact (wf_mask src W). }
  assert (Z.testbit (c_flags d0) 1 = true -> (length (c_servers src) <= 1)%nat) as P0.
  { intros Hp. destruct (has (c_optmask src) B_FLAGS) eqn:Ef.
    - apply P. rewrite <- (cs_flags _ _ CS Ef). exact Hp.
    - assert (has (c_optmask d0) B_FLAGS = false) as Ef0.
      { rewrite (cs_mask _ _ CS B_FLAGS); [exact Ef|unfold B_FLAGS; lia|unfold B_FLAGS, B_SERVERS; lia]. }
      rewrite (init_options_primary nf e o m d0 Hi Ef0) in Hp. discriminate. }
  destruct (dup_effective_partial g e src o m d0 d W Hdom Hs Hi F D (init_options_no_stray nf e o m d0 Hi) P0 Hd)
    as (A & B0 & C & D0 & E0 & S).
  rewrite Em in S. exact (conj A (conj B0 (conj C (conj D0 (conj E0 S))))).
Qed.

End WithNet.
