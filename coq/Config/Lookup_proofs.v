(* C15 - the lookup order built by config_lookup() (resolv.conf "lookup" / "hostresorder", the
   "hosts:" line of nsswitch.conf / netsvc.conf / svc.conf): whatever words the line contains -
   any number, any repetition, any junk - the loop filling char lookupstr[32] never writes beyond
   the array and yields a string over 'b' and 'f' naming every source at most once (so at most
   two characters).  The duplicate test is what keeps the 32-byte stack array safe: with a test
   against the last character only, "file bind file bind ..." would both leave the documented
   range ("fbf") and overflow the array. *)
From CAres.Config Require Import Lines.
Local Open Scope N_scope.

Lemma NoDup_app_snoc_lookup {A} (l : list A) x : NoDup l -> ~ In x l -> NoDup (l ++ [x]).
Proof.
  intros Nd Hn. induction l as [| a l IH]; cbn; [constructor; [intros [] | constructor] |].
  inversion Nd as [| ? ? Ha Nd']; subst. constructor.
  - intros Hin. apply in_app_iff in Hin as [Hin | [<- | []]]; [exact (Ha Hin) | apply Hn; left; reflexivity].
  - apply IH; [exact Nd' | intros Hin; apply Hn; right; exact Hin].
Qed.

Definition lookup_ok (l : bytes) : Prop := NoDup l /\ Forall (fun c => c = 98 \/ c = 102) l.

Lemma lookup_ok_short l : lookup_ok l -> (length l <= 2)%nat.
Proof.
  intros [Nd Fa].
  assert (Hincl : incl l [98; 102]).
  { intros c Hc. rewrite Forall_forall in Fa. destruct (Fa c Hc) as [-> | ->]; cbn; auto. }
  apply (NoDup_incl_length Nd Hincl).
Qed.

Lemma mem_in c l : mem c l = true <-> In c l.
Proof.
  unfold mem. rewrite existsb_exists. split.
  - intros (x & Hx & E). apply N.eqb_eq in E. subst. exact Hx.
  - intros H. exists c. split; [exact H | apply N.eqb_refl].
Qed.

Lemma lookup_char_range v ch : lookup_char v = Some ch -> ch = 98 \/ ch = 102.
Proof.
  unfold lookup_char. intros H.
  destruct (bytes_caseeq v w_dns || bytes_caseeq v w_bind || bytes_caseeq v w_resolv || bytes_caseeq v w_resolve)%bool;
    [inversion H; auto |].
  destruct (bytes_caseeq v w_files || bytes_caseeq v w_file || bytes_caseeq v w_local)%bool; [inversion H; auto | discriminate].
Qed.

Theorem lookup_fold_ok vals : forall acc, lookup_ok acc ->
  exists ls, lookup_fold vals acc = Ok ls /\ lookup_ok ls.
Proof.
  induction vals as [| v r IH]; intros acc Hacc; cbn [lookup_fold].
  - exists acc. split; [reflexivity | exact Hacc].
  - destruct (lookup_char v) as [ch |] eqn:Ec; [| apply IH; exact Hacc].
    destruct (mem ch acc) eqn:Em; [apply IH; exact Hacc |].
    assert (Hnew : lookup_ok (acc ++ [ch])).
    { destruct Hacc as [Nd Fa]. split.
      - apply NoDup_app_snoc_lookup; [exact Nd |]. intros Hin. apply mem_in in Hin. congruence.
      - apply Forall_app. split; [exact Fa |]. constructor; [apply (lookup_char_range v); exact Ec | constructor]. }
    pose proof (lookup_ok_short _ Hacc) as Hlen.
    assert (G : (length acc <? 31)%nat = true) by (apply Nat.ltb_lt; lia).
    rewrite G. unfold guard. apply IH. exact Hnew.
Qed.

(* config_lookup as a whole: never UB / error, and the lookup order it leaves is in range *)
Definition lookups_ok (o : option bytes) : Prop := match o with None => True | Some l => lookup_ok l /\ l <> [] end.

Theorem config_lookup_range cfg buf seps :
  lookups_ok (s_lookups cfg) ->
  exists cfg', config_lookup cfg buf seps = Ok cfg' /\ lookups_ok (s_lookups cfg').
Proof.
  intros Hc. unfold config_lookup.
  destruct (buf_split_str seps true false false 0 buf) as [vals | s | k]; try (exists cfg; split; [reflexivity | exact Hc]).
  destruct (lookup_fold_ok vals []) as (ls & -> & Hls); [split; constructor |].
  cbn. destruct ls as [| c l]; [exists cfg; split; [reflexivity | exact Hc] |].
  eexists. split; [reflexivity |]. cbn. split; [exact Hls | discriminate].
Qed.

(* non-vacuity / the two boundary inputs of the seeded change: a source repeated non-adjacently *)
Example lookup_fold_examples :
  lookup_fold [w_file; w_bind; w_file] [] = Ok [102; 98] /\
  lookup_fold [w_bind; w_bind; w_file; w_file; w_dns] [] = Ok [98; 102].
Proof. vm_compute. split; reflexivity. Qed.
