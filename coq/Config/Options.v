(* struct ares_options and the option side of a channel's life (src/lib/ares_options.c,
   src/lib/ares_init.c): ares_init_by_options, ares_save_options, ares_init_options, ares_dup,
   ares_reinit, ares_set_sortlist, ares_set_servers_csv, ares_set_local_*. *)
From CAres.Config Require Export Sysconfig.
From CAres.Gen Require Import Consts.
Local Open Scope Z_scope.

Record options := mkOpts {
  o_flags : Z; o_timeout : Z; o_tries : Z; o_ndots : Z; o_udp : Z; o_tcp : Z;
  o_sndbuf : Z; o_rcvbuf : Z;
  o_servers : list bytes;        (* struct in_addr[], nservers = length *)
  o_domains : list bytes;        (* ndomains = length *)
  o_lookups : option bytes;      (* None: NULL pointer *)
  o_sscb : Z;                    (* identity of the callback/data pair, 0 = none *)
  o_sortlist : list apat;        (* nsort = length *)
  o_ednspsz : Z; o_udpmaxq : Z; o_maxtimeout : Z; o_qcache : Z;
  o_retry_chance : Z; o_retry_delay : Z }.

Definition i32 (z : Z) : Z := swrap 32 z.

Section WithNet.
Variable nf : netfns.

(* "if (optmask & BIT) { if (value <= 0) optmask &= ~BIT; else field = value; }" *)
Definition opt_pos (m b v dflt : Z) : Z * Z :=
  if has m b then (if v <=? 0 then (clrb m b, dflt) else (m, v)) else (m, dflt).

(* ARES_OPT_NDOTS: zero is a valid value *)
Definition opt_ndots (m v : Z) : Z * Z :=
  if has m B_NDOTS then (if v <? 0 then (clrb m B_NDOTS, 1) else (m, v)) else (m, 1).

(* ARES_OPT_TIMEOUTMS (the legacy ARES_OPT_TIMEOUT bit is dropped), else ARES_OPT_TIMEOUT
   (seconds, converted, clamped to INT_MAX ms) *)
Definition opt_timeout (m v : Z) : Z * Z :=
  if has m B_TIMEOUTMS then
    (if v <=? 0 then (clrb (clrb m B_TIMEOUT) B_TIMEOUTMS, 0) else (clrb m B_TIMEOUT, u32 v))
  else if has m B_TIMEOUT then
    (if 0 <? v then (setb (clrb m B_TIMEOUT) B_TIMEOUTMS, if 2147483 <? v then 2147483647 else u32 (u32 v * 1000))
     else (clrb m B_TIMEOUT, 0))
  else (m, 0).

Definition opt_lookups (m : Z) (l : option bytes) : Z * option bytes :=
  if has m B_LOOKUPS then (match l with None => (clrb m B_LOOKUPS, None) | Some x => (m, Some x) end) else (m, None).

Definition opt_qcache (m v : Z) : Z * Z :=
  if has m B_QUERY_CACHE then (m, v) else (setb m B_QUERY_CACHE, 3600).

Definition opt_servers (m flags udp tcp : Z) (l : list bytes) : Z * list server :=
  if has m B_SERVERS then
    match l with
    | [] => (clrb m B_SERVERS, [])
    | _ => (m, servers_update flags udp tcp [] (map (fun b => mkSconf (A4 b) 0 0 [] 0) l))
    end
  else (m, []).

(* ares_init_by_options on a zeroed channel (ndots = 1).  ARES_OPT_EVENT_THREAD is not modelled. *)
Definition init_by_options (o : options) (optmask : Z) : outcome chan :=
  let m0 := optmask in
  let flags := if has m0 B_FLAGS then u32 (o_flags o) else 0 in
  let p1 := opt_timeout m0 (o_timeout o) in
  let p2 := opt_pos (fst p1) B_TRIES (o_tries o) 0 in
  let p3 := opt_ndots (fst p2) (o_ndots o) in
  let p4 := opt_pos (fst p3) B_MAXTIMEOUTMS (o_maxtimeout o) 0 in
  let m4 := fst p4 in
  let rotate := if has m4 B_NOROTATE then false else has m4 B_ROTATE in
  let udp := if has m4 B_UDP_PORT then o_udp o else 0 in
  let tcp := if has m4 B_TCP_PORT then o_tcp o else 0 in
  let sscb := if has m4 B_SOCK_STATE_CB then o_sscb o else 0 in
  let p5 := opt_pos m4 B_SOCK_SNDBUF (o_sndbuf o) 0 in
  let p6 := opt_pos (fst p5) B_SOCK_RCVBUF (o_rcvbuf o) 0 in
  let p7 := opt_pos (fst p6) B_EDNSPSZ (o_ednspsz o) 0 in
  let m7 := fst p7 in
  let domains := if has m7 B_DOMAINS then o_domains o else [] in
  let p8 := opt_lookups m7 (o_lookups o) in
  let m8 := fst p8 in
  let sortlist := if has m8 B_SORTLIST then o_sortlist o else [] in
  let p9 := opt_pos m8 B_UDP_MAX_QUERIES (o_udpmaxq o) 0 in
  let p10 := opt_qcache (fst p9) (o_qcache o) in
  let p11 := opt_servers (fst p10) flags udp tcp (o_servers o) in
  let m := fst p11 in
  let chance := if has m B_SERVER_FAILOVER then o_retry_chance o else 0 in
  let delay := if has m B_SERVER_FAILOVER then o_retry_delay o else 0 in
  Ok (mkChan flags (snd p1) (snd p2) (snd p3) (snd p4) rotate udp tcp (snd p5) (snd p6) domains sortlist (snd p8)
             (snd p7) (snd p10) (snd p9) (u32 m) chance delay sscb (snd p11) [] 0 (repeat 0%N 16) None).

Definition chan_set_ifs (c : chan) (ifs : option iftab) : chan :=
  mkChan (c_flags c) (c_timeout c) (c_tries c) (c_ndots c) (c_maxtimeout c) (c_rotate c) (c_udp c) (c_tcp c)
         (c_sndbuf c) (c_rcvbuf c) (c_domains c) (c_sortlist c) (c_lookups c) (c_ednspsz c) (c_qcache c)
         (c_udpmaxq c) (c_optmask c) (c_retry_chance c) (c_retry_delay c) (c_sscb c) (c_servers c)
         (c_ldev c) (c_lip4 c) (c_lip6 c) ifs.

(* ares_init_options *)
Definition init_options (e : sysenv) (o : options) (optmask : Z) : outcome chan :=
  do c0 <- init_by_options o optmask;
  (* ares_set_socket_functions_def() runs before the system configuration is read *)
  do c1 <- init_by_sysconfig nf e (chan_set_ifs c0 (e_defifs e));
  do c2 <- init_by_defaults e c1;
  Ok (mkChan (c_flags c2) (c_timeout c2) (c_tries c2) (c_ndots c2) (c_maxtimeout c2) (c_rotate c2) (c_udp c2) (c_tcp c2)
             (c_sndbuf c2) (c_rcvbuf c2) (c_domains c2) (c_sortlist c2) (c_lookups c2) (c_ednspsz c2) (c_qcache c2)
             (c_udpmaxq c2) (c_optmask c2) (c_retry_chance c2) (c_retry_delay c2) (c_sscb c2) (c_servers c2)
             (c_ldev c2) (c_lip4 c2) (c_lip6 c2) (e_defifs e)).

(* ares_reinit (the reinit thread): the status of ares_init_by_sysconfig is only logged *)
Definition reinit (e : sysenv) (c : chan) : outcome chan := init_by_sysconfig nf e c.

(* ares_save_options.  Fields whose mask bit is clear are not written; [g] stands for whatever
   the caller's struct held there. *)
Definition save_options (g : Z) (c : chan) : outcome (options * Z) :=
  if match c_lookups c with None => true | Some _ => false end
     || match c_servers c with [] => true | _ => false end
     || (c_timeout c <=? 0) || (c_tries c <=? 0) then Err ARES_ENODATA
  else
    let m := c_optmask c in
    Ok (mkOpts (if has m B_FLAGS then i32 (c_flags c) else g)
               (if has m B_TIMEOUTMS then i32 (c_timeout c) else g)
               (if has m B_TRIES then i32 (c_tries c) else g)
               (if has m B_NDOTS then i32 (c_ndots c) else g)
               (if has m B_UDP_PORT then c_udp c else g)
               (if has m B_TCP_PORT then c_tcp c else g)
               (if has m B_SOCK_SNDBUF && (0 <? c_sndbuf c) then c_sndbuf c else g)
               (if has m B_SOCK_RCVBUF && (0 <? c_rcvbuf c) then c_rcvbuf c else g)
               (if has m B_SERVERS then
                  flat_map (fun sv => match sv_addr sv with A4 b => [b] | A6 _ => [] end) (c_servers c)
                else [])
               (if has m B_DOMAINS then c_domains c else [])
               (if has m B_LOOKUPS then c_lookups c else None)
               (if has m B_SOCK_STATE_CB then c_sscb c else g)
               (if has m B_SORTLIST then c_sortlist c else [])
               (if has m B_EDNSPSZ then i32 (c_ednspsz c) else g)
               (if has m B_UDP_MAX_QUERIES then i32 (c_udpmaxq c) else g)
               (if has m B_MAXTIMEOUTMS then i32 (c_maxtimeout c) else g)
               (if has m B_QUERY_CACHE then c_qcache c else g)
               (if has m B_SERVER_FAILOVER then c_retry_chance c else g)
               (if has m B_SERVER_FAILOVER then c_retry_delay c else g),
        i32 m).

(* ares_set_servers_csv / ares_set_servers_ports_csv on a channel *)
Definition chan_set_servers (c : chan) (servers : list server) (user : bool) : chan :=
  mkChan (c_flags c) (c_timeout c) (c_tries c) (c_ndots c) (c_maxtimeout c) (c_rotate c) (c_udp c) (c_tcp c)
         (c_sndbuf c) (c_rcvbuf c) (c_domains c) (c_sortlist c) (c_lookups c) (c_ednspsz c) (c_qcache c)
         (c_udpmaxq c) (if user then setb (c_optmask c) B_SERVERS else c_optmask c)
         (c_retry_chance c) (c_retry_delay c) (c_sscb c) servers (c_ldev c) (c_lip4 c) (c_lip6 c) (c_ifs c).

Definition chan_set_csv (c : chan) (csv : bytes) : outcome chan :=
  do l <- set_servers_csv nf (c_ifs c) (c_flags c) (c_udp c) (c_tcp c) (c_servers c) csv;
  Ok (chan_set_servers c l true).

(* ares_set_servers_ports: entries are taken as given (no interface lookup) *)
Definition chan_set_ports (c : chan) (l : list sconf) : chan :=
  chan_set_servers c (servers_update (c_flags c) (c_udp c) (c_tcp c) (c_servers c) l) true.

(* ares_set_sortlist: (status, channel) *)
Definition chan_set_sortlist (c : chan) (str : bytes) : outcome (Z * chan) :=
  match parse_sortlist nf str with
  | Ok [] => Ok (ARES_SUCCESS, c)
  | Ok l => Ok (ARES_SUCCESS,
                mkChan (c_flags c) (c_timeout c) (c_tries c) (c_ndots c) (c_maxtimeout c) (c_rotate c) (c_udp c) (c_tcp c)
                       (c_sndbuf c) (c_rcvbuf c) (c_domains c) l (c_lookups c) (c_ednspsz c) (c_qcache c)
                       (c_udpmaxq c) (setb (c_optmask c) B_SORTLIST)
                       (c_retry_chance c) (c_retry_delay c) (c_sscb c) (c_servers c) (c_ldev c) (c_lip4 c) (c_lip6 c) (c_ifs c))
  | Err s => Ok (s, c)
  | UB k => UB k
  end.

Definition chan_set_local (c : chan) (ldev : bytes) (lip4 : Z) (lip6 : bytes) (ifs : option iftab) : chan :=
  mkChan (c_flags c) (c_timeout c) (c_tries c) (c_ndots c) (c_maxtimeout c) (c_rotate c) (c_udp c) (c_tcp c)
         (c_sndbuf c) (c_rcvbuf c) (c_domains c) (c_sortlist c) (c_lookups c) (c_ednspsz c) (c_qcache c)
         (c_udpmaxq c) (c_optmask c) (c_retry_chance c) (c_retry_delay c) (c_sscb c) (c_servers c) ldev lip4 lip6 ifs.

(* ares_dup *)
Definition dup (g : Z) (e : sysenv) (src : chan) : outcome chan :=
  do sv <- save_options g src;
  let '(opts, optmask) := sv in
  do d0 <- init_options e opts optmask;
  let d1 := chan_set_local d0 (c_ldev src) (c_lip4 src) (c_lip6 src) (c_ifs src) in
  if has optmask B_SERVERS then
    match get_servers_csv nf (c_servers src) with
    | Ok csv => chan_set_csv d1 csv
    | Err _ => Err ARES_ENOMEM
    | UB k => UB k
    end
  else Ok d1.

End WithNet.
