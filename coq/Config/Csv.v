(* Server list of a channel and its text form (src/lib/ares_update_servers.c):
   ares_sconfig_get_port, ares_server_isdup, ares_server_find, ares_servers_update,
   ares_get_server_addr (plain and dns:// URI form), ares_get_servers_csv, set_servers_csv. *)
From CAres.Config Require Export Lines.
From CAres.Gen Require Import Consts LeafFns.
Local Open Scope Z_scope.

Record server := mkServer { sv_addr : addr; sv_udp : Z; sv_tcp : Z; sv_iface : bytes; sv_scope : Z }.

(* ares_sconfig_get_port: the function translated from the C source (Gen/LeafFns.v); the port
   of the entry, else the channel's default for that protocol, else 53 *)
Definition eff_port (chan_port entry_port : Z) : Z :=
  match c_ares_sconfig_get_port 0 0 entry_port 0 chan_port with
  | Ok p => p
  | _ => 53
  end.

(* ares_server_use_uri (translated from the C source): the URI form is needed *)
Definition use_uri (tcp udp : Z) : bool :=
  match c_ares_server_use_uri tcp udp with
  | Ok r => negb (r =? 0)
  | _ => false
  end.

Definition sconf_match (cudp ctcp : Z) (a b : sconf) : bool :=
  addr_eqb (sc_addr a) (sc_addr b) &&
  (eff_port ctcp (sc_tcp a) =? eff_port ctcp (sc_tcp b)) &&
  (eff_port cudp (sc_udp a) =? eff_port cudp (sc_udp b)).

(* entries that survive ares_server_isdup: first occurrences *)
Fixpoint dedup_sconf (cudp ctcp : Z) (l seen : list sconf) : list sconf :=
  match l with
  | [] => []
  | s :: r => if existsb (sconf_match cudp ctcp s) seen then dedup_sconf cudp ctcp r seen
              else s :: dedup_sconf cudp ctcp r (seen ++ [s])
  end.

Definition server_matches (cudp ctcp : Z) (s : sconf) (sv : server) : bool :=
  addr_eqb (sv_addr sv) (sc_addr s) && (sv_tcp sv =? eff_port ctcp (sc_tcp s)) && (sv_udp sv =? eff_port cudp (sc_udp s)).

(* ares_server_find + the update of an existing server, or ares_server_create *)
Definition update_one (cudp ctcp : Z) (old : list server) (s : sconf) : server :=
  match find (server_matches cudp ctcp s) old with
  | Some sv => match sc_iface s with
               | [] => sv
               | i => mkServer (sv_addr sv) (sv_udp sv) (sv_tcp sv) i (sc_scope s)
               end
  | None => match sc_iface s with
            | [] => mkServer (sc_addr s) (eff_port cudp (sc_udp s)) (eff_port ctcp (sc_tcp s)) [] 0
            | i => mkServer (sc_addr s) (eff_port cudp (sc_udp s)) (eff_port ctcp (sc_tcp s)) i (sc_scope s)
            end
  end.

(* ares_servers_update: the new ordered server list (no server has failures in this model, so
   the skip list order is the configuration order) *)
Definition servers_update (flags cudp ctcp : Z) (old : list server) (new : list sconf) : list server :=
  let l := map (update_one cudp ctcp old) (dedup_sconf cudp ctcp new []) in
  if Z.testbit flags 1 (* ARES_FLAG_PRIMARY *) then firstn 1 l else l.

Section WithNet.
Variable nf : netfns.

Definition s_dns_prefix : bytes := Eval compute in (w_dns ++ s_scheme_sep)%list.
Definition s_q_tcpport : bytes := Eval compute in (ch_qm :: s_tcpport_eq)%list.

(* ares_get_server_addr; Err: the URI could not be built (ares_get_servers_csv returns NULL) *)
Definition get_server_addr (sv : server) : outcome bytes :=
  let a := nf_ntop nf (sv_addr sv) in
  if use_uri (sv_tcp sv) (sv_udp sv) then
    let host := match sv_iface sv with [] => a | i => (a ++ [ch_pct] ++ i)%list end in
    match uri_set_host nf (firstn 255 host) with
    | None => Err ARES_EBADNAME
    | Some h =>
      let v6 := mem ch_pct h || match nf_pton6 nf h with Some _ => true | None => false end in
      Ok (s_dns_prefix ++ (if v6 then [ch_lbr] ++ h ++ [ch_rbr] else h)
          ++ (if 0 <? sv_udp sv then [ch_colon] ++ dec_of_Z (sv_udp sv) else [])
          ++ s_q_tcpport ++ dec_of_Z (sv_tcp sv))%list
    end
  else
    Ok ((match sv_addr sv with A6 _ => [ch_lbr] ++ a ++ [ch_rbr] | A4 _ => a end)
        ++ [ch_colon] ++ dec_of_Z (sv_udp sv)
        ++ (match sv_iface sv with [] => [] | i => [ch_pct] ++ i end))%list.

Fixpoint csv_join (l : list server) (acc : bytes) : outcome bytes :=
  match l with
  | [] => Ok acc
  | sv :: r => do t <- get_server_addr sv;
               csv_join r (match acc with [] => t | _ => acc ++ [ch_comma] ++ t end)%list
  end.

(* ares_get_servers_csv *)
Definition get_servers_csv (l : list server) : outcome bytes := csv_join l [].

(* set_servers_csv: the new server list, or the error status (channel unchanged) *)
Definition set_servers_csv (ifs : option iftab) (flags cudp ctcp : Z) (old : list server) (csv : bytes)
  : outcome (list server) :=
  match csv with
  | [] => Ok (servers_update flags cudp ctcp old [])
  | _ => do l <- sconfig_append_fromstr nf ifs None csv false;
         Ok (servers_update flags cudp ctcp old (match l with Some x => x | None => [] end))
  end.

End WithNet.
