(* Which raw lines of a hosts file are junk by the format of hosts(5):
     line := blanks [ address blanks+ name (blanks+ name)* ] [ '#' comment ]
   A line is junk when it is blank, a comment, does not start with an address (IPv4 or IPv6
   text of at most 45 printable bytes), or is not followed by any usable name (a first name that
   is over-long or not printable makes the whole line malformed; a usable name is made of host
   name characters and differs from the address text). *)
From CAres.Config Require Export Hosts.
Local Open Scope N_scope.

Section WithNet.
Variable nf : netfns.

Definition usable_name (ip t : bytes) : bool :=
  match fetch_string 256 t with
  | Ok h => forallb is_hostnamech h && negb (bytes_caseeq ip h)
  | _ => false
  end.

(* the name tokens of the rest of a line, up to a token that starts a comment *)
Fixpoint name_tokens (toks : list bytes) : list bytes :=
  match toks with
  | [] => []
  | t :: r => match t with c :: _ => if c =? ch_hash then [] else t :: name_tokens r | [] => name_tokens r end
  end.

Inductive hjunk := HBlank | HComment | HBadAddress | HNoName.

Definition junk_hosts_class (raw : bytes) : option hjunk :=
  if mem ch_nl raw then None else
  match dropwhile is_ws_nolf raw with
  | [] => Some HBlank
  | (c :: _) as l1 =>
    if c =? ch_hash then Some HComment
    else
      let sp := span (fun c => negb (isspace c)) l1 in
      match fetch_string 46 (fst sp) with
      | Ok a =>
        match nf_pton nf a with
        | None => Some HBadAddress
        | Some addr =>
          let ip := nf_ntop nf addr in
          let names := name_tokens (buf_split s_ws false false false 0 (snd sp)) in
          match names with
          | [] => Some HNoName
          | t :: _ =>
            if match fetch_string 256 t with Ok _ => false | _ => true end then Some HNoName
            else if negb (existsb (usable_name ip) names) then Some HNoName else None
          end
        end
      | _ => Some HBadAddress
      end
  end.

Definition junk_hosts_line (raw : bytes) : bool :=
  match junk_hosts_class raw with Some _ => true | None => false end.

End WithNet.
