(* Refinement of the linked-list heap model (Dsa/LList.v) to the list specification. *)
From Coq Require Import Permutation.
From CAres.Dsa Require Import LList.
Local Open Scope nat_scope.

(* ------------------------------------------------------------------ *)
(* list lemmas                                                         *)
(* ------------------------------------------------------------------ *)
Lemma ll_upd_length {A} (l : list A) i x : length (ll_upd l i x) = length l.
Proof.
  revert i; induction l as [|y r IH]; intros i; simpl; [reflexivity|].
  destruct i; simpl; [reflexivity|]. now rewrite IH.
Qed.

Lemma ll_upd_nth_eq {A} (l : list A) i x : i < length l -> nth_error (ll_upd l i x) i = Some x.
Proof.
  revert i; induction l as [|y r IH]; intros i Hi; simpl in *; [lia|].
  destruct i; simpl; [reflexivity|]. apply IH; lia.
Qed.

Lemma ll_upd_nth_neq {A} (l : list A) i j x : i <> j -> nth_error (ll_upd l i x) j = nth_error l j.
Proof.
  revert i j; induction l as [|y r IH]; intros i j Hij; simpl; [reflexivity|].
  destruct i, j; simpl; try reflexivity; try lia. apply IH; lia.
Qed.

Lemma ll_upd_upd {A} (l : list A) i x y : ll_upd (ll_upd l i x) i y = ll_upd l i y.
Proof.
  revert i; induction l as [|z r IH]; intros i; simpl; [reflexivity|].
  destruct i; simpl; [reflexivity|]. now rewrite IH.
Qed.

Lemma ll_nth_lt {A} (l : list A) i x : nth_error l i = Some x -> i < length l.
Proof. intros H. apply nth_error_Some. congruence. Qed.

Lemma ll_ins_length {A} i (x : A) l : i <= length l -> length (ll_ins i x l) = S (length l).
Proof.
  intros Hi. unfold ll_ins. rewrite app_length. simpl. rewrite firstn_length, skipn_length. lia.
Qed.

Lemma ll_rem_length {A} i (l : list A) : i < length l -> length (ll_rem i l) = length l - 1.
Proof.
  intros Hi. unfold ll_rem. rewrite app_length, firstn_length, skipn_length. lia.
Qed.

Lemma ll_nth_firstn {A} (l : list A) n i : i < n -> nth_error (firstn n l) i = nth_error l i.
Proof.
  revert l i; induction n as [|n IH]; intros l i Hi; [lia|].
  destruct l as [|x l]; [destruct i; reflexivity|].
  destruct i as [|i]; simpl; [reflexivity|]. apply IH; lia.
Qed.

Lemma ll_nth_skipn {A} (l : list A) n i : nth_error (skipn n l) i = nth_error l (n + i).
Proof.
  revert l; induction n as [|n IH]; intros l; simpl; [reflexivity|].
  destruct l as [|x l]; [destruct i; reflexivity|]. apply IH.
Qed.

Lemma ll_ins_nth {A} i (x : A) l j : i <= length l ->
  nth_error (ll_ins i x l) j =
  if Nat.ltb j i then nth_error l j else if Nat.eqb j i then Some x else nth_error l (j - 1).
Proof.
  intros Hi. unfold ll_ins.
  destruct (Nat.ltb_spec j i) as [Hlt|Hge].
  - rewrite nth_error_app1 by (rewrite firstn_length; lia). apply ll_nth_firstn; assumption.
  - rewrite nth_error_app2 by (rewrite firstn_length; lia).
    rewrite firstn_length. replace (Nat.min i (length l)) with i by lia.
    destruct (Nat.eqb_spec j i) as [->|Hne].
    + rewrite Nat.sub_diag. reflexivity.
    + destruct (j - i) as [|k] eqn:Hk; [lia|]. simpl. rewrite ll_nth_skipn. f_equal. lia.
Qed.

Lemma ll_rem_nth {A} i (l : list A) j : i <= length l ->
  nth_error (ll_rem i l) j = if Nat.ltb j i then nth_error l j else nth_error l (S j).
Proof.
  intros Hi. unfold ll_rem.
  destruct (Nat.ltb_spec j i) as [Hlt|Hge].
  - rewrite nth_error_app1 by (rewrite firstn_length; lia). apply ll_nth_firstn; assumption.
  - rewrite nth_error_app2 by (rewrite firstn_length; lia).
    rewrite firstn_length. replace (Nat.min i (length l)) with i by lia.
    rewrite ll_nth_skipn. f_equal. lia.
Qed.

Lemma ll_ins_0 {A} (x : A) l : ll_ins 0 x l = x :: l.
Proof. reflexivity. Qed.

Lemma ll_ins_end {A} (x : A) l : ll_ins (length l) x l = l ++ [x].
Proof. unfold ll_ins. now rewrite firstn_all, skipn_all. Qed.

Lemma ll_nth_ext {A} (l1 l2 : list A) : (forall i, nth_error l1 i = nth_error l2 i) -> l1 = l2.
Proof.
  revert l2; induction l1 as [|x r IH]; intros l2 H.
  - destruct l2 as [|y r2]; [reflexivity|]. specialize (H 0). discriminate.
  - destruct l2 as [|y r2]; [specialize (H 0); discriminate|].
    pose proof (H 0) as H0. simpl in H0. injection H0 as ->. f_equal.
    apply IH. intros i. exact (H (S i)).
Qed.

Lemma ll_skipn_cons {A} (l : list A) i x : nth_error l i = Some x -> skipn i l = x :: skipn (S i) l.
Proof.
  revert i; induction l as [|y r IH]; intros i H; [destruct i; discriminate|].
  destruct i as [|i]; simpl in *; [congruence|]. apply IH; assumption.
Qed.

Lemma ll_firstn_snoc {A} (l : list A) i x : nth_error l i = Some x -> firstn (S i) l = firstn i l ++ [x].
Proof.
  revert i; induction l as [|y r IH]; intros i H; [destruct i; discriminate|].
  destruct i as [|i]; simpl in *; [congruence|]. f_equal. apply IH; assumption.
Qed.

Lemma ll_nodup_bound (l : list nat) n : NoDup l -> (forall x, In x l -> x < n) -> length l <= n.
Proof.
  intros Hnd Hlt. rewrite <- (seq_length n 0). apply NoDup_incl_length; [assumption|].
  intros x Hx. apply in_seq. specialize (Hlt x Hx). lia.
Qed.

(* ------------------------------------------------------------------ *)
(* the representation invariant                                        *)
(* ------------------------------------------------------------------ *)
Definition ll_exp_node (l : nat) (items : list (nat * Z)) (i : nat) (v : Z) : ll_node :=
  mkLN v (ll_id_before items i) (ll_id_at items (S i)) (Some l).

Definition ll_exp_list (d : bool) (items : list (nat * Z)) : ll_list :=
  mkLL (ll_id_at items 0) (ll_id_before items (length items)) d (length items).

(* list object l and the nodes of its members are exactly what the member sequence dictates *)
Definition ll_linked (h : ll_heap) (l : nat) (sl : ll_slist) : Prop :=
  nth_error (lh_lists h) l = Some (Some (ll_exp_list (sl_destr sl) (sl_items sl))) /\
  forall i n v, nth_error (sl_items sl) i = Some (n, v) ->
    nth_error (lh_nodes h) n = Some (Some (ll_exp_node l (sl_items sl) i v)).

Definition ll_has (s : ll_spec) (l : nat) (sl : ll_slist) : Prop :=
  nth_error (sp_lists s) l = Some (Some sl).

(* [fl]: a node that is allocated but in no list (between allocation / detach and attach) *)
Record ll_R (h : ll_heap) (s : ll_spec) (fl : option (nat * Z)) : Prop := mkR {
  R_nlists : length (lh_lists h) = length (sp_lists s);
  R_nnodes : length (lh_nodes h) = sp_next s;
  R_dead : forall l, nth_error (sp_lists s) l = Some None -> nth_error (lh_lists h) l = Some None;
  R_live : forall l sl, ll_has s l sl -> ll_linked h l sl /\ NoDup (ll_ids (sl_items sl));
  R_own : forall n nd, nth_error (lh_nodes h) n = Some (Some nd) ->
            (exists v, fl = Some (n, v)) \/
            (exists l sl i v, ll_has s l sl /\ nth_error (sl_items sl) i = Some (n, v));
  R_fl : forall n v, fl = Some (n, v) ->
            (exists nd, nth_error (lh_nodes h) n = Some (Some nd) /\ ln_data nd = v) /\
            (forall l sl i w, ll_has s l sl -> nth_error (sl_items sl) i <> Some (n, w)) }.

Definition ll_inv (h : ll_heap) (s : ll_spec) : Prop := ll_R h s None.

Lemma ll_inv_empty : ll_inv ll_heap_empty ll_spec_empty.
Proof.
  split; simpl; try reflexivity.
  - intros l H. destruct l; discriminate.
  - intros l sl H. unfold ll_has in H. destruct l; discriminate.
  - intros n nd H. destruct n; discriminate.
  - intros n v H. discriminate.
Qed.

Lemma ll_id_at_ids items i : ll_id_at items i = nth_error (ll_ids items) i.
Proof. unfold ll_id_at, ll_ids. symmetry. apply nth_error_map. Qed.

Lemma ll_id_at_some items i n v : nth_error items i = Some (n, v) -> ll_id_at items i = Some n.
Proof. intros H. unfold ll_id_at. now rewrite H. Qed.

Lemma ll_id_at_inv items i n : ll_id_at items i = Some n -> exists v, nth_error items i = Some (n, v).
Proof.
  unfold ll_id_at. destruct (nth_error items i) as [[m v]|]; simpl; intros H; [|discriminate].
  injection H as ->. eauto.
Qed.

Lemma ll_id_at_none items i : length items <= i -> ll_id_at items i = None.
Proof. intros H. unfold ll_id_at. apply nth_error_None in H. now rewrite H. Qed.

Lemma ll_nodup_pos items i j n v w :
  NoDup (ll_ids items) -> nth_error items i = Some (n, v) -> nth_error items j = Some (n, w) -> i = j.
Proof.
  intros Hnd Hi Hj.
  apply (proj1 (NoDup_nth_error (ll_ids items)) Hnd).
  - unfold ll_ids. rewrite map_length. eapply ll_nth_lt; eassumption.
  - rewrite <- !ll_id_at_ids. rewrite (ll_id_at_some _ _ _ _ Hi), (ll_id_at_some _ _ _ _ Hj). reflexivity.
Qed.

Section Inv.
Variables (h : ll_heap) (s : ll_spec) (fl : option (nat * Z)).
Hypothesis HR : ll_R h s fl.

Lemma ll_R_list l sl : ll_has s l sl ->
  nth_error (lh_lists h) l = Some (Some (ll_exp_list (sl_destr sl) (sl_items sl))).
Proof. intros H. exact (proj1 (proj1 (R_live _ _ _ HR l sl H))). Qed.

Lemma ll_R_node l sl i n v : ll_has s l sl -> nth_error (sl_items sl) i = Some (n, v) ->
  nth_error (lh_nodes h) n = Some (Some (ll_exp_node l (sl_items sl) i v)).
Proof. intros H Hi. exact (proj2 (proj1 (R_live _ _ _ HR l sl H)) i n v Hi). Qed.

Lemma ll_R_nodup l sl : ll_has s l sl -> NoDup (ll_ids (sl_items sl)).
Proof. intros H. exact (proj2 (R_live _ _ _ HR l sl H)). Qed.

(* a node is in at most one place *)
Lemma ll_R_unique l1 sl1 i1 v1 l2 sl2 i2 v2 n :
  ll_has s l1 sl1 -> nth_error (sl_items sl1) i1 = Some (n, v1) ->
  ll_has s l2 sl2 -> nth_error (sl_items sl2) i2 = Some (n, v2) ->
  l1 = l2 /\ sl1 = sl2 /\ i1 = i2 /\ v1 = v2.
Proof.
  intros H1 Hi1 H2 Hi2.
  pose proof (ll_R_node _ _ _ _ _ H1 Hi1) as N1.
  pose proof (ll_R_node _ _ _ _ _ H2 Hi2) as N2.
  rewrite N1 in N2. injection N2 as Hv _ _ Hl. subst l2.
  unfold ll_has in *. rewrite H1 in H2. injection H2 as <-.
  pose proof (ll_nodup_pos _ _ _ _ _ _ (ll_R_nodup _ _ H1) Hi1 Hi2) as ->.
  repeat split; assumption.
Qed.

Lemma ll_R_node_lt l sl i n v : ll_has s l sl -> nth_error (sl_items sl) i = Some (n, v) ->
  n < length (lh_nodes h).
Proof. intros H Hi. eapply ll_nth_lt. eapply ll_R_node; eassumption. Qed.

Lemma ll_R_len_bound l sl : ll_has s l sl -> length (sl_items sl) <= length (lh_nodes h).
Proof.
  intros H. replace (length (sl_items sl)) with (length (ll_ids (sl_items sl))) by apply map_length.
  apply ll_nodup_bound; [eapply ll_R_nodup; eassumption|].
  intros x Hx. apply In_nth_error in Hx. destruct Hx as [i Hi].
  rewrite <- ll_id_at_ids in Hi. apply ll_id_at_inv in Hi. destruct Hi as [v Hi].
  eapply ll_R_node_lt; eassumption.
Qed.
End Inv.

(* ------------------------------------------------------------------ *)
(* traversals                                                          *)
(* ------------------------------------------------------------------ *)
Lemma ll_rd_node_ok h n nd : nth_error (lh_nodes h) n = Some (Some nd) -> ll_rd_node h n = Ok nd.
Proof. intros H. unfold ll_rd_node. now rewrite H. Qed.
Lemma ll_rd_list_ok h l L : nth_error (lh_lists h) l = Some (Some L) -> ll_rd_list h l = Ok L.
Proof. intros H. unfold ll_rd_list. now rewrite H. Qed.

Lemma ll_fwd_linked h l sl : ll_linked h l sl ->
  forall k i fuel, i + k = length (sl_items sl) -> k <= fuel ->
  ll_fwd h fuel (ll_id_at (sl_items sl) i) =
  Ok (map (fun x => (fst x, snd x, Some l)) (skipn i (sl_items sl))).
Proof.
  intros [_ Hn]. induction k as [|k IH]; intros i fuel Hik Hf.
  - rewrite ll_id_at_none by lia. rewrite skipn_all2 by lia. destruct fuel; reflexivity.
  - destruct (nth_error (sl_items sl) i) as [[n v]|] eqn:Hi.
    2:{ apply nth_error_None in Hi. lia. }
    rewrite (ll_id_at_some _ _ _ _ Hi). destruct fuel as [|f]; [lia|]. simpl.
    rewrite (ll_rd_node_ok _ _ _ (Hn _ _ _ Hi)). simpl.
    rewrite (IH (S i) f) by lia. simpl.
    rewrite (ll_skipn_cons _ _ _ Hi). reflexivity.
Qed.

Lemma ll_bwd_linked h l sl : ll_linked h l sl ->
  forall i fuel, i <= length (sl_items sl) -> i <= fuel ->
  ll_bwd h fuel (ll_id_before (sl_items sl) i) = Ok (rev (firstn i (sl_items sl))).
Proof.
  intros [_ Hn]. induction i as [|i IH]; intros fuel Hi Hf.
  - simpl. destruct fuel; reflexivity.
  - destruct (nth_error (sl_items sl) i) as [[n v]|] eqn:Hnth.
    2:{ apply nth_error_None in Hnth. lia. }
    cbn [ll_id_before]. rewrite (ll_id_at_some _ _ _ _ Hnth).
    rewrite (ll_firstn_snoc _ _ _ Hnth). rewrite rev_app_distr.
    destruct fuel as [|f]; [lia|]. cbn [ll_bwd].
    rewrite (ll_rd_node_ok _ _ _ (Hn _ _ _ Hnth)). cbn [bind ll_exp_node ln_prev ln_data].
    rewrite (IH f) by lia. reflexivity.
Qed.

Lemma ll_tail_before items : ll_id_at items (length items - 1) = ll_id_before items (length items).
Proof.
  destruct items as [|x r]; [reflexivity|]. simpl length. replace (S (length r) - 1) with (length r) by lia.
  reflexivity.
Qed.

(* forward traversal, backward traversal and len of a live list are what the specification
   says; the fuel (number of nodes ever created) is never exhausted *)
Lemma ll_observe_list_ok h s l sl : ll_inv h s -> ll_has s l sl ->
  ll_observe_list h l = Ok (ll_spec_view l sl).
Proof.
  intros HR Hl. unfold ll_observe_list, ll_node_first, ll_node_last, ll_len.
  pose proof (ll_R_list _ _ _ HR _ _ Hl) as HL.
  pose proof (proj1 (R_live _ _ _ HR _ _ Hl)) as Hlk.
  pose proof (ll_R_len_bound _ _ _ HR _ _ Hl) as Hb.
  rewrite (ll_rd_list_ok _ _ _ HL). cbn [bind ll_exp_list ll_head ll_tail ll_cnt].
  rewrite (ll_fwd_linked _ _ _ Hlk (length (sl_items sl)) 0) by lia. cbn [bind].
  rewrite (ll_bwd_linked _ _ _ Hlk) by lia. cbn [bind].
  rewrite firstn_all. reflexivity.
Qed.

Lemma ll_observe_from_ok h s : ll_inv h s ->
  forall ls k, (forall i, nth_error ls i = nth_error (sp_lists s) (k + i)) ->
  forall hl, (forall i, nth_error hl i = nth_error (lh_lists h) (k + i)) ->
  ll_observe_from h hl k = Ok (ll_spec_observe_from ls k).
Proof.
  intros HR. induction ls as [|x r IH]; intros k Hs hl Hh.
  - destruct hl as [|y hr]; [reflexivity|].
    exfalso. pose proof (Hh 0) as H0. pose proof (Hs 0) as S0. simpl in H0, S0.
    symmetry in S0. apply nth_error_None in S0. rewrite <- (R_nlists _ _ _ HR) in S0.
    apply nth_error_None in S0. congruence.
  - destruct hl as [|y hr].
    { exfalso. pose proof (Hh 0) as H0. pose proof (Hs 0) as S0. simpl in H0, S0.
      symmetry in H0. apply nth_error_None in H0. rewrite (R_nlists _ _ _ HR) in H0.
      apply nth_error_None in H0. congruence. }
    assert (Hs' : forall i, nth_error r i = nth_error (sp_lists s) (S k + i)).
    { intros i. specialize (Hs (S i)). simpl in Hs. rewrite Hs. f_equal. lia. }
    assert (Hh' : forall i, nth_error hr i = nth_error (lh_lists h) (S k + i)).
    { intros i. specialize (Hh (S i)). simpl in Hh. rewrite Hh. f_equal. lia. }
    pose proof (Hs 0) as S0. pose proof (Hh 0) as H0. simpl in S0, H0.
    rewrite Nat.add_0_r in S0, H0. symmetry in S0, H0.
    destruct x as [sl|].
    + rewrite (ll_R_list _ _ _ HR _ _ S0) in H0. injection H0 as <-.
      cbn [ll_observe_from ll_spec_observe_from].
      rewrite (ll_observe_list_ok _ _ _ _ HR S0). cbn [bind].
      rewrite (IH (S k) Hs' hr Hh'). reflexivity.
    + rewrite (R_dead _ _ _ HR _ S0) in H0. injection H0 as <-.
      cbn [ll_observe_from ll_spec_observe_from]. apply IH; assumption.
Qed.

Lemma ll_observe_ok h s : ll_inv h s -> ll_observe h = Ok (ll_spec_observe s).
Proof.
  intros HR. unfold ll_observe, ll_spec_observe.
  apply (ll_observe_from_ok _ _ HR); intros i; reflexivity.
Qed.

(* ------------------------------------------------------------------ *)
(* how the invariant moves under heap changes                          *)
(* ------------------------------------------------------------------ *)
Definition ll_mem (items : list (nat * Z)) (m : nat) : Prop := exists i w, nth_error items i = Some (m, w).
Definition ll_isfl (fl : option (nat * Z)) (m : nat) : Prop := exists v, fl = Some (m, v).

Lemma ll_mem_in items m : ll_mem items m <-> In m (ll_ids items).
Proof.
  split.
  - intros [i [w H]]. unfold ll_ids. apply in_map_iff. exists (m, w). split; [reflexivity|].
    eapply nth_error_In; eassumption.
  - intros H. apply In_nth_error in H. destruct H as [i Hi].
    rewrite <- ll_id_at_ids in Hi. apply ll_id_at_inv in Hi. destruct Hi as [v Hi]. exists i, v. exact Hi.
Qed.

Lemma ll_mem_dec items m : ll_mem items m \/ ~ ll_mem items m.
Proof.
  destruct (in_dec Nat.eq_dec m (ll_ids items)) as [H|H].
  - left. apply ll_mem_in. exact H.
  - right. intros H'. apply H. apply ll_mem_in. exact H'.
Qed.

Lemma ll_isfl_dec fl m : ll_isfl fl m \/ ~ ll_isfl fl m.
Proof.
  destruct fl as [[n v]|].
  - destruct (Nat.eq_dec n m) as [->|Hne]; [left; exists v; reflexivity|].
    right. intros [w H]. congruence.
  - right. intros [w H]. discriminate.
Qed.

Lemma ll_sp_list_has s l sl : ll_has s l sl -> ll_sp_list s l = Some sl.
Proof. unfold ll_has, ll_sp_list. intros ->. reflexivity. Qed.

Lemma ll_sp_list_inv s l sl : ll_sp_list s l = Some sl -> ll_has s l sl.
Proof.
  unfold ll_has, ll_sp_list. destruct (nth_error (sp_lists s) l) as [[x|]|]; intros H; try discriminate.
  congruence.
Qed.

Lemma ll_sp_set_has s l sl items : ll_has s l sl ->
  ll_sp_set s l items = mkSP (ll_upd (sp_lists s) l (Some (mkSL (sl_destr sl) items))) (sp_next s).
Proof. intros H. unfold ll_sp_set. now rewrite (ll_sp_list_has _ _ _ H). Qed.

Lemma ll_has_upd s l x k l' sl' :
  l < length (sp_lists s) ->
  ll_has (mkSP (ll_upd (sp_lists s) l (Some x)) k) l' sl' <->
  (l' = l /\ sl' = x) \/ (l' <> l /\ ll_has s l' sl').
Proof.
  intros Hl. unfold ll_has. cbn [sp_lists].
  destruct (Nat.eq_dec l' l) as [->|Hne].
  - rewrite ll_upd_nth_eq by assumption. split.
    + intros H. injection H as <-. left. split; reflexivity.
    + intros [[_ ->]|[Hne _]]; [reflexivity|congruence].
  - rewrite ll_upd_nth_neq by congruence. split.
    + intros H. right. split; assumption.
    + intros [[Heq _]|[_ H]]; [congruence|exact H].
Qed.

Lemma ll_R_change h s fl l sl h' items' fl' :
  ll_R h s fl -> ll_has s l sl ->
  length (lh_lists h') = length (lh_lists h) ->
  (forall l', l' <> l -> nth_error (lh_lists h') l' = nth_error (lh_lists h) l') ->
  nth_error (lh_lists h') l = Some (Some (ll_exp_list (sl_destr sl) items')) ->
  length (lh_nodes h') = length (lh_nodes h) ->
  (forall i m w, nth_error items' i = Some (m, w) ->
     nth_error (lh_nodes h') m = Some (Some (ll_exp_node l items' i w))) ->
  NoDup (ll_ids items') ->
  (forall m, ~ ll_mem (sl_items sl) m -> ~ ll_isfl fl m ->
     nth_error (lh_nodes h') m = nth_error (lh_nodes h) m) ->
  (forall m nd, ll_mem (sl_items sl) m \/ ll_isfl fl m ->
     nth_error (lh_nodes h') m = Some (Some nd) -> ll_mem items' m \/ ll_isfl fl' m) ->
  (forall m v, fl' = Some (m, v) ->
     (exists nd, nth_error (lh_nodes h') m = Some (Some nd) /\ ln_data nd = v) /\
     ~ ll_mem items' m /\ (ll_mem (sl_items sl) m \/ ll_isfl fl m)) ->
  ll_R h' (ll_sp_set s l items') fl'.
Proof.
  intros HR Hl Hll Hlo Hln Hnl Hmem Hnd Hframe Hown Hfl.
  rewrite (ll_sp_set_has _ _ _ _ Hl).
  assert (Hlt : l < length (sp_lists s)) by (eapply ll_nth_lt; exact Hl).
  (* members of other lists are untouched *)
  assert (Hother : forall l' sl' i m w, l' <> l -> ll_has s l' sl' -> nth_error (sl_items sl') i = Some (m, w) ->
            ~ ll_mem (sl_items sl) m /\ ~ ll_isfl fl m).
  { intros l' sl' i m w Hne Hl' Hi. split.
    - intros [j [u Hj]]. destruct (ll_R_unique _ _ _ HR _ _ _ _ _ _ _ _ _ Hl' Hi Hl Hj) as [E _]. congruence.
    - intros [u Hu]. exact (proj2 (R_fl _ _ _ HR _ _ Hu) _ _ _ _ Hl' Hi). }
  split; cbn [sp_lists sp_next].
  - rewrite ll_upd_length, Hll. apply (R_nlists _ _ _ HR).
  - rewrite Hnl. apply (R_nnodes _ _ _ HR).
  - intros l' Hd. destruct (Nat.eq_dec l' l) as [->|Hne].
    + rewrite ll_upd_nth_eq in Hd by assumption. discriminate.
    + rewrite ll_upd_nth_neq in Hd by congruence. rewrite Hlo by assumption. apply (R_dead _ _ _ HR). exact Hd.
  - intros l' sl' Hh. apply ll_has_upd in Hh; [|assumption].
    destruct Hh as [[-> ->]|[Hne Hh]].
    + split; [|exact Hnd]. split; cbn [sl_items sl_destr]; assumption.
    + split; [|eapply ll_R_nodup; eassumption]. split.
      * rewrite Hlo by assumption. eapply ll_R_list; eassumption.
      * intros i m w Hi. destruct (Hother _ _ _ _ _ Hne Hh Hi) as [Hnm Hnf].
        rewrite (Hframe m Hnm Hnf). eapply ll_R_node; eassumption.
  - intros m nd Hm.
    destruct (ll_mem_dec (sl_items sl) m) as [Hin|Hnin].
    { destruct (Hown m nd (or_introl Hin) Hm) as [[i [w Hi]]|Hf]; [|left; exact Hf].
      right. exists l, (mkSL (sl_destr sl) items'), i, w. split; [|exact Hi].
      apply ll_has_upd; [assumption|]. left. split; reflexivity. }
    destruct (ll_isfl_dec fl m) as [Hf|Hnf].
    { destruct (Hown m nd (or_intror Hf) Hm) as [[i [w Hi]]|Hf']; [|left; exact Hf'].
      right. exists l, (mkSL (sl_destr sl) items'), i, w. split; [|exact Hi].
      apply ll_has_upd; [assumption|]. left. split; reflexivity. }
    rewrite (Hframe m Hnin Hnf) in Hm.
    destruct (R_own _ _ _ HR _ _ Hm) as [Hf|[l' [sl' [i [w [Hh Hi]]]]]]; [contradiction|].
    destruct (Nat.eq_dec l' l) as [->|Hne].
    { exfalso. apply Hnin. unfold ll_has in *. rewrite Hl in Hh. injection Hh as <-. exists i, w. exact Hi. }
    right. exists l', sl', i, w. split; [|exact Hi].
    apply ll_has_upd; [assumption|]. right. split; assumption.
  - intros m v Hf. destruct (Hfl m v Hf) as [Hnd' [Hnm Hold]]. split; [exact Hnd'|].
    intros l' sl' i w Hh Hi. apply ll_has_upd in Hh; [|assumption].
    destruct Hh as [[-> ->]|[Hne Hh]].
    + apply Hnm. exists i, w. exact Hi.
    + destruct (Hother _ _ _ _ _ Hne Hh Hi) as [Hnm' Hnf']. destruct Hold; contradiction.
Qed.

(* malloc of a node: it floats until attached *)
Lemma ll_R_alloc h s nd : ll_R h s None ->
  ll_R (mkLH (lh_nodes h ++ [Some nd]) (lh_lists h)) (mkSP (sp_lists s) (S (sp_next s)))
       (Some (length (lh_nodes h), ln_data nd)).
Proof.
  intros HR. split; cbn [lh_nodes lh_lists sp_lists sp_next].
  - apply (R_nlists _ _ _ HR).
  - rewrite app_length. simpl. rewrite (R_nnodes _ _ _ HR). lia.
  - apply (R_dead _ _ _ HR).
  - intros l sl Hh. change (ll_has s l sl) in Hh. split; [|eapply ll_R_nodup; eassumption]. split.
    + cbn [lh_lists]. eapply ll_R_list; eassumption.
    + intros i n v Hi. cbn [lh_nodes].
      rewrite nth_error_app1 by (eapply ll_R_node_lt; eassumption). eapply ll_R_node; eassumption.
  - intros m nd' Hm. destruct (Nat.lt_ge_cases m (length (lh_nodes h))) as [Hlt|Hge].
    + rewrite nth_error_app1 in Hm by assumption.
      destruct (R_own _ _ _ HR _ _ Hm) as [[v Hv]|H]; [discriminate|]. right. exact H.
    + left. rewrite nth_error_app2 in Hm by assumption.
      destruct (m - length (lh_nodes h)) as [|k] eqn:Hk; [|destruct k; discriminate].
      exists (ln_data nd). repeat f_equal. lia.
  - intros n v Hf. injection Hf as <- <-. split.
    + exists nd. split; [|reflexivity]. rewrite nth_error_app2 by lia. rewrite Nat.sub_diag. reflexivity.
    + intros l sl i w Hh Hi. change (ll_has s l sl) in Hh.
      pose proof (ll_R_node_lt _ _ _ HR _ _ _ _ _ Hh Hi). lia.
Qed.

(* any store into the floating node *)
Lemma ll_R_fl_upd h s n v nd' : ll_R h s (Some (n, v)) ->
  ll_R (mkLH (ll_upd (lh_nodes h) n (Some nd')) (lh_lists h)) s (Some (n, ln_data nd')).
Proof.
  intros HR.
  destruct (R_fl _ _ _ HR n v eq_refl) as [[nd [Hn _]] Hnot].
  assert (Hlt : n < length (lh_nodes h)) by (eapply ll_nth_lt; exact Hn).
  split; cbn [lh_nodes lh_lists].
  - apply (R_nlists _ _ _ HR).
  - rewrite ll_upd_length. apply (R_nnodes _ _ _ HR).
  - apply (R_dead _ _ _ HR).
  - intros l sl Hh. split; [|eapply ll_R_nodup; eassumption]. split.
    + cbn [lh_lists]. eapply ll_R_list; eassumption.
    + intros i m w Hi. cbn [lh_nodes]. rewrite ll_upd_nth_neq.
      * eapply ll_R_node; eassumption.
      * intros ->. exact (Hnot _ _ _ _ Hh Hi).
  - intros m nd'' Hm. destruct (Nat.eq_dec n m) as [->|Hne].
    + left. eexists. reflexivity.
    + rewrite ll_upd_nth_neq in Hm by assumption.
      destruct (R_own _ _ _ HR _ _ Hm) as [[u Hu]|H]; [congruence|]. right. exact H.
  - intros m u Hf. injection Hf as <- <-. split; [|exact Hnot].
    exists nd'. split; [|reflexivity]. apply ll_upd_nth_eq. exact Hlt.
Qed.

(* free of the floating node *)
Lemma ll_R_free h s n v : ll_R h s (Some (n, v)) ->
  ll_R (mkLH (ll_upd (lh_nodes h) n None) (lh_lists h)) s None.
Proof.
  intros HR.
  destruct (R_fl _ _ _ HR n v eq_refl) as [[nd [Hn _]] Hnot].
  assert (Hlt : n < length (lh_nodes h)) by (eapply ll_nth_lt; exact Hn).
  split; cbn [lh_nodes lh_lists].
  - apply (R_nlists _ _ _ HR).
  - rewrite ll_upd_length. apply (R_nnodes _ _ _ HR).
  - apply (R_dead _ _ _ HR).
  - intros l sl Hh. split; [|eapply ll_R_nodup; eassumption]. split.
    + cbn [lh_lists]. eapply ll_R_list; eassumption.
    + intros i m w Hi. cbn [lh_nodes]. rewrite ll_upd_nth_neq.
      * eapply ll_R_node; eassumption.
      * intros ->. exact (Hnot _ _ _ _ Hh Hi).
  - intros m nd'' Hm. destruct (Nat.eq_dec n m) as [->|Hne].
    + rewrite ll_upd_nth_eq in Hm by assumption. discriminate.
    + rewrite ll_upd_nth_neq in Hm by assumption.
      destruct (R_own _ _ _ HR _ _ Hm) as [[u Hu]|H]; [congruence|]. right. exact H.
  - intros m u Hf. discriminate.
Qed.

(* a new, empty list *)
Lemma ll_R_create h s d : ll_inv h s ->
  ll_inv (mkLH (lh_nodes h) (lh_lists h ++ [Some (mkLL None None d 0)]))
         (mkSP (sp_lists s ++ [Some (mkSL d [])]) (sp_next s)).
Proof.
  intros HR. pose proof (R_nlists _ _ _ HR) as Hlen.
  assert (Hhas : forall l sl, ll_has (mkSP (sp_lists s ++ [Some (mkSL d [])]) (sp_next s)) l sl ->
            (l < length (sp_lists s) /\ ll_has s l sl) \/ (l = length (sp_lists s) /\ sl = mkSL d [])).
  { intros l sl Hh. unfold ll_has in Hh. cbn [sp_lists] in Hh.
    destruct (Nat.lt_ge_cases l (length (sp_lists s))) as [Hlt|Hge].
    - left. rewrite nth_error_app1 in Hh by assumption. split; assumption.
    - right. rewrite nth_error_app2 in Hh by assumption.
      destruct (l - length (sp_lists s)) as [|k] eqn:Hk; [|destruct k; discriminate].
      injection Hh as <-. split; [lia|reflexivity]. }
  split; cbn [lh_nodes lh_lists sp_lists sp_next].
  - rewrite !app_length. simpl. lia.
  - apply (R_nnodes _ _ _ HR).
  - intros l Hd. destruct (Nat.lt_ge_cases l (length (sp_lists s))) as [Hlt|Hge].
    + rewrite nth_error_app1 in Hd by assumption. rewrite nth_error_app1 by lia. apply (R_dead _ _ _ HR). exact Hd.
    + rewrite nth_error_app2 in Hd by assumption.
      destruct (l - length (sp_lists s)) as [|k]; [discriminate|destruct k; discriminate].
  - intros l sl Hh. destruct (Hhas _ _ Hh) as [[Hlt Hs]|[-> ->]].
    + split; [|eapply ll_R_nodup; eassumption]. split.
      * cbn [lh_lists]. rewrite nth_error_app1 by lia. eapply ll_R_list; eassumption.
      * intros i n v Hi. cbn [lh_nodes]. eapply ll_R_node; eassumption.
    + split; [|constructor]. split.
      * cbn [lh_lists sl_items sl_destr]. rewrite nth_error_app2 by lia.
        rewrite <- Hlen, Nat.sub_diag. reflexivity.
      * intros i n v Hi. destruct i; discriminate.
  - intros n nd Hn. destruct (R_own _ _ _ HR _ _ Hn) as [[v Hv]|[l [sl [i [v [Hh Hi]]]]]]; [discriminate|].
    right. exists l, sl, i, v. split; [|exact Hi].
    unfold ll_has in *. cbn [sp_lists]. rewrite nth_error_app1; [exact Hh|]. eapply ll_nth_lt; exact Hh.
  - intros n v Hf. discriminate.
Qed.

(* free of an empty list *)
Lemma ll_R_free_list h s l sl : ll_inv h s -> ll_has s l sl -> sl_items sl = [] ->
  ll_inv (mkLH (lh_nodes h) (ll_upd (lh_lists h) l None)) (mkSP (ll_upd (sp_lists s) l None) (sp_next s)).
Proof.
  intros HR Hl Hempty.
  assert (Hlt : l < length (sp_lists s)) by (eapply ll_nth_lt; exact Hl).
  pose proof (R_nlists _ _ _ HR) as Hlen.
  assert (Hhas : forall l' sl', ll_has (mkSP (ll_upd (sp_lists s) l None) (sp_next s)) l' sl' ->
            l' <> l /\ ll_has s l' sl').
  { intros l' sl' Hh. unfold ll_has in Hh. cbn [sp_lists] in Hh.
    destruct (Nat.eq_dec l l') as [<-|Hne].
    - rewrite ll_upd_nth_eq in Hh by assumption. discriminate.
    - rewrite ll_upd_nth_neq in Hh by assumption. split; [congruence|exact Hh]. }
  split; cbn [lh_nodes lh_lists sp_lists sp_next].
  - rewrite !ll_upd_length. exact Hlen.
  - apply (R_nnodes _ _ _ HR).
  - intros l' Hd. destruct (Nat.eq_dec l l') as [<-|Hne].
    + apply ll_upd_nth_eq. lia.
    + rewrite ll_upd_nth_neq in Hd by assumption. rewrite ll_upd_nth_neq by assumption.
      apply (R_dead _ _ _ HR). exact Hd.
  - intros l' sl' Hh. destruct (Hhas _ _ Hh) as [Hne Hs].
    split; [|eapply ll_R_nodup; eassumption]. split.
    + cbn [lh_lists]. rewrite ll_upd_nth_neq by congruence. eapply ll_R_list; eassumption.
    + intros i n v Hi. cbn [lh_nodes]. eapply ll_R_node; eassumption.
  - intros n nd Hn. destruct (R_own _ _ _ HR _ _ Hn) as [[v Hv]|[l' [sl' [i [v [Hh Hi]]]]]]; [discriminate|].
    right. exists l', sl', i, v. split; [|exact Hi].
    unfold ll_has in *. cbn [sp_lists]. rewrite ll_upd_nth_neq; [exact Hh|].
    intros <-. rewrite Hl in Hh. injection Hh as <-. rewrite Hempty in Hi. destruct i; discriminate.
  - intros n v Hf. discriminate.
Qed.

(* ------------------------------------------------------------------ *)
(* positions after insertion / removal                                 *)
(* ------------------------------------------------------------------ *)
Lemma ll_id_at_ins items p n v j : p <= length items ->
  ll_id_at (ll_ins p (n, v) items) j =
  if Nat.ltb j p then ll_id_at items j else if Nat.eqb j p then Some n else ll_id_at items (j - 1).
Proof.
  intros Hp. unfold ll_id_at. rewrite ll_ins_nth by assumption.
  destruct (Nat.ltb j p); [reflexivity|]. destruct (Nat.eqb j p); reflexivity.
Qed.

Lemma ll_id_before_ins items p n v j : p <= length items ->
  ll_id_before (ll_ins p (n, v) items) j =
  if Nat.leb j p then ll_id_before items j else if Nat.eqb j (S p) then Some n else ll_id_before items (j - 1).
Proof.
  intros Hp. destruct j as [|j]; [reflexivity|]. cbn [ll_id_before].
  rewrite ll_id_at_ins by assumption.
  destruct (Nat.ltb_spec j p), (Nat.leb_spec (S j) p); try lia; [reflexivity|].
  destruct (Nat.eqb_spec j p), (Nat.eqb_spec (S j) (S p)); try lia; [reflexivity|].
  destruct j as [|j]; [lia|]. simpl. rewrite Nat.sub_0_r. reflexivity.
Qed.

Lemma ll_id_at_rem items p j : p <= length items ->
  ll_id_at (ll_rem p items) j = if Nat.ltb j p then ll_id_at items j else ll_id_at items (S j).
Proof.
  intros Hp. unfold ll_id_at. rewrite ll_rem_nth by assumption. destruct (Nat.ltb j p); reflexivity.
Qed.

Lemma ll_id_before_rem items p j : p <= length items ->
  ll_id_before (ll_rem p items) j = if Nat.leb j p then ll_id_before items j else ll_id_before items (S j).
Proof.
  intros Hp. destruct j as [|j]; [reflexivity|]. cbn [ll_id_before].
  rewrite ll_id_at_rem by assumption.
  destruct (Nat.ltb_spec j p), (Nat.leb_spec (S j) p); try lia; reflexivity.
Qed.

Lemma ll_ptr_eqb_at items i m w j : NoDup (ll_ids items) -> nth_error items i = Some (m, w) ->
  ll_ptr_eqb (Some m) (ll_id_at items j) = Nat.eqb i j.
Proof.
  intros Hnd Hi. destruct (ll_id_at items j) as [m'|] eqn:Hj; cbn [ll_ptr_eqb].
  - apply ll_id_at_inv in Hj. destruct Hj as [w' Hj].
    destruct (Nat.eqb_spec m m') as [<-|Hne].
    + rewrite (ll_nodup_pos _ _ _ _ _ _ Hnd Hi Hj). symmetry. apply Nat.eqb_refl.
    + destruct (Nat.eqb_spec i j) as [<-|_]; [|reflexivity]. congruence.
  - destruct (Nat.eqb_spec i j) as [<-|_]; [|reflexivity].
    rewrite (ll_id_at_some _ _ _ _ Hi) in Hj. discriminate.
Qed.

Lemma ll_ptr_eqb_before items i m w j : NoDup (ll_ids items) -> nth_error items i = Some (m, w) ->
  ll_ptr_eqb (Some m) (ll_id_before items j) = Nat.eqb (S i) j.
Proof.
  intros Hnd Hi. destruct j as [|j]; [reflexivity|]. cbn [ll_id_before].
  rewrite (ll_ptr_eqb_at _ _ _ _ j Hnd Hi). reflexivity.
Qed.

Lemma ll_ptr_eqb_at_non items m j : ~ ll_mem items m -> ll_ptr_eqb (Some m) (ll_id_at items j) = false.
Proof.
  intros Hn. destruct (ll_id_at items j) as [m'|] eqn:Hj; [|reflexivity]. cbn [ll_ptr_eqb].
  destruct (Nat.eqb_spec m m') as [<-|_]; [|reflexivity].
  exfalso. apply Hn. apply ll_id_at_inv in Hj. destruct Hj as [w Hj]. exists j, w. exact Hj.
Qed.

Lemma ll_ptr_eqb_before_non items m j : ~ ll_mem items m -> ll_ptr_eqb (Some m) (ll_id_before items j) = false.
Proof.
  intros Hn. destruct j as [|j]; [reflexivity|]. apply ll_ptr_eqb_at_non. exact Hn.
Qed.

Lemma ll_ids_ins items p n v : ll_ids (ll_ins p (n, v) items) = ll_ins p n (ll_ids items).
Proof. unfold ll_ids, ll_ins. rewrite map_app, firstn_map. simpl. rewrite skipn_map. reflexivity. Qed.

Lemma ll_ids_rem items p : ll_ids (ll_rem p items) = ll_rem p (ll_ids items).
Proof. unfold ll_ids, ll_rem. rewrite map_app, firstn_map, skipn_map. reflexivity. Qed.

Lemma ll_nodup_ins (l : list nat) p x : NoDup l -> ~ In x l -> NoDup (ll_ins p x l).
Proof.
  intros Hnd Hx. unfold ll_ins.
  apply (Permutation_NoDup (l := x :: firstn p l ++ skipn p l)).
  - apply Permutation_middle.
  - rewrite firstn_skipn. constructor; assumption.
Qed.

Lemma ll_nodup_rem (l : list nat) p : NoDup l -> NoDup (ll_rem p l).
Proof.
  intros Hnd. unfold ll_rem.
  destruct (nth_error l p) as [x|] eqn:Hp.
  - rewrite <- (firstn_skipn p l) in Hnd. rewrite (ll_skipn_cons _ _ _ Hp) in Hnd.
    apply NoDup_remove_1 in Hnd. exact Hnd.
  - apply nth_error_None in Hp. rewrite firstn_all2 by lia. rewrite skipn_all2 by lia.
    rewrite app_nil_r. exact Hnd.
Qed.

Definition ll_omap (f : ll_node -> ll_node) (x : option (option ll_node)) : option (option ll_node) :=
  option_map (option_map f) x.

(* attaching the floating node n at position p of list l *)
Lemma ll_R_insert h s n v l sl p h' :
  ll_R h s (Some (n, v)) -> ll_has s l sl -> p <= length (sl_items sl) ->
  lh_lists h' = ll_upd (lh_lists h) l (Some (ll_exp_list (sl_destr sl) (ll_ins p (n, v) (sl_items sl)))) ->
  length (lh_nodes h') = length (lh_nodes h) ->
  (forall m, nth_error (lh_nodes h') m =
     if Nat.eqb m n then Some (Some (mkLN v (ll_id_before (sl_items sl) p) (ll_id_at (sl_items sl) p) (Some l)))
     else if ll_ptr_eqb (Some m) (ll_id_before (sl_items sl) p)
          then ll_omap (ll_set_next (Some n)) (nth_error (lh_nodes h) m)
     else if ll_ptr_eqb (Some m) (ll_id_at (sl_items sl) p)
          then ll_omap (ll_set_prev (Some n)) (nth_error (lh_nodes h) m)
     else nth_error (lh_nodes h) m) ->
  ll_R h' (ll_sp_set s l (ll_ins p (n, v) (sl_items sl))) None.
Proof.
  intros HR Hl Hp Hlists Hlen Hnodes.
  set (items := sl_items sl) in *.
  pose proof (ll_R_nodup _ _ _ HR _ _ Hl) as Hnd. fold items in Hnd.
  destruct (R_fl _ _ _ HR n v eq_refl) as [[nd0 [Hn0 Hd0]] Hnot].
  assert (Hnmem : ~ ll_mem items n).
  { intros [i [w Hi]]. exact (Hnot _ _ _ _ Hl Hi). }
  assert (Hllt : l < length (lh_lists h)) by (eapply ll_nth_lt; eapply ll_R_list; eassumption).
  apply (ll_R_change h s (Some (n, v)) l sl h' _ None HR Hl).
  - rewrite Hlists. apply ll_upd_length.
  - intros l' Hne. rewrite Hlists. apply ll_upd_nth_neq. congruence.
  - rewrite Hlists. apply ll_upd_nth_eq. exact Hllt.
  - exact Hlen.
  - (* members *)
    intros i m w Hi. fold items in Hi. rewrite ll_ins_nth in Hi by assumption.
    rewrite Hnodes. unfold ll_exp_node. fold items.
    rewrite ll_id_before_ins, ll_id_at_ins by assumption.
    destruct (Nat.ltb_spec i p) as [Hip|Hip].
    + (* before the insertion point *)
      assert (Hmn : m <> n). { intros ->. apply Hnmem. exists i, w. exact Hi. }
      destruct (Nat.eqb_spec m n) as [|_]; [contradiction|].
      rewrite (ll_ptr_eqb_before _ _ _ _ p Hnd Hi), (ll_ptr_eqb_at _ _ _ _ p Hnd Hi).
      rewrite (ll_R_node _ _ _ HR _ _ _ _ _ Hl Hi). fold items.
      destruct (Nat.leb_spec i p) as [_|]; [|lia].
      destruct (Nat.eqb_spec (S i) p) as [E|E].
      * destruct (Nat.ltb_spec (S i) p) as [|_]; [lia|].
        destruct (Nat.eqb_spec (S i) p) as [_|]; [|lia]. reflexivity.
      * destruct (Nat.eqb_spec i p) as [|_]; [lia|].
        destruct (Nat.ltb_spec (S i) p) as [_|]; [|lia]. reflexivity.
    + destruct (Nat.eqb_spec i p) as [->|Hne].
      * (* the new node *)
        injection Hi as <- <-. rewrite Nat.eqb_refl.
        destruct (Nat.leb_spec p p) as [_|]; [|lia].
        destruct (Nat.ltb_spec (S p) p) as [|_]; [lia|].
        destruct (Nat.eqb_spec (S p) p) as [|_]; [lia|].
        simpl. rewrite Nat.sub_0_r. reflexivity.
      * (* after the insertion point *)
        assert (Hmn : m <> n). { intros ->. apply Hnmem. exists (i - 1), w. exact Hi. }
        destruct (Nat.eqb_spec m n) as [|_]; [contradiction|].
        rewrite (ll_ptr_eqb_before _ _ _ _ p Hnd Hi), (ll_ptr_eqb_at _ _ _ _ p Hnd Hi).
        rewrite (ll_R_node _ _ _ HR _ _ _ _ _ Hl Hi). fold items.
        destruct (Nat.eqb_spec (S (i - 1)) p) as [|_]; [lia|].
        destruct (Nat.leb_spec i p) as [|_]; [lia|].
        destruct (Nat.ltb_spec (S i) p) as [|_]; [lia|].
        destruct (Nat.eqb_spec (S i) p) as [|_]; [lia|].
        replace (S i - 1) with (S (i - 1)) by lia.
        destruct (Nat.eqb_spec (i - 1) p) as [E|E].
        -- destruct (Nat.eqb_spec i (S p)) as [_|]; [|lia]. reflexivity.
        -- destruct (Nat.eqb_spec i (S p)) as [|_]; [lia|]. reflexivity.
  - rewrite ll_ids_ins. apply ll_nodup_ins; [exact Hnd|].
    intros Hin. apply Hnmem. apply ll_mem_in. exact Hin.
  - (* frame *)
    intros m Hnm Hnf. rewrite Hnodes.
    destruct (Nat.eqb_spec m n) as [->|_]; [exfalso; apply Hnf; exists v; reflexivity|].
    rewrite ll_ptr_eqb_before_non, ll_ptr_eqb_at_non by assumption. reflexivity.
  - (* ownership *)
    intros m nd [[i [w Hi]]|[u Hu]] _; left.
    + destruct (Nat.ltb_spec i p) as [Hip|Hip].
      * exists i, w. rewrite ll_ins_nth by assumption.
        destruct (Nat.ltb_spec i p) as [_|]; [|lia]. exact Hi.
      * exists (S i), w. rewrite ll_ins_nth by assumption.
        destruct (Nat.ltb_spec (S i) p) as [|_]; [lia|].
        destruct (Nat.eqb_spec (S i) p) as [|_]; [lia|].
        simpl. rewrite Nat.sub_0_r. exact Hi.
    + injection Hu as <- <-. exists p, v. rewrite ll_ins_nth by assumption.
      destruct (Nat.ltb_spec p p) as [|_]; [lia|]. rewrite Nat.eqb_refl. reflexivity.
  - intros m u Hf. discriminate.
Qed.

(* detaching node n = member p of list l: it floats afterwards *)
Lemma ll_R_remove h s n v l sl p h' nd' :
  ll_inv h s -> ll_has s l sl -> nth_error (sl_items sl) p = Some (n, v) ->
  lh_lists h' = ll_upd (lh_lists h) l (Some (ll_exp_list (sl_destr sl) (ll_rem p (sl_items sl)))) ->
  length (lh_nodes h') = length (lh_nodes h) ->
  ln_data nd' = v ->
  (forall m, nth_error (lh_nodes h') m =
     if Nat.eqb m n then Some (Some nd')
     else if ll_ptr_eqb (Some m) (ll_id_before (sl_items sl) p)
          then ll_omap (ll_set_next (ll_id_at (sl_items sl) (S p))) (nth_error (lh_nodes h) m)
     else if ll_ptr_eqb (Some m) (ll_id_at (sl_items sl) (S p))
          then ll_omap (ll_set_prev (ll_id_before (sl_items sl) p)) (nth_error (lh_nodes h) m)
     else nth_error (lh_nodes h) m) ->
  ll_R h' (ll_sp_set s l (ll_rem p (sl_items sl))) (Some (n, v)).
Proof.
  intros HR Hl Hpn Hlists Hlen Hdata Hnodes.
  set (items := sl_items sl) in *.
  pose proof (ll_R_nodup _ _ _ HR _ _ Hl) as Hnd. fold items in Hnd.
  assert (Hp : p <= length items) by (apply Nat.lt_le_incl; eapply ll_nth_lt; exact Hpn).
  assert (Hllt : l < length (lh_lists h)) by (eapply ll_nth_lt; eapply ll_R_list; eassumption).
  apply (ll_R_change h s None l sl h' _ (Some (n, v)) HR Hl).
  - rewrite Hlists. apply ll_upd_length.
  - intros l' Hne. rewrite Hlists. apply ll_upd_nth_neq. congruence.
  - rewrite Hlists. apply ll_upd_nth_eq. exact Hllt.
  - exact Hlen.
  - (* members *)
    intros i m w Hi. fold items in Hi. rewrite ll_rem_nth in Hi by assumption.
    rewrite Hnodes. unfold ll_exp_node. fold items.
    rewrite ll_id_before_rem, ll_id_at_rem by assumption.
    destruct (Nat.ltb_spec i p) as [Hip|Hip].
    + assert (Hmn : m <> n).
      { intros ->. pose proof (ll_nodup_pos _ _ _ _ _ _ Hnd Hi Hpn). lia. }
      destruct (Nat.eqb_spec m n) as [|_]; [contradiction|].
      rewrite (ll_ptr_eqb_before _ _ _ _ p Hnd Hi), (ll_ptr_eqb_at _ _ _ _ (S p) Hnd Hi).
      rewrite (ll_R_node _ _ _ HR _ _ _ _ _ Hl Hi). fold items.
      destruct (Nat.leb_spec i p) as [_|]; [|lia].
      destruct (Nat.eqb_spec (S i) p) as [E|E].
      * destruct (Nat.ltb_spec (S i) p) as [|_]; [lia|]. subst p. reflexivity.
      * destruct (Nat.eqb_spec i (S p)) as [|_]; [lia|].
        destruct (Nat.ltb_spec (S i) p) as [_|]; [|lia]. reflexivity.
    + assert (Hmn : m <> n).
      { intros ->. pose proof (ll_nodup_pos _ _ _ _ _ _ Hnd Hi Hpn). lia. }
      destruct (Nat.eqb_spec m n) as [|_]; [contradiction|].
      rewrite (ll_ptr_eqb_before _ _ _ _ p Hnd Hi), (ll_ptr_eqb_at _ _ _ _ (S p) Hnd Hi).
      rewrite (ll_R_node _ _ _ HR _ _ _ _ _ Hl Hi). fold items.
      destruct (Nat.eqb_spec (S (S i)) p) as [|_]; [lia|].
      destruct (Nat.ltb_spec (S i) p) as [|_]; [lia|].
      destruct (Nat.eqb_spec (S i) (S p)) as [E|E].
      * destruct (Nat.leb_spec i p) as [_|]; [|lia]. injection E as ->. reflexivity.
      * destruct (Nat.leb_spec i p) as [|_]; [lia|]. reflexivity.
  - rewrite ll_ids_rem. apply ll_nodup_rem. exact Hnd.
  - (* frame *)
    intros m Hnm Hnf. rewrite Hnodes.
    destruct (Nat.eqb_spec m n) as [->|_]; [exfalso; apply Hnm; exists p, v; exact Hpn|].
    rewrite ll_ptr_eqb_before_non, ll_ptr_eqb_at_non by assumption. reflexivity.
  - (* ownership *)
    intros m nd [[i [w Hi]]|[u Hu]] _; [|discriminate].
    destruct (Nat.eq_dec i p) as [->|Hne].
    + right. exists v. fold items in Hi. rewrite Hpn in Hi. injection Hi as <- _. reflexivity.
    + left. destruct (Nat.ltb_spec i p) as [Hip|Hip].
      * exists i, w. rewrite ll_rem_nth by assumption.
        destruct (Nat.ltb_spec i p) as [_|]; [|lia]. exact Hi.
      * exists (i - 1), w. rewrite ll_rem_nth by assumption.
        destruct (Nat.ltb_spec (i - 1) p) as [|_]; [lia|].
        replace (S (i - 1)) with i by lia. exact Hi.
  - intros m u Hf. injection Hf as <- <-. split; [|split].
    + exists nd'. split; [|exact Hdata]. rewrite Hnodes. rewrite Nat.eqb_refl. reflexivity.
    + intros [i [w Hi]]. rewrite ll_rem_nth in Hi by assumption.
      destruct (Nat.ltb_spec i p) as [Hip|Hip].
      * pose proof (ll_nodup_pos _ _ _ _ _ _ Hnd Hi Hpn). lia.
      * pose proof (ll_nodup_pos _ _ _ _ _ _ Hnd Hi Hpn). lia.
    + left. exists p, v. exact Hpn.
Qed.

(* replacing the value of member p *)
Lemma ll_id_at_upd items p n v w j : nth_error items p = Some (n, v) ->
  ll_id_at (ll_upd items p (n, w)) j = ll_id_at items j.
Proof.
  intros Hp. unfold ll_id_at. destruct (Nat.eq_dec p j) as [<-|Hne].
  - rewrite ll_upd_nth_eq by (eapply ll_nth_lt; exact Hp). rewrite Hp. reflexivity.
  - rewrite ll_upd_nth_neq by assumption. reflexivity.
Qed.

Lemma ll_id_before_upd items p n v w j : nth_error items p = Some (n, v) ->
  ll_id_before (ll_upd items p (n, w)) j = ll_id_before items j.
Proof. intros Hp. destruct j; [reflexivity|]. cbn [ll_id_before]. eapply ll_id_at_upd; exact Hp. Qed.

Lemma ll_ids_upd items p n v w : nth_error items p = Some (n, v) -> ll_ids (ll_upd items p (n, w)) = ll_ids items.
Proof.
  intros Hp. apply ll_nth_ext. intros i. rewrite <- !ll_id_at_ids. eapply ll_id_at_upd; exact Hp.
Qed.

Lemma ll_R_replace h s n v w l sl p :
  ll_inv h s -> ll_has s l sl -> nth_error (sl_items sl) p = Some (n, v) ->
  ll_inv (mkLH (ll_upd (lh_nodes h) n (Some (ll_set_data w (ll_exp_node l (sl_items sl) p v)))) (lh_lists h))
         (ll_sp_set s l (ll_upd (sl_items sl) p (n, w))).
Proof.
  intros HR Hl Hpn.
  set (items := sl_items sl) in *.
  pose proof (ll_R_nodup _ _ _ HR _ _ Hl) as Hnd. fold items in Hnd.
  assert (Hplt : p < length items) by (eapply ll_nth_lt; exact Hpn).
  assert (Hnlt : n < length (lh_nodes h)) by (eapply ll_R_node_lt; eassumption).
  apply (ll_R_change h s None l sl _ _ None HR Hl); cbn [lh_nodes lh_lists].
  - reflexivity.
  - reflexivity.
  - rewrite (ll_R_list _ _ _ HR _ _ Hl). unfold ll_exp_list. fold items.
    rewrite (ll_id_at_upd _ _ _ _ _ _ Hpn), (ll_id_before_upd _ _ _ _ _ _ Hpn), ll_upd_length. reflexivity.
  - apply ll_upd_length.
  - intros i m u Hi. unfold ll_exp_node.
    rewrite (ll_id_before_upd _ _ _ _ _ _ Hpn), (ll_id_at_upd _ _ _ _ _ _ Hpn).
    destruct (Nat.eq_dec p i) as [<-|Hne].
    + rewrite ll_upd_nth_eq in Hi by assumption. injection Hi as <- <-.
      rewrite ll_upd_nth_eq by assumption. reflexivity.
    + rewrite ll_upd_nth_neq in Hi by assumption.
      rewrite ll_upd_nth_neq.
      * exact (ll_R_node _ _ _ HR _ _ _ _ _ Hl Hi).
      * intros ->. apply Hne. exact (ll_nodup_pos _ _ _ _ _ _ Hnd Hpn Hi).
  - rewrite (ll_ids_upd _ _ _ _ _ Hpn). exact Hnd.
  - intros m Hnm _. apply ll_upd_nth_neq. intros ->. apply Hnm. exists p, v. exact Hpn.
  - intros m nd [[i [u Hi]]|[u Hu]] _; [|discriminate]. left.
    destruct (Nat.eq_dec p i) as [<-|Hne].
    + exists p, w. fold items in Hi. rewrite Hpn in Hi. injection Hi as <- _. apply ll_upd_nth_eq. exact Hplt.
    + exists i, u. rewrite ll_upd_nth_neq by assumption. exact Hi.
  - intros m u Hf. discriminate.
Qed.

(* ------------------------------------------------------------------ *)
(* symbolic execution of the C-shaped functions                        *)
(* ------------------------------------------------------------------ *)
Lemma ll_mod_node_ok h n nd f : nth_error (lh_nodes h) n = Some (Some nd) ->
  ll_mod_node h n f = Ok (mkLH (ll_upd (lh_nodes h) n (Some (f nd))) (lh_lists h)).
Proof. intros H. unfold ll_mod_node. rewrite (ll_rd_node_ok _ _ _ H). reflexivity. Qed.

Lemma ll_mod_list_ok h l L f : nth_error (lh_lists h) l = Some (Some L) ->
  ll_mod_list h l f = Ok (mkLH (lh_nodes h) (ll_upd (lh_lists h) l (Some (f L)))).
Proof. intros H. unfold ll_mod_list. rewrite (ll_rd_list_ok _ _ _ H). reflexivity. Qed.

Ltac ll_nth_solve :=
  cbn [lh_nodes lh_lists];
  repeat first [ rewrite ll_upd_nth_eq by (rewrite ?ll_upd_length; assumption)
               | rewrite ll_upd_nth_neq by (first [assumption | congruence]) ];
  first [ reflexivity | eassumption ].

Ltac ll_step :=
  first [ erewrite ll_rd_node_ok by ll_nth_solve
        | erewrite ll_rd_list_ok by ll_nth_solve
        | erewrite ll_mod_node_ok by ll_nth_solve
        | erewrite ll_mod_list_ok by ll_nth_solve ];
  cbn [bind lh_nodes lh_lists].

Lemma ll_last_some (x : nat * Z) r : exists m, ll_id_at (x :: r) (length r) = Some m.
Proof.
  unfold ll_id_at. destruct (nth_error (x :: r) (length r)) as [[m w]|] eqn:H.
  - exists m. reflexivity.
  - apply nth_error_None in H. simpl in H. lia.
Qed.

Lemma ll_tail_null items : ll_is_null (ll_id_before items (length items)) = ll_is_null (ll_id_at items 0).
Proof.
  destruct items as [|[m w] r]; [reflexivity|]. cbn [length ll_id_before].
  destruct (ll_last_some (m, w) r) as [k ->]. reflexivity.
Qed.

Ltac ll_simp :=
  cbn [bind ll_is_null ll_head ll_tail ll_cnt ll_destruct ll_set_head ll_set_tail ll_set_cnt
       ll_exp_list lh_nodes lh_lists].

Lemma ll_attach_head_ok h s n v l sl at_ :
  ll_R h s (Some (n, v)) -> ll_has s l sl ->
  exists h', ll_attach_at h (Some l) LL_HEAD at_ (Some n) = Ok h' /\
             ll_R h' (ll_sp_set s l (ll_ins 0 (n, v) (sl_items sl))) None.
Proof.
  intros HR Hl.
  set (items := sl_items sl) in *.
  destruct (R_fl _ _ _ HR n v eq_refl) as [[nd0 [Hn0 Hd0]] Hnot].
  pose proof (ll_R_list _ _ _ HR _ _ Hl) as HL. fold items in HL.
  pose proof (ll_R_nodup _ _ _ HR _ _ Hl) as Hnd. fold items in Hnd.
  assert (Hnlt : n < length (lh_nodes h)) by (eapply ll_nth_lt; exact Hn0).
  assert (Hllt : l < length (lh_lists h)) by (eapply ll_nth_lt; exact HL).
  unfold ll_attach_at.
  ll_step. ll_step. ll_step. ll_step. ll_step.
  ll_simp.
  destruct (ll_id_at items 0) as [hd|] eqn:Hhd.
  - destruct (ll_id_at_inv _ _ _ Hhd) as [w Hhd'].
    pose proof (ll_R_node _ _ _ HR _ _ _ _ _ Hl Hhd') as Hndh. fold items in Hndh.
    assert (Hne : n <> hd). { intros ->. exact (Hnot _ _ _ _ Hl Hhd'). }
    assert (Hhlt : hd < length (lh_nodes h)) by (eapply ll_nth_lt; exact Hndh).
    ll_step. ll_step. ll_step. ll_simp.
    rewrite ll_tail_null, Hhd. ll_simp.
    ll_step. ll_simp. ll_step.
    eexists. split; [reflexivity|].
    apply (ll_R_insert h s n v l sl 0 _ HR Hl); [lia|..]; cbn [lh_nodes lh_lists]; fold items.
    + rewrite !ll_upd_upd. do 2 f_equal. unfold ll_exp_list. ll_simp.
      rewrite (ll_ins_length 0 (n, v) items) by lia. cbn [ll_id_before].
      rewrite !ll_id_at_ins by lia. cbn [Nat.ltb Nat.leb Nat.eqb].
      destruct items as [|x r]; [discriminate|]. cbn [length Nat.eqb Nat.sub]. rewrite Nat.sub_0_r.
      reflexivity.
    + rewrite !ll_upd_length. reflexivity.
    + intros m. rewrite !ll_upd_upd. cbn [ll_id_before ll_ptr_eqb]. rewrite Hhd. cbn [ll_ptr_eqb].
      destruct (Nat.eqb_spec m n) as [->|Hmn].
      * rewrite ll_upd_nth_neq by congruence. rewrite ll_upd_nth_eq by assumption.
        rewrite <- Hd0. reflexivity.
      * destruct (Nat.eqb_spec m hd) as [->|Hmh].
        -- rewrite ll_upd_nth_eq by (rewrite ll_upd_length; assumption). rewrite Hndh. reflexivity.
        -- rewrite !ll_upd_nth_neq by congruence. reflexivity.
  - assert (Hempty : items = []).
    { destruct items as [|[m w] r]; [reflexivity|discriminate]. }
    ll_simp. ll_step. ll_step. ll_simp.
    rewrite ll_tail_null, Hhd. ll_simp.
    ll_step. ll_step. ll_simp.
    ll_step.
    eexists. split; [reflexivity|].
    apply (ll_R_insert h s n v l sl 0 _ HR Hl); [lia|..]; cbn [lh_nodes lh_lists]; fold items.
    + rewrite !ll_upd_upd. rewrite Hempty. reflexivity.
    + rewrite !ll_upd_length. reflexivity.
    + intros m. rewrite !ll_upd_upd. cbn [ll_id_before ll_ptr_eqb]. rewrite Hhd. cbn [ll_ptr_eqb].
      destruct (Nat.eqb_spec m n) as [->|Hmn].
      * rewrite ll_upd_nth_eq by assumption. rewrite <- Hd0. reflexivity.
      * rewrite !ll_upd_nth_neq by congruence. reflexivity.
Qed.

Lemma ll_before_len_inv items tl : ll_id_before items (length items) = Some tl ->
  exists k w, length items = S k /\ nth_error items k = Some (tl, w).
Proof.
  destruct (length items) as [|k] eqn:Hlen; [discriminate|]. cbn [ll_id_before]. intros H.
  destruct (ll_id_at_inv _ _ _ H) as [w Hw]. exists k, w. split; [reflexivity|exact Hw].
Qed.

Lemma ll_attach_tail_ok h s n v l sl at_ :
  ll_R h s (Some (n, v)) -> ll_has s l sl ->
  exists h', ll_attach_at h (Some l) LL_TAIL at_ (Some n) = Ok h' /\
             ll_R h' (ll_sp_set s l (ll_ins (length (sl_items sl)) (n, v) (sl_items sl))) None.
Proof.
  intros HR Hl.
  set (items := sl_items sl) in *.
  destruct (R_fl _ _ _ HR n v eq_refl) as [[nd0 [Hn0 Hd0]] Hnot].
  pose proof (ll_R_list _ _ _ HR _ _ Hl) as HL. fold items in HL.
  pose proof (ll_R_nodup _ _ _ HR _ _ Hl) as Hnd. fold items in Hnd.
  assert (Hnlt : n < length (lh_nodes h)) by (eapply ll_nth_lt; exact Hn0).
  assert (Hllt : l < length (lh_lists h)) by (eapply ll_nth_lt; exact HL).
  unfold ll_attach_at.
  ll_step. ll_step. ll_step. ll_step. ll_step. ll_simp.
  destruct (ll_id_before items (length items)) as [tl|] eqn:Htl.
  - destruct (ll_before_len_inv _ _ Htl) as [k [w [Hlen Htl']]].
    pose proof (ll_R_node _ _ _ HR _ _ _ _ _ Hl Htl') as Hndt. fold items in Hndt.
    assert (Hne : n <> tl). { intros ->. exact (Hnot _ _ _ _ Hl Htl'). }
    assert (Htlt : tl < length (lh_nodes h)) by (eapply ll_nth_lt; exact Hndt).
    assert (Hhd : ll_is_null (ll_id_at items 0) = false).
    { rewrite <- ll_tail_null, Htl. reflexivity. }
    ll_step. ll_step. ll_step. ll_simp. ll_step. ll_simp. rewrite Hhd. ll_simp.
    ll_step.
    eexists. split; [reflexivity|].
    apply (ll_R_insert h s n v l sl (length items) _ HR Hl); [fold items; lia|..]; cbn [lh_nodes lh_lists]; fold items.
    + rewrite !ll_upd_upd. do 2 f_equal. unfold ll_exp_list. ll_simp.
      rewrite (ll_ins_length (length items) (n, v) items) by lia. cbn [ll_id_before].
      rewrite !ll_id_at_ins by lia. rewrite Nat.ltb_irrefl, Nat.eqb_refl.
      destruct (Nat.ltb_spec 0 (length items)) as [_|]; [|lia]. reflexivity.
    + rewrite !ll_upd_length. reflexivity.
    + intros m. rewrite !ll_upd_upd. rewrite Htl. rewrite (ll_id_at_none items (length items)) by lia.
      cbn [ll_ptr_eqb].
      destruct (Nat.eqb_spec m n) as [->|Hmn].
      * rewrite ll_upd_nth_neq by congruence. rewrite ll_upd_nth_eq by assumption.
        rewrite <- Hd0. reflexivity.
      * destruct (Nat.eqb_spec m tl) as [->|Hmt].
        -- rewrite ll_upd_nth_eq by (rewrite ll_upd_length; assumption). rewrite Hndt. reflexivity.
        -- rewrite !ll_upd_nth_neq by congruence. reflexivity.
  - assert (Hnull : ll_is_null (ll_id_at items 0) = true).
    { rewrite <- ll_tail_null, Htl. reflexivity. }
    assert (Hempty : items = []).
    { destruct items as [|[m w] r]; [reflexivity|discriminate]. }
    ll_simp. ll_step. ll_step. ll_simp. ll_step. ll_simp. rewrite Hnull.
    ll_step. ll_step.
    eexists. split; [reflexivity|].
    apply (ll_R_insert h s n v l sl (length items) _ HR Hl); [fold items; lia|..]; cbn [lh_nodes lh_lists]; fold items.
    + rewrite !ll_upd_upd. rewrite Hempty. reflexivity.
    + rewrite !ll_upd_length. reflexivity.
    + intros m. rewrite !ll_upd_upd. rewrite Htl. rewrite (ll_id_at_none items (length items)) by lia.
      cbn [ll_ptr_eqb].
      destruct (Nat.eqb_spec m n) as [->|Hmn].
      * rewrite ll_upd_nth_eq by assumption. rewrite <- Hd0. reflexivity.
      * rewrite !ll_upd_nth_neq by congruence. reflexivity.
Qed.

(* INSERT_BEFORE a member a of the list (position p) *)
Lemma ll_attach_before_ok h s n v l sl a w p :
  ll_R h s (Some (n, v)) -> ll_has s l sl -> nth_error (sl_items sl) p = Some (a, w) ->
  exists h', ll_attach_at h (Some l) LL_BEFORE (Some a) (Some n) = Ok h' /\
             ll_R h' (ll_sp_set s l (ll_ins p (n, v) (sl_items sl))) None.
Proof.
  intros HR Hl Hpa.
  set (items := sl_items sl) in *.
  destruct (R_fl _ _ _ HR n v eq_refl) as [[nd0 [Hn0 Hd0]] Hnot].
  pose proof (ll_R_list _ _ _ HR _ _ Hl) as HL. fold items in HL.
  pose proof (ll_R_nodup _ _ _ HR _ _ Hl) as Hnd. fold items in Hnd.
  pose proof (ll_R_node _ _ _ HR _ _ _ _ _ Hl Hpa) as Hnda. fold items in Hnda.
  assert (Hnlt : n < length (lh_nodes h)) by (eapply ll_nth_lt; exact Hn0).
  assert (Hllt : l < length (lh_lists h)) by (eapply ll_nth_lt; exact HL).
  assert (Halt : a < length (lh_nodes h)) by (eapply ll_nth_lt; exact Hnda).
  assert (Hplt : p < length items) by (eapply ll_nth_lt; exact Hpa).
  assert (Hna : n <> a). { intros ->. exact (Hnot _ _ _ _ Hl Hpa). }
  destruct p as [|q].
  - (* a is the head: the code switches to INSERT_HEAD *)
    destruct (ll_attach_head_ok h s n v l sl (Some a) HR Hl) as [h' [E HR']].
    exists h'. split; [|exact HR']. rewrite <- E.
    unfold ll_attach_at. ll_step. ll_step. ll_simp.
    rewrite (ll_ptr_eqb_at _ _ _ _ 0 Hnd Hpa). reflexivity.
  - destruct (nth_error items q) as [[pr u]|] eqn:Hq.
    2:{ apply nth_error_None in Hq. lia. }
    pose proof (ll_R_node _ _ _ HR _ _ _ _ _ Hl Hq) as Hndp. fold items in Hndp.
    assert (Hpltn : pr < length (lh_nodes h)) by (eapply ll_nth_lt; exact Hndp).
    assert (Hnp : n <> pr). { intros ->. exact (Hnot _ _ _ _ Hl Hq). }
    assert (Hpra : pr <> a). { intros ->. pose proof (ll_nodup_pos _ _ _ _ _ _ Hnd Hq Hpa). lia. }
    assert (Hbef : ll_id_before items (S q) = Some pr) by (cbn [ll_id_before]; eapply ll_id_at_some; exact Hq).
    assert (Hhd : ll_is_null (ll_id_at items 0) = false).
    { destruct items as [|[m0 w0] r]; [simpl in Hplt; lia|reflexivity]. }
    unfold ll_attach_at. ll_step. ll_step. ll_simp.
    rewrite (ll_ptr_eqb_at _ _ _ _ 0 Hnd Hpa). cbn [Nat.eqb orb ll_is_null bind].
    ll_step. cbn [ll_deref_node]. ll_step. ll_step. ll_step.
    unfold ll_exp_node at 1 2. cbn [ln_prev]. rewrite Hbef.
    ll_step. ll_step. ll_step. ll_simp. rewrite ll_tail_null, Hhd. ll_simp.
    ll_step. ll_simp. rewrite Hhd. ll_simp. ll_step.
    eexists. split; [reflexivity|].
    apply (ll_R_insert h s n v l sl (S q) _ HR Hl); [fold items; lia|..]; cbn [lh_nodes lh_lists]; fold items.
    + do 2 f_equal. unfold ll_exp_list.
      rewrite (ll_ins_length (S q) (n, v) items) by lia. cbn [ll_id_before].
      rewrite !ll_id_at_ins by lia.
      destruct (Nat.ltb_spec 0 (S q)) as [_|]; [|lia].
      destruct (Nat.ltb_spec (length items) (S q)) as [|_]; [lia|].
      destruct (Nat.eqb_spec (length items) (S q)) as [|_]; [lia|].
      rewrite ll_tail_before. reflexivity.
    + rewrite !ll_upd_length. reflexivity.
    + intros m. rewrite !ll_upd_upd. rewrite Hbef. rewrite (ll_id_at_some _ _ _ _ Hpa).
      cbn [ll_ptr_eqb].
      destruct (Nat.eqb_spec m n) as [->|Hmn].
      * rewrite !ll_upd_nth_neq by congruence. rewrite ll_upd_nth_eq by assumption.
        rewrite <- Hd0. reflexivity.
      * destruct (Nat.eqb_spec m pr) as [->|Hmp].
        -- rewrite ll_upd_nth_neq by congruence.
           rewrite ll_upd_nth_eq by (rewrite ll_upd_length; assumption). rewrite Hndp. reflexivity.
        -- destruct (Nat.eqb_spec m a) as [->|Hma].
           ++ rewrite ll_upd_nth_eq by (rewrite !ll_upd_length; assumption). rewrite Hnda. reflexivity.
           ++ rewrite !ll_upd_nth_neq by congruence. reflexivity.
Qed.

Ltac ll_simp2 :=
  cbn [bind ll_is_null ll_head ll_tail ll_cnt ll_destruct ll_set_head ll_set_tail ll_set_cnt
       ll_exp_list lh_nodes lh_lists ll_exp_node ln_prev ln_next ln_parent ln_data
       ll_deref_list ll_deref_node].

(* ares_llist_node_detach on a member *)
Lemma ll_detach_ok h s n v l sl p :
  ll_inv h s -> ll_has s l sl -> nth_error (sl_items sl) p = Some (n, v) ->
  exists h', ll_node_detach h (Some n) = Ok h' /\
             ll_R h' (ll_sp_set s l (ll_rem p (sl_items sl))) (Some (n, v)).
Proof.
  intros HR Hl Hpn.
  set (items := sl_items sl) in *.
  pose proof (ll_R_list _ _ _ HR _ _ Hl) as HL. fold items in HL.
  pose proof (ll_R_nodup _ _ _ HR _ _ Hl) as Hnd. fold items in Hnd.
  pose proof (ll_R_node _ _ _ HR _ _ _ _ _ Hl Hpn) as Hn0. fold items in Hn0.
  assert (Hnlt : n < length (lh_nodes h)) by (eapply ll_nth_lt; exact Hn0).
  assert (Hllt : l < length (lh_lists h)) by (eapply ll_nth_lt; exact HL).
  assert (Hplt : p < length items) by (eapply ll_nth_lt; exact Hpn).
  destruct (length items) as [|c] eqn:Hlen; [lia|].
  (* the predecessor, if any *)
  assert (Hprev : match ll_id_before items p with
                  | Some pr => exists q u, p = S q /\ nth_error items q = Some (pr, u) /\ pr <> n /\
                               nth_error (lh_nodes h) pr = Some (Some (ll_exp_node l items q u)) /\
                               pr < length (lh_nodes h)
                  | None => p = 0
                  end).
  { destruct p as [|q]; [reflexivity|]. cbn [ll_id_before].
    destruct (nth_error items q) as [[pr u]|] eqn:Hq.
    2:{ apply nth_error_None in Hq. lia. }
    rewrite (ll_id_at_some _ _ _ _ Hq). exists q, u.
    pose proof (ll_R_node _ _ _ HR _ _ _ _ _ Hl Hq) as Hndp. fold items in Hndp.
    repeat split; try assumption.
    - intros ->. pose proof (ll_nodup_pos _ _ _ _ _ _ Hnd Hq Hpn). lia.
    - eapply ll_nth_lt; exact Hndp. }
  (* the successor, if any *)
  assert (Hnext : match ll_id_at items (S p) with
                  | Some nx => exists u, nth_error items (S p) = Some (nx, u) /\ nx <> n /\
                               nth_error (lh_nodes h) nx = Some (Some (ll_exp_node l items (S p) u)) /\
                               nx < length (lh_nodes h)
                  | None => S p = S c
                  end).
  { destruct (ll_id_at items (S p)) as [nx|] eqn:Hnx.
    - destruct (ll_id_at_inv _ _ _ Hnx) as [u Hu]. exists u.
      pose proof (ll_R_node _ _ _ HR _ _ _ _ _ Hl Hu) as Hndx. fold items in Hndx.
      repeat split; try assumption.
      + intros ->. pose proof (ll_nodup_pos _ _ _ _ _ _ Hnd Hu Hpn). lia.
      + eapply ll_nth_lt; exact Hndx.
    - unfold ll_id_at in Hnx. destruct (nth_error items (S p)) as [[x y]|] eqn:E; [discriminate|].
      apply nth_error_None in E. lia. }
  assert (Hheq : ll_ptr_eqb (Some n) (ll_id_at items 0) = Nat.eqb p 0) by (apply (ll_ptr_eqb_at _ _ _ _ 0 Hnd Hpn)).
  assert (Hteq : ll_ptr_eqb (Some n) (ll_id_before items (length items)) = Nat.eqb (S p) (S c)).
  { rewrite (ll_ptr_eqb_before _ _ _ _ (length items) Hnd Hpn). rewrite Hlen. reflexivity. }
  (* the final list object and the final nodes, whatever path is taken *)
  assert (Hfin : forall nodes' Lf,
    Lf = mkLL (if Nat.eqb p 0 then ll_id_at items 1 else ll_id_at items 0)
              (if Nat.eqb (S p) (S c) then ll_id_before items p else ll_id_before items (length items))
              (sl_destr sl) c ->
    length nodes' = length (lh_nodes h) ->
    (forall m, nth_error nodes' m =
       if Nat.eqb m n then Some (Some (ll_set_parent None (ll_exp_node l items p v)))
       else if ll_ptr_eqb (Some m) (ll_id_before items p)
            then ll_omap (ll_set_next (ll_id_at items (S p))) (nth_error (lh_nodes h) m)
       else if ll_ptr_eqb (Some m) (ll_id_at items (S p))
            then ll_omap (ll_set_prev (ll_id_before items p)) (nth_error (lh_nodes h) m)
       else nth_error (lh_nodes h) m) ->
    ll_R (mkLH nodes' (ll_upd (lh_lists h) l (Some Lf)))
         (ll_sp_set s l (ll_rem p items)) (Some (n, v))).
  { intros nodes' Lf -> Hlen' Hpt.
    apply (ll_R_remove h s n v l sl p _ (ll_set_parent None (ll_exp_node l items p v)) HR Hl Hpn);
      cbn [lh_nodes lh_lists]; fold items; try assumption; try reflexivity.
    do 2 f_equal. unfold ll_exp_list.
    rewrite (ll_rem_length p items) by lia. rewrite Hlen. cbn [Nat.sub]. rewrite Nat.sub_0_r.
    rewrite ll_id_at_rem, ll_id_before_rem by lia.
    f_equal.
    - destruct (Nat.eqb_spec p 0) as [->|Hp0]; [reflexivity|].
      destruct (Nat.ltb_spec 0 p) as [_|]; [reflexivity|lia].
    - cbn [Nat.eqb]. destruct (Nat.eqb_spec p c) as [->|Hpc].
      + rewrite Nat.leb_refl. reflexivity.
      + destruct (Nat.leb_spec c p) as [|_]; [lia|]. reflexivity. }
  unfold ll_node_detach. ll_step. ll_simp2.
  destruct (ll_id_before items p) as [pr|] eqn:Hbp.
  - destruct Hprev as [q [u [-> [Hq [Hprn [Hndp Hprlt]]]]]].
    ll_step. ll_step. ll_simp2.
    destruct (ll_id_at items (S (S q))) as [nx|] eqn:Hnxt.
    + destruct Hnext as [u' [Hu' [Hnxn [Hndx Hnxlt]]]].
      assert (Hprnx : pr <> nx). { intros ->. pose proof (ll_nodup_pos _ _ _ _ _ _ Hnd Hq Hu'). lia. }
      assert (Hlast : Nat.eqb (S (S q)) (S c) = false).
      { apply Nat.eqb_neq. apply ll_nth_lt in Hu'. lia. }
      ll_step. ll_step. ll_step. ll_simp2. rewrite Hheq. cbn [Nat.eqb]. ll_simp2.
      ll_step. ll_step. ll_simp2. rewrite Hteq, Hlast. ll_simp2.
      ll_step. ll_step. ll_simp2. rewrite Hlen. ll_step.
      eexists. split; [reflexivity|]. rewrite ?ll_upd_upd. apply Hfin.
      * rewrite Hlast. reflexivity.
      * rewrite !ll_upd_length. reflexivity.
      * intros m. rewrite ?Hbp, ?Hnxt. cbn [ll_ptr_eqb].
        destruct (Nat.eqb_spec m n) as [->|Hmn].
        { rewrite ll_upd_nth_eq by (rewrite !ll_upd_length; assumption). reflexivity. }
        rewrite (ll_upd_nth_neq _ n m) by congruence.
        destruct (Nat.eqb_spec m pr) as [->|Hmp].
        { rewrite ll_upd_nth_neq by congruence. rewrite ll_upd_nth_eq by assumption.
          rewrite Hndp. reflexivity. }
        destruct (Nat.eqb_spec m nx) as [->|Hmx].
        { rewrite ll_upd_nth_eq by (rewrite !ll_upd_length; assumption). rewrite Hndx. reflexivity. }
        rewrite !ll_upd_nth_neq by congruence. reflexivity.
    + assert (Hlast : Nat.eqb (S (S q)) (S c) = true) by (apply Nat.eqb_eq; exact Hnext).
      ll_simp2. ll_step. ll_step. ll_simp2. rewrite Hheq. cbn [Nat.eqb]. ll_simp2.
      ll_step. ll_step. ll_simp2. rewrite Hteq, Hlast. ll_simp2.
      ll_step. ll_step. ll_step. ll_simp2. rewrite Hlen. ll_step.
      eexists. split; [reflexivity|]. rewrite ?ll_upd_upd. apply Hfin.
      * rewrite Hlast. rewrite ?Hbp. reflexivity.
      * rewrite !ll_upd_length. reflexivity.
      * intros m. rewrite ?Hbp, ?Hnxt. cbn [ll_ptr_eqb].
        destruct (Nat.eqb_spec m n) as [->|Hmn].
        { rewrite ll_upd_nth_eq by (rewrite !ll_upd_length; assumption). reflexivity. }
        rewrite (ll_upd_nth_neq _ n m) by congruence.
        destruct (Nat.eqb_spec m pr) as [->|Hmp].
        { rewrite ll_upd_nth_eq by assumption. rewrite Hndp. reflexivity. }
        rewrite !ll_upd_nth_neq by congruence. reflexivity.
  - subst p. ll_simp2. ll_step. ll_simp2.
    destruct (ll_id_at items 1) as [nx|] eqn:Hnxt.
    + destruct Hnext as [u' [Hu' [Hnxn [Hndx Hnxlt]]]].
      assert (Hlast : Nat.eqb 1 (S c) = false).
      { apply Nat.eqb_neq. apply ll_nth_lt in Hu'. lia. }
      ll_step. ll_step. ll_step. ll_simp2. rewrite Hheq. cbn [Nat.eqb]. ll_simp2.
      ll_step. ll_step. ll_step. ll_simp2. rewrite Hteq, Hlast. ll_simp2.
      ll_step. ll_step. ll_simp2. rewrite Hlen. ll_step.
      eexists. split; [reflexivity|]. rewrite ?ll_upd_upd. apply Hfin.
      * rewrite Hlast, ?Hnxt. reflexivity.
      * rewrite !ll_upd_length. reflexivity.
      * intros m. cbn [ll_id_before ll_ptr_eqb].
        destruct (Nat.eqb_spec m n) as [->|Hmn].
        { rewrite ll_upd_nth_eq by (rewrite !ll_upd_length; assumption). reflexivity. }
        rewrite (ll_upd_nth_neq _ n m) by congruence.
        destruct (Nat.eqb_spec m nx) as [->|Hmx].
        { rewrite ll_upd_nth_eq by assumption. rewrite Hndx. reflexivity. }
        rewrite !ll_upd_nth_neq by congruence. reflexivity.
    + assert (Hlast : Nat.eqb 1 (S c) = true) by (apply Nat.eqb_eq; exact Hnext).
      ll_simp2. ll_step. ll_step. ll_simp2. rewrite Hheq. cbn [Nat.eqb]. ll_simp2.
      ll_step. ll_step. ll_step. ll_simp2. rewrite Hteq, Hlast. ll_simp2.
      ll_step. ll_step. ll_step. ll_simp2. rewrite Hlen. ll_step.
      eexists. split; [reflexivity|]. rewrite ?ll_upd_upd. apply Hfin.
      * rewrite Hlast, ?Hnxt. reflexivity.
      * rewrite !ll_upd_length. reflexivity.
      * intros m. cbn [ll_id_before ll_ptr_eqb].
        destruct (Nat.eqb_spec m n) as [->|Hmn].
        { rewrite ll_upd_nth_eq by assumption. reflexivity. }
        rewrite !ll_upd_nth_neq by congruence. reflexivity.
Qed.

(* ------------------------------------------------------------------ *)
(* locating a node in the specification                                *)
(* ------------------------------------------------------------------ *)
Lemma ll_pos_some items n p : ll_pos n items = Some p -> exists v, nth_error items p = Some (n, v).
Proof.
  revert p; induction items as [|[m w] r IH]; intros p H; simpl in H; [discriminate|].
  destruct (Nat.eqb_spec m n) as [->|Hne].
  - injection H as <-. exists w. reflexivity.
  - destruct (ll_pos n r) as [q|]; [|discriminate]. injection H as <-.
    destruct (IH q eq_refl) as [v Hv]. exists v. exact Hv.
Qed.

Lemma ll_pos_none items n : ll_pos n items = None -> forall i v, nth_error items i <> Some (n, v).
Proof.
  induction items as [|[m w] r IH]; intros H i v Hi; simpl in H.
  - destruct i; discriminate.
  - destruct (Nat.eqb_spec m n) as [->|Hne]; [discriminate|].
    destruct (ll_pos n r) as [q|] eqn:Hq; [discriminate|].
    destruct i as [|i]; simpl in Hi; [congruence|]. exact (IH eq_refl i v Hi).
Qed.

Lemma ll_locate_from_some ls k n l p : ll_locate_from ls k n = Some (l, p) ->
  exists sl v, k <= l /\ nth_error ls (l - k) = Some (Some sl) /\ nth_error (sl_items sl) p = Some (n, v).
Proof.
  revert k; induction ls as [|x r IH]; intros k H; simpl in H; [discriminate|].
  destruct x as [sl|].
  - destruct (ll_pos n (sl_items sl)) as [q|] eqn:Hq.
    + injection H as <- <-. destruct (ll_pos_some _ _ _ Hq) as [v Hv].
      exists sl, v. rewrite Nat.sub_diag. repeat split; [lia|assumption].
    + destruct (IH _ H) as [sl' [v [Hk [Hl Hv]]]]. exists sl', v. split; [lia|]. split; [|exact Hv].
      replace (l - k) with (S (l - S k)) by lia. exact Hl.
  - destruct (IH _ H) as [sl' [v [Hk [Hl Hv]]]]. exists sl', v. split; [lia|]. split; [|exact Hv].
    replace (l - k) with (S (l - S k)) by lia. exact Hl.
Qed.

Lemma ll_locate_from_none ls k n : ll_locate_from ls k n = None ->
  forall i sl j v, nth_error ls i = Some (Some sl) -> nth_error (sl_items sl) j <> Some (n, v).
Proof.
  revert k; induction ls as [|x r IH]; intros k H i sl j v Hi; simpl in H.
  - destruct i; discriminate.
  - destruct x as [sl0|].
    + destruct (ll_pos n (sl_items sl0)) as [q|] eqn:Hq; [discriminate|].
      destruct i as [|i]; simpl in Hi.
      * injection Hi as <-. exact (ll_pos_none _ _ Hq j v).
      * exact (IH _ H i sl j v Hi).
    + destruct i as [|i]; simpl in Hi; [discriminate|]. exact (IH _ H i sl j v Hi).
Qed.

Lemma ll_locate_some s n l p : ll_locate s n = Some (l, p) ->
  exists sl v, ll_has s l sl /\ nth_error (sl_items sl) p = Some (n, v).
Proof.
  intros H. destruct (ll_locate_from_some _ _ _ _ _ H) as [sl [v [_ [Hl Hv]]]].
  rewrite Nat.sub_0_r in Hl. exists sl, v. split; assumption.
Qed.

Lemma ll_locate_none s n : ll_locate s n = None ->
  forall l sl j v, ll_has s l sl -> nth_error (sl_items sl) j <> Some (n, v).
Proof. intros H l sl j v Hl. exact (ll_locate_from_none _ _ _ H l sl j v Hl). Qed.

(* the model and the specification agree on which nodes / lists are alive *)
Lemma ll_node_live_agree h s n : ll_inv h s -> ll_node_live h n = ll_sp_node_live s n.
Proof.
  intros HR. unfold ll_node_live, ll_sp_node_live.
  destruct (ll_locate s n) as [[l p]|] eqn:Hloc.
  - destruct (ll_locate_some _ _ _ _ Hloc) as [sl [v [Hl Hv]]].
    rewrite (ll_R_node _ _ _ HR _ _ _ _ _ Hl Hv). reflexivity.
  - destruct (nth_error (lh_nodes h) n) as [[nd|]|] eqn:Hn; try reflexivity.
    destruct (R_own _ _ _ HR _ _ Hn) as [[v Hv]|[l [sl [i [v [Hl Hi]]]]]]; [discriminate|].
    exfalso. exact (ll_locate_none _ _ Hloc _ _ _ _ Hl Hi).
Qed.

Lemma ll_list_live_agree h s l : ll_inv h s -> ll_list_live h l = ll_sp_list_live s l.
Proof.
  intros HR. unfold ll_list_live, ll_sp_list_live, ll_sp_list.
  destruct (nth_error (sp_lists s) l) as [[sl|]|] eqn:Hl.
  - rewrite (ll_R_list _ _ _ HR _ _ Hl). reflexivity.
  - rewrite (R_dead _ _ _ HR _ Hl). reflexivity.
  - apply nth_error_None in Hl. rewrite <- (R_nlists _ _ _ HR) in Hl. apply nth_error_None in Hl.
    rewrite Hl. reflexivity.
Qed.

Lemma ll_sp_node_live_inv s n : ll_sp_node_live s n = true ->
  exists l p sl v, ll_locate s n = Some (l, p) /\ ll_has s l sl /\ nth_error (sl_items sl) p = Some (n, v).
Proof.
  unfold ll_sp_node_live. destruct (ll_locate s n) as [[l p]|] eqn:Hloc; [|discriminate]. intros _.
  destruct (ll_locate_some _ _ _ _ Hloc) as [sl [v [Hl Hv]]]. exists l, p, sl, v. repeat split; assumption.
Qed.

Lemma ll_sp_list_live_inv s l : ll_sp_list_live s l = true -> exists sl, ll_sp_list s l = Some sl /\ ll_has s l sl.
Proof.
  unfold ll_sp_list_live. destruct (ll_sp_list s l) as [sl|] eqn:H; [|discriminate]. intros _.
  exists sl. split; [reflexivity|]. apply ll_sp_list_inv. exact H.
Qed.

(* ------------------------------------------------------------------ *)
(* the API functions                                                   *)
(* ------------------------------------------------------------------ *)
Lemma ll_sp_set_next_comm s l sl items k : ll_has s l sl ->
  ll_sp_set (mkSP (sp_lists s) k) l items = mkSP (sp_lists (ll_sp_set s l items)) k.
Proof.
  intros Hl. rewrite (ll_sp_set_has s l sl items Hl).
  assert (Hl' : ll_has (mkSP (sp_lists s) k) l sl) by exact Hl.
  rewrite (ll_sp_set_has _ l sl items Hl'). reflexivity.
Qed.

Definition ll_attach_pos (sl : ll_slist) (ty : ll_itype) (at_ : option nat) (p : nat) : Prop :=
  match ty with
  | LL_HEAD => p = 0
  | LL_TAIL => p = length (sl_items sl)
  | LL_BEFORE => exists a w, at_ = Some a /\ nth_error (sl_items sl) p = Some (a, w)
  end.

Lemma ll_attach_ok h s n v l sl ty at_ p :
  ll_R h s (Some (n, v)) -> ll_has s l sl -> ll_attach_pos sl ty at_ p ->
  exists h', ll_attach_at h (Some l) ty at_ (Some n) = Ok h' /\
             ll_R h' (ll_sp_set s l (ll_ins p (n, v) (sl_items sl))) None.
Proof.
  intros HR Hl Hpos. destruct ty; cbn [ll_attach_pos] in Hpos.
  - subst p. apply ll_attach_head_ok; assumption.
  - subst p. apply ll_attach_tail_ok; assumption.
  - destruct Hpos as [a [w [-> Hp]]]. eapply ll_attach_before_ok; eassumption.
Qed.

Lemma ll_insert_at_ok ok h s l sl ty at_ v p :
  ll_inv h s -> ll_has s l sl -> ll_attach_pos sl ty at_ p ->
  exists h' r s', ll_insert_at ok h (Some l) ty at_ v = Ok (h', r) /\
                  ll_sp_insert ok s l p v = (s', RNode r) /\ ll_inv h' s'.
Proof.
  intros HR Hl Hpos. unfold ll_insert_at, ll_sp_insert. rewrite (ll_sp_list_has _ _ _ Hl).
  cbn [ll_is_null orb].
  destruct (Z.eqb v 0) eqn:Hv0; cbn [orb].
  { exists h, None, s. split; [reflexivity|]. split; [reflexivity|exact HR]. }
  destruct ok; cbn [negb].
  2:{ exists h, None, s. split; [reflexivity|]. split; [reflexivity|exact HR]. }
  pose proof (ll_R_alloc h s (mkLN 0 None None None) HR) as HR1. cbn [ln_data] in HR1.
  set (n := length (lh_nodes h)) in *.
  set (h1 := mkLH (lh_nodes h ++ [Some (mkLN 0 None None None)]) (lh_lists h)) in *.
  assert (Hn1 : nth_error (lh_nodes h1) n = Some (Some (mkLN 0 None None None))).
  { unfold h1, n. cbn [lh_nodes]. rewrite nth_error_app2 by lia. rewrite Nat.sub_diag. reflexivity. }
  rewrite (ll_mod_node_ok h1 n _ _ Hn1). cbn [bind].
  pose proof (ll_R_fl_upd h1 _ n 0%Z (ll_set_data v (mkLN 0 None None None)) HR1) as HR2.
  cbn [ll_set_data ln_data] in HR2.
  assert (Hl2 : ll_has (mkSP (sp_lists s) (S (sp_next s))) l sl) by exact Hl.
  destruct (ll_attach_ok _ _ n v l sl ty at_ p HR2 Hl2 Hpos) as [h3 [E HR3]].
  cbn [ll_set_data ln_prev ln_next ln_parent]. rewrite E. cbn [bind].
  assert (Hnn : n = sp_next s) by apply (R_nnodes _ _ _ HR).
  rewrite (ll_sp_set_next_comm s l sl _ _ Hl) in HR3.
  clearbody n. subst n.
  eexists h3, (Some (sp_next s)), _. split; [reflexivity|]. split; [reflexivity|]. exact HR3.
Qed.

Lemma ll_node_claim_ok h s n v l sl p :
  ll_inv h s -> ll_has s l sl -> nth_error (sl_items sl) p = Some (n, v) ->
  exists h', ll_node_claim h (Some n) = Ok (h', v) /\
             ll_inv h' (ll_sp_set s l (ll_rem p (sl_items sl))).
Proof.
  intros HR Hl Hp. unfold ll_node_claim.
  rewrite (ll_rd_node_ok _ _ _ (ll_R_node _ _ _ HR _ _ _ _ _ Hl Hp)). cbn [bind ll_exp_node ln_data].
  destruct (ll_detach_ok h s n v l sl p HR Hl Hp) as [h1 [E HR1]]. rewrite E. cbn [bind].
  destruct (R_fl _ _ _ HR1 n v eq_refl) as [[nd [Hn _]] _].
  unfold ll_free_node. rewrite Hn. cbn [bind].
  eexists. split; [reflexivity|]. exact (ll_R_free _ _ _ _ HR1).
Qed.

Lemma ll_node_destroy_ok h s n v l sl p :
  ll_inv h s -> ll_has s l sl -> nth_error (sl_items sl) p = Some (n, v) ->
  exists h', ll_node_destroy h (Some n) = Ok (h', if sl_destr sl then ll_nonzero [v] else []) /\
             ll_inv h' (ll_sp_set s l (ll_rem p (sl_items sl))).
Proof.
  intros HR Hl Hp. unfold ll_node_destroy.
  rewrite (ll_rd_node_ok _ _ _ (ll_R_node _ _ _ HR _ _ _ _ _ Hl Hp)).
  cbn [bind ll_exp_node ln_parent ll_deref_list].
  rewrite (ll_rd_list_ok _ _ _ (ll_R_list _ _ _ HR _ _ Hl)). cbn [bind ll_exp_list ll_destruct].
  destruct (ll_node_claim_ok h s n v l sl p HR Hl Hp) as [h1 [E HR1]]. rewrite E. cbn [bind].
  exists h1. split; [|exact HR1]. do 2 f_equal.
  unfold ll_nonzero. cbn [filter]. destruct (Z.eqb v 0); cbn [negb andb]; destruct (sl_destr sl); reflexivity.
Qed.

Lemma ll_node_replace_ok h s n v w l sl p :
  ll_inv h s -> ll_has s l sl -> nth_error (sl_items sl) p = Some (n, v) ->
  exists h', ll_node_replace h (Some n) w = Ok (h', if sl_destr sl then [v] else []) /\
             ll_inv h' (ll_sp_set s l (ll_upd (sl_items sl) p (n, w))).
Proof.
  intros HR Hl Hp. unfold ll_node_replace.
  pose proof (ll_R_node _ _ _ HR _ _ _ _ _ Hl Hp) as Hn.
  rewrite (ll_rd_node_ok _ _ _ Hn).
  cbn [bind ll_exp_node ln_parent ln_data ll_deref_list].
  rewrite (ll_rd_list_ok _ _ _ (ll_R_list _ _ _ HR _ _ Hl)). cbn [bind ll_exp_list ll_destruct].
  rewrite (ll_mod_node_ok _ _ _ _ Hn). cbn [bind].
  eexists. split; [reflexivity|]. exact (ll_R_replace h s n v w l sl p HR Hl Hp).
Qed.

Lemma ll_mvparent_ok (first : bool) h s n v l sl p l2 sl2 :
  ll_inv h s -> ll_has s l sl -> nth_error (sl_items sl) p = Some (n, v) -> ll_has s l2 sl2 ->
  let s1 := ll_sp_set s l (ll_rem p (sl_items sl)) in
  exists h' sl2', (if first then ll_node_mvparent_first h (Some n) (Some l2)
                   else ll_node_mvparent_last h (Some n) (Some l2)) = Ok h' /\
             ll_sp_list s1 l2 = Some sl2' /\
             ll_inv h' (ll_sp_set s1 l2 (if first then (n, v) :: sl_items sl2' else sl_items sl2' ++ [(n, v)])).
Proof.
  intros HR Hl Hp Hl2 s1.
  destruct (ll_detach_ok h s n v l sl p HR Hl Hp) as [h1 [E HR1]]. fold s1 in HR1.
  assert (Hex : exists sl2', ll_has s1 l2 sl2').
  { unfold s1. rewrite (ll_sp_set_has _ _ _ _ Hl).
    assert (Hlt : l < length (sp_lists s)) by (eapply ll_nth_lt; exact Hl).
    destruct (Nat.eq_dec l2 l) as [->|Hne].
    - eexists. apply ll_has_upd; [assumption|]. left. split; reflexivity.
    - exists sl2. apply ll_has_upd; [assumption|]. right. split; assumption. }
  destruct Hex as [sl2' Hl2'].
  destruct first.
  - unfold ll_node_mvparent_first. cbn [ll_is_null orb]. rewrite E. cbn [bind].
    destruct (ll_attach_head_ok h1 s1 n v l2 sl2' None HR1 Hl2') as [h2 [E2 HR2]].
    exists h2, sl2'. split; [exact E2|]. split; [apply ll_sp_list_has; exact Hl2'|exact HR2].
  - unfold ll_node_mvparent_last. cbn [ll_is_null orb]. rewrite E. cbn [bind].
    destruct (ll_attach_tail_ok h1 s1 n v l2 sl2' None HR1 Hl2') as [h2 [E2 HR2]].
    exists h2, sl2'. split; [exact E2|]. split; [apply ll_sp_list_has; exact Hl2'|].
    rewrite ll_ins_end in HR2. exact HR2.
Qed.

Lemma ll_upd_same {A} (l : list A) i x : nth_error l i = Some x -> ll_upd l i x = l.
Proof.
  revert i; induction l as [|y r IH]; intros i H; [reflexivity|].
  destruct i as [|i]; simpl in *; [congruence|]. f_equal. apply IH. exact H.
Qed.

Lemma ll_sp_set_same s l sl : ll_has s l sl -> ll_sp_set s l (sl_items sl) = s.
Proof.
  intros Hl. rewrite (ll_sp_set_has _ _ _ _ Hl). destruct s as [ls k]. cbn [sp_lists sp_next]. f_equal.
  apply ll_upd_same. destruct sl. exact Hl.
Qed.

Lemma ll_sp_set_set s l sl items1 items2 : ll_has s l sl ->
  ll_sp_set (ll_sp_set s l items1) l items2 = ll_sp_set s l items2.
Proof.
  intros Hl. assert (Hlt : l < length (sp_lists s)) by (eapply ll_nth_lt; exact Hl).
  rewrite (ll_sp_set_has s l sl items1 Hl).
  assert (H1 : ll_has (mkSP (ll_upd (sp_lists s) l (Some (mkSL (sl_destr sl) items1))) (sp_next s)) l
                      (mkSL (sl_destr sl) items1)).
  { apply ll_has_upd; [assumption|]. left. split; reflexivity. }
  rewrite (ll_sp_set_has _ l _ items2 H1). rewrite (ll_sp_set_has s l sl items2 Hl).
  cbn [sp_lists sp_next sl_destr]. rewrite ll_upd_upd. reflexivity.
Qed.

Lemma ll_sp_set_has_new s l sl items : ll_has s l sl ->
  ll_has (ll_sp_set s l items) l (mkSL (sl_destr sl) items).
Proof.
  intros Hl. rewrite (ll_sp_set_has _ _ _ _ Hl). apply ll_has_upd.
  - eapply ll_nth_lt; exact Hl.
  - left. split; reflexivity.
Qed.

Lemma ll_clear_loop_ok : forall k h s l sl fuel,
  ll_inv h s -> ll_has s l sl -> length (sl_items sl) = k -> k <= fuel ->
  exists h', ll_clear_loop fuel h (Some l) =
               Ok (h', if sl_destr sl then ll_nonzero (map snd (sl_items sl)) else []) /\
             ll_inv h' (ll_sp_set s l []).
Proof.
  induction k as [|k IH]; intros h s l sl fuel HR Hl Hlen Hf.
  - destruct (sl_items sl) as [|x r] eqn:Hit; [|discriminate].
    assert (E : ll_clear_loop fuel h (Some l) = Ok (h, [])).
    { destruct fuel; cbn [ll_clear_loop ll_node_first];
        rewrite (ll_rd_list_ok _ _ _ (ll_R_list _ _ _ HR _ _ Hl)); rewrite Hit; reflexivity. }
    exists h. split.
    + rewrite E. destruct (sl_destr sl); reflexivity.
    + rewrite <- Hit. rewrite (ll_sp_set_same _ _ _ Hl). exact HR.
  - destruct (sl_items sl) as [|[n v] r] eqn:Hit; [discriminate|].
    destruct fuel as [|f]; [lia|].
    assert (Hp : nth_error (sl_items sl) 0 = Some (n, v)) by (rewrite Hit; reflexivity).
    cbn [ll_clear_loop ll_node_first].
    rewrite (ll_rd_list_ok _ _ _ (ll_R_list _ _ _ HR _ _ Hl)). rewrite Hit.
    cbn [bind ll_exp_list ll_head ll_id_at nth_error option_map fst].
    destruct (ll_node_destroy_ok h s n v l sl 0 HR Hl Hp) as [h1 [E1 HR1]].
    rewrite E1. cbn [bind].
    rewrite Hit in HR1. change (ll_rem 0 ((n, v) :: r)) with r in HR1.
    pose proof (ll_sp_set_has_new s l sl r Hl) as Hl1.
    simpl in Hlen. injection Hlen as Hlen.
    destruct (IH h1 _ l _ f HR1 Hl1 Hlen ltac:(lia)) as [h2 [E2 HR2]].
    cbn [sl_items sl_destr] in E2. rewrite E2. cbn [bind].
    exists h2. split.
    + do 2 f_equal. destruct (sl_destr sl); [|reflexivity].
      unfold ll_nonzero. cbn [map snd filter]. destruct (negb (Z.eqb v 0)); reflexivity.
    + rewrite (ll_sp_set_set _ _ _ _ _ Hl) in HR2. exact HR2.
Qed.

Lemma ll_clear_ok h s l sl : ll_inv h s -> ll_has s l sl ->
  exists h', ll_clear h (Some l) = Ok (h', if sl_destr sl then ll_nonzero (map snd (sl_items sl)) else []) /\
             ll_inv h' (ll_sp_set s l []).
Proof.
  intros HR Hl. unfold ll_clear.
  apply (ll_clear_loop_ok (length (sl_items sl))); try assumption; [reflexivity|].
  eapply ll_R_len_bound; eassumption.
Qed.

Lemma ll_destroy_ok h s l sl : ll_inv h s -> ll_has s l sl ->
  exists h', ll_destroy h (Some l) = Ok (h', if sl_destr sl then ll_nonzero (map snd (sl_items sl)) else []) /\
             ll_inv h' (mkSP (ll_upd (sp_lists s) l None) (sp_next s)).
Proof.
  intros HR Hl. unfold ll_destroy.
  destruct (ll_clear_ok h s l sl HR Hl) as [h1 [E HR1]]. rewrite E. cbn [bind].
  pose proof (ll_sp_set_has_new s l sl [] Hl) as Hl1.
  unfold ll_free_list. rewrite (ll_R_list _ _ _ HR1 _ _ Hl1). cbn [bind].
  eexists. split; [reflexivity|].
  pose proof (ll_R_free_list h1 _ l _ HR1 Hl1 eq_refl) as HR2.
  rewrite (ll_sp_set_has _ _ _ _ Hl) in HR2. cbn [sp_lists sp_next] in HR2.
  rewrite ll_upd_upd in HR2. exact HR2.
Qed.

Lemma ll_walk_ok h l sl : ll_linked h l sl ->
  forall i j, ll_walk h (ll_id_at (sl_items sl) j) i = Ok (ll_id_at (sl_items sl) (j + i)).
Proof.
  intros [_ Hn]. induction i as [|i IH]; intros j.
  - rewrite Nat.add_0_r. reflexivity.
  - cbn [ll_walk]. destruct (ll_id_at (sl_items sl) j) as [n|] eqn:Hj.
    + destruct (ll_id_at_inv _ _ _ Hj) as [v Hv].
      rewrite (ll_rd_node_ok _ _ _ (Hn _ _ _ Hv)). cbn [bind ll_exp_node ln_next].
      rewrite IH. do 2 f_equal. lia.
    + rewrite ll_id_at_none; [reflexivity|].
      unfold ll_id_at in Hj. destruct (nth_error (sl_items sl) j) as [[a b]|] eqn:E; [discriminate|].
      apply nth_error_None in E. lia.
Qed.

Lemma ll_node_val_at h l sl i : ll_linked h l sl ->
  ll_node_val h (ll_id_at (sl_items sl) i) = Ok (ll_opt_val (nth_error (sl_items sl) i)).
Proof.
  intros [_ Hn]. unfold ll_id_at. destruct (nth_error (sl_items sl) i) as [[n v]|] eqn:Hi; cbn [option_map fst].
  - cbn [ll_node_val]. rewrite (ll_rd_node_ok _ _ _ (Hn _ _ _ Hi)). reflexivity.
  - reflexivity.
Qed.

Lemma ll_live_args s o :
  forallb (ll_sp_node_live s) (ll_op_nodes o) && forallb (ll_sp_list_live s) (ll_op_lists o) = true ->
  (forall n, In n (ll_op_nodes o) -> ll_sp_node_live s n = true) /\
  (forall l, In l (ll_op_lists o) -> ll_sp_list_live s l = true).
Proof.
  intros H. apply andb_prop in H. destruct H as [H1 H2]. split.
  - exact (proj1 (forallb_forall _ _) H1).
  - exact (proj1 (forallb_forall _ _) H2).
Qed.

Ltac ll_node_arg Hn n :=
  let l := fresh "l" in let p := fresh "p" in let sl := fresh "sl" in let v := fresh "v" in
  let Hloc := fresh "Hloc" in let Hl := fresh "Hl" in let Hp := fresh "Hp" in
  destruct (ll_sp_node_live_inv _ _ (Hn n (or_introl eq_refl))) as [l [p [sl [v [Hloc [Hl Hp]]]]]].
Ltac ll_list_arg Hls l :=
  let sl := fresh "sl" in let Hsl := fresh "Hsl" in let Hl := fresh "Hl" in
  destruct (ll_sp_list_live_inv _ _ (Hls l (or_introl eq_refl))) as [sl [Hsl Hl]].

(* One API call on live arguments: never UB, returns what the specification returns, and
   re-establishes the invariant. *)
Theorem ll_exec_refines h s o : ll_inv h s ->
  forallb (ll_sp_node_live s) (ll_op_nodes o) && forallb (ll_sp_list_live s) (ll_op_lists o) = true ->
  exists h', ll_exec h o = Ok (h', snd (ll_spec_exec s o)) /\ ll_inv h' (fst (ll_spec_exec s o)).
Proof.
  intros HR Hlive. destruct (ll_live_args _ _ Hlive) as [Hn Hls]. clear Hlive.
  destruct o as [ok d|ok [l|] v|ok [l|] v|ok [n|] v|ok [n|] v|[l|]|[l|]|[l|] i|[n|]|[n|]|[n|]|[n|]
                |[l|]|[l|]|[l|]|[n|]|[n|]|[n|] v|[n|] dst|[n|] dst|[l|]|[l|]];
    cbn [ll_op_nodes ll_op_lists] in Hn, Hls;
    try (exists h; split; [reflexivity|exact HR]).
  - (* create *)
    cbn [ll_exec ll_spec_exec]. unfold ll_create. destruct ok.
    + eexists. split; [rewrite (R_nlists _ _ _ HR); reflexivity|]. apply ll_R_create. exact HR.
    + exists h. split; [reflexivity|exact HR].
  - (* insert_first *)
    ll_list_arg Hls l. cbn [ll_exec ll_spec_exec]. unfold ll_insert_first.
    destruct (ll_insert_at_ok ok h s l sl LL_HEAD None v 0 HR Hl eq_refl) as [h' [r [s' [E [Hs HR']]]]].
    rewrite E, Hs. exists h'. split; [reflexivity|exact HR'].
  - (* insert_last *)
    ll_list_arg Hls l. cbn [ll_exec ll_spec_exec]. unfold ll_insert_last. rewrite Hsl.
    destruct (ll_insert_at_ok ok h s l sl LL_TAIL None v _ HR Hl eq_refl) as [h' [r [s' [E [Hs HR']]]]].
    rewrite E, Hs. exists h'. split; [reflexivity|exact HR'].
  - (* insert_before *)
    ll_node_arg Hn n. cbn [ll_exec ll_spec_exec]. unfold ll_insert_before. rewrite Hloc.
    rewrite (ll_rd_node_ok _ _ _ (ll_R_node _ _ _ HR _ _ _ _ _ Hl Hp)). cbn [bind ll_exp_node ln_parent].
    assert (Hpos : ll_attach_pos sl LL_BEFORE (Some n) p) by (exists n, v0; split; [reflexivity|exact Hp]).
    destruct (ll_insert_at_ok ok h s l sl LL_BEFORE (Some n) v p HR Hl Hpos) as [h' [r [s' [E [Hs HR']]]]].
    rewrite E, Hs. exists h'. split; [reflexivity|exact HR'].
  - (* insert_after *)
    ll_node_arg Hn n. cbn [ll_exec ll_spec_exec]. unfold ll_insert_after. rewrite Hloc.
    rewrite (ll_rd_node_ok _ _ _ (ll_R_node _ _ _ HR _ _ _ _ _ Hl Hp)).
    cbn [bind ll_exp_node ln_parent ln_next].
    destruct (ll_id_at (sl_items sl) (S p)) as [nx|] eqn:Hnx; cbn [ll_is_null].
    + destruct (ll_id_at_inv _ _ _ Hnx) as [u Hu].
      assert (Hpos : ll_attach_pos sl LL_BEFORE (Some nx) (S p)) by (exists nx, u; split; [reflexivity|exact Hu]).
      destruct (ll_insert_at_ok ok h s l sl LL_BEFORE (Some nx) v (S p) HR Hl Hpos) as [h' [r [s' [E [Hs HR']]]]].
      rewrite E. cbn [Nat.add]. rewrite Hs. exists h'. split; [reflexivity|exact HR'].
    + assert (Hlast : S p = length (sl_items sl)).
      { unfold ll_id_at in Hnx. destruct (nth_error (sl_items sl) (S p)) as [[a b]|] eqn:E; [discriminate|].
        apply nth_error_None in E. apply ll_nth_lt in Hp. lia. }
      unfold ll_insert_last.
      destruct (ll_insert_at_ok ok h s l sl LL_TAIL None v (S p) HR Hl Hlast) as [h' [r [s' [E [Hs HR']]]]].
      rewrite E. cbn [Nat.add]. rewrite Hs. exists h'. split; [reflexivity|exact HR'].
  - (* node_first *)
    ll_list_arg Hls l. cbn [ll_exec ll_spec_exec ll_node_first]. rewrite Hsl.
    rewrite (ll_rd_list_ok _ _ _ (ll_R_list _ _ _ HR _ _ Hl)). exists h. split; [reflexivity|exact HR].
  - (* node_last *)
    ll_list_arg Hls l. cbn [ll_exec ll_spec_exec ll_node_last]. rewrite Hsl.
    rewrite (ll_rd_list_ok _ _ _ (ll_R_list _ _ _ HR _ _ Hl)). cbn [bind ll_exp_list ll_tail].
    rewrite ll_tail_before. exists h. split; [reflexivity|exact HR].
  - (* node_idx *)
    ll_list_arg Hls l. cbn [ll_exec ll_spec_exec ll_node_idx]. rewrite Hsl.
    rewrite (ll_rd_list_ok _ _ _ (ll_R_list _ _ _ HR _ _ Hl)). cbn [bind ll_exp_list ll_cnt ll_head].
    exists h. split; [|exact HR].
    destruct (Nat.leb_spec (length (sl_items sl)) i) as [Hge|Hlt].
    + rewrite ll_id_at_none by assumption. reflexivity.
    + rewrite (ll_walk_ok _ _ _ (proj1 (R_live _ _ _ HR _ _ Hl)) i 0). reflexivity.
  - (* node_next *)
    ll_node_arg Hn n. cbn [ll_exec ll_spec_exec ll_node_next]. rewrite Hloc, (ll_sp_list_has _ _ _ Hl).
    rewrite (ll_rd_node_ok _ _ _ (ll_R_node _ _ _ HR _ _ _ _ _ Hl Hp)). exists h. split; [reflexivity|exact HR].
  - (* node_prev *)
    ll_node_arg Hn n. cbn [ll_exec ll_spec_exec ll_node_prev]. rewrite Hloc, (ll_sp_list_has _ _ _ Hl).
    rewrite (ll_rd_node_ok _ _ _ (ll_R_node _ _ _ HR _ _ _ _ _ Hl Hp)). exists h. split; [reflexivity|exact HR].
  - (* node_val *)
    ll_node_arg Hn n. cbn [ll_exec ll_spec_exec ll_node_val]. rewrite Hloc, (ll_sp_list_has _ _ _ Hl).
    rewrite (ll_rd_node_ok _ _ _ (ll_R_node _ _ _ HR _ _ _ _ _ Hl Hp)). rewrite Hp.
    exists h. split; [reflexivity|exact HR].
  - (* node_parent *)
    ll_node_arg Hn n. cbn [ll_exec ll_spec_exec ll_node_parent]. rewrite Hloc.
    rewrite (ll_rd_node_ok _ _ _ (ll_R_node _ _ _ HR _ _ _ _ _ Hl Hp)). exists h. split; [reflexivity|exact HR].
  - (* first_val *)
    ll_list_arg Hls l. cbn [ll_exec ll_spec_exec]. unfold ll_first_val. cbn [ll_node_first]. rewrite Hsl.
    rewrite (ll_rd_list_ok _ _ _ (ll_R_list _ _ _ HR _ _ Hl)). cbn [bind ll_exp_list ll_head].
    rewrite (ll_node_val_at _ _ _ 0 (proj1 (R_live _ _ _ HR _ _ Hl))).
    exists h. split; [reflexivity|exact HR].
  - (* last_val *)
    ll_list_arg Hls l. cbn [ll_exec ll_spec_exec]. unfold ll_last_val. cbn [ll_node_last]. rewrite Hsl.
    rewrite (ll_rd_list_ok _ _ _ (ll_R_list _ _ _ HR _ _ Hl)). cbn [bind ll_exp_list ll_tail].
    rewrite <- ll_tail_before.
    rewrite (ll_node_val_at _ _ _ _ (proj1 (R_live _ _ _ HR _ _ Hl))).
    exists h. split; [reflexivity|exact HR].
  - (* len *)
    ll_list_arg Hls l. cbn [ll_exec ll_spec_exec ll_len]. rewrite Hsl.
    rewrite (ll_rd_list_ok _ _ _ (ll_R_list _ _ _ HR _ _ Hl)). exists h. split; [reflexivity|exact HR].
  - (* claim *)
    ll_node_arg Hn n. cbn [ll_exec ll_spec_exec]. rewrite Hloc. unfold ll_sp_take.
    rewrite (ll_sp_list_has _ _ _ Hl), Hp.
    destruct (ll_node_claim_ok h s n v l sl p HR Hl Hp) as [h' [E HR']]. rewrite E.
    exists h'. split; [reflexivity|exact HR'].
  - (* node_destroy *)
    ll_node_arg Hn n. cbn [ll_exec ll_spec_exec]. rewrite Hloc. unfold ll_sp_take.
    rewrite (ll_sp_list_has _ _ _ Hl), Hp.
    destruct (ll_node_destroy_ok h s n v l sl p HR Hl Hp) as [h' [E HR']]. rewrite E.
    exists h'. split; [reflexivity|exact HR'].
  - (* node_replace *)
    ll_node_arg Hn n. cbn [ll_exec ll_spec_exec]. rewrite Hloc, (ll_sp_list_has _ _ _ Hl), Hp.
    destruct (ll_node_replace_ok h s n v0 v l sl p HR Hl Hp) as [h' [E HR']]. rewrite E.
    exists h'. split; [reflexivity|exact HR'].
  - (* mvparent_first *)
    ll_node_arg Hn n. cbn [ll_exec ll_spec_exec]. rewrite Hloc.
    destruct dst as [l2|].
    + assert (Hl2live : ll_sp_list_live s l2 = true) by (apply Hls; left; reflexivity).
      destruct (ll_sp_list_live_inv _ _ Hl2live) as [sl2 [Hsl2 Hl2]]. rewrite Hsl2.
      unfold ll_sp_take. rewrite (ll_sp_list_has _ _ _ Hl), Hp.
      destruct (ll_mvparent_ok true h s n v l sl p l2 sl2 HR Hl Hp Hl2) as [h' [sl2' [E [Hs HR']]]].
      rewrite E, Hs. exists h'. split; [reflexivity|exact HR'].
    + exists h. split; [reflexivity|exact HR].
  - (* mvparent_last *)
    ll_node_arg Hn n. cbn [ll_exec ll_spec_exec]. rewrite Hloc.
    destruct dst as [l2|].
    + assert (Hl2live : ll_sp_list_live s l2 = true) by (apply Hls; left; reflexivity).
      destruct (ll_sp_list_live_inv _ _ Hl2live) as [sl2 [Hsl2 Hl2]]. rewrite Hsl2.
      unfold ll_sp_take. rewrite (ll_sp_list_has _ _ _ Hl), Hp.
      destruct (ll_mvparent_ok false h s n v l sl p l2 sl2 HR Hl Hp Hl2) as [h' [sl2' [E [Hs HR']]]].
      rewrite E, Hs. exists h'. split; [reflexivity|exact HR'].
    + exists h. split; [reflexivity|exact HR].
  - (* clear *)
    ll_list_arg Hls l. cbn [ll_exec ll_spec_exec]. rewrite Hsl.
    destruct (ll_clear_ok h s l sl HR Hl) as [h' [E HR']]. rewrite E.
    exists h'. split; [reflexivity|exact HR'].
  - (* destroy *)
    ll_list_arg Hls l. cbn [ll_exec ll_spec_exec]. rewrite Hsl.
    destruct (ll_destroy_ok h s l sl HR Hl) as [h' [E HR']]. rewrite E.
    exists h'. split; [reflexivity|exact HR'].
Qed.

(* ------------------------------------------------------------------ *)
(* steps and runs                                                      *)
(* ------------------------------------------------------------------ *)
Lemma ll_forallb_agree {A} (f g : A -> bool) l : (forall x, f x = g x) -> forallb f l = forallb g l.
Proof. intros H. induction l as [|x r IH]; simpl; [reflexivity|]. now rewrite H, IH. Qed.

Theorem ll_step_refines h s o : ll_inv h s ->
  exists h', ll_model_step h o = Ok (h', snd (ll_spec_step s o)) /\ ll_inv h' (fst (ll_spec_step s o)).
Proof.
  intros HR. unfold ll_model_step, ll_spec_step.
  rewrite (ll_forallb_agree (ll_node_live h) (ll_sp_node_live s)) by (intros x; apply ll_node_live_agree; exact HR).
  rewrite (ll_forallb_agree (ll_list_live h) (ll_sp_list_live s)) by (intros x; apply ll_list_live_agree; exact HR).
  destruct (forallb (ll_sp_node_live s) (ll_op_nodes o) && forallb (ll_sp_list_live s) (ll_op_lists o)) eqn:Hg.
  - apply ll_exec_refines; assumption.
  - exists h. split; [reflexivity|exact HR].
Qed.

(* Main theorem: for every operation sequence, from any state satisfying the invariant, the
   model never hits UB / runs out of fuel, and every result and every observation (forward
   traversal with parents, backward traversal, len of every live list) after every operation
   is the specification's. *)
Theorem ll_run_refines : forall ops h s, ll_inv h s -> ll_run_model h ops = Ok (ll_run_spec s ops).
Proof.
  induction ops as [|o r IH]; intros h s HR; [reflexivity|].
  cbn [ll_run_model ll_run_spec].
  destruct (ll_step_refines h s o HR) as [h' [E HR']]. rewrite E. cbn [bind].
  destruct (ll_spec_step s o) as [s' res]. cbn [fst snd] in *.
  rewrite (ll_observe_ok _ _ HR'). cbn [bind].
  rewrite (IH _ _ HR'). reflexivity.
Qed.

Corollary ll_run_refines_from_create ops :
  ll_run_model ll_heap_empty ops = Ok (ll_run_spec ll_spec_empty ops).
Proof. apply ll_run_refines. exact ll_inv_empty. Qed.

(* the invariant holds after any run (so every per-state theorem below applies) *)
Fixpoint ll_model_after (h : ll_heap) (ops : list ll_op) : outcome ll_heap :=
  match ops with
  | [] => Ok h
  | o :: r => do (h', _) <- ll_model_step h o; ll_model_after h' r
  end.
Fixpoint ll_spec_after (s : ll_spec) (ops : list ll_op) : ll_spec :=
  match ops with
  | [] => s
  | o :: r => ll_spec_after (fst (ll_spec_step s o)) r
  end.

Theorem ll_inv_reachable : forall ops h s, ll_inv h s ->
  exists h', ll_model_after h ops = Ok h' /\ ll_inv h' (ll_spec_after s ops).
Proof.
  induction ops as [|o r IH]; intros h s HR.
  - exists h. split; [reflexivity|exact HR].
  - cbn [ll_model_after ll_spec_after].
    destruct (ll_step_refines h s o HR) as [h1 [E HR1]]. rewrite E. cbn [bind].
    apply IH. exact HR1.
Qed.

(* ------------------------------------------------------------------ *)
(* per-state consequences of the invariant                             *)
(* ------------------------------------------------------------------ *)
Theorem ll_order h s l sl : ll_inv h s -> nth_error (sp_lists s) l = Some (Some sl) ->
  ll_observe_list h l =
  Ok (mkLV (map (fun x => (fst x, snd x, Some l)) (sl_items sl)) (rev (sl_items sl)) (length (sl_items sl))).
Proof. intros HR Hl. exact (ll_observe_list_ok h s l sl HR Hl). Qed.

(* forward traversal = reverse of the backward traversal, len = number of nodes traversed *)
Theorem ll_fwd_rev_bwd h s l sl v : ll_inv h s -> nth_error (sp_lists s) l = Some (Some sl) ->
  ll_observe_list h l = Ok v ->
  map (fun x => (fst (fst x), snd (fst x))) (lv_fwd v) = rev (lv_bwd v) /\
  lv_len v = length (lv_fwd v) /\ lv_len v = length (lv_bwd v) /\
  forall x, In x (lv_fwd v) -> snd x = Some l.
Proof.
  intros HR Hl Hv. rewrite (ll_order _ _ _ _ HR Hl) in Hv. injection Hv as <-. cbn [lv_fwd lv_bwd lv_len].
  split; [|split; [|split]].
  - rewrite rev_involutive, map_map. cbn [fst snd].
    rewrite <- (map_id (sl_items sl)) at 2. apply map_ext. intros [a b]. reflexivity.
  - now rewrite map_length.
  - now rewrite rev_length.
  - intros x Hx. apply in_map_iff in Hx. destruct Hx as [y [<- _]]. reflexivity.
Qed.

(* every allocated node is a member of exactly one list, at exactly one position, and its
   parent pointer names that list; conversely members are allocated *)
Theorem ll_one_owner h s n : ll_inv h s -> ll_node_live h n = true ->
  exists l sl p v,
    nth_error (sp_lists s) l = Some (Some sl) /\ nth_error (sl_items sl) p = Some (n, v) /\
    ll_node_parent h (Some n) = Ok (Some l) /\ ll_node_val h (Some n) = Ok v /\
    forall l' sl' p' v', nth_error (sp_lists s) l' = Some (Some sl') ->
      nth_error (sl_items sl') p' = Some (n, v') -> l' = l /\ p' = p /\ v' = v.
Proof.
  intros HR Hlive. rewrite (ll_node_live_agree _ _ _ HR) in Hlive.
  destruct (ll_sp_node_live_inv _ _ Hlive) as [l [p [sl [v [_ [Hl Hp]]]]]].
  exists l, sl, p, v. split; [exact Hl|]. split; [exact Hp|].
  cbn [ll_node_parent ll_node_val].
  rewrite (ll_rd_node_ok _ _ _ (ll_R_node _ _ _ HR _ _ _ _ _ Hl Hp)).
  split; [reflexivity|]. split; [reflexivity|].
  intros l' sl' p' v' Hl' Hp'.
  destruct (ll_R_unique _ _ _ HR _ _ _ _ _ _ _ _ _ Hl' Hp' Hl Hp) as [E1 [_ [E2 E3]]].
  repeat split; assumption.
Qed.

Theorem ll_members_live h s l sl p n v : ll_inv h s ->
  nth_error (sp_lists s) l = Some (Some sl) -> nth_error (sl_items sl) p = Some (n, v) ->
  ll_node_live h n = true.
Proof.
  intros HR Hl Hp. unfold ll_node_live. now rewrite (ll_R_node _ _ _ HR _ _ _ _ _ Hl Hp).
Qed.

(* ------------------------------------------------------------------ *)
(* C14: a failed allocation leaves everything unchanged                *)
(* ------------------------------------------------------------------ *)
Lemma ll_create_alloc_fail_atomic d h : ll_create false d h = (h, None).
Proof. reflexivity. Qed.

Lemma ll_insert_first_alloc_fail_atomic h l v : ll_insert_first false h l v = Ok (h, None).
Proof.
  unfold ll_insert_first, ll_insert_at. destruct (ll_is_null l || Z.eqb v 0); reflexivity.
Qed.

Lemma ll_insert_last_alloc_fail_atomic h l v : ll_insert_last false h l v = Ok (h, None).
Proof.
  unfold ll_insert_last, ll_insert_at. destruct (ll_is_null l || Z.eqb v 0); reflexivity.
Qed.

Lemma ll_insert_before_alloc_fail_atomic h n v : ll_node_live h n = true ->
  ll_insert_before false h (Some n) v = Ok (h, None).
Proof.
  unfold ll_node_live, ll_insert_before, ll_rd_node.
  destruct (nth_error (lh_nodes h) n) as [[nd|]|]; try discriminate. intros _. cbn [bind].
  unfold ll_insert_at. destruct (ll_is_null (ln_parent nd) || Z.eqb v 0); reflexivity.
Qed.

Lemma ll_insert_after_alloc_fail_atomic h n v : ll_node_live h n = true ->
  ll_insert_after false h (Some n) v = Ok (h, None).
Proof.
  unfold ll_node_live, ll_insert_after, ll_rd_node.
  destruct (nth_error (lh_nodes h) n) as [[nd|]|]; try discriminate. intros _. cbn [bind].
  destruct (ll_is_null (ln_next nd)).
  - apply ll_insert_last_alloc_fail_atomic.
  - unfold ll_insert_at. destruct (ll_is_null (ln_parent nd) || Z.eqb v 0); reflexivity.
Qed.

(* the same at the level of steps: with a failing allocator an insert / create returns NULL,
   the heap, the specification state and hence every observation are unchanged *)
Definition ll_is_failing_alloc (o : ll_op) : bool :=
  match o with
  | LCreate false _ | LInsFirst false _ _ | LInsLast false _ _ | LInsBefore false _ _ | LInsAfter false _ _ => true
  | _ => false
  end.

Theorem ll_step_alloc_fail_atomic h s o : ll_inv h s -> ll_is_failing_alloc o = true ->
  exists r, ll_model_step h o = Ok (h, r) /\ ll_spec_step s o = (s, r) /\
            (r = RSkip \/ r = RNode None \/ r = RList None).
Proof.
  intros HR Hf.
  destruct (ll_step_refines h s o HR) as [h' [E HR']].
  assert (Hm : exists r, ll_model_step h o = Ok (h, r) /\ (r = RSkip \/ r = RNode None \/ r = RList None)).
  { unfold ll_model_step in *.
    destruct (forallb (ll_node_live h) (ll_op_nodes o) && forallb (ll_list_live h) (ll_op_lists o)) eqn:Hg.
    2:{ exists RSkip. split; [reflexivity|]. left. reflexivity. }
    apply andb_prop in Hg. destruct Hg as [Hg1 _].
    destruct o as [[|] d|[|] l v|[|] l v|[|] [n|] v|[|] [n|] v| | | | | | | | | | | | | | | | |];
      try discriminate; cbn [ll_exec].
    - exists (RList None). split; [reflexivity|]. right. right. reflexivity.
    - rewrite ll_insert_first_alloc_fail_atomic. exists (RNode None). split; [reflexivity|]. right. left. reflexivity.
    - rewrite ll_insert_last_alloc_fail_atomic. exists (RNode None). split; [reflexivity|]. right. left. reflexivity.
    - cbn [ll_op_nodes forallb] in Hg1. apply andb_prop in Hg1. destruct Hg1 as [Hg1 _].
      rewrite (ll_insert_before_alloc_fail_atomic _ _ _ Hg1). exists (RNode None). split; [reflexivity|]. right. left. reflexivity.
    - exists (RNode None). split; [reflexivity|]. right. left. reflexivity.
    - cbn [ll_op_nodes forallb] in Hg1. apply andb_prop in Hg1. destruct Hg1 as [Hg1 _].
      rewrite (ll_insert_after_alloc_fail_atomic _ _ _ Hg1). exists (RNode None). split; [reflexivity|]. right. left. reflexivity.
    - exists (RNode None). split; [reflexivity|]. right. left. reflexivity. }
  destruct Hm as [r [Em Hr]]. exists r. split; [exact Em|]. split; [|exact Hr].
  rewrite Em in E. injection E as <- Hres.
  (* the specification state is unchanged too *)
  unfold ll_spec_step in *.
  destruct (forallb (ll_sp_node_live s) (ll_op_nodes o) && forallb (ll_sp_list_live s) (ll_op_lists o)).
  2:{ cbn [snd] in Hres. now rewrite Hres. }
  destruct o as [[|] d|[|] [l|] v|[|] [l|] v|[|] [n|] v|[|] [n|] v| | | | | | | | | | | | | | | | |];
    try discriminate; cbn [ll_spec_exec] in *; try (cbn [snd] in Hres; now rewrite Hres).
  - unfold ll_sp_insert in *. destruct (ll_sp_list s l); [|cbn [snd] in Hres; now rewrite Hres].
    rewrite Bool.orb_true_r in *. cbn [snd] in Hres. now rewrite Hres.
  - destruct (ll_sp_list s l) as [sl|]; [|cbn [snd] in Hres; now rewrite Hres].
    unfold ll_sp_insert in *. destruct (ll_sp_list s l); [|cbn [snd] in Hres; now rewrite Hres].
    rewrite Bool.orb_true_r in *. cbn [snd] in Hres. now rewrite Hres.
  - destruct (ll_locate s n) as [[l p]|]; [|cbn [snd] in Hres; now rewrite Hres].
    unfold ll_sp_insert in *. destruct (ll_sp_list s l); [|cbn [snd] in Hres; now rewrite Hres].
    rewrite Bool.orb_true_r in *. cbn [snd] in Hres. now rewrite Hres.
  - destruct (ll_locate s n) as [[l p]|]; [|cbn [snd] in Hres; now rewrite Hres].
    unfold ll_sp_insert in *. destruct (ll_sp_list s l); [|cbn [snd] in Hres; now rewrite Hres].
    rewrite Bool.orb_true_r in *. cbn [snd] in Hres. now rewrite Hres.
Qed.

(* ------------------------------------------------------------------ *)
(* the hypotheses are satisfiable by non-trivial states                *)
(* ------------------------------------------------------------------ *)
Definition ll_example_ops : list ll_op :=
  [ LCreate true true; LCreate true false;
    LInsLast true (Some 0) 11%Z; LInsLast true (Some 0) 12%Z; LInsBefore true (Some 1) 13%Z;
    LInsAfter true (Some 0) 14%Z; LMvFirst (Some 1) (Some 1); LMvLast (Some 0) (Some 0);
    LNodeDestroy (Some 2) ].

Example ll_example_state :
  exists h, ll_model_after ll_heap_empty ll_example_ops = Ok h /\
            ll_inv h (ll_spec_after ll_spec_empty ll_example_ops) /\
            sp_lists (ll_spec_after ll_spec_empty ll_example_ops) =
              [Some (mkSL true [(3, 14%Z); (0, 11%Z)]); Some (mkSL false [(1, 12%Z)])] /\
            ll_observe h = Ok [(0, mkLV [(3, 14%Z, Some 0); (0, 11%Z, Some 0)] [(0, 11%Z); (3, 14%Z)] 2);
                               (1, mkLV [(1, 12%Z, Some 1)] [(1, 12%Z)] 1)].
Proof.
  destruct (ll_inv_reachable ll_example_ops _ _ ll_inv_empty) as [h [E HR]].
  exists h. split; [exact E|]. split; [exact HR|]. split; [vm_compute; reflexivity|].
  vm_compute in E. injection E as <-. vm_compute. reflexivity.
Qed.
