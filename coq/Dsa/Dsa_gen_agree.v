(* Hand models of the containers vs. text GENERATED from the C source (CAres.Gen.LeafFns, listed
   in gen/leaf.d/C19_dsa.txt): wherever a container function fits the translator, the hand model
   is proved equal to the generated function, so a change of the C source breaks these proofs.
   Calls to functions that are not translated (ares_round_up_pow2, ares_log2, ares_realloc_zero,
   ares_array_remove_at) are inputs of the generated functions; they are instantiated with the
   model's own value for that call. *)
From CAres.Dsa Require Import Array SList LList Htable.
From CAres.Gen Require Import Consts LeafFns.
From CAres.Base Require Import CInt.
Local Open Scope Z_scope.

(* ---------------- array ---------------- *)
Lemma arr_len_agrees_generated a :
  c_ares_array_len (Z.of_nat (a_cnt a)) = Ok (Z.of_nat (arr_len a)).
Proof. reflexivity. Qed.

Definition arr_status {A} (m : outcome A) : option Z :=
  match m with Ok _ => Some ARES_SUCCESS | Err s => Some s | UB _ => None end.

(* ares_array_set_size: same status and same final alloc_cnt for every size, every array and
   every allocator answer ([newptr] = what ares_realloc_zero returns: NULL iff it refuses) *)
Theorem arr_set_size_agrees_generated (ok : bool) (a : arr) (size : nat) (msz ptr newptr : Z) :
  newptr <> 0 ->
  exists st alloc' ptr',
    c_ares_array_set_size (Z.of_nat size) (Z.of_nat (a_cnt a)) (Z.of_nat (round_up_pow2 size))
                          (Z.of_nat (alloc_cnt a)) msz (if ok then newptr else 0) ptr
      = Ok (st, alloc', ptr') /\
    arr_status (arr_set_size ok a size) = Some st /\
    alloc' = Z.of_nat (match arr_set_size ok a size with Ok a' => alloc_cnt a' | _ => alloc_cnt a end) /\
    a_cnt (match arr_set_size ok a size with Ok a' => a' | _ => a end) = a_cnt a.
Proof.
  intros Hp. unfold c_ares_array_set_size, arr_set_size.
  replace (Z.to_nat ARES__ARRAY_MIN) with 4%nat by reflexivity.
  destruct (Nat.eqb_spec size 0) as [E0|N0].
  - subst size. cbn [Z.of_nat Z.eqb orb]. eexists _, _, _. repeat split.
  - replace (Z.of_nat size =? 0) with false by (symmetry; apply Z.eqb_neq; lia). cbn [orb].
    destruct (Nat.ltb_spec size (a_cnt a)) as [Hlt|Hge].
    + replace (Z.of_nat size <? Z.of_nat (a_cnt a)) with true by (symmetry; apply Z.ltb_lt; lia).
      eexists _, _, _. repeat split.
    + replace (Z.of_nat size <? Z.of_nat (a_cnt a)) with false by (symmetry; apply Z.ltb_ge; lia).
      set (r := round_up_pow2 size).
      destruct (Nat.ltb_spec r 4) as [Hr|Hr].
      * replace (Z.of_nat r <? 4) with true by (symmetry; apply Z.ltb_lt; lia).
        destruct (Nat.leb_spec 4 (alloc_cnt a)) as [Ha|Ha].
        -- replace (4 <=? Z.of_nat (alloc_cnt a)) with true by (symmetry; apply Z.leb_le; lia).
           eexists _, _, _. repeat split.
        -- replace (4 <=? Z.of_nat (alloc_cnt a)) with false by (symmetry; apply Z.leb_gt; lia).
           destruct ok.
           ++ replace (newptr =? 0) with false by (symmetry; apply Z.eqb_neq; exact Hp).
              eexists _, _, _. split; [reflexivity|]. split; [reflexivity|]. split; [|reflexivity].
              unfold alloc_cnt. cbn [a_cells]. rewrite app_length, repeat_length. fold (alloc_cnt a). lia.
           ++ cbn [Z.eqb]. eexists _, _, _. repeat split.
      * replace (Z.of_nat r <? 4) with false by (symmetry; apply Z.ltb_ge; lia).
        destruct (Nat.leb_spec r (alloc_cnt a)) as [Ha|Ha].
        -- replace (Z.of_nat r <=? Z.of_nat (alloc_cnt a)) with true by (symmetry; apply Z.leb_le; lia).
           eexists _, _, _. repeat split.
        -- replace (Z.of_nat r <=? Z.of_nat (alloc_cnt a)) with false by (symmetry; apply Z.leb_gt; lia).
           destruct ok.
           ++ replace (newptr =? 0) with false by (symmetry; apply Z.eqb_neq; exact Hp).
              eexists _, _, _. split; [reflexivity|]. split; [reflexivity|]. split; [|reflexivity].
              unfold alloc_cnt. cbn [a_cells]. rewrite app_length, repeat_length. fold (alloc_cnt a). lia.
           ++ cbn [Z.eqb]. eexists _, _, _. repeat split.
Qed.

(* ares_array_remove_last: the cnt == 0 check, then whatever ares_array_remove_at answers *)
Theorem arr_remove_last_agrees_generated a :
  arr_status (arr_remove_at a (a_cnt a - 1)) <> None ->
  exists st,
    arr_status (arr_remove_last a) = Some st /\
    forall st_at, arr_status (arr_remove_at a (a_cnt a - 1)) = Some st_at ->
      c_ares_array_remove_last (Z.of_nat (arr_len a)) st_at = Ok st.
Proof.
  intros Hnub. unfold c_ares_array_remove_last, arr_remove_last, arr_len.
  destruct (Nat.eqb_spec (a_cnt a) 0) as [E0|N0].
  - rewrite E0. cbn [Z.of_nat Z.eqb arr_status]. eauto.
  - replace (Z.of_nat (a_cnt a) =? 0) with false by (symmetry; apply Z.eqb_neq; lia).
    destruct (arr_status (arr_remove_at a (a_cnt a - 1))) as [s|] eqn:E; [|congruence].
    exists s. split; [reflexivity|]. intros st_at H. inversion H. reflexivity.
Qed.

(* ---------------- skip list ---------------- *)
(* ares_slist_max_level (ares_round_up_pow2 / ares_log2 as the model computes them) *)
Theorem sl_max_level_agrees_generated cnt levels :
  Z.of_nat cnt + 1 < 2 ^ 64 ->
  c_ares_slist_max_level (Z.of_nat cnt) (Z.of_nat levels)
                         (Z.of_nat (sl_round_up_pow2 (cnt + 1)))
                         (Z.of_nat (sl_log2 (sl_round_up_pow2 (cnt + 1))))
  = Ok (Z.of_nat (sl_max_level cnt levels)).
Proof.
  intros Hb. unfold c_ares_slist_max_level, sl_max_level, guard.
  replace sl_start_levels with 4%nat by reflexivity.
  change ((0 <=? 4) && (4 <? 32))%bool with true. cbv iota.
  change (Z.shiftl 1 4) with 16. change ((0 <=? 1) && (16 <? 2 ^ 31))%bool with true. cbv iota.
  change (16 mod 2 ^ 64) with 16. rewrite Z.mod_small by lia.
  change (2 ^ 4)%nat with 16%nat.
  destruct (Nat.leb_spec (cnt + 1) 16) as [Hc|Hc].
  - replace (Z.of_nat cnt + 1 <=? 16) with true by (symmetry; apply Z.leb_le; lia).
    destruct (Nat.ltb_spec 4 levels) as [Hl|Hl].
    + replace (Z.of_nat levels >? 4) with true by (symmetry; apply Z.gtb_lt; lia). reflexivity.
    + replace (Z.of_nat levels >? 4) with false by (symmetry; rewrite Z.gtb_ltb; apply Z.ltb_ge; lia). reflexivity.
  - replace (Z.of_nat cnt + 1 <=? 16) with false by (symmetry; apply Z.leb_gt; lia).
    set (m := sl_log2 (sl_round_up_pow2 (cnt + 1))).
    destruct (Nat.ltb_spec m levels) as [Hl|Hl].
    + replace (Z.of_nat levels >? Z.of_nat m) with true by (symmetry; apply Z.gtb_lt; lia). reflexivity.
    + replace (Z.of_nat levels >? Z.of_nat m) with false by (symmetry; rewrite Z.gtb_ltb; apply Z.ltb_ge; lia). reflexivity.
Qed.

Lemma sl_len_agrees_generated {D} (s : @slist D) :
  c_ares_slist_len (Z.of_nat (sl_cnt s)) = Ok (Z.of_nat (sl_len s)).
Proof. reflexivity. Qed.

(* ---------------- linked list, hash table: the length getters ---------------- *)
Lemma ll_len_agrees_generated (L : ll_list) :
  c_ares_llist_len (Z.of_nat (ll_cnt L)) = Ok (Z.of_nat (ll_cnt L)).
Proof. reflexivity. Qed.

Lemma ht_num_keys_agrees_generated {K V} (h : @ht K V) :
  c_ares_htable_num_keys (Z.of_nat (ht_num_keys h)) = Ok (Z.of_nat (ht_num_keys h)).
Proof. reflexivity. Qed.
