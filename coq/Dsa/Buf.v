(* Model of src/lib/str/ares_buf.c (the byte buffer), in the shape of the C code.

   State = the fields of struct ares_buf, all size_t fields as Z with the size_t wrap-around
   written explicitly ([buf_w64]); [b_mem] is the content of the memory block [data] points to
   (the allocation of [alloc_buf_len] bytes for a dynamic buffer - including the stale bytes
   behind [data_len] -, the caller's bytes for a const buffer); the two pointers are
   represented by their NULL-ness.  The cursor functions (len, consume, tag, rollback, clear,
   tag_length, set_length, set_position, get_position, is_const, append_finish) are the
   functions GENERATED from the C source (CAres.Gen.LeafFns); everything touching memory is
   written by hand: a read or write outside the block is an explicit [UB OutOfBounds], a
   size_t underflow that feeds memmove is an explicit UB as well.

   Allocation sites take a boolean oracle (the allocator's answer); the content of freshly
   allocated memory is the Section variable [junk] (theorems hold for every [junk]).  The
   allocator is assumed never to hand out a block of 2^62 bytes or more ([buf_alloc_answer]). *)
From CAres.Base Require Export Outcome CInt.
From CAres.Gen Require Import Consts LeafFns.
Local Open Scope Z_scope.
Local Open Scope bool_scope.

Definition BUF_SIZE_MAX : Z := 18446744073709551615.      (* SIZE_MAX: "no tag" *)
Definition BUF_ALLOC_LIMIT : Z := 2 ^ 62.
Definition buf_w64 (z : Z) : Z := z mod 2 ^ 64.

Record cbuf := mkBuf {
  b_mem     : list Z;   (* bytes of the block [data] points to *)
  b_dlen    : Z;        (* data_len *)
  b_alloc   : Z;        (* alloc_buf_len *)
  b_off     : Z;        (* offset *)
  b_tag     : Z;        (* tag_offset, BUF_SIZE_MAX = not set *)
  b_hasdata : bool;     (* data != NULL *)
  b_hasabuf : bool }.   (* alloc_buf != NULL *)

Definition buf_zlen {A} (l : list A) : Z := Z.of_nat (length l).
Definition buf_take {A} (n : Z) (l : list A) : list A := firstn (Z.to_nat n) l.
Definition buf_drop {A} (n : Z) (l : list A) : list A := skipn (Z.to_nat n) l.

Definition buf_with_off (b : cbuf) (o : Z) : cbuf :=
  mkBuf (b_mem b) (b_dlen b) (b_alloc b) o (b_tag b) (b_hasdata b) (b_hasabuf b).
Definition buf_with_tag (b : cbuf) (t : Z) : cbuf :=
  mkBuf (b_mem b) (b_dlen b) (b_alloc b) (b_off b) t (b_hasdata b) (b_hasabuf b).
Definition buf_with_dlen (b : cbuf) (d : Z) : cbuf :=
  mkBuf (b_mem b) d (b_alloc b) (b_off b) (b_tag b) (b_hasdata b) (b_hasabuf b).

(* ---------------------------------------------------------------------------------------
   abstraction functions (used by the specification and the proofs)
   --------------------------------------------------------------------------------------- *)
Definition buf_data (b : cbuf) : list Z := buf_take (b_dlen b) (b_mem b).
Definition buf_remaining (b : cbuf) : list Z := buf_drop (b_off b) (buf_data b).
Definition buf_consumed (b : cbuf) : list Z := buf_take (b_off b) (buf_data b).
(* the bytes between the tag and the offset ([] when no tag is set) *)
Definition buf_tagged (b : cbuf) : list Z :=
  if b_tag b =? BUF_SIZE_MAX then [] else buf_drop (b_tag b) (buf_consumed b).

(* ---------------------------------------------------------------------------------------
   character classes (ares_str.h macros, ares_is_whitespace of ares_buf.c)
   --------------------------------------------------------------------------------------- *)
Definition buf_isprint (c : Z) : bool := (32 <=? c) && (c <=? 126).
(* '\r' 13, '\t' 9, ' ' 32, '\v' 11, '\f' 12; '\n' 10 only when include_linefeed *)
Definition buf_is_whitespace (c : Z) (include_linefeed : bool) : bool :=
  (c =? 13) || (c =? 9) || (c =? 32) || (c =? 11) || (c =? 12) || ((c =? 10) && include_linefeed).
(* ares_tolower_lookup *)
Definition buf_tolower (c : Z) : Z := if (65 <=? c) && (c <=? 90) then c + 32 else c.

Section BufModel.
Variable junk : Z -> Z.     (* content of never written allocator memory, by block index *)

(* ares_buf_create; [ok] = answer of ares_malloc_zero *)
Definition buf_create (ok : bool) : option cbuf :=
  if ok then Some (mkBuf [] 0 0 0 BUF_SIZE_MAX false false) else None.

(* ares_buf_create_const(data, data_len); data == NULL is not modelled *)
Definition buf_create_const (ok : bool) (bytes : list Z) : option cbuf :=
  if buf_zlen bytes =? 0 then None
  else match buf_create ok with
       | None => None
       | Some b => Some (mkBuf bytes (buf_zlen bytes) (b_alloc b) (b_off b) (b_tag b) true false)
       end.

Definition buf_is_const (b : cbuf) : outcome Z :=
  c_ares_buf_is_const (b2z (b_hasdata b)) (b2z (b_hasabuf b)).

(* ---- cursor operations: the generated functions applied to the record ---- *)
Definition buf_len (b : cbuf) : outcome Z := c_ares_buf_len (b_dlen b) (b_off b).

Definition buf_consume (b : cbuf) (len : Z) : outcome (Z * cbuf) :=
  do l <- buf_len b;
  do r <- c_ares_buf_consume len l (b_off b);
  Ok (fst r, buf_with_off b (snd r)).

Definition buf_tag (b : cbuf) : outcome cbuf :=
  do t <- c_ares_buf_tag (b_off b); Ok (buf_with_tag b t).

Definition buf_tag_rollback (b : cbuf) : outcome (Z * cbuf) :=
  do r <- c_ares_buf_tag_rollback (b_tag b) (b_off b);
  Ok (fst (fst r), buf_with_tag (buf_with_off b (snd (fst r))) (snd r)).

Definition buf_tag_clear (b : cbuf) : outcome (Z * cbuf) :=
  do r <- c_ares_buf_tag_clear (b_tag b);
  Ok (fst r, buf_with_tag b (snd r)).

Definition buf_tag_length (b : cbuf) : outcome Z := c_ares_buf_tag_length (b_tag b) (b_off b).

Definition buf_set_length (b : cbuf) (len : Z) : outcome (Z * cbuf) :=
  do c <- buf_is_const b;
  do r <- c_ares_buf_set_length len c (b_alloc b) (b_off b) (b_dlen b);
  Ok (fst r, buf_with_dlen b (snd r)).

Definition buf_set_position (b : cbuf) (idx : Z) : outcome (Z * cbuf) :=
  do r <- c_ares_buf_set_position idx (b_dlen b) (b_off b);
  Ok (fst r, buf_with_off b (snd r)).

Definition buf_get_position (b : cbuf) : outcome Z := c_ares_buf_get_position (b_off b).

(* ---- memory ---- *)
(* read n bytes at index [at] of the block *)
Definition buf_read (b : cbuf) (at_ n : Z) : outcome (list Z) :=
  if (0 <=? at_) && (0 <=? n) && (at_ + n <=? buf_zlen (b_mem b))
  then Ok (buf_take n (buf_drop at_ (b_mem b))) else UB OutOfBounds.

(* memcpy(block + at, bytes, len bytes) *)
Definition buf_mem_write (mem : list Z) (at_ : Z) (bytes : list Z) : list Z :=
  buf_take at_ mem ++ bytes ++ buf_drop (at_ + buf_zlen bytes) mem.

Definition buf_junk_block (from to : Z) : list Z :=
  map (fun i => junk (from + Z.of_nat i)) (seq 0 (Z.to_nat (to - from))).

(* ares_buf_reclaim *)
Definition buf_reclaim (b : cbuf) : outcome cbuf :=
  do c <- buf_is_const b;
  if negb (c =? 0) then Ok b
  else if negb (b_hasabuf b) then Ok b
  else
    let prefix_size :=
      if negb (b_tag b =? BUF_SIZE_MAX) && (b_tag b <? b_off b) then b_tag b else b_off b in
    if prefix_size =? 0 then Ok b
    else
      let data_size := buf_w64 (b_dlen b - prefix_size) in
      (* memmove(alloc_buf, alloc_buf + prefix_size, data_size) *)
      if buf_zlen (b_mem b) <? prefix_size + data_size then UB OutOfBounds
      else
        let moved := buf_take data_size (buf_drop prefix_size (b_mem b)) in
        Ok (mkBuf (moved ++ buf_drop data_size (b_mem b)) data_size (b_alloc b)
                  (buf_w64 (b_off b - prefix_size))
                  (if negb (b_tag b =? BUF_SIZE_MAX) then buf_w64 (b_tag b - prefix_size) else b_tag b)
                  (b_hasdata b) (b_hasabuf b)).

(* the allocator's answer for a request of [size] bytes: it never satisfies 2^62 or more *)
Definition buf_alloc_answer (ok : bool) (size : Z) : bool := ok && (size <? BUF_ALLOC_LIMIT).

(* do { alloc_size <<= 1; remaining_size = alloc_size - data_len; } while (remaining_size < needed_size) *)
Fixpoint buf_grow_loop (fuel : nat) (alloc_size dlen needed : Z) : outcome Z :=
  match fuel with
  | O => Err OutOfFuel
  | S f =>
    let a := buf_w64 (alloc_size * 2) in
    let remaining_size := buf_w64 (a - dlen) in
    if remaining_size <? needed then buf_grow_loop f a dlen needed else Ok a
  end.

(* ares_buf_ensure_space; returns the status and the buffer (reclaimed and/or grown) *)
Definition buf_ensure_space (ok : bool) (b : cbuf) (needed_size : Z) : outcome (Z * cbuf) :=
  do c <- buf_is_const b;
  if negb (c =? 0) then Ok (ARES_EFORMERR, b)
  else
    let needed := buf_w64 (needed_size + 1) in
    if buf_w64 (b_alloc b - b_dlen b) >=? needed then Ok (ARES_SUCCESS, b)
    else
      do b1 <- buf_reclaim b;
      if buf_w64 (b_alloc b1 - b_dlen b1) >=? needed then Ok (ARES_SUCCESS, b1)
      else
        let a0 := if b_alloc b1 =? 0 then 16 else b_alloc b1 in
        do a <- buf_grow_loop 64 a0 (b_dlen b1) needed;
        if buf_alloc_answer ok a
        then Ok (ARES_SUCCESS,
                 mkBuf (b_mem b1 ++ buf_junk_block (buf_zlen (b_mem b1)) a) (b_dlen b1) a
                       (b_off b1) (b_tag b1) true true)
        else Ok (ARES_ENOMEM, b1).

(* ares_buf_append(buf, data, data_len) with data != NULL *)
Definition buf_append (ok : bool) (b : cbuf) (bytes : list Z) : outcome (Z * cbuf) :=
  let data_len := buf_zlen bytes in
  if data_len =? 0 then Ok (ARES_SUCCESS, b)
  else
    do r <- buf_ensure_space ok b data_len;
    if negb (fst r =? ARES_SUCCESS) then Ok r
    else
      let b1 := snd r in
      if negb (b_hasabuf b1) then UB NullDeref
      else if buf_zlen (b_mem b1) <? b_dlen b1 + data_len then UB OutOfBounds
      else Ok (ARES_SUCCESS,
               mkBuf (buf_mem_write (b_mem b1) (b_dlen b1) bytes) (buf_w64 (b_dlen b1 + data_len))
                     (b_alloc b1) (b_off b1) (b_tag b1) (b_hasdata b1) (b_hasabuf b1)).

Definition buf_append_byte (ok : bool) (b : cbuf) (x : Z) : outcome (Z * cbuf) :=
  buf_append ok b [x].

(* the bytes ares_buf_append_be16 / _be32 compute (shifts and masks as in the C code) *)
Definition buf_be16_bytes (u16 : Z) : list Z :=
  [Z.land (Z.shiftr u16 8) 255; Z.land u16 255].
Definition buf_be32_bytes (u32 : Z) : list Z :=
  [Z.land (Z.shiftr u32 24 mod 256) 255; Z.land (Z.shiftr u32 16 mod 256) 255;
   Z.land (Z.shiftr u32 8 mod 256) 255; Z.land (u32 mod 256) 255].

(* ares_buf_append_be16: two ares_buf_append_byte calls, each with its own allocation site *)
Definition buf_append_be16 (ok1 ok2 : bool) (b : cbuf) (u16 : Z) : outcome (Z * cbuf) :=
  do r1 <- buf_append_byte ok1 b (Z.land (Z.shiftr u16 8) 255);
  if negb (fst r1 =? ARES_SUCCESS) then Ok r1
  else
    do r2 <- buf_append_byte ok2 (snd r1) (Z.land u16 255);
    if negb (fst r2 =? ARES_SUCCESS) then Ok r2
    else Ok (ARES_SUCCESS, snd r2).

Definition buf_append_be32 (ok1 ok2 ok3 ok4 : bool) (b : cbuf) (u32 : Z) : outcome (Z * cbuf) :=
  do r1 <- buf_append_byte ok1 b (Z.land (Z.shiftr u32 24 mod 256) 255);
  if negb (fst r1 =? ARES_SUCCESS) then Ok r1
  else
    do r2 <- buf_append_byte ok2 (snd r1) (Z.land (Z.shiftr u32 16 mod 256) 255);
    if negb (fst r2 =? ARES_SUCCESS) then Ok r2
    else
      do r3 <- buf_append_byte ok3 (snd r2) (Z.land (Z.shiftr u32 8 mod 256) 255);
      if negb (fst r3 =? ARES_SUCCESS) then Ok r3
      else
        do r4 <- buf_append_byte ok4 (snd r3) (Z.land (u32 mod 256) 255);
        if negb (fst r4 =? ARES_SUCCESS) then Ok r4
        else Ok (ARES_SUCCESS, snd r4).

(* ares_buf_fetch: (returned pointer is NULL, *len) *)
Definition buf_fetch (b : cbuf) : bool * Z :=
  if negb (b_hasdata b) then (true, 0)
  else
    let l := buf_w64 (b_dlen b - b_off b) in
    if l =? 0 then (true, 0) else (false, l).

(* ares_buf_peek: the bytes behind the returned pointer, [] for NULL *)
Definition buf_peek (b : cbuf) : outcome (list Z) :=
  let f := buf_fetch b in
  if fst f then Ok [] else buf_read b (b_off b) (snd f).

Definition buf_peek_byte (b : cbuf) : outcome (Z * Z) :=
  let f := buf_fetch b in
  if snd f =? 0 then Ok (ARES_EBADRESP, 0)
  else
    do bytes <- buf_read b (b_off b) 1;
    match bytes with
    | [x] => Ok (ARES_SUCCESS, x)
    | _ => UB OutOfBounds
    end.

(* ares_buf_fetch_bytes(buf, bytes, len) with bytes != NULL *)
Definition buf_fetch_bytes (b : cbuf) (len : Z) : outcome (Z * cbuf * list Z) :=
  let f := buf_fetch b in
  if (len =? 0) || (snd f <? len) then Ok (ARES_EBADRESP, b, [])
  else
    do bytes <- buf_read b (b_off b) len;
    do r <- buf_consume b len;
    Ok (fst r, snd r, bytes).

Definition buf_fetch_be16 (b : cbuf) : outcome (Z * cbuf * Z) :=
  let f := buf_fetch b in
  if snd f <? 2 then Ok (ARES_EBADRESP, b, 0)
  else
    do bytes <- buf_read b (b_off b) 2;
    match bytes with
    | [p0; p1] =>
      let u32 := Z.lor (Z.shiftl p0 8) p1 in
      do r <- buf_consume b 2;
      Ok (fst r, snd r, Z.land u32 65535)
    | _ => UB OutOfBounds
    end.

Definition buf_fetch_be32 (b : cbuf) : outcome (Z * cbuf * Z) :=
  let f := buf_fetch b in
  if snd f <? 4 then Ok (ARES_EBADRESP, b, 0)
  else
    do bytes <- buf_read b (b_off b) 4;
    match bytes with
    | [p0; p1; p2; p3] =>
      let u32 := Z.lor (Z.lor (Z.lor (Z.shiftl p0 24) (Z.shiftl p1 16)) (Z.shiftl p2 8)) p3 in
      do r <- buf_consume b 4;
      Ok (fst r, snd r, u32)
    | _ => UB OutOfBounds
    end.

End BufModel.

(* =======================================================================================
   The reference specification: a cursor over a byte sequence.
     s_pre   the consumed bytes the buffer still holds (oldest first)
     s_post  the remaining bytes = the byte QUEUE (appends at the back, fetches at the front)
     s_tag   the saved tag: absolute position inside s_pre (None = no tag)
     s_const buffer created over caller-owned bytes (read only, nothing is ever discarded)
   Capacity, allocation and memmove do not exist here.  Where the implementation's behaviour
   depends on capacity (allocation failure, whether consumed bytes were discarded by a
   reclaim, set_length's capacity guard) the specification lists the ALTERNATIVES it allows.
   ======================================================================================= *)
Record bspec := mkSpec { s_pre : list Z; s_post : list Z; s_tag : option Z; s_const : bool }.

Definition buf_abs (b : cbuf) : bspec :=
  mkSpec (buf_consumed b) (buf_remaining b)
         (if b_tag b =? BUF_SIZE_MAX then None else Some (b_tag b))
         (b_hasdata b && negb (b_hasabuf b)).

Definition spec_create : bspec := mkSpec [] [] None false.
Definition spec_create_const (bytes : list Z) : bspec := mkSpec [] bytes None true.

Definition spec_len (s : bspec) : Z := buf_zlen (s_post s).
Definition spec_position (s : bspec) : Z := buf_zlen (s_pre s).
Definition spec_tag_length (s : bspec) : Z :=
  match s_tag s with None => 0 | Some t => buf_zlen (s_pre s) - t end.
(* the tagged region: the bytes between the tag and the cursor *)
Definition spec_tagged (s : bspec) : list Z :=
  match s_tag s with None => [] | Some t => buf_drop t (s_pre s) end.

(* move the cursor forward by n <= |post| *)
Definition spec_advance (s : bspec) (n : Z) : bspec :=
  mkSpec (s_pre s ++ buf_take n (s_post s)) (buf_drop n (s_post s)) (s_tag s) (s_const s).

Definition spec_consume (s : bspec) (n : Z) : Z * bspec :=
  if spec_len s <? n then (ARES_EBADRESP, s) else (ARES_SUCCESS, spec_advance s n).

Definition spec_tag (s : bspec) : bspec :=
  mkSpec (s_pre s) (s_post s) (Some (spec_position s)) (s_const s).

Definition spec_tag_rollback (s : bspec) : Z * bspec :=
  match s_tag s with
  | None => (ARES_EFORMERR, s)
  | Some t => (ARES_SUCCESS, mkSpec (buf_take t (s_pre s)) (buf_drop t (s_pre s) ++ s_post s) None (s_const s))
  end.

Definition spec_tag_clear (s : bspec) : Z * bspec :=
  match s_tag s with
  | None => (ARES_EFORMERR, s)
  | Some t => (ARES_SUCCESS, mkSpec (s_pre s) (s_post s) None (s_const s))
  end.

(* absolute repositioning inside the bytes held; CONTRACT (see spec_set_position_contract):
   not below an active tag *)
Definition spec_set_position (s : bspec) (idx : Z) : Z * bspec :=
  let all := s_pre s ++ s_post s in
  if idx >? buf_zlen all then (ARES_EFORMERR, s)
  else (ARES_SUCCESS, mkSpec (buf_take idx all) (buf_drop idx all) (s_tag s) (s_const s)).
Definition spec_set_position_contract (s : bspec) (idx : Z) : bool :=
  match s_tag s with None => true | Some t => (t <=? idx) || (idx >? buf_zlen (s_pre s ++ s_post s)) end.

Definition spec_peek_byte (s : bspec) : Z * Z :=
  match s_post s with [] => (ARES_EBADRESP, 0) | x :: _ => (ARES_SUCCESS, x) end.

Definition spec_fetch_bytes (s : bspec) (n : Z) : Z * bspec * list Z :=
  if (n =? 0) || (spec_len s <? n) then (ARES_EBADRESP, s, [])
  else (ARES_SUCCESS, spec_advance s n, buf_take n (s_post s)).

(* big-endian value of a byte list *)
Fixpoint spec_be_value (acc : Z) (l : list Z) : Z :=
  match l with [] => acc | x :: r => spec_be_value (acc * 256 + x) r end.

Definition spec_fetch_be (k : Z) (s : bspec) : Z * bspec * Z :=
  if spec_len s <? k then (ARES_EBADRESP, s, 0)
  else (ARES_SUCCESS, spec_advance s k, spec_be_value 0 (buf_take k (s_post s))).

(* big-endian encoding of v in k bytes *)
Fixpoint spec_be_bytes (k : nat) (v : Z) : list Z :=
  match k with O => [] | S k' => spec_be_bytes k' (v / 256) ++ [v mod 256] end.

(* what a reclaim may discard: everything consumed before the tag (before the cursor when no
   tag is set) *)
Definition spec_trim (s : bspec) : bspec :=
  if s_const s then s
  else match s_tag s with
       | None => mkSpec [] (s_post s) None false
       | Some t => mkSpec (buf_drop t (s_pre s)) (s_post s) (Some 0) false
       end.

(* appending: success adds exactly the bytes at the back; failure (allocation) changes nothing
   of the abstract value; either way consumed bytes may or may not have been discarded *)
Definition spec_append_alts (s : bspec) (bytes : list Z) : list (Z * bspec) :=
  if s_const s then [(ARES_EFORMERR, s)]
  else if buf_zlen bytes =? 0 then [(ARES_SUCCESS, s)]
  else
    let app x := mkSpec (s_pre x) (s_post x ++ bytes) (s_tag x) (s_const x) in
    [(ARES_SUCCESS, app s); (ARES_SUCCESS, app (spec_trim s));
     (ARES_ENOMEM, s); (ARES_ENOMEM, spec_trim s)].
