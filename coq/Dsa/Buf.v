(* Model of src/lib/str/ares_buf.c (the byte buffer), in the shape of the C code.

   State = the fields of struct ares_buf, all size_t fields as Z with the size_t wrap-around
   written explicitly ([buf_w64]); [cb_mem] is the content of the memory block [data] points to
   (the allocation of [alloc_buf_len] bytes for a dynamic buffer - including the stale bytes
   behind [data_len] -, the caller's bytes for a const buffer); the two pointers are
   represented by their NULL-ness.  The cursor functions (len, consume, tag, rollback, clear,
   tag_length, set_length, set_position, get_position, is_const, append_finish) are the
   functions GENERATED from the C source (CAres.Gen.LeafFns); everything touching memory is
   written by hand: a read or write outside the block is an explicit [UB OutOfBounds], a
   size_t underflow that feeds memmove is an explicit UB as well.

   Allocation sites take a boolean oracle (the allocator's answer); the content of freshly
   allocated memory is the Section variable [junk] (theorems hold for every [junk]).  The
   allocator is assumed never to hand out a block of 2^62 bytes or more ([buf_alloc_answer]). *)
From CAres.Base Require Export Outcome CInt.
From CAres.Gen Require Import Consts LeafFns.
Local Open Scope Z_scope.
Local Open Scope bool_scope.

Definition BUF_SIZE_MAX : Z := 18446744073709551615.      (* SIZE_MAX: "no tag" *)
Definition BUF_ALLOC_LIMIT : Z := 2 ^ 62.
Definition buf_w64 (z : Z) : Z := z mod 2 ^ 64.

Record cbuf := mkBuf {
  cb_mem     : list Z;   (* bytes of the block [data] points to *)
  cb_dlen    : Z;        (* data_len *)
  cb_alloc   : Z;        (* alloc_buf_len *)
  cb_off     : Z;        (* offset *)
  cb_tag     : Z;        (* tag_offset, BUF_SIZE_MAX = not set *)
  cb_hasdata : bool;     (* data != NULL *)
  cb_hasabuf : bool }.   (* alloc_buf != NULL *)

Definition buf_zlen {A} (l : list A) : Z := Z.of_nat (length l).
Definition buf_take {A} (n : Z) (l : list A) : list A := firstn (Z.to_nat n) l.
Definition buf_drop {A} (n : Z) (l : list A) : list A := skipn (Z.to_nat n) l.

Definition buf_with_off (b : cbuf) (o : Z) : cbuf :=
  mkBuf (cb_mem b) (cb_dlen b) (cb_alloc b) o (cb_tag b) (cb_hasdata b) (cb_hasabuf b).
Definition buf_with_tag (b : cbuf) (t : Z) : cbuf :=
  mkBuf (cb_mem b) (cb_dlen b) (cb_alloc b) (cb_off b) t (cb_hasdata b) (cb_hasabuf b).
Definition buf_with_dlen (b : cbuf) (d : Z) : cbuf :=
  mkBuf (cb_mem b) d (cb_alloc b) (cb_off b) (cb_tag b) (cb_hasdata b) (cb_hasabuf b).

(* ---------------------------------------------------------------------------------------
   abstraction functions (used by the specification and the proofs)
   --------------------------------------------------------------------------------------- *)
Definition buf_data (b : cbuf) : list Z := buf_take (cb_dlen b) (cb_mem b).
Definition buf_remaining (b : cbuf) : list Z := buf_drop (cb_off b) (buf_data b).
Definition buf_consumed (b : cbuf) : list Z := buf_take (cb_off b) (buf_data b).
(* the bytes between the tag and the offset ([] when no tag is set) *)
Definition buf_tagged (b : cbuf) : list Z :=
  if cb_tag b =? BUF_SIZE_MAX then [] else buf_drop (cb_tag b) (buf_consumed b).

(* ---------------------------------------------------------------------------------------
   character classes (ares_str.h macros, ares_is_whitespace of ares_buf.c)
   --------------------------------------------------------------------------------------- *)
Definition buf_isprint (c : Z) : bool := (32 <=? c) && (c <=? 126).
(* '\r' 13, '\t' 9, ' ' 32, '\v' 11, '\f' 12; '\n' 10 only when include_linefeed *)
Definition buf_is_whitespace (c : Z) (include_linefeed : bool) : bool :=
  (c =? 13) || (c =? 9) || (c =? 32) || (c =? 11) || (c =? 12) || ((c =? 10) && include_linefeed).
(* ares_tolower_lookup *)
Definition buf_tolower (c : Z) : Z := if (65 <=? c) && (c <=? 90) then c + 32 else c.

Section BufModel.
Variable junk : Z -> Z.     (* content of never written allocator memory, by block index *)

(* ares_buf_create; [ok] = answer of ares_malloc_zero *)
Definition buf_create (ok : bool) : option cbuf :=
  if ok then Some (mkBuf [] 0 0 0 BUF_SIZE_MAX false false) else None.

(* ares_buf_create_const(data, data_len); data == NULL is not modelled *)
Definition buf_create_const (ok : bool) (bytes : list Z) : option cbuf :=
  if buf_zlen bytes =? 0 then None
  else match buf_create ok with
       | None => None
       | Some b => Some (mkBuf bytes (buf_zlen bytes) (cb_alloc b) (cb_off b) (cb_tag b) true false)
       end.

Definition buf_is_const (b : cbuf) : outcome Z :=
  c_ares_buf_is_const (b2z (cb_hasdata b)) (b2z (cb_hasabuf b)).

(* ---- cursor operations: the generated functions applied to the record ---- *)
Definition buf_len (b : cbuf) : outcome Z := c_ares_buf_len (cb_dlen b) (cb_off b).

Definition buf_consume (b : cbuf) (len : Z) : outcome (Z * cbuf) :=
  do l <- buf_len b;
  do r <- c_ares_buf_consume len l (cb_off b);
  Ok (fst r, buf_with_off b (snd r)).

Definition buf_tag (b : cbuf) : outcome cbuf :=
  do t <- c_ares_buf_tag (cb_off b); Ok (buf_with_tag b t).

Definition buf_tag_rollback (b : cbuf) : outcome (Z * cbuf) :=
  do r <- c_ares_buf_tag_rollback (cb_tag b) (cb_off b);
  Ok (fst (fst r), buf_with_tag (buf_with_off b (snd (fst r))) (snd r)).

Definition buf_tag_clear (b : cbuf) : outcome (Z * cbuf) :=
  do r <- c_ares_buf_tag_clear (cb_tag b);
  Ok (fst r, buf_with_tag b (snd r)).

Definition buf_tag_length (b : cbuf) : outcome Z := c_ares_buf_tag_length (cb_tag b) (cb_off b).

Definition buf_set_length (b : cbuf) (len : Z) : outcome (Z * cbuf) :=
  do c <- buf_is_const b;
  do r <- c_ares_buf_set_length len c (cb_alloc b) (cb_off b) (cb_dlen b);
  Ok (fst r, buf_with_dlen b (snd r)).

Definition buf_set_position (b : cbuf) (idx : Z) : outcome (Z * cbuf) :=
  do r <- c_ares_buf_set_position idx (cb_dlen b) (cb_off b);
  Ok (fst r, buf_with_off b (snd r)).

Definition buf_get_position (b : cbuf) : outcome Z := c_ares_buf_get_position (cb_off b).

(* ---- memory ---- *)
(* read n bytes at index [at] of the block *)
Definition buf_read (b : cbuf) (at_ n : Z) : outcome (list Z) :=
  if (0 <=? at_) && (0 <=? n) && (at_ + n <=? buf_zlen (cb_mem b))
  then Ok (buf_take n (buf_drop at_ (cb_mem b))) else UB OutOfBounds.

(* memcpy(block + at, bytes, len bytes) *)
Definition buf_mem_write (mem : list Z) (at_ : Z) (bytes : list Z) : list Z :=
  buf_take at_ mem ++ bytes ++ buf_drop (at_ + buf_zlen bytes) mem.

Definition buf_junk_block (from to : Z) : list Z :=
  map (fun i => junk (from + Z.of_nat i)) (seq 0 (Z.to_nat (to - from))).

(* ares_buf_reclaim *)
Definition buf_reclaim (b : cbuf) : outcome cbuf :=
  do c <- buf_is_const b;
  if negb (c =? 0) then Ok b
  else if negb (cb_hasabuf b) then Ok b
  else
    let prefix_size :=
      if negb (cb_tag b =? BUF_SIZE_MAX) && (cb_tag b <? cb_off b) then cb_tag b else cb_off b in
    if prefix_size =? 0 then Ok b
    else
      let data_size := buf_w64 (cb_dlen b - prefix_size) in
      (* memmove(alloc_buf, alloc_buf + prefix_size, data_size) *)
      if buf_zlen (cb_mem b) <? prefix_size + data_size then UB OutOfBounds
      else
        let moved := buf_take data_size (buf_drop prefix_size (cb_mem b)) in
        Ok (mkBuf (moved ++ buf_drop data_size (cb_mem b)) data_size (cb_alloc b)
                  (buf_w64 (cb_off b - prefix_size))
                  (if negb (cb_tag b =? BUF_SIZE_MAX) then buf_w64 (cb_tag b - prefix_size) else cb_tag b)
                  (cb_hasdata b) (cb_hasabuf b)).

(* the allocator's answer for a request of [size] bytes: it never satisfies 2^62 or more *)
Definition buf_alloc_answer (ok : bool) (size : Z) : bool := ok && (size <? BUF_ALLOC_LIMIT).

(* do { alloc_size <<= 1; remaining_size = alloc_size - data_len; } while (remaining_size < needed_size) *)
Fixpoint buf_grow_loop (fuel : nat) (alloc_size dlen needed : Z) : outcome Z :=
  match fuel with
  | O => Err OutOfFuel
  | S f =>
    let a := buf_w64 (alloc_size * 2) in
    let remaining_size := buf_w64 (a - dlen) in
    if remaining_size <? needed then buf_grow_loop f a dlen needed else Ok a
  end.

(* ares_buf_ensure_space; returns the status and the buffer (reclaimed and/or grown) *)
Definition buf_ensure_space (ok : bool) (b : cbuf) (needed_size : Z) : outcome (Z * cbuf) :=
  do c <- buf_is_const b;
  if negb (c =? 0) then Ok (ARES_EFORMERR, b)
  else
    let needed := buf_w64 (needed_size + 1) in
    if buf_w64 (cb_alloc b - cb_dlen b) >=? needed then Ok (ARES_SUCCESS, b)
    else
      do b1 <- buf_reclaim b;
      if buf_w64 (cb_alloc b1 - cb_dlen b1) >=? needed then Ok (ARES_SUCCESS, b1)
      else
        let a0 := if cb_alloc b1 =? 0 then 16 else cb_alloc b1 in
        do a <- buf_grow_loop 64 a0 (cb_dlen b1) needed;
        if buf_alloc_answer ok a
        then Ok (ARES_SUCCESS,
                 mkBuf (cb_mem b1 ++ buf_junk_block (buf_zlen (cb_mem b1)) a) (cb_dlen b1) a
                       (cb_off b1) (cb_tag b1) true true)
        else Ok (ARES_ENOMEM, b1).

(* ares_buf_append(buf, data, data_len) with data != NULL *)
Definition buf_append (ok : bool) (b : cbuf) (bytes : list Z) : outcome (Z * cbuf) :=
  let data_len := buf_zlen bytes in
  if data_len =? 0 then Ok (ARES_SUCCESS, b)
  else
    do r <- buf_ensure_space ok b data_len;
    if negb (fst r =? ARES_SUCCESS) then Ok r
    else
      let b1 := snd r in
      if negb (cb_hasabuf b1) then UB NullDeref
      else if buf_zlen (cb_mem b1) <? cb_dlen b1 + data_len then UB OutOfBounds
      else Ok (ARES_SUCCESS,
               mkBuf (buf_mem_write (cb_mem b1) (cb_dlen b1) bytes) (buf_w64 (cb_dlen b1 + data_len))
                     (cb_alloc b1) (cb_off b1) (cb_tag b1) (cb_hasdata b1) (cb_hasabuf b1)).

Definition buf_append_byte (ok : bool) (b : cbuf) (x : Z) : outcome (Z * cbuf) :=
  buf_append ok b [x].

(* ares_buf_append_be16 / _be32 as in fixes/C19-buf-append-be-atomic.patch: the bytes are
   assembled first and appended with ONE ares_buf_append call *)
Definition buf_append_be16 (ok : bool) (b : cbuf) (u16 : Z) : outcome (Z * cbuf) :=
  buf_append ok b [Z.land (Z.shiftr u16 8) 255; Z.land u16 255].
Definition buf_append_be32 (ok : bool) (b : cbuf) (u32 : Z) : outcome (Z * cbuf) :=
  buf_append ok b [Z.land (Z.shiftr u32 24) 255; Z.land (Z.shiftr u32 16) 255;
                   Z.land (Z.shiftr u32 8) 255; Z.land u32 255].

(* the code BEFORE that patch: one ares_buf_append_byte call per byte, each with its own
   allocation site; a failure of a later site leaves the earlier bytes appended *)
Definition buf_append_be16_unfixed (ok1 ok2 : bool) (b : cbuf) (u16 : Z) : outcome (Z * cbuf) :=
  do r1 <- buf_append_byte ok1 b (Z.land (Z.shiftr u16 8) 255);
  if negb (fst r1 =? ARES_SUCCESS) then Ok r1
  else
    do r2 <- buf_append_byte ok2 (snd r1) (Z.land u16 255);
    if negb (fst r2 =? ARES_SUCCESS) then Ok r2
    else Ok (ARES_SUCCESS, snd r2).

Definition buf_append_be32_unfixed (ok1 ok2 ok3 ok4 : bool) (b : cbuf) (u32 : Z) : outcome (Z * cbuf) :=
  do r1 <- buf_append_byte ok1 b (Z.land (Z.shiftr u32 24 mod 256) 255);
  if negb (fst r1 =? ARES_SUCCESS) then Ok r1
  else
    do r2 <- buf_append_byte ok2 (snd r1) (Z.land (Z.shiftr u32 16 mod 256) 255);
    if negb (fst r2 =? ARES_SUCCESS) then Ok r2
    else
      do r3 <- buf_append_byte ok3 (snd r2) (Z.land (Z.shiftr u32 8 mod 256) 255);
      if negb (fst r3 =? ARES_SUCCESS) then Ok r3
      else
        do r4 <- buf_append_byte ok4 (snd r3) (Z.land (u32 mod 256) 255);
        if negb (fst r4 =? ARES_SUCCESS) then Ok r4
        else Ok (ARES_SUCCESS, snd r4).

(* ares_buf_fetch: (returned pointer is NULL, *len) *)
Definition buf_fetch (b : cbuf) : bool * Z :=
  if negb (cb_hasdata b) then (true, 0)
  else
    let l := buf_w64 (cb_dlen b - cb_off b) in
    if l =? 0 then (true, 0) else (false, l).

(* ares_buf_peek: the bytes behind the returned pointer, [] for NULL *)
Definition buf_peek (b : cbuf) : outcome (list Z) :=
  let f := buf_fetch b in
  if fst f then Ok [] else buf_read b (cb_off b) (snd f).

Definition buf_peek_byte (b : cbuf) : outcome (Z * Z) :=
  let f := buf_fetch b in
  if snd f =? 0 then Ok (ARES_EBADRESP, 0)
  else
    do bytes <- buf_read b (cb_off b) 1;
    match bytes with
    | [x] => Ok (ARES_SUCCESS, x)
    | _ => UB OutOfBounds
    end.

(* ares_buf_fetch_bytes(buf, bytes, len) with bytes != NULL *)
Definition buf_fetch_bytes (b : cbuf) (len : Z) : outcome (Z * cbuf * list Z) :=
  let f := buf_fetch b in
  if (len =? 0) || (snd f <? len) then Ok (ARES_EBADRESP, b, [])
  else
    do bytes <- buf_read b (cb_off b) len;
    do r <- buf_consume b len;
    Ok (fst r, snd r, bytes).

Definition buf_fetch_be16 (b : cbuf) : outcome (Z * cbuf * Z) :=
  let f := buf_fetch b in
  if snd f <? 2 then Ok (ARES_EBADRESP, b, 0)
  else
    do bytes <- buf_read b (cb_off b) 2;
    match bytes with
    | [p0; p1] =>
      let u32 := Z.lor (Z.shiftl p0 8) p1 in
      do r <- buf_consume b 2;
      Ok (fst r, snd r, Z.land u32 65535)
    | _ => UB OutOfBounds
    end.

Definition buf_fetch_be32 (b : cbuf) : outcome (Z * cbuf * Z) :=
  let f := buf_fetch b in
  if snd f <? 4 then Ok (ARES_EBADRESP, b, 0)
  else
    do bytes <- buf_read b (cb_off b) 4;
    match bytes with
    | [p0; p1; p2; p3] =>
      let u32 := Z.lor (Z.lor (Z.lor (Z.shiftl p0 24) (Z.shiftl p1 16)) (Z.shiftl p2 8)) p3 in
      do r <- buf_consume b 4;
      Ok (fst r, snd r, u32)
    | _ => UB OutOfBounds
    end.

(* ares_buf_fetch_bytes_dup(buf, len, null_term, &bytes); [ok] = answer of ares_malloc *)
Definition buf_fetch_bytes_dup (ok : bool) (b : cbuf) (len : Z) (null_term : bool)
  : outcome (Z * cbuf * list Z) :=
  let f := buf_fetch b in
  if (len =? 0) || (snd f <? len) then Ok (ARES_EBADRESP, b, [])
  else if negb ok then Ok (ARES_ENOMEM, b, [])
  else
    do bytes <- buf_read b (cb_off b) len;
    do r <- buf_consume b len;
    Ok (fst r, snd r, if null_term then bytes ++ [0] else bytes).

(* ares_buf_fetch_str_dup: printable check first, then the allocation *)
Definition buf_fetch_str_dup (ok : bool) (b : cbuf) (len : Z) : outcome (Z * cbuf * list Z) :=
  let f := buf_fetch b in
  if (len =? 0) || (snd f <? len) then Ok (ARES_EBADRESP, b, [])
  else
    do bytes <- buf_read b (cb_off b) len;
    if negb (forallb buf_isprint bytes) then Ok (ARES_EBADSTR, b, [])
    else if negb ok then Ok (ARES_ENOMEM, b, [])
    else
      do r <- buf_consume b len;
      Ok (fst r, snd r, bytes ++ [0]).

(* ares_buf_fetch_bytes_into_buf(buf, dest, len): (status, buf, dest) *)
Definition buf_fetch_bytes_into_buf (ok : bool) (b dest : cbuf) (len : Z) : outcome (Z * cbuf * cbuf) :=
  let f := buf_fetch b in
  if (len =? 0) || (snd f <? len) then Ok (ARES_EBADRESP, b, dest)
  else
    do bytes <- buf_read b (cb_off b) len;
    do r <- buf_append ok dest bytes;
    if negb (fst r =? ARES_SUCCESS) then Ok (fst r, b, snd r)
    else
      do c <- buf_consume b len;
      Ok (fst c, snd c, snd r).

(* ---- tag fetch ---- *)
(* ares_buf_tag_fetch: None = NULL (no tag; also a buffer that never held data: data == NULL,
   see fixes/C19-buf-tag-fetch-null.patch), Some len = pointer data + tag_offset and *len *)
Definition buf_tag_fetch (b : cbuf) : option Z :=
  if (cb_tag b =? BUF_SIZE_MAX) || negb (cb_hasdata b) then None
  else Some (buf_w64 (cb_off b - cb_tag b)).

(* ares_buf_tag_fetch_bytes(buf, bytes, &len) with *len = cap on entry: (status, bytes) *)
Definition buf_tag_fetch_bytes (b : cbuf) (cap : Z) : outcome (Z * list Z) :=
  match buf_tag_fetch b with
  | None => Ok (ARES_EFORMERR, [])
  | Some ptr_len =>
    if cap <? ptr_len then Ok (ARES_EFORMERR, [])
    else if ptr_len >? 0 then do bytes <- buf_read b (cb_tag b) ptr_len; Ok (ARES_SUCCESS, bytes)
    else Ok (ARES_SUCCESS, [])
  end.

(* ares_buf_tag_fetch_string(buf, str, len): the string written to str (without its NUL) *)
Definition buf_tag_fetch_string (b : cbuf) (len : Z) : outcome (Z * list Z) :=
  if len =? 0 then Ok (ARES_EFORMERR, [])
  else
    do r <- buf_tag_fetch_bytes b (len - 1);
    if negb (fst r =? ARES_SUCCESS) then Ok r
    else if negb (forallb buf_isprint (snd r)) then Ok (ARES_EBADSTR, [])
    else Ok (ARES_SUCCESS, snd r).

(* ares_buf_tag_fetch_strdup: printable check, then ares_malloc(len + 1) *)
Definition buf_tag_fetch_strdup (ok : bool) (b : cbuf) : outcome (Z * list Z) :=
  match buf_tag_fetch b with
  | None => Ok (ARES_EFORMERR, [])
  | Some ptr_len =>
    do bytes <- buf_read b (cb_tag b) ptr_len;
    if negb (forallb buf_isprint bytes) then Ok (ARES_EBADSTR, [])
    else if negb ok then Ok (ARES_ENOMEM, [])
    else Ok (ARES_SUCCESS, bytes ++ [0])
  end.

(* ares_buf_tag_fetch_constbuf: a const buffer over the tagged region; an EMPTY region is
   reported as ARES_ENOMEM because ares_buf_create_const refuses length 0 *)
Definition buf_tag_fetch_constbuf (ok : bool) (b : cbuf) : outcome (Z * option cbuf) :=
  match buf_tag_fetch b with
  | None => Ok (ARES_EFORMERR, None)
  | Some ptr_len =>
    do bytes <- buf_read b (cb_tag b) ptr_len;
    match buf_create_const ok bytes with
    | None => Ok (ARES_ENOMEM, None)
    | Some nb => Ok (ARES_SUCCESS, Some nb)
    end
  end.

(* ---- append_start / append_finish ---- *)
(* ares_buf_append_start(buf, &len): None = NULL, Some avail = pointer alloc_buf + data_len
   and *len = avail *)
Definition buf_append_start (ok : bool) (b : cbuf) (len : Z) : outcome (option Z * cbuf) :=
  if len =? 0 then Ok (None, b)
  else
    do r <- buf_ensure_space ok b len;
    if negb (fst r =? ARES_SUCCESS) then Ok (None, snd r)
    else Ok (Some (buf_w64 (buf_w64 (cb_alloc (snd r) - cb_dlen (snd r)) - 1)), snd r).

(* the caller writes [bytes] through the pointer obtained from append_start and calls
   ares_buf_append_finish(buf, length bytes).  CONTRACT of the C API: at most *len bytes. *)
Definition buf_append_finish (b : cbuf) (bytes : list Z) : outcome cbuf :=
  if buf_zlen (cb_mem b) <? cb_dlen b + buf_zlen bytes then UB OutOfBounds
  else
    do d <- c_ares_buf_append_finish (buf_zlen bytes) (cb_dlen b);
    Ok (mkBuf (buf_mem_write (cb_mem b) (cb_dlen b) bytes) d (cb_alloc b) (cb_off b) (cb_tag b)
              (cb_hasdata b) (cb_hasabuf b)).

(* append_start(want); write min(length bytes, *len) bytes; append_finish: (1 = non-NULL,
   bytes written, buffer) *)
Definition buf_append_via_start (ok : bool) (b : cbuf) (want : Z) (bytes : list Z)
  : outcome (Z * Z * cbuf) :=
  do r <- buf_append_start ok b want;
  match fst r with
  | None => Ok (0, 0, snd r)
  | Some avail =>
    let k := Z.min (buf_zlen bytes) avail in
    do b2 <- buf_append_finish (snd r) (buf_take k bytes);
    Ok (1, k, b2)
  end.

(* ares_buf_set_length followed by the caller filling the bytes it exposed (if any) with
   [fill] through the data pointer *)
Definition buf_set_length_fill (b : cbuf) (len fill : Z) : outcome (Z * cbuf) :=
  do r <- buf_set_length b len;
  if negb (fst r =? ARES_SUCCESS) then Ok r
  else
    let b1 := snd r in
    let n := cb_dlen b1 - cb_dlen b in
    if n >? 0 then
      if buf_zlen (cb_mem b1) <? cb_dlen b + n then UB OutOfBounds
      else Ok (fst r, mkBuf (buf_mem_write (cb_mem b1) (cb_dlen b) (repeat fill (Z.to_nat n)))
                            (cb_dlen b1) (cb_alloc b1) (cb_off b1) (cb_tag b1) (cb_hasdata b1) (cb_hasabuf b1))
    else Ok r.

(* ---- consume_* family: loops over the remaining bytes ---- *)
Fixpoint buf_span (p : Z -> bool) (l : list Z) : Z :=
  match l with
  | [] => 0
  | x :: r => if p x then 1 + buf_span p r else 0
  end.
Definition buf_in_charset (cs : list Z) (c : Z) : bool := existsb (fun d => c =? d) cs.

(* common tail: if (i > 0) ares_buf_consume(buf, i); return i; *)
Definition buf_consume_ret (b : cbuf) (i : Z) : outcome (Z * cbuf) :=
  if i >? 0 then do r <- buf_consume b i; Ok (i, snd r) else Ok (i, b).

Definition buf_consume_whitespace (b : cbuf) (include_linefeed : bool) : outcome (Z * cbuf) :=
  let f := buf_fetch b in
  if fst f then Ok (0, b)
  else do bytes <- buf_read b (cb_off b) (snd f);
       buf_consume_ret b (buf_span (fun c => buf_is_whitespace c include_linefeed) bytes).

Definition buf_consume_nonwhitespace (b : cbuf) : outcome (Z * cbuf) :=
  let f := buf_fetch b in
  if fst f then Ok (0, b)
  else do bytes <- buf_read b (cb_off b) (snd f);
       buf_consume_ret b (buf_span (fun c => negb (buf_is_whitespace c true)) bytes).

Definition buf_consume_line (b : cbuf) (include_linefeed : bool) : outcome (Z * cbuf) :=
  let f := buf_fetch b in
  if fst f then Ok (0, b)
  else do bytes <- buf_read b (cb_off b) (snd f);
       let i := buf_span (fun c => negb (c =? 10)) bytes in
       let i := if include_linefeed && (i <? snd f) then i + 1 else i in
       buf_consume_ret b i.

Definition buf_consume_charset (b : cbuf) (cs : list Z) : outcome (Z * cbuf) :=
  let f := buf_fetch b in
  if fst f || (buf_zlen cs =? 0) then Ok (0, b)
  else do bytes <- buf_read b (cb_off b) (snd f);
       buf_consume_ret b (buf_span (buf_in_charset cs) bytes).

(* returns SIZE_MAX when require_charset and no byte of the set was found *)
Definition buf_consume_until_charset (b : cbuf) (cs : list Z) (require_charset : bool)
  : outcome (Z * cbuf) :=
  let f := buf_fetch b in
  if fst f || (buf_zlen cs =? 0) then Ok (0, b)
  else do bytes <- buf_read b (cb_off b) (snd f);
       let pos := buf_span (fun c => negb (buf_in_charset cs c)) bytes in
       if require_charset && negb (pos <? snd f) then Ok (BUF_SIZE_MAX, b)
       else buf_consume_ret b pos.

Fixpoint buf_list_eqb (l1 l2 : list Z) : bool :=
  match l1, l2 with
  | [], [] => true
  | x :: r1, y :: r2 => (x =? y) && buf_list_eqb r1 r2
  | _, _ => false
  end.

Definition buf_begins_with (b : cbuf) (data : list Z) : outcome Z :=
  let f := buf_fetch b in
  if fst f || (buf_zlen data =? 0) then Ok ARES_FALSE
  else if buf_zlen data >? snd f then Ok ARES_FALSE
  else do bytes <- buf_read b (cb_off b) (buf_zlen data);
       if buf_list_eqb bytes data then Ok ARES_TRUE else Ok ARES_FALSE.

(* ---- finish ---- *)
(* ares_buf_finish_bin: (None, buffer still owned by the caller) = NULL returned;
   (Some bytes, _) = the returned block's first *len bytes, the buffer object is gone *)
Definition buf_finish_bin (ok : bool) (b : cbuf) : outcome (option (list Z) * cbuf) :=
  do c <- buf_is_const b;
  if negb (c =? 0) then Ok (None, b)
  else
    do b1 <- buf_reclaim b;
    do r <- (if negb (cb_hasabuf b1) then buf_ensure_space ok b1 1 else Ok (ARES_SUCCESS, b1));
    if negb (fst r =? ARES_SUCCESS) then Ok (None, snd r)
    else do bytes <- buf_read (snd r) 0 (cb_dlen (snd r)); Ok (Some bytes, snd r).

(* ares_buf_finish_str: additionally writes ptr[len] = 0 (inside the block, else UB) *)
Definition buf_finish_str (ok : bool) (b : cbuf) : outcome (option (list Z) * cbuf) :=
  do r <- buf_finish_bin ok b;
  match fst r with
  | None => Ok r
  | Some bytes =>
    if buf_zlen (cb_mem (snd r)) <=? buf_zlen bytes then UB OutOfBounds
    else Ok (Some (bytes ++ [0]), snd r)
  end.

(* ---- split ---- *)
Definition buf_flag (flags f : Z) : bool := negb (Z.land flags f =? 0).

Fixpoint buf_ltrim (l : list Z) : list Z :=
  match l with
  | [] => []
  | x :: r => if buf_is_whitespace x true then buf_ltrim r else l
  end.
Definition buf_rtrim (l : list Z) : list Z := rev (buf_ltrim (rev l)).

Fixpoint buf_list_eqb_ci (l1 l2 : list Z) : bool :=
  match l1, l2 with
  | [], [] => true
  | x :: r1, y :: r2 => (buf_tolower x =? buf_tolower y) && buf_list_eqb_ci r1 r2
  | _, _ => false
  end.

(* ares_buf_split_isduplicate (with fixes/C19-buf-split-blank-dup.patch: two empty values are
   duplicates without calling memcmp on a NULL pointer) *)
Definition buf_split_isdup (arr : list (list Z)) (v : list Z) (flags : Z) : bool :=
  existsb (fun p => if buf_flag flags ARES_BUF_SPLIT_CASE_INSENSITIVE then buf_list_eqb_ci p v
                    else buf_list_eqb p v) arr.

(* one pass of the while loop per unit of fuel; [okp i] = the allocations needed to add the
   i-th piece succeed.  Returns (status, buffer, pieces). *)
Fixpoint buf_split_loop (fuel : nat) (okp : nat -> bool) (b : cbuf) (delims : list Z)
         (flags max_sections : Z) (first : bool) (arr : list (list Z))
  : outcome (Z * cbuf * list (list Z)) :=
  match fuel with
  | O => Err OutOfFuel
  | S fuel' =>
    do l <- buf_len b;
    if l =? 0 then Ok (ARES_SUCCESS, b, arr)
    else
      do b1 <- (if first then buf_tag b
                else if buf_flag flags ARES_BUF_SPLIT_KEEP_DELIMS
                     then do t <- buf_tag b; do r <- buf_consume t 1; Ok (snd r)
                     else do r <- buf_consume b 1; buf_tag (snd r));
      do b2 <- (if negb (max_sections =? 0) && (buf_zlen arr >=? buf_w64 (max_sections - 1))
                then do l1 <- buf_len b1; do r <- buf_consume b1 l1; Ok (snd r)
                else do r <- buf_consume_until_charset b1 delims false; Ok (snd r));
      match buf_tag_fetch b2 with
      | None => Ok (ARES_EFORMERR, b2, [])
      | Some len =>
        do sect <- buf_read b2 (cb_tag b2) len;
        let sect := if buf_flag flags ARES_BUF_SPLIT_LTRIM then buf_ltrim sect else sect in
        let sect := if buf_flag flags ARES_BUF_SPLIT_RTRIM then buf_rtrim sect else sect in
        if negb (buf_zlen sect =? 0) || buf_flag flags ARES_BUF_SPLIT_ALLOW_BLANK
        then
          if negb (buf_flag flags ARES_BUF_SPLIT_NO_DUPLICATES) || negb (buf_split_isdup arr sect flags)
          then
            if okp (length arr)
            then buf_split_loop fuel' okp b2 delims flags max_sections false (arr ++ [sect])
            else Ok (ARES_ENOMEM, b2, [])
          else buf_split_loop fuel' okp b2 delims flags max_sections false arr
        else buf_split_loop fuel' okp b2 delims flags max_sections false arr
      end
  end.

(* ares_buf_split(buf, delims, delims_len, flags, max_sections, &arr); [ok_arr] = the
   allocation of the result array *)
Definition buf_split (ok_arr : bool) (okp : nat -> bool) (b : cbuf) (delims : list Z)
           (flags max_sections : Z) : outcome (Z * cbuf * list (list Z)) :=
  if buf_zlen delims =? 0 then Ok (ARES_EFORMERR, b, [])
  else if negb ok_arr then Ok (ARES_ENOMEM, b, [])
  else
    do l <- buf_len b;
    buf_split_loop (S (S (Z.to_nat l))) okp b delims flags max_sections true [].

(* ---- which allocation request of an ares_buf_split call belongs to which piece ----
   Request 0 is ares_array_create.  Every piece that is KEPT then asks once for its ares_buf_t
   (ares_buf_create / ares_buf_create_const) and ares_array_insertdata_last asks once more
   when the array has to grow (ares_array_set_size rounds cnt + 1 up to a power of two, at least
   ARES__ARRAY_MIN): for piece 0 and for pieces ARES__ARRAY_MIN, 2 * ARES__ARRAY_MIN, ... *)
Definition buf_split_piece_grows (i : Z) : bool :=
  (i =? 0) || ((ARES__ARRAY_MIN <=? i) && (i =? 2 ^ Z.log2 i)).
Definition buf_split_piece_reqs (i : Z) : Z := if buf_split_piece_grows i then 2 else 1.
(* the piece that request [n] belongs to, [n] counted from the first request of piece [i] *)
Fixpoint buf_split_req_piece (fuel : nat) (i n : Z) : Z :=
  match fuel with
  | O => i
  | S f => if n <? buf_split_piece_reqs i then i else buf_split_req_piece f (i + 1) (n - buf_split_piece_reqs i)
  end.
(* ares_buf_split when exactly the n-th allocation request of the call (from 0) is refused *)
Definition buf_split_fail_okp (n : Z) (i : nat) : bool :=
  negb (Z.of_nat i =? buf_split_req_piece (Z.to_nat n) 0 (n - 1)).
Definition buf_split_fail_at (n : Z) (b : cbuf) (delims : list Z) (flags max_sections : Z)
  : outcome (Z * cbuf * list (list Z)) :=
  buf_split (negb (n =? 0)) (buf_split_fail_okp n) b delims flags max_sections.

(* ---- ares_buf_append_num_dec / ares_buf_append_num_hex ---- *)
(* ares_count_digits / ares_count_hexdigits (util/ares_math.c):
   for (digits = 0; n > 0; digits++) n /= base;  if (digits == 0) digits = 1; *)
Fixpoint buf_count_digits_loop (fuel : nat) (base n digits : Z) : outcome Z :=
  match fuel with
  | O => Err OutOfFuel
  | S f => if n >? 0 then buf_count_digits_loop f base (n / base) (digits + 1) else Ok digits
  end.
Definition buf_count_digits (base n : Z) : outcome Z :=
  do d <- buf_count_digits_loop 65 base n 0; Ok (if d =? 0 then 1 else d).

(* ares_pow (util/ares_math.c): square and multiply in size_t arithmetic (wraps) *)
Fixpoint buf_pow_loop (fuel : nat) (x y res : Z) : outcome Z :=
  match fuel with
  | O => Err OutOfFuel
  | S f => if y >? 0
           then buf_pow_loop f (buf_w64 (x * x)) (Z.shiftr y 1)
                             (if negb (Z.land y 1 =? 0) then buf_w64 (res * x) else res)
           else Ok res
  end.
Definition buf_pow (x y : Z) : outcome Z := buf_pow_loop 65 x y 1.

(* '0' + (unsigned char)digit, passed as unsigned char *)
Definition buf_dec_char (digit : Z) : Z := Z.land (48 + Z.land digit 255) 255.
(* hexbytes[digit] with hexbytes[] = "0123456789ABCDEF" (17 bytes with the terminator) *)
Definition buf_hexbytes : list Z := [48; 49; 50; 51; 52; 53; 54; 55; 56; 57; 65; 66; 67; 68; 69; 70; 0].
Definition buf_hex_char (digit : Z) : outcome Z :=
  if (0 <=? digit) && (digit <? 17) then Ok (nth (Z.to_nat digit) buf_hexbytes 0) else UB OutOfBounds.

(* the digit at position i (1 = least significant), as computed by the code with
   fixes/C19-buf-append-num-width.patch: positions above the most significant digit are 0 *)
Definition buf_dec_digit (num ndigits i : Z) : outcome Z :=
  if i <=? ndigits
  then do p <- buf_pow 10 (buf_w64 (i - 1));
       if p =? 0 then UB DivZero else Ok ((num / p) mod 10)
  else Ok 0.
Definition buf_hex_digit (num ndigits i : Z) : outcome Z :=
  if i <=? ndigits
  then let sh := buf_w64 (buf_w64 (i - 1) * 4) in
       if sh >=? 64 then UB ShiftTooWide else Ok (Z.land (Z.shiftr num sh) 15)
  else Ok 0.

(* for (i = len; i > 0; i--) { ...; status = ares_buf_append_byte(buf, ch); if (status != ARES_SUCCESS) return status; } *)
Fixpoint buf_num_loop (digit_char : Z -> outcome Z) (ok : bool) (b : cbuf) (i : nat) : outcome (Z * cbuf) :=
  match i with
  | O => Ok (ARES_SUCCESS, b)
  | S i' =>
    do ch <- digit_char (Z.of_nat i);
    do r <- buf_append_byte ok b ch;
    if negb (fst r =? ARES_SUCCESS) then Ok r else buf_num_loop digit_char ok (snd r) i'
  end.

(* ares_buf_append_num_dec with fixes/C19-buf-append-num-atomic.patch (the room for all digits
   is reserved by ONE ares_buf_ensure_space call before the first digit is appended) and
   fixes/C19-buf-append-num-width.patch *)
Definition buf_append_num_dec (ok : bool) (b : cbuf) (num len : Z) : outcome (Z * cbuf) :=
  do nd <- buf_count_digits 10 num;
  let len := if len =? 0 then nd else len in
  do r <- buf_ensure_space ok b len;
  if negb (fst r =? ARES_SUCCESS) then Ok r
  else buf_num_loop (fun i => do d <- buf_dec_digit num nd i; Ok (buf_dec_char d)) ok (snd r) (Z.to_nat len).

Definition buf_append_num_hex (ok : bool) (b : cbuf) (num len : Z) : outcome (Z * cbuf) :=
  do nd <- buf_count_digits 16 num;
  let len := if len =? 0 then nd else len in
  do r <- buf_ensure_space ok b len;
  if negb (fst r =? ARES_SUCCESS) then Ok r
  else buf_num_loop (fun i => do d <- buf_hex_digit num nd i; buf_hex_char d) ok (snd r) (Z.to_nat len).

(* the code BEFORE the two patches: mod = ares_pow(10, len) wraps around for len >= 20, the
   digits are appended one ares_buf_append_byte at a time without a reservation; [okd k] = the
   allocator's answer should the append of the k-th digit (from 0) ask *)
Fixpoint buf_num_dec_unfixed_loop (okd : nat -> bool) (b : cbuf) (num modv : Z) (k i : nat) : outcome (Z * cbuf) :=
  match i with
  | O => Ok (ARES_SUCCESS, b)
  | S i' =>
    if modv =? 0 then UB DivZero
    else
      let digit := num mod modv in
      let modv := modv / 10 in
      if modv =? 0 then Ok (ARES_EFORMERR, b)
      else
        do r <- buf_append_byte (okd k) b (buf_dec_char (digit / modv));
        if negb (fst r =? ARES_SUCCESS) then Ok r else buf_num_dec_unfixed_loop okd (snd r) num modv (S k) i'
  end.
Definition buf_append_num_dec_unfixed (okd : nat -> bool) (b : cbuf) (num len : Z) : outcome (Z * cbuf) :=
  do nd <- buf_count_digits 10 num;
  let len := if len =? 0 then nd else len in
  do m <- buf_pow 10 len;
  buf_num_dec_unfixed_loop okd b num m 0 (Z.to_nat len).

Fixpoint buf_num_hex_unfixed_loop (okd : nat -> bool) (b : cbuf) (num : Z) (k i : nat) : outcome (Z * cbuf) :=
  match i with
  | O => Ok (ARES_SUCCESS, b)
  | S i' =>
    let sh := buf_w64 (buf_w64 (Z.of_nat i - 1) * 4) in
    if sh >=? 64 then UB ShiftTooWide
    else
      do ch <- buf_hex_char (Z.land (Z.shiftr num sh) 15);
      do r <- buf_append_byte (okd k) b ch;
      if negb (fst r =? ARES_SUCCESS) then Ok r else buf_num_hex_unfixed_loop okd (snd r) num (S k) i'
  end.
Definition buf_append_num_hex_unfixed (okd : nat -> bool) (b : cbuf) (num len : Z) : outcome (Z * cbuf) :=
  do nd <- buf_count_digits 16 num;
  let len := if len =? 0 then nd else len in
  buf_num_hex_unfixed_loop okd b num 0 (Z.to_nat len).

(* ---- ares_buf_parse_dns_binstr / ares_buf_parse_dns_str ----
   static ares_buf_parse_dns_binstr_int(buf, remaining_len, bin, bin_len, validate_printable)
   with fixes/C19-buf-parse-binstr-enomem.patch.  In this tree the function reads ONE
   length-prefixed character-string (no loop over remaining_len).  [want] = (bin != NULL);
   [ok1] = ares_buf_create of the temporary buffer, [ok2] = the one later request (growth of the
   temporary buffer; for an empty string the byte of the terminator in ares_buf_finish_str).
   Result: status, the buffer, Some (string ++ [0]) when a string is handed back. *)
Definition buf_parse_dns_binstr_int (ok1 ok2 : bool) (b : cbuf) (remaining_len : Z) (want validate : bool)
  : outcome (Z * cbuf * option (list Z)) :=
  if remaining_len =? 0 then Ok (ARES_EBADRESP, b, None)
  else
    match buf_create ok1 with
    | None => Ok (ARES_ENOMEM, b, None)
    | Some binbuf =>
      do f <- buf_fetch_bytes b 1;                                  (* the length byte *)
      if negb (fst (fst f) =? ARES_SUCCESS) then Ok (fst (fst f), snd (fst f), None)
      else
        match snd f with
        | [len] =>
          let b1 := snd (fst f) in
          let remaining_len := buf_w64 (remaining_len - 1) in
          if len >? remaining_len then Ok (ARES_EBADRESP, b1, None)
          else
            do r <- (if len =? 0 then Ok (ARES_SUCCESS, b1, binbuf)
                     else
                       do bl <- buf_len b1;
                       do bad <- (if validate && (bl >=? len)
                                  then do data <- buf_read b1 (cb_off b1) len;       (* ares_str_isprint *)
                                       Ok (negb (forallb buf_isprint data))
                                  else Ok false);
                       if bad then Ok (ARES_EBADSTR, b1, binbuf)
                       else if want then buf_fetch_bytes_into_buf ok2 b1 binbuf len
                            else do c <- buf_consume b1 len; Ok (fst c, snd c, binbuf));
            if negb (fst (fst r) =? ARES_SUCCESS) || negb want then Ok (fst (fst r), snd (fst r), None)
            else
              do fz <- buf_finish_str ok2 (snd r);
              match fst fz with
              | None => Ok (ARES_ENOMEM, snd (fst r), None)        (* the temporary buffer is destroyed *)
              | Some bytes => Ok (ARES_SUCCESS, snd (fst r), Some bytes)
              end
        | _ => UB OutOfBounds
        end
    end.

(* =======================================================================================
   Operation sequences: one operation of the C API per [buf_op]; [buf_step] runs it on the
   model and reports what the C driver prints: status / return value, numeric outputs, byte
   string outputs.  Allocation oracles are part of the operation.
   ======================================================================================= *)
Inductive buf_op :=
| BopAppend (ok : bool) (bytes : list Z)
| BopAppendByte (ok : bool) (x : Z)
| BopAppendBe16 (ok : bool) (v : Z)
| BopAppendBe32 (ok : bool) (v : Z)
| BopAppendStr (ok : bool) (str : list Z)
| BopAppendViaStart (ok : bool) (want : Z) (bytes : list Z)
| BopFetchBytes (n : Z)
| BopFetchBe16
| BopFetchBe32
| BopPeekByte
| BopFetchBytesDup (ok : bool) (n : Z) (null_term : bool)
| BopFetchStrDup (ok : bool) (n : Z)
| BopFetchIntoBuf (ok : bool) (n : Z)
| BopConsume (n : Z)
| BopTag
| BopRollback
| BopTagClear
| BopTagFetchBytes (cap : Z)
| BopTagFetchString (cap : Z)
| BopTagFetchStrdup (ok : bool)
| BopTagFetchConstbuf (ok : bool)
| BopSetLength (len fill : Z)
| BopSetPosition (idx : Z)
| BopReclaim
| BopWhitespace (include_linefeed : bool)
| BopNonWhitespace
| BopLine (include_linefeed : bool)
| BopCharset (cs : list Z)
| BopUntilCharset (cs : list Z) (require : bool)
| BopBeginsWith (data : list Z)
| BopSplit (ok_arr : bool) (delims : list Z) (flags max_sections : Z)
| BopFinishBin (ok : bool)
| BopFinishStr (ok : bool)
| BopNew (ok : bool)                          (* replace the buffer by ares_buf_create() *)
| BopNewConst (ok : bool) (bytes : list Z)    (* ... by ares_buf_create_const(bytes) *)
| BopAppendNumDec (ok : bool) (num len : Z)
| BopAppendNumHex (ok : bool) (num len : Z)
| BopParseBinstr (ok1 ok2 : bool) (remaining_len : Z) (want validate : bool)
| BopSplitFailAt (n : Z) (delims : list Z) (flags max_sections : Z).  (* the n-th request is refused *)

Record bobs := mkBufObs { bo_st : Z; bo_vals : list Z; bo_bytes : list (list Z) }.

Definition buf_empty : cbuf := mkBuf [] 0 0 0 BUF_SIZE_MAX false false.

Definition buf_step (b : cbuf) (op : buf_op) : outcome (bobs * cbuf) :=
  match op with
  | BopAppend ok bytes => do r <- buf_append ok b bytes; Ok (mkBufObs (fst r) [] [], snd r)
  | BopAppendByte ok x => do r <- buf_append_byte ok b x; Ok (mkBufObs (fst r) [] [], snd r)
  | BopAppendBe16 ok v => do r <- buf_append_be16 ok b v; Ok (mkBufObs (fst r) [] [], snd r)
  | BopAppendBe32 ok v => do r <- buf_append_be32 ok b v; Ok (mkBufObs (fst r) [] [], snd r)
  | BopAppendStr ok str => do r <- buf_append ok b str; Ok (mkBufObs (fst r) [] [], snd r)
  | BopAppendViaStart ok want bytes =>
    do r <- buf_append_via_start ok b want bytes;
    Ok (mkBufObs (fst (fst r)) [snd (fst r)] [], snd r)
  | BopFetchBytes n =>
    do r <- buf_fetch_bytes b n;
    Ok (mkBufObs (fst (fst r)) [] (if fst (fst r) =? ARES_SUCCESS then [snd r] else []), snd (fst r))
  | BopFetchBe16 =>
    do r <- buf_fetch_be16 b;
    Ok (mkBufObs (fst (fst r)) (if fst (fst r) =? ARES_SUCCESS then [snd r] else []) [], snd (fst r))
  | BopFetchBe32 =>
    do r <- buf_fetch_be32 b;
    Ok (mkBufObs (fst (fst r)) (if fst (fst r) =? ARES_SUCCESS then [snd r] else []) [], snd (fst r))
  | BopPeekByte =>
    do r <- buf_peek_byte b;
    Ok (mkBufObs (fst r) (if fst r =? ARES_SUCCESS then [snd r] else []) [], b)
  | BopFetchBytesDup ok n nt =>
    do r <- buf_fetch_bytes_dup ok b n nt;
    Ok (mkBufObs (fst (fst r)) [] (if fst (fst r) =? ARES_SUCCESS then [snd r] else []), snd (fst r))
  | BopFetchStrDup ok n =>
    do r <- buf_fetch_str_dup ok b n;
    Ok (mkBufObs (fst (fst r)) [] (if fst (fst r) =? ARES_SUCCESS then [snd r] else []), snd (fst r))
  | BopFetchIntoBuf ok n =>
    do r <- buf_fetch_bytes_into_buf ok b buf_empty n;
    do d <- buf_peek (snd r);
    Ok (mkBufObs (fst (fst r)) [] [d], snd (fst r))
  | BopConsume n => do r <- buf_consume b n; Ok (mkBufObs (fst r) [] [], snd r)
  | BopTag => do b1 <- buf_tag b; Ok (mkBufObs 0 [] [], b1)
  | BopRollback => do r <- buf_tag_rollback b; Ok (mkBufObs (fst r) [] [], snd r)
  | BopTagClear => do r <- buf_tag_clear b; Ok (mkBufObs (fst r) [] [], snd r)
  | BopTagFetchBytes cap =>
    do r <- buf_tag_fetch_bytes b cap;
    Ok (mkBufObs (fst r) [] (if fst r =? ARES_SUCCESS then [snd r] else []), b)
  | BopTagFetchString cap =>
    do r <- buf_tag_fetch_string b cap;
    Ok (mkBufObs (fst r) [] (if fst r =? ARES_SUCCESS then [snd r] else []), b)
  | BopTagFetchStrdup ok =>
    do r <- buf_tag_fetch_strdup ok b;
    Ok (mkBufObs (fst r) [] (if fst r =? ARES_SUCCESS then [snd r] else []), b)
  | BopTagFetchConstbuf ok =>
    do r <- buf_tag_fetch_constbuf ok b;
    match snd r with
    | None => Ok (mkBufObs (fst r) [] [], b)
    | Some nb => do d <- buf_peek nb; Ok (mkBufObs (fst r) [] [d], b)
    end
  | BopSetLength len fill => do r <- buf_set_length_fill b len fill; Ok (mkBufObs (fst r) [] [], snd r)
  | BopSetPosition idx => do r <- buf_set_position b idx; Ok (mkBufObs (fst r) [] [], snd r)
  | BopReclaim => do b1 <- buf_reclaim b; Ok (mkBufObs 0 [] [], b1)
  | BopWhitespace inc => do r <- buf_consume_whitespace b inc; Ok (mkBufObs (fst r) [] [], snd r)
  | BopNonWhitespace => do r <- buf_consume_nonwhitespace b; Ok (mkBufObs (fst r) [] [], snd r)
  | BopLine inc => do r <- buf_consume_line b inc; Ok (mkBufObs (fst r) [] [], snd r)
  | BopCharset cs => do r <- buf_consume_charset b cs; Ok (mkBufObs (fst r) [] [], snd r)
  | BopUntilCharset cs req => do r <- buf_consume_until_charset b cs req; Ok (mkBufObs (fst r) [] [], snd r)
  | BopBeginsWith data => do r <- buf_begins_with b data; Ok (mkBufObs r [] [], b)
  | BopSplit ok_arr delims flags max_sections =>
    do r <- buf_split ok_arr (fun _ => true) b delims flags max_sections;
    Ok (mkBufObs (fst (fst r)) [buf_zlen (snd r)] (snd r), snd (fst r))
  | BopFinishBin ok =>
    do r <- buf_finish_bin ok b;
    match fst r with
    | None => Ok (mkBufObs 0 [] [], snd r)
    | Some bytes => Ok (mkBufObs 1 [] [bytes], buf_empty)   (* the driver continues with a new buffer *)
    end
  | BopFinishStr ok =>
    do r <- buf_finish_str ok b;
    match fst r with
    | None => Ok (mkBufObs 0 [] [], snd r)
    | Some bytes => Ok (mkBufObs 1 [] [bytes], buf_empty)
    end
  | BopNew ok =>
    match buf_create ok with
    | None => Ok (mkBufObs 0 [] [], b)
    | Some nb => Ok (mkBufObs 1 [] [], nb)
    end
  | BopNewConst ok bytes =>
    match buf_create_const ok bytes with
    | None => Ok (mkBufObs 0 [] [], b)
    | Some nb => Ok (mkBufObs 1 [] [], nb)
    end
  | BopAppendNumDec ok num len => do r <- buf_append_num_dec ok b num len; Ok (mkBufObs (fst r) [] [], snd r)
  | BopAppendNumHex ok num len => do r <- buf_append_num_hex ok b num len; Ok (mkBufObs (fst r) [] [], snd r)
  | BopParseBinstr ok1 ok2 rl want validate =>
    do r <- buf_parse_dns_binstr_int ok1 ok2 b rl want validate;
    match snd r with
    | None => Ok (mkBufObs (fst (fst r)) [] [], snd (fst r))
    | Some bytes => Ok (mkBufObs (fst (fst r)) [buf_zlen bytes - 1] [bytes], snd (fst r))
    end
  | BopSplitFailAt n delims flags max_sections =>
    do r <- buf_split_fail_at n b delims flags max_sections;
    Ok (mkBufObs (fst (fst r)) [buf_zlen (snd r)] (snd r), snd (fst r))
  end.

(* what the driver prints after every operation: ares_buf_len, ares_buf_get_position,
   ares_buf_tag_length and all remaining bytes (ares_buf_peek) *)
Record bview := mkBufView { bv_len : Z; bv_pos : Z; bv_tlen : Z; bv_rem : list Z }.

(* the tag lies beyond the offset (only reachable by moving below an active tag) *)
Definition buf_view_broken (v : bview) : bool := bv_pos v <? bv_tlen v.

Definition buf_observe (b : cbuf) : outcome bview :=
  do l <- buf_len b;
  do p <- buf_get_position b;
  do t <- buf_tag_length b;
  do r <- buf_peek b;
  Ok (mkBufView l p t r).

Fixpoint buf_run (b : cbuf) (ops : list buf_op) : outcome (list (bobs * bview)) :=
  match ops with
  | [] => Ok []
  | op :: rest =>
    do r <- buf_step b op;
    do v <- buf_observe (snd r);
    do tl <- buf_run (snd r) rest;
    Ok ((fst r, v) :: tl)
  end.

End BufModel.

(* =======================================================================================
   The reference specification: a cursor over a byte sequence.
     bs_pre   the consumed bytes the buffer still holds (oldest first)
     bs_post  the remaining bytes = the byte QUEUE (appends at the back, fetches at the front)
     bs_tag   the saved tag: absolute position inside bs_pre (None = no tag)
     bs_const buffer created over caller-owned bytes (read only, nothing is ever discarded)
   Capacity, allocation and memmove do not exist here.  Where the implementation's behaviour
   depends on capacity (allocation failure, whether consumed bytes were discarded by a
   reclaim, set_length's capacity guard) the specification lists the ALTERNATIVES it allows.
   ======================================================================================= *)
Record bspec := mkBufSpec { bs_pre : list Z; bs_post : list Z; bs_tag : option Z; bs_const : bool }.

Definition buf_abs (b : cbuf) : bspec :=
  mkBufSpec (buf_consumed b) (buf_remaining b)
         (if cb_tag b =? BUF_SIZE_MAX then None else Some (cb_tag b))
         (cb_hasdata b && negb (cb_hasabuf b)).

Definition bufs_create : bspec := mkBufSpec [] [] None false.
Definition bufs_create_const (bytes : list Z) : bspec := mkBufSpec [] bytes None true.

Definition bufs_len (s : bspec) : Z := buf_zlen (bs_post s).
Definition bufs_position (s : bspec) : Z := buf_zlen (bs_pre s).
Definition bufs_tag_length (s : bspec) : Z :=
  match bs_tag s with None => 0 | Some t => buf_zlen (bs_pre s) - t end.
(* the tagged region: the bytes between the tag and the cursor *)
Definition bufs_tagged (s : bspec) : list Z :=
  match bs_tag s with None => [] | Some t => buf_drop t (bs_pre s) end.

(* move the cursor forward by n <= |post| *)
Definition bufs_advance (s : bspec) (n : Z) : bspec :=
  mkBufSpec (bs_pre s ++ buf_take n (bs_post s)) (buf_drop n (bs_post s)) (bs_tag s) (bs_const s).

Definition bufs_consume (s : bspec) (n : Z) : Z * bspec :=
  if bufs_len s <? n then (ARES_EBADRESP, s) else (ARES_SUCCESS, bufs_advance s n).

Definition bufs_tag (s : bspec) : bspec :=
  mkBufSpec (bs_pre s) (bs_post s) (Some (bufs_position s)) (bs_const s).

Definition bufs_tag_rollback (s : bspec) : Z * bspec :=
  match bs_tag s with
  | None => (ARES_EFORMERR, s)
  | Some t => (ARES_SUCCESS, mkBufSpec (buf_take t (bs_pre s)) (buf_drop t (bs_pre s) ++ bs_post s) None (bs_const s))
  end.

Definition bufs_tag_clear (s : bspec) : Z * bspec :=
  match bs_tag s with
  | None => (ARES_EFORMERR, s)
  | Some t => (ARES_SUCCESS, mkBufSpec (bs_pre s) (bs_post s) None (bs_const s))
  end.

(* absolute repositioning inside the bytes held; CONTRACT (see bufs_set_position_contract):
   not below an active tag *)
Definition bufs_set_position (s : bspec) (idx : Z) : Z * bspec :=
  let all := bs_pre s ++ bs_post s in
  if idx >? buf_zlen all then (ARES_EFORMERR, s)
  else (ARES_SUCCESS, mkBufSpec (buf_take idx all) (buf_drop idx all) (bs_tag s) (bs_const s)).
Definition bufs_set_position_contract (s : bspec) (idx : Z) : bool :=
  match bs_tag s with None => true | Some t => (t <=? idx) || (idx >? buf_zlen (bs_pre s ++ bs_post s)) end.

Definition bufs_peek_byte (s : bspec) : Z * Z :=
  match bs_post s with [] => (ARES_EBADRESP, 0) | x :: _ => (ARES_SUCCESS, x) end.

Definition bufs_fetch_bytes (s : bspec) (n : Z) : Z * bspec * list Z :=
  if (n =? 0) || (bufs_len s <? n) then (ARES_EBADRESP, s, [])
  else (ARES_SUCCESS, bufs_advance s n, buf_take n (bs_post s)).

(* big-endian value of a byte list *)
Fixpoint bufs_be_value (acc : Z) (l : list Z) : Z :=
  match l with [] => acc | x :: r => bufs_be_value (acc * 256 + x) r end.

Definition bufs_fetch_be (k : Z) (s : bspec) : Z * bspec * Z :=
  if bufs_len s <? k then (ARES_EBADRESP, s, 0)
  else (ARES_SUCCESS, bufs_advance s k, bufs_be_value 0 (buf_take k (bs_post s))).

(* big-endian encoding of v in k bytes *)
Fixpoint bufs_be_bytes (k : nat) (v : Z) : list Z :=
  match k with O => [] | S k' => bufs_be_bytes k' (v / 256) ++ [v mod 256] end.

(* what a reclaim may discard: everything consumed before the tag (before the cursor when no
   tag is set) *)
Definition bufs_trim (s : bspec) : bspec :=
  if bs_const s then s
  else match bs_tag s with
       | None => mkBufSpec [] (bs_post s) None false
       | Some t => mkBufSpec (buf_drop t (bs_pre s)) (bs_post s) (Some 0) false
       end.

(* appending: success adds exactly the bytes at the back; failure (allocation) changes nothing
   of the abstract value; either way consumed bytes may or may not have been discarded *)
Definition bufs_app (x : bspec) (bytes : list Z) : bspec :=
  mkBufSpec (bs_pre x) (bs_post x ++ bytes) (bs_tag x) (bs_const x).
Definition bufs_append_alts (s : bspec) (bytes : list Z) : list (Z * bspec) :=
  if buf_zlen bytes =? 0 then [(ARES_SUCCESS, s)]
  else if bs_const s then [(ARES_EFORMERR, s)]
  else
    [(ARES_SUCCESS, bufs_app s bytes); (ARES_SUCCESS, bufs_app (bufs_trim s) bytes);
     (ARES_ENOMEM, s); (ARES_ENOMEM, bufs_trim s)].

(* ---- the remaining specification functions ---- *)
Definition bufs_view (s : bspec) : bview :=
  mkBufView (bufs_len s) (bufs_position s) (bufs_tag_length s) (bs_post s).

(* both the untrimmed and the trimmed variant of every alternative *)
Definition bufs_maybe_trim {A} (f : bspec -> A) (s : bspec) : list A := [f s; f (bufs_trim s)].

Definition bufs_ok_bytes (st : Z) (out : list Z) : list (list Z) :=
  if st =? ARES_SUCCESS then [out] else [].
Definition bufs_ok_val (st : Z) (v : Z) : list Z :=
  if st =? ARES_SUCCESS then [v] else [].

Definition bufs_fetch_dup (ok : bool) (s : bspec) (n : Z) (null_term : bool) : Z * bspec * list Z :=
  if (n =? 0) || (bufs_len s <? n) then (ARES_EBADRESP, s, [])
  else if negb ok then (ARES_ENOMEM, s, [])
  else (ARES_SUCCESS, bufs_advance s n,
        if null_term then buf_take n (bs_post s) ++ [0] else buf_take n (bs_post s)).

Definition bufs_fetch_str_dup (ok : bool) (s : bspec) (n : Z) : Z * bspec * list Z :=
  if (n =? 0) || (bufs_len s <? n) then (ARES_EBADRESP, s, [])
  else if negb (forallb buf_isprint (buf_take n (bs_post s))) then (ARES_EBADSTR, s, [])
  else if negb ok then (ARES_ENOMEM, s, [])
  else (ARES_SUCCESS, bufs_advance s n, buf_take n (bs_post s) ++ [0]).

(* a tag on a buffer that never held a byte: the implementation reports EFORMERR (there is
   no data pointer yet); a buffer that has been emptied reports an empty region.  The two are
   the same abstract value, so both answers are allowed there. *)
Definition bufs_nothing_held (s : bspec) : bool := (buf_zlen (bs_pre s ++ bs_post s) =? 0) && negb (bs_const s).

Definition bufs_tag_fetch_bytes_alts (s : bspec) (cap : Z) : list (Z * list Z) :=
  match bs_tag s with
  | None => [(ARES_EFORMERR, [])]
  | Some t =>
    let tg := bufs_tagged s in
    (if cap <? buf_zlen tg then (ARES_EFORMERR, []) else (ARES_SUCCESS, tg))
    :: (if bufs_nothing_held s then [(ARES_EFORMERR, [])] else [])
  end.

Definition bufs_tag_fetch_string_alts (s : bspec) (cap : Z) : list (Z * list Z) :=
  if cap =? 0 then [(ARES_EFORMERR, [])]
  else map (fun r => if negb (fst r =? ARES_SUCCESS) then r
                     else if negb (forallb buf_isprint (snd r)) then (ARES_EBADSTR, []) else r)
           (bufs_tag_fetch_bytes_alts s (cap - 1)).

Definition bufs_tag_fetch_strdup_alts (ok : bool) (s : bspec) : list (Z * list Z) :=
  match bs_tag s with
  | None => [(ARES_EFORMERR, [])]
  | Some t =>
    let tg := bufs_tagged s in
    (if negb (forallb buf_isprint tg) then (ARES_EBADSTR, [])
     else if negb ok then (ARES_ENOMEM, []) else (ARES_SUCCESS, tg ++ [0]))
    :: (if bufs_nothing_held s then [(ARES_EFORMERR, [])] else [])
  end.

(* an EMPTY tagged region is reported as ARES_ENOMEM (const buffers cannot be empty) *)
Definition bufs_tag_fetch_constbuf_alts (ok : bool) (s : bspec) : list (Z * list (list Z)) :=
  match bs_tag s with
  | None => [(ARES_EFORMERR, [])]
  | Some t =>
    let tg := bufs_tagged s in
    (if (buf_zlen tg =? 0) || negb ok then (ARES_ENOMEM, []) else (ARES_SUCCESS, [tg]))
    :: (if bufs_nothing_held s then [(ARES_EFORMERR, [])] else [])
  end.

(* set_length(len) + the caller filling what it exposed with [fill]: truncate or extend the
   byte queue; refused on a const buffer and - capacity is not part of the abstract value -
   possibly refused otherwise *)
Definition bufs_set_length_alts (s : bspec) (len fill : Z) : list (Z * bspec) :=
  if bs_const s then [(ARES_EFORMERR, s)]
  else
    let post' := if len <=? bufs_len s then buf_take len (bs_post s)
                 else bs_post s ++ repeat fill (Z.to_nat (len - bufs_len s)) in
    [(ARES_SUCCESS, mkBufSpec (bs_pre s) post' (bs_tag s) (bs_const s)); (ARES_EFORMERR, s)].

Definition bufs_consume_ret (s : bspec) (i : Z) : Z * bspec :=
  if i >? 0 then (i, bufs_advance s i) else (i, s).

Definition bufs_whitespace (s : bspec) (inc : bool) : Z * bspec :=
  bufs_consume_ret s (buf_span (fun c => buf_is_whitespace c inc) (bs_post s)).
Definition bufs_nonwhitespace (s : bspec) : Z * bspec :=
  bufs_consume_ret s (buf_span (fun c => negb (buf_is_whitespace c true)) (bs_post s)).
Definition bufs_line (s : bspec) (inc : bool) : Z * bspec :=
  let i := buf_span (fun c => negb (c =? 10)) (bs_post s) in
  bufs_consume_ret s (if inc && (i <? bufs_len s) then i + 1 else i).
Definition bufs_charset (s : bspec) (cs : list Z) : Z * bspec :=
  if buf_zlen cs =? 0 then (0, s) else bufs_consume_ret s (buf_span (buf_in_charset cs) (bs_post s)).
Definition bufs_until_charset (s : bspec) (cs : list Z) (req : bool) : Z * bspec :=
  if (bufs_len s =? 0) || (buf_zlen cs =? 0) then (0, s)
  else
    let pos := buf_span (fun c => negb (buf_in_charset cs c)) (bs_post s) in
    if req && negb (pos <? bufs_len s) then (BUF_SIZE_MAX, s) else bufs_consume_ret s pos.
Definition bufs_begins_with (s : bspec) (data : list Z) : Z :=
  if (buf_zlen data =? 0) || (buf_zlen data >? bufs_len s) then ARES_FALSE
  else if buf_list_eqb (buf_take (buf_zlen data) (bs_post s)) data then ARES_TRUE else ARES_FALSE.

(* ---- split: a byte-by-byte state machine over the remaining bytes ----
   [acc]   pieces kept so far
   [cur]   the section being collected, reversed
   [start] number of bytes before the current section (for the tag the implementation leaves)
   [all]   true when max_sections was reached: everything left belongs to this section *)
Definition bufs_split_emit (flags : Z) (acc : list (list Z)) (cur : list Z) : list (list Z) :=
  let sect := rev cur in
  let sect := if buf_flag flags ARES_BUF_SPLIT_LTRIM then buf_ltrim sect else sect in
  let sect := if buf_flag flags ARES_BUF_SPLIT_RTRIM then buf_rtrim sect else sect in
  if negb (buf_zlen sect =? 0) || buf_flag flags ARES_BUF_SPLIT_ALLOW_BLANK
  then if negb (buf_flag flags ARES_BUF_SPLIT_NO_DUPLICATES) || negb (buf_split_isdup acc sect flags)
       then acc ++ [sect] else acc
  else acc.

Definition bufs_split_full (max_sections : Z) (acc : list (list Z)) : bool :=
  negb (max_sections =? 0) && (buf_zlen acc >=? buf_w64 (max_sections - 1)).

Fixpoint bufs_split_go (delims : list Z) (flags max_sections : Z) (acc : list (list Z))
         (cur : list Z) (all : bool) (pos start : Z) (l : list Z) : list (list Z) * Z :=
  match l with
  | [] => (bufs_split_emit flags acc cur, start)
  | x :: r =>
    if negb all && buf_in_charset delims x
    then
      let acc' := bufs_split_emit flags acc cur in
      let keep := buf_flag flags ARES_BUF_SPLIT_KEEP_DELIMS in
      bufs_split_go delims flags max_sections acc' (if keep then [x] else [])
                    (bufs_split_full max_sections acc') (pos + 1) (if keep then pos else pos + 1) r
    else bufs_split_go delims flags max_sections acc (x :: cur) all (pos + 1) start r
  end.

(* pieces and the offset (inside the remaining bytes) where the last section started *)
Definition bufs_split (delims : list Z) (flags max_sections : Z) (l : list Z) : list (list Z) * Z :=
  bufs_split_go delims flags max_sections [] [] (bufs_split_full max_sections []) 0 0 l.

Definition bufs_split_alts (ok_arr : bool) (s : bspec) (delims : list Z) (flags max_sections : Z)
  : list (bobs * bspec) :=
  if buf_zlen delims =? 0 then [(mkBufObs ARES_EFORMERR [0] [], s)]
  else if negb ok_arr then [(mkBufObs ARES_ENOMEM [0] [], s)]
  else if bufs_len s =? 0 then [(mkBufObs ARES_SUCCESS [0] [], s)]
  else
    let r := bufs_split delims flags max_sections (bs_post s) in
    [(mkBufObs ARES_SUCCESS [buf_zlen (fst r)] (fst r),
      mkBufSpec (bs_pre s ++ bs_post s) [] (Some (bufs_position s + snd r)) (bs_const s))].

(* finish: everything from the tag (from the cursor when no tag is set) is handed out *)
Definition bufs_finish_alts (str : bool) (s : bspec) : list (bobs * bspec) :=
  if bs_const s then [(mkBufObs 0 [] [], s)]
  else
    let out := bufs_tagged s ++ bs_post s in
    (mkBufObs 1 [] [if str then out ++ [0] else out], bufs_create)
    :: (if bufs_nothing_held s then [(mkBufObs 0 [] [], s)] else []).

(* ---- numbers in ASCII: the plain specification (digits by div / mod) ---- *)
(* the k least significant digits of v in the given base, most significant first *)
Fixpoint bufs_num_digits (base : Z) (k : nat) (v : Z) : list Z :=
  match k with O => [] | S k' => bufs_num_digits base k' (v / base) ++ [v mod base] end.
(* number of digits of v (at least 1) *)
Fixpoint bufs_num_width (fuel : nat) (base v : Z) : Z :=
  match fuel with
  | O => 1
  | S f => if v <? base then 1 else 1 + bufs_num_width f base (v / base)
  end.
Definition bufs_dec_char (d : Z) : Z := 48 + d.                         (* '0' .. '9' *)
Definition bufs_hex_char (d : Z) : Z := if d <? 10 then 48 + d else 55 + d.   (* '0' .. '9', 'A' .. 'F' *)
(* what ares_buf_append_num_dec / _hex append: len = 0 means the natural width; otherwise exactly
   len characters: the number zero-padded on the left, or - when it has more digits - its len
   LEAST significant digits (the leading ones are cut off) *)
Definition bufs_num_bytes (base : Z) (chr : Z -> Z) (num len : Z) : list Z :=
  let len := if len =? 0 then bufs_num_width 64 base num else len in
  map chr (bufs_num_digits base (Z.to_nat len) num).

(* ---- one length-prefixed character-string ---- *)
Definition bufs_parse_binstr (ok1 ok2 : bool) (s : bspec) (rl : Z) (want validate : bool)
  : Z * bspec * option (list Z) :=
  if rl =? 0 then (ARES_EBADRESP, s, None)
  else if negb ok1 then (ARES_ENOMEM, s, None)
  else match bs_post s with
       | [] => (ARES_EBADRESP, s, None)
       | len :: rest =>
         let s1 := bufs_advance s 1 in                   (* the length byte stays consumed on failure *)
         if (len >? rl - 1) || (buf_zlen rest <? len) then (ARES_EBADRESP, s1, None)
         else if validate && negb (forallb buf_isprint (buf_take len rest)) then (ARES_EBADSTR, s1, None)
         else if want && negb ok2 then (ARES_ENOMEM, s1, None)
         else (ARES_SUCCESS, bufs_advance s1 len, if want then Some (buf_take len rest ++ [0]) else None)
       end.

(* ---- split with a refused allocation in the middle: either the refused request was never made
   (the split needs fewer requests: full success) or ARES_ENOMEM without pieces; no byte is
   lost, the cursor stopped somewhere inside the input with the tag at or before it.  WHICH
   section it stopped at is a matter of the model (theorem buf_split_okp), not of the queue. *)
Definition bufs_zseq (from : Z) (n : nat) : list Z := map (fun i => from + Z.of_nat i) (seq 0 n).
Definition bufs_split_fail_alts (n : Z) (s : bspec) (delims : list Z) (flags max_sections : Z)
  : list (bobs * bspec) :=
  if (buf_zlen delims =? 0) || (n =? 0) || (bufs_len s =? 0) then bufs_split_alts (negb (n =? 0)) s delims flags max_sections
  else
    bufs_split_alts true s delims flags max_sections ++
    flat_map (fun p =>
                let pre' := bs_pre s ++ buf_take p (bs_post s) in
                let post' := buf_drop p (bs_post s) in
                map (fun t => (mkBufObs ARES_ENOMEM [0] [], mkBufSpec pre' post' (Some (bufs_position s + t)) (bs_const s)))
                    (bufs_zseq 0 (S (Z.to_nat p))))
             (bufs_zseq 0 (S (Z.to_nat (bufs_len s)))).

Definition bufs_alts (s : bspec) (op : buf_op) : list (bobs * bspec) :=
  let st1 (r : Z * bspec) := (mkBufObs (fst r) [] [], snd r) in
  match op with
  | BopAppend ok bytes => map st1 (bufs_append_alts s bytes)
  | BopAppendByte ok x => map st1 (bufs_append_alts s [x])
  | BopAppendBe16 ok v => map st1 (bufs_append_alts s (bufs_be_bytes 2 v))
  | BopAppendBe32 ok v => map st1 (bufs_append_alts s (bufs_be_bytes 4 v))
  | BopAppendStr ok str => map st1 (bufs_append_alts s str)
  | BopAppendViaStart ok want bytes =>
    if (want =? 0) || bs_const s then [(mkBufObs 0 [0] [], s)]
    else bufs_maybe_trim (fun x => (mkBufObs 1 [buf_zlen bytes] [], bufs_app x bytes)) s
         ++ bufs_maybe_trim (fun x => (mkBufObs 0 [0] [], x)) s
  | BopFetchBytes n =>
    let r := bufs_fetch_bytes s n in
    [(mkBufObs (fst (fst r)) [] (bufs_ok_bytes (fst (fst r)) (snd r)), snd (fst r))]
  | BopFetchBe16 =>
    let r := bufs_fetch_be 2 s in
    [(mkBufObs (fst (fst r)) (bufs_ok_val (fst (fst r)) (snd r)) [], snd (fst r))]
  | BopFetchBe32 =>
    let r := bufs_fetch_be 4 s in
    [(mkBufObs (fst (fst r)) (bufs_ok_val (fst (fst r)) (snd r)) [], snd (fst r))]
  | BopPeekByte =>
    let r := bufs_peek_byte s in [(mkBufObs (fst r) (bufs_ok_val (fst r) (snd r)) [], s)]
  | BopFetchBytesDup ok n nt =>
    let r := bufs_fetch_dup ok s n nt in
    [(mkBufObs (fst (fst r)) [] (bufs_ok_bytes (fst (fst r)) (snd r)), snd (fst r))]
  | BopFetchStrDup ok n =>
    let r := bufs_fetch_str_dup ok s n in
    [(mkBufObs (fst (fst r)) [] (bufs_ok_bytes (fst (fst r)) (snd r)), snd (fst r))]
  | BopFetchIntoBuf ok n =>
    if (n =? 0) || (bufs_len s <? n) then [(mkBufObs ARES_EBADRESP [] [[]], s)]
    else [(mkBufObs ARES_SUCCESS [] [buf_take n (bs_post s)], bufs_advance s n);
          (mkBufObs ARES_ENOMEM [] [[]], s)]
  | BopConsume n => [st1 (bufs_consume s n)]
  | BopTag => [(mkBufObs 0 [] [], bufs_tag s)]
  | BopRollback => [st1 (bufs_tag_rollback s)]
  | BopTagClear => [st1 (bufs_tag_clear s)]
  | BopTagFetchBytes cap =>
    map (fun r => (mkBufObs (fst r) [] (bufs_ok_bytes (fst r) (snd r)), s)) (bufs_tag_fetch_bytes_alts s cap)
  | BopTagFetchString cap =>
    map (fun r => (mkBufObs (fst r) [] (bufs_ok_bytes (fst r) (snd r)), s)) (bufs_tag_fetch_string_alts s cap)
  | BopTagFetchStrdup ok =>
    map (fun r => (mkBufObs (fst r) [] (bufs_ok_bytes (fst r) (snd r)), s)) (bufs_tag_fetch_strdup_alts ok s)
  | BopTagFetchConstbuf ok =>
    map (fun r => (mkBufObs (fst r) [] (snd r), s)) (bufs_tag_fetch_constbuf_alts ok s)
  | BopSetLength len fill => map st1 (bufs_set_length_alts s len fill)
  | BopSetPosition idx => [st1 (bufs_set_position s idx)]
  | BopReclaim => [(mkBufObs 0 [] [], bufs_trim s)]
  | BopWhitespace inc => [st1 (bufs_whitespace s inc)]
  | BopNonWhitespace => [st1 (bufs_nonwhitespace s)]
  | BopLine inc => [st1 (bufs_line s inc)]
  | BopCharset cs => [st1 (bufs_charset s cs)]
  | BopUntilCharset cs req => [st1 (bufs_until_charset s cs req)]
  | BopBeginsWith data => [(mkBufObs (bufs_begins_with s data) [] [], s)]
  | BopSplit ok_arr delims flags max_sections => bufs_split_alts ok_arr s delims flags max_sections
  | BopFinishBin ok => bufs_finish_alts false s
  | BopFinishStr ok => bufs_finish_alts true s
  | BopNew ok => [if ok then (mkBufObs 1 [] [], bufs_create) else (mkBufObs 0 [] [], s)]
  | BopNewConst ok bytes =>
    [if ok && negb (buf_zlen bytes =? 0) then (mkBufObs 1 [] [], bufs_create_const bytes)
     else (mkBufObs 0 [] [], s)]
  | BopAppendNumDec ok num len => map st1 (bufs_append_alts s (bufs_num_bytes 10 bufs_dec_char num len))
  | BopAppendNumHex ok num len => map st1 (bufs_append_alts s (bufs_num_bytes 16 bufs_hex_char num len))
  | BopParseBinstr ok1 ok2 rl want validate =>
    let r := bufs_parse_binstr ok1 ok2 s rl want validate in
    [(match snd r with
      | None => mkBufObs (fst (fst r)) [] []
      | Some bytes => mkBufObs (fst (fst r)) [buf_zlen bytes - 1] [bytes]
      end, snd (fst r))]
  | BopSplitFailAt n delims flags max_sections => bufs_split_fail_alts n s delims flags max_sections
  end.

(* the caller contract of an operation in an abstract state: what the C API documents (or
   silently assumes) and the model does not promise anything about otherwise *)
Definition bufs_contract (s : bspec) (op : buf_op) : bool :=
  match op with
  | BopSetPosition idx => bufs_set_position_contract s idx
  | BopAppendViaStart ok want bytes => buf_zlen bytes <=? want
  | _ => true
  end.

(* ---- the monitor: runs the specification next to a trace of observations ---- *)
Fixpoint buf_zlists_eqb (l1 l2 : list (list Z)) : bool :=
  match l1, l2 with
  | [], [] => true
  | x :: r1, y :: r2 => buf_list_eqb x y && buf_zlists_eqb r1 r2
  | _, _ => false
  end.
Definition bobs_eqb (a b : bobs) : bool :=
  (bo_st a =? bo_st b) && buf_list_eqb (bo_vals a) (bo_vals b) && buf_zlists_eqb (bo_bytes a) (bo_bytes b).
Definition bview_eqb (a b : bview) : bool :=
  (bv_len a =? bv_len b) && (bv_pos a =? bv_pos b) && (bv_tlen a =? bv_tlen b) && buf_list_eqb (bv_rem a) (bv_rem b).

(* the abstract states compatible with one more observed step *)
Definition bspec_eq_dec (a b : bspec) : {a = b} + {a <> b}.
Proof. repeat decide equality. Defined.

Definition bufs_monitor_step (states : list bspec) (op : buf_op) (o : bobs) (v : bview) : list bspec :=
  nodup bspec_eq_dec
    (flat_map (fun s =>
       map snd (filter (fun alt => bobs_eqb (fst alt) o && bview_eqb (bufs_view (snd alt)) v)
                       (bufs_alts s op))) states).

(* the specification accepts a trace when at every step at least one abstract state explains
   the observation; the judgement (and the checked run below) ends at the first operation
   outside the caller contract *)
Fixpoint bufs_accepts (states : list bspec) (ops : list buf_op) (tr : list (bobs * bview)) : bool :=
  match ops with
  | [] => match tr with [] => true | _ => false end
  | op :: ops' =>
    if forallb (fun s => bufs_contract s op) states
    then match tr with
         | [] => false
         | (o, v) :: tr' =>
           match bufs_monitor_step states op o v with
           | [] => false
           | states' => bufs_accepts states' ops' tr'
           end
         end
    else true
  end.

Section BufRun.
Variable junk : Z -> Z.
(* the model run, stopped at the first operation outside the caller contract *)
Fixpoint buf_run_checked (b : cbuf) (ops : list buf_op) : outcome (list (bobs * bview)) :=
  match ops with
  | [] => Ok []
  | op :: rest =>
    if bufs_contract (buf_abs b) op
    then
      do r <- buf_step junk b op;
      do v <- buf_observe (snd r);
      do tl <- buf_run_checked (snd r) rest;
      Ok ((fst r, v) :: tl)
    else Ok []
  end.
End BufRun.
