(* Model of src/lib/dsa/ares_htable.c (generic hash table) in the shape of the C code, the
   typed wrappers (ares_htable_szvp/strvp/dict/asvp/vpvp/vpstr) as instances, and the trivial
   reference specification: a finite map written as an association list with unique keys.

   State, as in struct ares_htable:
     seed, size, num_keys, num_collisions, buckets
   [buckets] is the array of [size] pointers to ares_llist_t: [None] = NULL (never allocated),
   [Some l] = a list object holding the entries [l], head first ([Some []] is an allocated,
   empty list: that is what ares_htable_remove leaves behind).  An entry ("bucket" in the C
   code: an opaque pointer whose key is obtained by the bucket_key callback) is a pair
   (key, value).  The callbacks are Section variables: [keq] is key_eq, [hash] is the hash
   function (theorems hold for ANY hash function compatible with [keq], any seed).
   Every allocation asks an oracle (a list of booleans consumed left to right, an exhausted
   list answers "success").  The "impossible" branch of ares_htable_expand (pre-allocated
   list pool exhausted) is the distinct outcome [Err HT_POOL_EXHAUSTED]; Htable_proofs.v
   shows it is unreachable.  size_t underflow of num_keys / num_collisions is an explicit UB. *)
From CAres.Base Require Export Outcome.
From CAres.Gen Require Import Consts.
Local Open Scope nat_scope.

(* the model's name for "ares_htable_expand took the branch its comment calls impossible" *)
Definition HT_POOL_EXHAUSTED : Z := (-2)%Z.

(* one allocation: the allocator's answer and the rest of the oracle *)
Definition ht_alloc (o : list bool) : bool * list bool :=
  match o with
  | [] => (true, [])
  | b :: o' => (b, o')
  end.

(* n allocations one after the other, stopping at the first failure
   (the prealloc_llist loop of ares_htable_expand; the allocations a typed wrapper makes
   before it calls ares_htable_insert) *)
Fixpoint ht_alloc_n (n : nat) (o : list bool) : bool * list bool :=
  match n with
  | 0 => (true, o)
  | S n' => let (ok, o') := ht_alloc o in
            if ok then ht_alloc_n n' o' else (false, o')
  end.

Section HtGeneric.
Context {K V : Type}.
Variable keq : K -> K -> bool.      (* key_eq callback *)
Variable hash : K -> Z -> Z.        (* hash callback: key -> seed -> unsigned int *)

Definition ht_entry : Type := (K * V)%type.
Definition ht_bucket : Type := option (list ht_entry).

(* ---------------------------------------------------------------------------------- *)
(* The reference specification: an association list, at most one binding per key      *)
(* (up to keq).  The very same functions describe what the C code does inside ONE      *)
(* bucket list (find / replace node data / destroy node).                              *)
(* ---------------------------------------------------------------------------------- *)
Definition hts_get (k : K) (m : list ht_entry) : option ht_entry :=
  find (fun e => keq k (fst e)) m.

(* apply f to the first binding whose key matches k *)
Fixpoint hts_update (k : K) (f : ht_entry -> ht_entry) (m : list ht_entry) : list ht_entry :=
  match m with
  | [] => []
  | x :: r => if keq k (fst x) then f x :: r else x :: hts_update k f r
  end.

(* overwrite the binding of e's key by e (ares_llist_node_replace on the node found) *)
Definition hts_replace (e : ht_entry) (m : list ht_entry) : list ht_entry :=
  hts_update (fst e) (fun _ => e) m.

Fixpoint hts_remove (k : K) (m : list ht_entry) : list ht_entry :=
  match m with
  | [] => []
  | x :: r => if keq k (fst x) then r else x :: hts_remove k r
  end.

(* insert overwrites; returns the binding that was replaced *)
Definition hts_insert (e : ht_entry) (m : list ht_entry) : list ht_entry * option ht_entry :=
  match hts_get (fst e) m with
  | Some old => (hts_replace e m, Some old)
  | None => (e :: m, None)
  end.

(* ---------------------------------------------------------------------------------- *)
(* The model of ares_htable.c                                                          *)
(* ---------------------------------------------------------------------------------- *)
Record ht := mkHt {
  ht_seed : Z;
  ht_size : nat;                    (* unsigned int size *)
  ht_num_keys : nat;
  ht_num_collisions : nat;
  ht_buckets : list ht_bucket }.

(* ares_htable_create: two allocations (the struct, the bucket array) *)
Definition ht_create (o : list bool) (seed : Z) : option ht :=
  let (ok1, o1) := ht_alloc o in
  if negb ok1 then None else
  let (ok2, _) := ht_alloc o1 in
  if negb ok2 then None else
  Some (mkHt seed (Z.to_nat ARES__HTABLE_MIN_BUCKETS) 0 0
             (repeat None (Z.to_nat ARES__HTABLE_MIN_BUCKETS))).

(* HASH_IDX(h, key) = h->hash(key, h->seed) & (h->size - 1) *)
Definition ht_idx (size : nat) (seed : Z) (k : K) : nat :=
  Z.to_nat (Z.land (hash k seed) (Z.of_nat size - 1)).

(* htable->buckets[idx] *)
Definition ht_bucket_at (bs : list ht_bucket) (idx : nat) : outcome ht_bucket :=
  match nth_error bs idx with
  | Some b => Ok b
  | None => UB OutOfBounds
  end.

(* the nodes of a bucket; ares_llist_node_first(NULL) is NULL *)
Definition ht_nodes (b : ht_bucket) : list ht_entry :=
  match b with Some l => l | None => [] end.

(* buckets[idx] = b *)
Fixpoint ht_set_bucket (bs : list ht_bucket) (idx : nat) (b : ht_bucket) : list ht_bucket :=
  match bs, idx with
  | [], _ => []
  | _ :: r, 0 => b :: r
  | x :: r, S i => x :: ht_set_bucket r i b
  end.

(* the array as the loops "for (i = 0; i < size; i++) ... buckets[i]" read it *)
Definition ht_array (size : nat) (bs : list ht_bucket) : outcome (list ht_bucket) :=
  if Nat.ltb (length bs) size then UB OutOfBounds else Ok (firstn size bs).

Definition ht_entries_of (bs : list ht_bucket) : list ht_entry := concat (map ht_nodes bs).

(* ares_htable_find: the matching node of buckets[idx] *)
Definition ht_find (h : ht) (idx : nat) (k : K) : outcome (option ht_entry) :=
  do b <- ht_bucket_at (ht_buckets h) idx;
  Ok (hts_get k (ht_nodes b)).

(* --- ares_htable_expand --- *)

(* the "slow path" while loop over the nodes of one old bucket: [pool] = prealloc_llist_len,
   [coll] = htable->num_collisions being recomputed *)
Fixpoint ht_move_nodes (size2 : nat) (seed : Z) (l : list ht_entry) (nb : list ht_bucket)
         (pool coll : nat) : outcome (list ht_bucket * nat * nat) :=
  match l with
  | [] => Ok (nb, pool, coll)                    (* abandoned (empty) list destroyed *)
  | e :: rest =>
    let idx := ht_idx size2 seed (fst e) in
    do b <- ht_bucket_at nb idx;
    match b with
    | None =>
      match rest with
      | [] => (* buckets[idx] == NULL && len == 1: swap the list object over *)
        Ok (ht_set_bucket nb idx (Some [e]), pool, coll)
      | _ :: _ =>
        match pool with
        | 0 => Err HT_POOL_EXHAUSTED             (* "this isn't possible": goto done *)
        | S p => ht_move_nodes size2 seed rest (ht_set_bucket nb idx (Some [e])) p coll
        end
      end
    | Some nl => (* collision: ares_llist_node_mvparent_first *)
      ht_move_nodes size2 seed rest (ht_set_bucket nb idx (Some (e :: nl))) pool (S coll)
    end
  end.

(* one iteration of "for (i = 0; i < old_size; i++)" *)
Definition ht_move_bucket (size2 : nat) (seed : Z) (b : ht_bucket) (nb : list ht_bucket)
           (pool coll : nat) : outcome (list ht_bucket * nat * nat) :=
  match b with
  | None => Ok (nb, pool, coll)
  | Some l =>
    do fast <- match l with
               | [e] => (* fast path: single entry, destination empty: move the list over *)
                 let idx := ht_idx size2 seed (fst e) in
                 do d <- ht_bucket_at nb idx;
                 match d with
                 | None => Ok (Some (ht_set_bucket nb idx (Some l)))
                 | Some _ => Ok None
                 end
               | _ => Ok None
               end;
    match fast with
    | Some nb' => Ok (nb', pool, coll)
    | None => ht_move_nodes size2 seed l nb pool coll
    end
  end.

Fixpoint ht_rehash (size2 : nat) (seed : Z) (bs : list ht_bucket) (nb : list ht_bucket)
         (pool coll : nat) : outcome (list ht_bucket * nat * nat) :=
  match bs with
  | [] => Ok (nb, pool, coll)
  | b :: r =>
    do x <- ht_move_bucket size2 seed b nb pool coll;
    ht_rehash size2 seed r (fst (fst x)) (snd (fst x)) (snd x)
  end.

(* returns (table, rv, rest of the oracle) *)
Definition ht_expand (o : list bool) (h : ht) : outcome (ht * bool * list bool) :=
  let old_size := ht_size h in
  if Z.eqb (Z.of_nat old_size) ARES__HTABLE_MAX_BUCKETS then Ok (h, true, o)
  else
    (* htable->size <<= 1 on an unsigned int *)
    let size2 := Z.to_nat ((Z.of_nat old_size * 2) mod 2 ^ 32)%Z in
    let (ok1, o1) := ht_alloc o in                       (* the new bucket array *)
    if negb ok1 then Ok (h, false, o1) else
    let plen := ht_num_collisions h in
    let (ok2, o2) := if Nat.eqb plen 0 then (true, o1) else ht_alloc o1 in  (* prealloc_llist *)
    if negb ok2 then Ok (h, false, o2) else
    let (ok3, o3) := ht_alloc_n plen o2 in               (* prealloc_llist[i] *)
    if negb ok3 then Ok (h, false, o3) else
    do old <- ht_array old_size (ht_buckets h);
    do x <- ht_rehash size2 (ht_seed h) old (repeat None size2) plen 0;
    Ok (mkHt (ht_seed h) size2 (ht_num_keys h) (snd x) (fst (fst x)), true, o3).

(* --- ares_htable_insert --- *)
Inductive ht_ins_result :=
| HtInserted                          (* ARES_TRUE, new key *)
| HtReplaced (old : ht_entry)         (* ARES_TRUE, bucket_free called on the old entry *)
| HtFailed.                           (* ARES_FALSE *)

Definition ht_with_buckets (h : ht) (bs : list ht_bucket) : ht :=
  mkHt (ht_seed h) (ht_size h) (ht_num_keys h) (ht_num_collisions h) bs.

(* num_keys + 1 > (size * ARES__HTABLE_EXPAND_PERCENT) / 100, size an unsigned int *)
Definition ht_should_expand (h : ht) : bool :=
  Z.ltb ((Z.of_nat (ht_size h) * ARES__HTABLE_EXPAND_PERCENT) mod 2 ^ 32 / 100)
        (Z.of_nat (ht_num_keys h) + 1).

(* allocation requests ares_htable_expand makes when all succeed: the new bucket array, the
   prealloc_llist array (only when num_collisions > 0), num_collisions lists *)
Definition ht_expand_requests (h : ht) : nat :=
  if Z.eqb (Z.of_nat (ht_size h)) ARES__HTABLE_MAX_BUCKETS then 0
  else 1 + (if Nat.eqb (ht_num_collisions h) 0 then 0 else 1) + ht_num_collisions h.

(* the part of ares_htable_insert after the growth check: lazily allocate the list of
   buckets[idx], allocate the node, link it first, update the counters *)
Definition ht_insert_at (o : list bool) (h : ht) (idx : nat) (e : ht_entry)
  : outcome (ht * ht_ins_result) :=
  do b <- ht_bucket_at (ht_buckets h) idx;
  (* lazily allocate the linked list *)
  let '(l, ok2, o2) := match b with
                       | Some l => (l, true, o)
                       | None => let (ok, o') := ht_alloc o in ([], ok, o')
                       end in
  if negb ok2 then Ok (h, HtFailed) else
  (* ares_llist_insert_first: the node *)
  let (ok3, _) := ht_alloc o2 in
  if negb ok3 then Ok (ht_with_buckets h (ht_set_bucket (ht_buckets h) idx (Some l)), HtFailed)
  else
    let l' := e :: l in
    Ok (mkHt (ht_seed h) (ht_size h) (S (ht_num_keys h))
             (if Nat.ltb 1 (length l') then S (ht_num_collisions h) else ht_num_collisions h)
             (ht_set_bucket (ht_buckets h) idx (Some l')),
        HtInserted).

Definition ht_insert (o : list bool) (h : ht) (e : ht_entry) : outcome (ht * ht_ins_result) :=
  let key := fst e in
  let idx := ht_idx (ht_size h) (ht_seed h) key in
  do found <- ht_find h idx key;
  match found with
  | Some old =>
    (* ares_llist_node_replace: bucket_free(old), node->data = bucket *)
    do b <- ht_bucket_at (ht_buckets h) idx;
    Ok (ht_with_buckets h (ht_set_bucket (ht_buckets h) idx (Some (hts_replace e (ht_nodes b)))),
        HtReplaced old)
  | None =>
    if ht_should_expand h
    then
      do y <- ht_expand o h;
      let '(h1, grown_ok, o1) := y in
      if negb grown_ok then Ok (h1, HtFailed)
      else (* expanded: calculate a new index *)
        ht_insert_at o1 h1 (ht_idx (ht_size h1) (ht_seed h1) key) e
    else ht_insert_at o h idx e
  end.

(* ares_htable_get: the stored entry *)
Definition ht_get (h : ht) (k : K) : outcome (option ht_entry) :=
  ht_find h (ht_idx (ht_size h) (ht_seed h) k) k.

(* ares_htable_remove: the entry handed to bucket_free, None = ARES_FALSE *)
Definition ht_remove (h : ht) (k : K) : outcome (ht * option ht_entry) :=
  let idx := ht_idx (ht_size h) (ht_seed h) k in
  do found <- ht_find h idx k;
  match found with
  | None => Ok (h, None)
  | Some e =>
    do b <- ht_bucket_at (ht_buckets h) idx;
    match ht_num_keys h with
    | 0 => UB SizeUnderflow
    | S nk =>
      do coll <- (if Nat.ltb 1 (length (ht_nodes b))
                  then match ht_num_collisions h with
                       | 0 => UB SizeUnderflow
                       | S c => Ok c
                       end
                  else Ok (ht_num_collisions h));
      Ok (mkHt (ht_seed h) (ht_size h) nk coll
               (ht_set_bucket (ht_buckets h) idx (Some (hts_remove k (ht_nodes b)))),
          Some e)
    end
  end.

(* ares_htable_all_buckets: None = NULL.  An empty table yields NULL without asking the
   allocator (fixes/C19-htable-all-buckets-empty.patch; the pinned code asked for 0 bytes,
   and the typed keys() wrappers leaked the result when the allocator answered non-NULL).
   The output array has num_keys slots; [alloc_ok] is the allocator's answer. *)
Definition ht_all_buckets (alloc_ok : bool) (h : ht) : outcome (option (list ht_entry)) :=
  if Nat.eqb (ht_num_keys h) 0 then Ok None
  else if negb alloc_ok then Ok None
  else
    do arr <- ht_array (ht_size h) (ht_buckets h);
    let out := ht_entries_of arr in
    if Nat.ltb (ht_num_keys h) (length out) then UB OutOfBounds   (* out[cnt++] past the end *)
    else Ok (Some out).

(* ares_htable_destroy: the entries handed to bucket_free, in that order *)
Definition ht_destroy (h : ht) : outcome (list ht_entry) :=
  do arr <- ht_array (ht_size h) (ht_buckets h);
  Ok (ht_entries_of arr).

(* ares_htable_strvp_claim's "bucket->val = NULL" on the entry found for k *)
Definition ht_set_val (h : ht) (k : K) (v : V) : outcome ht :=
  let idx := ht_idx (ht_size h) (ht_seed h) k in
  do b <- ht_bucket_at (ht_buckets h) idx;
  Ok (ht_with_buckets h (ht_set_bucket (ht_buckets h) idx
                           (match b with
                            | None => None
                            | Some l => Some (hts_update k (fun x => (fst x, v)) l)
                            end))).

(* ---------------------------------------------------------------------------------- *)
(* Operation sequences                                                                 *)
(* ---------------------------------------------------------------------------------- *)
Variable vnull : V.     (* the NULL value (ares_htable_strvp_claim) *)

Inductive ht_op :=
| HtOpInsert (npre : nat) (o : list bool) (k : K) (v : V)
    (* npre = allocations the typed wrapper makes before calling ares_htable_insert
       (0 for the generic API); o = the allocator's answers during this call *)
| HtOpGet (k : K)
| HtOpRemove (k : K)
| HtOpNumKeys
| HtOpAll (alloc_ok : bool)
| HtOpClaim (k : K).

Inductive ht_obs :=
| HtObsInsert (r : ht_ins_result)
| HtObsGet (r : option ht_entry)
| HtObsRemove (r : option ht_entry)
| HtObsNum (n : nat)
| HtObsAll (r : option (list ht_entry))
| HtObsClaim (r : option ht_entry) (freed : option ht_entry)
| HtObsDestroy (l : list ht_entry).

Definition ht_step (h : ht) (op : ht_op) : outcome (ht * ht_obs) :=
  match op with
  | HtOpInsert npre o k v =>
    let (ok, o') := ht_alloc_n npre o in
    if negb ok then Ok (h, HtObsInsert HtFailed)
    else do r <- ht_insert o' h (k, v); Ok (fst r, HtObsInsert (snd r))
  | HtOpGet k => do r <- ht_get h k; Ok (h, HtObsGet r)
  | HtOpRemove k => do r <- ht_remove h k; Ok (fst r, HtObsRemove (snd r))
  | HtOpNumKeys => Ok (h, HtObsNum (ht_num_keys h))
  | HtOpAll ok => do r <- ht_all_buckets ok h; Ok (h, HtObsAll r)
  | HtOpClaim k =>
    do g <- ht_get h k;
    match g with
    | None => Ok (h, HtObsClaim None None)
    | Some e =>
      do h1 <- ht_set_val h k vnull;
      do r <- ht_remove h1 k;
      Ok (fst r, HtObsClaim (Some e) (snd r))
    end
  end.

Fixpoint ht_run_from (h : ht) (ops : list ht_op) : outcome (list ht_obs) :=
  match ops with
  | [] => do l <- ht_destroy h; Ok [HtObsDestroy l]
  | op :: r =>
    do x <- ht_step h op;
    do t <- ht_run_from (fst x) r;
    Ok (snd x :: t)
  end.

Definition ht_run_model (seed : Z) (ops : list ht_op) : outcome (list ht_obs) :=
  match ht_create [] seed with
  | Some h => ht_run_from h ops
  | None => Err ARES_ENOMEM
  end.

(* The specification run.  [verdicts] has one boolean per operation: for an insert it says
   whether the allocator let the call succeed; ignored by the other operations. *)
Definition hts_step (m : list ht_entry) (op : ht_op) (ok : bool) : list ht_entry * ht_obs :=
  match op with
  | HtOpInsert _ _ k v =>
    if ok then
      let (m', old) := hts_insert (k, v) m in
      (m', HtObsInsert (match old with Some e => HtReplaced e | None => HtInserted end))
    else (m, HtObsInsert HtFailed)
  | HtOpGet k => (m, HtObsGet (hts_get k m))
  | HtOpRemove k => (hts_remove k m, HtObsRemove (hts_get k m))
  | HtOpNumKeys => (m, HtObsNum (length m))
  | HtOpAll ok' => (m, HtObsAll (if Nat.eqb (length m) 0 || negb ok' then None else Some m))
  | HtOpClaim k =>
    match hts_get k m with
    | None => (m, HtObsClaim None None)
    | Some e => (hts_remove k m, HtObsClaim (Some e) (Some (fst e, vnull)))
    end
  end.

Fixpoint hts_run_from (m : list ht_entry) (ops : list ht_op) (verdicts : list bool) : list ht_obs :=
  match ops with
  | [] => [HtObsDestroy m]
  | op :: r =>
    let ok := match verdicts with [] => true | b :: _ => b end in
    let x := hts_step m op ok in
    snd x :: hts_run_from (fst x) r (tl verdicts)
  end.

Definition ht_run_spec (ops : list ht_op) (verdicts : list bool) : list ht_obs :=
  hts_run_from [] ops verdicts.

(* what the model's trace says about allocation verdicts *)
Definition ht_obs_ok (o : ht_obs) : bool :=
  match o with HtObsInsert HtFailed => false | _ => true end.

End HtGeneric.

(* ---------------------------------------------------------------------------------- *)
(* Typed wrappers as instances                                                         *)
(* ---------------------------------------------------------------------------------- *)

(* ares_htable_szvp / asvp (size_t / ares_socket_t keys passed by address; key_eq is ==),
   vpvp / vpstr (pointer keys, key_eq is ==): numeric keys, one allocation (the bucket
   struct) before ares_htable_insert (vpstr: two, it also duplicates the value string). *)
Definition ht_szvp_keq : Z -> Z -> bool := Z.eqb.
Definition ht_szvp_npre : nat := 1.

(* ares_htable_strvp / dict: NUL-terminated byte strings compared with ares_strcaseeq.
   Keys are lists of byte values (no 0 inside). *)
Definition ht_tolower (c : Z) : Z :=
  if (Z.leb 65 c && Z.leb c 90)%bool then (c + 32)%Z else c.

Fixpoint ht_bytes_eqb (a b : list Z) : bool :=
  match a, b with
  | [], [] => true
  | x :: a', y :: b' => Z.eqb x y && ht_bytes_eqb a' b'
  | _, _ => false
  end.

Definition ht_strcaseeq (a b : list Z) : bool :=
  ht_bytes_eqb (map ht_tolower a) (map ht_tolower b).

Definition ht_strvp_npre : nat := 2.    (* bucket struct, ares_strdup(key) *)

(* ares_htable_hash_FNV1a over a byte list, 32-bit unsigned arithmetic *)
Definition ht_fnv1a_step (hv c : Z) : Z :=
  let hv := Z.lxor hv c in
  ((hv + Z.shiftl hv 1 + Z.shiftl hv 4 + Z.shiftl hv 7 + Z.shiftl hv 8 + Z.shiftl hv 24)
   mod 2 ^ 32)%Z.

Definition ht_fnv1a (key : list Z) (seed : Z) : Z :=
  fold_left ht_fnv1a_step key (Z.lxor seed 2166136261).

(* ares_htable_hash_FNV1a_casecmp *)
Definition ht_fnv1a_casecmp (key : list Z) (seed : Z) : Z :=
  fold_left (fun hv c => ht_fnv1a_step hv (ht_tolower c)) key (Z.lxor seed 2166136261).

(* ares_htable_dict_insert rejects an empty key before allocating anything;
   ares_htable_dict_insert allocates the bucket, the key copy and the value copy *)
Definition ht_dict_npre : nat := 3.
Definition ht_dict_key_ok (k : list Z) : bool := negb (Nat.eqb (length k) 0).
