(* Refinement of the hash-table model (Htable.v) to the association-list specification,
   for ANY hash function compatible with the key equality and any seed. *)
From CAres.Dsa Require Import Htable.
From CAres.Gen Require Import Consts.
From Coq Require Export Permutation.
Local Open Scope nat_scope.

(* ---------------------------------------------------------------------------------- *)
(* allocation oracle                                                                   *)
(* ---------------------------------------------------------------------------------- *)
Lemma ht_alloc_false o o' : ht_alloc o = (false, o') -> In false o /\ (forall x, In x o' -> In x o).
Proof.
  destruct o as [|b o0]; simpl; intros H; inversion H; subst.
  split; [left; reflexivity | intros x Hx; right; exact Hx].
Qed.

Lemma ht_alloc_incl o b o' : ht_alloc o = (b, o') -> forall x, In x o' -> In x o.
Proof.
  destruct o as [|b0 o0]; simpl; intros H; inversion H; subst; intros x Hx; [exact Hx | right; exact Hx].
Qed.

Lemma ht_alloc_n_incl n : forall o b o', ht_alloc_n n o = (b, o') -> forall x, In x o' -> In x o.
Proof.
  induction n as [|n IH]; intros o b o' H x Hx; simpl in H.
  - inversion H; subst; exact Hx.
  - destruct (ht_alloc o) as [ok o1] eqn:Ha. destruct ok.
    + eapply ht_alloc_incl; [exact Ha|]. eapply IH; eauto.
    + inversion H; subst. eapply ht_alloc_incl; eauto.
Qed.

Lemma ht_alloc_n_false n : forall o o', ht_alloc_n n o = (false, o') -> In false o.
Proof.
  induction n as [|n IH]; intros o o' H; simpl in H.
  - inversion H.
  - destruct (ht_alloc o) as [ok o1] eqn:Ha. destruct ok.
    + eapply ht_alloc_incl; [exact Ha|]. eapply IH; eauto.
    + apply ht_alloc_false in Ha. tauto.
Qed.

Section HtProofs.
Context {K V : Type}.
Variable keq : K -> K -> bool.
Variable hash : K -> Z -> Z.
Hypothesis keq_refl : forall a, keq a a = true.
Hypothesis keq_sym : forall a b, keq a b = keq b a.
Hypothesis keq_trans : forall a b c, keq a b = true -> keq b c = true -> keq a c = true.
Hypothesis hash_compat : forall a b s, keq a b = true -> hash a s = hash b s.

Notation E := (@ht_entry K V).
Notation hget := (@hts_get K V keq).
Notation hupd := (@hts_update K V keq).
Notation hrem := (@hts_remove K V keq).
Notation hrepl := (@hts_replace K V keq).
Notation hins := (@hts_insert K V keq).

(* ---------------------------------------------------------------------------------- *)
(* association lists with unique keys                                                  *)
(* ---------------------------------------------------------------------------------- *)
Definition ht_fresh (k : K) (l : list E) : Prop := forall e, In e l -> keq k (fst e) = false.

Fixpoint ht_nodup (l : list E) : Prop :=
  match l with
  | [] => True
  | e :: r => ht_fresh (fst e) r /\ ht_nodup r
  end.

Lemma ht_fresh_nil k : ht_fresh k [].
Proof. intros e []. Qed.

Lemma ht_fresh_cons k e l : ht_fresh k (e :: l) <-> keq k (fst e) = false /\ ht_fresh k l.
Proof.
  split.
  - intros H. split; [apply H; left; reflexivity | intros x Hx; apply H; right; exact Hx].
  - intros [H1 H2] x [Hx|Hx]; [subst; exact H1 | apply H2; exact Hx].
Qed.

Lemma ht_fresh_app k a b : ht_fresh k (a ++ b) <-> ht_fresh k a /\ ht_fresh k b.
Proof.
  split.
  - intros H. split; intros x Hx; apply H; apply in_or_app; tauto.
  - intros [H1 H2] x Hx. apply in_app_or in Hx. destruct Hx; auto.
Qed.

Lemma ht_fresh_keq a b l : keq a b = true -> ht_fresh a l -> ht_fresh b l.
Proof.
  intros Hab Hf e He. specialize (Hf e He).
  destruct (keq b (fst e)) eqn:Hb; [|reflexivity].
  rewrite (keq_trans a b (fst e) Hab Hb) in Hf. discriminate.
Qed.

Lemma ht_fresh_perm k l l' : Permutation l l' -> ht_fresh k l -> ht_fresh k l'.
Proof. intros HP Hf e He. apply Hf. eapply Permutation_in; [apply Permutation_sym; exact HP | exact He]. Qed.

Lemma hts_get_none k l : hget k l = None <-> ht_fresh k l.
Proof.
  unfold hts_get. split.
  - intros H e He. exact (find_none _ _ H e He).
  - induction l as [|x l IH]; intros H; simpl; [reflexivity|].
    apply ht_fresh_cons in H. destruct H as [H1 H2]. rewrite H1. apply IH; exact H2.
Qed.

Lemma hts_get_some k l e : hget k l = Some e -> In e l /\ keq k (fst e) = true.
Proof. unfold hts_get. intros H. apply find_some in H. exact H. Qed.

(* the shape of a list around the first binding of k *)
Lemma hts_get_split k l e :
  hget k l = Some e ->
  exists a b, l = a ++ e :: b /\ ht_fresh k a /\ keq k (fst e) = true /\
              hrem k l = a ++ b /\ (forall f, hupd k f l = a ++ f e :: b).
Proof.
  induction l as [|x l IH]; simpl; intros H; [discriminate|].
  destruct (keq k (fst x)) eqn:Hk.
  - inversion H; subst. exists [], l. repeat split; auto using ht_fresh_nil.
  - destruct (IH H) as (a & b & Hl & Hfa & Hke & Hr & Hu).
    exists (x :: a), b. subst l. repeat split; auto.
    + apply ht_fresh_cons; split; assumption.
    + simpl. rewrite Hr. reflexivity.
    + intros f. simpl. rewrite Hu. reflexivity.
Qed.

Lemma hts_remove_fresh k l : ht_fresh k l -> hrem k l = l.
Proof.
  induction l as [|x l IH]; intros H; simpl; [reflexivity|].
  apply ht_fresh_cons in H. destruct H as [H1 H2]. rewrite H1, IH; auto.
Qed.

Lemma hts_update_fresh k f l : ht_fresh k l -> hupd k f l = l.
Proof.
  induction l as [|x l IH]; intros H; simpl; [reflexivity|].
  apply ht_fresh_cons in H. destruct H as [H1 H2]. rewrite H1, IH; auto.
Qed.

Lemma hts_get_app k a b :
  hget k (a ++ b) = match hget k a with Some e => Some e | None => hget k b end.
Proof.
  unfold hts_get. induction a as [|x a IH]; simpl; [reflexivity|].
  destruct (keq k (fst x)); [reflexivity | exact IH].
Qed.

Lemma hts_remove_app_fresh k a b : ht_fresh k a -> hrem k (a ++ b) = a ++ hrem k b.
Proof.
  induction a as [|x a IH]; intros H; simpl; [reflexivity|].
  apply ht_fresh_cons in H. destruct H as [H1 H2]. rewrite H1, IH; auto.
Qed.

Lemma hts_update_app_fresh k f a b : ht_fresh k a -> hupd k f (a ++ b) = a ++ hupd k f b.
Proof.
  induction a as [|x a IH]; intros H; simpl; [reflexivity|].
  apply ht_fresh_cons in H. destruct H as [H1 H2]. rewrite H1, IH; auto.
Qed.

Lemma hts_remove_app_found k b c e : hget k b = Some e -> hrem k (b ++ c) = hrem k b ++ c.
Proof.
  intros H. destruct (hts_get_split _ _ _ H) as (a0 & b0 & Hl & Hfa & Hke & Hr & _).
  subst b. rewrite <- app_assoc. rewrite hts_remove_app_fresh by assumption.
  rewrite Hr. simpl. rewrite Hke. rewrite app_assoc. reflexivity.
Qed.

Lemma hts_update_app_found k f b c e : hget k b = Some e -> hupd k f (b ++ c) = hupd k f b ++ c.
Proof.
  intros H. destruct (hts_get_split _ _ _ H) as (a0 & b0 & Hl & Hfa & Hke & _ & Hu).
  subst b. rewrite <- app_assoc. rewrite hts_update_app_fresh by assumption.
  rewrite Hu. simpl. rewrite Hke. rewrite <- app_assoc. reflexivity.
Qed.

Lemma hts_update_length k f l : length (hupd k f l) = length l.
Proof.
  induction l as [|x l IH]; simpl; [reflexivity|].
  destruct (keq k (fst x)); simpl; [reflexivity | rewrite IH; reflexivity].
Qed.

Lemma hts_update_in k f l x :
  In x (hupd k f l) -> In x l \/ exists old, In old l /\ keq k (fst old) = true /\ x = f old.
Proof.
  induction l as [|y l IH]; simpl; [tauto|].
  destruct (keq k (fst y)) eqn:Hk; simpl.
  - intros [Hx|Hx]; [right; exists y; auto | left; right; exact Hx].
  - intros [Hx|Hx]; [left; left; exact Hx|].
    destruct (IH Hx) as [H1|(old & H1 & H2 & H3)]; [left; right; exact H1|].
    right. exists old. auto.
Qed.

Lemma hts_remove_in k l x : In x (hrem k l) -> In x l.
Proof.
  induction l as [|y l IH]; simpl; [tauto|].
  destruct (keq k (fst y)); simpl; [tauto|]. intros [Hx|Hx]; [left; exact Hx | right; apply IH; exact Hx].
Qed.

Lemma hts_remove_length k l e : hget k l = Some e -> S (length (hrem k l)) = length l.
Proof.
  intros H. destruct (hts_get_split _ _ _ H) as (a & b & Hl & _ & _ & Hr & _).
  rewrite Hr, Hl. rewrite !app_length. simpl. lia.
Qed.

Lemma ht_nodup_unique l e1 e2 :
  ht_nodup l -> In e1 l -> In e2 l -> keq (fst e1) (fst e2) = true -> e1 = e2.
Proof.
  induction l as [|x l IH]; simpl; [tauto|].
  intros [Hf Hn] [H1|H1] [H2|H2] Hk.
  - congruence.
  - subst x. rewrite (Hf e2 H2) in Hk. discriminate.
  - subst x. rewrite keq_sym in Hk. rewrite (Hf e1 H1) in Hk. discriminate.
  - apply IH; assumption.
Qed.

Lemma hts_get_in l k e : ht_nodup l -> In e l -> keq k (fst e) = true -> hget k l = Some e.
Proof.
  intros Hn He Hk. destruct (hget k l) as [e'|] eqn:Hg.
  - apply hts_get_some in Hg. destruct Hg as [He' Hk'].
    f_equal. apply (ht_nodup_unique l); auto.
    apply keq_trans with k; [rewrite keq_sym; exact Hk' | exact Hk].
  - apply hts_get_none in Hg. rewrite (Hg e He) in Hk. discriminate.
Qed.

Lemma ht_nodup_perm l l' : Permutation l l' -> ht_nodup l -> ht_nodup l'.
Proof.
  induction 1 as [|x l l' HP IH|x y l|l l' l'' HP1 IH1 HP2 IH2]; simpl.
  - tauto.
  - intros [Hf Hn]. split; [eapply ht_fresh_perm; eauto | auto].
  - intros [Hfy [Hfx Hn]]. apply ht_fresh_cons in Hfy. destruct Hfy as [Hyx Hfy].
    repeat split; auto. apply ht_fresh_cons. split; [rewrite keq_sym; exact Hyx | exact Hfx].
  - auto.
Qed.

Lemma hts_get_perm k l l' : ht_nodup l -> Permutation l l' -> hget k l = hget k l'.
Proof.
  intros Hn HP. destruct (hget k l) as [e|] eqn:Hg.
  - apply hts_get_some in Hg. destruct Hg as [He Hk]. symmetry.
    apply hts_get_in; [eapply ht_nodup_perm; eauto | eapply Permutation_in; eauto | exact Hk].
  - symmetry. apply hts_get_none. apply hts_get_none in Hg. eapply ht_fresh_perm; eauto.
Qed.

Lemma hts_perm_found k l e : hget k l = Some e -> Permutation l (e :: hrem k l).
Proof.
  intros H. destruct (hts_get_split _ _ _ H) as (a & b & Hl & _ & _ & Hr & _).
  rewrite Hr, Hl. apply Permutation_sym, Permutation_middle.
Qed.

Lemma hts_update_perm_found k f l e : hget k l = Some e -> Permutation (hupd k f l) (f e :: hrem k l).
Proof.
  intros H. destruct (hts_get_split _ _ _ H) as (a & b & Hl & _ & _ & Hr & Hu).
  rewrite Hr, Hu. apply Permutation_sym, Permutation_middle.
Qed.

Lemma hts_remove_perm k l l' : ht_nodup l -> Permutation l l' -> Permutation (hrem k l) (hrem k l').
Proof.
  intros Hn HP. pose proof (hts_get_perm k l l' Hn HP) as Hg.
  destruct (hget k l) as [e|] eqn:Hgl.
  - symmetry in Hg. apply (Permutation_cons_inv (a := e)).
    eapply Permutation_trans; [apply Permutation_sym, hts_perm_found; exact Hgl|].
    eapply Permutation_trans; [exact HP|]. apply hts_perm_found; exact Hg.
  - symmetry in Hg. apply hts_get_none in Hgl, Hg. rewrite !hts_remove_fresh by assumption. exact HP.
Qed.

Lemma hts_update_perm k f l l' : ht_nodup l -> Permutation l l' -> Permutation (hupd k f l) (hupd k f l').
Proof.
  intros Hn HP. pose proof (hts_get_perm k l l' Hn HP) as Hg.
  destruct (hget k l) as [e|] eqn:Hgl.
  - symmetry in Hg.
    eapply Permutation_trans; [apply hts_update_perm_found; exact Hgl|].
    eapply Permutation_trans; [|apply Permutation_sym, hts_update_perm_found; exact Hg].
    apply perm_skip. apply hts_remove_perm; assumption.
  - symmetry in Hg. apply hts_get_none in Hgl, Hg. rewrite !hts_update_fresh by assumption. exact HP.
Qed.

Lemma ht_nodup_remove k l : ht_nodup l -> ht_nodup (hrem k l).
Proof.
  intros Hn. destruct (hget k l) as [e|] eqn:Hg.
  - pose proof (ht_nodup_perm _ _ (hts_perm_found _ _ _ Hg) Hn) as H. simpl in H. tauto.
  - apply hts_get_none in Hg. rewrite hts_remove_fresh; assumption.
Qed.

Lemma ht_nodup_update k f l :
  (forall x, keq k (fst x) = true -> keq (fst (f x)) (fst x) = true) ->
  ht_nodup l -> ht_nodup (hupd k f l).
Proof.
  intros Hf Hn. destruct (hget k l) as [e|] eqn:Hg.
  - pose proof (ht_nodup_perm _ _ (hts_perm_found _ _ _ Hg) Hn) as H. simpl in H. destruct H as [H1 H2].
    apply (ht_nodup_perm (f e :: hrem k l)); [apply Permutation_sym, hts_update_perm_found; exact Hg|].
    simpl. split; [|exact H2]. apply ht_fresh_keq with (fst e); [|exact H1].
    rewrite keq_sym. apply Hf. apply hts_get_some in Hg. tauto.
  - apply hts_get_none in Hg. rewrite hts_update_fresh; assumption.
Qed.

Lemma hts_get_update_same k f l e :
  keq (fst (f e)) (fst e) = true -> hget k l = Some e -> hget k (hupd k f l) = Some (f e).
Proof.
  intros Hf H. destruct (hts_get_split _ _ _ H) as (a & b & Hl & Hfa & Hke & _ & Hu).
  rewrite Hu, hts_get_app. apply hts_get_none in Hfa. rewrite Hfa. unfold hts_get. simpl.
  assert (keq k (fst (f e)) = true) as Hk.
  { apply keq_trans with (fst e); [exact Hke | rewrite keq_sym; exact Hf]. }
  rewrite Hk. reflexivity.
Qed.

Lemma hts_remove_update k f l e :
  keq (fst (f e)) (fst e) = true -> hget k l = Some e -> hrem k (hupd k f l) = hrem k l.
Proof.
  intros Hf H. destruct (hts_get_split _ _ _ H) as (a & b & Hl & Hfa & Hke & Hr & Hu).
  rewrite Hu, Hr. rewrite hts_remove_app_fresh by assumption. simpl.
  assert (keq k (fst (f e)) = true) as Hk.
  { apply keq_trans with (fst e); [exact Hke | rewrite keq_sym; exact Hf]. }
  rewrite Hk. reflexivity.
Qed.

(* --- the specification is a finite map: the usual laws --- *)
Lemma hts_get_insert_same k' e m :
  ht_nodup m -> keq k' (fst e) = true -> hget k' (fst (hins e m)) = Some e.
Proof.
  intros Hn Hk. unfold hts_insert. destruct (hget (fst e) m) as [old|] eqn:Hg; simpl.
  - unfold hts_replace.
    assert (hget k' m = Some old) as Hg'.
    { apply hts_get_some in Hg. destruct Hg as [Hin Hko]. apply hts_get_in; auto.
      apply keq_trans with (fst e); assumption. }
    destruct (hts_get_split _ _ _ Hg) as (a & b & Hl & Hfa & Hke & _ & Hu).
    rewrite Hu, hts_get_app.
    assert (hget k' a = None) as Ha.
    { apply hts_get_none. apply ht_fresh_keq with (fst e); [rewrite keq_sym; exact Hk | exact Hfa]. }
    rewrite Ha. unfold hts_get. simpl. rewrite Hk. reflexivity.
  - unfold hts_get. simpl. rewrite Hk. reflexivity.
Qed.

Lemma hts_get_insert_other k' e m :
  keq k' (fst e) = false -> hget k' (fst (hins e m)) = hget k' m.
Proof.
  intros Hk. unfold hts_insert. destruct (hget (fst e) m) as [old|] eqn:Hg; simpl.
  - unfold hts_replace.
    destruct (hts_get_split _ _ _ Hg) as (a & b & Hl & Hfa & Hke & _ & Hu).
    rewrite Hu, Hl, !hts_get_app. destruct (hget k' a); [reflexivity|].
    unfold hts_get. simpl. rewrite Hk.
    assert (keq k' (fst old) = false) as Hko.
    { destruct (keq k' (fst old)) eqn:H1; [|reflexivity].
      rewrite (keq_trans k' (fst old) (fst e) H1) in Hk; [discriminate|]. rewrite keq_sym. exact Hke. }
    rewrite Hko. reflexivity.
  - unfold hts_get. simpl. rewrite Hk. reflexivity.
Qed.

Lemma hts_get_remove_same k' k m : ht_nodup m -> keq k' k = true -> hget k' (hrem k m) = None.
Proof.
  intros Hn Hk. apply hts_get_none. destruct (hget k m) as [e|] eqn:Hg.
  - pose proof (ht_nodup_perm _ _ (hts_perm_found _ _ _ Hg) Hn) as H. simpl in H. destruct H as [H1 _].
    apply hts_get_some in Hg. destruct Hg as [_ Hke].
    apply ht_fresh_keq with (fst e); [|exact H1].
    rewrite keq_sym. apply keq_trans with k; assumption.
  - apply hts_get_none in Hg. rewrite hts_remove_fresh by assumption.
    apply ht_fresh_keq with k; [rewrite keq_sym; exact Hk | exact Hg].
Qed.

Lemma hts_get_remove_other k' k m : keq k' k = false -> hget k' (hrem k m) = hget k' m.
Proof.
  intros Hk. destruct (hget k m) as [e|] eqn:Hg.
  - destruct (hts_get_split _ _ _ Hg) as (a & b & Hl & Hfa & Hke & Hr & _).
    rewrite Hr, Hl, !hts_get_app. destruct (hget k' a); [reflexivity|].
    unfold hts_get at 2. simpl.
    assert (keq k' (fst e) = false) as Hko.
    { destruct (keq k' (fst e)) eqn:H1; [|reflexivity].
      rewrite (keq_trans k' (fst e) k H1) in Hk; [discriminate|]. rewrite keq_sym. exact Hke. }
    rewrite Hko. reflexivity.
  - apply hts_get_none in Hg. rewrite hts_remove_fresh by assumption. reflexivity.
Qed.

Lemma hts_insert_length e m :
  length (fst (hins e m)) = match hget (fst e) m with Some _ => length m | None => S (length m) end.
Proof.
  unfold hts_insert. destruct (hget (fst e) m); simpl; [apply hts_update_length | reflexivity].
Qed.

Lemma ht_nodup_insert e m : ht_nodup m -> ht_nodup (fst (hins e m)).
Proof.
  intros Hn. unfold hts_insert. destruct (hget (fst e) m) as [old|] eqn:Hg; simpl.
  - unfold hts_replace. apply (ht_nodup_perm (e :: hrem (fst e) m)).
    + apply Permutation_sym. exact (hts_update_perm_found (fst e) (fun _ => e) m old Hg).
    + simpl. split; [|apply ht_nodup_remove; exact Hn].
      apply hts_get_none. apply hts_get_remove_same; auto.
  - simpl. split; [apply hts_get_none; exact Hg | exact Hn].
Qed.

(* ---------------------------------------------------------------------------------- *)
(* bucket arrays                                                                       *)
(* ---------------------------------------------------------------------------------- *)
Notation B := (@ht_bucket K V).
Notation HT := (@ht K V).
Notation ents := (@ht_entries_of K V).
Notation hidx := (@ht_idx K hash).

(* what num_collisions counts: sum over the buckets of (length - 1) *)
Definition ht_coll_of (bs : list B) : nat :=
  list_sum (map (fun b => length (ht_nodes b) - 1) bs).

Lemma ht_entries_app (a b : list B) : ents (a ++ b) = ents a ++ ents b.
Proof. unfold ht_entries_of. rewrite map_app, concat_app. reflexivity. Qed.

Lemma ht_entries_cons (b : B) bs : ents (b :: bs) = ht_nodes b ++ ents bs.
Proof. reflexivity. Qed.

Lemma ht_entries_mid (pre : list B) b post : ents (pre ++ b :: post) = ents pre ++ ht_nodes b ++ ents post.
Proof. rewrite ht_entries_app, ht_entries_cons. reflexivity. Qed.

Lemma ht_coll_app (a b : list B) : ht_coll_of (a ++ b) = ht_coll_of a + ht_coll_of b.
Proof. unfold ht_coll_of. rewrite map_app, list_sum_app. reflexivity. Qed.

Lemma ht_coll_mid (pre : list B) b post :
  ht_coll_of (pre ++ b :: post) = ht_coll_of pre + (length (ht_nodes b) - 1) + ht_coll_of post.
Proof. rewrite ht_coll_app. unfold ht_coll_of at 2. simpl. fold (ht_coll_of post). lia. Qed.

Lemma ht_entries_repeat n : ents (repeat None n) = [].
Proof. induction n as [|n IH]; simpl; [reflexivity|]. rewrite ht_entries_cons, IH. reflexivity. Qed.

Lemma ht_coll_repeat n : ht_coll_of (repeat (None : B) n) = 0.
Proof. induction n as [|n IH]; [reflexivity|]. unfold ht_coll_of in *. simpl. exact IH. Qed.

Lemma ht_set_bucket_mid (pre : list B) b post b' :
  ht_set_bucket (pre ++ b :: post) (length pre) b' = pre ++ b' :: post.
Proof. induction pre as [|x pre IH]; simpl; [reflexivity|]. rewrite IH. reflexivity. Qed.

Lemma ht_bucket_at_ok (bs : list B) idx b : nth_error bs idx = Some b -> ht_bucket_at bs idx = Ok b.
Proof. unfold ht_bucket_at. intros H. rewrite H. reflexivity. Qed.

Lemma ht_in_entries (bs : list B) e :
  In e (ents bs) <-> exists i b, nth_error bs i = Some b /\ In e (ht_nodes b).
Proof.
  unfold ht_entries_of. rewrite in_concat. split.
  - intros (l & Hl & He). apply in_map_iff in Hl. destruct Hl as (b & Hb & Hin). subst l.
    apply In_nth_error in Hin. destruct Hin as [i Hi]. exists i, b. auto.
  - intros (i & b & Hi & He). exists (ht_nodes b). split; [|exact He].
    apply in_map. eapply nth_error_In; eauto.
Qed.

Lemma ht_array_full (bs : list B) : ht_array (length bs) bs = Ok bs.
Proof. unfold ht_array. rewrite Nat.ltb_irrefl. rewrite firstn_all. reflexivity. Qed.

(* HASH_IDX stays inside the array when size is a power of two *)
Lemma ht_idx_lt n seed k : hidx (2 ^ n) seed k < 2 ^ n.
Proof.
  unfold ht_idx.
  assert ((Z.of_nat (2 ^ n) - 1)%Z = Z.ones (Z.of_nat n)) as E.
  { rewrite Z.ones_equiv, Nat2Z.inj_pow. change (Z.of_nat 2) with 2%Z. unfold Z.pred. lia. }
  rewrite E, Z.land_ones by lia.
  assert (0 < 2 ^ Z.of_nat n)%Z as Hp by (apply Z.pow_pos_nonneg; lia).
  pose proof (Z.mod_pos_bound (hash k seed) (2 ^ Z.of_nat n) Hp) as Hb.
  apply Nat2Z.inj_lt. rewrite Z2Nat.id by lia. rewrite Nat2Z.inj_pow.
  change (Z.of_nat 2) with 2%Z. lia.
Qed.

Lemma ht_idx_keq size seed a b : keq a b = true -> hidx size seed a = hidx size seed b.
Proof. intros H. unfold ht_idx. rewrite (hash_compat a b seed H). reflexivity. Qed.

(* every entry sits in the bucket its key hashes to *)
Definition ht_placed (size : nat) (seed : Z) (bs : list B) : Prop :=
  forall i b e, nth_error bs i = Some b -> In e (ht_nodes b) -> hidx size seed (fst e) = i.

Lemma ht_placed_set size seed (pre : list B) b post b' :
  ht_placed size seed (pre ++ b :: post) ->
  (forall e, In e (ht_nodes b') -> hidx size seed (fst e) = length pre) ->
  ht_placed size seed (pre ++ b' :: post).
Proof.
  intros HP Hb i bb e Hn He. destruct (Nat.lt_ge_cases i (length pre)) as [Hlt|Hge].
  - rewrite nth_error_app1 in Hn by assumption.
    apply (HP i bb e); [rewrite nth_error_app1; assumption | assumption].
  - rewrite nth_error_app2 in Hn by assumption. destruct (i - length pre) as [|d] eqn:Hd.
    + simpl in Hn. inversion Hn; subst bb. rewrite Hb by assumption. lia.
    + simpl in Hn. apply (HP i bb e); [|exact He].
      rewrite nth_error_app2 by assumption. rewrite Hd. simpl. exact Hn.
Qed.

Lemma ht_placed_fresh size seed (pre : list B) b post k :
  ht_placed size seed (pre ++ b :: post) -> hidx size seed k = length pre ->
  ht_fresh k (ents pre) /\ ht_fresh k (ents post).
Proof.
  intros HP Hk. split; intros e He; apply ht_in_entries in He; destruct He as (j & bj & Hj & Hin);
    destruct (keq k (fst e)) eqn:Hke; try reflexivity; exfalso;
    apply (ht_idx_keq size seed) in Hke.
  - assert (j < length pre) as Hlt by (apply nth_error_Some; congruence).
    assert (hidx size seed (fst e) = j) as Hi.
    { apply (HP j bj e); [rewrite nth_error_app1; assumption | exact Hin]. }
    lia.
  - assert (hidx size seed (fst e) = length pre + S j) as Hi.
    { apply (HP _ bj e); [|exact Hin]. rewrite nth_error_app2 by lia.
      replace (length pre + S j - length pre) with (S j) by lia. simpl. exact Hj. }
    lia.
Qed.

(* ---------------------------------------------------------------------------------- *)
(* the invariant                                                                       *)
(* ---------------------------------------------------------------------------------- *)
Definition ht_entries (h : HT) : list E := ents (ht_buckets h).

Definition ht_inv (h : HT) : Prop :=
  (exists n, 4 <= n <= 24 /\ ht_size h = 2 ^ n) /\
  length (ht_buckets h) = ht_size h /\
  ht_placed (ht_size h) (ht_seed h) (ht_buckets h) /\
  ht_nodup (ht_entries h) /\
  ht_num_keys h = length (ht_entries h) /\
  ht_num_collisions h = ht_coll_of (ht_buckets h).

(* where the key k lives *)
Lemma ht_locate h k :
  ht_inv h ->
  exists pre b post,
    ht_buckets h = pre ++ b :: post /\
    length pre = hidx (ht_size h) (ht_seed h) k /\
    ht_fresh k (ents pre) /\ ht_fresh k (ents post) /\
    hget k (ht_entries h) = hget k (ht_nodes b).
Proof.
  intros (( n & Hn & Hsz) & Hlen & Hpl & _).
  pose proof (ht_idx_lt n (ht_seed h) k) as Hlt. rewrite <- Hsz in Hlt.
  destruct (nth_error (ht_buckets h) (hidx (ht_size h) (ht_seed h) k)) as [b|] eqn:Hnth.
  2:{ apply nth_error_None in Hnth. lia. }
  apply nth_error_split in Hnth. destruct Hnth as (pre & post & Hb & Hpre).
  exists pre, b, post. rewrite Hb in Hpl.
  destruct (ht_placed_fresh _ _ _ _ _ k Hpl (eq_sym Hpre)) as [Hf1 Hf2].
  repeat split; auto.
  unfold ht_entries. rewrite Hb, ht_entries_mid, !hts_get_app.
  apply hts_get_none in Hf1, Hf2. rewrite Hf1, Hf2. destruct (hget k (ht_nodes b)); reflexivity.
Qed.

Lemma ht_inv_set h (pre : list B) b post b' nk nc :
  ht_inv h -> ht_buckets h = pre ++ b :: post ->
  (forall e, In e (ht_nodes b') -> hidx (ht_size h) (ht_seed h) (fst e) = length pre) ->
  ht_nodup (ents pre ++ ht_nodes b' ++ ents post) ->
  nk = length (ents pre ++ ht_nodes b' ++ ents post) ->
  nc = ht_coll_of pre + (length (ht_nodes b') - 1) + ht_coll_of post ->
  ht_inv (mkHt (ht_seed h) (ht_size h) nk nc (pre ++ b' :: post)).
Proof.
  intros (Hsz & Hlen & Hpl & Hnd & Hnk & Hnc) Hb Hidx Hnd' Hnk' Hnc'.
  unfold ht_inv, ht_entries. simpl. repeat split.
  - exact Hsz.
  - rewrite <- Hlen, Hb, !app_length. reflexivity.
  - rewrite Hb in Hpl. eapply ht_placed_set; eauto.
  - rewrite ht_entries_mid. exact Hnd'.
  - rewrite ht_entries_mid. exact Hnk'.
  - rewrite ht_coll_mid. exact Hnc'.
Qed.

(* --- create --- *)
Lemma ht_create_inv seed : exists h, ht_create [] seed = Some h /\ ht_inv h /\ ht_entries h = [].
Proof.
  eexists. split; [reflexivity|]. unfold ht_inv, ht_entries. simpl ht_buckets. simpl ht_size.
  change (Z.to_nat ARES__HTABLE_MIN_BUCKETS) with 16.
  repeat split.
  - exists 4. split; [lia | reflexivity].
  - intros i b e Hi He. apply nth_error_In in Hi. apply (repeat_spec 16 None b) in Hi. subst b. destruct He.
Qed.

(* --- get --- *)
Lemma ht_get_spec h k : ht_inv h -> ht_get keq hash h k = Ok (hget k (ht_entries h)).
Proof.
  intros Hinv. destruct (ht_locate h k Hinv) as (pre & b & post & Hb & Hpre & _ & _ & Hg).
  unfold ht_get, ht_find. rewrite <- Hpre, Hb.
  rewrite (ht_bucket_at_ok _ _ b) by (rewrite nth_error_app2, Nat.sub_diag by lia; reflexivity).
  simpl. rewrite Hg. reflexivity.
Qed.

(* facts about the bucket of k, all at once *)
Lemma ht_inv_mid h (pre : list B) b post :
  ht_inv h -> ht_buckets h = pre ++ b :: post ->
  ht_entries h = ents pre ++ ht_nodes b ++ ents post /\
  ht_nodup (ents pre ++ ht_nodes b ++ ents post) /\
  ht_num_keys h = length (ents pre ++ ht_nodes b ++ ents post) /\
  ht_num_collisions h = ht_coll_of pre + (length (ht_nodes b) - 1) + ht_coll_of post /\
  (forall e, In e (ht_nodes b) -> hidx (ht_size h) (ht_seed h) (fst e) = length pre).
Proof.
  intros (_ & _ & Hpl & Hnd & Hnk & Hnc) Hb. unfold ht_entries in *.
  rewrite Hb in *. rewrite ht_entries_mid in *. rewrite ht_coll_mid in Hnc.
  repeat split; auto.
  intros e He. apply (Hpl (length pre) b e); [|exact He].
  rewrite nth_error_app2, Nat.sub_diag by lia. reflexivity.
Qed.

Lemma ht_nth_mid (pre : list B) b post : nth_error (pre ++ b :: post) (length pre) = Some b.
Proof. rewrite nth_error_app2, Nat.sub_diag by lia. reflexivity. Qed.

(* --- remove --- *)
Lemma ht_remove_spec h k :
  ht_inv h ->
  exists h', ht_remove keq hash h k = Ok (h', hget k (ht_entries h)) /\
             ht_inv h' /\ ht_entries h' = hrem k (ht_entries h).
Proof.
  intros Hinv. destruct (ht_locate h k Hinv) as (pre & b & post & Hb & Hpre & Hf1 & Hf2 & Hg).
  destruct (ht_inv_mid h pre b post Hinv Hb) as (He & Hnd & Hnk & Hnc & Hidx).
  unfold ht_remove, ht_find. rewrite <- Hpre, Hb.
  rewrite (ht_bucket_at_ok _ _ b) by apply ht_nth_mid. cbn [bind].
  rewrite Hg. destruct (hget k (ht_nodes b)) as [e|] eqn:Hgb.
  - (* found *)
    assert (hrem k (ht_entries h) = ents pre ++ hrem k (ht_nodes b) ++ ents post) as Hrem.
    { rewrite He. rewrite hts_remove_app_fresh by assumption.
      rewrite (hts_remove_app_found _ _ _ e Hgb). reflexivity. }
    pose proof (hts_remove_length k (ht_nodes b) e Hgb) as Hlen.
    assert (In e (ht_nodes b)) as Hin by (apply hts_get_some in Hgb; tauto).
    rewrite ht_set_bucket_mid.
    destruct (ht_num_keys h) as [|nk] eqn:Hnkh.
    { exfalso. rewrite !app_length in Hnk. destruct (ht_nodes b); [destruct Hin | simpl in Hnk; lia]. }
    cbn [bind].
    destruct (Nat.ltb_spec 1 (length (ht_nodes b))) as [Hl|Hl].
    + destruct (ht_num_collisions h) as [|c] eqn:Hch; [exfalso; lia|].
      cbn [bind]. eexists. split; [reflexivity|]. split.
      * apply (ht_inv_set h pre b post (Some (hrem k (ht_nodes b)))); auto.
        -- intros x Hx. apply Hidx. simpl in Hx. eapply hts_remove_in; eauto.
        -- simpl ht_nodes. rewrite <- Hrem. apply ht_nodup_remove; auto. rewrite He. exact Hnd.
        -- simpl ht_nodes. rewrite !app_length in *. lia.
        -- simpl ht_nodes. lia.
      * unfold ht_entries. simpl ht_buckets. rewrite ht_entries_mid. simpl ht_nodes. symmetry. exact Hrem.
    + cbn [bind]. eexists. split; [reflexivity|]. split.
      * apply (ht_inv_set h pre b post (Some (hrem k (ht_nodes b)))); auto.
        -- intros x Hx. apply Hidx. simpl in Hx. eapply hts_remove_in; eauto.
        -- simpl ht_nodes. rewrite <- Hrem. apply ht_nodup_remove; auto. rewrite He. exact Hnd.
        -- simpl ht_nodes. rewrite !app_length in *. lia.
        -- simpl ht_nodes. lia.
      * unfold ht_entries. simpl ht_buckets. rewrite ht_entries_mid. simpl ht_nodes. symmetry. exact Hrem.
  - exists h. split; [reflexivity|]. split; [exact Hinv|].
    rewrite hts_remove_fresh; [reflexivity|]. apply hts_get_none. exact Hg.
Qed.

(* --- in-place update of the entry of k (node replace, bucket->val = NULL) --- *)
Lemma ht_update_spec h k f :
  ht_inv h -> (forall x, keq k (fst x) = true -> keq (fst (f x)) (fst x) = true) ->
  let idx := hidx (ht_size h) (ht_seed h) k in
  exists b, ht_bucket_at (ht_buckets h) idx = Ok b /\
    hget k (ht_entries h) = hget k (ht_nodes b) /\
    let h' := ht_with_buckets h (ht_set_bucket (ht_buckets h) idx
                (match b with None => None | Some l => Some (hupd k f l) end)) in
    ht_inv h' /\ ht_entries h' = hupd k f (ht_entries h).
Proof.
  intros Hinv Hf idx. subst idx.
  destruct (ht_locate h k Hinv) as (pre & b & post & Hb & Hpre & Hf1 & Hf2 & Hg).
  destruct (ht_inv_mid h pre b post Hinv Hb) as (He & Hnd & Hnk & Hnc & Hidx).
  exists b. rewrite <- Hpre. split; [rewrite Hb; apply ht_bucket_at_ok, ht_nth_mid|].
  split; [exact Hg|].
  cbn zeta. match goal with |- context [ht_set_bucket _ _ ?x] => set (b' := x) end.
  assert (ht_nodes b' = hupd k f (ht_nodes b)) as Hb' by (destruct b; reflexivity).
  assert (hupd k f (ht_entries h) = ents pre ++ hupd k f (ht_nodes b) ++ ents post) as Hupd.
  { rewrite He. rewrite hts_update_app_fresh by assumption.
    destruct (hget k (ht_nodes b)) as [e|] eqn:Hgb.
    - rewrite (hts_update_app_found _ _ _ _ e Hgb). reflexivity.
    - apply hts_get_none in Hgb. rewrite hts_update_app_fresh by assumption.
      rewrite (hts_update_fresh _ _ _ Hgb), (hts_update_fresh _ _ _ Hf2). reflexivity. }
  assert (ht_set_bucket (ht_buckets h) (length pre) b' = pre ++ b' :: post) as Hset
    by (rewrite Hb; apply ht_set_bucket_mid).
  rewrite Hset. unfold ht_with_buckets. split.
  - apply (ht_inv_set h pre b post b'); auto.
    + intros x Hx. rewrite Hb' in Hx. apply hts_update_in in Hx.
      destruct Hx as [Hx|(old & Hold & Hko & Hx)]; [apply Hidx; exact Hx|].
      subst x. rewrite <- (Hidx old Hold). apply ht_idx_keq. apply Hf. exact Hko.
    + rewrite Hb', <- Hupd. apply ht_nodup_update; auto. rewrite He. exact Hnd.
    + rewrite Hb'. rewrite !app_length in *. rewrite hts_update_length. exact Hnk.
    + rewrite Hb', hts_update_length. exact Hnc.
  - unfold ht_entries at 1. simpl ht_buckets. rewrite ht_entries_mid, Hb'. symmetry. exact Hupd.
Qed.

(* --- the tail of insert: new key, no (more) growth --- *)
Lemma ht_ins_ok_state h (pre : list B) b post e :
  ht_inv h -> ht_buckets h = pre ++ b :: post ->
  hget (fst e) (ht_entries h) = None ->
  length pre = hidx (ht_size h) (ht_seed h) (fst e) ->
  let h' := mkHt (ht_seed h) (ht_size h) (S (ht_num_keys h))
                 (if Nat.ltb 1 (length (e :: ht_nodes b)) then S (ht_num_collisions h)
                  else ht_num_collisions h)
                 (pre ++ Some (e :: ht_nodes b) :: post) in
  ht_inv h' /\ Permutation (ht_entries h') (e :: ht_entries h).
Proof.
  intros Hinv Hb Hnone Hpre.
  destruct (ht_inv_mid h pre b post Hinv Hb) as (He & Hnd & Hnk & Hnc & Hidx).
  assert (Permutation (ents pre ++ (e :: ht_nodes b) ++ ents post) (e :: ht_entries h)) as HP.
  { rewrite He. simpl. apply Permutation_sym, Permutation_middle. }
  cbn zeta. split.
  - apply (ht_inv_set h pre b post (Some (e :: ht_nodes b))); auto.
    + intros x [Hx|Hx]; [subst x; symmetry; exact Hpre | apply Hidx; exact Hx].
    + change (ht_nodes (Some (e :: ht_nodes b))) with (e :: ht_nodes b). apply (ht_nodup_perm (e :: ht_entries h)); [apply Permutation_sym; exact HP|].
      simpl. split; [apply hts_get_none; exact Hnone | rewrite He; exact Hnd].
    + etransitivity; [|symmetry; apply (Permutation_length HP)]. simpl. f_equal. rewrite He. exact Hnk.
    + change (ht_nodes (Some (e :: ht_nodes b))) with (e :: ht_nodes b). revert Hnc. destruct (ht_nodes b); simpl; intros; lia.
  - unfold ht_entries at 1. cbn [ht_buckets]. rewrite ht_entries_mid. exact HP.
Qed.

Lemma ht_ins_fail_state h (pre : list B) b post :
  ht_inv h -> ht_buckets h = pre ++ b :: post ->
  let h' := ht_with_buckets h (pre ++ Some (ht_nodes b) :: post) in
  ht_inv h' /\ ht_entries h' = ht_entries h.
Proof.
  intros Hinv Hb.
  destruct (ht_inv_mid h pre b post Hinv Hb) as (He & Hnd & Hnk & Hnc & Hidx).
  cbn zeta. unfold ht_with_buckets. split.
  - apply (ht_inv_set h pre b post (Some (ht_nodes b))); auto.
  - unfold ht_entries at 1. cbn [ht_buckets]. rewrite ht_entries_mid. symmetry. exact He.
Qed.

Lemma ht_insert_at_spec o h e :
  ht_inv h -> hget (fst e) (ht_entries h) = None ->
  exists h' r, ht_insert_at o h (hidx (ht_size h) (ht_seed h) (fst e)) e = Ok (h', r) /\
    ht_inv h' /\ ht_size h' = ht_size h /\
    ((r = HtInserted /\ Permutation (ht_entries h') (e :: ht_entries h)) \/
     (r = HtFailed /\ ht_entries h' = ht_entries h /\ In false o)).
Proof.
  intros Hinv Hnone.
  destruct (ht_locate h (fst e) Hinv) as (pre & b & post & Hb & Hpre & _).
  assert (forall b', ht_set_bucket (ht_buckets h) (length pre) b' = pre ++ b' :: post) as Hset
    by (intros b'; rewrite Hb; apply ht_set_bucket_mid).
  pose proof (ht_ins_ok_state h pre b post e Hinv Hb Hnone Hpre) as Hok. cbn zeta in Hok.
  pose proof (ht_ins_fail_state h pre b post Hinv Hb) as Hfail. cbn zeta in Hfail.
  unfold ht_insert_at. rewrite <- Hpre.
  rewrite (ht_bucket_at_ok _ _ b) by (rewrite Hb; apply ht_nth_mid). cbn [bind].
  destruct b as [l|].
  - destruct (ht_alloc o) as [ok3 o3] eqn:Ha. destruct ok3; cbn [negb].
    + rewrite Hset. eexists _, _. split; [reflexivity|]. split; [apply Hok|]. split; [reflexivity|].
      left. split; [reflexivity | apply Hok].
    + rewrite Hset. eexists _, _. split; [reflexivity|]. split; [apply Hfail|]. split; [reflexivity|].
      right. split; [reflexivity|]. split; [apply Hfail | apply ht_alloc_false in Ha; tauto].
  - destruct (ht_alloc o) as [ok2 o2] eqn:Ha2. destruct ok2; cbn [negb].
    + destruct (ht_alloc o2) as [ok3 o3] eqn:Ha. destruct ok3; cbn [negb].
      * rewrite Hset. eexists _, _. split; [reflexivity|]. split; [apply Hok|]. split; [reflexivity|].
        left. split; [reflexivity | apply Hok].
      * rewrite Hset. eexists _, _. split; [reflexivity|]. split; [apply Hfail|]. split; [reflexivity|].
        right. split; [reflexivity|]. split; [apply Hfail|].
        apply ht_alloc_false in Ha. eapply ht_alloc_incl; [exact Ha2 | tauto].
    + exists h, HtFailed. split; [reflexivity|]. split; [exact Hinv|]. split; [reflexivity|].
      right. split; [reflexivity|]. split; [reflexivity | apply ht_alloc_false in Ha2; tauto].
Qed.

(* ---------------------------------------------------------------------------------- *)
(* ares_htable_expand                                                                  *)
(* ---------------------------------------------------------------------------------- *)
(* the new bucket array while it is being filled *)
Definition ht_acc_ok (size2 : nat) (seed : Z) (nb : list B) (coll : nat) : Prop :=
  length nb = size2 /\ ht_placed size2 seed nb /\ coll = ht_coll_of nb /\
  (forall i l, nth_error nb i = Some (Some l) -> l <> []).

Lemma ht_acc_ok_repeat size2 seed : ht_acc_ok size2 seed (repeat None size2) 0.
Proof.
  unfold ht_acc_ok. rewrite repeat_length, ht_coll_repeat. repeat split.
  - intros i b e Hi He. apply nth_error_In, repeat_spec in Hi. subst b. destruct He.
  - intros i l Hi. apply nth_error_In, repeat_spec in Hi. discriminate.
Qed.

Lemma ht_nonempty_set (pre : list B) b post l :
  (forall i l0, nth_error (pre ++ b :: post) i = Some (Some l0) -> l0 <> []) -> l <> [] ->
  forall i l0, nth_error (pre ++ Some l :: post) i = Some (Some l0) -> l0 <> [].
Proof.
  intros H Hl i l0 Hi. destruct (Nat.lt_ge_cases i (length pre)) as [Hlt|Hge].
  - rewrite nth_error_app1 in Hi by assumption. apply (H i). rewrite nth_error_app1; assumption.
  - rewrite nth_error_app2 in Hi by assumption. destruct (i - length pre) as [|d] eqn:Hd.
    + simpl in Hi. inversion Hi; subst. exact Hl.
    + simpl in Hi. apply (H i). rewrite nth_error_app2 by assumption. rewrite Hd. exact Hi.
Qed.

(* putting one entry into the new array *)
Lemma ht_acc_ok_put size2 seed (pre : list B) b post coll e :
  ht_acc_ok size2 seed (pre ++ b :: post) coll ->
  hidx size2 seed (fst e) = length pre ->
  ht_acc_ok size2 seed (pre ++ Some (e :: ht_nodes b) :: post)
            (match b with None => coll | Some _ => S coll end) /\
  Permutation (ents (pre ++ Some (e :: ht_nodes b) :: post)) (e :: ents (pre ++ b :: post)).
Proof.
  intros (Hlen & Hpl & Hc & Hne) Hidx. split.
  - unfold ht_acc_ok. repeat split.
    + rewrite <- Hlen, !app_length. reflexivity.
    + eapply ht_placed_set; [exact Hpl|]. intros x [Hx|Hx]; [subst x; exact Hidx|].
      rewrite <- Hidx. rewrite Hidx. apply (Hpl (length pre) b x); [apply ht_nth_mid | exact Hx].
    + rewrite ht_coll_mid in *. change (ht_nodes (Some (e :: ht_nodes b))) with (e :: ht_nodes b).
      destruct b as [l|]; simpl.
      * assert (l <> []) as Hl by (apply (Hne (length pre)); apply ht_nth_mid).
        destruct l; [congruence|]. simpl in *. lia.
      * simpl in Hc. lia.
    + eapply ht_nonempty_set; [exact Hne | discriminate].
  - rewrite !ht_entries_mid. change (ht_nodes (Some (e :: ht_nodes b))) with (e :: ht_nodes b).
    simpl. apply Permutation_sym, Permutation_middle.
Qed.

Lemma ht_move_nodes_ok n seed : forall (l : list E) (nb : list B) pool coll,
  ht_acc_ok (2 ^ n) seed nb coll -> length l - 1 <= pool ->
  exists nb' pool' coll',
    ht_move_nodes hash (2 ^ n) seed l nb pool coll = Ok (nb', pool', coll') /\
    ht_acc_ok (2 ^ n) seed nb' coll' /\ pool <= pool' + (length l - 1) /\
    Permutation (ents nb') (l ++ ents nb).
Proof.
  induction l as [|e rest IH]; intros nb pool coll Hacc Hpool.
  - exists nb, pool, coll. simpl. split; [reflexivity|]. split; [exact Hacc|]. split; [lia | apply Permutation_refl].
  - assert (length nb = 2 ^ n) as Hlen by apply Hacc.
    assert (hidx (2 ^ n) seed (fst e) < length nb) as Hlt by (rewrite Hlen; apply ht_idx_lt).
    destruct (nth_error nb (hidx (2 ^ n) seed (fst e))) as [b|] eqn:Hnth.
    2:{ apply nth_error_None in Hnth. lia. }
    pose proof Hnth as Hsplit. apply nth_error_split in Hsplit.
    destruct Hsplit as (pre & post & Hnb & Hpre). subst nb.
    destruct (ht_acc_ok_put _ _ _ _ _ _ e Hacc (eq_sym Hpre)) as [Hacc' HP'].
    cbn [ht_move_nodes]. rewrite (ht_bucket_at_ok _ _ b Hnth). cbn [bind].
    rewrite <- Hpre.
    destruct b as [nl|].
    + (* collision *)
      rewrite ht_set_bucket_mid. cbn [ht_nodes] in Hacc', HP'.
      destruct (IH _ pool (S coll) Hacc') as (nb' & pool' & coll' & Hrun & Hacc'' & Hp & HP); [simpl in *; lia|].
      exists nb', pool', coll'. split; [exact Hrun|]. split; [exact Hacc''|]. split; [simpl in *; lia|].
      eapply Permutation_trans; [exact HP|]. simpl.
      eapply Permutation_trans; [apply Permutation_app_head; exact HP'|].
      apply Permutation_sym, Permutation_middle.
    + cbn [ht_nodes] in Hacc', HP'. destruct rest as [|r0 rest'].
      * rewrite ht_set_bucket_mid.
        exists (pre ++ Some [e] :: post), pool, coll. split; [reflexivity|]. split; [exact Hacc'|].
        split; [simpl; lia|]. simpl. exact HP'.
      * destruct pool as [|p]; [simpl in Hpool; lia|]. rewrite ht_set_bucket_mid.
        destruct (IH _ p coll Hacc') as (nb' & pool' & coll' & Hrun & Hacc'' & Hp & HP); [simpl in *; lia|].
        exists nb', pool', coll'. split; [exact Hrun|]. split; [exact Hacc''|]. split; [simpl in *; lia|].
        eapply Permutation_trans; [exact HP|].
        eapply Permutation_trans; [apply Permutation_app_head; exact HP'|].
        apply Permutation_sym. apply (Permutation_middle (r0 :: rest') _ e).
Qed.

Lemma ht_move_bucket_ok n seed (b : B) (nb : list B) pool coll :
  ht_acc_ok (2 ^ n) seed nb coll -> length (ht_nodes b) - 1 <= pool ->
  exists nb' pool' coll',
    ht_move_bucket hash (2 ^ n) seed b nb pool coll = Ok (nb', pool', coll') /\
    ht_acc_ok (2 ^ n) seed nb' coll' /\ pool <= pool' + (length (ht_nodes b) - 1) /\
    Permutation (ents nb') (ht_nodes b ++ ents nb).
Proof.
  intros Hacc Hpool. destruct b as [l|].
  2:{ exists nb, pool, coll. simpl. split; [reflexivity|]. split; [exact Hacc|]. split; [lia | apply Permutation_refl]. }
  pose proof (ht_move_nodes_ok n seed l nb pool coll Hacc Hpool) as Hslow.
  unfold ht_move_bucket. destruct l as [|e [|e2 rest]]; cbn [bind]; try exact Hslow.
  (* single entry: the fast path does what the first round of the loop would do *)
  assert (length nb = 2 ^ n) as Hlen by apply Hacc.
  assert (hidx (2 ^ n) seed (fst e) < length nb) as Hlt by (rewrite Hlen; apply ht_idx_lt).
  destruct (nth_error nb (hidx (2 ^ n) seed (fst e))) as [d|] eqn:Hnth.
  2:{ apply nth_error_None in Hnth. lia. }
  rewrite (ht_bucket_at_ok _ _ d Hnth). cbn [bind].
  destruct d as [dl|]; cbn [bind]; [exact Hslow|].
  cbn [ht_move_nodes] in Hslow. rewrite (ht_bucket_at_ok _ _ None Hnth) in Hslow. cbn [bind] in Hslow.
  exact Hslow.
Qed.

Lemma ht_rehash_ok n seed : forall (bs nb : list B) pool coll,
  ht_acc_ok (2 ^ n) seed nb coll -> ht_coll_of bs <= pool ->
  exists nb' pool' coll',
    ht_rehash hash (2 ^ n) seed bs nb pool coll = Ok (nb', pool', coll') /\
    ht_acc_ok (2 ^ n) seed nb' coll' /\ Permutation (ents nb') (ents bs ++ ents nb).
Proof.
  induction bs as [|b r IH]; intros nb pool coll Hacc Hpool.
  - exists nb, pool, coll. simpl. split; [reflexivity|]. split; [exact Hacc | apply Permutation_refl].
  - unfold ht_coll_of in Hpool. simpl in Hpool. fold (ht_coll_of r) in Hpool.
    destruct (ht_move_bucket_ok n seed b nb pool coll Hacc) as (nb1 & p1 & c1 & Hrun & Hacc1 & Hp1 & HP1); [lia|].
    destruct (IH nb1 p1 c1 Hacc1) as (nb' & pool' & coll' & Hrun' & Hacc' & HP'); [lia|].
    exists nb', pool', coll'. cbn [ht_rehash]. rewrite Hrun. cbn [bind fst snd]. rewrite Hrun'.
    split; [reflexivity|]. split; [exact Hacc'|].
    eapply Permutation_trans; [exact HP'|]. rewrite ht_entries_cons.
    eapply Permutation_trans; [apply Permutation_app_head; exact HP1|].
    rewrite !app_assoc. apply Permutation_app_tail. apply Permutation_app_comm.
Qed.

(* the pool of pre-allocated lists always suffices: the branch ares_htable_expand calls
   impossible is unreachable whenever the pool holds at least sum (len - 1) lists *)
Lemma ht_rehash_pool_suffices n seed (bs nb : list B) pool coll :
  ht_acc_ok (2 ^ n) seed nb coll -> ht_coll_of bs <= pool ->
  ht_rehash hash (2 ^ n) seed bs nb pool coll <> Err HT_POOL_EXHAUSTED.
Proof.
  intros Hacc Hpool. destruct (ht_rehash_ok n seed bs nb pool coll Hacc Hpool) as (? & ? & ? & H & _).
  rewrite H. discriminate.
Qed.

Lemma ht_size2_eq n : n < 24 -> Z.to_nat ((Z.of_nat (2 ^ n) * 2) mod 2 ^ 32)%Z = 2 ^ S n.
Proof.
  intros Hn.
  assert ((Z.of_nat (2 ^ n) * 2)%Z = Z.of_nat (2 ^ S n)) as E by (rewrite Nat.pow_succ_r'; lia).
  rewrite E, Z.mod_small; [apply Nat2Z.id|]. split; [lia|].
  rewrite Nat2Z.inj_pow. change (Z.of_nat 2) with 2%Z. apply Z.pow_lt_mono_r; lia.
Qed.

Lemma ht_size_not_max n :
  n <= 24 -> Z.eqb (Z.of_nat (2 ^ n)) ARES__HTABLE_MAX_BUCKETS = false -> n < 24.
Proof.
  intros Hn H. destruct (Nat.eq_dec n 24) as [->|Hne]; [|lia]. exfalso.
  rewrite Nat2Z.inj_pow in H. vm_compute in H. discriminate.
Qed.

Lemma ht_expand_spec o h :
  ht_inv h ->
  exists h' ok o', ht_expand hash o h = Ok (h', ok, o') /\
    (forall x, In x o' -> In x o) /\
    (ok = false -> h' = h /\ In false o) /\
    (ok = true -> ht_inv h' /\ Permutation (ht_entries h') (ht_entries h)).
Proof.
  intros Hinv. pose proof Hinv as ((n & Hn & Hsz) & Hlen & Hpl & Hnd & Hnk & Hnc).
  unfold ht_expand. rewrite Hsz.
  destruct (Z.eqb (Z.of_nat (2 ^ n)) ARES__HTABLE_MAX_BUCKETS) eqn:Hmax.
  { exists h, true, o. split; [reflexivity|]. split; [auto|]. split; [discriminate|].
    intros _. split; [exact Hinv | apply Permutation_refl]. }
  assert (n < 24) as Hn24 by (apply ht_size_not_max; [lia | exact Hmax]).
  rewrite ht_size2_eq by exact Hn24.
  destruct (ht_alloc o) as [ok1 o1] eqn:Ha1. destruct ok1; cbn [negb].
  2:{ exists h, false, o1. split; [reflexivity|]. split; [eapply ht_alloc_incl; eauto|].
      split; [|discriminate]. intros _. split; [reflexivity | apply ht_alloc_false in Ha1; tauto]. }
  destruct (if Nat.eqb (ht_num_collisions h) 0 then (true, o1) else ht_alloc o1) as [ok2 o2] eqn:Ha2.
  assert (forall x, In x o2 -> In x o1) as Hin2.
  { destruct (Nat.eqb (ht_num_collisions h) 0); [inversion Ha2; subst; auto | eapply ht_alloc_incl; eauto]. }
  destruct ok2; cbn [negb].
  2:{ exists h, false, o2. split; [reflexivity|].
      split; [intros x Hx; eapply ht_alloc_incl; [exact Ha1 | auto]|].
      split; [|discriminate]. intros _. split; [reflexivity|].
      destruct (Nat.eqb (ht_num_collisions h) 0); [inversion Ha2|].
      apply ht_alloc_false in Ha2. eapply ht_alloc_incl; [exact Ha1 | tauto]. }
  destruct (ht_alloc_n (ht_num_collisions h) o2) as [ok3 o3] eqn:Ha3.
  assert (forall x, In x o3 -> In x o) as Hin3.
  { intros x Hx. eapply ht_alloc_incl; [exact Ha1|]. apply Hin2. eapply ht_alloc_n_incl; eauto. }
  destruct ok3; cbn [negb].
  2:{ exists h, false, o3. split; [reflexivity|]. split; [exact Hin3|].
      split; [|discriminate]. intros _. split; [reflexivity|].
      eapply ht_alloc_incl; [exact Ha1|]. apply Hin2. eapply ht_alloc_n_false; eauto. }
  assert (ht_array (2 ^ n) (ht_buckets h) = Ok (ht_buckets h)) as Harr
    by (rewrite <- Hsz, <- Hlen; apply ht_array_full).
  rewrite Harr. cbn [bind].
  destruct (ht_rehash_ok (S n) (ht_seed h) (ht_buckets h) (repeat None (2 ^ S n))
              (ht_num_collisions h) 0 (ht_acc_ok_repeat _ _)) as (nb' & pool' & coll' & Hrun & Hacc & HP);
    [lia|].
  rewrite Hrun. cbn [bind fst snd].
  eexists _, true, o3. split; [reflexivity|]. split; [exact Hin3|]. split; [discriminate|]. intros _.
  rewrite ht_entries_repeat, app_nil_r in HP.
  destruct Hacc as (Hl' & Hpl' & Hc' & _).
  split; [|exact HP].
  unfold ht_inv, ht_entries. cbn [ht_size ht_buckets ht_seed ht_num_keys ht_num_collisions].
  repeat split; auto.
  - exists (S n). split; [lia | reflexivity].
  - eapply ht_nodup_perm; [apply Permutation_sym; exact HP | exact Hnd].
  - rewrite (Permutation_length HP). exact Hnk.
Qed.

(* ---------------------------------------------------------------------------------- *)
(* insert, all_buckets, destroy                                                        *)
(* ---------------------------------------------------------------------------------- *)
Lemma ht_insert_spec o h e :
  ht_inv h ->
  exists h' r, ht_insert keq hash o h e = Ok (h', r) /\ ht_inv h' /\
    match r with
    | HtReplaced old => hget (fst e) (ht_entries h) = Some old /\
                        ht_entries h' = hrepl e (ht_entries h) /\ ht_size h' = ht_size h
    | HtInserted => hget (fst e) (ht_entries h) = None /\
                    Permutation (ht_entries h') (e :: ht_entries h)
    | HtFailed => hget (fst e) (ht_entries h) = None /\
                  Permutation (ht_entries h') (ht_entries h) /\ In false o
    end.
Proof.
  intros Hinv.
  destruct (ht_update_spec h (fst e) (fun _ => e) Hinv) as (b & Hat & Hg & Hinv' & Hents).
  { intros x Hx. exact Hx. }
  unfold ht_insert, ht_find. rewrite Hat. cbn [bind]. rewrite <- Hg.
  destruct (hget (fst e) (ht_entries h)) as [old|] eqn:Hget.
  - cbn [bind]. destruct b as [l|]; [|discriminate].
    eexists _, _. split; [reflexivity|]. split; [exact Hinv'|].
    split; [reflexivity|]. split; [exact Hents | reflexivity].
  - destruct (ht_should_expand h).
    + destruct (ht_expand_spec o h Hinv) as (h1 & ok & o1 & Hex & Hin & Hf & Ht).
      rewrite Hex. cbn [bind]. destruct ok; cbn [negb].
      * destruct (Ht eq_refl) as [Hinv1 HP1].
        assert (hget (fst e) (ht_entries h1) = None) as Hget1.
        { rewrite (hts_get_perm (fst e) _ _ (proj1 (proj2 (proj2 (proj2 Hinv1)))) HP1). exact Hget. }
        destruct (ht_insert_at_spec o1 h1 e Hinv1 Hget1) as (h' & r & Hrun & Hinv2 & _ & Hcase).
        rewrite Hrun. exists h', r. split; [reflexivity|]. split; [exact Hinv2|].
        destruct Hcase as [[-> HP]|[-> [HE Hfalse]]].
        -- split; [reflexivity|]. eapply Permutation_trans; [exact HP|]. apply perm_skip. exact HP1.
        -- split; [reflexivity|]. split; [rewrite HE; exact HP1 | apply Hin; exact Hfalse].
      * destruct (Hf eq_refl) as [-> Hfalse]. exists h, HtFailed. split; [reflexivity|].
        split; [exact Hinv|]. split; [reflexivity|]. split; [apply Permutation_refl | exact Hfalse].
    + destruct (ht_insert_at_spec o h e Hinv Hget) as (h' & r & Hrun & Hinv2 & _ & Hcase).
      rewrite Hrun. exists h', r. split; [reflexivity|]. split; [exact Hinv2|].
      destruct Hcase as [[-> HP]|[-> [HE Hfalse]]].
      * split; [reflexivity | exact HP].
      * split; [reflexivity|]. split; [rewrite HE; apply Permutation_refl | exact Hfalse].
Qed.

Lemma ht_array_inv h : ht_inv h -> ht_array (ht_size h) (ht_buckets h) = Ok (ht_buckets h).
Proof. intros (_ & Hlen & _). rewrite <- Hlen. apply ht_array_full. Qed.

Lemma ht_all_buckets_spec ok h :
  ht_inv h ->
  ht_all_buckets ok h =
  Ok (if Nat.eqb (length (ht_entries h)) 0 || negb ok then None else Some (ht_entries h)).
Proof.
  intros Hinv. pose proof Hinv as (_ & _ & _ & _ & Hnk & _).
  unfold ht_all_buckets. rewrite Hnk. destruct (Nat.eqb (length (ht_entries h)) 0); [reflexivity|].
  destruct ok; [|reflexivity]. cbn [negb orb]. rewrite (ht_array_inv h Hinv). cbn [bind].
  fold (ht_entries h). rewrite Nat.ltb_irrefl. reflexivity.
Qed.

Lemma ht_destroy_spec h : ht_inv h -> ht_destroy h = Ok (ht_entries h).
Proof. intros Hinv. unfold ht_destroy. rewrite (ht_array_inv h Hinv). reflexivity. Qed.

Lemma ht_set_val_spec h k v :
  ht_inv h ->
  exists h', ht_set_val keq hash h k v = Ok h' /\ ht_inv h' /\
             ht_entries h' = hupd k (fun x => (fst x, v)) (ht_entries h).
Proof.
  intros Hinv.
  destruct (ht_update_spec h k (fun x => (fst x, v)) Hinv) as (b & Hat & Hg & Hinv' & Hents).
  { intros x _. apply keq_refl. }
  unfold ht_set_val. rewrite Hat. cbn [bind]. eexists. split; [reflexivity|]. split; assumption.
Qed.

(* ---------------------------------------------------------------------------------- *)
(* headline facts about single operations (all hold across growth)                     *)
(* ---------------------------------------------------------------------------------- *)
Lemma ht_inv_nodup h : ht_inv h -> ht_nodup (ht_entries h).
Proof. intros (_ & _ & _ & H & _). exact H. Qed.

Lemma ht_insert_refines o h e h' r :
  ht_inv h -> ht_insert keq hash o h e = Ok (h', r) -> r <> HtFailed ->
  ht_inv h' /\ Permutation (ht_entries h') (fst (hins e (ht_entries h))) /\
  r = match snd (hins e (ht_entries h)) with Some old => HtReplaced old | None => HtInserted end.
Proof.
  intros Hinv Hrun Hr. destruct (ht_insert_spec o h e Hinv) as (h2 & r2 & Hrun2 & Hinv2 & Hcase).
  rewrite Hrun in Hrun2. inversion Hrun2; subst h2 r2. split; [exact Hinv2|].
  unfold hts_insert. destruct r as [|old|]; [| |congruence].
  - destruct Hcase as [Hg HP]. rewrite Hg. simpl. auto.
  - destruct Hcase as (Hg & HE & _). rewrite Hg. simpl. rewrite HE. split; [apply Permutation_refl | reflexivity].
Qed.

(* get after insert returns the latest value; other keys are unaffected *)
Lemma ht_get_after_insert o h k v h' r k' :
  ht_inv h -> ht_insert keq hash o h (k, v) = Ok (h', r) -> r <> HtFailed ->
  ht_get keq hash h' k' = if keq k' k then Ok (Some (k, v)) else ht_get keq hash h k'.
Proof.
  intros Hinv Hrun Hr. destruct (ht_insert_refines o h (k, v) h' r Hinv Hrun Hr) as (Hinv' & HP & _).
  rewrite (ht_get_spec h' k' Hinv'), (ht_get_spec h k' Hinv).
  rewrite (hts_get_perm k' _ _ (ht_inv_nodup h' Hinv') HP).
  destruct (keq k' k) eqn:Hk.
  - rewrite hts_get_insert_same; auto using ht_inv_nodup.
  - rewrite hts_get_insert_other; auto.
Qed.

(* insert of an existing key keeps the count, a new key adds one *)
Lemma ht_num_keys_after_insert o h e h' r :
  ht_inv h -> ht_insert keq hash o h e = Ok (h', r) -> r <> HtFailed ->
  ht_num_keys h' = match hget (fst e) (ht_entries h) with
                   | Some _ => ht_num_keys h
                   | None => S (ht_num_keys h)
                   end.
Proof.
  intros Hinv Hrun Hr. destruct (ht_insert_refines o h e h' r Hinv Hrun Hr) as (Hinv' & HP & _).
  destruct Hinv' as (_ & _ & _ & _ & Hnk' & _). pose proof Hinv as (_ & _ & _ & _ & Hnk & _).
  rewrite Hnk', (Permutation_length HP), hts_insert_length, Hnk. reflexivity.
Qed.

Lemma ht_get_after_remove h k h' r k' :
  ht_inv h -> ht_remove keq hash h k = Ok (h', r) ->
  ht_inv h' /\ r = hget k (ht_entries h) /\
  ht_get keq hash h' k' = (if keq k' k then Ok None else ht_get keq hash h k') /\
  ht_num_keys h' = match r with Some _ => ht_num_keys h - 1 | None => ht_num_keys h end.
Proof.
  intros Hinv Hrun. destruct (ht_remove_spec h k Hinv) as (h2 & Hrun2 & Hinv2 & HE).
  rewrite Hrun in Hrun2. inversion Hrun2; subst h2 r. split; [exact Hinv2|]. split; [reflexivity|].
  rewrite (ht_get_spec h' k' Hinv2), (ht_get_spec h k' Hinv), HE. split.
  - destruct (keq k' k) eqn:Hk.
    + rewrite hts_get_remove_same; auto using ht_inv_nodup.
    + rewrite hts_get_remove_other; auto.
  - destruct Hinv2 as (_ & _ & _ & _ & Hnk' & _). pose proof Hinv as (_ & _ & _ & _ & Hnk & _).
    rewrite Hnk', HE, Hnk. destruct (hget k (ht_entries h)) as [e|] eqn:Hg.
    + pose proof (hts_remove_length k _ e Hg). lia.
    + apply hts_get_none in Hg. rewrite hts_remove_fresh by assumption. reflexivity.
Qed.

(* iteration = the map's bindings, no key twice, as many as num_keys *)
Lemma ht_all_buckets_bindings h l :
  ht_inv h -> ht_all_buckets true h = Ok (Some l) ->
  l = ht_entries h /\ ht_nodup l /\ length l = ht_num_keys h /\
  (forall k, ht_get keq hash h k = Ok (hget k l)).
Proof.
  intros Hinv Hrun. rewrite (ht_all_buckets_spec true h Hinv) in Hrun.
  destruct (Nat.eqb (length (ht_entries h)) 0 || negb true); inversion Hrun; subst l.
  split; [reflexivity|]. split; [apply ht_inv_nodup; exact Hinv|].
  split; [destruct Hinv as (_ & _ & _ & _ & Hnk & _); symmetry; exact Hnk|].
  intros k. apply ht_get_spec. exact Hinv.
Qed.

(* --- allocation failures --- *)
Lemma ht_alloc_n_firstn_false n : forall o, In false (firstn n o) -> exists o', ht_alloc_n n o = (false, o').
Proof.
  induction n as [|n IH]; intros o H; [destruct H|].
  destruct o as [|b o0]; [destruct H|]. simpl in H. simpl. destruct b.
  - destruct H as [H|H]; [discriminate | apply IH; exact H].
  - eexists. reflexivity.
Qed.

(* growth is all-or-nothing: if any of the requests the expand makes is refused the table is
   left exactly as it was (every allocation precedes the first move) *)
Lemma ht_expand_alloc_fail_atomic o (h : HT) :
  In false (firstn (ht_expand_requests h) o) -> exists o', ht_expand hash o h = Ok (h, false, o').
Proof.
  unfold ht_expand_requests, ht_expand.
  destruct (Z.eqb (Z.of_nat (ht_size h)) ARES__HTABLE_MAX_BUCKETS); [intros []|].
  destruct o as [|b1 o1]; [intros []|]. cbn [firstn Nat.add ht_alloc].
  intros [H|H]; [subst b1; eexists; reflexivity|].
  destruct b1; [|eexists; reflexivity]. cbn [negb].
  destruct (Nat.eqb (ht_num_collisions h) 0) eqn:Hc.
  - apply Nat.eqb_eq in Hc. rewrite Hc in H. destruct H.
  - destruct o1 as [|b2 o2]; [destruct H|]. cbn [firstn Nat.add ht_alloc] in *.
    destruct H as [H|H]; [subst b2; eexists; reflexivity|].
    destruct b2; [|eexists; reflexivity]. cbn [negb].
    destruct (ht_alloc_n_firstn_false _ _ H) as [o' Hn]. rewrite Hn. eexists. reflexivity.
Qed.

(* ... and the insert that asked for the growth reports failure without inserting *)
Lemma ht_insert_growth_fail_atomic o h e :
  ht_inv h -> hget (fst e) (ht_entries h) = None -> ht_should_expand h = true ->
  In false (firstn (ht_expand_requests h) o) ->
  ht_insert keq hash o h e = Ok (h, HtFailed).
Proof.
  intros Hinv Hget Hgrow Hfalse.
  destruct (ht_update_spec h (fst e) (fun _ => e) Hinv) as (b & Hat & Hg & _).
  { intros x Hx. exact Hx. }
  unfold ht_insert, ht_find. rewrite Hat. cbn [bind]. rewrite <- Hg, Hget, Hgrow.
  destruct (ht_expand_alloc_fail_atomic o h Hfalse) as [o' Hex]. rewrite Hex. reflexivity.
Qed.

(* any failed insert: the abstract map and the invariant are unchanged, and an allocation
   was refused (an insert fails only on allocation failure) *)
Lemma ht_insert_alloc_fail_atomic o h e h' :
  ht_inv h -> ht_insert keq hash o h e = Ok (h', HtFailed) ->
  ht_inv h' /\ Permutation (ht_entries h') (ht_entries h) /\ In false o /\
  (forall k, ht_get keq hash h' k = ht_get keq hash h k) /\ ht_num_keys h' = ht_num_keys h.
Proof.
  intros Hinv Hrun. destruct (ht_insert_spec o h e Hinv) as (h2 & r2 & Hrun2 & Hinv2 & Hcase).
  rewrite Hrun in Hrun2. inversion Hrun2; subst h2 r2. destruct Hcase as (_ & HP & Hfalse).
  split; [exact Hinv2|]. split; [exact HP|]. split; [exact Hfalse|]. split.
  - intros k. rewrite (ht_get_spec h' k Hinv2), (ht_get_spec h k Hinv).
    rewrite (hts_get_perm k _ _ (ht_inv_nodup h' Hinv2) HP). reflexivity.
  - destruct Hinv2 as (_ & _ & _ & _ & Hnk' & _). destruct Hinv as (_ & _ & _ & _ & Hnk & _).
    rewrite Hnk', Hnk. apply Permutation_length. exact HP.
Qed.

(* without a refused allocation an insert cannot fail *)
Lemma ht_insert_total h e h' r :
  ht_inv h -> ht_insert keq hash [] h e = Ok (h', r) -> r <> HtFailed.
Proof.
  intros Hinv Hrun ->. destruct (ht_insert_alloc_fail_atomic [] h e h' Hinv Hrun) as (_ & _ & [] & _).
Qed.

(* the expand never takes the branch its comment calls impossible, never is UB *)
Lemma ht_expand_pool_suffices o h :
  ht_inv h -> exists h' ok o', ht_expand hash o h = Ok (h', ok, o').
Proof.
  intros Hinv. destruct (ht_expand_spec o h Hinv) as (h' & ok & o' & H & _). eauto.
Qed.

(* ---------------------------------------------------------------------------------- *)
(* operation sequences: the model run refines the specification run                    *)
(* ---------------------------------------------------------------------------------- *)
Variable vnull : V.
Notation OP := (@ht_op K V).
Notation OBS := (@ht_obs K V).

(* observations agree; the order of an iteration (and of the frees of destroy) is not part
   of the abstract data type: same bindings as a multiset *)
Inductive ht_obs_eq : OBS -> OBS -> Prop :=
| HtEqAll l l' : Permutation l l' -> ht_obs_eq (HtObsAll (Some l)) (HtObsAll (Some l'))
| HtEqDestroy l l' : Permutation l l' -> ht_obs_eq (HtObsDestroy l) (HtObsDestroy l')
| HtEqRefl o : ht_obs_eq o o.

Lemma ht_obs_eq_sym a b : ht_obs_eq a b -> ht_obs_eq b a.
Proof. intros H; inversion H; subst; constructor; apply Permutation_sym; assumption. Qed.

Lemma ht_obs_eq_trans a b c : ht_obs_eq a b -> ht_obs_eq b c -> ht_obs_eq a c.
Proof.
  intros H1 H2; inversion H1; subst; inversion H2; subst;
    try assumption; constructor; eapply Permutation_trans; eassumption.
Qed.

(* an operation that may legitimately report failure: an insert during which the allocator
   refuses a request *)
Definition ht_op_can_fail (op : OP) : Prop :=
  match op with HtOpInsert _ o _ _ => In false o | _ => False end.

Lemma ht_step_sim h m op :
  ht_inv h -> Permutation (ht_entries h) m ->
  exists h' obs, ht_step keq hash vnull h op = Ok (h', obs) /\
    ht_inv h' /\
    Permutation (ht_entries h') (fst (hts_step keq vnull m op (ht_obs_ok obs))) /\
    ht_obs_eq obs (snd (hts_step keq vnull m op (ht_obs_ok obs))) /\
    (ht_obs_ok obs = false -> ht_op_can_fail op).
Proof.
  intros Hinv HP. pose proof (ht_inv_nodup h Hinv) as Hnd.
  assert (forall k, hget k m = hget k (ht_entries h)) as Hgm.
  { intros k. symmetry. apply hts_get_perm; assumption. }
  destruct op as [npre o k v|k|k| |ok|k]; cbn [ht_step].
  - (* insert *)
    destruct (ht_alloc_n npre o) as [okp o'] eqn:Hpre. destruct okp; cbn [negb].
    + destruct (ht_insert_spec o' h (k, v) Hinv) as (h' & r & Hrun & Hinv' & Hcase).
      rewrite Hrun. cbn [bind fst snd]. exists h', (HtObsInsert r). split; [reflexivity|].
      split; [exact Hinv'|]. cbn [fst] in Hcase.
      destruct r as [|old|]; cbn [ht_obs_ok hts_step]; unfold hts_insert; cbn [fst]; rewrite ?Hgm.
      * destruct Hcase as [Hg HP']. rewrite Hg. cbn [fst snd].
        split; [eapply Permutation_trans; [exact HP'|]; apply perm_skip; exact HP|].
        split; [constructor | discriminate].
      * destruct Hcase as (Hg & HE & _). rewrite Hg. cbn [fst snd].
        split; [rewrite HE; apply hts_update_perm; assumption|].
        split; [constructor | discriminate].
      * destruct Hcase as (Hg & HP' & Hfalse). cbn [fst snd].
        split; [eapply Permutation_trans; eassumption|]. split; [constructor|].
        intros _. cbn [ht_op_can_fail]. eapply ht_alloc_n_incl; eauto.
    + exists h, (HtObsInsert HtFailed). split; [reflexivity|]. split; [exact Hinv|].
      cbn [ht_obs_ok hts_step fst snd]. split; [exact HP|]. split; [constructor|].
      intros _. cbn [ht_op_can_fail]. eapply ht_alloc_n_false; eauto.
  - (* get *)
    rewrite (ht_get_spec h k Hinv). cbn [bind]. exists h, (HtObsGet (hget k (ht_entries h))).
    split; [reflexivity|]. split; [exact Hinv|]. cbn [ht_obs_ok hts_step fst snd]. rewrite Hgm.
    split; [exact HP|]. split; [constructor | discriminate].
  - (* remove *)
    destruct (ht_remove_spec h k Hinv) as (h' & Hrun & Hinv' & HE). rewrite Hrun. cbn [bind fst snd].
    exists h', (HtObsRemove (hget k (ht_entries h))). split; [reflexivity|]. split; [exact Hinv'|].
    cbn [ht_obs_ok hts_step fst snd]. rewrite Hgm.
    split; [rewrite HE; apply hts_remove_perm; assumption|]. split; [constructor | discriminate].
  - (* num_keys *)
    exists h, (HtObsNum (ht_num_keys h)). split; [reflexivity|]. split; [exact Hinv|].
    cbn [ht_obs_ok hts_step fst snd]. split; [exact HP|]. split; [|discriminate].
    destruct Hinv as (_ & _ & _ & _ & Hnk & _). rewrite Hnk, (Permutation_length HP). constructor.
  - (* all_buckets *)
    rewrite (ht_all_buckets_spec ok h Hinv). cbn [bind]. eexists h, _. split; [reflexivity|].
    split; [exact Hinv|]. cbn [hts_step fst snd]. split; [exact HP|]. split.
    + rewrite (Permutation_length HP).
      destruct (Nat.eqb (length m) 0 || negb ok); constructor. exact HP.
    + destruct (Nat.eqb (length (ht_entries h)) 0 || negb ok); discriminate.
  - (* claim *)
    rewrite (ht_get_spec h k Hinv). cbn [bind]. cbn [hts_step]. rewrite Hgm.
    destruct (hget k (ht_entries h)) as [e|] eqn:Hg.
    + destruct (ht_set_val_spec h k vnull Hinv) as (h1 & Hrun1 & Hinv1 & HE1).
      rewrite Hrun1. cbn [bind].
      destruct (ht_remove_spec h1 k Hinv1) as (h2 & Hrun2 & Hinv2 & HE2).
      rewrite Hrun2. cbn [bind fst snd].
      eexists h2, _. split; [reflexivity|]. split; [exact Hinv2|]. cbn [ht_obs_ok fst snd].
      rewrite HE1 in *.
      assert (hget k (hupd k (fun x : E => (fst x, vnull)) (ht_entries h)) = Some (fst e, vnull)) as Hx1
        by (apply (hts_get_update_same k (fun x : E => (fst x, vnull)) _ e); [apply keq_refl | exact Hg]).
      assert (hrem k (hupd k (fun x : E => (fst x, vnull)) (ht_entries h)) = hrem k (ht_entries h)) as Hx2
        by (apply (hts_remove_update k (fun x : E => (fst x, vnull)) _ e); [apply keq_refl | exact Hg]).
      rewrite Hx1. rewrite Hx2 in HE2.
      split; [rewrite HE2; apply hts_remove_perm; assumption|]. split; [constructor | discriminate].
    + exists h, (HtObsClaim None None). split; [reflexivity|]. split; [exact Hinv|].
      cbn [ht_obs_ok fst snd]. split; [exact HP|]. split; [constructor | discriminate].
Qed.

(* every reported failure is explained by a refused allocation; the trace ends with destroy *)
Fixpoint ht_justified (ops : list OP) (tr : list OBS) : Prop :=
  match ops, tr with
  | op :: r, obs :: t => (ht_obs_ok obs = false -> ht_op_can_fail op) /\ ht_justified r t
  | [], [obs] => ht_obs_ok obs = true
  | _, _ => False
  end.

Lemma ht_run_from_sim : forall ops h m,
  ht_inv h -> Permutation (ht_entries h) m ->
  exists tr, ht_run_from keq hash vnull h ops = Ok tr /\
    Forall2 ht_obs_eq tr (hts_run_from keq vnull m ops (map (@ht_obs_ok K V) tr)) /\
    ht_justified ops tr.
Proof.
  induction ops as [|op r IH]; intros h m Hinv HP.
  - cbn [ht_run_from]. rewrite (ht_destroy_spec h Hinv). cbn [bind].
    eexists. split; [reflexivity|]. split; [|reflexivity].
    cbn [hts_run_from]. constructor; [constructor; exact HP | constructor].
  - destruct (ht_step_sim h m op Hinv HP) as (h' & obs & Hstep & Hinv' & HP' & Hobs & Hfail).
    destruct (IH h' _ Hinv' HP') as (t & Hrun & Htr & Hj).
    exists (obs :: t). cbn [ht_run_from]. rewrite Hstep. cbn [bind fst snd]. rewrite Hrun. cbn [bind].
    split; [reflexivity|]. split; [|split; assumption].
    cbn [map hts_run_from tl]. constructor; assumption.
Qed.

(* MAIN: for every operation sequence from create the model (any compatible hash function,
   any seed) is never UB, never reaches the pool-exhausted branch, and its observable results
   are those of the association-list specification; an insert reports failure only when the
   allocator refused a request during it, and then nothing changed. *)
Theorem ht_run_refines seed (ops : list OP) :
  exists tr, ht_run_model keq hash vnull seed ops = Ok tr /\
    Forall2 ht_obs_eq tr (ht_run_spec keq vnull ops (map (@ht_obs_ok K V) tr)) /\
    ht_justified ops tr.
Proof.
  unfold ht_run_model, ht_run_spec. destruct (ht_create_inv seed) as (h & Hc & Hinv & HE).
  rewrite Hc. apply ht_run_from_sim; [exact Hinv | rewrite HE; constructor].
Qed.

Lemma hts_run_from_all_true : forall (ops : list OP) m vs,
  Forall (eq true) vs -> hts_run_from keq vnull m ops vs = hts_run_from keq vnull m ops [].
Proof.
  induction ops as [|op r IH]; intros m vs Hvs; [reflexivity|].
  cbn [hts_run_from tl]. destruct vs as [|b t]; [reflexivity|].
  inversion Hvs; subst. cbn [tl]. rewrite (IH _ t) by assumption. reflexivity.
Qed.

Lemma ht_justified_all_true : forall (ops : list OP) tr,
  Forall (fun op => ~ ht_op_can_fail op) ops -> ht_justified ops tr ->
  Forall (eq true) (map (@ht_obs_ok K V) tr).
Proof.
  induction ops as [|op r IH]; intros tr Hno Hj.
  - destruct tr as [|obs [|? ?]]; simpl in Hj; try contradiction. simpl. constructor; [auto | constructor].
  - destruct tr as [|obs t]; simpl in Hj; [contradiction|]. destruct Hj as [Hf Hj].
    inversion Hno; subst. simpl. constructor; [|apply IH; assumption].
    destruct (ht_obs_ok obs) eqn:Hok; [reflexivity|]. exfalso. auto.
Qed.

(* when the allocator never refuses, the results are a function of the operations alone *)
Theorem ht_run_refines_nofail seed (ops : list OP) :
  Forall (fun op => ~ ht_op_can_fail op) ops ->
  exists tr, ht_run_model keq hash vnull seed ops = Ok tr /\
             Forall2 ht_obs_eq tr (ht_run_spec keq vnull ops []).
Proof.
  intros Hno. destruct (ht_run_refines seed ops) as (tr & Hrun & Htr & Hj).
  exists tr. split; [exact Hrun|]. unfold ht_run_spec in *.
  rewrite hts_run_from_all_true in Htr; [exact Htr|]. eapply ht_justified_all_true; eauto.
Qed.

(* every state reachable from create satisfies the invariant *)
Fixpoint ht_exec (h : HT) (ops : list OP) : outcome HT :=
  match ops with
  | [] => Ok h
  | op :: r => do x <- ht_step keq hash vnull h op; ht_exec (fst x) r
  end.

Lemma ht_exec_inv : forall ops h h', ht_inv h -> ht_exec h ops = Ok h' -> ht_inv h'.
Proof.
  induction ops as [|op r IH]; intros h h' Hinv Hrun; simpl in Hrun.
  - inversion Hrun; subst; exact Hinv.
  - destruct (ht_step_sim h (ht_entries h) op Hinv (Permutation_refl _)) as (h1 & obs & Hstep & Hinv1 & _).
    rewrite Hstep in Hrun. cbn [bind fst] in Hrun. eapply IH; eauto.
Qed.

Lemma ht_reachable_inv seed ops h0 h :
  ht_create [] seed = Some h0 -> ht_exec h0 ops = Ok h -> ht_inv h.
Proof.
  intros Hc Hrun. destruct (ht_create_inv seed) as (h1 & Hc1 & Hinv & _).
  rewrite Hc in Hc1. inversion Hc1; subst h1. eapply ht_exec_inv; eauto.
Qed.

End HtProofs.

(* ---------------------------------------------------------------------------------- *)
(* results do not depend on the hash function or the seed                              *)
(* ---------------------------------------------------------------------------------- *)
Lemma ht_forall2_join {A} (R : A -> A -> Prop) :
  (forall a b, R a b -> R b a) -> (forall a b c, R a b -> R b c -> R a c) ->
  forall l1 l3 l2, Forall2 R l1 l3 -> Forall2 R l2 l3 -> Forall2 R l1 l2.
Proof.
  intros Hs Ht l1 l3 l2 H1. revert l2. induction H1 as [|a c l1 l3 Hac H1 IH]; intros l2 H2.
  - inversion H2; subst. constructor.
  - inversion H2 as [|b c' l2' l3' Hbc H2']; subst. constructor; [|apply IH; assumption].
    eapply Ht; [exact Hac | apply Hs; exact Hbc].
Qed.

Theorem ht_run_hash_independent {K V : Type} (keq : K -> K -> bool) (hash1 hash2 : K -> Z -> Z)
        (vnull : V) (seed1 seed2 : Z) (ops : list (@ht_op K V)) :
  (forall a, keq a a = true) -> (forall a b, keq a b = keq b a) ->
  (forall a b c, keq a b = true -> keq b c = true -> keq a c = true) ->
  (forall a b s, keq a b = true -> hash1 a s = hash1 b s) ->
  (forall a b s, keq a b = true -> hash2 a s = hash2 b s) ->
  Forall (fun op => ~ ht_op_can_fail op) ops ->
  exists tr1 tr2,
    ht_run_model keq hash1 vnull seed1 ops = Ok tr1 /\
    ht_run_model keq hash2 vnull seed2 ops = Ok tr2 /\
    Forall2 ht_obs_eq tr1 tr2.
Proof.
  intros Hr Hs Ht Hc1 Hc2 Hno.
  destruct (ht_run_refines_nofail keq hash1 Hr Hs Ht Hc1 vnull seed1 ops Hno) as (tr1 & H1 & E1).
  destruct (ht_run_refines_nofail keq hash2 Hr Hs Ht Hc2 vnull seed2 ops Hno) as (tr2 & H2 & E2).
  exists tr1, tr2. split; [exact H1|]. split; [exact H2|].
  eapply ht_forall2_join; [apply ht_obs_eq_sym | apply ht_obs_eq_trans | exact E1 | exact E2].
Qed.

(* ---------------------------------------------------------------------------------- *)
(* typed wrappers                                                                      *)
(* ---------------------------------------------------------------------------------- *)
(* szvp / asvp / vpvp / vpstr: keys compared with ==; ANY hash function is compatible *)
Theorem ht_szvp_run_refines (hash : Z -> Z -> Z) (seed : Z) (ops : list (@ht_op Z Z)) :
  exists tr, ht_run_model ht_szvp_keq hash 0%Z seed ops = Ok tr /\
    Forall2 ht_obs_eq tr (ht_run_spec ht_szvp_keq 0%Z ops (map (@ht_obs_ok Z Z) tr)) /\
    ht_justified ops tr.
Proof.
  apply ht_run_refines; unfold ht_szvp_keq.
  - apply Z.eqb_refl.
  - apply Z.eqb_sym.
  - intros a b c H1 H2. apply Z.eqb_eq in H1, H2. apply Z.eqb_eq. congruence.
  - intros a b s H. apply Z.eqb_eq in H. subst. reflexivity.
Qed.

(* strvp / dict: ares_strcaseeq is an equivalence ... *)
Lemma ht_bytes_eqb_eq : forall a b, ht_bytes_eqb a b = true <-> a = b.
Proof.
  induction a as [|x a IH]; destruct b as [|y b]; simpl; split; intros H; try discriminate; try reflexivity.
  - apply andb_true_iff in H. destruct H as [H1 H2]. apply Z.eqb_eq in H1. apply IH in H2. congruence.
  - inversion H; subst. rewrite Z.eqb_refl. simpl. apply IH. reflexivity.
Qed.

Lemma ht_strcaseeq_iff a b : ht_strcaseeq a b = true <-> map ht_tolower a = map ht_tolower b.
Proof. unfold ht_strcaseeq. apply ht_bytes_eqb_eq. Qed.

Lemma ht_strcaseeq_refl a : ht_strcaseeq a a = true.
Proof. apply ht_strcaseeq_iff. reflexivity. Qed.

Lemma ht_strcaseeq_sym a b : ht_strcaseeq a b = ht_strcaseeq b a.
Proof.
  destruct (ht_strcaseeq a b) eqn:H1; destruct (ht_strcaseeq b a) eqn:H2; try reflexivity.
  - apply ht_strcaseeq_iff in H1. symmetry in H1. apply ht_strcaseeq_iff in H1. congruence.
  - apply ht_strcaseeq_iff in H2. symmetry in H2. apply ht_strcaseeq_iff in H2. congruence.
Qed.

Lemma ht_strcaseeq_trans a b c : ht_strcaseeq a b = true -> ht_strcaseeq b c = true -> ht_strcaseeq a c = true.
Proof. rewrite !ht_strcaseeq_iff. congruence. Qed.

(* ... and the case-insensitive FNV-1a hash of the C code is compatible with it *)
Lemma ht_fnv1a_casecmp_lower key seed : ht_fnv1a_casecmp key seed = ht_fnv1a (map ht_tolower key) seed.
Proof.
  unfold ht_fnv1a_casecmp, ht_fnv1a. generalize (Z.lxor seed 2166136261).
  induction key as [|c key IH]; intros hv; simpl; [reflexivity | apply IH].
Qed.

Lemma ht_fnv1a_casecmp_compat a b s : ht_strcaseeq a b = true -> ht_fnv1a_casecmp a s = ht_fnv1a_casecmp b s.
Proof. intros H. apply ht_strcaseeq_iff in H. rewrite !ht_fnv1a_casecmp_lower, H. reflexivity. Qed.

Theorem ht_strvp_run_refines (hash : list Z -> Z -> Z) (seed : Z) (ops : list (@ht_op (list Z) Z)) :
  (forall a b s, ht_strcaseeq a b = true -> hash a s = hash b s) ->
  exists tr, ht_run_model ht_strcaseeq hash 0%Z seed ops = Ok tr /\
    Forall2 ht_obs_eq tr (ht_run_spec ht_strcaseeq 0%Z ops (map (@ht_obs_ok (list Z) Z) tr)) /\
    ht_justified ops tr.
Proof.
  intros Hc. apply ht_run_refines.
  - apply ht_strcaseeq_refl.
  - apply ht_strcaseeq_sym.
  - apply ht_strcaseeq_trans.
  - exact Hc.
Qed.

Theorem ht_strvp_run_refines_fnv (seed : Z) (ops : list (@ht_op (list Z) Z)) :
  exists tr, ht_run_model ht_strcaseeq ht_fnv1a_casecmp 0%Z seed ops = Ok tr /\
    Forall2 ht_obs_eq tr (ht_run_spec ht_strcaseeq 0%Z ops (map (@ht_obs_ok (list Z) Z) tr)) /\
    ht_justified ops tr.
Proof. apply ht_strvp_run_refines. apply ht_fnv1a_casecmp_compat. Qed.

(* ---------------------------------------------------------------------------------- *)
(* the hypotheses are satisfiable by non-trivial states; the pool-exhausted outcome is  *)
(* a real outcome of the model when the pool is too small                               *)
(* ---------------------------------------------------------------------------------- *)
Definition ht_ex_hash (k : Z) (seed : Z) : Z := k.
Definition ht_ex_ins (k v : Z) : @ht_op Z Z := HtOpInsert 0 [] k v.
(* 13 keys, 0 and 16 and 32 collide in a table of 16 buckets: the 13th insert grows to 32 *)
Definition ht_ex_ops : list (@ht_op Z Z) :=
  map (fun k => ht_ex_ins k (k + 100)%Z) [0; 16; 32; 1; 2; 3; 4; 5; 6; 7; 8; 9]%Z.

Definition ht_ex_state (ops : list (@ht_op Z Z)) : outcome (@ht Z Z) :=
  match ht_create [] 7%Z with
  | Some h0 => ht_exec Z.eqb ht_ex_hash 0%Z h0 ops
  | None => Err ARES_ENOMEM
  end.

Lemma ht_ex_state_inv ops h : ht_ex_state ops = Ok h -> ht_inv Z.eqb ht_ex_hash h.
Proof.
  unfold ht_ex_state. destruct (ht_create [] 7%Z) as [h0|] eqn:Hc; [|discriminate].
  intros H. eapply (ht_reachable_inv Z.eqb ht_ex_hash); eauto.
  - apply Z.eqb_refl.
  - apply Z.eqb_sym.
  - intros a b c H1 H2. apply Z.eqb_eq in H1, H2. apply Z.eqb_eq. congruence.
  - intros a b s H1. apply Z.eqb_eq in H1. subst. reflexivity.
Qed.

Example ht_example_before_growth :
  match ht_ex_state ht_ex_ops with
  | Ok h => ht_size h = 16 /\ ht_num_keys h = 12 /\ ht_num_collisions h = 2 /\
            ht_should_expand h = true /\ ht_expand_requests h = 4
  | _ => False
  end.
Proof. vm_compute. repeat split; reflexivity. Qed.

Example ht_example_growth :
  match ht_ex_state (ht_ex_ops ++ [ht_ex_ins 10 110]%Z) with
  | Ok h => ht_size h = 32 /\ ht_num_keys h = 13 /\ ht_num_collisions h = 1 /\
            ht_get Z.eqb ht_ex_hash h 16%Z = Ok (Some (16, 116)%Z) /\
            ht_all_buckets true h =
              Ok (Some [(0, 100); (32, 132); (1, 101); (2, 102); (3, 103); (4, 104); (5, 105); (6, 106);
                        (7, 107); (8, 108); (9, 109); (10, 110); (16, 116)]%Z)
  | _ => False
  end.
Proof. vm_compute. repeat split; reflexivity. Qed.

(* with a refused request during that growth the insert fails and nothing changes *)
Example ht_example_growth_refused :
  match ht_ex_state ht_ex_ops with
  | Ok h => ht_insert Z.eqb ht_ex_hash [true; true; true; false] h (10, 110)%Z = Ok (h, HtFailed)
  | _ => False
  end.
Proof. vm_compute. reflexivity. Qed.

(* two entries of one old bucket that go to different new buckets need one pooled list *)
Example ht_example_pool_exhausted :
  ht_rehash ht_ex_hash 32 0%Z [Some [(0, 1); (16, 2)]%Z] (repeat None 32) 0 0 = Err HT_POOL_EXHAUSTED.
Proof. vm_compute. reflexivity. Qed.

(* ---------------------------------------------------------------------------------- *)
(* the same statement with literal equality: iteration results compared SORTED          *)
(* ---------------------------------------------------------------------------------- *)
Section HtSort.
Context {A : Type}.
Variable leb : A -> A -> bool.
Hypothesis leb_total : forall a b, leb a b = true \/ leb b a = true.
Hypothesis leb_trans : forall a b c, leb a b = true -> leb b c = true -> leb a c = true.
Hypothesis leb_antisym : forall a b, leb a b = true -> leb b a = true -> a = b.

Fixpoint ht_sort_ins (a : A) (l : list A) : list A :=
  match l with
  | [] => [a]
  | x :: r => if leb a x then a :: l else x :: ht_sort_ins a r
  end.

Fixpoint ht_sort (l : list A) : list A :=
  match l with
  | [] => []
  | a :: r => ht_sort_ins a (ht_sort r)
  end.

Inductive ht_sorted : list A -> Prop :=
| HtSortedNil : ht_sorted []
| HtSortedCons a l : Forall (fun x => leb a x = true) l -> ht_sorted l -> ht_sorted (a :: l).

Lemma ht_sort_ins_perm a l : Permutation (ht_sort_ins a l) (a :: l).
Proof.
  induction l as [|x r IH]; simpl; [apply Permutation_refl|].
  destruct (leb a x); [apply Permutation_refl|].
  eapply Permutation_trans; [apply perm_skip; exact IH | apply perm_swap].
Qed.

Lemma ht_sort_perm l : Permutation (ht_sort l) l.
Proof.
  induction l as [|a r IH]; simpl; [constructor|].
  eapply Permutation_trans; [apply ht_sort_ins_perm | apply perm_skip; exact IH].
Qed.

Lemma ht_sort_ins_sorted a l : ht_sorted l -> ht_sorted (ht_sort_ins a l).
Proof.
  induction 1 as [|x r Hx Hr IH]; simpl.
  - constructor; constructor.
  - destruct (leb a x) eqn:Hax.
    + constructor; [|constructor; assumption]. constructor; [exact Hax|].
      eapply Forall_impl; [|exact Hx]. intros y Hy. eapply leb_trans; eauto.
    + constructor; [|exact IH].
      apply (Permutation_Forall (Permutation_sym (ht_sort_ins_perm a r))).
      constructor; [|exact Hx]. destruct (leb_total a x) as [H|H]; [congruence | exact H].
Qed.

Lemma ht_sort_sorted l : ht_sorted (ht_sort l).
Proof. induction l as [|a r IH]; simpl; [constructor | apply ht_sort_ins_sorted; exact IH]. Qed.

Lemma ht_sorted_unique : forall l l', ht_sorted l -> ht_sorted l' -> Permutation l l' -> l = l'.
Proof.
  induction l as [|a t IH]; intros l' Hs Hs' HP.
  - apply Permutation_nil in HP. subst. reflexivity.
  - destruct l' as [|b t']; [apply Permutation_sym, Permutation_nil in HP; discriminate|].
    inversion Hs as [|? ? Ha Ht]; subst. inversion Hs' as [|? ? Hb Ht']; subst.
    assert (a = b) as ->.
    { assert (In a (b :: t')) as Hin by (eapply Permutation_in; [exact HP | left; reflexivity]).
      assert (In b (a :: t)) as Hin' by (eapply Permutation_in; [apply Permutation_sym; exact HP | left; reflexivity]).
      destruct Hin as [Hin|Hin]; [congruence|]. destruct Hin' as [Hin'|Hin']; [congruence|].
      rewrite Forall_forall in Ha, Hb. apply leb_antisym; auto. }
    f_equal. apply IH; auto. eapply Permutation_cons_inv; eauto.
Qed.

Lemma ht_sort_perm_invariant l l' : Permutation l l' -> ht_sort l = ht_sort l'.
Proof.
  intros HP. apply ht_sorted_unique; try apply ht_sort_sorted.
  eapply Permutation_trans; [apply ht_sort_perm|].
  eapply Permutation_trans; [exact HP | apply Permutation_sym, ht_sort_perm].
Qed.
End HtSort.

(* iterations (and the frees of destroy) put into a canonical order *)
Definition ht_obs_canon {K V : Type} (canon : list (@ht_entry K V) -> list (@ht_entry K V))
           (o : @ht_obs K V) : @ht_obs K V :=
  match o with
  | HtObsAll (Some l) => HtObsAll (Some (canon l))
  | HtObsDestroy l => HtObsDestroy (canon l)
  | _ => o
  end.

Lemma ht_obs_eq_canon {K V : Type} (canon : list (@ht_entry K V) -> list (@ht_entry K V)) :
  (forall l l', Permutation l l' -> canon l = canon l') ->
  forall tr tr', Forall2 ht_obs_eq tr tr' -> map (ht_obs_canon canon) tr = map (ht_obs_canon canon) tr'.
Proof.
  intros Hc tr tr' H. induction H as [|a b t t' Hab Ht IH]; [reflexivity|].
  simpl. rewrite IH. f_equal. inversion Hab; subst; simpl; try reflexivity; rewrite (Hc _ _ H); reflexivity.
Qed.

(* run_model = run_spec, literally, on: return values, freed entries, get results, counts,
   SORTED iteration - for any total order on the entries *)
Theorem ht_run_refines_sorted {K V : Type} (keq : K -> K -> bool) (hash : K -> Z -> Z)
        (leb : @ht_entry K V -> @ht_entry K V -> bool) (vnull : V) (seed : Z) (ops : list (@ht_op K V)) :
  (forall a, keq a a = true) -> (forall a b, keq a b = keq b a) ->
  (forall a b c, keq a b = true -> keq b c = true -> keq a c = true) ->
  (forall a b s, keq a b = true -> hash a s = hash b s) ->
  (forall a b, leb a b = true \/ leb b a = true) ->
  (forall a b c, leb a b = true -> leb b c = true -> leb a c = true) ->
  (forall a b, leb a b = true -> leb b a = true -> a = b) ->
  Forall (fun op => ~ ht_op_can_fail op) ops ->
  exists tr, ht_run_model keq hash vnull seed ops = Ok tr /\
    map (ht_obs_canon (ht_sort leb)) tr = map (ht_obs_canon (ht_sort leb)) (ht_run_spec keq vnull ops []).
Proof.
  intros Hr Hs Ht Hc Ltot Ltr Las Hno.
  destruct (ht_run_refines_nofail keq hash Hr Hs Ht Hc vnull seed ops Hno) as (tr & Hrun & Heq).
  exists tr. split; [exact Hrun|]. apply ht_obs_eq_canon; [|exact Heq].
  intros l l' HP. apply ht_sort_perm_invariant; assumption.
Qed.

(* a total order on (Z * Z) entries: by key, then by value *)
Definition ht_zz_leb (a b : Z * Z) : bool :=
  if Z.ltb (fst a) (fst b) then true
  else if Z.eqb (fst a) (fst b) then Z.leb (snd a) (snd b) else false.

Lemma ht_zz_leb_spec a b :
  ht_zz_leb a b = true <-> (fst a < fst b \/ (fst a = fst b /\ snd a <= snd b))%Z.
Proof.
  unfold ht_zz_leb. destruct (Z.ltb_spec (fst a) (fst b)); [split; auto|].
  destruct (Z.eqb_spec (fst a) (fst b)).
  - rewrite Z.leb_le. split; [auto | intros [?|[? ?]]; [lia | assumption]].
  - split; [discriminate | intros [?|[? ?]]; lia].
Qed.

Theorem ht_szvp_run_refines_sorted (hash : Z -> Z -> Z) (seed : Z) (ops : list (@ht_op Z Z)) :
  Forall (fun op => ~ ht_op_can_fail op) ops ->
  exists tr, ht_run_model ht_szvp_keq hash 0%Z seed ops = Ok tr /\
    map (ht_obs_canon (ht_sort ht_zz_leb)) tr =
    map (ht_obs_canon (ht_sort ht_zz_leb)) (ht_run_spec ht_szvp_keq 0%Z ops []).
Proof.
  apply ht_run_refines_sorted; unfold ht_szvp_keq.
  - apply Z.eqb_refl.
  - apply Z.eqb_sym.
  - intros a b c H1 H2. apply Z.eqb_eq in H1, H2. apply Z.eqb_eq. congruence.
  - intros a b s H. apply Z.eqb_eq in H. subst. reflexivity.
  - intros a b. rewrite !ht_zz_leb_spec. lia.
  - intros a b c. rewrite !ht_zz_leb_spec. lia.
  - intros [a1 a2] [b1 b2]. rewrite !ht_zz_leb_spec. simpl. intros H1 H2. f_equal; lia.
Qed.
