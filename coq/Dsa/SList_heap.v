(* Refinement of the skip-list model (Dsa/SList.v) to the sorted-list specification.

   Invariant (sl_rep): every level-k chain (head[k], next[k], prev[k]) is the doubly linked
   representation of the sub-list of the level-0 chain made of the nodes with more than k levels;
   tail = last of level 0.  sl_R adds: the level-0 chain carries the specification's elements,
   sorted by cmp; cnt = length; exactly the chained nodes are live. *)
From CAres.Dsa Require Export SList.
From CAres.Gen Require Import Consts.
Local Open Scope nat_scope.

(* ------------------------------------------------------------------------------------ *)
(* generic list facts *)

Lemma sl_upd_length {A} (l : list A) i v : length (sl_upd l i v) = length l.
Proof.
  revert i; induction l as [|x l IH]; intros [|i]; simpl; auto.
Qed.

Lemma sl_upd_nth_same {A} (l : list A) i v : i < length l -> nth_error (sl_upd l i v) i = Some v.
Proof.
  revert i; induction l as [|x l IH]; intros [|i] H; simpl in *; try lia; auto.
  apply IH; lia.
Qed.

Lemma sl_upd_nth_other {A} (l : list A) i j v : i <> j -> nth_error (sl_upd l i v) j = nth_error l j.
Proof.
  revert i j; induction l as [|x l IH]; intros [|i] [|j] H; simpl in *; auto; try lia.
Qed.

Fixpoint sl_last {A} (l : list A) : option A :=
  match l with
  | [] => None
  | x :: t => match t with [] => Some x | _ => sl_last t end
  end.

Lemma sl_last_snoc {A} (l : list A) x : sl_last (l ++ [x]) = Some x.
Proof.
  induction l as [|y l IH]; simpl; auto.
  destruct (l ++ [x]) eqn:E; [destruct l; discriminate|]. exact IH.
Qed.

Lemma sl_last_cases {A} (l : list A) : l = [] \/ exists l' x, l = l' ++ [x].
Proof.
  destruct l as [|a l]; [left; auto|right].
  destruct (exists_last (l := a :: l)) as (l' & x & E); [discriminate|]. eauto.
Qed.

Lemma sl_last_app_cons {A} (l1 l2 : list A) x : sl_last (l1 ++ x :: l2) = sl_last (x :: l2).
Proof.
  induction l1 as [|y l1 IH]; auto.
  change ((y :: l1) ++ x :: l2) with (y :: (l1 ++ x :: l2)).
  simpl sl_last at 1. destruct (l1 ++ x :: l2) eqn:E; [destruct l1; discriminate|].
  exact IH.
Qed.

Lemma sl_last_rev {A} (l : list A) : sl_last l = hd_error (rev l).
Proof.
  destruct (sl_last_cases l) as [->|(l' & x & ->)]; auto.
  rewrite sl_last_snoc, rev_app_distr. reflexivity.
Qed.

Lemma sl_last_none {A} (l : list A) : sl_last l = None -> l = [].
Proof.
  destruct (sl_last_cases l) as [->|(l' & x & ->)]; auto.
  rewrite sl_last_snoc; discriminate.
Qed.

Lemma sl_last_some {A} (l : list A) x : sl_last l = Some x -> exists l', l = l' ++ [x].
Proof.
  destruct (sl_last_cases l) as [->|(l' & y & ->)]; [discriminate|].
  rewrite sl_last_snoc. intros [= ->]. eauto.
Qed.

Lemma sl_last_app_r {A} (l1 l2 : list A) : l2 <> [] -> sl_last (l1 ++ l2) = sl_last l2.
Proof.
  destruct l2 as [|x l2]; [congruence|]. intros _. apply sl_last_app_cons.
Qed.

Lemma sl_find_app_skip {A} (f : A -> bool) l1 l2 :
  (forall e, In e l1 -> f e = false) -> find f (l1 ++ l2) = find f l2.
Proof.
  induction l1 as [|a l1 IH]; intros H; simpl; auto.
  rewrite (H a) by (left; auto). apply IH. intros e He. apply H. right; auto.
Qed.

Lemma sl_nodup_app {A} (l1 l2 : list A) :
  NoDup (l1 ++ l2) -> NoDup l1 /\ NoDup l2 /\ (forall x, In x l1 -> In x l2 -> False).
Proof.
  induction l1 as [|a l1 IH]; simpl; intros H.
  - repeat split; auto. constructor.
  - apply NoDup_cons_iff in H. destruct H as [Ha H]. destruct (IH H) as (H1 & H2 & H3).
    repeat split; auto.
    + constructor; auto. intros Hi. apply Ha, in_or_app; auto.
    + intros x [->|Hx] Hx2; [apply Ha, in_or_app; auto|eauto].
Qed.

Lemma sl_nodup_app_r {A} (l1 l2 : list A) : NoDup (l1 ++ l2) -> NoDup l2.
Proof. intros H. apply sl_nodup_app in H. tauto. Qed.

(* ------------------------------------------------------------------------------------ *)
(* doubly linked chains over abstract pointer functions *)

Fixpoint sl_seg (nx : nat -> option nat) (s : option nat) (c : list nat) (e : option nat) : Prop :=
  match c with
  | [] => s = e
  | x :: c' => s = Some x /\ sl_seg nx (nx x) c' e
  end.

Fixpoint sl_bwd (pv : nat -> option nat) (p : option nat) (c : list nat) : Prop :=
  match c with
  | [] => True
  | x :: c' => pv x = p /\ sl_bwd pv (Some x) c'
  end.

Lemma sl_seg_ext nx nx' s c e :
  (forall y, In y c -> nx' y = nx y) -> sl_seg nx s c e -> sl_seg nx' s c e.
Proof.
  revert s; induction c as [|x c IH]; intros s H; simpl; auto.
  intros [E Hs]. split; auto. rewrite (H x) by (left; auto).
  apply IH; auto. intros y Hy. apply H. right; auto.
Qed.

Lemma sl_bwd_ext pv pv' p c :
  (forall y, In y c -> pv' y = pv y) -> sl_bwd pv p c -> sl_bwd pv' p c.
Proof.
  revert p; induction c as [|x c IH]; intros p H; simpl; auto.
  intros [E Hs]. split; [rewrite (H x) by (left; auto); auto|].
  apply IH; auto. intros y Hy. apply H. right; auto.
Qed.

Lemma sl_seg_app nx s c1 c2 e :
  sl_seg nx s (c1 ++ c2) e <-> exists m, sl_seg nx s c1 m /\ sl_seg nx m c2 e.
Proof.
  revert s; induction c1 as [|x c1 IH]; intros s; simpl.
  - split; [intros H; exists s; auto|intros (m & -> & H); auto].
  - split.
    + intros [E H]. apply IH in H. destruct H as (m & H1 & H2). exists m; auto.
    + intros (m & [E H1] & H2). split; auto. apply IH. exists m; auto.
Qed.

Lemma sl_seg_start nx s c e : sl_seg nx s c e -> s = match c with [] => e | x :: _ => Some x end.
Proof. destruct c; simpl; [auto|intros [H _]; auto]. Qed.

Definition sl_last_or {A} (l : list A) (p : option A) : option A :=
  match sl_last l with Some x => Some x | None => p end.

Lemma sl_bwd_app pv p c1 c2 :
  sl_bwd pv p (c1 ++ c2) <-> sl_bwd pv p c1 /\ sl_bwd pv (sl_last_or c1 p) c2.
Proof.
  revert p; induction c1 as [|x c1 IH]; intros p.
  - simpl. unfold sl_last_or; simpl. tauto.
  - change ((x :: c1) ++ c2) with (x :: (c1 ++ c2)). simpl sl_bwd. rewrite IH.
    assert (sl_last_or (x :: c1) p = sl_last_or c1 (Some x)) as ->.
    { unfold sl_last_or. simpl. destruct c1; auto. destruct (sl_last (n :: c1)) eqn:E; auto.
      apply sl_last_none in E. discriminate. }
    tauto.
Qed.

(* the successor of a member *)
Lemma sl_seg_next nx s c1 x c2 :
  sl_seg nx s (c1 ++ x :: c2) None -> nx x = hd_error c2.
Proof.
  intros H. apply sl_seg_app in H. destruct H as (m & _ & [_ H]).
  apply sl_seg_start in H. rewrite H. destruct c2; auto.
Qed.

Lemma sl_bwd_prev pv c1 x c2 :
  sl_bwd pv None (c1 ++ x :: c2) -> pv x = sl_last c1.
Proof.
  intros H. apply sl_bwd_app in H. destruct H as [_ [H _]]. rewrite H.
  unfold sl_last_or. destruct (sl_last c1); auto.
Qed.

(* insertion of x between c1 and c2 *)
Lemma sl_dll_insert nx pv hd nx' pv' hd' c1 c2 x :
  NoDup (c1 ++ c2) -> ~ In x (c1 ++ c2) ->
  sl_seg nx hd (c1 ++ c2) None -> sl_bwd pv None (c1 ++ c2) ->
  nx' x = hd_error c2 -> pv' x = sl_last c1 ->
  match sl_last c1 with Some l => nx' l = Some x /\ hd' = hd | None => hd' = Some x end ->
  (forall y, y <> x -> sl_last c1 <> Some y -> nx' y = nx y) ->
  match hd_error c2 with Some m => pv' m = Some x | None => True end ->
  (forall y, y <> x -> hd_error c2 <> Some y -> pv' y = pv y) ->
  sl_seg nx' hd' (c1 ++ x :: c2) None /\ sl_bwd pv' None (c1 ++ x :: c2).
Proof.
  intros ND NI Hs Hb Hnx Hpx Hl Hnf Hm Hpf.
  assert (NI1 : ~ In x c1) by (intros H; apply NI, in_or_app; auto).
  assert (NI2 : ~ In x c2) by (intros H; apply NI, in_or_app; auto).
  split.
  - apply sl_seg_app in Hs. destruct Hs as (m & Hs1 & Hs2).
    assert (m = hd_error c2) as Em.
    { apply sl_seg_start in Hs2. rewrite Hs2. destruct c2; auto. }
    apply sl_seg_app. exists (Some x). split.
    + destruct (sl_last_cases c1) as [->|(c1' & l & ->)].
      * simpl in *. exact Hl.
      * rewrite sl_last_snoc in Hl, Hnf. destruct Hl as [Hl ->].
        apply sl_seg_app in Hs1. destruct Hs1 as (m2 & Hs1 & [E2 _]).
        apply sl_seg_app. exists m2. split.
        -- eapply sl_seg_ext; [|exact Hs1]. intros y Hy. apply Hnf.
           ++ intros ->. apply NI1, in_or_app; auto.
           ++ intros [= ->]. rewrite <- app_assoc in ND. apply NoDup_remove_2 in ND.
              apply ND, in_or_app; auto.
        -- simpl. auto.
    + simpl. split; auto. rewrite Hnx, <- Em.
      eapply sl_seg_ext; [|exact Hs2]. intros y Hy. apply Hnf.
      * intros ->; auto.
      * intros E. apply sl_last_some in E. destruct E as (c1' & ->).
        rewrite <- app_assoc in ND. apply NoDup_remove_2 in ND. apply ND, in_or_app; right; auto.
  - apply sl_bwd_app in Hb. destruct Hb as [Hb1 Hb2].
    apply sl_bwd_app. split.
    + eapply sl_bwd_ext; [|exact Hb1]. intros y Hy. apply Hpf.
      * intros ->; auto.
      * intros E. destruct c2 as [|m c2]; [discriminate|]. simpl in E. injection E as ->.
        apply NoDup_remove_2 in ND. apply ND, in_or_app; auto.
    + simpl. split.
      * rewrite Hpx. unfold sl_last_or. destruct (sl_last c1); auto.
      * destruct c2 as [|m c2]; simpl; auto. simpl in Hm, Hb2. destruct Hb2 as [_ Hb2].
        split; auto. eapply sl_bwd_ext; [|exact Hb2]. intros y Hy. apply Hpf.
        -- intros ->. apply NI2. right; auto.
        -- simpl. intros [= ->]. apply sl_nodup_app_r in ND.
           apply NoDup_cons_iff in ND. tauto.
Qed.

(* removal of x from between c1 and c2 *)
Lemma sl_dll_remove nx pv hd nx' pv' hd' c1 c2 x :
  NoDup (c1 ++ x :: c2) ->
  sl_seg nx hd (c1 ++ x :: c2) None -> sl_bwd pv None (c1 ++ x :: c2) ->
  match sl_last c1 with Some l => nx' l = hd_error c2 /\ hd' = hd | None => hd' = hd_error c2 end ->
  (forall y, y <> x -> sl_last c1 <> Some y -> nx' y = nx y) ->
  match hd_error c2 with Some m => pv' m = sl_last c1 | None => True end ->
  (forall y, y <> x -> hd_error c2 <> Some y -> pv' y = pv y) ->
  sl_seg nx' hd' (c1 ++ c2) None /\ sl_bwd pv' None (c1 ++ c2).
Proof.
  intros ND Hs Hb Hl Hnf Hm Hpf.
  assert (NI1 : ~ In x c1).
  { apply NoDup_remove_2 in ND. intros H; apply ND, in_or_app; auto. }
  assert (NI2 : ~ In x c2).
  { apply NoDup_remove_2 in ND. intros H; apply ND, in_or_app; auto. }
  assert (ND' : NoDup (c1 ++ c2)) by (apply NoDup_remove_1 in ND; auto).
  split.
  - apply sl_seg_app in Hs. destruct Hs as (m & Hs1 & [Em Hs2]). subst m.
    assert (nx x = hd_error c2) as Ex.
    { apply sl_seg_start in Hs2. rewrite Hs2. destruct c2; auto. }
    apply sl_seg_app. exists (hd_error c2). split.
    + destruct (sl_last_cases c1) as [->|(c1' & l & ->)].
      * simpl in *. exact Hl.
      * rewrite sl_last_snoc in Hl, Hnf. destruct Hl as [Hl ->].
        apply sl_seg_app in Hs1. destruct Hs1 as (m2 & Hs1 & [E2 _]).
        apply sl_seg_app. exists m2. split.
        -- eapply sl_seg_ext; [|exact Hs1]. intros y Hy. apply Hnf.
           ++ intros ->. apply NI1, in_or_app; auto.
           ++ intros [= ->]. rewrite <- app_assoc in ND'. apply NoDup_remove_2 in ND'.
              apply ND', in_or_app; auto.
        -- simpl. auto.
    + rewrite <- Ex. eapply sl_seg_ext; [|exact Hs2]. intros y Hy. apply Hnf.
      * intros ->; auto.
      * intros E. apply sl_last_some in E. destruct E as (c1' & ->).
        rewrite <- app_assoc in ND'. apply NoDup_remove_2 in ND'. apply ND', in_or_app; right; auto.
  - apply sl_bwd_app in Hb. destruct Hb as [Hb1 [Hpx Hb2]].
    apply sl_bwd_app. split.
    + eapply sl_bwd_ext; [|exact Hb1]. intros y Hy. apply Hpf.
      * intros ->; auto.
      * intros E. destruct c2 as [|m c2]; [discriminate|]. simpl in E. injection E as ->.
        apply NoDup_remove_2 in ND'. apply ND', in_or_app; auto.
    + destruct c2 as [|m c2]; simpl; auto. simpl in Hm, Hb2. destruct Hb2 as [_ Hb2].
      split.
      * rewrite Hm. unfold sl_last_or. destruct (sl_last c1); auto.
      * eapply sl_bwd_ext; [|exact Hb2]. intros y Hy. apply Hpf.
        -- intros ->. apply NI2. right; auto.
        -- simpl. intros [= ->]. apply sl_nodup_app_r in ND'.
           apply NoDup_cons_iff in ND'. tauto.
Qed.

(* ------------------------------------------------------------------------------------ *)
(* views of the heap, well-formedness, getters and setters *)

Section SLP.
Context {D : Type}.
Variable cmp : D -> D -> Z.

Definition sl_NX (s : slist D) (n i : nat) : option nat :=
  match sl_node_at s n with
  | Some nd => match nth_error (sn_next nd) i with Some p => p | None => None end
  | None => None
  end.
Definition sl_PV (s : slist D) (n i : nat) : option nat :=
  match sl_node_at s n with
  | Some nd => match nth_error (sn_prev nd) i with Some p => p | None => None end
  | None => None
  end.
Definition sl_DATA (s : slist D) (n : nat) : option D := option_map sn_data (sl_node_at s n).
Definition sl_LEV (s : slist D) (n : nat) : nat :=
  match sl_node_at s n with Some nd => sn_levels nd | None => 0 end.
Definition sl_HD (s : slist D) (i : nat) : option nat :=
  match nth_error (sl_head s) i with Some p => p | None => None end.

Definition sl_node_wf (L : nat) (nd : sl_node D) : Prop :=
  length (sn_next nd) = sn_levels nd /\ length (sn_prev nd) = sn_levels nd /\
  1 <= sn_levels nd <= L.

Definition sl_wf (s : slist D) : Prop :=
  (forall n nd, sl_node_at s n = Some nd -> sl_node_wf (sl_levels s) nd) /\
  length (sl_head s) = sl_levels s.

(* what no pointer update changes *)
Definition sl_same (s s' : slist D) : Prop :=
  (forall m, sl_DATA s' m = sl_DATA s m) /\ (forall m, sl_LEV s' m = sl_LEV s m) /\
  sl_levels s' = sl_levels s /\ sl_cnt s' = sl_cnt s /\
  length (sl_heap s') = length (sl_heap s).

Lemma sl_same_refl s : sl_same s s.
Proof. repeat split; auto. Qed.

Lemma sl_same_trans s1 s2 s3 : sl_same s1 s2 -> sl_same s2 s3 -> sl_same s1 s3.
Proof.
  intros (A1 & B1 & C1 & D1 & E1) (A2 & B2 & C2 & D2 & E2).
  repeat split; intros; try congruence.
Qed.

Lemma sl_node_at_lt (s : slist D) n nd : sl_node_at s n = Some nd -> n < length (sl_heap s).
Proof.
  unfold sl_node_at. destruct (nth_error (sl_heap s) n) eqn:E; [|discriminate].
  intros _. apply nth_error_Some. congruence.
Qed.

Lemma sl_node_at_map (s : slist D) n f m :
  sl_node_at (sl_map_node s n f) m =
  if m =? n then option_map f (sl_node_at s n) else sl_node_at s m.
Proof.
  unfold sl_map_node. destruct (sl_node_at s n) as [nd|] eqn:E.
  - pose proof (sl_node_at_lt _ _ _ E) as Hlt.
    unfold sl_node_at at 1. cbn [sl_heap].
    destruct (Nat.eqb_spec m n) as [->|Hne].
    + rewrite sl_upd_nth_same by auto. reflexivity.
    + rewrite sl_upd_nth_other by auto. reflexivity.
  - destruct (Nat.eqb_spec m n) as [->|Hne]; unfold sl_node_at at 1; cbn [sl_heap].
    + fold (sl_node_at s n). rewrite E. reflexivity.
    + reflexivity.
Qed.

Lemma sl_LEV_live s n : 0 < sl_LEV s n -> exists nd, sl_node_at s n = Some nd.
Proof. unfold sl_LEV. destruct (sl_node_at s n); [eauto|lia]. Qed.

Lemma sl_wf_LEV s n : sl_wf s -> sl_LEV s n <= sl_levels s.
Proof.
  intros [W _]. unfold sl_LEV. destruct (sl_node_at s n) eqn:E; [|lia].
  apply W in E. unfold sl_node_wf in E. lia.
Qed.

Lemma sl_live_LEV s n nd : sl_wf s -> sl_node_at s n = Some nd -> 0 < sl_LEV s n.
Proof.
  intros [W _] E. unfold sl_LEV. rewrite E. apply W in E. unfold sl_node_wf in E. lia.
Qed.

(* a node update that keeps data, levels and array sizes *)
Lemma sl_map_node_frame (s : slist D) n f :
  sl_wf s ->
  (forall nd, sl_node_at s n = Some nd ->
              sn_data (f nd) = sn_data nd /\ sn_levels (f nd) = sn_levels nd /\
              length (sn_next (f nd)) = length (sn_next nd) /\
              length (sn_prev (f nd)) = length (sn_prev nd)) ->
  sl_wf (sl_map_node s n f) /\ sl_same s (sl_map_node s n f).
Proof.
  intros [W WH] Hf. split; [split|repeat split].
  - intros m nd. rewrite sl_node_at_map. destruct (Nat.eqb_spec m n) as [->|_].
    + destruct (sl_node_at s n) as [nd0|] eqn:E; [|discriminate]. intros [= <-].
      destruct (Hf nd0 eq_refl) as (_ & F2 & F3 & F4).
      apply W in E. unfold sl_node_wf in *.
      cbn [sl_levels sl_map_node]. lia.
    + apply W.
  - exact WH.
  - intros m. unfold sl_DATA. rewrite sl_node_at_map. destruct (Nat.eqb_spec m n) as [->|_]; auto.
    destruct (sl_node_at s n) eqn:E; auto. simpl. f_equal. apply Hf; auto.
  - intros m. unfold sl_LEV. rewrite sl_node_at_map. destruct (Nat.eqb_spec m n) as [->|_]; auto.
    destruct (sl_node_at s n) eqn:E; auto. simpl. apply Hf; auto.
  - unfold sl_map_node. cbn [sl_heap]. destruct (sl_node_at s n); auto. apply sl_upd_length.
Qed.

Lemma sl_get_next_ok s n i : sl_wf s -> i < sl_LEV s n -> sl_get_next s n i = Ok (sl_NX s n i).
Proof.
  intros [W _] H. unfold sl_get_next, sl_load, sl_NX, sl_LEV in *.
  destruct (sl_node_at s n) as [nd|] eqn:E; [|lia]. cbn [bind].
  apply W in E. destruct E as (E1 & _ & _).
  destruct (nth_error (sn_next nd) i) eqn:En; auto.
  apply nth_error_None in En. lia.
Qed.

Lemma sl_get_prev_ok s n i : sl_wf s -> i < sl_LEV s n -> sl_get_prev s n i = Ok (sl_PV s n i).
Proof.
  intros [W _] H. unfold sl_get_prev, sl_load, sl_PV, sl_LEV in *.
  destruct (sl_node_at s n) as [nd|] eqn:E; [|lia]. cbn [bind].
  apply W in E. destruct E as (_ & E1 & _).
  destruct (nth_error (sn_prev nd) i) eqn:En; auto.
  apply nth_error_None in En. lia.
Qed.

Lemma sl_get_head_ok s i : sl_wf s -> i < sl_levels s -> sl_get_head s i = Ok (sl_HD s i).
Proof.
  intros [_ W] H. unfold sl_get_head, sl_HD.
  destruct (nth_error (sl_head s) i) eqn:En; auto.
  apply nth_error_None in En. lia.
Qed.

Lemma sl_node_data_ok s n d : sl_DATA s n = Some d -> sl_node_data s n = Ok d.
Proof.
  unfold sl_DATA, sl_node_data, sl_load. destruct (sl_node_at s n); simpl; [|discriminate].
  intros [= ->]. reflexivity.
Qed.

Lemma sl_set_next_spec s n i v :
  sl_wf s -> i < sl_LEV s n ->
  exists s', sl_set_next s n i v = Ok s' /\ sl_wf s' /\ sl_same s s' /\
    (forall m k, sl_NX s' m k = if (m =? n) && (k =? i) then v else sl_NX s m k) /\
    (forall m k, sl_PV s' m k = sl_PV s m k) /\
    (forall k, sl_HD s' k = sl_HD s k) /\ sl_tail s' = sl_tail s.
Proof.
  intros W H. pose proof W as [Wn _].
  unfold sl_set_next, sl_load. unfold sl_LEV in H.
  destruct (sl_node_at s n) as [nd|] eqn:E; [|lia]. cbn [bind].
  pose proof (Wn _ _ E) as (L1 & L2 & L3).
  destruct (Nat.ltb_spec i (length (sn_next nd))); [|lia].
  eexists. split; [reflexivity|].
  match goal with |- sl_wf (sl_map_node s n ?f) /\ _ => pose proof (sl_map_node_frame s n f W) as F end.
  destruct F as [F1 F2].
  { intros nd0 _. cbn. rewrite sl_upd_length. auto. }
  split; auto. split; auto. repeat split; auto.
  - intros m k. unfold sl_NX. rewrite sl_node_at_map.
    destruct (Nat.eqb_spec m n) as [->|_]; cbn [andb]; auto. rewrite E. cbn.
    destruct (Nat.eqb_spec k i) as [->|Hk].
    + rewrite sl_upd_nth_same by auto. reflexivity.
    + rewrite sl_upd_nth_other by auto. reflexivity.
  - intros m k. unfold sl_PV. rewrite sl_node_at_map.
    destruct (Nat.eqb_spec m n) as [->|_]; auto. rewrite E. reflexivity.
Qed.

Lemma sl_set_prev_spec s n i v :
  sl_wf s -> i < sl_LEV s n ->
  exists s', sl_set_prev s n i v = Ok s' /\ sl_wf s' /\ sl_same s s' /\
    (forall m k, sl_NX s' m k = sl_NX s m k) /\
    (forall m k, sl_PV s' m k = if (m =? n) && (k =? i) then v else sl_PV s m k) /\
    (forall k, sl_HD s' k = sl_HD s k) /\ sl_tail s' = sl_tail s.
Proof.
  intros W H. pose proof W as [Wn _].
  unfold sl_set_prev, sl_load. unfold sl_LEV in H.
  destruct (sl_node_at s n) as [nd|] eqn:E; [|lia]. cbn [bind].
  pose proof (Wn _ _ E) as (L1 & L2 & L3).
  destruct (Nat.ltb_spec i (length (sn_prev nd))); [|lia].
  eexists. split; [reflexivity|].
  match goal with |- sl_wf (sl_map_node s n ?f) /\ _ => pose proof (sl_map_node_frame s n f W) as F end.
  destruct F as [F1 F2].
  { intros nd0 _. cbn. rewrite sl_upd_length. auto. }
  split; auto. split; auto. repeat split; auto.
  - intros m k. unfold sl_NX. rewrite sl_node_at_map.
    destruct (Nat.eqb_spec m n) as [->|_]; auto. rewrite E. reflexivity.
  - intros m k. unfold sl_PV. rewrite sl_node_at_map.
    destruct (Nat.eqb_spec m n) as [->|_]; cbn [andb]; auto. rewrite E. cbn.
    destruct (Nat.eqb_spec k i) as [->|Hk].
    + rewrite sl_upd_nth_same by auto. reflexivity.
    + rewrite sl_upd_nth_other by auto. reflexivity.
Qed.

Lemma sl_set_head_spec s i v :
  sl_wf s -> i < sl_levels s ->
  exists s', sl_set_head s i v = Ok s' /\ sl_wf s' /\ sl_same s s' /\
    (forall m k, sl_NX s' m k = sl_NX s m k) /\
    (forall m k, sl_PV s' m k = sl_PV s m k) /\
    (forall k, sl_HD s' k = if k =? i then v else sl_HD s k) /\ sl_tail s' = sl_tail s.
Proof.
  intros [Wn Wh] H. unfold sl_set_head.
  destruct (Nat.ltb_spec i (length (sl_head s))); [|lia].
  eexists. split; [reflexivity|]. split; [|split].
  - split; [exact Wn|]. cbn. rewrite sl_upd_length. auto.
  - repeat split; auto.
  - repeat split; auto. intros k. unfold sl_HD. cbn [sl_head].
    destruct (Nat.eqb_spec k i) as [->|Hk].
    + rewrite sl_upd_nth_same by auto. reflexivity.
    + rewrite sl_upd_nth_other by auto. reflexivity.
Qed.

Lemma sl_set_tail_spec s v :
  sl_wf s ->
  sl_wf (sl_set_tail s v) /\ sl_same s (sl_set_tail s v) /\
    (forall m k, sl_NX (sl_set_tail s v) m k = sl_NX s m k) /\
    (forall m k, sl_PV (sl_set_tail s v) m k = sl_PV s m k) /\
    (forall k, sl_HD (sl_set_tail s v) k = sl_HD s k) /\ sl_tail (sl_set_tail s v) = v.
Proof.
  intros [Wn Wh]. split; [split; [exact Wn|exact Wh]|]. repeat split; auto.
Qed.


(* ------------------------------------------------------------------------------------ *)
(* level chains and the structural invariant *)

Definition sl_chain (lev : nat -> nat) (k : nat) (l : list nat) : list nat :=
  filter (fun n => k <? lev n) l.

Lemma sl_chain_app lev k l1 l2 : sl_chain lev k (l1 ++ l2) = sl_chain lev k l1 ++ sl_chain lev k l2.
Proof. apply filter_app. Qed.

Lemma sl_chain_in lev k l y : In y (sl_chain lev k l) <-> In y l /\ k < lev y.
Proof. unfold sl_chain. rewrite filter_In, Nat.ltb_lt. tauto. Qed.

Lemma sl_chain_nodup lev k l : NoDup l -> NoDup (sl_chain lev k l).
Proof. apply NoDup_filter. Qed.

Lemma sl_chain_0 lev l : (forall y, In y l -> 0 < lev y) -> sl_chain lev 0 l = l.
Proof.
  induction l as [|a l IH]; intros H; simpl; auto.
  destruct (Nat.ltb_spec 0 (lev a)) as [_|Hn].
  - f_equal. apply IH. intros y Hy. apply H; right; auto.
  - specialize (H a (or_introl eq_refl)). lia.
Qed.

Lemma sl_chain_ext lev lev' k l : (forall y, lev' y = lev y) -> sl_chain lev' k l = sl_chain lev k l.
Proof. intros H. apply filter_ext. intros a. rewrite H. reflexivity. Qed.

Lemma sl_chain_cons lev k x l :
  sl_chain lev k (x :: l) = (if k <? lev x then [x] else []) ++ sl_chain lev k l.
Proof. simpl. destruct (k <? lev x); reflexivity. Qed.

Lemma sl_chain_high lev k l : (forall y, In y l -> lev y <= k) -> sl_chain lev k l = [].
Proof.
  induction l as [|a l IH]; intros H; simpl; auto.
  destruct (Nat.ltb_spec k (lev a)) as [Hn|_].
  - specialize (H a (or_introl eq_refl)). lia.
  - apply IH. intros y Hy. apply H; right; auto.
Qed.

Lemma sl_chain_length lev' k l : length (sl_chain lev' k l) <= length l.
Proof.
  induction l as [|a l IH]; simpl; auto. destruct (k <? lev' a); simpl; lia.
Qed.

Definition sl_lvl_ok (s : slist D) (k : nat) (c : list nat) : Prop :=
  sl_seg (fun n => sl_NX s n k) (sl_HD s k) c None /\ sl_bwd (fun n => sl_PV s n k) None c.

Lemma sl_lvl_ok_ext s s' k c :
  (forall y, sl_NX s' y k = sl_NX s y k) -> (forall y, sl_PV s' y k = sl_PV s y k) ->
  sl_HD s' k = sl_HD s k -> sl_lvl_ok s k c -> sl_lvl_ok s' k c.
Proof.
  intros H1 H2 H3 [A B]. split.
  - rewrite H3. eapply sl_seg_ext; [|exact A]. intros; apply H1.
  - eapply sl_bwd_ext; [|exact B]. intros; apply H2.
Qed.

Definition sl_rep (s : slist D) (l : list nat) : Prop :=
  sl_wf s /\ NoDup l /\ (forall n, In n l -> 0 < sl_LEV s n) /\
  (forall k, k < sl_levels s -> sl_lvl_ok s k (sl_chain (sl_LEV s) k l)) /\
  sl_tail s = sl_last l.

Definition sl_gt (s : slist D) (d : D) (y : nat) : Prop :=
  exists dy, sl_DATA s y = Some dy /\ (cmp d dy > 0)%Z.
Definition sl_le (s : slist D) (d : D) (y : nat) : Prop :=
  exists dy, sl_DATA s y = Some dy /\ (cmp d dy <= 0)%Z.

Ltac sl_norm := repeat match goal with
  | H : forall m k, sl_NX ?s m k = _ |- context [sl_NX ?s _ _] => rewrite H
  | H : forall m k, sl_PV ?s m k = _ |- context [sl_PV ?s _ _] => rewrite H
  | H : forall k, sl_HD ?s k = _ |- context [sl_HD ?s _] => rewrite H
  end.
Ltac sl_eqb := repeat match goal with
  | |- context [?a =? ?b] => destruct (Nat.eqb_spec a b); cbn [andb]; try lia; try congruence
  end; try reflexivity; try congruence.

(* ------------------------------------------------------------------------------------ *)
(* ares_slist_node_push *)

Lemma sl_push_scan_ok s d i c2 : forall c1 l cS fuel,
  sl_wf s ->
  sl_seg (fun n => sl_NX s n i) (sl_HD s i) (c1 ++ l :: c2 ++ cS) None ->
  (forall y, In y (l :: c2 ++ cS) -> i < sl_LEV s y) ->
  (forall y, In y c2 -> sl_gt s d y) -> (forall y, In y cS -> sl_le s d y) ->
  length c2 < fuel ->
  exists r, sl_push_scan cmp fuel s d i l = Ok r /\ sl_last (l :: c2) = Some r.
Proof.
  induction c2 as [|m c2 IH]; intros c1 l cS fuel W Hs Hlev Hgt Hle Hf.
  - destruct fuel as [|f]; [lia|]. cbn [sl_push_scan].
    rewrite sl_get_next_ok by (auto; apply Hlev; left; auto). cbn [bind].
    rewrite (sl_seg_next _ _ _ _ _ Hs). cbn [app].
    destruct cS as [|m cS]; cbn [hd_error].
    + exists l. auto.
    + destruct (Hle m (or_introl eq_refl)) as (dm & Em & Hc).
      rewrite (sl_node_data_ok _ _ _ Em). cbn [bind].
      destruct (Z.gtb_spec (cmp d dm) 0); [lia|]. exists l. auto.
  - destruct fuel as [|f]; [simpl in Hf; lia|]. cbn [sl_push_scan].
    rewrite sl_get_next_ok by (auto; apply Hlev; left; auto). cbn [bind].
    rewrite (sl_seg_next _ _ _ _ _ Hs). cbn [app hd_error].
    destruct (Hgt m (or_introl eq_refl)) as (dm & Em & Hc).
    rewrite (sl_node_data_ok _ _ _ Em). cbn [bind].
    destruct (Z.gtb_spec (cmp d dm) 0); [|lia].
    destruct (IH (c1 ++ [l]) m cS f) as (r & Er & Hr); auto.
    + rewrite <- app_assoc. exact Hs.
    + intros y Hy. apply Hlev. right; auto.
    + intros y Hy. apply Hgt. right; auto.
    + simpl in Hf. lia.
    + exists r. split; auto.
Qed.

Section PUSH.
Variables (s0 : slist D) (x : nat) (d : D) (Pl Sl : list nat) (fuel : nat).
Hypothesis W0 : sl_wf s0.
Hypothesis ND : NoDup (Pl ++ Sl).
Hypothesis NIx : ~ In x (Pl ++ Sl).
Hypothesis LV : forall y, In y (Pl ++ Sl) -> 0 < sl_LEV s0 y.
Hypothesis LVx : 0 < sl_LEV s0 x.
Hypothesis GT : forall y, In y Pl -> sl_gt s0 d y.
Hypothesis LE : forall y, In y Sl -> sl_le s0 d y.
Hypothesis FU : length (Pl ++ Sl) < fuel.

Let lev := sl_LEV s0.

Definition sl_push_stage (s : slist D) (i : nat) (left : option nat) : Prop :=
  sl_wf s /\ sl_same s0 s /\
  (forall k, i <= k -> k < sl_levels s0 -> sl_lvl_ok s k (sl_chain lev k (Pl ++ x :: Sl))) /\
  (forall k, k < i -> sl_lvl_ok s k (sl_chain lev k (Pl ++ Sl))) /\
  sl_tail s = (if i =? 0 then sl_last (Pl ++ x :: Sl) else sl_last (Pl ++ Sl)) /\
  left = sl_last (sl_chain lev i Pl).

Lemma sl_gt_same s y : sl_same s0 s -> sl_gt s0 d y -> sl_gt s d y.
Proof. intros (A & _) (dy & E & H). exists dy. rewrite A. auto. Qed.
Lemma sl_le_same s y : sl_same s0 s -> sl_le s0 d y -> sl_le s d y.
Proof. intros (A & _) (dy & E & H). exists dy. rewrite A. auto. Qed.

(* assembling the stage after the links of level i have been written *)
Lemma sl_push_link_finish s s2 i left :
  sl_push_stage s (S i) left -> S i <= sl_levels s0 -> i < lev x ->
  sl_wf s2 -> sl_same s s2 ->
  (forall y k, k <> i -> sl_NX s2 y k = sl_NX s y k) ->
  (forall y k, k <> i -> sl_PV s2 y k = sl_PV s y k) ->
  (forall k, k <> i -> sl_HD s2 k = sl_HD s k) ->
  let cP := sl_chain lev i Pl in let cS := sl_chain lev i Sl in
  sl_NX s2 x i = hd_error cS -> sl_PV s2 x i = sl_last cP ->
  match sl_last cP with
  | Some l => sl_NX s2 l i = Some x /\ sl_HD s2 i = sl_HD s i
  | None => sl_HD s2 i = Some x end ->
  (forall y, y <> x -> sl_last cP <> Some y -> sl_NX s2 y i = sl_NX s y i) ->
  match hd_error cS with Some m => sl_PV s2 m i = Some x | None => True end ->
  (forall y, y <> x -> hd_error cS <> Some y -> sl_PV s2 y i = sl_PV s y i) ->
  sl_tail s2 = (if (i =? 0) then match hd_error cS with None => Some x | Some _ => sl_tail s end
                else sl_tail s) ->
  sl_push_stage s2 i (sl_last cP).
Proof.
  intros (W & SM & Hhi & Hlo & Htl & Hleft) Hi Hix W2 SM2 FN FP FH cP cS A1 A2 A3 A4 A5 A6 A7.
  split; [exact W2|]. split; [eapply sl_same_trans; eauto|]. split; [|split; [|split]].
  - intros k Hk Hk2. destruct (Nat.eq_dec k i) as [->|Hne].
    + rewrite sl_chain_app, sl_chain_cons.
      destruct (Nat.ltb_spec i (lev x)) as [_|]; [|lia]. cbn [app].
      fold cP cS.
      assert (Hok : sl_lvl_ok s i (cP ++ cS)).
      { unfold cP, cS. rewrite <- sl_chain_app. apply Hlo. lia. }
      destruct Hok as [Hs Hb].
      assert (NDc : NoDup (cP ++ cS)).
      { unfold cP, cS. rewrite <- sl_chain_app. apply sl_chain_nodup; auto. }
      assert (NIc : ~ In x (cP ++ cS)).
      { unfold cP, cS. rewrite <- sl_chain_app. intros Hin. apply sl_chain_in in Hin. tauto. }
      unfold sl_lvl_ok.
      eapply (sl_dll_insert _ _ _ (fun n => sl_NX s2 n i) (fun n => sl_PV s2 n i) (sl_HD s2 i));
        eauto.
    + apply (sl_lvl_ok_ext s); auto; try (apply Hhi; lia).
  - intros k Hk. apply (sl_lvl_ok_ext s); auto; try (intros; apply FN; lia);
      try (intros; apply FP; lia); try (apply FH; lia); try (apply Hlo; lia).
  - rewrite A7. destruct (Nat.eqb_spec i 0) as [->|Hne].
    + assert (cS = Sl) as ES.
      { unfold cS. apply sl_chain_0. intros y Hy. apply LV, in_or_app; auto. }
      rewrite ES. destruct Sl as [|m Sl'].
      * cbn [hd_error]. rewrite sl_last_app_cons. reflexivity.
      * cbn [hd_error]. rewrite Htl. cbn [Nat.eqb].
        rewrite (sl_last_app_cons Pl Sl' m), (sl_last_app_cons Pl (m :: Sl') x). reflexivity.
    + rewrite Htl. cbn [Nat.eqb]. reflexivity.
  - reflexivity.
Qed.

Lemma sl_push_level_ok s i left :
  sl_push_stage s (S i) left -> S i <= sl_levels s0 ->
  exists s' left', sl_push_level cmp fuel s x d (lev x) i left = Ok (s', left') /\
                   sl_push_stage s' i left'.
Proof.
  intros ST Hi. pose proof ST as (W & SM & Hhi & Hlo & Htl & Hleft).
  pose proof SM as (SMD & SML & SMl & _).
  set (cP := sl_chain lev i Pl). set (cS := sl_chain lev i Sl).
  assert (Hok : sl_lvl_ok s i (cP ++ cS)).
  { unfold cP, cS. rewrite <- sl_chain_app. apply Hlo. lia. }
  destruct Hok as [Hs Hb].
  assert (LVc : forall y, In y (cP ++ cS) -> i < sl_LEV s y).
  { intros y Hy. unfold cP, cS in Hy. rewrite <- sl_chain_app in Hy. apply sl_chain_in in Hy.
    rewrite SML. tauto. }
  assert (GTc : forall y, In y cP -> sl_gt s d y).
  { intros y Hy. apply sl_gt_same; auto. apply GT. apply sl_chain_in in Hy. tauto. }
  assert (LEc : forall y, In y cS -> sl_le s d y).
  { intros y Hy. apply sl_le_same; auto. apply LE. apply sl_chain_in in Hy. tauto. }
  assert (Hil : i < sl_levels s) by lia.
  unfold sl_push_level.
  rewrite sl_get_head_ok by auto. cbn [bind].
  assert (HDi : sl_HD s i = hd_error (cP ++ cS)).
  { apply sl_seg_start in Hs. rewrite Hs. destruct (cP ++ cS); auto. }
  (* left1 *)
  match goal with |- context [bind ?mm _] =>
    assert (L1 : exists left1, mm = Ok left1 /\
              ((left1 = None /\ cP = []) \/
               exists c1 l c2, left1 = Some l /\ cP = c1 ++ l :: c2)) end.
  { destruct left as [l|].
    - exists (Some l). split; auto. right.
      symmetry in Hleft. apply sl_last_some in Hleft. destruct Hleft as (c' & Hc').
      assert (In l cP) as Hin.
      { assert (In l (sl_chain lev (S i) Pl)) as H by (rewrite Hc'; apply in_or_app; right; left; auto).
        apply sl_chain_in in H. apply sl_chain_in. split; [tauto|lia]. }
      apply in_split in Hin. destruct Hin as (c1 & c2 & E). exists c1, l, c2. auto.
    - rewrite HDi. destruct cP as [|m cP'].
      + cbn [app]. destruct cS as [|m cS'] eqn:ES; cbn [hd_error].
        * exists None. auto.
        * destruct (LEc m (or_introl eq_refl)) as (dm & Em & Hc).
          rewrite (sl_node_data_ok _ _ _ Em). cbn [bind].
          destruct (Z.gtb_spec (cmp d dm) 0); [lia|]. exists None. auto.
      + cbn [app hd_error].
        destruct (GTc m (or_introl eq_refl)) as (dm & Em & Hc).
        rewrite (sl_node_data_ok _ _ _ Em). cbn [bind].
        destruct (Z.gtb_spec (cmp d dm) 0); [|lia]. exists (Some m). split; auto.
        right. exists [], m, cP'. auto. }
  destruct L1 as (left1 & -> & L1). cbn [bind].
  (* left2 *)
  match goal with |- context [bind ?mm _] =>
    assert (L2 : mm = Ok (sl_last cP)) end.
  { destruct L1 as [[-> E]|(c1 & l & c2 & -> & E)].
    - rewrite E. reflexivity.
    - destruct (sl_push_scan_ok s d i c2 c1 l cS fuel) as (r & Er & Hr); auto.
      + rewrite E in Hs. rewrite <- app_assoc in Hs. exact Hs.
      + intros y Hy. apply LVc. rewrite E, <- app_assoc. apply in_or_app. right. exact Hy.
      + intros y Hy. apply GTc. rewrite E. apply in_or_app. right. right. auto.
      + assert (length cP <= length Pl) by apply sl_chain_length.
        rewrite E, app_length in H. simpl in H. rewrite app_length in FU. lia.
      + rewrite Er. cbn [bind]. rewrite E, sl_last_app_cons, Hr. reflexivity. }
  rewrite L2. cbn [bind]. clear L1 L2.
  destruct (Nat.leb_spec (lev x) i) as [Hge|Hlt].
  { (* this level is only searched *)
    exists s, (sl_last cP). split; auto.
    split; auto. split; auto. split; [|split; [|split; [|reflexivity]]].
    - intros k Hk Hk2. destruct (Nat.eq_dec k i) as [->|Hne]; [|apply Hhi; lia].
      rewrite sl_chain_app, sl_chain_cons.
      destruct (Nat.ltb_spec i (lev x)); [lia|]. cbn [app]. rewrite <- sl_chain_app. apply Hlo. lia.
    - intros k Hk. apply Hlo. lia.
    - rewrite Htl. cbn [Nat.eqb]. destruct (Nat.eqb_spec i 0); auto. unfold lev in Hge. lia. }
  assert (Hix : i < sl_LEV s x) by (rewrite SML; exact Hlt).
  assert (NIc : ~ In x (cP ++ cS)).
  { unfold cP, cS. rewrite <- sl_chain_app. intros Hin. apply sl_chain_in in Hin. tauto. }
  assert (NXl : forall l, sl_last cP = Some l -> sl_NX s l i = hd_error cS).
  { intros l Hl. apply sl_last_some in Hl. destruct Hl as (c' & Ec).
    rewrite Ec, <- app_assoc in Hs. apply (sl_seg_next _ _ _ _ _ Hs). }
  (* the first group of writes *)
  match goal with |- context [bind ?mm _] =>
    assert (S1 : exists s1, mm = Ok s1 /\ sl_wf s1 /\ sl_same s s1 /\
      (forall m k, sl_NX s1 m k =
         if (m =? x) && (k =? i) then hd_error cS
         else match sl_last cP with
              | Some l => if (m =? l) && (k =? i) then Some x else sl_NX s m k
              | None => sl_NX s m k end) /\
      (forall m k, sl_PV s1 m k = if (m =? x) && (k =? i) then sl_last cP else sl_PV s m k) /\
      (forall k, sl_HD s1 k = match sl_last cP with
                              | Some _ => sl_HD s k
                              | None => if k =? i then Some x else sl_HD s k end) /\
      sl_tail s1 = sl_tail s) end.
  { destruct (sl_last cP) as [l|] eqn:EL.
    - assert (Hl : In l cP).
      { apply sl_last_some in EL. destruct EL as (c' & ->). apply in_or_app; right; left; auto. }
      assert (Hlx : l <> x) by (intros ->; apply NIc, in_or_app; auto).
      rewrite sl_get_next_ok by (auto; apply LVc, in_or_app; auto). cbn [bind].
      rewrite (NXl l eq_refl).
      destruct (sl_set_next_spec s x i (hd_error cS) W Hix) as (sa & -> & Wa & Sa & NXa & PVa & HDa & TLa).
      cbn [bind].
      destruct (sl_set_prev_spec sa x i (Some l) Wa) as (sb & -> & Wb & Sb & NXb & PVb & HDb & TLb).
      { destruct Sa as (_ & -> & _). auto. }
      cbn [bind].
      destruct (sl_set_next_spec sb l i (Some x) Wb) as (sc & -> & Wc & Sc & NXc & PVc & HDc & TLc).
      { destruct Sb as (_ & -> & _). destruct Sa as (_ & -> & _). apply LVc, in_or_app; auto. }
      exists sc. split; auto. split; auto.
      split; [eapply sl_same_trans; [|exact Sc]; eapply sl_same_trans; eauto|].
      split; [|split; [|split]].
      + intros m k. sl_norm. sl_eqb.
      + intros m k. sl_norm. reflexivity.
      + intros k. sl_norm. reflexivity.
      + congruence.
    - apply sl_last_none in EL.
      assert (HDs : sl_HD s i = hd_error cS) by (rewrite HDi, EL; auto).
      rewrite HDs.
      destruct (sl_set_next_spec s x i (hd_error cS) W Hix) as (sa & -> & Wa & Sa & NXa & PVa & HDa & TLa).
      cbn [bind].
      destruct (sl_set_prev_spec sa x i None Wa) as (sb & -> & Wb & Sb & NXb & PVb & HDb & TLb).
      { destruct Sa as (_ & -> & _). auto. }
      cbn [bind].
      destruct (sl_set_head_spec sb i (Some x) Wb) as (sc & -> & Wc & Sc & NXc & PVc & HDc & TLc).
      { destruct Sb as (_ & _ & -> & _). destruct Sa as (_ & _ & -> & _). auto. }
      exists sc. split; auto. split; auto.
      split; [eapply sl_same_trans; [|exact Sc]; eapply sl_same_trans; eauto|].
      split; [|split; [|split]].
      + intros m k. sl_norm. reflexivity.
      + intros m k. sl_norm. reflexivity.
      + intros k. sl_norm. reflexivity.
      + congruence. }
  destruct S1 as (s1 & -> & W1 & SM1 & NX1 & PV1 & HD1 & TL1). cbn [bind].
  assert (Hix1 : i < sl_LEV s1 x) by (destruct SM1 as (_ & -> & _); auto).
  rewrite sl_get_next_ok by auto. cbn [bind].
  assert (NN : sl_NX s1 x i = hd_error cS).
  { rewrite NX1. rewrite !Nat.eqb_refl. reflexivity. }
  rewrite NN.
  (* the second write *)
  match goal with |- context [bind ?mm _] =>
    assert (S2 : exists s2, mm = Ok s2 /\ sl_wf s2 /\ sl_same s1 s2 /\
      (forall m k, sl_NX s2 m k = sl_NX s1 m k) /\
      (forall m k, sl_PV s2 m k =
         match hd_error cS with
         | Some m' => if (m =? m') && (k =? i) then Some x else sl_PV s1 m k
         | None => sl_PV s1 m k end) /\
      (forall k, sl_HD s2 k = sl_HD s1 k) /\
      sl_tail s2 = (if i =? 0 then match hd_error cS with None => Some x | Some _ => sl_tail s1 end
                    else sl_tail s1)) end.
  { destruct (hd_error cS) as [m'|] eqn:EH.
    - assert (Hm : In m' cS) by (destruct cS; [discriminate|]; injection EH as ->; left; auto).
      destruct (sl_set_prev_spec s1 m' i (Some x) W1) as (sd & -> & Wd & Sd & NXd & PVd & HDd & TLd).
      { destruct SM1 as (_ & -> & _). apply LVc, in_or_app; auto. }
      exists sd. split; [reflexivity|]. split; [exact Wd|]. split; [exact Sd|].
      split; [exact NXd|]. split; [exact PVd|]. split; [exact HDd|].
      rewrite TLd. destruct (i =? 0); auto.
    - destruct (Nat.eqb_spec i 0) as [->|Hne].
      + eexists. split; [reflexivity|].
        destruct (sl_set_tail_spec s1 (Some x) W1) as (A & B & C & E & F & G).
        split; [exact A|]. split; [exact B|]. split; [exact C|]. split; [exact E|].
        split; [exact F|]. exact G.
      + exists s1. split; [reflexivity|]. split; [exact W1|]. split; [apply sl_same_refl|].
        split; [reflexivity|]. split; [reflexivity|]. split; reflexivity. }
  destruct S2 as (s2 & -> & W2 & SM2 & NX2 & PV2 & HD2 & TL2). cbn [bind].
  exists s2, (sl_last cP). split; auto.
  apply (sl_push_link_finish s s2 i left); auto.
  - eapply sl_same_trans; eauto.
  - intros y k Hk. sl_norm. destruct (sl_last cP); sl_eqb.
  - intros y k Hk. sl_norm. destruct (hd_error cS); sl_eqb.
  - intros k Hk. sl_norm. destruct (sl_last cP); sl_eqb.
  - fold cS. sl_norm. rewrite !Nat.eqb_refl. reflexivity.
  - fold cP. sl_norm.
    assert (forall m', hd_error cS = Some m' -> x <> m') as Hxm.
    { intros m' EH ->. apply NIc, in_or_app. right. destruct cS; [discriminate|].
      injection EH as ->. left; auto. }
    destruct (hd_error cS) as [m'|] eqn:EH.
    + specialize (Hxm m' eq_refl). sl_eqb.
    + rewrite !Nat.eqb_refl. reflexivity.
  - fold cP. destruct (sl_last cP) as [l|] eqn:EL.
    + assert (Hlx : l <> x).
      { intros ->. apply NIc, in_or_app. left.
        apply sl_last_some in EL. destruct EL as (c' & ->). apply in_or_app; right; left; auto. }
      split.
      * sl_norm. try rewrite EL. sl_eqb.
      * sl_norm. try rewrite EL. reflexivity.
    + sl_norm. try rewrite EL. rewrite Nat.eqb_refl. reflexivity.
  - fold cP. intros y Hy Hyl. sl_norm. destruct (sl_last cP) as [l|]; sl_eqb.
  - fold cS. destruct (hd_error cS) as [m'|] eqn:EH; auto. sl_norm. try rewrite EH.
    rewrite !Nat.eqb_refl. reflexivity.
  - fold cS. intros y Hy Hym. sl_norm. destruct (hd_error cS) as [m'|]; sl_eqb.
  - fold cS. rewrite TL2, TL1. reflexivity.
Qed.

Lemma sl_push_levels_ok : forall i s left,
  sl_push_stage s i left -> i <= sl_levels s0 ->
  exists s', sl_push_levels cmp fuel s x d (lev x) i left = Ok s' /\
             exists left', sl_push_stage s' 0 left'.
Proof.
  induction i as [|i IH]; intros s left ST Hi.
  - exists s. split; auto. exists left. exact ST.
  - cbn [sl_push_levels].
    destruct (sl_push_level_ok s i left ST Hi) as (s' & left' & E & ST').
    rewrite E. cbn [bind fst snd]. apply IH; auto. lia.
Qed.

End PUSH.


Lemma sl_nodup_insert {A} (l1 l2 : list A) x : NoDup (l1 ++ l2) -> ~ In x (l1 ++ l2) -> NoDup (l1 ++ x :: l2).
Proof.
  induction l1 as [|a l1 IH]; simpl; intros ND NI.
  - constructor; auto.
  - apply NoDup_cons_iff in ND. destruct ND as [Ha ND]. constructor.
    + intros Hin. apply in_app_or in Hin. destruct Hin as [Hin|[->|Hin]].
      * apply Ha, in_or_app; auto.
      * apply NI; auto.
      * apply Ha, in_or_app; auto.
    + apply IH; auto.
Qed.

Lemma sl_node_push_ok s x d Pl Sl :
  sl_rep s (Pl ++ Sl) -> ~ In x (Pl ++ Sl) -> 0 < sl_LEV s x -> sl_DATA s x = Some d ->
  (forall y, In y Pl -> sl_gt s d y) -> (forall y, In y Sl -> sl_le s d y) ->
  length (Pl ++ Sl) <= sl_cnt s ->
  exists s', sl_node_push cmp s x = Ok s' /\ sl_rep s' (Pl ++ x :: Sl) /\ sl_same s s'.
Proof.
  intros (W & ND & LV & LK & TL) NI LVx DX GT LE CNT.
  unfold sl_node_push, sl_load.
  pose proof (sl_wf_LEV s x W) as Hxl.
  unfold sl_DATA in DX. unfold sl_LEV in LVx, Hxl.
  destruct (sl_node_at s x) as [nd|] eqn:EX; [|discriminate]. cbn [bind].
  simpl in DX. injection DX as DX.
  assert (ELX : sl_LEV s x = sn_levels nd) by (unfold sl_LEV; rewrite EX; auto).
  rewrite DX.
  assert (ST : sl_push_stage s x Pl Sl s (sl_levels s) None).
  { split; [exact W|]. split; [apply sl_same_refl|]. split; [|split; [|split]].
    - intros k H1 H2. lia.
    - intros k Hk. apply LK; auto.
    - destruct (Nat.eqb_spec (sl_levels s) 0); [lia|]. exact TL.
    - rewrite sl_chain_high; auto. intros y Hy. apply sl_wf_LEV; auto. }
  destruct (sl_push_levels_ok s x d Pl Sl (S (sl_cnt s)) ND NI LV) with (i := sl_levels s) (s := s) (left := @None nat)
    as (s' & E & left' & ST'); auto; try lia.
  rewrite ELX in E.
  exists s'. split; [exact E|].
  destruct ST' as (W' & SM' & Hhi & _ & TL' & _).
  pose proof SM' as (_ & SML & SMl & _).
  split; [|exact SM'].
  split; [exact W'|]. split; [apply sl_nodup_insert; auto|]. split; [|split].
  - intros n Hn. rewrite SML. apply in_app_or in Hn. destruct Hn as [Hn|[<-|Hn]].
    + apply LV, in_or_app; auto.
    + rewrite ELX; auto.
    + apply LV, in_or_app; auto.
  - intros k Hk. rewrite (sl_chain_ext (sl_LEV s)) by exact SML. apply Hhi; lia.
  - exact TL'.
Qed.


(* ------------------------------------------------------------------------------------ *)
(* ares_slist_node_pop *)

Lemma sl_lvl_ok_ext_in s s' k c :
  (forall y, In y c -> sl_NX s' y k = sl_NX s y k) -> (forall y, In y c -> sl_PV s' y k = sl_PV s y k) ->
  sl_HD s' k = sl_HD s k -> sl_lvl_ok s k c -> sl_lvl_ok s' k c.
Proof.
  intros H1 H2 H3 [A B]. split.
  - rewrite H3. eapply sl_seg_ext; [|exact A]. intros; apply H1; auto.
  - eapply sl_bwd_ext; [|exact B]. intros; apply H2; auto.
Qed.

Section POP.
Variables (s0 : slist D) (x : nat) (L1 L2 : list nat).
Hypothesis W0 : sl_wf s0.
Hypothesis ND : NoDup (L1 ++ x :: L2).
Hypothesis LV : forall y, In y (L1 ++ x :: L2) -> 0 < sl_LEV s0 y.

Let lev := sl_LEV s0.

Definition sl_pop_stage (s : slist D) (i : nat) : Prop :=
  sl_wf s /\ sl_same s0 s /\
  (forall k, i <= k -> k < sl_levels s0 -> sl_lvl_ok s k (sl_chain lev k (L1 ++ L2))) /\
  (forall k, k < i -> sl_lvl_ok s k (sl_chain lev k (L1 ++ x :: L2))) /\
  sl_tail s = (if i =? 0 then sl_last (L1 ++ L2) else sl_last (L1 ++ x :: L2)).

Lemma sl_pop_level_ok s i :
  sl_pop_stage s (S i) -> S i <= lev x ->
  exists s', sl_pop_level s x i = Ok s' /\ sl_pop_stage s' i.
Proof.
  intros (W & SM & Hhi & Hlo & Htl) Hi.
  pose proof SM as (SMD & SML & SMl & _).
  set (cP := sl_chain lev i L1). set (cS := sl_chain lev i L2).
  assert (Hxl : lev x <= sl_levels s0) by (apply sl_wf_LEV; auto).
  assert (EC : sl_chain lev i (L1 ++ x :: L2) = cP ++ x :: cS).
  { rewrite sl_chain_app, sl_chain_cons. destruct (Nat.ltb_spec i (lev x)); [|lia]. reflexivity. }
  assert (Hok : sl_lvl_ok s i (cP ++ x :: cS)) by (rewrite <- EC; apply Hlo; lia).
  destruct Hok as [Hs Hb].
  assert (NDc : NoDup (cP ++ x :: cS)) by (rewrite <- EC; apply sl_chain_nodup; auto).
  assert (LVc : forall y, In y (cP ++ x :: cS) -> i < sl_LEV s y).
  { intros y Hy. rewrite <- EC in Hy. apply sl_chain_in in Hy. rewrite SML. tauto. }
  assert (Hix : i < sl_LEV s x) by (apply LVc, in_or_app; right; left; auto).
  assert (NXx : sl_NX s x i = hd_error cS) by (apply (sl_seg_next _ _ _ _ _ Hs)).
  assert (PVx : sl_PV s x i = sl_last cP) by (apply (sl_bwd_prev _ _ _ _ Hb)).
  assert (Hil : i < sl_levels s) by lia.
  unfold sl_pop_level.
  rewrite sl_get_next_ok by auto. cbn [bind]. rewrite NXx.
  (* first statement *)
  match goal with |- context [bind ?mm _] =>
    assert (S1 : exists s1, mm = Ok s1 /\ sl_wf s1 /\ sl_same s s1 /\
      (forall m k, sl_NX s1 m k = sl_NX s m k) /\
      (forall m k, sl_PV s1 m k =
         match hd_error cS with
         | Some m' => if (m =? m') && (k =? i) then sl_last cP else sl_PV s m k
         | None => sl_PV s m k end) /\
      (forall k, sl_HD s1 k = sl_HD s k) /\
      sl_tail s1 = (if i =? 0 then match hd_error cS with None => sl_last cP | Some _ => sl_tail s end
                    else sl_tail s)) end.
  { destruct (hd_error cS) as [m'|] eqn:EH.
    - assert (Hm : In m' cS) by (destruct cS; [discriminate|]; injection EH as ->; left; auto).
      rewrite sl_get_prev_ok by auto. cbn [bind]. rewrite PVx.
      destruct (sl_set_prev_spec s m' i (sl_last cP) W) as (sd & -> & Wd & Sd & NXd & PVd & HDd & TLd).
      { apply LVc, in_or_app. right. right. auto. }
      exists sd. split; [reflexivity|]. split; [exact Wd|]. split; [exact Sd|].
      split; [exact NXd|]. split; [exact PVd|]. split; [exact HDd|].
      rewrite TLd. destruct (i =? 0); auto.
    - destruct (Nat.eqb_spec i 0) as [->|Hne].
      + rewrite sl_get_prev_ok by auto. cbn [bind]. rewrite PVx.
        eexists. split; [reflexivity|].
        destruct (sl_set_tail_spec s (sl_last cP) W) as (A & B & C & E & F & G).
        split; [exact A|]. split; [exact B|]. split; [exact C|]. split; [exact E|].
        split; [exact F|]. exact G.
      + exists s. split; [reflexivity|]. split; [exact W|]. split; [apply sl_same_refl|].
        split; [reflexivity|]. split; [reflexivity|]. split; reflexivity. }
  destruct S1 as (s1 & -> & W1 & SM1 & NX1 & PV1 & HD1 & TL1). cbn [bind].
  assert (Hix1 : i < sl_LEV s1 x) by (destruct SM1 as (_ & -> & _); auto).
  assert (Hxm : forall m', hd_error cS = Some m' -> x <> m').
  { intros m' EH ->. apply NoDup_remove_2 in NDc. apply NDc, in_or_app. right.
    destruct cS; [discriminate|]. injection EH as ->. left; auto. }
  rewrite sl_get_prev_ok by auto. cbn [bind].
  assert (PVx1 : sl_PV s1 x i = sl_last cP).
  { rewrite PV1. destruct (hd_error cS) as [m'|] eqn:EH; auto.
    specialize (Hxm m' eq_refl). sl_eqb. }
  rewrite PVx1.
  (* second statement *)
  match goal with |- exists s', ?mm = Ok s' /\ _ =>
    assert (S2 : exists s2, mm = Ok s2 /\ sl_wf s2 /\ sl_same s1 s2 /\
      (forall m k, sl_NX s2 m k =
         match sl_last cP with
         | Some l => if (m =? l) && (k =? i) then hd_error cS else sl_NX s1 m k
         | None => sl_NX s1 m k end) /\
      (forall m k, sl_PV s2 m k = sl_PV s1 m k) /\
      (forall k, sl_HD s2 k = match sl_last cP with
                              | Some _ => sl_HD s1 k
                              | None => if k =? i then hd_error cS else sl_HD s1 k end) /\
      sl_tail s2 = sl_tail s1) end.
  { destruct (sl_last cP) as [l|] eqn:EL.
    - assert (Hl : In l cP).
      { apply sl_last_some in EL. destruct EL as (c' & ->). apply in_or_app; right; left; auto. }
      rewrite sl_get_next_ok by auto. cbn [bind]. rewrite NX1, NXx.
      destruct (sl_set_next_spec s1 l i (hd_error cS) W1) as (sc & -> & Wc & Sc & NXc & PVc & HDc & TLc).
      { destruct SM1 as (_ & -> & _). apply LVc, in_or_app; auto. }
      exists sc. split; [reflexivity|]. split; [exact Wc|]. split; [exact Sc|].
      split; [exact NXc|]. split; [exact PVc|]. split; [exact HDc|]. exact TLc.
    - rewrite sl_get_next_ok by auto. cbn [bind]. rewrite NX1, NXx.
      destruct (sl_set_head_spec s1 i (hd_error cS) W1) as (sc & -> & Wc & Sc & NXc & PVc & HDc & TLc).
      { destruct SM1 as (_ & _ & -> & _). auto. }
      exists sc. split; [reflexivity|]. split; [exact Wc|]. split; [exact Sc|].
      split; [exact NXc|]. split; [exact PVc|]. split; [exact HDc|]. exact TLc. }
  destruct S2 as (s2 & -> & W2 & SM2 & NX2 & PV2 & HD2 & TL2).
  exists s2. split; [reflexivity|].
  split; [exact W2|]. split; [eapply sl_same_trans; [exact SM|]; eapply sl_same_trans; eauto|].
  split; [|split].
  - intros k Hk Hk2. destruct (Nat.eq_dec k i) as [->|Hne].
    + rewrite sl_chain_app. fold cP cS. unfold sl_lvl_ok.
      eapply (sl_dll_remove _ _ _ (fun n => sl_NX s2 n i) (fun n => sl_PV s2 n i) (sl_HD s2 i)
                            cP cS x NDc Hs Hb).
      * destruct (sl_last cP) as [l|] eqn:EL.
        -- split.
           ++ sl_norm. try rewrite EL. sl_eqb.
           ++ sl_norm. try rewrite EL. reflexivity.
        -- sl_norm. try rewrite EL. rewrite Nat.eqb_refl. reflexivity.
      * intros y Hy Hyl. sl_norm. destruct (sl_last cP) as [l|]; sl_eqb.
      * destruct (hd_error cS) as [m'|] eqn:EH; auto. sl_norm. try rewrite EH.
        rewrite !Nat.eqb_refl. reflexivity.
      * intros y Hy Hym. sl_norm. destruct (hd_error cS) as [m'|]; sl_eqb.
    + apply (sl_lvl_ok_ext s).
      * intros y. sl_norm. destruct (sl_last cP); sl_eqb.
      * intros y. sl_norm. destruct (hd_error cS); sl_eqb.
      * sl_norm. destruct (sl_last cP); sl_eqb.
      * apply Hhi; lia.
  - intros k Hk. apply (sl_lvl_ok_ext s).
    + intros y. sl_norm. destruct (sl_last cP); sl_eqb.
    + intros y. sl_norm. destruct (hd_error cS); sl_eqb.
    + sl_norm. destruct (sl_last cP); sl_eqb.
    + apply Hlo; lia.
  - rewrite TL2, TL1, Htl. cbn [Nat.eqb].
    destruct (Nat.eqb_spec i 0) as [->|Hne]; auto.
    assert (cS = L2) as ES.
    { unfold cS. apply sl_chain_0. intros y Hy. apply LV, in_or_app; right; right; auto. }
    assert (cP = L1) as EP.
    { unfold cP. apply sl_chain_0. intros y Hy. apply LV, in_or_app; auto. }
    rewrite ES, EP. destruct L2 as [|m L2'].
    + cbn [hd_error]. rewrite app_nil_r. reflexivity.
    + cbn [hd_error]. rewrite (sl_last_app_cons L1 L2' m), (sl_last_app_cons L1 (m :: L2') x). reflexivity.
Qed.

Lemma sl_pop_levels_ok : forall i s,
  sl_pop_stage s i -> i <= lev x ->
  exists s', sl_pop_levels s x i = Ok s' /\ sl_pop_stage s' 0.
Proof.
  induction i as [|i IH]; intros s ST Hi.
  - exists s. split; auto.
  - cbn [sl_pop_levels].
    destruct (sl_pop_level_ok s i ST Hi) as (s' & E & ST').
    rewrite E. cbn [bind]. apply IH; auto. lia.
Qed.

End POP.

Lemma sl_node_pop_ok s x L1 L2 :
  sl_rep s (L1 ++ x :: L2) ->
  exists s', sl_node_pop s x = Ok s' /\ sl_rep s' (L1 ++ L2) /\ sl_same s s'.
Proof.
  intros (W & ND & LV & LK & TL).
  assert (LVx : 0 < sl_LEV s x) by (apply LV, in_or_app; right; left; auto).
  unfold sl_node_pop, sl_load.
  pose proof (sl_wf_LEV s x W) as Hxl.
  assert (EL : exists nd, sl_node_at s x = Some nd /\ sl_LEV s x = sn_levels nd).
  { unfold sl_LEV in *. destruct (sl_node_at s x) as [nd|]; [eauto|lia]. }
  destruct EL as (nd & EX & ELX). rewrite EX. cbn [bind]. rewrite <- ELX.
  assert (ST : sl_pop_stage s x L1 L2 s (sl_LEV s x)).
  { split; [exact W|]. split; [apply sl_same_refl|]. split; [|split].
    - intros k H1 H2. specialize (LK k H2). rewrite sl_chain_app, sl_chain_cons in LK.
      destruct (Nat.ltb_spec k (sl_LEV s x)); [lia|]. rewrite sl_chain_app. exact LK.
    - intros k Hk. apply LK. lia.
    - destruct (Nat.eqb_spec (sl_LEV s x) 0); [lia|]. exact TL. }
  destruct (sl_pop_levels_ok s x L1 L2 W ND LV (sl_LEV s x) s ST) as (s1 & E & ST1); auto.
  rewrite E. cbn [bind].
  destruct ST1 as (W1 & SM1 & Hhi & _ & TL1).
  pose proof SM1 as (SMD & SML & SMl & _).
  assert (EX1 : exists nd1, sl_node_at s1 x = Some nd1).
  { apply sl_LEV_live. rewrite SML. exact LVx. }
  destruct EX1 as (nd1 & EX1). rewrite EX1. cbn [bind].
  eexists. split; [reflexivity|].
  match goal with |- sl_rep (sl_map_node s1 x ?f) _ /\ _ => pose proof (sl_map_node_frame s1 x f W1) as F end.
  destruct F as [F1 F2].
  { intros nd0 H0. cbn. rewrite !repeat_length.
    destruct W1 as [W1 _]. apply W1 in H0. unfold sl_node_wf in H0. repeat split; lia. }
  split; [|eapply sl_same_trans; eauto].
  set (s2 := sl_map_node s1 x _) in *.
  pose proof F2 as (_ & SML2 & SMl2 & _).
  assert (NIx : ~ In x (L1 ++ L2)) by (apply NoDup_remove_2 in ND; exact ND).
  split; [exact F1|]. split; [apply NoDup_remove_1 in ND; exact ND|]. split; [|split].
  - intros n Hn. rewrite SML2, SML. apply LV. apply in_app_or in Hn. apply in_or_app.
    destruct Hn; [left|right; right]; auto.
  - intros k Hk. rewrite SMl2, SMl in Hk.
    rewrite (sl_chain_ext (sl_LEV s)) by (intros y; rewrite SML2, SML; reflexivity).
    apply (sl_lvl_ok_ext_in s1); [| |reflexivity|apply Hhi; lia].
    + intros y Hy. apply sl_chain_in in Hy. destruct Hy as [Hy _].
      unfold sl_NX, s2. rewrite sl_node_at_map.
      destruct (Nat.eqb_spec y x) as [->|_]; [tauto|reflexivity].
    + intros y Hy. apply sl_chain_in in Hy. destruct Hy as [Hy _].
      unfold sl_PV, s2. rewrite sl_node_at_map.
      destruct (Nat.eqb_spec y x) as [->|_]; [tauto|reflexivity].
  - exact TL1.
Qed.



(* ------------------------------------------------------------------------------------ *)
(* the comparison callback: what the code needs is a total preorder given by the sign of cmp *)

Section CMP.
Hypothesis cmp_anti : forall a b, (cmp a b > 0 <-> cmp b a < 0)%Z.
Hypothesis cmp_trans : forall a b c, (cmp a b <= 0 -> cmp b c <= 0 -> cmp a c <= 0)%Z.

Lemma sl_cmp_eq_sym a b : (cmp a b = 0 -> cmp b a = 0)%Z.
Proof. pose proof (cmp_anti a b). pose proof (cmp_anti b a). lia. Qed.

Lemma sl_cmp_refl a : (cmp a a = 0)%Z.
Proof. pose proof (cmp_anti a a). lia. Qed.

(* d' <= n < v  ->  d' < v *)
Lemma sl_cmp_L1 v n d' : (cmp v n > 0 -> cmp d' n <= 0 -> cmp v d' > 0)%Z.
Proof.
  intros H1 H2. destruct (Z_le_gt_dec (cmp v d') 0) as [H|H]; auto.
  pose proof (cmp_trans v d' n H H2). lia.
Qed.

(* v < m <= d'  ->  v < d' *)
Lemma sl_cmp_L2 v m d' : (cmp v m < 0 -> cmp m d' <= 0 -> cmp v d' < 0)%Z.
Proof.
  intros H1 H2. destruct (Z_lt_ge_dec (cmp v d') 0) as [H|H]; auto.
  pose proof (cmp_anti v d'). pose proof (cmp_anti d' v).
  assert (cmp d' v <= 0)%Z as Hdv by lia.
  pose proof (cmp_trans m d' v H2 Hdv). pose proof (cmp_anti m v). lia.
Qed.

Fixpoint sl_sorted (l : list D) : Prop :=
  match l with
  | [] => True
  | a :: t => (forall b, In b t -> (cmp a b <= 0)%Z) /\ sl_sorted t
  end.

Lemma sl_sorted_app_le l1 l2 a b : sl_sorted (l1 ++ l2) -> In a l1 -> In b l2 -> (cmp a b <= 0)%Z.
Proof.
  induction l1 as [|c l1 IH]; simpl; intros H Ha Hb; [tauto|]. destruct H as [H1 H2].
  destruct Ha as [->|Ha]; [apply H1, in_or_app; auto|]. apply IH; auto.
Qed.

Lemma sl_sorted_app_r l1 l2 : sl_sorted (l1 ++ l2) -> sl_sorted l2.
Proof. induction l1 as [|c l1 IH]; simpl; auto. intros [_ H]; auto. Qed.

Lemma sl_sorted_remove l1 x l2 : sl_sorted (l1 ++ x :: l2) -> sl_sorted (l1 ++ l2).
Proof.
  induction l1 as [|c l1 IH]; simpl; intros H; [tauto|]. destruct H as [H1 H2].
  split; auto. intros b Hb. apply H1. apply in_app_or in Hb. apply in_or_app.
  destruct Hb; [left|right; right]; auto.
Qed.

Lemma sl_sorted_insert l1 x l2 :
  sl_sorted (l1 ++ l2) -> (forall a, In a l1 -> (cmp a x <= 0)%Z) -> (forall b, In b l2 -> (cmp x b <= 0)%Z) ->
  sl_sorted (l1 ++ x :: l2).
Proof.
  induction l1 as [|c l1 IH]; simpl; intros H Ha Hb.
  - split; auto.
  - destruct H as [H1 H2]. split.
    + intros b Hin. apply in_app_or in Hin. destruct Hin as [Hin|[<-|Hin]].
      * apply H1, in_or_app; auto.
      * apply Ha; auto.
      * apply H1, in_or_app; auto.
    + apply IH; auto.
Qed.

(* where sl_spec_ins puts a new element *)
Lemma sl_spec_ins_split (x : nat * D) (sp : list (nat * D)) :
  sl_sorted (map snd sp) ->
  exists Pl Sl, sp = Pl ++ Sl /\ sl_spec_ins cmp x sp = Pl ++ x :: Sl /\
    (forall e, In e Pl -> (cmp (snd x) (snd e) > 0)%Z) /\
    (forall e, In e Sl -> (cmp (snd x) (snd e) <= 0)%Z).
Proof.
  induction sp as [|y t IH]; intros HS.
  - exists [], []. simpl. repeat split; auto; intros e [].
  - simpl in HS. destruct HS as [H1 H2]. cbn [sl_spec_ins].
    destruct (Z.gtb_spec (cmp (snd x) (snd y)) 0) as [Hgt|Hle].
    + destruct (IH H2) as (Pl & Sl & E1 & E2 & HP & HSl).
      exists (y :: Pl), Sl. rewrite E2, E1. repeat split; auto.
      intros e [<-|He]; auto. lia.
    + exists [], (y :: t). repeat split; auto; [intros e []|].
      intros e [<-|He]; auto.
      apply (cmp_trans _ (snd y)); auto. apply H1. apply in_map; auto.
Qed.

Lemma sl_spec_ins_sorted (x : nat * D) sp :
  sl_sorted (map snd sp) -> sl_sorted (map snd (sl_spec_ins cmp x sp)).
Proof.
  intros HS. destruct (sl_spec_ins_split x sp HS) as (Pl & Sl & E1 & E2 & HP & HSl).
  rewrite E2, map_app. cbn [map]. rewrite E1, map_app in HS. apply sl_sorted_insert; auto.
  - intros a Ha. apply in_map_iff in Ha. destruct Ha as (e & <- & He).
    specialize (HP e He). pose proof (cmp_anti (snd x) (snd e)). lia.
  - intros b Hb. apply in_map_iff in Hb. destruct Hb as (e & <- & He). auto.
Qed.

(* ---- ordering of the level-0 chain in terms of the heap ---- *)
Definition sl_leq (s : slist D) (y z : nat) : Prop :=
  exists dy dz, sl_DATA s y = Some dy /\ sl_DATA s z = Some dz /\ (cmp dy dz <= 0)%Z.
Definition sl_lt0 (s : slist D) (v : D) (y : nat) : Prop :=
  exists dy, sl_DATA s y = Some dy /\ (cmp v dy < 0)%Z.
Definition sl_eq0 (s : slist D) (v : D) (y : nat) : Prop :=
  exists dy, sl_DATA s y = Some dy /\ (cmp v dy = 0)%Z.

Definition sl_ordered (s : slist D) (ids : list nat) : Prop :=
  (forall y, In y ids -> exists dy, sl_DATA s y = Some dy) /\
  (forall A y B z, ids = A ++ y :: B -> In z B -> sl_leq s y z).

Lemma sl_gt_before s v ids A n B y :
  sl_ordered s ids -> ids = A ++ n :: B -> sl_gt s v n -> In y A -> sl_gt s v y.
Proof.
  intros [HD HO] E (dn & En & Hn) Hy.
  apply in_split in Hy. destruct Hy as (A1 & A2 & ->).
  rewrite <- app_assoc in E. cbn [app] in E.
  destruct (HO A1 y (A2 ++ n :: B) n E) as (dy & dn' & Ey & En' & Hc).
  { apply in_or_app. right. left. auto. }
  rewrite En in En'. injection En' as <-.
  exists dy. split; auto. eapply sl_cmp_L1; eauto.
Qed.

Lemma sl_lt_after s v ids A m B y :
  sl_ordered s ids -> ids = A ++ m :: B -> sl_lt0 s v m -> In y B -> sl_lt0 s v y.
Proof.
  intros [HD HO] E (dm & Em & Hm) Hy.
  destruct (HO A m B y E Hy) as (dm' & dy & Em' & Ey & Hc).
  rewrite Em in Em'. injection Em' as <-.
  exists dy. split; auto. eapply sl_cmp_L2; eauto.
Qed.

Lemma sl_filter_split {A} (f : A -> bool) (l : list A) c1 n c2 :
  filter f l = c1 ++ n :: c2 ->
  exists l1 l2, l = l1 ++ n :: l2 /\ c1 = filter f l1 /\ c2 = filter f l2.
Proof.
  revert c1; induction l as [|a l IH]; intros c1 H; simpl in H.
  - destruct c1; discriminate.
  - destruct (f a) eqn:Fa.
    + destruct c1 as [|b c1]; simpl in H.
      * injection H as -> H. exists [], l. simpl. auto.
      * injection H as -> H. destruct (IH c1 H) as (l1 & l2 & -> & -> & ->).
        exists (b :: l1), l2. simpl. rewrite Fa. auto.
    + destruct (IH c1 H) as (l1 & l2 & -> & -> & ->).
      exists (a :: l1), l2. simpl. rewrite Fa. auto.
Qed.

(* ---- ares_slist_node_find ---- *)
Lemma sl_find_scan_ok s v k c2 : forall c1 n fuel,
  sl_wf s -> sl_lvl_ok s k (c1 ++ n :: c2) ->
  (forall y, In y (c1 ++ n :: c2) -> k < sl_LEV s y /\ exists dy, sl_DATA s y = Some dy) ->
  length c2 < fuel ->
  exists node rv, sl_find_scan cmp fuel s v k n = Ok (node, rv) /\
    ( ((rv = 0)%Z /\ exists m, node = Some m /\ In m (n :: c2) /\ sl_eq0 s v m)
    \/ ((rv < 0)%Z /\ exists c2a m c2b, n :: c2 = c2a ++ m :: c2b /\
           (forall y, In y c2a -> sl_gt s v y) /\ sl_lt0 s v m /\ node = sl_last (c1 ++ c2a))
    \/ ((rv > 0)%Z /\ node = None /\ forall y, In y (n :: c2) -> sl_gt s v y) ).
Proof.
  induction c2 as [|m c2 IH]; intros c1 n fuel W [Hs Hb] HL Hf;
    (destruct fuel as [|f]; [simpl in Hf; lia|]); cbn [sl_find_scan];
    destruct (HL n) as (Hkn & dn & En); try (apply in_or_app; right; left; auto);
    rewrite (sl_node_data_ok _ _ _ En); cbn [bind];
    destruct (Z.ltb_spec (cmp v dn) 0) as [Hlt|Hge].
  - rewrite sl_get_prev_ok by auto. cbn [bind]. rewrite (sl_bwd_prev _ _ _ _ Hb).
    do 2 eexists. split; [reflexivity|]. right. left. split; auto.
    exists [], n, []. rewrite app_nil_r. repeat split; auto; [intros y []|]. exists dn; split; auto; lia.
  - destruct (Z.gtb_spec (cmp v dn) 0) as [Hgt|Hle].
    + rewrite sl_get_next_ok by auto. cbn [bind]. rewrite (sl_seg_next _ _ _ _ _ Hs). cbn [hd_error].
      do 2 eexists. split; [reflexivity|]. right. right. repeat split; auto; try lia.
      intros y [<-|[]]. exists dn; split; auto; lia.
    + do 2 eexists. split; [reflexivity|]. left. split; [lia|].
      exists n. repeat split; auto; [left; auto|]. exists dn. split; auto. lia.
  - rewrite sl_get_prev_ok by auto. cbn [bind]. rewrite (sl_bwd_prev _ _ _ _ Hb).
    do 2 eexists. split; [reflexivity|]. right. left. split; auto.
    exists [], n, (m :: c2). rewrite app_nil_r. repeat split; auto; [intros y []|]. exists dn; split; auto; lia.
  - destruct (Z.gtb_spec (cmp v dn) 0) as [Hgt|Hle].
    + rewrite sl_get_next_ok by auto. cbn [bind]. rewrite (sl_seg_next _ _ _ _ _ Hs). cbn [hd_error].
      destruct (IH (c1 ++ [n]) m f W) as (node & rv & E & HR).
      * rewrite <- app_assoc. split; auto.
      * intros y Hy. apply HL. rewrite <- app_assoc in Hy. exact Hy.
      * simpl in Hf. lia.
      * exists node, rv. split; [exact E|].
        assert (Gn : sl_gt s v n) by (exists dn; split; auto; lia).
        destruct HR as [(R0 & m' & -> & Hm' & He)|[(R0 & c2a & m' & c2b & Ec & Hg & Hl & ->)|(R0 & -> & Hg)]].
        -- left. split; auto. exists m'. repeat split; auto. right; auto.
        -- right. left. split; auto. exists (n :: c2a), m', c2b. repeat split; auto.
           ++ cbn [app]. rewrite Ec. reflexivity.
           ++ intros y [<-|Hy]; auto.
           ++ rewrite <- app_assoc. reflexivity.
        -- right. right. repeat split; auto. intros y [<-|Hy]; auto.
    + do 2 eexists. split; [reflexivity|]. left. split; [lia|].
      exists n. repeat split; auto; [left; auto|]. exists dn. split; auto. lia.
Qed.

Lemma sl_not_eq0_gt s v y : sl_gt s v y -> ~ sl_eq0 s v y.
Proof. intros (d1 & E1 & H1) (d2 & E2 & H2). rewrite E1 in E2. injection E2 as <-. lia. Qed.
Lemma sl_not_eq0_lt s v y : sl_lt0 s v y -> ~ sl_eq0 s v y.
Proof. intros (d1 & E1 & H1) (d2 & E2 & H2). rewrite E1 in E2. injection E2 as <-. lia. Qed.

Section FIND.
Variables (s : slist D) (v : D) (ids : list nat) (fuel : nat).
Hypothesis RP : sl_rep s ids.
Hypothesis OR : sl_ordered s ids.
Hypothesis FU : length ids < fuel.


Definition sl_find_inv (i : nat) (node : option nat) : Prop :=
  match node with
  | None => True
  | Some n => In n ids /\ i <= sl_LEV s n /\ sl_gt s v n
  end.

Lemma sl_find_levels_ok : forall i node rv,
  i <= sl_levels s -> rv <> 0%Z -> sl_find_inv i node ->
  (i = 0 -> forall y, In y ids -> ~ sl_eq0 s v y) ->
  exists node' rv', sl_find_levels cmp fuel s v i node rv = Ok (node', rv') /\
    ( ((rv' = 0)%Z /\ exists m, node' = Some m /\ In m ids /\ sl_eq0 s v m)
    \/ (rv' <> 0%Z /\ forall y, In y ids -> ~ sl_eq0 s v y) ).
Proof.
  destruct RP as (W & ND & LV & LK & TL). destruct OR as [ODat OLe].
  induction i as [|i IH]; intros node rv Hi Hrv Hinv Habs.
  - exists node, rv. split; auto.
  - cbn [sl_find_levels].
    set (c := sl_chain (sl_LEV s) i ids).
    assert (Hok : sl_lvl_ok s i c) by (apply LK; lia).
    assert (HLc : forall y, In y c -> i < sl_LEV s y /\ exists dy, sl_DATA s y = Some dy).
    { intros y Hy. apply sl_chain_in in Hy. destruct Hy. split; auto. }
    assert (HDi : sl_HD s i = hd_error c).
    { destruct Hok as [Hs _]. apply sl_seg_start in Hs. rewrite Hs. destruct c; auto. }
    (* node1 and its position in the chain, everything before it is smaller than v *)
    match goal with |- context [bind ?mm _] =>
      assert (N1 : exists node1, mm = Ok node1 /\
        match node1 with
        | None => node = None /\ c = []
        | Some n => exists c1 c2, c = c1 ++ n :: c2 /\ (forall y, In y c1 -> sl_gt s v y) /\
                                  (node = None -> c1 = []) /\ (node <> None -> sl_gt s v n)
        end) end.
    { destruct node as [n|].
      - exists (Some n). split; auto. destruct Hinv as (Hn & Hl & Hg).
        assert (In n c) as Hc by (apply sl_chain_in; split; auto; lia).
        destruct (in_split _ _ Hc) as (c1 & c2 & Ec). exists c1, c2. repeat split; auto; [|congruence].
        intros y Hy. unfold c, sl_chain in Ec. apply sl_filter_split in Ec.
        destruct Ec as (l1 & l2 & Ei & -> & ->).
        apply (sl_gt_before s v ids l1 n l2); auto.
        apply filter_In in Hy. tauto.
      - rewrite sl_get_head_ok by (auto; lia). exists (sl_HD s i). split; auto.
        rewrite HDi. destruct c as [|n c']; cbn [hd_error]; auto.
        exists [], c'. repeat split; auto; [intros y []|congruence]. }
    destruct N1 as (node1 & -> & N1). cbn [bind].
    destruct node1 as [n|].
    + destruct N1 as (c1 & c2 & Ec & Hc1 & Hnone & Hsome).
      destruct (sl_find_scan_ok s v i c2 c1 n fuel W) as (node2 & rv2 & E & HR).
      * rewrite <- Ec. exact Hok.
      * intros y Hy. apply HLc. rewrite Ec. exact Hy.
      * assert (length c <= length ids) by apply sl_chain_length.
        rewrite Ec, app_length in H. simpl in H. lia.
      * rewrite E. cbn [bind fst snd].
        unfold c, sl_chain in Ec. pose proof Ec as Ec'. apply sl_filter_split in Ec'.
        destruct Ec' as (l1 & l2 & Ei & E1 & E2).
        destruct HR as [(R0 & m' & -> & Hm' & He)|[(R0 & c2a & m' & c2b & Ec2 & Hg & Hl & ->)|(R0 & -> & Hg)]].
        -- subst rv2. cbn [Z.eqb]. do 2 eexists. split; [reflexivity|]. left. split; auto.
           exists m'. repeat split; auto.
           assert (In m' c) as Hc by (unfold c, sl_chain; rewrite Ec; apply in_or_app; right; auto).
           apply sl_chain_in in Hc. tauto.
        -- destruct (Z.eqb_spec rv2 0); [lia|].
           (* everything in the chain before m' is smaller than v, m' is larger *)
           assert (Hall : forall y, In y (c1 ++ c2a) -> sl_gt s v y).
           { intros y Hy. apply in_app_or in Hy. destruct Hy; auto. }
           apply IH; auto; try lia.
           ++ destruct (sl_last (c1 ++ c2a)) as [p|] eqn:EL; cbn; auto.
              apply sl_last_some in EL. destruct EL as (c' & EL).
              assert (In p (c1 ++ c2a)) as Hp by (rewrite EL; apply in_or_app; right; left; auto).
              assert (In p c) as Hpc.
              { unfold c, sl_chain. rewrite Ec. rewrite Ec2.
                apply in_app_or in Hp. apply in_or_app. destruct Hp; auto.
                right. apply in_or_app. auto. }
              apply sl_chain_in in Hpc. destruct Hpc. repeat split; auto. lia.
           ++ intros -> y Hy.
              assert (Ec0 : ids = c1 ++ c2a ++ m' :: c2b).
              { rewrite <- Ec2. unfold c in *.
                rewrite <- Ec. symmetry. apply sl_chain_0. exact LV. }
              rewrite Ec0 in Hy. apply in_app_or in Hy. destruct Hy as [Hy|Hy].
              { apply sl_not_eq0_gt. apply Hall, in_or_app; auto. }
              apply in_app_or in Hy. destruct Hy as [Hy|[<-|Hy]].
              { apply sl_not_eq0_gt. apply Hall, in_or_app; auto. }
              { apply sl_not_eq0_lt; auto. }
              apply sl_not_eq0_lt. rewrite app_assoc in Ec0.
              apply (sl_lt_after s v ids (c1 ++ c2a) m' c2b); auto.
        -- destruct (Z.eqb_spec rv2 0); [lia|].
           apply IH; auto; try lia; [cbn; auto|].
           intros -> y Hy.
           assert (Ec0 : ids = c1 ++ n :: c2).
           { unfold c in *. rewrite <- Ec. symmetry. apply sl_chain_0. exact LV. }
           rewrite Ec0 in Hy. apply in_app_or in Hy. destruct Hy as [Hy|Hy].
           { apply sl_not_eq0_gt. auto. }
           apply sl_not_eq0_gt. auto.
    + destruct N1 as [-> Ec]. apply IH; auto; try lia.
      intros -> y Hy.
      assert (Ec0 : ids = []).
      { unfold c in *. rewrite <- Ec. symmetry. apply sl_chain_0. exact LV. }
      rewrite Ec0 in Hy. destruct Hy.
Qed.

End FIND.


Lemma sl_find_rewind_ok s v ids A : forall n B fuel,
  sl_rep s ids -> sl_ordered s ids ->
  ids = A ++ n :: B -> sl_eq0 s v n -> length A < fuel ->
  exists f A' B', sl_find_rewind cmp fuel s v n = Ok f /\ ids = A' ++ f :: B' /\
    (forall y, In y A' -> ~ sl_eq0 s v y) /\ sl_eq0 s v f.
Proof.
  induction A as [|p A0 IH] using rev_ind; intros n B fuel RP OR E He Hf;
    pose proof RP as (W & ND & LV & LK & TL); pose proof OR as [ODat OLe];
    (destruct fuel as [|fu]; [simpl in Hf; lia|]); cbn [sl_find_rewind];
    assert (Hn : In n ids) by (rewrite E; apply in_or_app; right; left; auto);
    assert (H0 : 0 < sl_levels s) by (pose proof (sl_wf_LEV s n W); specialize (LV n Hn); lia);
    pose proof (LK 0 H0) as [_ Hb]; rewrite (sl_chain_0 _ _ LV) in Hb;
    rewrite sl_get_prev_ok by auto; cbn [bind]; rewrite E in Hb;
    rewrite (sl_bwd_prev _ _ _ _ Hb).
  - cbn [sl_last]. exists n, [], B. repeat split; auto; intros y [].
  - rewrite sl_last_snoc.
    assert (Hp : In p ids) by (rewrite E; apply in_or_app; left; apply in_or_app; right; left; auto).
    destruct (ODat p Hp) as (dp & Ep). rewrite (sl_node_data_ok _ _ _ Ep). cbn [bind].
    rewrite <- app_assoc in E. cbn [app] in E.
    destruct (Z.eqb_spec (cmp dp v) 0) as [Hz|Hnz].
    + apply (IH p (n :: B) fu); auto.
      * exists dp. split; auto. apply sl_cmp_eq_sym; auto.
      * rewrite app_length in Hf. simpl in Hf. lia.
    + exists n, (A0 ++ [p]), B. split; auto. split; [rewrite <- app_assoc; exact E|]. split; auto.
      destruct He as (dn & En & Hdn).
      destruct (OLe A0 p (n :: B) n E (or_introl eq_refl)) as (dp' & dn' & Ep' & En' & Hle).
      rewrite Ep in Ep'. injection Ep' as <-. rewrite En in En'. injection En' as <-.
      assert (Gp : sl_gt s v p).
      { exists dp. split; auto.
        destruct (Z_lt_ge_dec (cmp v dp) 0) as [Hl|Hg].
        - pose proof (sl_cmp_L2 v dp dn Hl Hle). lia.
        - assert (cmp v dp <> 0)%Z by (intros Hc; apply Hnz, sl_cmp_eq_sym; auto). lia. }
      intros y Hy. apply in_app_or in Hy. destruct Hy as [Hy|[<-|[]]].
      * apply sl_not_eq0_gt. apply (sl_gt_before s v ids A0 p (n :: B)); auto.
      * apply sl_not_eq0_gt; auto.
Qed.

Lemma sl_node_find_ok s v ids :
  sl_rep s ids -> sl_ordered s ids -> sl_cnt s = length ids -> 0 < sl_levels s ->
  exists r, sl_node_find cmp s v = Ok r /\
    match r with
    | None => forall y, In y ids -> ~ sl_eq0 s v y
    | Some f => exists A' B', ids = A' ++ f :: B' /\ (forall y, In y A' -> ~ sl_eq0 s v y) /\ sl_eq0 s v f
    end.
Proof.
  intros RP OR CNT HL. unfold sl_node_find.
  destruct (sl_find_levels_ok s v ids (S (sl_cnt s)) RP OR) with (i := sl_levels s) (node := @None nat) (rv := (-1)%Z)
    as (node & rv & E & HR); auto; try lia; [cbn; auto|].
  rewrite E. cbn [bind fst snd].
  destruct HR as [(-> & m & -> & Hm & He)|(Hrv & Habs)].
  - cbn [Z.eqb negb].
    destruct (in_split _ _ Hm) as (A & B & EA).
    destruct (sl_find_rewind_ok s v ids A m B (S (sl_cnt s)) RP OR EA He) as (f & A' & B' & Ef & E' & HA' & Hf).
    { assert (length A <= length ids) by (rewrite EA, app_length; lia). lia. }
    rewrite Ef. cbn [bind]. exists (Some f). split; auto. exists A', B'. auto.
  - destruct (Z.eqb_spec rv 0); [contradiction|]. cbn [negb]. exists None. auto.
Qed.

End CMP.

End SLP.
