(* ares_buf_fetch_be32: the hand model (Dsa/Buf.v) agrees with the text generated from the C
   source (static helpers inlined, data region as index -> byte) - continuation of
   Buf_gen_agree.v. *)
From CAres.Dsa Require Import Buf Buf_proofs BufFetch_proofs Buf_gen_agree.
From CAres.Gen Require Import Consts LeafFns.
From CAres.Base Require Import CInt.
Local Open Scope Z_scope.
Local Open Scope bool_scope.

Lemma buf_nth_firstn_skipn (l : list Z) (o k i : nat) :
  (i < k)%nat -> nth i (firstn k (skipn o l)) 0 = nth (o + i) l 0.
Proof.
  revert l. induction o as [|o IH]; intros l Hi.
  - cbn [skipn Nat.add]. revert l i Hi. induction k as [|k IHk]; intros l i Hi; [lia|].
    destruct l as [|x l]; [destruct i; reflexivity|]. destruct i as [|i]; [reflexivity|].
    cbn [firstn nth]. apply IHk. lia.
  - destruct l as [|x l].
    + cbn [skipn firstn]. rewrite firstn_nil. destruct i; destruct (S o + _)%nat; reflexivity.
    + cbn [skipn Nat.add nth]. apply IH. exact Hi.
Qed.

Lemma buf_remaining_take_nth b k l i : buf_inv b -> 0 <= k <= cb_dlen b - cb_off b ->
  buf_take k (buf_remaining b) = l -> (i < Z.to_nat k)%nat ->
  buf_memf b (cb_off b + Z.of_nat i) = nth i l 0.
Proof.
  intros Hi Hk E Hlt. pose proof (buf_inv_mem_len b Hi) as [Hm _]. destruct Hi as (Ho & _).
  subst l. unfold buf_remaining, buf_data, buf_take, buf_drop.
  rewrite skipn_firstn_comm, firstn_firstn.
  replace (Init.Nat.min (Z.to_nat k) (Z.to_nat (cb_dlen b) - Z.to_nat (cb_off b))) with (Z.to_nat k) by lia.
  rewrite buf_nth_firstn_skipn by exact Hlt. unfold buf_memf. f_equal. lia.
Qed.

Lemma buf_shiftl_byte_small p k : 0 <= p < 256 -> 0 <= k <= 24 -> (Z.shiftl p k) mod 2 ^ 32 = Z.shiftl p k.
Proof.
  intros Hp Hk. apply Z.mod_small. rewrite Z.shiftl_mul_pow2 by lia. split; [apply Z.mul_nonneg_nonneg; lia|].
  assert (2 ^ k <= 2 ^ 24) by (apply Z.pow_le_mono_r; lia).
  change (2 ^ 32) with (256 * 2 ^ 24). nia.
Qed.

Theorem buf_fetch_be32_agrees_generated b old :
  buf_inv b -> buf_bytes_ok (buf_remaining b) ->
  exists st b' v v',
    buf_fetch_be32 b = Ok (st, b', v) /\
    c_ares_buf_fetch_be32 (b2z (cb_hasdata b)) (cb_dlen b) (cb_off b) (buf_memf b) old
      = Ok (st, cb_off b', v') /\
    (st = ARES_SUCCESS -> v' = v) /\ (st <> ARES_SUCCESS -> v' = old /\ b' = b).
Proof.
  intros Hi Hb. pose proof (buf_cursor_ok b Hi) as [Hc1 Hc2]. rewrite pow64 in Hc2.
  unfold buf_fetch_be32. rewrite buf_fetch_ok by exact Hi. cbn [fst snd].
  destruct (Z.ltb_spec (cb_dlen b - cb_off b) 4) as [Hlt | Hge].
  - exists ARES_EBADRESP, b, 0, old. split; [reflexivity|]. split.
    + unfold c_ares_buf_fetch_be32, guard. repeat break_if; try reflexivity; exfalso; lia.
    + split; [intros E; vm_compute in E; discriminate E | auto].
  - assert (cb_hasdata b = true) as Hd.
    { destruct (cb_hasdata b) eqn:E; [reflexivity|]. pose proof (buf_hasdata_false b Hi E). lia. }
    rewrite buf_read_remaining by (try exact Hi; lia). cbn [bind].
    pose proof (buf_remaining_zlen b Hi) as Hr.
    assert (buf_zlen (buf_take 4 (buf_remaining b)) = 4) as H4 by (apply buf_take_zlen; lia).
    destruct (buf_zlen_4 _ H4) as (p0 & p1 & p2 & p3 & Ep). rewrite Ep.
    rewrite buf_consume_ok by (try exact Hi; lia).
    replace (cb_dlen b - cb_off b <? 4) with false by (symmetry; apply Z.ltb_ge; lia).
    cbn [bind fst snd].
    assert (forall i, (i < 4)%nat -> buf_memf b (cb_off b + Z.of_nat i) = nth i [p0; p1; p2; p3] 0) as Hn.
    { intros i Hi4. apply (buf_remaining_take_nth b 4); [exact Hi | lia | exact Ep | lia]. }
    pose proof (Hn 0%nat ltac:(lia)) as E0. pose proof (Hn 1%nat ltac:(lia)) as E1.
    pose proof (Hn 2%nat ltac:(lia)) as E2. pose proof (Hn 3%nat ltac:(lia)) as E3.
    cbn [nth Z.of_nat Pos.of_succ_nat Pos.succ] in E0, E1, E2, E3. rewrite Z.add_0_r in E0.
    pose proof (buf_bytes_ok_take 4 _ Hb) as Hb4. rewrite Ep in Hb4.
    inversion Hb4 as [|x0 l0 Hp0 Hb3]; subst x0 l0. inversion Hb3 as [|x1 l1 Hp1 Hb2]; subst x1 l1.
    inversion Hb2 as [|x2 l2 Hp2 Hb1]; subst x2 l2. inversion Hb1 as [|x3 l3 Hp3 _]; subst x3 l3.
    eexists ARES_SUCCESS, (buf_with_off b (cb_off b + 4)), _, _.
    split; [reflexivity|]. split.
    + unfold c_ares_buf_fetch_be32, guard. rewrite Hd. cbn [b2z].
      repeat break_if; try (exfalso; lia). cbn [buf_with_off cb_off].
      rewrite E0, E1, E2, E3. rewrite !(Z.mod_small _ 256) by lia.
      rewrite !buf_shiftl_byte_small by lia.
      rewrite (Z.mod_small (cb_off b + 4)) by lia. reflexivity.
    + split; [reflexivity|]. intros N. exfalso. apply N. reflexivity.
Qed.

(* ares_buf_append_start: NULL for a zero request or a failed ensure_space, otherwise the write
   pointer and the room that is left (alloc - data_len - 1), exactly as the generated text
   computes them from what ares_buf_ensure_space left behind *)
Theorem buf_append_start_agrees_generated junk ok b len ptr r :
  ptr <> 0 ->
  (len =? 0) = false -> buf_ensure_space junk ok b len = Ok r ->
  exists o,
    buf_append_start junk ok b len = Ok (o, snd r) /\
    c_ares_buf_append_start len (fst r) (cb_alloc (snd r)) (cb_dlen (snd r)) ptr
      = Ok (match o with Some _ => ptr | None => 0 end, match o with Some n => n | None => len end).
Proof.
  intros Hp Hl E. unfold buf_append_start, c_ares_buf_append_start. rewrite Hl, E. cbn [bind].
  destruct (negb (fst r =? ARES_SUCCESS)); eexists; split; reflexivity.
Qed.
