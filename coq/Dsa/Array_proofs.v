(* Refinement of the array model to the list specification. *)
From CAres.Dsa Require Import Array.
From CAres.Gen Require Import Consts.
Local Open Scope nat_scope.

Definition arr_inv_full (a : arr) : Prop :=
  a_off a + a_cnt a <= alloc_cnt a /\ (a_cnt a = 0 -> a_off a = 0).

(* ---------- list helpers ---------- *)
Lemma nth_error_firstn_lt {A} (l : list A) n i : i < n -> nth_error (firstn n l) i = nth_error l i.
Proof.
  revert l i; induction n as [|n IH]; intros l i Hi; [lia|].
  destruct l as [|x l]; [destruct i; reflexivity|].
  destruct i as [|i]; simpl; [reflexivity|]. apply IH; lia.
Qed.

Lemma nth_error_skipn {A} (l : list A) n i : nth_error (skipn n l) i = nth_error l (n + i).
Proof.
  revert l; induction n as [|n IH]; intros l; simpl; [reflexivity|].
  destruct l as [|x l]; [destruct i; reflexivity|]. apply IH.
Qed.

Lemma firstn_app_l {A} (l1 l2 : list A) n : n = length l1 -> firstn n (l1 ++ l2) = l1.
Proof.
  intros ->. rewrite firstn_app, Nat.sub_diag, firstn_all. simpl. apply app_nil_r.
Qed.

Lemma skipn_app_l {A} (l1 l2 : list A) n : n = length l1 -> skipn n (l1 ++ l2) = l2.
Proof.
  intros ->. rewrite skipn_app, Nat.sub_diag, skipn_all. reflexivity.
Qed.

Lemma firstn_app_plus {A} (l1 l2 : list A) n k :
  n = length l1 -> firstn (n + k) (l1 ++ l2) = l1 ++ firstn k l2.
Proof. intros ->. apply firstn_app_2. Qed.

Lemma skipn_app_plus {A} (l1 l2 : list A) n k :
  n = length l1 -> skipn (n + k) (l1 ++ l2) = skipn k l2.
Proof.
  intros ->. rewrite skipn_app. rewrite skipn_all2 by lia.
  replace (length l1 + k - length l1) with k by lia. reflexivity.
Qed.

(* a list cut at two positions *)
Lemma split3 {A} (l : list A) off cnt :
  off + cnt <= length l ->
  exists pre mem post, l = pre ++ mem ++ post /\ length pre = off /\ length mem = cnt
                       /\ mem = firstn cnt (skipn off l).
Proof.
  intros H.
  exists (firstn off l), (firstn cnt (skipn off l)), (skipn cnt (skipn off l)).
  repeat split.
  - rewrite firstn_skipn. rewrite firstn_skipn. reflexivity.
  - rewrite firstn_length. lia.
  - rewrite firstn_length, skipn_length. lia.
Qed.

Lemma pow2_log2_up_ge n : 0 < n -> n <= 2 ^ Nat.log2_up n.
Proof. intros H. apply Nat.log2_log2_up_spec. exact H. Qed.

(* ---------- basic facts ---------- *)
Lemma arr_abs_length a : arr_inv_full a -> length (arr_abs a) = a_cnt a.
Proof.
  intros [H _]. unfold arr_abs, alloc_cnt in *. rewrite firstn_length, skipn_length. lia.
Qed.

Lemma arr_at_refines a idx : arr_at a idx = nth_error (arr_abs a) idx.
Proof.
  unfold arr_at, arr_abs.
  destruct (Nat.leb_spec (a_cnt a) idx) as [H|H].
  - symmetry. apply nth_error_None. rewrite firstn_length. lia.
  - rewrite nth_error_firstn_lt by lia. rewrite nth_error_skipn. f_equal. lia.
Qed.

Lemma arr_create_inv : arr_inv_full arr_create /\ arr_abs arr_create = [].
Proof. unfold arr_inv_full, arr_create, arr_abs, alloc_cnt; simpl. repeat split; lia. Qed.

(* ---------- set_size ---------- *)
Lemma arr_set_size_spec ok a size :
  0 < size -> a_cnt a <= size ->
  (exists k, arr_set_size ok a size = Ok (mkArr (a_cells a ++ repeat 0%Z k) (a_cnt a) (a_off a))
             /\ size <= alloc_cnt a + k)
  \/ (ok = false /\ arr_set_size ok a size = Err ARES_ENOMEM).
Proof.
  intros Hs Hc. unfold arr_set_size.
  destruct (Nat.eqb_spec size 0) as [E|_]; [lia|].
  destruct (Nat.ltb_spec size (a_cnt a)) as [E|_]; [lia|]. cbn [orb].
  pose proof (pow2_log2_up_ge size Hs) as Hp. fold (round_up_pow2 size) in Hp.
  set (s1 := round_up_pow2 size) in *.
  set (s2 := if Nat.ltb s1 (Z.to_nat ARES__ARRAY_MIN) then Z.to_nat ARES__ARRAY_MIN else s1).
  assert (size <= s2) as Hs2.
  { unfold s2. destruct (Nat.ltb_spec s1 (Z.to_nat ARES__ARRAY_MIN)); lia. }
  destruct (Nat.leb_spec s2 (alloc_cnt a)) as [Hle|Hgt].
  - left. exists 0. simpl. rewrite app_nil_r. split; [destruct a; reflexivity | lia].
  - destruct ok.
    + left. exists (s2 - alloc_cnt a). split; [reflexivity | lia].
    + right. split; reflexivity.
Qed.

(* ---------- ares_array_move on a block cut into pieces ---------- *)
Ltac len_norm := repeat (progress (rewrite ?app_length, ?firstn_length, ?skipn_length, ?repeat_length in *; cbn [length] in * )).

(* move the members to the start of the allocation (insert_at, "not enough room at the end") *)
Lemma arr_move_front pre mem post :
  mem <> [] ->
  exists cells',
    arr_move (mkArr (pre ++ mem ++ post) (length mem) (length pre)) 0 (length pre)
      = Ok (mkArr cells' (length mem) (length pre))
    /\ length cells' = length (pre ++ mem ++ post)
    /\ firstn (length mem) cells' = mem.
Proof.
  intros Hne.
  assert (0 < length mem) as Hm by (destruct mem; [congruence | simpl; lia]).
  unfold arr_move, alloc_cnt. cbn [a_cells a_cnt a_off].
  assert (length (pre ++ mem ++ post) = length pre + length mem + length post) as HL by (len_norm; lia).
  rewrite HL.
  rewrite (proj2 (Nat.leb_gt _ _)) by lia.
  rewrite (proj2 (Nat.leb_gt _ _)) by lia. cbn [orb].
  destruct (Nat.eqb_spec 0 (length pre)) as [E0|N0].
  - eexists. split; [reflexivity|]. split; [exact HL|].
    destruct pre; [|simpl in E0; lia]. simpl. apply firstn_app_l. reflexivity.
  - rewrite (proj2 (Nat.ltb_ge _ _)) by lia. cbn [andb].
    rewrite (proj2 (Nat.ltb_ge _ _)) by lia.
    rewrite Nat.sub_diag.
    rewrite (proj2 (Nat.ltb_ge _ _)) by lia.
    rewrite Nat.sub_0_r.
    rewrite (proj2 (Nat.ltb_ge _ _)) by lia.
    rewrite (proj2 (Nat.ltb_ge _ _)) by lia. cbn [orb].
    eexists. split; [reflexivity|].
    unfold memmove_cells. cbn [firstn app Nat.add].
    rewrite (skipn_app_l pre) by reflexivity.
    rewrite (firstn_app_l mem) by reflexivity.
    split.
    + len_norm. lia.
    + apply firstn_app_l. reflexivity.
Qed.

(* open a gap at member position |m1| (insert_at, "move some elements out of the way") *)
Lemma arr_move_gap pre m1 x m2 p post :
  exists y,
    arr_move (mkArr (pre ++ m1 ++ (x :: m2) ++ p :: post) (length m1 + S (length m2)) (length pre))
             (length m1 + length pre + 1) (length m1 + length pre)
      = Ok (mkArr (pre ++ m1 ++ y :: (x :: m2) ++ post) (length m1 + S (length m2)) (length pre)).
Proof.
  unfold arr_move, alloc_cnt. cbn [a_cells a_cnt a_off].
  assert (length (pre ++ m1 ++ (x :: m2) ++ p :: post)
          = length pre + length m1 + S (length m2) + S (length post)) as HL by (len_norm; lia).
  rewrite HL.
  rewrite (proj2 (Nat.leb_gt _ _)) by lia.
  rewrite (proj2 (Nat.leb_gt _ _)) by lia. cbn [orb].
  rewrite (proj2 (Nat.eqb_neq _ _)) by lia.
  rewrite (proj2 (Nat.ltb_lt (length m1 + length pre) _)) by lia. cbn [andb].
  rewrite (proj2 (Nat.ltb_ge _ _)) by lia.
  rewrite (proj2 (Nat.ltb_ge _ _)) by lia.
  rewrite (proj2 (Nat.ltb_ge _ _)) by lia.
  rewrite (proj2 (Nat.ltb_ge _ _)) by lia.
  rewrite (proj2 (Nat.ltb_ge _ _)) by lia. cbn [orb].
  exists x. f_equal. f_equal.
  unfold memmove_cells.
  replace (length m1 + length pre - length pre) with (length m1) by lia.
  replace (length m1 + S (length m2) - length m1) with (S (length m2)) by lia.
  replace (length m1 + length pre + 1) with (length pre + (length m1 + 1)) by lia.
  rewrite (firstn_app_plus pre) by reflexivity.
  rewrite (firstn_app_plus m1) by reflexivity.
  replace (length m1 + length pre) with (length pre + length m1) by lia.
  rewrite (skipn_app_plus pre) by reflexivity.
  rewrite (skipn_app_l m1) by reflexivity.
  rewrite (firstn_app_l (x :: m2) _ (S (length m2))) by reflexivity.
  replace (length pre + (length m1 + 1) + S (length m2))
    with (length pre + (length m1 + (S (length m2) + 1))) by lia.
  rewrite (skipn_app_plus pre) by reflexivity.
  rewrite (skipn_app_plus m1) by reflexivity.
  rewrite (skipn_app_plus (x :: m2)) by reflexivity.
  cbn [firstn skipn app].
  rewrite <- !app_assoc. reflexivity.
Qed.

(* close the gap left by member |m1| (claim_at, "removing an element from the middle") *)
Lemma arr_move_close pre m1 x y m2 post :
  exists rest,
    arr_move (mkArr (pre ++ m1 ++ x :: (y :: m2) ++ post) (length m1 + S (S (length m2))) (length pre))
             (length m1 + length pre) (length m1 + length pre + 1)
      = Ok (mkArr (pre ++ m1 ++ (y :: m2) ++ rest) (length m1 + S (S (length m2))) (length pre))
    /\ length rest = S (length post).
Proof.
  unfold arr_move, alloc_cnt. cbn [a_cells a_cnt a_off].
  assert (length (pre ++ m1 ++ x :: (y :: m2) ++ post)
          = length pre + length m1 + S (S (length m2)) + length post) as HL by (len_norm; lia).
  rewrite HL.
  rewrite (proj2 (Nat.leb_gt _ _)) by lia.
  rewrite (proj2 (Nat.leb_gt _ _)) by lia. cbn [orb].
  rewrite (proj2 (Nat.eqb_neq _ _)) by lia.
  rewrite (proj2 (Nat.ltb_ge (length m1 + length pre + 1) _)) by lia. cbn [andb].
  rewrite (proj2 (Nat.ltb_ge _ _)) by lia.
  rewrite (proj2 (Nat.ltb_ge _ _)) by lia.
  rewrite (proj2 (Nat.ltb_ge _ _)) by lia.
  rewrite (proj2 (Nat.ltb_ge _ _)) by lia. cbn [orb].
  eexists. split; [f_equal; f_equal|].
  - unfold memmove_cells.
    replace (length m1 + length pre + 1 - length pre) with (length m1 + 1) by lia.
    replace (length m1 + S (S (length m2)) - (length m1 + 1)) with (S (length m2)) by lia.
    replace (length m1 + length pre) with (length pre + length m1) by lia.
    rewrite (firstn_app_plus pre) by reflexivity.
    rewrite (firstn_app_l m1) by reflexivity.
    replace (length pre + length m1 + 1) with (length pre + (length m1 + 1)) by lia.
    rewrite (skipn_app_plus pre) by reflexivity.
    rewrite (skipn_app_plus m1) by reflexivity.
    cbn [skipn].
    rewrite (firstn_app_l (y :: m2)) by reflexivity.
    rewrite <- !app_assoc. reflexivity.
  - len_norm. lia.
Qed.

(* ---------- insert ---------- *)
Lemma set_cell_mid (pre m1 : list Z) y rest v :
  set_cell (pre ++ m1 ++ y :: rest) (length m1 + length pre) v = pre ++ m1 ++ v :: rest.
Proof.
  unfold set_cell.
  replace (length m1 + length pre) with (length pre + length m1) by lia.
  rewrite (firstn_app_plus pre) by reflexivity.
  rewrite (firstn_app_l m1) by reflexivity.
  replace (S (length pre + length m1)) with (length pre + (length m1 + 1)) by lia.
  rewrite (skipn_app_plus pre) by reflexivity.
  rewrite (skipn_app_plus m1) by reflexivity.
  cbn [skipn]. rewrite <- app_assoc. reflexivity.
Qed.

(* the part of ares_array_insert_at after room has been made *)
Definition arr_ins_tail (a2 : arr) (idx : nat) (v : Z) : outcome arr :=
  do a3 <- (if negb (Nat.eqb idx (a_cnt a2))
            then arr_move a2 (idx + a_off a2 + 1) (idx + a_off a2)
            else Ok a2);
  if Nat.leb (alloc_cnt a3) (idx + a_off a3) then UB OutOfBounds
  else Ok (mkArr (set_cell (a_cells a3) (idx + a_off a3) v) (S (a_cnt a3)) (a_off a3)).

Lemma arr_insertdata_at_unfold ok a idx v :
  arr_insertdata_at ok a idx v =
  if Nat.ltb (a_cnt a) idx then Err ARES_EFORMERR
  else
    do a1 <- arr_set_size ok a (a_cnt a + 1);
    do a2 <- (if Nat.ltb (alloc_cnt a1) (a_cnt a1 + 1 + a_off a1)
              then do m <- arr_move a1 0 (a_off a1); Ok (mkArr (a_cells m) (a_cnt m) 0)
              else Ok a1);
    arr_ins_tail a2 idx v.
Proof. reflexivity. Qed.

Lemma arr_ins_tail_spec pre m1 m2 p post v :
  arr_ins_tail (mkArr (pre ++ m1 ++ m2 ++ p :: post) (length m1 + length m2) (length pre)) (length m1) v
  = Ok (mkArr (pre ++ m1 ++ v :: m2 ++ post) (S (length m1 + length m2)) (length pre)).
Proof.
  unfold arr_ins_tail. cbn [a_cnt a_off].
  destruct m2 as [|x m2].
  - cbn [length]. rewrite Nat.add_0_r, Nat.eqb_refl. cbn [negb bind]. unfold alloc_cnt. cbn [a_cells a_cnt a_off].
    rewrite (proj2 (Nat.leb_gt _ _)) by (len_norm; lia).
    cbn [app]. rewrite set_cell_mid. reflexivity.
  - cbn [length].
    rewrite (proj2 (Nat.eqb_neq _ _)) by lia. cbn [negb].
    destruct (arr_move_gap pre m1 x m2 p post) as [y Hy].
    rewrite Hy. cbn [bind]. unfold alloc_cnt. cbn [a_cells a_cnt a_off].
    rewrite (proj2 (Nat.leb_gt _ _)) by (len_norm; lia).
    rewrite set_cell_mid. reflexivity.
Qed.

Theorem arr_insert_refines ok a idx v :
  arr_inv_full a -> idx <= a_cnt a ->
  (exists a', arr_insertdata_at ok a idx v = Ok a' /\ arr_inv_full a'
              /\ a_cnt a' = S (a_cnt a)
              /\ arr_abs a' = firstn idx (arr_abs a) ++ v :: skipn idx (arr_abs a))
  \/ (ok = false /\ arr_insertdata_at ok a idx v = Err ARES_ENOMEM).
Proof.
  intros [Hroom Hzero] Hidx.
  rewrite arr_insertdata_at_unfold.
  rewrite (proj2 (Nat.ltb_ge _ _)) by lia.
  destruct (arr_set_size_spec ok a (a_cnt a + 1)) as [[k [E Hk]] | [Eok E]]; [lia | lia | | right; rewrite E; auto].
  left. rewrite E. cbn [bind]. clear E.
  destruct a as [cells cnt off]. unfold alloc_cnt, arr_abs in *. cbn [a_cells a_cnt a_off] in *.
  set (cells1 := cells ++ repeat 0%Z k).
  assert (length cells1 = length cells + k) as HL1 by (unfold cells1; len_norm; lia).
  assert (firstn cnt (skipn off cells1) = firstn cnt (skipn off cells)) as Habs1.
  { unfold cells1. rewrite skipn_app, firstn_app, skipn_length.
    replace (cnt - (length cells - off)) with 0 by lia. cbn [firstn]. apply app_nil_r. }
  (* room: some cells2/off2 with a free cell after the members *)
  assert (exists cells2 off2,
    (if Nat.ltb (length cells1) (cnt + 1 + off)
     then do m <- arr_move (mkArr cells1 cnt off) 0 off; Ok (mkArr (a_cells m) (a_cnt m) 0)
     else Ok (mkArr cells1 cnt off)) = Ok (mkArr cells2 cnt off2)
    /\ off2 + cnt + 1 <= length cells2
    /\ firstn cnt (skipn off2 cells2) = firstn cnt (skipn off cells)) as [cells2 [off2 [E2 [Hroom2 Habs2]]]].
  { clearbody cells1.
    destruct (Nat.ltb_spec (length cells1) (cnt + 1 + off)) as [Hshift|Hnoshift].
    - assert (cnt <> 0) as Hc by (intros Hc0; specialize (Hzero Hc0); lia).
      destruct (split3 cells1 off cnt) as [pre [mem [post [Ec [Hpre [Hmem Hm]]]]]]; [lia|].
      assert (mem <> []) as Hne by (intros ->; simpl in Hmem; lia).
      destruct (arr_move_front pre mem post Hne) as [cells' [Em [HL' Hf]]].
      subst cells1 off cnt.
      exists cells', 0. rewrite Em. cbn [bind a_cells a_cnt]. split; [reflexivity|]. split.
      + rewrite HL'. lia.
      + cbn [skipn]. rewrite Hf. rewrite <- Habs1. exact Hm.
    - exists cells1, off. split; [reflexivity|]. split; [lia | exact Habs1]. }
  rewrite E2. cbn [bind]. clear E2.
  destruct (split3 cells2 off2 cnt) as [pre [mem [post [Ec [Hpre [Hmem Hm]]]]]]; [lia|].
  destruct post as [|p post].
  { exfalso. rewrite Ec in Hroom2. len_norm. lia. }
  rewrite Habs2 in Hm. rewrite <- Hm.
  rewrite <- (firstn_skipn idx mem) in Ec.
  set (m1 := firstn idx mem) in *. set (m2 := skipn idx mem) in *.
  assert (length m1 = idx) as Hm1 by (unfold m1; rewrite firstn_length; lia).
  assert (cnt = length m1 + length m2) as Hm2 by (unfold m2; rewrite skipn_length; lia).
  rewrite <- app_assoc in Ec.
  clearbody m1 m2. clear Hm Habs2 Habs1 Hmem.
  subst cells2 off2 idx cnt.
  rewrite arr_ins_tail_spec.
  eexists. split; [reflexivity|].
  unfold arr_inv_full, alloc_cnt, arr_abs. cbn [a_cells a_cnt a_off].
  split; [split|split].
  - len_norm. lia.
  - intros H0; discriminate H0.
  - reflexivity.
  - rewrite (skipn_app_l pre) by reflexivity.
    replace (S (length m1 + length m2)) with (length m1 + S (length m2)) by lia.
    rewrite (firstn_app_plus m1) by reflexivity.
    change (v :: m2 ++ post) with ((v :: m2) ++ post).
    rewrite (firstn_app_l (v :: m2)) by reflexivity.
    reflexivity.
Qed.

Theorem arr_insert_bad_index ok a idx v :
  a_cnt a < idx -> arr_insertdata_at ok a idx v = Err ARES_EFORMERR.
Proof.
  intros H. unfold arr_insertdata_at.
  destruct (Nat.ltb_spec (a_cnt a) idx); [reflexivity | lia].
Qed.

(* ---------- remove ---------- *)
Lemma nth_error_mid {A} (pre m1 : list A) x rest :
  nth_error (pre ++ m1 ++ x :: rest) (length m1 + length pre) = Some x.
Proof.
  rewrite nth_error_app2 by lia.
  replace (length m1 + length pre - length pre) with (length m1) by lia.
  rewrite nth_error_app2 by lia. rewrite Nat.sub_diag. reflexivity.
Qed.

Lemma arr_remove_at_pieces pre m1 x m2 post :
  exists a',
    arr_remove_at (mkArr (pre ++ m1 ++ (x :: m2) ++ post) (length m1 + S (length m2)) (length pre)) (length m1)
      = Ok (a', x)
    /\ arr_inv_full a' /\ a_cnt a' = length m1 + length m2 /\ arr_abs a' = m1 ++ m2.
Proof.
  unfold arr_remove_at, arr_at. cbn [a_cells a_cnt a_off].
  rewrite (proj2 (Nat.leb_gt _ _)) by lia.
  change ((x :: m2) ++ post) with (x :: m2 ++ post).
  rewrite nth_error_mid.
  destruct m1 as [|z m1].
  - (* first member: only the offset moves *)
    cbn [length Nat.add Nat.eqb bind a_cells a_cnt a_off app].
    rewrite Nat.sub_succ, Nat.sub_0_r.
    eexists. split; [reflexivity|].
    unfold arr_inv_full, arr_abs, alloc_cnt. cbn [a_cells a_cnt a_off].
    destruct m2 as [|y m2].
    + cbn [length Nat.eqb]. repeat split; try lia; try (len_norm; lia).
    + cbn [length Nat.eqb]. split; [split|split].
      * len_norm. lia.
      * intros H0; discriminate H0.
      * reflexivity.
      * replace (S (length pre)) with (length pre + 1) by lia.
        rewrite (skipn_app_plus pre) by reflexivity. cbn [skipn].
        change (y :: m2 ++ post) with ((y :: m2) ++ post).
        apply firstn_app_l. reflexivity.
  - rewrite (proj2 (Nat.eqb_neq (length (z :: m1)) 0)) by (cbn [length]; lia).
    destruct m2 as [|y m2].
    + (* last member: only the count changes *)
      cbn [length].
      rewrite (proj2 (Nat.eqb_eq _ _)) by lia.
      cbn [negb bind a_cells a_cnt a_off].
      rewrite (proj2 (Nat.eqb_neq _ 0)) by lia.
      eexists. split; [reflexivity|].
      unfold arr_inv_full, arr_abs, alloc_cnt. cbn [a_cells a_cnt a_off].
      split; [split|split].
      * len_norm. lia.
      * intros H0. lia.
      * lia.
      * rewrite (skipn_app_l pre) by reflexivity.
        replace (S (length m1) + 1 - 1) with (length (z :: m1)) by (cbn [length]; lia).
        rewrite app_nil_r. apply firstn_app_l. reflexivity.
    + (* a member in the middle: the tail is moved down by one *)
      rewrite (proj2 (Nat.eqb_neq _ _)) by (cbn [length]; lia).
      cbn [negb].
      destruct (arr_move_close pre (z :: m1) x y m2 post) as [rest [Em Hrest]].
      change (x :: (y :: m2) ++ post) with (x :: (y :: m2) ++ post) in Em.
      change (x :: y :: m2 ++ post) with (x :: (y :: m2) ++ post).
      replace (length (z :: m1) + S (length (y :: m2))) with (length (z :: m1) + S (S (length m2))) by (cbn [length]; lia).
      rewrite Em. cbn [bind a_cells a_cnt a_off].
      rewrite (proj2 (Nat.eqb_neq _ 0)) by (cbn [length]; lia).
      eexists. split; [reflexivity|].
      unfold arr_inv_full, arr_abs, alloc_cnt. cbn [a_cells a_cnt a_off].
      split; [split|split].
      * len_norm. lia.
      * intros H0. cbn [length] in H0. lia.
      * cbn [length]. lia.
      * rewrite (skipn_app_l pre) by reflexivity.
        replace (length (z :: m1) + S (S (length m2)) - 1) with (length (z :: m1) + length (y :: m2)) by (cbn [length]; lia).
        rewrite (firstn_app_plus (z :: m1)) by reflexivity.
        rewrite (firstn_app_l (y :: m2)) by reflexivity. reflexivity.
Qed.

Theorem arr_remove_refines a idx :
  arr_inv_full a -> idx < a_cnt a ->
  exists a' v, arr_remove_at a idx = Ok (a', v) /\ arr_inv_full a'
               /\ S (a_cnt a') = a_cnt a
               /\ nth_error (arr_abs a) idx = Some v
               /\ arr_abs a' = firstn idx (arr_abs a) ++ skipn (S idx) (arr_abs a).
Proof.
  intros [Hroom Hzero] Hidx.
  destruct a as [cells cnt off]. unfold alloc_cnt, arr_abs in *. cbn [a_cells a_cnt a_off] in *.
  destruct (split3 cells off cnt Hroom) as [pre [mem [post [Ec [Hpre [Hmem Hm]]]]]].
  rewrite <- Hm.
  assert (exists x, nth_error mem idx = Some x) as [x Hx].
  { destruct (nth_error mem idx) eqn:E; [eauto|]. apply nth_error_None in E. lia. }
  destruct (nth_error_split mem idx Hx) as [m1 [m2 [Emem Hm1]]].
  assert (cnt = length m1 + S (length m2)) as Hc by (rewrite <- Hmem, Emem; len_norm; lia).
  clear Hm Hmem Hzero Hroom.
  subst mem. rewrite <- app_assoc in Ec. subst cells off idx cnt.
  destruct (arr_remove_at_pieces pre m1 x m2 post) as [a' [E [Hinv [Hcnt Habs]]]].
  exists a', x. split; [exact E|]. split; [exact Hinv|]. split; [lia|]. split; [exact Hx|].
  unfold arr_abs in Habs. rewrite Habs.
  rewrite (firstn_app_l m1) by reflexivity.
  replace (S (length m1)) with (length m1 + 1) by lia.
  rewrite (skipn_app_plus m1) by reflexivity. reflexivity.
Qed.

Theorem arr_remove_bad_index a idx :
  a_cnt a <= idx -> arr_remove_at a idx = Err ARES_EFORMERR.
Proof.
  intros H. unfold arr_remove_at, arr_at.
  rewrite (proj2 (Nat.leb_le _ _)) by lia. reflexivity.
Qed.

(* ---------- every API call refines the reference step ---------- *)
Lemma arr_abs_pad (cells pad : list Z) off cnt :
  off + cnt <= length cells ->
  firstn cnt (skipn off (cells ++ pad)) = firstn cnt (skipn off cells).
Proof.
  intros H. rewrite skipn_app, firstn_app, skipn_length.
  replace (cnt - (length cells - off)) with 0 by lia. cbn [firstn]. apply app_nil_r.
Qed.

Lemma list_snoc_cases {A} (l : list A) : l = [] \/ exists r z, l = r ++ [z].
Proof.
  destruct l as [|x l]; [left; reflexivity|]. right.
  destruct (exists_last (l := x :: l)) as [r [z E]]; [discriminate|]. eauto.
Qed.

From Coq Require Import Permutation Sorted.
Section ArrOpsProofs.
(* the C library's qsort with the caller's comparison: all that is assumed here is that it
   permutes the block it is given (sortedness is only needed for [arr_sort_sorted]) *)
Variable qsort : list Z -> list Z.
Hypothesis qsort_perm : forall l, Permutation (qsort l) l.

Lemma qsort_length l : length (qsort l) = length l.
Proof. apply Permutation_length. apply qsort_perm. Qed.

Lemma qsort_short l : length l < 2 -> qsort l = l.
Proof.
  intros H. pose proof (qsort_perm l) as P.
  destruct l as [|x [|y r]]; [| |simpl in H; lia].
  - apply Permutation_nil. apply Permutation_sym. exact P.
  - apply Permutation_length_1_inv. apply Permutation_sym. exact P.
Qed.

(* ares_array_sort sorts exactly the members, in place *)
Theorem arr_sort_refines a :
  arr_inv_full a ->
  exists a', arr_sort qsort a = Ok a' /\ arr_inv_full a' /\ arr_abs a' = qsort (arr_abs a).
Proof.
  intros Hinv. pose proof (arr_abs_length a Hinv) as Hlen. destruct Hinv as [Hroom Hzero].
  unfold arr_sort.
  destruct (Nat.ltb_spec (a_cnt a) 2) as [Hs|Hl].
  - exists a. split; [reflexivity|]. split; [split; assumption|].
    symmetry. apply qsort_short. lia.
  - rewrite (proj2 (Nat.ltb_ge _ _)) by exact Hroom.
    eexists. split; [reflexivity|].
    destruct a as [cells cnt off]. unfold arr_inv_full, arr_abs, alloc_cnt in *. cbn [a_cells a_cnt a_off] in *.
    set (mem := firstn cnt (skipn off cells)) in *.
    assert (length (firstn off cells) = off) as Hpre by (rewrite firstn_length; lia).
    assert (length (qsort mem) = cnt) as Hq by (rewrite qsort_length; exact Hlen).
    split; [split|].
    + len_norm. lia.
    + exact Hzero.
    + rewrite (skipn_app_l (firstn off cells)) by (symmetry; exact Hpre).
      apply firstn_app_l. symmetry. exact Hq.
Qed.

Definition arr_step_ok (ok : bool) (a : arr) (o : arr_op) : Prop :=
  let '(a', r) := arr_step qsort ok a o in
  let '(l', r') := aspec_step qsort (arr_abs a) o in
  arr_inv_full a' /\
  ((r = r' /\ arr_abs a' = l')
   \/ (ok = false /\ arr_op_is_insert o = true /\ r' = RStatus ARES_SUCCESS
       /\ r = RStatus ARES_ENOMEM /\ a' = a)).

Lemma arr_step_insert ok a idx v :
  arr_inv_full a ->
  let '(a', r) := arr_res_ins a (arr_insertdata_at ok a idx v) in
  let '(l', r') := match spec_insert (arr_abs a) idx v with
                   | Some l' => (l', RStatus ARES_SUCCESS)
                   | None => (arr_abs a, RStatus ARES_EFORMERR)
                   end in
  arr_inv_full a' /\
  ((r = r' /\ arr_abs a' = l')
   \/ (ok = false /\ r' = RStatus ARES_SUCCESS /\ r = RStatus ARES_ENOMEM /\ a' = a)).
Proof.
  intros Hinv. unfold spec_insert. rewrite (arr_abs_length a Hinv).
  destruct (Nat.ltb_spec (a_cnt a) idx) as [Hbad|Hgood].
  - rewrite arr_insert_bad_index by exact Hbad. cbn [arr_res_ins]. split; [exact Hinv|]. left. auto.
  - destruct (arr_insert_refines ok a idx v Hinv Hgood) as [[a' [E [Hinv' [_ Habs]]]] | [Eok E]].
    + rewrite E. cbn [arr_res_ins]. split; [exact Hinv'|]. left. auto.
    + rewrite E. cbn [arr_res_ins]. split; [exact Hinv|]. right. auto.
Qed.

Lemma arr_step_remove a idx :
  arr_inv_full a ->
  let '(a', r) := arr_res_rem a (arr_remove_at a idx) in
  let '(l', r') := match spec_remove (arr_abs a) idx with
                   | Some (l', v) => (l', RRemoved v)
                   | None => (arr_abs a, RStatus ARES_EFORMERR)
                   end in
  arr_inv_full a' /\ r = r' /\ arr_abs a' = l'.
Proof.
  intros Hinv. unfold spec_remove.
  destruct (Nat.lt_ge_cases idx (a_cnt a)) as [Hgood|Hbad].
  - destruct (arr_remove_refines a idx Hinv Hgood) as [a' [v [E [Hinv' [_ [Hnth Habs]]]]]].
    rewrite E, Hnth. cbn [arr_res_rem]. auto.
  - rewrite arr_remove_bad_index by exact Hbad.
    assert (nth_error (arr_abs a) idx = None) as ->.
    { apply nth_error_None. rewrite (arr_abs_length a Hinv). exact Hbad. }
    cbn [arr_res_rem]. auto.
Qed.

Ltac arr_fin :=
  first [ left; solve [auto]
        | right; solve [auto 6]
        | exfalso; match goal with H : RStatus _ = RStatus _ |- _ => vm_compute in H; discriminate H end ].

Theorem arr_step_refines ok a o : arr_inv_full a -> arr_step_ok ok a o.
Proof.
  intros Hinv. unfold arr_step_ok.
  pose proof (arr_abs_length a Hinv) as Hlen.
  destruct o as [idx v | v | v | idx | | | idx | | | | n | ]; cbn [arr_step aspec_step arr_op_is_insert].
  - (* insert_at *)
    pose proof (arr_step_insert ok a idx v Hinv) as H.
    destruct (arr_res_ins a (arr_insertdata_at ok a idx v)) as [a' r].
    destruct (spec_insert (arr_abs a) idx v) as [l'|];
      destruct H as [Hi [H|[H1 [H2 [H3 H4]]]]]; (split; [exact Hi|]); arr_fin.
  - (* insert_first *)
    unfold arr_insertdata_first.
    pose proof (arr_step_insert ok a 0 v Hinv) as H.
    destruct (arr_res_ins a (arr_insertdata_at ok a 0 v)) as [a' r].
    unfold spec_insert in H. cbn [Nat.ltb Nat.leb firstn skipn app] in H.
    destruct H as [Hi [H|[H1 [H2 [H3 H4]]]]]; (split; [exact Hi|]); arr_fin.
  - (* insert_last *)
    unfold arr_insertdata_last, arr_len.
    pose proof (arr_step_insert ok a (a_cnt a) v Hinv) as H.
    destruct (arr_res_ins a (arr_insertdata_at ok a (a_cnt a) v)) as [a' r].
    unfold spec_insert in H. rewrite Hlen, Nat.ltb_irrefl in H.
    rewrite <- Hlen in H at 1 2. rewrite firstn_all, skipn_all in H.
    destruct H as [Hi [H|[H1 [H2 [H3 H4]]]]]; (split; [exact Hi|]); arr_fin.
  - (* remove_at *)
    pose proof (arr_step_remove a idx Hinv) as H.
    destruct (arr_res_rem a (arr_remove_at a idx)) as [a' r].
    destruct (spec_remove (arr_abs a) idx) as [[l' v]|]; destruct H as [Hi H]; auto.
  - (* remove_first *)
    unfold arr_remove_first.
    pose proof (arr_step_remove a 0 Hinv) as H.
    destruct (arr_res_rem a (arr_remove_at a 0)) as [a' r].
    unfold spec_remove in H.
    destruct (arr_abs a) as [|x t]; cbn [nth_error firstn skipn app] in H; destruct H as [Hi H]; auto.
  - (* remove_last *)
    unfold arr_remove_last.
    destruct (list_snoc_cases (arr_abs a)) as [E | [r0 [z E]]].
    + rewrite E in *. cbn [length] in Hlen. rewrite <- Hlen. cbn [Nat.eqb arr_res_rem]. auto.
    + rewrite E in Hlen. rewrite app_length in Hlen. cbn [length] in Hlen.
      rewrite (proj2 (Nat.eqb_neq _ 0)) by lia.
      pose proof (arr_step_remove a (a_cnt a - 1) Hinv) as H.
      destruct (arr_res_rem a (arr_remove_at a (a_cnt a - 1))) as [a' r].
      unfold spec_remove in H. rewrite E in H |- *.
      replace (a_cnt a - 1) with (length r0 + 0) in H by lia.
      rewrite nth_error_app2 in H by lia.
      replace (length r0 + 0 - length r0) with 0 in H by lia. cbn [nth_error] in H.
      rewrite Nat.add_0_r in H.
      rewrite (firstn_app_l r0) in H by reflexivity.
      replace (S (length r0)) with (length r0 + 1) in H by lia.
      rewrite (skipn_app_plus r0) in H by reflexivity. cbn [skipn] in H. rewrite app_nil_r in H.
      rewrite removelast_last, last_last.
      destruct H as [Hi H]. destruct r0; cbn [app]; auto.
  - (* at *)
    split; [exact Hinv|]. left. rewrite arr_at_refines. auto.
  - (* first *)
    split; [exact Hinv|]. left. unfold arr_first. rewrite arr_at_refines.
    destruct (arr_abs a); auto.
  - (* last *)
    split; [exact Hinv|]. left. split; [|reflexivity]. f_equal.
    unfold arr_last, arr_len.
    destruct (list_snoc_cases (arr_abs a)) as [E | [r0 [z E]]].
    + rewrite E in *. cbn [length] in Hlen. rewrite <- Hlen. reflexivity.
    + rewrite arr_at_refines. rewrite E in *. rewrite app_length in Hlen. cbn [length] in Hlen.
      rewrite (proj2 (Nat.eqb_neq _ 0)) by lia.
      replace (a_cnt a - 1) with (length r0) by lia.
      rewrite nth_error_app2 by lia. rewrite Nat.sub_diag. rewrite last_last.
      destruct r0; reflexivity.
  - (* len *)
    split; [exact Hinv|]. left. unfold arr_len. rewrite Hlen. auto.
  - (* set_size *)
    rewrite Hlen.
    destruct (Nat.eqb n 0 || Nat.ltb n (a_cnt a)) eqn:Eg.
    + unfold arr_set_size. rewrite Eg. cbn [arr_res_ins]. split; [exact Hinv|]. left. auto.
    + apply orb_false_iff in Eg. destruct Eg as [En0 Enc].
      apply Nat.eqb_neq in En0. apply Nat.ltb_ge in Enc.
      destruct (arr_set_size_spec ok a n) as [[k [E Hk]] | [Eok E]]; [lia | lia | |].
      * rewrite E. cbn [arr_res_ins]. destruct Hinv as [Hroom Hzero].
        unfold arr_inv_full, arr_abs, alloc_cnt in *. cbn [a_cells a_cnt a_off].
        split; [split; [len_norm; lia | exact Hzero]|]. left. split; [reflexivity|].
        apply arr_abs_pad. exact Hroom.
      * rewrite E. cbn [arr_res_ins]. split; [exact Hinv|]. right. auto.
  - (* sort *)
    destruct (arr_sort_refines a Hinv) as [a' [E [Hinv' Habs]]].
    rewrite E. cbn [arr_res_ins]. split; [exact Hinv'|]. left. auto.
Qed.

(* ares_array_finish hands out exactly the members, in order *)
Theorem arr_finish_refines a : arr_inv_full a -> arr_finish a = Ok (arr_abs a).
Proof.
  intros [Hroom Hzero]. unfold arr_finish.
  destruct a as [cells cnt off]. unfold alloc_cnt, arr_abs in *. cbn [a_cells a_cnt a_off] in *.
  destruct (Nat.eqb_spec off 0) as [E0|N0].
  - subst off. cbn [negb bind a_cells a_cnt skipn]. unfold alloc_cnt. cbn [a_cells].
    rewrite (proj2 (Nat.ltb_ge _ _)) by lia. reflexivity.
  - cbn [negb].
    assert (cnt <> 0) as Hc by (intros Hc0; specialize (Hzero Hc0); lia).
    destruct (split3 cells off cnt Hroom) as [pre [mem [post [Ec [Hpre [Hmem Hm]]]]]].
    assert (mem <> []) as Hne by (intros ->; simpl in Hmem; lia).
    destruct (arr_move_front pre mem post Hne) as [cells' [Em [HL' Hf]]].
    rewrite <- Hm. clear Hm. subst cells off cnt.
    rewrite Em. cbn [bind a_cells a_cnt]. unfold alloc_cnt. cbn [a_cells a_cnt].
    rewrite (proj2 (Nat.ltb_ge _ _)) by (rewrite HL'; len_norm; lia).
    rewrite Hf. reflexivity.
Qed.

(* with the rest of what the C standard promises of qsort, the members end up sorted and are
   the same multiset *)
Theorem arr_sort_sorted (cmp : Z -> Z -> Z) a :
  (forall l, Sorted (fun x y => (cmp x y <= 0)%Z) (qsort l)) ->
  arr_inv_full a ->
  exists a', arr_sort qsort a = Ok a' /\ arr_inv_full a'
             /\ Sorted (fun x y => (cmp x y <= 0)%Z) (arr_abs a')
             /\ Permutation (arr_abs a') (arr_abs a).
Proof.
  intros Hs Hinv. destruct (arr_sort_refines a Hinv) as [a' [E [Hinv' Habs]]].
  exists a'. rewrite Habs. auto.
Qed.

Theorem arr_sort_full (cmp : Z -> Z -> Z) :
  (forall l, Sorted (fun x y => (cmp x y <= 0)%Z) (qsort l)) ->
  forall a, arr_inv_full a ->
  exists a', arr_sort qsort a = Ok a' /\ arr_inv_full a'
             /\ arr_abs a' = qsort (arr_abs a)
             /\ Sorted (fun x y => (cmp x y <= 0)%Z) (arr_abs a')
             /\ Permutation (arr_abs a') (arr_abs a).
Proof.
  intros Hs a Hinv. destruct (arr_sort_refines a Hinv) as [a' [E [Hi Habs]]].
  exists a'. rewrite Habs. auto.
Qed.

(* ---------- lifted to operation sequences ---------- *)
(* C19, array: with an allocator that never refuses, every sequence of API calls on a fresh
   array returns, call by call, exactly what the plain list returns, and the members at the
   end are the list - in particular no call is UB and no in-range insert fails, whatever the
   removal pattern before it. *)
Theorem arr_run_refines_from a ops :
  arr_inv_full a ->
  let '(a', rs) := arr_run qsort a (map (fun o => (true, o)) ops) in
  let '(l', rs') := aspec_run qsort (arr_abs a) ops in
  arr_inv_full a' /\ rs = rs' /\ arr_abs a' = l'.
Proof.
  revert a. induction ops as [|o ops IH]; intros a Hinv; cbn [map arr_run aspec_run].
  - auto.
  - pose proof (arr_step_refines true a o Hinv) as Hs. unfold arr_step_ok in Hs.
    destruct (arr_step qsort true a o) as [a1 r].
    destruct (aspec_step qsort (arr_abs a) o) as [l1 r'].
    destruct Hs as [Hinv1 [[Hr Habs] | [Hf _]]]; [|discriminate].
    specialize (IH a1 Hinv1). rewrite Habs in IH.
    destruct (arr_run qsort a1 (map (fun o0 => (true, o0)) ops)) as [a2 rs].
    destruct (aspec_run qsort l1 ops) as [l2 rs'].
    destruct IH as [Hinv2 [Hrs Habs2]]. subst. auto.
Qed.

Lemma aspec_step_no_ub l o : snd (aspec_step qsort l o) <> RUB.
Proof.
  destruct o; cbn [aspec_step]; try discriminate.
  - destruct (spec_insert l idx v); discriminate.
  - destruct (spec_remove l idx) as [[? ?]|]; discriminate.
  - destruct l; discriminate.
  - destruct l; discriminate.
Qed.

Lemma aspec_run_no_ub l ops : ~ In RUB (snd (aspec_run qsort l ops)).
Proof.
  revert l. induction ops as [|o ops IH]; intros l; cbn [aspec_run]; [intros []|].
  pose proof (aspec_step_no_ub l o) as H1.
  destruct (aspec_step qsort l o) as [l1 r]. specialize (IH l1).
  destruct (aspec_run qsort l1 ops) as [l2 rs]. cbn [snd] in *.
  intros [E|E]; [congruence | exact (IH E)].
Qed.

Theorem arr_run_refines ops :
  let '(a', rs) := arr_run qsort arr_create (map (fun o => (true, o)) ops) in
  let '(l', rs') := aspec_run qsort [] ops in
  rs = rs' /\ arr_abs a' = l' /\ ~ In RUB rs.
Proof.
  pose proof (arr_run_refines_from arr_create ops (proj1 arr_create_inv)) as H.
  rewrite (proj2 arr_create_inv) in H.
  destruct (arr_run qsort arr_create (map (fun o => (true, o)) ops)) as [a' rs].
  pose proof (aspec_run_no_ub [] ops) as Hnub.
  destruct (aspec_run qsort [] ops) as [l' rs'].
  destruct H as [_ [Hrs Habs]]. subst. auto.
Qed.

(* C14 (container level) / C19 totality: when the allocator may refuse, the only deviation from
   the list is an insert reporting ARES_ENOMEM with the members unchanged, and only when the
   allocator did refuse. *)
Theorem arr_run_alloc_refines_from a ops :
  arr_inv_full a ->
  let '(a', rs) := arr_run qsort a ops in
  arr_inv_full a' /\ aspec_trace qsort (arr_abs a) ops rs (arr_abs a').
Proof.
  revert a. induction ops as [|[ok o] ops IH]; intros a Hinv; cbn [arr_run aspec_trace].
  - auto.
  - pose proof (arr_step_refines ok a o Hinv) as Hs. unfold arr_step_ok in Hs.
    destruct (arr_step qsort ok a o) as [a1 r].
    destruct (aspec_step qsort (arr_abs a) o) as [l1 r'] eqn:Es.
    destruct Hs as [Hinv1 Hs].
    specialize (IH a1 Hinv1).
    destruct (arr_run qsort a1 ops) as [a2 rs]. destruct IH as [Hinv2 Htr].
    split; [exact Hinv2|]. cbn [fst snd].
    destruct Hs as [[Hr Habs] | [Hf [Hins [Hr' [Hr Ha]]]]].
    + left. subst. auto.
    + right. subst. auto.
Qed.

Theorem arr_run_alloc_refines ops :
  let '(a', rs) := arr_run qsort arr_create ops in
  aspec_trace qsort [] ops rs (arr_abs a') /\ ~ In RUB rs.
Proof.
  pose proof (arr_run_alloc_refines_from arr_create ops (proj1 arr_create_inv)) as H.
  rewrite (proj2 arr_create_inv) in H.
  destruct (arr_run qsort arr_create ops) as [a' rs]. destruct H as [_ H]. split; [exact H|].
  clear - H. revert H. generalize (@nil Z) as l. revert rs.
  induction ops as [|[ok o] ops IH]; intros rs l H; destruct rs as [|r rs]; cbn [aspec_trace] in H; try contradiction.
  - intros [].
  - destruct H as [[Hr Ht] | [_ [_ [_ [Hr Ht]]]]]; intros [E|E].
    + subst r. exact (aspec_step_no_ub l o E).
    + exact (IH rs _ Ht E).
    + subst r. discriminate E.
    + exact (IH rs _ Ht E).
Qed.

(* the hypotheses are satisfiable by a non-trivial state: an array drained from the front up to
   its allocation size and refilled (the pattern that used to make every insert fail) *)
Example arr_run_example :
  arr_run qsort arr_create (map (fun o => (true, o))
    [AInsLast 1; AInsLast 2; AInsLast 3; AInsLast 4; ARemFirst; ARemFirst; ARemFirst; ARemFirst;
     AInsLast 5; AInsFirst 6; AInsAt 1 7; ARemAt 1; ALast])
  = (mkArr [6; 5; 5; 4]%Z 2 0,
     [RStatus 0; RStatus 0; RStatus 0; RStatus 0; RRemoved 1; RRemoved 2; RRemoved 3; RRemoved 4;
      RStatus 0; RStatus 0; RStatus 0; RRemoved 7; RVal (Some 5)]%Z).
Proof. vm_compute. reflexivity. Qed.

Theorem arr_run_finish ops :
  arr_finish (fst (arr_run qsort arr_create (map (fun o => (true, o)) ops))) = Ok (fst (aspec_run qsort [] ops)).
Proof.
  pose proof (arr_run_refines_from arr_create ops (proj1 arr_create_inv)) as H.
  rewrite (proj2 arr_create_inv) in H.
  destruct (arr_run qsort arr_create (map (fun o => (true, o)) ops)) as [a' rs].
  destruct (aspec_run qsort [] ops) as [l' rs'].
  destruct H as [Hinv [_ Habs]]. cbn [fst]. rewrite <- Habs. apply arr_finish_refines. exact Hinv.
Qed.
End ArrOpsProofs.
