(* Refinement of the array model to the list specification. *)
From CAres.Dsa Require Import Array.
From CAres.Gen Require Import Consts.
Local Open Scope nat_scope.

Definition arr_inv_full (a : arr) : Prop :=
  a_off a + a_cnt a <= alloc_cnt a /\ (a_cnt a = 0 -> a_off a = 0).

Lemma nth_error_firstn_lt {A} (l : list A) n i : i < n -> nth_error (firstn n l) i = nth_error l i.
Proof.
  revert l i; induction n as [|n IH]; intros l i Hi; [lia|].
  destruct l as [|x l]; [destruct i; reflexivity|].
  destruct i as [|i]; simpl; [reflexivity|]. apply IH; lia.
Qed.

Lemma nth_error_skipn {A} (l : list A) n i : nth_error (skipn n l) i = nth_error l (n + i).
Proof.
  revert l; induction n as [|n IH]; intros l; simpl; [reflexivity|].
  destruct l as [|x l]; [destruct i; reflexivity|]. apply IH.
Qed.

Lemma arr_at_refines a idx : arr_at a idx = nth_error (arr_abs a) idx.
Proof.
  unfold arr_at, arr_abs.
  destruct (Nat.leb_spec (a_cnt a) idx) as [H|H].
  - symmetry. apply nth_error_None. rewrite firstn_length. lia.
  - rewrite nth_error_firstn_lt by lia. rewrite nth_error_skipn. f_equal. lia.
Qed.

Lemma arr_insert_bad_index ok a idx v : a_cnt a < idx -> arr_insertdata_at ok a idx v = Err ARES_EFORMERR.
Proof.
  intros H. unfold arr_insertdata_at.
  destruct (Nat.ltb_spec (a_cnt a) idx); [reflexivity | lia].
Qed.
