(* C19 - ares_round_up_pow2() (src/lib/util/ares_math.c), the growth function of ares_array,
   ares_slist and ares_htable: the text GENERATED from the C source (both bit-smearing bodies
   inlined, ares_is_64bit() as an input and itself generated) computes, for every size the
   containers can pass, the least power of two >= n - which is what the hand models
   (Dsa/Array.v round_up_pow2 = 2 ^ log2_up n) assume.  This closes the call oracle
   [call_ares_round_up_pow2_1] of the generated ares_array_set_size (Dsa_gen_agree.v).

   The smear  x |= x >> 1; x |= x >> 2; ... ; x |= x >> 32  is handled by one invariant over
   bit positions ([spread]: bit i of x is set iff some bit in [i, i + w) of the input is set; every
   step doubles w), not by enumeration: the statement is for ALL n in range.

   Outside the range the C code is not total: on LP64 the u64 body works on ares_int64_t, so
   n > 2^62 overflows the signed n++ (undefined behaviour); see [round_up_pow2_overflow_refuted].
   No container reaches it (a size above 2^62 elements cannot be allocated). *)
From Coq Require Import ZArith Lia Bool.
From CAres.Base Require Import CInt.
From CAres.Gen Require Import Consts LeafFns.
From CAres.Dsa Require Import Array.
Local Open Scope Z_scope.

Definition spread (m w x : Z) : Prop :=
  forall i, 0 <= i -> (Z.testbit x i = true <-> exists j, i <= j < i + w /\ Z.testbit m j = true).

Lemma spread_init m : spread m 1 m.
Proof.
  intros i Hi. split.
  - intros H. exists i. split; [lia | exact H].
  - intros (j & Hj & H). replace i with j by lia. exact H.
Qed.

Lemma spread_step m w x : 0 < w -> spread m w x -> spread m (2 * w) (Z.lor x (Z.shiftr x w)).
Proof.
  intros Hw S i Hi. rewrite Z.lor_spec, Z.shiftr_spec by lia.
  destruct (S i Hi) as [A1 A2]. destruct (S (i + w) ltac:(lia)) as [B1 B2]. split.
  - intros H. apply orb_true_iff in H as [H | H].
    + destruct (A1 H) as (j & Hj & Hb). exists j. split; [lia | exact Hb].
    + destruct (B1 H) as (j & Hj & Hb). exists j. split; [lia | exact Hb].
  - intros (j & Hj & Hb). apply orb_true_iff. destruct (Z_lt_ge_dec j (i + w)) as [L | L].
    + left. apply A2. exists j. split; [lia | exact Hb].
    + right. apply B2. exists j. split; [lia | exact Hb].
Qed.

(* once the window covers the whole word the result is the all-ones mask up to the top bit *)
Lemma spread_ones m B x : 0 < m < 2 ^ B -> 0 < B -> spread m B x -> x = Z.ones (Z.log2 m + 1).
Proof.
  intros Hm HB S. set (L := Z.log2 m).
  assert (HL0 : 0 <= L) by apply Z.log2_nonneg.
  assert (HLB : L < B) by (apply Z.log2_lt_pow2; lia).
  apply Z.bits_inj'. intros i Hi. destruct (Z_le_gt_dec i L) as [Le | Gt].
  - rewrite Z.ones_spec_low by lia. apply (S i Hi). exists L. split; [lia |]. apply Z.bit_log2. lia.
  - rewrite Z.ones_spec_high by lia. destruct (Z.testbit x i) eqn:E; [| reflexivity].
    apply (S i Hi) in E as (j & Hj & Hb). rewrite Z.bits_above_log2 in Hb; [discriminate | lia | fold L; lia].
Qed.

Lemma smear64 m x1 x2 x3 x4 x5 x6 :
  x1 = Z.lor m (Z.shiftr m 1) -> x2 = Z.lor x1 (Z.shiftr x1 2) -> x3 = Z.lor x2 (Z.shiftr x2 4) ->
  x4 = Z.lor x3 (Z.shiftr x3 8) -> x5 = Z.lor x4 (Z.shiftr x4 16) -> x6 = Z.lor x5 (Z.shiftr x5 32) ->
  spread m 64 x6.
Proof.
  intros -> -> -> -> -> ->.
  pose proof (spread_step m 1 _ ltac:(lia) (spread_init m)) as S1. change (2 * 1) with 2 in S1.
  pose proof (spread_step m 2 _ ltac:(lia) S1) as S2. change (2 * 2) with 4 in S2.
  pose proof (spread_step m 4 _ ltac:(lia) S2) as S3. change (2 * 4) with 8 in S3.
  pose proof (spread_step m 8 _ ltac:(lia) S3) as S4. change (2 * 8) with 16 in S4.
  pose proof (spread_step m 16 _ ltac:(lia) S4) as S5. change (2 * 16) with 32 in S5.
  pose proof (spread_step m 32 _ ltac:(lia) S5) as S6. change (2 * 32) with 64 in S6.
  exact S6.
Qed.

Lemma smear32 m x1 x2 x3 x4 x5 :
  x1 = Z.lor m (Z.shiftr m 1) -> x2 = Z.lor x1 (Z.shiftr x1 2) -> x3 = Z.lor x2 (Z.shiftr x2 4) ->
  x4 = Z.lor x3 (Z.shiftr x3 8) -> x5 = Z.lor x4 (Z.shiftr x4 16) ->
  spread m 32 x5.
Proof.
  intros -> -> -> -> ->.
  pose proof (spread_step m 1 _ ltac:(lia) (spread_init m)) as S1. change (2 * 1) with 2 in S1.
  pose proof (spread_step m 2 _ ltac:(lia) S1) as S2. change (2 * 2) with 4 in S2.
  pose proof (spread_step m 4 _ ltac:(lia) S2) as S3. change (2 * 4) with 8 in S3.
  pose proof (spread_step m 8 _ ltac:(lia) S3) as S4. change (2 * 8) with 16 in S4.
  pose proof (spread_step m 16 _ ltac:(lia) S4) as S5. change (2 * 16) with 32 in S5.
  exact S5.
Qed.

(* a wider window than the word changes nothing: bits at or above B are clear *)
Lemma spread_widen m B w x : 0 <= m < 2 ^ B -> 0 < B <= w -> spread m w x ->
  forall i, 0 <= i -> (Z.testbit x i = true <-> exists j, i <= j /\ Z.testbit m j = true).
Proof.
  intros Hm HB S i Hi. destruct (S i Hi) as [A1 A2]. split.
  - intros H. destruct (A1 H) as (j & Hj & Hb). exists j. split; [lia | exact Hb].
  - intros (j & Hj & Hb). apply A2. exists j. split; [| exact Hb]. split; [lia |].
    destruct (Z_lt_ge_dec j B) as [L | G]; [lia |].
    destruct (Z.eq_dec m 0) as [-> | Hnz]; [rewrite Z.bits_0 in Hb; discriminate |].
    rewrite Z.bits_above_log2 in Hb; [discriminate | lia |].
    assert (Z.log2 m < B) by (apply Z.log2_lt_pow2; lia). lia.
Qed.

Lemma smear_value m B w x : 0 <= m < 2 ^ B -> 0 < B <= w -> spread m w x ->
  x + 1 = if m =? 0 then 1 else 2 ^ (Z.log2 m + 1).
Proof.
  intros Hm HB S. destruct (Z.eqb_spec m 0) as [-> | Hnz].
  - assert (x = 0); [| lia]. apply Z.bits_inj'. intros i Hi. rewrite Z.bits_0.
    destruct (Z.testbit x i) eqn:E; [| reflexivity].
    apply (S i Hi) in E as (j & _ & Hb). rewrite Z.bits_0 in Hb. discriminate.
  - assert (Hx : x = Z.ones (Z.log2 m + 1)).
    { set (L := Z.log2 m). assert (HL0 : 0 <= L) by apply Z.log2_nonneg.
      pose proof (spread_widen m B w x Hm HB S) as W.
      apply Z.bits_inj'. intros i Hi. destruct (Z_le_gt_dec i L) as [Le | Gt].
      - rewrite Z.ones_spec_low by lia. apply (W i Hi). exists L. split; [lia |]. apply Z.bit_log2. lia.
      - rewrite Z.ones_spec_high by lia. destruct (Z.testbit x i) eqn:E; [| reflexivity].
        apply (W i Hi) in E as (j & Hj & Hb). rewrite Z.bits_above_log2 in Hb; [discriminate | lia | fold L; lia]. }
    rewrite Hx, Z.ones_equiv. lia.
Qed.

Lemma pow2_log2_up_pred n : 1 <= n -> (if n - 1 =? 0 then 1 else 2 ^ (Z.log2 (n - 1) + 1)) = 2 ^ Z.log2_up n.
Proof.
  intros Hn. destruct (Z.eqb_spec (n - 1) 0) as [E | E].
  - replace n with 1 by lia. reflexivity.
  - rewrite Z.log2_up_eqn by lia. unfold Z.succ, Z.pred. reflexivity.
Qed.

(* ---- the generated function ---- *)
Theorem round_up_pow2_generated_64 n :
  1 <= n <= 2 ^ 62 -> c_ares_round_up_pow2 n 1 = Ok (2 ^ Z.log2_up n).
Proof.
  intros Hn. unfold c_ares_round_up_pow2. change (negb (1 =? 0)) with true. cbv iota.
  rewrite swrap_small by (change (2 ^ (64 - 1)) with (2 ^ 63); lia). cbv zeta.
  assert (G1 : ((- 2 ^ 63 <=? n - 1) && (n - 1 <? 2 ^ 63)) = true).
  { apply andb_true_iff. split; [apply Z.leb_le | apply Z.ltb_lt]; lia. }
  rewrite G1, guard_true.
  set (m := n - 1).
  set (x1 := Z.lor m (Z.shiftr m 1)). set (x2 := Z.lor x1 (Z.shiftr x1 2)). set (x3 := Z.lor x2 (Z.shiftr x2 4)).
  set (x4 := Z.lor x3 (Z.shiftr x3 8)). set (x5 := Z.lor x4 (Z.shiftr x4 16)). set (x6 := Z.lor x5 (Z.shiftr x5 32)).
  pose proof (smear64 m x1 x2 x3 x4 x5 x6 eq_refl eq_refl eq_refl eq_refl eq_refl eq_refl) as S.
  assert (Hm : 0 <= m < 2 ^ 62) by (unfold m; lia).
  pose proof (smear_value m 62 64 x6 Hm ltac:(lia) S) as V.
  unfold m in V at 1 2. rewrite (pow2_log2_up_pred n ltac:(lia)) in V. clearbody x6.
  assert (Hup : 0 < 2 ^ Z.log2_up n <= 2 ^ 62).
  { split; [apply Z.pow_pos_nonneg; [lia | apply Z.log2_up_nonneg] |].
    apply Z.pow_le_mono_r; [lia |]. destruct (Z.eq_dec n 1) as [-> | N1]; [cbn; lia |].
    apply Z.log2_up_le_pow2; lia. }
  assert (G2 : ((- 2 ^ 63 <=? x6 + 1) && (x6 + 1 <? 2 ^ 63)) = true).
  { apply andb_true_iff. split; [apply Z.leb_le | apply Z.ltb_lt]; lia. }
  rewrite G2, guard_true, V. reflexivity.
Qed.

Theorem round_up_pow2_generated_32 n :
  1 <= n <= 2 ^ 31 -> c_ares_round_up_pow2 n 0 = Ok (2 ^ Z.log2_up n).
Proof.
  intros Hn. unfold c_ares_round_up_pow2. change (negb (0 =? 0)) with false. cbv iota zeta.
  rewrite (Z.mod_small n) by lia. rewrite (Z.mod_small (n - 1)) by lia.
  set (m := n - 1).
  set (x1 := Z.lor m (Z.shiftr m 1)). set (x2 := Z.lor x1 (Z.shiftr x1 2)). set (x3 := Z.lor x2 (Z.shiftr x2 4)).
  set (x4 := Z.lor x3 (Z.shiftr x3 8)). set (x5 := Z.lor x4 (Z.shiftr x4 16)).
  pose proof (smear32 m x1 x2 x3 x4 x5 eq_refl eq_refl eq_refl eq_refl eq_refl) as S.
  assert (Hm : 0 <= m < 2 ^ 31) by (unfold m; lia).
  pose proof (smear_value m 31 32 x5 Hm ltac:(lia) S) as V.
  unfold m in V at 1 2. rewrite (pow2_log2_up_pred n ltac:(lia)) in V. clearbody x5.
  assert (Hup : 0 < 2 ^ Z.log2_up n <= 2 ^ 31).
  { split; [apply Z.pow_pos_nonneg; [lia | apply Z.log2_up_nonneg] |].
    apply Z.pow_le_mono_r; [lia |]. destruct (Z.eq_dec n 1) as [-> | N1]; [cbn; lia |].
    apply Z.log2_up_le_pow2; lia. }
  rewrite V, Z.mod_small by lia. reflexivity.
Qed.

(* this build: ares_is_64bit() is the constant ARES_TRUE *)
Lemma is_64bit_generated : c_ares_is_64bit = Ok 1.
Proof. reflexivity. Qed.

(* ---- the hand model's round_up_pow2 (nat) is that function ---- *)
Lemma log2_nat_Z k : (0 < k)%nat -> Z.of_nat (Nat.log2 k) = Z.log2 (Z.of_nat k).
Proof.
  intros Hk. symmetry. apply Z.log2_unique; [lia |].
  pose proof (Nat.log2_spec k Hk) as [L U].
  change 2 with (Z.of_nat 2). rewrite <- Nat2Z.inj_succ, <- !Nat2Z.inj_pow. lia.
Qed.

Lemma log2_up_nat_Z k : (0 < k)%nat -> Z.of_nat (Nat.log2_up k) = Z.log2_up (Z.of_nat k).
Proof.
  intros Hk. destruct (Nat.eq_dec k 1) as [-> | K1]; [reflexivity |].
  rewrite Nat.log2_up_eqn by lia. rewrite Z.log2_up_eqn by lia.
  rewrite Nat2Z.inj_succ, log2_nat_Z by lia. rewrite Nat2Z.inj_pred by lia. reflexivity.
Qed.

Lemma round_up_pow2_nat_Z k : (0 < k)%nat -> Z.of_nat (round_up_pow2 k) = 2 ^ Z.log2_up (Z.of_nat k).
Proof.
  intros Hk. unfold round_up_pow2. rewrite Nat2Z.inj_pow, log2_up_nat_Z by exact Hk. reflexivity.
Qed.

(* what Dsa_gen_agree.v instantiates the call with IS what the C function returns *)
Theorem round_up_pow2_agrees_generated (k : nat) :
  (0 < k)%nat -> Z.of_nat k <= 2 ^ 62 ->
  c_ares_round_up_pow2 (Z.of_nat k) 1 = Ok (Z.of_nat (round_up_pow2 k)).
Proof.
  intros Hk Hb. rewrite round_up_pow2_nat_Z by exact Hk. apply round_up_pow2_generated_64. lia.
Qed.

(* least power of two >= n *)
Theorem round_up_pow2_generated_least n p :
  1 <= n <= 2 ^ 62 -> c_ares_round_up_pow2 n 1 = Ok p ->
  n <= p /\ (exists e, 0 <= e /\ p = 2 ^ e) /\ (forall e, 0 <= e -> n <= 2 ^ e -> p <= 2 ^ e).
Proof.
  intros Hn H. rewrite round_up_pow2_generated_64 in H by exact Hn. inversion H; subst p. clear H.
  split; [| split].
  - destruct (Z.eq_dec n 1) as [-> | N1]; [cbn; lia |]. apply Z.log2_up_spec. lia.
  - exists (Z.log2_up n). split; [apply Z.log2_up_nonneg | reflexivity].
  - intros e He Hle. apply Z.pow_le_mono_r; [lia |].
    destruct (Z.eq_dec n 1) as [-> | N1]; [cbn; lia |]. apply Z.log2_up_le_pow2; lia.
Qed.

(* outside the range the C function is not total (LP64): signed overflow of n++ on ares_int64_t *)
Lemma round_up_pow2_overflow_refuted : c_ares_round_up_pow2 (2 ^ 62 + 1) 1 = UB SignedOverflow.
Proof. vm_compute. reflexivity. Qed.

(* n = 0: 0 - 1 smears to all ones, + 1 = 0 (the callers never pass 0 elements: set_size guards) *)
Lemma round_up_pow2_zero : c_ares_round_up_pow2 0 1 = Ok 0 /\ c_ares_round_up_pow2 0 0 = Ok 0.
Proof. split; vm_compute; reflexivity. Qed.

(* ---- ares_log2: de Bruijn multiplication and a constant table, generated from the source ----
   The callers pass powers of two only (ares_slist_calc_level: ares_log2(ares_round_up_pow2(cnt + 1))).
   The domain - the 64 powers of two of a 64-bit word - is finite: decided by evaluation over ALL
   of it and lifted to the quantified statement. *)
From CAres.Dsa Require Import SList.

Lemma log2_generated_all :
  forallb (fun k => match c_ares_log2 (2 ^ Z.of_nat k) 1 with Ok v => v =? Z.of_nat k | _ => false end) (seq 0 64) = true.
Proof. vm_compute. reflexivity. Qed.

Theorem log2_generated_pow2 k : 0 <= k < 64 -> c_ares_log2 (2 ^ k) 1 = Ok k.
Proof.
  intros Hk. pose proof log2_generated_all as H. rewrite forallb_forall in H.
  specialize (H (Z.to_nat k)). rewrite Z2Nat.id in H by lia.
  assert (Hin : In (Z.to_nat k) (seq 0 64)) by (apply in_seq; lia).
  specialize (H Hin). destruct (c_ares_log2 (2 ^ k) 1) as [v | s | u]; try discriminate.
  apply Z.eqb_eq in H. subst v. reflexivity.
Qed.

(* the two call inputs of the generated ares_slist_max_level, as Dsa_gen_agree.v instantiates them,
   are what the generated callees return *)
Theorem slist_level_calls_agree_generated (k : nat) :
  (0 < k)%nat -> Z.of_nat k <= 2 ^ 62 ->
  c_ares_round_up_pow2 (Z.of_nat k) 1 = Ok (Z.of_nat (sl_round_up_pow2 k)) /\
  c_ares_log2 (Z.of_nat (sl_round_up_pow2 k)) 1 = Ok (Z.of_nat (sl_log2 (sl_round_up_pow2 k))).
Proof.
  intros Hk Hb. split; [exact (round_up_pow2_agrees_generated k Hk Hb) |].
  unfold sl_log2, sl_round_up_pow2. rewrite Nat.log2_pow2 by apply Nat.le_0_l.
  rewrite Nat2Z.inj_pow. change (Z.of_nat 2) with 2. apply log2_generated_pow2.
  rewrite log2_up_nat_Z by exact Hk. split; [apply Z.log2_up_nonneg |].
  destruct (Nat.eq_dec k 1) as [-> | K1]; [cbn; lia |].
  assert (Z.log2_up (Z.of_nat k) <= 62) by (apply Z.log2_up_le_pow2; lia). lia.
Qed.

(* not a logarithm off the powers of two (and never used there) *)
Lemma log2_generated_not_pow2_witness : c_ares_log2 3 1 = Ok 47 /\ c_ares_log2 0 1 = Ok 63.
Proof. split; vm_compute; reflexivity. Qed.
