(* Model of src/lib/dsa/ares_slist.c (skip list), in the shape of the C code, plus the trivial
   reference specification (a sorted list of (node id, data) pairs).

   Heap: nodes live in [sl_heap]; a node pointer is the index of the node (= creation order of
   the successful inserts), a freed node is [None]; every access through a node pointer first
   loads the node and is [UB UseAfterFree] when it is freed or was never allocated.
   node->next / node->prev are arrays of [sn_levels] optional node pointers, list->head an array
   of [sl_levels] optional node pointers; an index outside such an array is [UB OutOfBounds].

   The level of a new node is the outcome of the coin flips (ares_slist_coin_flip over
   ares_rand_bytes); the model takes the number of leading "heads" of the flip stream as an
   argument ([heads]) and runs ares_slist_calc_level / ares_slist_max_level as in the code.
   The allocator's answers are boolean arguments, one per allocation site.
   The comparison callback [cmp] and the data type [D] are Section variables. *)
From CAres.Base Require Export Outcome.
From CAres.Gen Require Import Consts.
Local Open Scope nat_scope.

(* array cell update; out of range = no change (callers check the range first) *)
Fixpoint sl_upd {A} (l : list A) (i : nat) (v : A) : list A :=
  match l, i with
  | [], _ => []
  | _ :: t, 0 => v :: t
  | x :: t, S j => x :: sl_upd t j v
  end.

(* ARES__SLIST_START_LEVELS *)
Definition sl_start_levels : nat := Z.to_nat ARES__SLIST_START_LEVELS.

(* ares_round_up_pow2 for n >= 1 *)
Definition sl_round_up_pow2 (n : nat) : nat := 2 ^ Nat.log2_up n.
(* ares_log2 (de Bruijn table lookup; exact on powers of two, which is all it is given) *)
Definition sl_log2 (n : nat) : nat := Nat.log2 n.

(* ares_slist_max_level *)
Definition sl_max_level (cnt levels : nat) : nat :=
  let m := if cnt + 1 <=? 2 ^ sl_start_levels then sl_start_levels
           else sl_log2 (sl_round_up_pow2 (cnt + 1)) in
  if m <? levels then levels else m.

(* ares_slist_calc_level: for (level = 1; coin_flip() && level < max_level; level++);
   [heads] = number of leading 1 bits the flip stream delivers *)
Fixpoint sl_calc_level (max_level level heads : nat) : nat :=
  match heads with
  | 0 => level
  | S h => if level <? max_level then sl_calc_level max_level (S level) h else level
  end.

Section SL.
Context {D : Type}.
Variable cmp : D -> D -> Z.

Record sl_node := mkSlNode {
  sn_data   : D;
  sn_prev   : list (option nat);
  sn_next   : list (option nat);
  sn_levels : nat }.

Record slist := mkSl {
  sl_heap   : list (option sl_node);
  sl_head   : list (option nat);
  sl_levels : nat;
  sl_tail   : option nat;
  sl_cnt    : nat }.

(* ---- heap access ---- *)
Definition sl_node_at (s : slist) (n : nat) : option sl_node :=
  match nth_error (sl_heap s) n with Some (Some nd) => Some nd | _ => None end.

Definition sl_is_live (s : slist) (n : nat) : bool :=
  match sl_node_at s n with Some _ => true | None => false end.

Definition sl_load (s : slist) (n : nat) : outcome sl_node :=
  match sl_node_at s n with Some nd => Ok nd | None => UB UseAfterFree end.

Definition sl_map_node (s : slist) (n : nat) (f : sl_node -> sl_node) : slist :=
  mkSl (match sl_node_at s n with
        | Some nd => sl_upd (sl_heap s) n (Some (f nd))
        | None => sl_heap s end)
       (sl_head s) (sl_levels s) (sl_tail s) (sl_cnt s).

Definition sl_node_data (s : slist) (n : nat) : outcome D :=
  do nd <- sl_load s n; Ok (sn_data nd).

Definition sl_get_next (s : slist) (n i : nat) : outcome (option nat) :=
  do nd <- sl_load s n;
  match nth_error (sn_next nd) i with Some p => Ok p | None => UB OutOfBounds end.

Definition sl_get_prev (s : slist) (n i : nat) : outcome (option nat) :=
  do nd <- sl_load s n;
  match nth_error (sn_prev nd) i with Some p => Ok p | None => UB OutOfBounds end.

Definition sl_set_next (s : slist) (n i : nat) (v : option nat) : outcome slist :=
  do nd <- sl_load s n;
  if i <? length (sn_next nd)
  then Ok (sl_map_node s n (fun nd => mkSlNode (sn_data nd) (sn_prev nd) (sl_upd (sn_next nd) i v) (sn_levels nd)))
  else UB OutOfBounds.

Definition sl_set_prev (s : slist) (n i : nat) (v : option nat) : outcome slist :=
  do nd <- sl_load s n;
  if i <? length (sn_prev nd)
  then Ok (sl_map_node s n (fun nd => mkSlNode (sn_data nd) (sl_upd (sn_prev nd) i v) (sn_next nd) (sn_levels nd)))
  else UB OutOfBounds.

Definition sl_get_head (s : slist) (i : nat) : outcome (option nat) :=
  match nth_error (sl_head s) i with Some p => Ok p | None => UB OutOfBounds end.

Definition sl_set_head (s : slist) (i : nat) (v : option nat) : outcome slist :=
  if i <? length (sl_head s)
  then Ok (mkSl (sl_heap s) (sl_upd (sl_head s) i v) (sl_levels s) (sl_tail s) (sl_cnt s))
  else UB OutOfBounds.

Definition sl_set_tail (s : slist) (v : option nat) : slist :=
  mkSl (sl_heap s) (sl_head s) (sl_levels s) v (sl_cnt s).

Definition sl_set_cnt (s : slist) (c : nat) : slist :=
  mkSl (sl_heap s) (sl_head s) (sl_levels s) (sl_tail s) c.

(* ---- ares_slist_create ---- *)
Definition sl_create (a_list a_head : bool) : option slist :=
  if negb a_list then None
  else if negb a_head then None
  else Some (mkSl [] (repeat None sl_start_levels) sl_start_levels None 0).

(* ---- ares_slist_node_push ---- *)
(* while (left->next[i] != NULL && cmp(node->data, left->next[i]->data) > 0) left = left->next[i]; *)
Fixpoint sl_push_scan (fuel : nat) (s : slist) (d : D) (i left : nat) : outcome nat :=
  match fuel with
  | 0 => Err OutOfFuel
  | S f =>
    do nx <- sl_get_next s left i;
    match nx with
    | None => Ok left
    | Some m =>
      do md <- sl_node_data s m;
      if (cmp d md >? 0)%Z then sl_push_scan f s d i m else Ok left
    end
  end.

(* one iteration of the level loop (level i) *)
Definition sl_push_level (fuel : nat) (s : slist) (n : nat) (d : D) (nlev i : nat)
           (left : option nat) : outcome (slist * option nat) :=
  do h <- sl_get_head s i;
  do left1 <- match left, h with
              | None, Some hn =>
                do hd <- sl_node_data s hn;
                if (cmp d hd >? 0)%Z then Ok (Some hn) else Ok None
              | _, _ => Ok left
              end;
  do left2 <- match left1 with
              | Some l => do l' <- sl_push_scan fuel s d i l; Ok (Some l')
              | None => Ok None
              end;
  if nlev <=? i then Ok (s, left2)
  else
    do s1 <- match left2 with
             | None =>
               (* head insertion *)
               do sa <- sl_set_next s n i h;
               do sb <- sl_set_prev sa n i None;
               sl_set_head sb i (Some n)
             | Some l =>
               (* chain *)
               do ln <- sl_get_next s l i;
               do sa <- sl_set_next s n i ln;
               do sb <- sl_set_prev sa n i (Some l);
               sl_set_next sb l i (Some n)
             end;
    do nn <- sl_get_next s1 n i;
    do s2 <- match nn with
             | Some m => sl_set_prev s1 m i (Some n)
             | None => if i =? 0 then Ok (sl_set_tail s1 (Some n)) else Ok s1
             end;
    Ok (s2, left2).

(* for (i = list->levels; i-- > 0;) *)
Fixpoint sl_push_levels (fuel : nat) (s : slist) (n : nat) (d : D) (nlev i : nat)
         (left : option nat) : outcome slist :=
  match i with
  | 0 => Ok s
  | S i' =>
    do r <- sl_push_level fuel s n d nlev i' left;
    sl_push_levels fuel (fst r) n d nlev i' (snd r)
  end.

Definition sl_node_push (s : slist) (n : nat) : outcome slist :=
  do nd <- sl_load s n;
  sl_push_levels (S (sl_cnt s)) s n (sn_data nd) (sn_levels nd) (sl_levels s) None.

(* ---- ares_slist_insert ---- *)
Definition sl_insert (heads : nat) (a_node a_next a_prev a_head : bool) (s : slist) (d : D)
  : outcome (slist * option nat) :=
  if negb a_node then Ok (s, None)
  else
    let lvl := sl_calc_level (sl_max_level (sl_cnt s) (sl_levels s)) 1 heads in
    if negb a_next then Ok (s, None)
    else if negb a_prev then Ok (s, None)
    else if (sl_levels s <? lvl) && negb a_head then Ok (s, None)
    else
      let n := length (sl_heap s) in
      let nd := mkSlNode d (repeat None lvl) (repeat None lvl) lvl in
      let hd := if sl_levels s <? lvl then sl_head s ++ repeat None (lvl - sl_levels s)
                else sl_head s in
      let lv := if sl_levels s <? lvl then lvl else sl_levels s in
      let s1 := mkSl (sl_heap s ++ [Some nd]) hd lv (sl_tail s) (sl_cnt s) in
      do s2 <- sl_node_push s1 n;
      Ok (sl_set_cnt s2 (S (sl_cnt s2)), Some n).

(* ---- ares_slist_node_pop ---- *)
Definition sl_pop_level (s : slist) (n i : nat) : outcome slist :=
  do nx <- sl_get_next s n i;
  do s1 <- match nx with
           | None => if i =? 0 then do p0 <- sl_get_prev s n 0; Ok (sl_set_tail s p0) else Ok s
           | Some m => do pv <- sl_get_prev s n i; sl_set_prev s m i pv
           end;
  do pv <- sl_get_prev s1 n i;
  match pv with
  | None => do nx' <- sl_get_next s1 n i; sl_set_head s1 i nx'
  | Some p => do nx' <- sl_get_next s1 n i; sl_set_next s1 p i nx'
  end.

Fixpoint sl_pop_levels (s : slist) (n i : nat) : outcome slist :=
  match i with
  | 0 => Ok s
  | S i' => do s1 <- sl_pop_level s n i'; sl_pop_levels s1 n i'
  end.

Definition sl_node_pop (s : slist) (n : nat) : outcome slist :=
  do nd <- sl_load s n;
  do s1 <- sl_pop_levels s n (sn_levels nd);
  (* memset of both arrays *)
  do nd1 <- sl_load s1 n;
  Ok (sl_map_node s1 n (fun nd => mkSlNode (sn_data nd) (repeat None (sn_levels nd))
                                           (repeat None (sn_levels nd)) (sn_levels nd))).

(* ---- ares_slist_node_claim (ares_slist_node_destroy = claim + destructor call on the value) ---- *)
Definition sl_free_node (s : slist) (n : nat) : slist :=
  mkSl (sl_upd (sl_heap s) n None) (sl_head s) (sl_levels s) (sl_tail s) (sl_cnt s).

Definition sl_node_claim (s : slist) (n : nat) : outcome (slist * D) :=
  do nd <- sl_load s n;
  do s1 <- sl_node_pop s n;
  let s2 := sl_free_node s1 n in
  if sl_cnt s2 =? 0 then UB SizeUnderflow
  else Ok (sl_set_cnt s2 (sl_cnt s2 - 1), sn_data nd).

(* ---- ares_slist_node_reinsert ---- *)
Definition sl_node_reinsert (s : slist) (n : nat) : outcome slist :=
  do s1 <- sl_node_pop s n;
  sl_node_push s1 n.

(* the caller changes the key of the object the node points to *)
Definition sl_set_data (s : slist) (n : nat) (d : D) : outcome slist :=
  do nd <- sl_load s n;
  Ok (sl_map_node s n (fun nd => mkSlNode d (sn_prev nd) (sn_next nd) (sn_levels nd))).

(* ---- ares_slist_node_find ---- *)
(* the do { } while (node != NULL && rv > 0) loop at level i; returns (node, rv) *)
Fixpoint sl_find_scan (fuel : nat) (s : slist) (v : D) (i node : nat) : outcome (option nat * Z) :=
  match fuel with
  | 0 => Err OutOfFuel
  | S f =>
    do d <- sl_node_data s node;
    let rv := cmp v d in
    if (rv <? 0)%Z then do p <- sl_get_prev s node i; Ok (p, rv)
    else if (rv >? 0)%Z then
      do nx <- sl_get_next s node i;
      match nx with
      | Some m => sl_find_scan f s v i m
      | None => Ok (None, rv)
      end
    else Ok (Some node, rv)
  end.

Fixpoint sl_find_levels (fuel : nat) (s : slist) (v : D) (i : nat) (node : option nat) (rv : Z)
  : outcome (option nat * Z) :=
  match i with
  | 0 => Ok (node, rv)
  | S i' =>
    do node1 <- match node with None => sl_get_head s i' | Some _ => Ok node end;
    match node1 with
    | None => sl_find_levels fuel s v i' None rv
    | Some n =>
      do r <- sl_find_scan fuel s v i' n;
      if (snd r =? 0)%Z then Ok r else sl_find_levels fuel s v i' (fst r) (snd r)
    end
  end.

(* while (node->prev[0] != NULL && cmp(node->prev[0]->data, val) == 0) node = node->prev[0]; *)
Fixpoint sl_find_rewind (fuel : nat) (s : slist) (v : D) (node : nat) : outcome nat :=
  match fuel with
  | 0 => Err OutOfFuel
  | S f =>
    do p <- sl_get_prev s node 0;
    match p with
    | None => Ok node
    | Some pn =>
      do pd <- sl_node_data s pn;
      if (cmp pd v =? 0)%Z then sl_find_rewind f s v pn else Ok node
    end
  end.

Definition sl_node_find (s : slist) (v : D) : outcome (option nat) :=
  do r <- sl_find_levels (S (sl_cnt s)) s v (sl_levels s) None (-1)%Z;
  if negb (snd r =? 0)%Z then Ok None
  else match fst r with
       | None => UB NullDeref
       | Some n => do f <- sl_find_rewind (S (sl_cnt s)) s v n; Ok (Some f)
       end.

(* ---- accessors ---- *)
Definition sl_node_first (s : slist) : outcome (option nat) := sl_get_head s 0.
Definition sl_node_last (s : slist) : outcome (option nat) := Ok (sl_tail s).
Definition sl_node_next (s : slist) (n : nat) : outcome (option nat) := sl_get_next s n 0.
Definition sl_node_prev (s : slist) (n : nat) : outcome (option nat) := sl_get_prev s n 0.
Definition sl_node_val (s : slist) (n : nat) : outcome D := sl_node_data s n.
Definition sl_len (s : slist) : nat := sl_cnt s.
Definition sl_opt_val (s : slist) (o : option nat) : outcome (option D) :=
  match o with None => Ok None | Some n => do d <- sl_node_val s n; Ok (Some d) end.
Definition sl_first_val (s : slist) : outcome (option D) :=
  do o <- sl_node_first s; sl_opt_val s o.
Definition sl_last_val (s : slist) : outcome (option D) :=
  do o <- sl_node_last s; sl_opt_val s o.

(* ---- ares_slist_destroy: while ((node = first) != NULL) node_destroy(node); returns the values
   in the order the destructor sees them ---- *)
Fixpoint sl_destroy_loop (fuel : nat) (s : slist) (acc : list D) : outcome (list D) :=
  match fuel with
  | 0 => Err OutOfFuel
  | S f =>
    do h <- sl_node_first s;
    match h with
    | None => Ok (rev acc)
    | Some n => do r <- sl_node_claim s n; sl_destroy_loop f (fst r) (snd r :: acc)
    end
  end.
Definition sl_destroy (s : slist) : outcome (list D) := sl_destroy_loop (S (sl_cnt s)) s [].

(* ---- client-side traversals used by the drivers: first/next... and last/prev... ---- *)
Fixpoint sl_walk (fuel : nat) (s : slist) (fwd : bool) (cur : option nat) (acc : list (nat * D))
  : outcome (list (nat * D)) :=
  match cur with
  | None => Ok (rev acc)
  | Some n =>
    match fuel with
    | 0 => Err OutOfFuel
    | S f =>
      do d <- sl_node_val s n;
      do nx <- (if fwd then sl_node_next s n else sl_node_prev s n);
      sl_walk f s fwd nx ((n, d) :: acc)
    end
  end.
Definition sl_walk_fwd (s : slist) : outcome (list (nat * D)) :=
  do h <- sl_node_first s; sl_walk (sl_cnt s) s true h [].
Definition sl_walk_bwd (s : slist) : outcome (list (nat * D)) :=
  do t <- sl_node_last s; sl_walk (sl_cnt s) s false t [].

(* ================= the reference specification ================= *)
(* A sorted list of (node id, data).  [sp_levels] mirrors list->levels only to decide whether
   the head array has to be reallocated (that allocation's answer is consulted only then). *)
Record sl_spec := mkSlSpec { sp_next : nat; sp_l : list (nat * D); sp_levels : nat }.

(* new elements go BEFORE existing equal ones *)
Fixpoint sl_spec_ins (x : nat * D) (l : list (nat * D)) : list (nat * D) :=
  match l with
  | [] => [x]
  | y :: t => if (cmp (snd x) (snd y) >? 0)%Z then y :: sl_spec_ins x t else x :: l
  end.
Definition sl_spec_remove (n : nat) (l : list (nat * D)) : list (nat * D) :=
  filter (fun e => negb (fst e =? n)) l.
Definition sl_spec_lookup (n : nat) (l : list (nat * D)) : option (nat * D) :=
  find (fun e => fst e =? n) l.
Definition sl_spec_find (v : D) (l : list (nat * D)) : option (nat * D) :=
  find (fun e => (cmp v (snd e) =? 0)%Z) l.
Fixpoint sl_spec_after (n : nat) (l : list (nat * D)) : option (nat * D) :=
  match l with
  | [] => None
  | y :: t => if fst y =? n then hd_error t else sl_spec_after n t
  end.
Definition sl_spec_before (n : nat) (l : list (nat * D)) : option (nat * D) :=
  sl_spec_after n (rev l).
Definition sl_spec_create : sl_spec := mkSlSpec 0 [] sl_start_levels.

(* ================= operations, results, runs ================= *)
Inductive sl_op :=
| SlInsert (d : D) (heads : nat) (a_node a_next a_prev a_head : bool)
| SlFind (v : D)
| SlFirst | SlLast
| SlNext (n : nat) | SlPrev (n : nat) | SlVal (n : nat)
| SlFirstVal | SlLastVal | SlLen
| SlClaim (n : nat)          (* ares_slist_node_claim *)
| SlDestroyNode (n : nat)    (* ares_slist_node_destroy: the destructor sees the value *)
| SlReinsert (n : nat) (d : D)  (* the caller rewrites the object, then ares_slist_node_reinsert *)
| SlPopFirst                 (* node_first + node_claim when not NULL (the loop body of destroy) *)
| SlDump.                    (* first/next... , last/prev..., len *)

Inductive sl_res :=
| SlRNode (r : option nat)
| SlRVal (r : option D)
| SlRLen (n : nat)
| SlRDone
| SlRDead                    (* the operation names a node that is not live: the caller must not call *)
| SlRDump (fwd bwd : list (nat * D)) (len : nat).

Definition sl_step_model (s : slist) (o : sl_op) : outcome (slist * sl_res) :=
  match o with
  | SlInsert d heads a1 a2 a3 a4 =>
    do r <- sl_insert heads a1 a2 a3 a4 s d; Ok (fst r, SlRNode (snd r))
  | SlFind v => do r <- sl_node_find s v; Ok (s, SlRNode r)
  | SlFirst => do r <- sl_node_first s; Ok (s, SlRNode r)
  | SlLast => do r <- sl_node_last s; Ok (s, SlRNode r)
  | SlNext n => if sl_is_live s n then do r <- sl_node_next s n; Ok (s, SlRNode r) else Ok (s, SlRDead)
  | SlPrev n => if sl_is_live s n then do r <- sl_node_prev s n; Ok (s, SlRNode r) else Ok (s, SlRDead)
  | SlVal n => if sl_is_live s n then do d <- sl_node_val s n; Ok (s, SlRVal (Some d)) else Ok (s, SlRDead)
  | SlFirstVal => do r <- sl_first_val s; Ok (s, SlRVal r)
  | SlLastVal => do r <- sl_last_val s; Ok (s, SlRVal r)
  | SlLen => Ok (s, SlRLen (sl_len s))
  | SlClaim n | SlDestroyNode n =>
    if sl_is_live s n then do r <- sl_node_claim s n; Ok (fst r, SlRVal (Some (snd r)))
    else Ok (s, SlRDead)
  | SlReinsert n d =>
    if sl_is_live s n then
      do s1 <- sl_set_data s n d; do s2 <- sl_node_reinsert s1 n; Ok (s2, SlRDone)
    else Ok (s, SlRDead)
  | SlPopFirst =>
    do h <- sl_node_first s;
    match h with
    | None => Ok (s, SlRVal None)
    | Some n => do r <- sl_node_claim s n; Ok (fst r, SlRVal (Some (snd r)))
    end
  | SlDump =>
    do f <- sl_walk_fwd s; do b <- sl_walk_bwd s; Ok (s, SlRDump f b (sl_len s))
  end.

Definition sl_spec_in (n : nat) (sp : sl_spec) : bool :=
  match sl_spec_lookup n (sp_l sp) with Some _ => true | None => false end.

Definition sl_step_spec (sp : sl_spec) (o : sl_op) : sl_spec * sl_res :=
  let node_of (e : option (nat * D)) := SlRNode (option_map fst e) in
  let val_of (e : option (nat * D)) := SlRVal (option_map snd e) in
  match o with
  | SlInsert d heads a1 a2 a3 a4 =>
    let lvl := sl_calc_level (sl_max_level (length (sp_l sp)) (sp_levels sp)) 1 heads in
    if a1 && a2 && a3 && (negb (sp_levels sp <? lvl) || a4)
    then (mkSlSpec (S (sp_next sp)) (sl_spec_ins (sp_next sp, d) (sp_l sp))
                   (if sp_levels sp <? lvl then lvl else sp_levels sp),
          SlRNode (Some (sp_next sp)))
    else (sp, SlRNode None)
  | SlFind v => (sp, node_of (sl_spec_find v (sp_l sp)))
  | SlFirst => (sp, node_of (hd_error (sp_l sp)))
  | SlLast => (sp, node_of (hd_error (rev (sp_l sp))))
  | SlNext n => if sl_spec_in n sp then (sp, node_of (sl_spec_after n (sp_l sp))) else (sp, SlRDead)
  | SlPrev n => if sl_spec_in n sp then (sp, node_of (sl_spec_before n (sp_l sp))) else (sp, SlRDead)
  | SlVal n => match sl_spec_lookup n (sp_l sp) with
               | Some e => (sp, SlRVal (Some (snd e)))
               | None => (sp, SlRDead)
               end
  | SlFirstVal => (sp, val_of (hd_error (sp_l sp)))
  | SlLastVal => (sp, val_of (hd_error (rev (sp_l sp))))
  | SlLen => (sp, SlRLen (length (sp_l sp)))
  | SlClaim n | SlDestroyNode n =>
    match sl_spec_lookup n (sp_l sp) with
    | Some e => (mkSlSpec (sp_next sp) (sl_spec_remove n (sp_l sp)) (sp_levels sp), SlRVal (Some (snd e)))
    | None => (sp, SlRDead)
    end
  | SlReinsert n d =>
    if sl_spec_in n sp
    then (mkSlSpec (sp_next sp) (sl_spec_ins (n, d) (sl_spec_remove n (sp_l sp))) (sp_levels sp), SlRDone)
    else (sp, SlRDead)
  | SlPopFirst =>
    match sp_l sp with
    | [] => (sp, SlRVal None)
    | e :: t => (mkSlSpec (sp_next sp) t (sp_levels sp), SlRVal (Some (snd e)))
    end
  | SlDump => (sp, SlRDump (sp_l sp) (rev (sp_l sp)) (length (sp_l sp)))
  end.

Fixpoint sl_run_model (s : slist) (ops : list sl_op) : outcome (list sl_res * slist) :=
  match ops with
  | [] => Ok ([], s)
  | o :: t =>
    do r <- sl_step_model s o;
    do rt <- sl_run_model (fst r) t;
    Ok (snd r :: fst rt, snd rt)
  end.

Fixpoint sl_run_spec (sp : sl_spec) (ops : list sl_op) : list sl_res * sl_spec :=
  match ops with
  | [] => ([], sp)
  | o :: t =>
    let r := sl_step_spec sp o in
    let rt := sl_run_spec (fst r) t in
    (snd r :: fst rt, snd rt)
  end.

(* a whole life: create, the operations, ares_slist_destroy; observable = the results of the
   operations and the values handed to the destructor by destroy, in order *)
Definition sl_life_model (ops : list sl_op) : outcome (list sl_res * list D) :=
  match sl_create true true with
  | None => Err ARES_ENOMEM
  | Some s0 =>
    do r <- sl_run_model s0 ops;
    do ds <- sl_destroy (snd r);
    Ok (fst r, ds)
  end.

Definition sl_life_spec (ops : list sl_op) : list sl_res * list D :=
  let r := sl_run_spec sl_spec_create ops in
  (fst r, map snd (sp_l (snd r))).

End SL.

Arguments sl_node : clear implicits.
Arguments slist : clear implicits.
Arguments sl_spec : clear implicits.
Arguments sl_op : clear implicits.
Arguments sl_res : clear implicits.

(* ---- the instance the drivers run: data = (key, payload), the callback compares keys ---- *)
Definition sl_zcmp (a b : Z * Z) : Z :=
  match Z.compare (fst a) (fst b) with Lt => (-1)%Z | Eq => 0%Z | Gt => 1%Z end.
Definition sl_z_create := @sl_create (Z * Z) true true.
Definition sl_z_step_model := @sl_step_model (Z * Z) sl_zcmp.
Definition sl_z_step_spec := @sl_step_spec (Z * Z) sl_zcmp.
Definition sl_z_spec_create := @sl_spec_create (Z * Z).
Definition sl_z_destroy := @sl_destroy (Z * Z).
Definition sl_z_levels (s : slist (Z * Z)) : nat := sl_levels s.
Definition sl_z_node_claim_raw := @sl_node_claim (Z * Z).
