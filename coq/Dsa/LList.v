(* Model of src/lib/dsa/ares_llist.c, in the shape of the C code.

   Heap: every node and every list object has an identity (a nat, in creation order =
   the index into [lh_nodes] / [lh_lists]).  A slot holds [Some record] while the object is
   allocated and [None] once it has been freed; dereferencing a freed (or never allocated)
   object is [UB UseAfterFree], dereferencing NULL is [UB NullDeref].  Pointers are
   [option nat] ([None] = NULL).  Node data (a [void *] in C) is a [Z], 0 = NULL.
   Several lists live in the same heap because nodes move between lists.

   [list->cnt] is a size_t.  [cnt--] on 0 would wrap to SIZE_MAX in C; the model flags it as
   [UB SizeUnderflow] (stricter than C) and the theorems show it never happens.  [cnt++]
   cannot overflow: 2^64 nodes of 32 bytes do not fit in the address space.

   Every allocation site takes the allocator's answer as a boolean argument. *)
From CAres.Base Require Export Outcome.
Local Open Scope nat_scope.

Record ll_node := mkLN {
  ln_data   : Z;
  ln_prev   : option nat;
  ln_next   : option nat;
  ln_parent : option nat }.

Record ll_list := mkLL {
  ll_head     : option nat;
  ll_tail     : option nat;
  ll_destruct : bool;          (* destructor != NULL *)
  ll_cnt      : nat }.

Record ll_heap := mkLH {
  lh_nodes : list (option ll_node);
  lh_lists : list (option ll_list) }.

Definition ll_heap_empty : ll_heap := mkLH [] [].

(* ---- heap access ---- *)
Fixpoint ll_upd {A} (l : list A) (i : nat) (x : A) : list A :=
  match l with
  | [] => []
  | y :: r => match i with 0 => x :: r | S j => y :: ll_upd r j x end
  end.

Definition ll_rd_node (h : ll_heap) (n : nat) : outcome ll_node :=
  match nth_error (lh_nodes h) n with
  | Some (Some nd) => Ok nd
  | _ => UB UseAfterFree
  end.

Definition ll_rd_list (h : ll_heap) (l : nat) : outcome ll_list :=
  match nth_error (lh_lists h) l with
  | Some (Some L) => Ok L
  | _ => UB UseAfterFree
  end.

(* p->field through a possibly NULL pointer *)
Definition ll_deref_node (h : ll_heap) (p : option nat) : outcome ll_node :=
  match p with None => UB NullDeref | Some n => ll_rd_node h n end.
Definition ll_deref_list (h : ll_heap) (p : option nat) : outcome ll_list :=
  match p with None => UB NullDeref | Some l => ll_rd_list h l end.

(* node->field = ...  (a store into a live object) *)
Definition ll_mod_node (h : ll_heap) (n : nat) (f : ll_node -> ll_node) : outcome ll_heap :=
  do nd <- ll_rd_node h n;
  Ok (mkLH (ll_upd (lh_nodes h) n (Some (f nd))) (lh_lists h)).

Definition ll_mod_list (h : ll_heap) (l : nat) (f : ll_list -> ll_list) : outcome ll_heap :=
  do L <- ll_rd_list h l;
  Ok (mkLH (lh_nodes h) (ll_upd (lh_lists h) l (Some (f L)))).

Definition ll_set_data (v : Z) (nd : ll_node) := mkLN v (ln_prev nd) (ln_next nd) (ln_parent nd).
Definition ll_set_prev (p : option nat) (nd : ll_node) := mkLN (ln_data nd) p (ln_next nd) (ln_parent nd).
Definition ll_set_next (p : option nat) (nd : ll_node) := mkLN (ln_data nd) (ln_prev nd) p (ln_parent nd).
Definition ll_set_parent (p : option nat) (nd : ll_node) := mkLN (ln_data nd) (ln_prev nd) (ln_next nd) p.
Definition ll_set_head (p : option nat) (L : ll_list) := mkLL p (ll_tail L) (ll_destruct L) (ll_cnt L).
Definition ll_set_tail (p : option nat) (L : ll_list) := mkLL (ll_head L) p (ll_destruct L) (ll_cnt L).
Definition ll_set_cnt (c : nat) (L : ll_list) := mkLL (ll_head L) (ll_tail L) (ll_destruct L) c.

Definition ll_ptr_eqb (a b : option nat) : bool :=
  match a, b with
  | None, None => true
  | Some x, Some y => Nat.eqb x y
  | _, _ => false
  end.
Definition ll_is_null (a : option nat) : bool := match a with None => true | Some _ => false end.

(* ares_free(node) / ares_free(list) *)
Definition ll_free_node (h : ll_heap) (n : nat) : outcome ll_heap :=
  match nth_error (lh_nodes h) n with
  | Some (Some _) => Ok (mkLH (ll_upd (lh_nodes h) n None) (lh_lists h))
  | _ => UB DoubleFree
  end.
Definition ll_free_list (h : ll_heap) (l : nat) : outcome ll_heap :=
  match nth_error (lh_lists h) l with
  | Some (Some _) => Ok (mkLH (lh_nodes h) (ll_upd (lh_lists h) l None))
  | _ => UB DoubleFree
  end.

(* ---- ares_llist_create ---- *)
Definition ll_create (alloc_ok destr : bool) (h : ll_heap) : ll_heap * option nat :=
  if alloc_ok
  then (mkLH (lh_nodes h) (lh_lists h ++ [Some (mkLL None None destr 0)]), Some (length (lh_lists h)))
  else (h, None).

Inductive ll_itype := LL_HEAD | LL_TAIL | LL_BEFORE.

(* ---- ares_llist_attach_at ---- *)
Definition ll_attach_at (h : ll_heap) (lst : option nat) (ty : ll_itype)
                        (at_ : option nat) (node : option nat) : outcome ll_heap :=
  match lst, node with
  | Some l, Some n =>
    (* node->parent = list; *)
    do h <- ll_mod_node h n (ll_set_parent (Some l));
    (* if (type == BEFORE && (at == list->head || at == NULL)) type = HEAD; *)
    do ty <- match ty with
             | LL_BEFORE =>
               do L <- ll_rd_list h l;
               Ok (if ll_ptr_eqb at_ (ll_head L) || ll_is_null at_ then LL_HEAD else LL_BEFORE)
             | t => Ok t
             end;
    do h <- match ty with
            | LL_HEAD =>
              do L <- ll_rd_list h l;
              do h <- ll_mod_node h n (ll_set_next (ll_head L));
              do h <- ll_mod_node h n (ll_set_prev None);
              do L <- ll_rd_list h l;
              do h <- match ll_head L with
                      | Some hd => ll_mod_node h hd (ll_set_prev (Some n))
                      | None => Ok h
                      end;
              ll_mod_list h l (ll_set_head (Some n))
            | LL_TAIL =>
              do h <- ll_mod_node h n (ll_set_next None);
              do L <- ll_rd_list h l;
              do h <- ll_mod_node h n (ll_set_prev (ll_tail L));
              do L <- ll_rd_list h l;
              do h <- match ll_tail L with
                      | Some tl => ll_mod_node h tl (ll_set_next (Some n))
                      | None => Ok h
                      end;
              ll_mod_list h l (ll_set_tail (Some n))
            | LL_BEFORE =>
              do h <- ll_mod_node h n (ll_set_next at_);
              do A <- ll_deref_node h at_;
              do h <- ll_mod_node h n (ll_set_prev (ln_prev A));
              do A <- ll_deref_node h at_;
              do h <- match ln_prev A with
                      | Some p => ll_mod_node h p (ll_set_next (Some n))
                      | None => Ok h
                      end;
              match at_ with
              | Some a => ll_mod_node h a (ll_set_prev (Some n))
              | None => UB NullDeref
              end
            end;
    do L <- ll_rd_list h l;
    do h <- (if ll_is_null (ll_tail L) then ll_mod_list h l (ll_set_tail (Some n)) else Ok h);
    do L <- ll_rd_list h l;
    do h <- (if ll_is_null (ll_head L) then ll_mod_list h l (ll_set_head (Some n)) else Ok h);
    (* list->cnt++ *)
    ll_mod_list h l (fun L => ll_set_cnt (S (ll_cnt L)) L)
  | _, _ => Ok h
  end.

(* ---- ares_llist_insert_at: returns the new node or NULL ---- *)
Definition ll_insert_at (alloc_ok : bool) (h : ll_heap) (lst : option nat) (ty : ll_itype)
                        (at_ : option nat) (val : Z) : outcome (ll_heap * option nat) :=
  if ll_is_null lst || Z.eqb val 0 then Ok (h, None)
  else if negb alloc_ok then Ok (h, None)
  else
    (* ares_malloc_zero *)
    let n := length (lh_nodes h) in
    let h := mkLH (lh_nodes h ++ [Some (mkLN 0 None None None)]) (lh_lists h) in
    do h <- ll_mod_node h n (ll_set_data val);
    do h <- ll_attach_at h lst ty at_ (Some n);
    Ok (h, Some n).

Definition ll_insert_first (alloc_ok : bool) (h : ll_heap) (lst : option nat) (val : Z) :=
  ll_insert_at alloc_ok h lst LL_HEAD None val.
Definition ll_insert_last (alloc_ok : bool) (h : ll_heap) (lst : option nat) (val : Z) :=
  ll_insert_at alloc_ok h lst LL_TAIL None val.

Definition ll_insert_before (alloc_ok : bool) (h : ll_heap) (node : option nat) (val : Z)
  : outcome (ll_heap * option nat) :=
  match node with
  | None => Ok (h, None)
  | Some n =>
    do nd <- ll_rd_node h n;
    ll_insert_at alloc_ok h (ln_parent nd) LL_BEFORE node val
  end.

Definition ll_insert_after (alloc_ok : bool) (h : ll_heap) (node : option nat) (val : Z)
  : outcome (ll_heap * option nat) :=
  match node with
  | None => Ok (h, None)
  | Some n =>
    do nd <- ll_rd_node h n;
    if ll_is_null (ln_next nd) then ll_insert_last alloc_ok h (ln_parent nd) val
    else ll_insert_at alloc_ok h (ln_parent nd) LL_BEFORE (ln_next nd) val
  end.

(* ---- readers ---- *)
Definition ll_node_first (h : ll_heap) (lst : option nat) : outcome (option nat) :=
  match lst with None => Ok None | Some l => do L <- ll_rd_list h l; Ok (ll_head L) end.
Definition ll_node_last (h : ll_heap) (lst : option nat) : outcome (option nat) :=
  match lst with None => Ok None | Some l => do L <- ll_rd_list h l; Ok (ll_tail L) end.

(* for (cnt = 0; node != NULL && cnt < idx; cnt++) node = node->next; *)
Fixpoint ll_walk (h : ll_heap) (node : option nat) (idx : nat) : outcome (option nat) :=
  match idx with
  | 0 => Ok node
  | S i => match node with
           | None => Ok None
           | Some n => do nd <- ll_rd_node h n; ll_walk h (ln_next nd) i
           end
  end.
Definition ll_node_idx (h : ll_heap) (lst : option nat) (idx : nat) : outcome (option nat) :=
  match lst with
  | None => Ok None
  | Some l =>
    do L <- ll_rd_list h l;
    if Nat.leb (ll_cnt L) idx then Ok None else ll_walk h (ll_head L) idx
  end.

Definition ll_node_next (h : ll_heap) (node : option nat) : outcome (option nat) :=
  match node with None => Ok None | Some n => do nd <- ll_rd_node h n; Ok (ln_next nd) end.
Definition ll_node_prev (h : ll_heap) (node : option nat) : outcome (option nat) :=
  match node with None => Ok None | Some n => do nd <- ll_rd_node h n; Ok (ln_prev nd) end.
Definition ll_node_val (h : ll_heap) (node : option nat) : outcome Z :=
  match node with None => Ok 0%Z | Some n => do nd <- ll_rd_node h n; Ok (ln_data nd) end.
Definition ll_len (h : ll_heap) (lst : option nat) : outcome nat :=
  match lst with None => Ok 0 | Some l => do L <- ll_rd_list h l; Ok (ll_cnt L) end.
Definition ll_node_parent (h : ll_heap) (node : option nat) : outcome (option nat) :=
  match node with None => Ok None | Some n => do nd <- ll_rd_node h n; Ok (ln_parent nd) end.
Definition ll_first_val (h : ll_heap) (lst : option nat) : outcome Z :=
  do n <- ll_node_first h lst; ll_node_val h n.
Definition ll_last_val (h : ll_heap) (lst : option nat) : outcome Z :=
  do n <- ll_node_last h lst; ll_node_val h n.

(* ---- ares_llist_node_detach ---- *)
Definition ll_node_detach (h : ll_heap) (node : option nat) : outcome ll_heap :=
  match node with
  | None => Ok h
  | Some n =>
    do nd <- ll_rd_node h n;
    let lst := ln_parent nd in
    (* if (node->prev) node->prev->next = node->next; *)
    do h <- match ln_prev nd with
            | Some p => ll_mod_node h p (ll_set_next (ln_next nd))
            | None => Ok h
            end;
    do nd <- ll_rd_node h n;
    (* if (node->next) node->next->prev = node->prev; *)
    do h <- match ln_next nd with
            | Some x => ll_mod_node h x (ll_set_prev (ln_prev nd))
            | None => Ok h
            end;
    (* if (node == list->head) list->head = node->next; *)
    do L <- ll_deref_list h lst;
    do nd <- ll_rd_node h n;
    do h <- (if ll_ptr_eqb node (ll_head L)
             then match lst with
                  | Some l => ll_mod_list h l (ll_set_head (ln_next nd))
                  | None => UB NullDeref
                  end
             else Ok h);
    (* if (node == list->tail) list->tail = node->prev; *)
    do L <- ll_deref_list h lst;
    do nd <- ll_rd_node h n;
    do h <- (if ll_ptr_eqb node (ll_tail L)
             then match lst with
                  | Some l => ll_mod_list h l (ll_set_tail (ln_prev nd))
                  | None => UB NullDeref
                  end
             else Ok h);
    (* node->parent = NULL; list->cnt--; *)
    do h <- ll_mod_node h n (ll_set_parent None);
    do L <- ll_deref_list h lst;
    match ll_cnt L, lst with
    | S c, Some l => ll_mod_list h l (ll_set_cnt c)
    | _, _ => UB SizeUnderflow
    end
  end.

(* ---- ares_llist_node_claim: returns node->data (0 for a NULL node) ---- *)
Definition ll_node_claim (h : ll_heap) (node : option nat) : outcome (ll_heap * Z) :=
  match node with
  | None => Ok (h, 0%Z)
  | Some n =>
    do nd <- ll_rd_node h n;
    let val := ln_data nd in
    do h <- ll_node_detach h node;
    do h <- ll_free_node h n;
    Ok (h, val)
  end.

(* ---- ares_llist_node_destroy: returns the values the destructor was called with ---- *)
Definition ll_node_destroy (h : ll_heap) (node : option nat) : outcome (ll_heap * list Z) :=
  match node with
  | None => Ok (h, [])
  | Some n =>
    do nd <- ll_rd_node h n;
    do L <- ll_deref_list h (ln_parent nd);
    let destruct := ll_destruct L in
    do (h, val) <- ll_node_claim h node;
    Ok (h, if negb (Z.eqb val 0) && destruct then [val] else [])
  end.

(* ---- ares_llist_node_replace (the destructor is called without a NULL check) ---- *)
Definition ll_node_replace (h : ll_heap) (node : option nat) (val : Z) : outcome (ll_heap * list Z) :=
  match node with
  | None => Ok (h, [])
  | Some n =>
    do nd <- ll_rd_node h n;
    do L <- ll_deref_list h (ln_parent nd);
    let calls := if ll_destruct L then [ln_data nd] else [] in
    do h <- ll_mod_node h n (ll_set_data val);
    Ok (h, calls)
  end.

(* ---- ares_llist_clear: while ((node = first(list)) != NULL) destroy(node); ---- *)
Fixpoint ll_clear_loop (fuel : nat) (h : ll_heap) (lst : option nat) : outcome (ll_heap * list Z) :=
  do node <- ll_node_first h lst;
  match node with
  | None => Ok (h, [])
  | Some _ =>
    match fuel with
    | 0 => Err OutOfFuel
    | S f =>
      do (h, c1) <- ll_node_destroy h node;
      do (h, c2) <- ll_clear_loop f h lst;
      Ok (h, c1 ++ c2)
    end
  end.

(* fuel: every iteration frees one node, so the number of nodes ever created suffices *)
Definition ll_clear (h : ll_heap) (lst : option nat) : outcome (ll_heap * list Z) :=
  match lst with
  | None => Ok (h, [])
  | Some _ => ll_clear_loop (length (lh_nodes h)) h lst
  end.

Definition ll_destroy (h : ll_heap) (lst : option nat) : outcome (ll_heap * list Z) :=
  match lst with
  | None => Ok (h, [])
  | Some l =>
    do (h, calls) <- ll_clear h lst;
    do h <- ll_free_list h l;
    Ok (h, calls)
  end.

(* ---- ares_llist_node_mvparent_last / _first ---- *)
Definition ll_node_mvparent_last (h : ll_heap) (node new_parent : option nat) : outcome ll_heap :=
  if ll_is_null node || ll_is_null new_parent then Ok h
  else do h <- ll_node_detach h node; ll_attach_at h new_parent LL_TAIL None node.
Definition ll_node_mvparent_first (h : ll_heap) (node new_parent : option nat) : outcome ll_heap :=
  if ll_is_null node || ll_is_null new_parent then Ok h
  else do h <- ll_node_detach h node; ll_attach_at h new_parent LL_HEAD None node.

(* ---- traversals used to observe a list (what a caller iterating the list sees) ---- *)
Fixpoint ll_fwd (h : ll_heap) (fuel : nat) (cur : option nat) : outcome (list (nat * Z * option nat)) :=
  match cur with
  | None => Ok []
  | Some n =>
    match fuel with
    | 0 => Err OutOfFuel
    | S f =>
      do nd <- ll_rd_node h n;
      do r <- ll_fwd h f (ln_next nd);
      Ok ((n, ln_data nd, ln_parent nd) :: r)
    end
  end.

Fixpoint ll_bwd (h : ll_heap) (fuel : nat) (cur : option nat) : outcome (list (nat * Z)) :=
  match cur with
  | None => Ok []
  | Some n =>
    match fuel with
    | 0 => Err OutOfFuel
    | S f =>
      do nd <- ll_rd_node h n;
      do r <- ll_bwd h f (ln_prev nd);
      Ok ((n, ln_data nd) :: r)
    end
  end.

(* what is observable of one list: forward traversal (node, value, node's parent), backward
   traversal (node, value), len *)
Record ll_view := mkLV {
  lv_fwd : list (nat * Z * option nat);
  lv_bwd : list (nat * Z);
  lv_len : nat }.

Definition ll_observe_list (h : ll_heap) (l : nat) : outcome ll_view :=
  let fuel := length (lh_nodes h) in
  do first <- ll_node_first h (Some l);
  do f <- ll_fwd h fuel first;
  do last <- ll_node_last h (Some l);
  do b <- ll_bwd h fuel last;
  do n <- ll_len h (Some l);
  Ok (mkLV f b n).

(* all live lists, by list index *)
Fixpoint ll_observe_from (h : ll_heap) (ls : list (option ll_list)) (l : nat)
  : outcome (list (nat * ll_view)) :=
  match ls with
  | [] => Ok []
  | None :: r => ll_observe_from h r (S l)
  | Some _ :: r =>
    do v <- ll_observe_list h l;
    do vs <- ll_observe_from h r (S l);
    Ok ((l, v) :: vs)
  end.
Definition ll_observe (h : ll_heap) : outcome (list (nat * ll_view)) :=
  ll_observe_from h (lh_lists h) 0.

(* ================================================================================== *)
(* The reference specification: a finite set of lists of (node id, value), plain lists. *)
(* ================================================================================== *)
Record ll_slist := mkSL {
  sl_destr : bool;
  sl_items : list (nat * Z) }.

Record ll_spec := mkSP {
  sp_lists : list (option ll_slist);      (* by list id; None = destroyed *)
  sp_next  : nat }.                        (* number of nodes created so far = next node id *)

Definition ll_spec_empty : ll_spec := mkSP [] 0.

Definition ll_ids (items : list (nat * Z)) : list nat := map fst items.
Definition ll_id_at (items : list (nat * Z)) (i : nat) : option nat := option_map fst (nth_error items i).
Definition ll_id_before (items : list (nat * Z)) (i : nat) : option nat :=
  match i with 0 => None | S j => ll_id_at items j end.

Definition ll_ins {A} (i : nat) (x : A) (l : list A) : list A := firstn i l ++ x :: skipn i l.
Definition ll_rem {A} (i : nat) (l : list A) : list A := firstn i l ++ skipn (S i) l.

Fixpoint ll_pos (n : nat) (items : list (nat * Z)) : option nat :=
  match items with
  | [] => None
  | (m, _) :: r => if Nat.eqb m n then Some 0 else option_map S (ll_pos n r)
  end.

(* which list holds node n, and where *)
Fixpoint ll_locate_from (ls : list (option ll_slist)) (l : nat) (n : nat) : option (nat * nat) :=
  match ls with
  | [] => None
  | None :: r => ll_locate_from r (S l) n
  | Some sl :: r =>
    match ll_pos n (sl_items sl) with
    | Some p => Some (l, p)
    | None => ll_locate_from r (S l) n
    end
  end.
Definition ll_locate (s : ll_spec) (n : nat) : option (nat * nat) := ll_locate_from (sp_lists s) 0 n.

Definition ll_sp_list (s : ll_spec) (l : nat) : option ll_slist :=
  match nth_error (sp_lists s) l with Some (Some sl) => Some sl | _ => None end.
Definition ll_sp_set (s : ll_spec) (l : nat) (items : list (nat * Z)) : ll_spec :=
  match ll_sp_list s l with
  | Some sl => mkSP (ll_upd (sp_lists s) l (Some (mkSL (sl_destr sl) items))) (sp_next s)
  | None => s
  end.

Definition ll_nonzero (vs : list Z) : list Z := filter (fun v => negb (Z.eqb v 0)) vs.

(* ---- operations, results ---- *)
Inductive ll_op :=
| LCreate (alloc_ok destr : bool)
| LInsFirst (alloc_ok : bool) (l : option nat) (v : Z)
| LInsLast (alloc_ok : bool) (l : option nat) (v : Z)
| LInsBefore (alloc_ok : bool) (n : option nat) (v : Z)
| LInsAfter (alloc_ok : bool) (n : option nat) (v : Z)
| LNodeFirst (l : option nat)
| LNodeLast (l : option nat)
| LNodeIdx (l : option nat) (idx : nat)
| LNodeNext (n : option nat)
| LNodePrev (n : option nat)
| LNodeVal (n : option nat)
| LNodeParent (n : option nat)
| LFirstVal (l : option nat)
| LLastVal (l : option nat)
| LLen (l : option nat)
| LClaim (n : option nat)
| LNodeDestroy (n : option nat)
| LReplace (n : option nat) (v : Z)
| LMvFirst (n : option nat) (l : option nat)
| LMvLast (n : option nat) (l : option nat)
| LClear (l : option nat)
| LDestroy (l : option nat).

Inductive ll_res :=
| RSkip                         (* an argument names a dead node / list: the op is not issued *)
| RVoid
| RList (l : option nat)
| RNode (n : option nat)
| RVal (v : Z)
| RLen (n : nat)
| RCalls (vs : list Z).         (* the values the destructor was called with, in order *)

(* arguments of an operation *)
Definition ll_op_nodes (o : ll_op) : list nat :=
  match o with
  | LInsBefore _ (Some n) _ | LInsAfter _ (Some n) _ | LNodeNext (Some n) | LNodePrev (Some n)
  | LNodeVal (Some n) | LNodeParent (Some n) | LClaim (Some n) | LNodeDestroy (Some n)
  | LReplace (Some n) _ | LMvFirst (Some n) _ | LMvLast (Some n) _ => [n]
  | _ => []
  end.
Definition ll_op_lists (o : ll_op) : list nat :=
  match o with
  | LInsFirst _ (Some l) _ | LInsLast _ (Some l) _ | LNodeFirst (Some l) | LNodeLast (Some l)
  | LNodeIdx (Some l) _ | LFirstVal (Some l) | LLastVal (Some l) | LLen (Some l)
  | LMvFirst _ (Some l) | LMvLast _ (Some l) | LClear (Some l) | LDestroy (Some l) => [l]
  | _ => []
  end.

(* ---- model side: one API call ---- *)
Definition ll_exec (h : ll_heap) (o : ll_op) : outcome (ll_heap * ll_res) :=
  match o with
  | LCreate ok d => let '(h, r) := ll_create ok d h in Ok (h, RList r)
  | LInsFirst ok l v => do (h, r) <- ll_insert_first ok h l v; Ok (h, RNode r)
  | LInsLast ok l v => do (h, r) <- ll_insert_last ok h l v; Ok (h, RNode r)
  | LInsBefore ok n v => do (h, r) <- ll_insert_before ok h n v; Ok (h, RNode r)
  | LInsAfter ok n v => do (h, r) <- ll_insert_after ok h n v; Ok (h, RNode r)
  | LNodeFirst l => do r <- ll_node_first h l; Ok (h, RNode r)
  | LNodeLast l => do r <- ll_node_last h l; Ok (h, RNode r)
  | LNodeIdx l i => do r <- ll_node_idx h l i; Ok (h, RNode r)
  | LNodeNext n => do r <- ll_node_next h n; Ok (h, RNode r)
  | LNodePrev n => do r <- ll_node_prev h n; Ok (h, RNode r)
  | LNodeVal n => do r <- ll_node_val h n; Ok (h, RVal r)
  | LNodeParent n => do r <- ll_node_parent h n; Ok (h, RList r)
  | LFirstVal l => do r <- ll_first_val h l; Ok (h, RVal r)
  | LLastVal l => do r <- ll_last_val h l; Ok (h, RVal r)
  | LLen l => do r <- ll_len h l; Ok (h, RLen r)
  | LClaim n => do (h, r) <- ll_node_claim h n; Ok (h, RVal r)
  | LNodeDestroy n => do (h, r) <- ll_node_destroy h n; Ok (h, RCalls r)
  | LReplace n v => do (h, r) <- ll_node_replace h n v; Ok (h, RCalls r)
  | LMvFirst n l => do h <- ll_node_mvparent_first h n l; Ok (h, RVoid)
  | LMvLast n l => do h <- ll_node_mvparent_last h n l; Ok (h, RVoid)
  | LClear l => do (h, r) <- ll_clear h l; Ok (h, RCalls r)
  | LDestroy l => do (h, r) <- ll_destroy h l; Ok (h, RCalls r)
  end.

Definition ll_node_live (h : ll_heap) (n : nat) : bool :=
  match nth_error (lh_nodes h) n with Some (Some _) => true | _ => false end.
Definition ll_list_live (h : ll_heap) (l : nat) : bool :=
  match nth_error (lh_lists h) l with Some (Some _) => true | _ => false end.

(* the caller never passes a dangling pointer: such an operation is skipped *)
Definition ll_model_step (h : ll_heap) (o : ll_op) : outcome (ll_heap * ll_res) :=
  if forallb (ll_node_live h) (ll_op_nodes o) && forallb (ll_list_live h) (ll_op_lists o)
  then ll_exec h o else Ok (h, RSkip).

(* ---- specification side ---- *)
Definition ll_sp_insert (ok : bool) (s : ll_spec) (l p : nat) (v : Z) : ll_spec * ll_res :=
  match ll_sp_list s l with
  | None => (s, RSkip)
  | Some sl =>
    if Z.eqb v 0 || negb ok then (s, RNode None)
    else let s1 := ll_sp_set s l (ll_ins p (sp_next s, v) (sl_items sl)) in
         (mkSP (sp_lists s1) (1 + sp_next s), RNode (Some (sp_next s)))
  end.

(* remove the node at (l, p); returns its entry *)
Definition ll_sp_take (s : ll_spec) (l p : nat) : option (ll_spec * (nat * Z) * bool) :=
  match ll_sp_list s l with
  | None => None
  | Some sl =>
    match nth_error (sl_items sl) p with
    | None => None
    | Some x => Some (ll_sp_set s l (ll_rem p (sl_items sl)), x, sl_destr sl)
    end
  end.

Definition ll_opt_val (x : option (nat * Z)) : Z := match x with Some (_, v) => v | None => 0%Z end.

Definition ll_spec_exec (s : ll_spec) (o : ll_op) : ll_spec * ll_res :=
  match o with
  | LCreate ok d =>
    if ok then (mkSP (sp_lists s ++ [Some (mkSL d [])]) (sp_next s), RList (Some (length (sp_lists s))))
    else (s, RList None)
  | LInsFirst ok None v | LInsLast ok None v => (s, RNode None)
  | LInsFirst ok (Some l) v => ll_sp_insert ok s l 0 v
  | LInsLast ok (Some l) v =>
    match ll_sp_list s l with
    | None => (s, RSkip)
    | Some sl => ll_sp_insert ok s l (length (sl_items sl)) v
    end
  | LInsBefore ok None v | LInsAfter ok None v => (s, RNode None)
  | LInsBefore ok (Some n) v =>
    match ll_locate s n with None => (s, RSkip) | Some (l, p) => ll_sp_insert ok s l p v end
  | LInsAfter ok (Some n) v =>
    match ll_locate s n with None => (s, RSkip) | Some (l, p) => ll_sp_insert ok s l (1 + p) v end
  | LNodeFirst None | LNodeLast None | LNodeIdx None _ | LNodeNext None | LNodePrev None => (s, RNode None)
  | LNodeFirst (Some l) =>
    match ll_sp_list s l with None => (s, RSkip) | Some sl => (s, RNode (ll_id_at (sl_items sl) 0)) end
  | LNodeLast (Some l) =>
    match ll_sp_list s l with
    | None => (s, RSkip)
    | Some sl => (s, RNode (ll_id_at (sl_items sl) (length (sl_items sl) - 1)))
    end
  | LNodeIdx (Some l) i =>
    match ll_sp_list s l with None => (s, RSkip) | Some sl => (s, RNode (ll_id_at (sl_items sl) i)) end
  | LNodeNext (Some n) =>
    match ll_locate s n with
    | None => (s, RSkip)
    | Some (l, p) => (s, RNode (match ll_sp_list s l with Some sl => ll_id_at (sl_items sl) (1 + p) | None => None end))
    end
  | LNodePrev (Some n) =>
    match ll_locate s n with
    | None => (s, RSkip)
    | Some (l, p) => (s, RNode (match ll_sp_list s l with Some sl => ll_id_before (sl_items sl) p | None => None end))
    end
  | LNodeVal None | LFirstVal None | LLastVal None | LClaim None => (s, RVal 0%Z)
  | LNodeVal (Some n) =>
    match ll_locate s n with
    | None => (s, RSkip)
    | Some (l, p) => (s, RVal (match ll_sp_list s l with Some sl => ll_opt_val (nth_error (sl_items sl) p) | None => 0%Z end))
    end
  | LNodeParent None => (s, RList None)
  | LNodeParent (Some n) =>
    match ll_locate s n with None => (s, RSkip) | Some (l, p) => (s, RList (Some l)) end
  | LFirstVal (Some l) =>
    match ll_sp_list s l with None => (s, RSkip) | Some sl => (s, RVal (ll_opt_val (nth_error (sl_items sl) 0))) end
  | LLastVal (Some l) =>
    match ll_sp_list s l with
    | None => (s, RSkip)
    | Some sl => (s, RVal (ll_opt_val (nth_error (sl_items sl) (length (sl_items sl) - 1))))
    end
  | LLen None => (s, RLen 0)
  | LLen (Some l) =>
    match ll_sp_list s l with None => (s, RSkip) | Some sl => (s, RLen (length (sl_items sl))) end
  | LClaim (Some n) =>
    match ll_locate s n with
    | None => (s, RSkip)
    | Some (l, p) =>
      match ll_sp_take s l p with
      | Some (s', (_, v), _) => (s', RVal v)
      | None => (s, RSkip)
      end
    end
  | LNodeDestroy None | LReplace None _ => (s, RCalls [])
  | LNodeDestroy (Some n) =>
    match ll_locate s n with
    | None => (s, RSkip)
    | Some (l, p) =>
      match ll_sp_take s l p with
      | Some (s', (_, v), d) => (s', RCalls (if d then ll_nonzero [v] else []))
      | None => (s, RSkip)
      end
    end
  | LReplace (Some n) v =>
    match ll_locate s n with
    | None => (s, RSkip)
    | Some (l, p) =>
      match ll_sp_list s l with
      | None => (s, RSkip)
      | Some sl =>
        (ll_sp_set s l (ll_upd (sl_items sl) p (n, v)),
         RCalls (if sl_destr sl then [ll_opt_val (nth_error (sl_items sl) p)] else []))
      end
    end
  | LMvFirst None _ | LMvLast None _ => (s, RVoid)
  | LMvFirst (Some n) dst | LMvLast (Some n) dst =>
    match ll_locate s n with
    | None => (s, RSkip)
    | Some (l, p) =>
      match dst with
      | None => (s, RVoid)
      | Some l2 =>
        match ll_sp_list s l2 with
        | None => (s, RSkip)
        | Some _ =>
          match ll_sp_take s l p with
          | None => (s, RSkip)
          | Some (s1, x, _) =>
            match ll_sp_list s1 l2 with
            | None => (s, RSkip)
            | Some sl2 =>
              (ll_sp_set s1 l2 (match o with LMvFirst _ _ => x :: sl_items sl2 | _ => sl_items sl2 ++ [x] end), RVoid)
            end
          end
        end
      end
    end
  | LClear None | LDestroy None => (s, RCalls [])
  | LClear (Some l) =>
    match ll_sp_list s l with
    | None => (s, RSkip)
    | Some sl => (ll_sp_set s l [], RCalls (if sl_destr sl then ll_nonzero (map snd (sl_items sl)) else []))
    end
  | LDestroy (Some l) =>
    match ll_sp_list s l with
    | None => (s, RSkip)
    | Some sl => (mkSP (ll_upd (sp_lists s) l None) (sp_next s),
                  RCalls (if sl_destr sl then ll_nonzero (map snd (sl_items sl)) else []))
    end
  end.

Definition ll_sp_node_live (s : ll_spec) (n : nat) : bool :=
  match ll_locate s n with Some _ => true | None => false end.
Definition ll_sp_list_live (s : ll_spec) (l : nat) : bool :=
  match ll_sp_list s l with Some _ => true | None => false end.

(* operations naming a node that is in no list (claimed / destroyed) or a destroyed list are
   skipped; the [RSkip] branches inside [ll_spec_exec] are therefore never taken *)
Definition ll_spec_step (s : ll_spec) (o : ll_op) : ll_spec * ll_res :=
  if forallb (ll_sp_node_live s) (ll_op_nodes o) && forallb (ll_sp_list_live s) (ll_op_lists o)
  then ll_spec_exec s o else (s, RSkip).

(* what the specification says is observable of each live list *)
Definition ll_spec_view (l : nat) (sl : ll_slist) : ll_view :=
  mkLV (map (fun x => (fst x, snd x, Some l)) (sl_items sl)) (rev (sl_items sl)) (length (sl_items sl)).
Fixpoint ll_spec_observe_from (ls : list (option ll_slist)) (l : nat) : list (nat * ll_view) :=
  match ls with
  | [] => []
  | None :: r => ll_spec_observe_from r (S l)
  | Some sl :: r => (l, ll_spec_view l sl) :: ll_spec_observe_from r (S l)
  end.
Definition ll_spec_observe (s : ll_spec) : list (nat * ll_view) := ll_spec_observe_from (sp_lists s) 0.

(* ---- runs: every operation is followed by an observation of all live lists ---- *)
Fixpoint ll_run_model (h : ll_heap) (ops : list ll_op) : outcome (list (ll_res * list (nat * ll_view))) :=
  match ops with
  | [] => Ok []
  | o :: r =>
    do (h, res) <- ll_model_step h o;
    do obs <- ll_observe h;
    do rest <- ll_run_model h r;
    Ok ((res, obs) :: rest)
  end.

Fixpoint ll_run_spec (s : ll_spec) (ops : list ll_op) : list (ll_res * list (nat * ll_view)) :=
  match ops with
  | [] => []
  | o :: r =>
    let '(s, res) := ll_spec_step s o in
    (res, ll_spec_observe s) :: ll_run_spec s r
  end.
