(* Proofs about the byte buffer model (Dsa/Buf.v): invariant, refinement to the byte queue. *)
From CAres.Dsa Require Import Buf.
From CAres.Gen Require Import Consts LeafFns.
Local Open Scope Z_scope.
Local Open Scope bool_scope.

(* ------------------------------------------------------------------------------------- *)
(* Z-indexed list lemmas                                                                   *)
(* ------------------------------------------------------------------------------------- *)
Lemma buf_zlen_nonneg {A} (l : list A) : 0 <= buf_zlen l.
Proof. unfold buf_zlen; lia. Qed.

Lemma buf_zlen_nil {A} : buf_zlen (@nil A) = 0.
Proof. reflexivity. Qed.

Lemma buf_zlen_cons {A} (x : A) l : buf_zlen (x :: l) = 1 + buf_zlen l.
Proof. unfold buf_zlen; simpl length; lia. Qed.

Lemma buf_zlen_app {A} (l1 l2 : list A) : buf_zlen (l1 ++ l2) = buf_zlen l1 + buf_zlen l2.
Proof. unfold buf_zlen; rewrite app_length; lia. Qed.

Lemma buf_zlen_0 {A} (l : list A) : buf_zlen l = 0 -> l = [].
Proof. unfold buf_zlen; destruct l; simpl; [reflexivity | lia]. Qed.

Lemma buf_take_zlen {A} n (l : list A) : 0 <= n <= buf_zlen l -> buf_zlen (buf_take n l) = n.
Proof. unfold buf_zlen, buf_take; intros H; rewrite firstn_length; lia. Qed.

Lemma buf_take_zlen_le {A} n (l : list A) : 0 <= n -> buf_zlen (buf_take n l) <= n.
Proof. unfold buf_zlen, buf_take; intros H; rewrite firstn_length; lia. Qed.

Lemma buf_drop_zlen {A} n (l : list A) : 0 <= n <= buf_zlen l -> buf_zlen (buf_drop n l) = buf_zlen l - n.
Proof. unfold buf_zlen, buf_drop; intros H; rewrite skipn_length; lia. Qed.

Lemma buf_take_drop {A} n (l : list A) : buf_take n l ++ buf_drop n l = l.
Proof. apply firstn_skipn. Qed.

Lemma buf_take_0 {A} n (l : list A) : n <= 0 -> buf_take n l = [].
Proof. unfold buf_take; intros H; replace (Z.to_nat n) with O by lia; reflexivity. Qed.

Lemma buf_drop_0 {A} n (l : list A) : n <= 0 -> buf_drop n l = l.
Proof. unfold buf_drop; intros H; replace (Z.to_nat n) with O by lia; reflexivity. Qed.

Lemma buf_take_all {A} n (l : list A) : buf_zlen l <= n -> buf_take n l = l.
Proof. unfold buf_zlen, buf_take; intros H; apply firstn_all2; lia. Qed.

Lemma buf_drop_all {A} n (l : list A) : buf_zlen l <= n -> buf_drop n l = [].
Proof. unfold buf_zlen, buf_drop; intros H; apply skipn_all2; lia. Qed.

Lemma buf_skipn_skipn {A} (a n : nat) (l : list A) : skipn n (skipn a l) = skipn (a + n) l.
Proof.
  revert l; induction a as [|a IH]; intros l; simpl; [reflexivity|].
  destruct l as [|x l]; [destruct n; reflexivity | apply IH].
Qed.

Lemma buf_drop_drop {A} a n (l : list A) : 0 <= a -> 0 <= n -> buf_drop n (buf_drop a l) = buf_drop (a + n) l.
Proof.
  unfold buf_drop; intros Ha Hn. rewrite buf_skipn_skipn. f_equal. lia.
Qed.

Lemma buf_take_take {A} n m (l : list A) : n <= m -> buf_take n (buf_take m l) = buf_take n l.
Proof.
  unfold buf_take; intros H. rewrite firstn_firstn. f_equal. lia.
Qed.

Lemma buf_firstn_skipn_comm {A} (a m : nat) (l : list A) :
  skipn a (firstn (a + m) l) = firstn m (skipn a l).
Proof.
  revert l; induction a as [|a IH]; intros l; simpl; [reflexivity|].
  destruct l as [|x l]; [destruct m; reflexivity | apply IH].
Qed.

Lemma buf_drop_take {A} a m (l : list A) : 0 <= a <= m -> buf_drop a (buf_take m l) = buf_take (m - a) (buf_drop a l).
Proof.
  unfold buf_drop, buf_take; intros H.
  replace (Z.to_nat m) with (Z.to_nat a + Z.to_nat (m - a))%nat by lia.
  apply buf_firstn_skipn_comm.
Qed.

Lemma buf_take_app_l {A} n (l1 l2 : list A) : n <= buf_zlen l1 -> buf_take n (l1 ++ l2) = buf_take n l1.
Proof.
  unfold buf_zlen, buf_take; intros H. rewrite firstn_app.
  replace (Z.to_nat n - length l1)%nat with O by lia. simpl. apply app_nil_r.
Qed.

Lemma buf_take_app_r {A} n (l1 l2 : list A) :
  buf_zlen l1 <= n -> buf_take n (l1 ++ l2) = l1 ++ buf_take (n - buf_zlen l1) l2.
Proof.
  unfold buf_zlen, buf_take; intros H. rewrite firstn_app.
  rewrite firstn_all2 by lia. f_equal. f_equal. lia.
Qed.

Lemma buf_take_app_exact {A} n (l1 l2 : list A) : n = buf_zlen l1 -> buf_take n (l1 ++ l2) = l1.
Proof.
  intros H. rewrite buf_take_app_l by lia. apply buf_take_all. lia.
Qed.

Lemma buf_drop_app_l {A} n (l1 l2 : list A) : n <= buf_zlen l1 -> buf_drop n (l1 ++ l2) = buf_drop n l1 ++ l2.
Proof.
  unfold buf_zlen, buf_drop; intros H. rewrite skipn_app.
  replace (Z.to_nat n - length l1)%nat with O by lia. reflexivity.
Qed.

Lemma buf_drop_app_r {A} n (l1 l2 : list A) :
  buf_zlen l1 <= n -> buf_drop n (l1 ++ l2) = buf_drop (n - buf_zlen l1) l2.
Proof.
  unfold buf_zlen, buf_drop; intros H. rewrite skipn_app.
  rewrite skipn_all2 by lia. simpl. f_equal. lia.
Qed.

Lemma buf_drop_app_exact {A} n (l1 l2 : list A) : n = buf_zlen l1 -> buf_drop n (l1 ++ l2) = l2.
Proof.
  intros H. rewrite buf_drop_app_r by lia. apply buf_drop_0. lia.
Qed.

Lemma buf_take_add {A} a n (l : list A) : 0 <= a -> 0 <= n ->
  buf_take (a + n) l = buf_take a l ++ buf_take n (buf_drop a l).
Proof.
  intros Ha Hn.
  rewrite <- (buf_take_drop a l) at 1.
  destruct (Z.le_gt_cases (buf_zlen l) a) as [Hl|Hl].
  - rewrite (buf_drop_all a l) by lia. rewrite app_nil_r.
    rewrite buf_take_all; [| rewrite buf_take_all by lia; lia].
    unfold buf_take at 3. rewrite firstn_nil. rewrite app_nil_r. reflexivity.
  - rewrite buf_take_app_r by (rewrite buf_take_zlen by lia; lia).
    rewrite buf_take_zlen by lia. f_equal. f_equal. lia.
Qed.

Ltac buf_consts :=
  unfold BUF_SIZE_MAX, BUF_ALLOC_LIMIT, buf_w64 in *;
  change (2 ^ 64) with 18446744073709551616 in *;
  change (2 ^ 62) with 4611686018427387904 in *.

Lemma buf_w64_small z : 0 <= z < 2 ^ 64 -> buf_w64 z = z.
Proof. intros H. unfold buf_w64. apply Z.mod_small. exact H. Qed.
