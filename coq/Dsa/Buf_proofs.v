(* Proofs about the byte buffer model (Dsa/Buf.v): invariant, refinement to the byte queue. *)
From CAres.Dsa Require Import Buf.
From CAres.Gen Require Import Consts LeafFns.
Local Open Scope Z_scope.
Local Open Scope bool_scope.

(* ------------------------------------------------------------------------------------- *)
(* Z-indexed list lemmas                                                                   *)
(* ------------------------------------------------------------------------------------- *)
Lemma buf_zlen_nonneg {A} (l : list A) : 0 <= buf_zlen l.
Proof. unfold buf_zlen; lia. Qed.

Lemma buf_zlen_nil {A} : buf_zlen (@nil A) = 0.
Proof. reflexivity. Qed.

Lemma buf_zlen_cons {A} (x : A) l : buf_zlen (x :: l) = 1 + buf_zlen l.
Proof. unfold buf_zlen; simpl length; lia. Qed.

Lemma buf_zlen_app {A} (l1 l2 : list A) : buf_zlen (l1 ++ l2) = buf_zlen l1 + buf_zlen l2.
Proof. unfold buf_zlen; rewrite app_length; lia. Qed.

Lemma buf_zlen_0 {A} (l : list A) : buf_zlen l = 0 -> l = [].
Proof. unfold buf_zlen; destruct l; simpl; [reflexivity | lia]. Qed.

Lemma buf_take_zlen {A} n (l : list A) : 0 <= n <= buf_zlen l -> buf_zlen (buf_take n l) = n.
Proof. unfold buf_zlen, buf_take; intros H; rewrite firstn_length; lia. Qed.

Lemma buf_take_zlen_le {A} n (l : list A) : 0 <= n -> buf_zlen (buf_take n l) <= n.
Proof. unfold buf_zlen, buf_take; intros H; rewrite firstn_length; lia. Qed.

Lemma buf_drop_zlen {A} n (l : list A) : 0 <= n <= buf_zlen l -> buf_zlen (buf_drop n l) = buf_zlen l - n.
Proof. unfold buf_zlen, buf_drop; intros H; rewrite skipn_length; lia. Qed.

Lemma buf_take_drop {A} n (l : list A) : buf_take n l ++ buf_drop n l = l.
Proof. apply firstn_skipn. Qed.

Lemma buf_take_0 {A} n (l : list A) : n <= 0 -> buf_take n l = [].
Proof. unfold buf_take; intros H; replace (Z.to_nat n) with O by lia; reflexivity. Qed.

Lemma buf_drop_0 {A} n (l : list A) : n <= 0 -> buf_drop n l = l.
Proof. unfold buf_drop; intros H; replace (Z.to_nat n) with O by lia; reflexivity. Qed.

Lemma buf_take_all {A} n (l : list A) : buf_zlen l <= n -> buf_take n l = l.
Proof. unfold buf_zlen, buf_take; intros H; apply firstn_all2; lia. Qed.

Lemma buf_drop_all {A} n (l : list A) : buf_zlen l <= n -> buf_drop n l = [].
Proof. unfold buf_zlen, buf_drop; intros H; apply skipn_all2; lia. Qed.

Lemma buf_skipn_skipn {A} (a n : nat) (l : list A) : skipn n (skipn a l) = skipn (a + n) l.
Proof.
  revert l; induction a as [|a IH]; intros l; simpl; [reflexivity|].
  destruct l as [|x l]; [destruct n; reflexivity | apply IH].
Qed.

Lemma buf_drop_drop {A} a n (l : list A) : 0 <= a -> 0 <= n -> buf_drop n (buf_drop a l) = buf_drop (a + n) l.
Proof.
  unfold buf_drop; intros Ha Hn. rewrite buf_skipn_skipn. f_equal. lia.
Qed.

Lemma buf_take_take {A} n m (l : list A) : n <= m -> buf_take n (buf_take m l) = buf_take n l.
Proof.
  unfold buf_take; intros H. rewrite firstn_firstn. f_equal. lia.
Qed.

Lemma buf_firstn_skipn_comm {A} (a m : nat) (l : list A) :
  skipn a (firstn (a + m) l) = firstn m (skipn a l).
Proof.
  revert l; induction a as [|a IH]; intros l; simpl; [reflexivity|].
  destruct l as [|x l]; [destruct m; reflexivity | apply IH].
Qed.

Lemma buf_drop_take {A} a m (l : list A) : 0 <= a <= m -> buf_drop a (buf_take m l) = buf_take (m - a) (buf_drop a l).
Proof.
  unfold buf_drop, buf_take; intros H.
  replace (Z.to_nat m) with (Z.to_nat a + Z.to_nat (m - a))%nat by lia.
  apply buf_firstn_skipn_comm.
Qed.

Lemma buf_take_app_l {A} n (l1 l2 : list A) : n <= buf_zlen l1 -> buf_take n (l1 ++ l2) = buf_take n l1.
Proof.
  unfold buf_zlen, buf_take; intros H. rewrite firstn_app.
  replace (Z.to_nat n - length l1)%nat with O by lia. simpl. apply app_nil_r.
Qed.

Lemma buf_take_app_r {A} n (l1 l2 : list A) :
  buf_zlen l1 <= n -> buf_take n (l1 ++ l2) = l1 ++ buf_take (n - buf_zlen l1) l2.
Proof.
  unfold buf_zlen, buf_take; intros H. rewrite firstn_app.
  rewrite firstn_all2 by lia. f_equal. f_equal. lia.
Qed.

Lemma buf_take_app_exact {A} n (l1 l2 : list A) : n = buf_zlen l1 -> buf_take n (l1 ++ l2) = l1.
Proof.
  intros H. rewrite buf_take_app_l by lia. apply buf_take_all. lia.
Qed.

Lemma buf_drop_app_l {A} n (l1 l2 : list A) : n <= buf_zlen l1 -> buf_drop n (l1 ++ l2) = buf_drop n l1 ++ l2.
Proof.
  unfold buf_zlen, buf_drop; intros H. rewrite skipn_app.
  replace (Z.to_nat n - length l1)%nat with O by lia. reflexivity.
Qed.

Lemma buf_drop_app_r {A} n (l1 l2 : list A) :
  buf_zlen l1 <= n -> buf_drop n (l1 ++ l2) = buf_drop (n - buf_zlen l1) l2.
Proof.
  unfold buf_zlen, buf_drop; intros H. rewrite skipn_app.
  rewrite skipn_all2 by lia. simpl. f_equal. lia.
Qed.

Lemma buf_drop_app_exact {A} n (l1 l2 : list A) : n = buf_zlen l1 -> buf_drop n (l1 ++ l2) = l2.
Proof.
  intros H. rewrite buf_drop_app_r by lia. apply buf_drop_0. lia.
Qed.

Lemma buf_take_add {A} a n (l : list A) : 0 <= a -> 0 <= n ->
  buf_take (a + n) l = buf_take a l ++ buf_take n (buf_drop a l).
Proof.
  intros Ha Hn.
  rewrite <- (buf_take_drop a l) at 1.
  destruct (Z.le_gt_cases (buf_zlen l) a) as [Hl|Hl].
  - rewrite (buf_drop_all a l) by lia. rewrite app_nil_r.
    rewrite buf_take_all; [| rewrite buf_take_all by lia; lia].
    unfold buf_take at 3. rewrite firstn_nil. rewrite app_nil_r. reflexivity.
  - rewrite buf_take_app_r by (rewrite buf_take_zlen by lia; lia).
    rewrite buf_take_zlen by lia. f_equal. f_equal. lia.
Qed.

Ltac buf_consts :=
  unfold BUF_SIZE_MAX, BUF_ALLOC_LIMIT, buf_w64 in *;
  change (2 ^ 64) with 18446744073709551616 in *;
  change (2 ^ 62) with 4611686018427387904 in *.

Lemma buf_w64_small z : 0 <= z < 2 ^ 64 -> buf_w64 z = z.
Proof. intros H. unfold buf_w64. apply Z.mod_small. exact H. Qed.

(* ------------------------------------------------------------------------------------- *)
(* The invariant                                                                           *)
(* ------------------------------------------------------------------------------------- *)
Definition buf_shape_fresh (b : cbuf) : Prop :=
  b_hasdata b = false /\ b_hasabuf b = false /\ b_mem b = [] /\ b_dlen b = 0 /\ b_alloc b = 0.
Definition buf_shape_const (b : cbuf) : Prop :=
  b_hasdata b = true /\ b_hasabuf b = false /\ buf_zlen (b_mem b) = b_dlen b /\ b_alloc b = 0 /\
  0 < b_dlen b < BUF_ALLOC_LIMIT.
Definition buf_shape_dyn (b : cbuf) : Prop :=
  b_hasdata b = true /\ b_hasabuf b = true /\ buf_zlen (b_mem b) = b_alloc b /\
  b_dlen b < b_alloc b /\ b_alloc b < BUF_ALLOC_LIMIT.

(* offset <= data_len, data_len < alloc_buf_len (dynamic buffer: one spare byte for the
   terminator of finish_str), tag = none or tag <= offset *)
Definition buf_inv (b : cbuf) : Prop :=
  0 <= b_off b <= b_dlen b /\
  (b_tag b = BUF_SIZE_MAX \/ 0 <= b_tag b <= b_off b) /\
  (buf_shape_fresh b \/ buf_shape_const b \/ buf_shape_dyn b).

Lemma buf_inv_mem_len b : buf_inv b -> b_dlen b <= buf_zlen (b_mem b) /\ b_dlen b < BUF_ALLOC_LIMIT.
Proof.
  intros (Ho & _ & [Hs | [Hs | Hs]]).
  - destruct Hs as (_ & _ & Hm & Hd & _). rewrite Hm, Hd. buf_consts. cbn. lia.
  - destruct Hs as (_ & _ & Hm & _ & Hd). lia.
  - destruct Hs as (_ & _ & Hm & Hd & Ha). lia.
Qed.

Lemma buf_inv_tag_ne b : buf_inv b -> b_tag b <> BUF_SIZE_MAX -> 0 <= b_tag b <= b_off b.
Proof. intros (_ & [Ht | Ht] & _) Hne; [contradiction | exact Ht]. Qed.

Lemma buf_is_const_eq b : buf_is_const b = Ok (b2z (b_hasdata b && negb (b_hasabuf b))).
Proof. unfold buf_is_const, c_ares_buf_is_const. destruct (b_hasdata b), (b_hasabuf b); reflexivity. Qed.

Lemma buf_with_off_same b : buf_with_off b (b_off b) = b.
Proof. destruct b; reflexivity. Qed.
Lemma buf_with_tag_same b : buf_with_tag b (b_tag b) = b.
Proof. destruct b; reflexivity. Qed.
Lemma buf_with_dlen_same b : buf_with_dlen b (b_dlen b) = b.
Proof. destruct b; reflexivity. Qed.

(* ---- abstraction ---- *)
Lemma buf_data_zlen b : buf_inv b -> buf_zlen (buf_data b) = b_dlen b.
Proof.
  intros Hi. pose proof (buf_inv_mem_len b Hi) as [Hm _]. destruct Hi as (Ho & _).
  unfold buf_data. apply buf_take_zlen. lia.
Qed.

Lemma buf_remaining_zlen b : buf_inv b -> buf_zlen (buf_remaining b) = b_dlen b - b_off b.
Proof.
  intros Hi. pose proof (buf_data_zlen b Hi) as Hd. destruct Hi as (Ho & _).
  unfold buf_remaining. rewrite buf_drop_zlen by lia. lia.
Qed.

Lemma buf_consumed_zlen b : buf_inv b -> buf_zlen (buf_consumed b) = b_off b.
Proof.
  intros Hi. pose proof (buf_data_zlen b Hi) as Hd. destruct Hi as (Ho & _).
  unfold buf_consumed. apply buf_take_zlen. lia.
Qed.

Lemma buf_consumed_remaining b : buf_consumed b ++ buf_remaining b = buf_data b.
Proof. apply buf_take_drop. Qed.

(* the remaining bytes as a slice of the block *)
Lemma buf_remaining_mem b : buf_inv b ->
  buf_remaining b = buf_take (b_dlen b - b_off b) (buf_drop (b_off b) (b_mem b)).
Proof.
  intros (Ho & _). unfold buf_remaining, buf_data. apply buf_drop_take. lia.
Qed.

Lemma buf_abs_pre b : s_pre (buf_abs b) = buf_consumed b. Proof. reflexivity. Qed.
Lemma buf_abs_post b : s_post (buf_abs b) = buf_remaining b. Proof. reflexivity. Qed.

(* states that differ only in the cursor *)
Lemma buf_data_with_off b o : buf_data (buf_with_off b o) = buf_data b.
Proof. reflexivity. Qed.
Lemma buf_data_with_tag b t : buf_data (buf_with_tag b t) = buf_data b.
Proof. reflexivity. Qed.

Lemma buf_inv_with_off b o : buf_inv b -> 0 <= o <= b_dlen b ->
  (b_tag b = BUF_SIZE_MAX \/ b_tag b <= o) -> buf_inv (buf_with_off b o).
Proof.
  intros (Ho & Ht & Hs) Hr Htag. split; [exact Hr|]. split.
  - cbn. destruct Ht as [Ht | Ht]; [left; exact Ht|]. destruct Htag as [Htag | Htag]; [left; exact Htag|]. right. lia.
  - exact Hs.
Qed.

Lemma buf_advance_abs b n : buf_inv b -> 0 <= n <= b_dlen b - b_off b ->
  buf_abs (buf_with_off b (b_off b + n)) = spec_advance (buf_abs b) n.
Proof.
  intros Hi Hn. pose proof (buf_data_zlen b Hi) as Hd. destruct Hi as (Ho & _).
  unfold buf_abs, spec_advance. cbn [s_pre s_post s_tag s_const b_tag b_hasdata b_hasabuf buf_with_off].
  f_equal.
  - unfold buf_consumed, buf_remaining. rewrite buf_data_with_off. cbn [b_off buf_with_off].
    apply buf_take_add; lia.
  - unfold buf_remaining. rewrite buf_data_with_off. cbn [b_off buf_with_off].
    symmetry. apply buf_drop_drop; lia.
Qed.

(* ------------------------------------------------------------------------------------- *)
(* Cursor operations (through the generated functions)                                     *)
(* ------------------------------------------------------------------------------------- *)
Lemma buf_len_ok b : buf_inv b -> buf_len b = Ok (b_dlen b - b_off b).
Proof.
  intros Hi. pose proof (buf_inv_mem_len b Hi) as [_ Hl]. destruct Hi as (Ho & _).
  unfold buf_len, c_ares_buf_len. f_equal. buf_consts. apply Z.mod_small. lia.
Qed.

Theorem buf_len_refines b : buf_inv b -> buf_len b = Ok (spec_len (buf_abs b)).
Proof.
  intros Hi. rewrite buf_len_ok by exact Hi. unfold spec_len. rewrite buf_abs_post.
  rewrite buf_remaining_zlen by exact Hi. reflexivity.
Qed.

Lemma buf_consume_ok b n : buf_inv b -> 0 <= n ->
  buf_consume b n = Ok (if b_dlen b - b_off b <? n then (ARES_EBADRESP, b)
                        else (ARES_SUCCESS, buf_with_off b (b_off b + n))).
Proof.
  intros Hi Hn. unfold buf_consume. rewrite buf_len_ok by exact Hi.
  pose proof (buf_inv_mem_len b Hi) as [_ Hl]. destruct Hi as (Ho & _).
  cbn [bind]. unfold c_ares_buf_consume.
  destruct (Z.ltb_spec (b_dlen b - b_off b) n) as [Hlt | Hge]; cbn [bind fst snd].
  - rewrite buf_with_off_same. reflexivity.
  - f_equal. f_equal. f_equal. buf_consts. apply Z.mod_small. lia.
Qed.

Theorem buf_consume_refines b n : buf_inv b -> 0 <= n ->
  exists st b', buf_consume b n = Ok (st, b') /\ buf_inv b' /\
                (st, buf_abs b') = spec_consume (buf_abs b) n.
Proof.
  intros Hi Hn. rewrite buf_consume_ok by assumption.
  unfold spec_consume, spec_len. rewrite buf_abs_post, buf_remaining_zlen by exact Hi.
  destruct (Z.ltb_spec (b_dlen b - b_off b) n) as [Hlt | Hge].
  - exists ARES_EBADRESP, b. auto.
  - exists ARES_SUCCESS, (buf_with_off b (b_off b + n)). split; [reflexivity|]. split.
    + destruct Hi as (Ho & Ht & Hs). apply buf_inv_with_off; [split; [exact Ho | split; [exact Ht | exact Hs]] | lia |].
      destruct Ht as [Ht | Ht]; [left; exact Ht | right; lia].
    + f_equal. apply buf_advance_abs; [exact Hi | destruct Hi as (Ho & _); lia].
Qed.

Lemma buf_off_not_max b : buf_inv b -> (b_off b =? BUF_SIZE_MAX) = false.
Proof.
  intros Hi. pose proof (buf_inv_mem_len b Hi) as [_ Hl]. destruct Hi as (Ho & _).
  apply Z.eqb_neq. buf_consts. lia.
Qed.

Theorem buf_tag_refines b : buf_inv b ->
  exists b', buf_tag b = Ok b' /\ buf_inv b' /\ buf_abs b' = spec_tag (buf_abs b).
Proof.
  intros Hi. exists (buf_with_tag b (b_off b)). split; [reflexivity|]. split.
  - destruct Hi as (Ho & Ht & Hs). split; [exact Ho|]. split; [right; cbn; lia | exact Hs].
  - unfold buf_abs, spec_tag, spec_position. cbn [s_pre s_post s_tag s_const b_tag b_hasdata b_hasabuf buf_with_tag].
    rewrite buf_off_not_max by exact Hi.
    f_equal. f_equal. symmetry. apply buf_consumed_zlen. exact Hi.
Qed.

Lemma buf_tag_rollback_ok b :
  buf_tag_rollback b = Ok (if b_tag b =? BUF_SIZE_MAX then (ARES_EFORMERR, b)
                           else (ARES_SUCCESS, buf_with_tag (buf_with_off b (b_tag b)) BUF_SIZE_MAX)).
Proof.
  unfold buf_tag_rollback, c_ares_buf_tag_rollback. fold BUF_SIZE_MAX.
  destruct (b_tag b =? BUF_SIZE_MAX); cbn [bind fst snd]; [|reflexivity].
  destruct b; reflexivity.
Qed.

(* tag, any fetches/consumes, rollback: position and remaining bytes are restored exactly *)
Theorem buf_tag_rollback_refines b : buf_inv b ->
  exists st b', buf_tag_rollback b = Ok (st, b') /\ buf_inv b' /\
                (st, buf_abs b') = spec_tag_rollback (buf_abs b).
Proof.
  intros Hi. rewrite buf_tag_rollback_ok. unfold spec_tag_rollback.
  cbn [buf_abs s_tag].
  destruct (Z.eqb_spec (b_tag b) BUF_SIZE_MAX) as [He | Hne].
  - exists ARES_EFORMERR, b. auto.
  - pose proof (buf_inv_tag_ne b Hi Hne) as Ht.
    pose proof (buf_consumed_zlen b Hi) as Hc.
    exists ARES_SUCCESS, (buf_with_tag (buf_with_off b (b_tag b)) BUF_SIZE_MAX).
    split; [reflexivity|]. split.
    + destruct Hi as (Ho & _ & Hs). split; [cbn; lia|]. split; [left; reflexivity | exact Hs].
    + f_equal. unfold buf_abs. cbn [s_pre s_post s_tag s_const b_tag b_hasdata b_hasabuf buf_with_tag buf_with_off].
      rewrite Z.eqb_refl. f_equal.
      * unfold buf_consumed. cbn [b_off buf_with_tag buf_with_off]. fold (buf_data b).
        change (buf_data (buf_with_tag (buf_with_off b (b_tag b)) BUF_SIZE_MAX)) with (buf_data b).
        symmetry. apply buf_take_take. lia.
      * unfold buf_remaining. cbn [b_off buf_with_tag buf_with_off].
        change (buf_data (buf_with_tag (buf_with_off b (b_tag b)) BUF_SIZE_MAX)) with (buf_data b).
        rewrite <- (buf_consumed_remaining b) at 1.
        rewrite buf_drop_app_l by lia. reflexivity.
Qed.

Theorem buf_tag_clear_refines b : buf_inv b ->
  exists st b', buf_tag_clear b = Ok (st, b') /\ buf_inv b' /\
                (st, buf_abs b') = spec_tag_clear (buf_abs b).
Proof.
  intros Hi. unfold buf_tag_clear, c_ares_buf_tag_clear, spec_tag_clear. fold BUF_SIZE_MAX.
  cbn [buf_abs s_tag].
  destruct (Z.eqb_spec (b_tag b) BUF_SIZE_MAX) as [He | Hne]; cbn [bind fst snd].
  - exists ARES_EFORMERR, b. rewrite buf_with_tag_same. auto.
  - exists ARES_SUCCESS, (buf_with_tag b BUF_SIZE_MAX). split; [reflexivity|]. split.
    + destruct Hi as (Ho & _ & Hs). split; [exact Ho|]. split; [left; reflexivity | exact Hs].
    + reflexivity.
Qed.

Theorem buf_tag_length_refines b : buf_inv b -> buf_tag_length b = Ok (spec_tag_length (buf_abs b)).
Proof.
  intros Hi. unfold buf_tag_length, c_ares_buf_tag_length, spec_tag_length. fold BUF_SIZE_MAX.
  cbn [buf_abs s_tag s_pre].
  destruct (Z.eqb_spec (b_tag b) BUF_SIZE_MAX) as [He | Hne]; [reflexivity|].
  pose proof (buf_inv_tag_ne b Hi Hne) as Ht. pose proof (buf_inv_mem_len b Hi) as [_ Hl].
  rewrite buf_consumed_zlen by exact Hi. destruct Hi as (Ho & _).
  f_equal. buf_consts. apply Z.mod_small. lia.
Qed.

Theorem buf_get_position_refines b : buf_inv b -> buf_get_position b = Ok (spec_position (buf_abs b)).
Proof.
  intros Hi. unfold buf_get_position, c_ares_buf_get_position, spec_position.
  rewrite buf_abs_pre, buf_consumed_zlen by exact Hi. reflexivity.
Qed.

Lemma buf_set_position_ok b idx :
  buf_set_position b idx = Ok (if idx >? b_dlen b then (ARES_EFORMERR, b)
                               else (ARES_SUCCESS, buf_with_off b idx)).
Proof.
  unfold buf_set_position, c_ares_buf_set_position.
  destruct (idx >? b_dlen b); cbn [bind fst snd]; [rewrite buf_with_off_same|]; reflexivity.
Qed.

(* set_position: absolute repositioning; the invariant survives exactly when the caller does
   not move below an active tag (spec_set_position_contract) *)
Theorem buf_set_position_refines b idx : buf_inv b -> 0 <= idx ->
  spec_set_position_contract (buf_abs b) idx = true ->
  exists st b', buf_set_position b idx = Ok (st, b') /\ buf_inv b' /\
                (st, buf_abs b') = spec_set_position (buf_abs b) idx.
Proof.
  intros Hi Hidx Hc. rewrite buf_set_position_ok. unfold spec_set_position.
  rewrite buf_abs_pre, buf_abs_post, buf_consumed_remaining, buf_data_zlen by exact Hi.
  destruct (Z.gtb_spec idx (b_dlen b)) as [Hgt | Hle].
  - exists ARES_EFORMERR, b. auto.
  - exists ARES_SUCCESS, (buf_with_off b idx). split; [reflexivity|]. split.
    + apply buf_inv_with_off; [exact Hi | lia |].
      unfold spec_set_position_contract in Hc. cbn [buf_abs s_tag s_pre s_post] in Hc.
      destruct (Z.eqb_spec (b_tag b) BUF_SIZE_MAX) as [He | Hne]; [left; exact He|]. right.
      rewrite buf_consumed_remaining, buf_data_zlen in Hc by exact Hi.
      apply orb_true_iff in Hc. destruct Hc as [Hc | Hc]; lia.
    + reflexivity.
Qed.

(* ------------------------------------------------------------------------------------- *)
(* Reading                                                                                 *)
(* ------------------------------------------------------------------------------------- *)
Lemma buf_fetch_ok b : buf_inv b ->
  buf_fetch b = (b_dlen b - b_off b =? 0, b_dlen b - b_off b).
Proof.
  intros Hi. pose proof (buf_inv_mem_len b Hi) as [_ Hl]. destruct Hi as (Ho & _ & Hs).
  unfold buf_fetch. destruct Hs as [Hs | [Hs | Hs]].
  - destruct Hs as (Hd & _ & _ & Hdl & _). rewrite Hd. cbn. replace (b_dlen b - b_off b) with 0 by lia. reflexivity.
  - destruct Hs as (Hd & _). rewrite Hd. cbn [negb].
    rewrite buf_w64_small by (buf_consts; lia).
    destruct (Z.eqb_spec (b_dlen b - b_off b) 0) as [He | Hne]; [rewrite He|]; reflexivity.
  - destruct Hs as (Hd & _). rewrite Hd. cbn [negb].
    rewrite buf_w64_small by (buf_consts; lia).
    destruct (Z.eqb_spec (b_dlen b - b_off b) 0) as [He | Hne]; [rewrite He|]; reflexivity.
Qed.

Lemma buf_read_data b at_ n : buf_inv b -> 0 <= at_ -> 0 <= n -> at_ + n <= b_dlen b ->
  buf_read b at_ n = Ok (buf_take n (buf_drop at_ (buf_data b))).
Proof.
  intros Hi Ha Hn Hle. pose proof (buf_inv_mem_len b Hi) as [Hm _].
  unfold buf_read.
  replace ((0 <=? at_) && (0 <=? n) && (at_ + n <=? buf_zlen (b_mem b))) with true
    by (symmetry; rewrite !andb_true_iff; repeat split; apply Z.leb_le; lia).
  f_equal. unfold buf_data. rewrite buf_drop_take by lia. rewrite buf_take_take by lia. reflexivity.
Qed.

Lemma buf_read_remaining b n : buf_inv b -> 0 <= n <= b_dlen b - b_off b ->
  buf_read b (b_off b) n = Ok (buf_take n (buf_remaining b)).
Proof.
  intros Hi Hn. destruct Hi as (Ho & Hrest).
  apply buf_read_data; [split; [exact Ho | exact Hrest] | lia | lia | lia].
Qed.

Theorem buf_peek_refines b : buf_inv b -> buf_peek b = Ok (s_post (buf_abs b)).
Proof.
  intros Hi. unfold buf_peek. rewrite buf_fetch_ok by exact Hi. cbn [fst snd]. rewrite buf_abs_post.
  pose proof (buf_remaining_zlen b Hi) as Hr.
  destruct (Z.eqb_spec (b_dlen b - b_off b) 0) as [He | Hne].
  - f_equal. symmetry. apply buf_zlen_0. lia.
  - rewrite buf_read_remaining; [| exact Hi | destruct Hi as (Ho & _); lia].
    f_equal. apply buf_take_all. lia.
Qed.

Lemma buf_take_1 {A} (l : list A) : buf_take 1 l = match l with [] => [] | x :: _ => [x] end.
Proof. destruct l; reflexivity. Qed.

Theorem buf_peek_byte_refines b : buf_inv b -> buf_peek_byte b = Ok (spec_peek_byte (buf_abs b)).
Proof.
  intros Hi. unfold buf_peek_byte, spec_peek_byte. rewrite buf_fetch_ok by exact Hi. cbn [fst snd].
  rewrite buf_abs_post. pose proof (buf_remaining_zlen b Hi) as Hr.
  destruct (Z.eqb_spec (b_dlen b - b_off b) 0) as [He | Hne].
  - replace (buf_remaining b) with (@nil Z) by (symmetry; apply buf_zlen_0; lia). reflexivity.
  - rewrite buf_read_remaining; [| exact Hi | destruct Hi as (Ho & _); lia]. cbn [bind].
    rewrite buf_take_1. destruct (buf_remaining b) as [|x r] eqn:Er; [|reflexivity].
    rewrite buf_zlen_nil in Hr. destruct Hi as (Ho & _). lia.
Qed.

Theorem buf_fetch_bytes_refines b n : buf_inv b -> 0 <= n ->
  exists st b' out, buf_fetch_bytes b n = Ok (st, b', out) /\ buf_inv b' /\
                    (st, buf_abs b', out) = spec_fetch_bytes (buf_abs b) n.
Proof.
  intros Hi Hn. unfold buf_fetch_bytes, spec_fetch_bytes, spec_len.
  rewrite buf_fetch_ok by exact Hi. cbn [fst snd].
  rewrite buf_abs_post, buf_remaining_zlen by exact Hi.
  destruct ((n =? 0) || (b_dlen b - b_off b <? n)) eqn:Eg.
  - exists ARES_EBADRESP, b, []. auto.
  - apply orb_false_iff in Eg. destruct Eg as [E0 Elt].
    apply Z.eqb_neq in E0. apply Z.ltb_ge in Elt.
    rewrite buf_read_remaining by (try exact Hi; lia). cbn [bind].
    rewrite buf_consume_ok by (try exact Hi; lia).
    replace (b_dlen b - b_off b <? n) with false by (symmetry; apply Z.ltb_ge; lia).
    cbn [bind fst snd].
    exists ARES_SUCCESS, (buf_with_off b (b_off b + n)), (buf_take n (buf_remaining b)).
    split; [reflexivity|]. split.
    + destruct Hi as (Ho & Ht & Hs). apply buf_inv_with_off; [split; [exact Ho | split; [exact Ht | exact Hs]] | lia |].
      destruct Ht as [Ht | Ht]; [left; exact Ht | right; lia].
    + f_equal. f_equal. apply buf_advance_abs; [exact Hi | lia].
Qed.

(* ------------------------------------------------------------------------------------- *)
(* Big-endian integers                                                                     *)
(* ------------------------------------------------------------------------------------- *)
Definition buf_bytes_ok (l : list Z) : Prop := Forall (fun x => 0 <= x < 256) l.

Lemma buf_bytes_ok_take n l : buf_bytes_ok l -> buf_bytes_ok (buf_take n l).
Proof.
  unfold buf_bytes_ok, buf_take. intros H. rewrite <- (firstn_skipn (Z.to_nat n) l) in H.
  apply Forall_app in H. apply H.
Qed.
Lemma buf_bytes_ok_drop n l : buf_bytes_ok l -> buf_bytes_ok (buf_drop n l).
Proof.
  unfold buf_bytes_ok, buf_drop. intros H. rewrite <- (firstn_skipn (Z.to_nat n) l) in H.
  apply Forall_app in H. apply H.
Qed.
Lemma buf_bytes_ok_app l1 l2 : buf_bytes_ok l1 -> buf_bytes_ok l2 -> buf_bytes_ok (l1 ++ l2).
Proof. unfold buf_bytes_ok. intros H1 H2. apply Forall_app. split; assumption. Qed.
Lemma buf_bytes_ok_app_inv l1 l2 : buf_bytes_ok (l1 ++ l2) -> buf_bytes_ok l1 /\ buf_bytes_ok l2.
Proof. unfold buf_bytes_ok. intros H. apply Forall_app in H. exact H. Qed.

Lemma buf_lor_shiftl a b n : 0 <= n -> 0 <= b < 2 ^ n -> Z.lor (Z.shiftl a n) b = a * 2 ^ n + b.
Proof.
  intros Hn Hb.
  assert (Z.land (Z.shiftl a n) b = 0) as Hl.
  { apply Z.bits_inj'. intros m Hm. rewrite Z.land_spec, Z.bits_0.
    destruct (Z.lt_ge_cases m n) as [Hlt | Hge].
    - rewrite Z.shiftl_spec_low by lia. reflexivity.
    - destruct (Z.eq_dec b 0) as [-> | Hne]; [rewrite Z.bits_0; apply andb_false_r|].
      rewrite (Z.bits_above_log2 b m); [apply andb_false_r | lia |].
      apply Z.log2_lt_pow2; [lia|]. apply Z.lt_le_trans with (2 ^ n); [lia|]. apply Z.pow_le_mono_r; lia. }
  rewrite <- Z.lxor_lor by exact Hl. rewrite <- Z.add_nocarry_lxor by exact Hl.
  rewrite Z.shiftl_mul_pow2 by lia. reflexivity.
Qed.
Lemma buf_land_255 x : Z.land x 255 = x mod 256.
Proof. change 255 with (Z.ones 8). rewrite Z.land_ones by lia. reflexivity. Qed.
Lemma buf_land_65535 x : Z.land x 65535 = x mod 65536.
Proof. change 65535 with (Z.ones 16). rewrite Z.land_ones by lia. reflexivity. Qed.

Lemma buf_be16_decode p0 p1 : 0 <= p0 < 256 -> 0 <= p1 < 256 ->
  Z.land (Z.lor (Z.shiftl p0 8) p1) 65535 = spec_be_value 0 [p0; p1].
Proof.
  intros H0 H1. rewrite buf_lor_shiftl by (change (2 ^ 8) with 256; lia).
  rewrite buf_land_65535. change (2 ^ 8) with 256. cbn [spec_be_value].
  rewrite Z.mod_small by lia. lia.
Qed.

Lemma buf_be32_decode p0 p1 p2 p3 : 0 <= p0 < 256 -> 0 <= p1 < 256 -> 0 <= p2 < 256 -> 0 <= p3 < 256 ->
  Z.lor (Z.lor (Z.lor (Z.shiftl p0 24) (Z.shiftl p1 16)) (Z.shiftl p2 8)) p3 = spec_be_value 0 [p0; p1; p2; p3].
Proof.
  intros H0 H1 H2 H3.
  replace (Z.shiftl p0 24) with (Z.shiftl (Z.shiftl (Z.shiftl p0 8) 8) 8)
    by (rewrite !Z.shiftl_shiftl by lia; reflexivity).
  replace (Z.shiftl p1 16) with (Z.shiftl (Z.shiftl p1 8) 8)
    by (rewrite !Z.shiftl_shiftl by lia; reflexivity).
  rewrite <- !Z.shiftl_lor.
  change (2 ^ 8) with 256.
  rewrite (buf_lor_shiftl p0 p1 8) by (change (2 ^ 8) with 256; lia). change (2 ^ 8) with 256.
  rewrite (buf_lor_shiftl (p0 * 256 + p1) p2 8) by (change (2 ^ 8) with 256; lia). change (2 ^ 8) with 256.
  rewrite (buf_lor_shiftl ((p0 * 256 + p1) * 256 + p2) p3 8) by (change (2 ^ 8) with 256; lia). change (2 ^ 8) with 256.
  cbn [spec_be_value]. lia.
Qed.

Lemma buf_zlen_2 {A} (l : list A) : buf_zlen l = 2 -> exists a b, l = [a; b].
Proof.
  unfold buf_zlen. destruct l as [|a [|b [|c r]]]; simpl length; intros H; try lia. eauto.
Qed.
Lemma buf_zlen_4 {A} (l : list A) : buf_zlen l = 4 -> exists a b c d, l = [a; b; c; d].
Proof.
  unfold buf_zlen. destruct l as [|a [|b [|c [|d [|e r]]]]]; simpl length; intros H; try lia. eauto 6.
Qed.

(* fetch_be16 / fetch_be32 remove 2 / 4 bytes from the front and return their big-endian
   value; fewer bytes remaining: EBADRESP and nothing changes *)
Theorem buf_fetch_be16_refines b : buf_inv b -> buf_bytes_ok (buf_remaining b) ->
  exists st b' v, buf_fetch_be16 b = Ok (st, b', v) /\ buf_inv b' /\
                  (st, buf_abs b', v) = spec_fetch_be 2 (buf_abs b).
Proof.
  intros Hi Hb. unfold buf_fetch_be16, spec_fetch_be, spec_len.
  rewrite buf_fetch_ok by exact Hi. cbn [fst snd].
  rewrite buf_abs_post, buf_remaining_zlen by exact Hi.
  destruct (Z.ltb_spec (b_dlen b - b_off b) 2) as [Hlt | Hge].
  - exists ARES_EBADRESP, b, 0. auto.
  - rewrite buf_read_remaining by (try exact Hi; lia). cbn [bind].
    pose proof (buf_remaining_zlen b Hi) as Hr.
    assert (buf_zlen (buf_take 2 (buf_remaining b)) = 2) as H2 by (apply buf_take_zlen; lia).
    destruct (buf_zlen_2 _ H2) as (p0 & p1 & Ep). rewrite Ep.
    rewrite buf_consume_ok by (try exact Hi; lia).
    replace (b_dlen b - b_off b <? 2) with false by (symmetry; apply Z.ltb_ge; lia).
    cbn [bind fst snd].
    exists ARES_SUCCESS, (buf_with_off b (b_off b + 2)), (Z.land (Z.lor (Z.shiftl p0 8) p1) 65535).
    split; [reflexivity|]. split.
    + destruct Hi as (Ho & Ht & Hs). apply buf_inv_with_off; [split; [exact Ho | split; [exact Ht | exact Hs]] | lia |].
      destruct Ht as [Ht | Ht]; [left; exact Ht | right; lia].
    + pose proof (buf_bytes_ok_take 2 _ Hb) as Hb2. rewrite Ep in Hb2.
      inversion Hb2 as [|x0 l0 Hp0 Hb3]; subst. inversion Hb3 as [|x1 l1 Hp1 _]; subst.
      rewrite buf_be16_decode by assumption.
      f_equal. f_equal. apply buf_advance_abs; [exact Hi | lia].
Qed.

Theorem buf_fetch_be32_refines b : buf_inv b -> buf_bytes_ok (buf_remaining b) ->
  exists st b' v, buf_fetch_be32 b = Ok (st, b', v) /\ buf_inv b' /\
                  (st, buf_abs b', v) = spec_fetch_be 4 (buf_abs b).
Proof.
  intros Hi Hb. unfold buf_fetch_be32, spec_fetch_be, spec_len.
  rewrite buf_fetch_ok by exact Hi. cbn [fst snd].
  rewrite buf_abs_post, buf_remaining_zlen by exact Hi.
  destruct (Z.ltb_spec (b_dlen b - b_off b) 4) as [Hlt | Hge].
  - exists ARES_EBADRESP, b, 0. auto.
  - rewrite buf_read_remaining by (try exact Hi; lia). cbn [bind].
    pose proof (buf_remaining_zlen b Hi) as Hr.
    assert (buf_zlen (buf_take 4 (buf_remaining b)) = 4) as H4 by (apply buf_take_zlen; lia).
    destruct (buf_zlen_4 _ H4) as (p0 & p1 & p2 & p3 & Ep). rewrite Ep.
    rewrite buf_consume_ok by (try exact Hi; lia).
    replace (b_dlen b - b_off b <? 4) with false by (symmetry; apply Z.ltb_ge; lia).
    cbn [bind fst snd].
    eexists ARES_SUCCESS, (buf_with_off b (b_off b + 4)), _.
    split; [reflexivity|]. split.
    + destruct Hi as (Ho & Ht & Hs). apply buf_inv_with_off; [split; [exact Ho | split; [exact Ht | exact Hs]] | lia |].
      destruct Ht as [Ht | Ht]; [left; exact Ht | right; lia].
    + pose proof (buf_bytes_ok_take 4 _ Hb) as Hb2. rewrite Ep in Hb2.
      inversion Hb2 as [|x0 l0 Hp0 Hb3]; subst. inversion Hb3 as [|x1 l1 Hp1 Hb4]; subst.
      inversion Hb4 as [|x2 l2 Hp2 Hb5]; subst. inversion Hb5 as [|x3 l3 Hp3 _]; subst.
      rewrite buf_be32_decode by assumption.
      f_equal. f_equal. apply buf_advance_abs; [exact Hi | lia].
Qed.

(* ------------------------------------------------------------------------------------- *)
(* reclaim                                                                                 *)
(* ------------------------------------------------------------------------------------- *)
Lemma buf_abs_const_flag b : s_const (buf_abs b) = b_hasdata b && negb (b_hasabuf b).
Proof. reflexivity. Qed.

Lemma buf_shape_not_dyn_trim b : buf_inv b -> b_hasabuf b = false -> spec_trim (buf_abs b) = buf_abs b.
Proof.
  intros Hi Ha. destruct Hi as (Ho & Ht & [Hs | [Hs | Hs]]).
  - destruct Hs as (Hd & _ & Hm & Hdl & _).
    assert (b_off b = 0) as Hoff by lia.
    unfold spec_trim, buf_abs. cbn [s_const s_tag s_pre s_post]. rewrite Hd, Ha. cbn [andb negb].
    assert (buf_consumed b = []) as Hc by (unfold buf_consumed; rewrite Hoff; apply buf_take_0; lia).
    rewrite Hc.
    destruct (Z.eqb_spec (b_tag b) BUF_SIZE_MAX) as [He | Hne]; [reflexivity|].
    destruct Ht as [Ht | Ht]; [contradiction|]. replace (b_tag b) with 0 by lia. reflexivity.
  - destruct Hs as (Hd & _). unfold spec_trim. rewrite buf_abs_const_flag, Hd, Ha. reflexivity.
  - destruct Hs as (_ & Ha' & _). congruence.
Qed.

(* reclaim never changes the remaining bytes nor the tagged region; what it discards is
   exactly the consumed bytes before the tag (before the cursor when no tag is set) *)
Theorem buf_reclaim_refines b : buf_inv b ->
  exists b', buf_reclaim b = Ok b' /\ buf_inv b' /\ buf_abs b' = spec_trim (buf_abs b) /\
             b_alloc b' = b_alloc b /\ b_dlen b' <= b_dlen b /\
             b_hasdata b' = b_hasdata b /\ b_hasabuf b' = b_hasabuf b /\
             (buf_bytes_ok (b_mem b) -> buf_bytes_ok (b_mem b')).
Proof.
  intros Hi. unfold buf_reclaim. rewrite buf_is_const_eq. cbn [bind].
  destruct (b_hasabuf b) eqn:Ha.
  2:{ (* fresh or const: nothing happens *)
    assert (buf_reclaim_id : (if negb (b2z (b_hasdata b && negb false) =? 0) then Ok b
                              else if negb false then Ok b else Ok b) = Ok b)
      by (destruct (negb (b2z (b_hasdata b && negb false) =? 0)); reflexivity).
    exists b. split.
    - destruct (negb (b2z (b_hasdata b && negb false) =? 0)); reflexivity.
    - split; [exact Hi|]. split; [symmetry; apply buf_shape_not_dyn_trim; assumption|].
      repeat split; auto; lia. }
  rewrite andb_false_r. cbn [b2z Z.eqb negb].
  pose proof (buf_inv_mem_len b Hi) as [Hm Hl].
  pose proof (buf_consumed_zlen b Hi) as Hcz.
  destruct Hi as (Ho & Ht & Hs).
  assert (buf_shape_dyn b) as Hdyn.
  { destruct Hs as [Hs | [Hs | Hs]]; [destruct Hs as (_ & Ha' & _); congruence | destruct Hs as (_ & Ha' & _); congruence | exact Hs]. }
  destruct Hdyn as (Hd & _ & Hmz & Hda & Hal).
  set (prefix := if negb (b_tag b =? BUF_SIZE_MAX) && (b_tag b <? b_off b) then b_tag b else b_off b).
  assert (0 <= prefix <= b_off b /\
          (b_tag b = BUF_SIZE_MAX -> prefix = b_off b) /\
          (b_tag b <> BUF_SIZE_MAX -> prefix = b_tag b)) as (Hp & Hpn & Hpt).
  { unfold prefix. destruct (Z.eqb_spec (b_tag b) BUF_SIZE_MAX) as [He | Hne]; cbn [negb andb].
    - repeat split; intros; try lia; try contradiction.
    - destruct Ht as [Ht | Ht]; [contradiction|].
      destruct (Z.ltb_spec (b_tag b) (b_off b)); repeat split; intros; try lia; try contradiction. }
  destruct (Z.eqb_spec prefix 0) as [Hp0 | Hpne].
  - (* nothing to discard *)
    exists b. split; [reflexivity|]. split; [split; [exact Ho | split; [exact Ht | exact Hs]]|].
    split; [| repeat split; auto; lia].
    unfold spec_trim. rewrite buf_abs_const_flag, Hd, Ha. cbn [andb negb].
    unfold buf_abs. cbn [s_tag s_pre s_post]. rewrite Hd, Ha. cbn [andb negb].
    destruct (Z.eqb_spec (b_tag b) BUF_SIZE_MAX) as [He | Hne].
    + f_equal. specialize (Hpn He). unfold buf_consumed. apply buf_take_0. lia.
    + specialize (Hpt Hne). rewrite <- Hpt, Hp0. rewrite buf_drop_0 by lia. reflexivity.
  - rewrite buf_w64_small by (buf_consts; lia).
    replace (buf_zlen (b_mem b) <? prefix + (b_dlen b - prefix)) with false
      by (symmetry; apply Z.ltb_ge; lia).
    set (ds := b_dlen b - prefix).
    assert (buf_zlen (buf_take ds (buf_drop prefix (b_mem b))) = ds) as Hmv.
    { apply buf_take_zlen. rewrite buf_drop_zlen by lia. unfold ds. lia. }
    eexists. split; [reflexivity|].
    (* the new data = the old data without its first [prefix] bytes *)
    assert (forall mem' dl o t hd ha, buf_data (mkBuf (buf_take ds (buf_drop prefix (b_mem b)) ++ mem') ds dl o t hd ha)
                             = buf_drop prefix (buf_data b)) as Hdata.
    { intros. unfold buf_data. cbn [b_mem b_dlen]. rewrite buf_take_app_exact by (symmetry; exact Hmv).
      rewrite buf_drop_take by lia. reflexivity. }
    split; [|split; [|repeat split]].
    + (* invariant *)
      split; [cbn [b_off b_dlen]; rewrite buf_w64_small by (buf_consts; lia); unfold ds; lia|].
      split.
      * cbn [b_tag b_off]. destruct (Z.eqb_spec (b_tag b) BUF_SIZE_MAX) as [He | Hne]; cbn [negb]; [left; exact He|].
        right. specialize (Hpt Hne). rewrite !buf_w64_small by (buf_consts; lia). lia.
      * right. right. unfold buf_shape_dyn. cbn [b_hasdata b_hasabuf b_mem b_dlen b_alloc].
        assert (buf_zlen (buf_take ds (buf_drop prefix (b_mem b)) ++ buf_drop ds (b_mem b)) = b_alloc b) as Hz.
        { rewrite buf_zlen_app, Hmv. rewrite buf_drop_zlen by (unfold ds; lia). lia. }
        repeat split; try assumption; try lia; unfold ds; lia.
    + (* abstraction *)
      unfold spec_trim. rewrite buf_abs_const_flag, Hd, Ha. cbn [andb negb].
      unfold buf_abs at 1. cbn [b_tag b_hasdata b_hasabuf]. cbn [andb negb].
      unfold buf_consumed, buf_remaining. rewrite Hdata. cbn [b_off].
      rewrite buf_w64_small by (buf_consts; lia).
      assert (buf_drop (b_off b - prefix) (buf_drop prefix (buf_data b)) = buf_remaining b) as Hrem.
      { rewrite buf_drop_drop by lia. unfold buf_remaining. f_equal. lia. }
      assert (buf_take (b_off b - prefix) (buf_drop prefix (buf_data b)) = buf_drop prefix (buf_consumed b)) as Hcon.
      { unfold buf_consumed. rewrite buf_drop_take by lia. reflexivity. }
      rewrite Hrem, Hcon.
      cbn [buf_abs s_tag s_pre s_post].
      destruct (Z.eqb_spec (b_tag b) BUF_SIZE_MAX) as [He | Hne]; cbn [negb].
      * rewrite He. cbn [Z.eqb]. rewrite (Hpn He). rewrite buf_drop_all by lia. reflexivity.
      * specialize (Hpt Hne). rewrite Hpt. rewrite Z.sub_diag.
        change (buf_w64 0) with 0. cbn [Z.eqb]. reflexivity.
    + cbn [b_dlen]. unfold ds. lia.
    + intros Hb. cbn [b_mem]. apply buf_bytes_ok_app.
      * apply buf_bytes_ok_take, buf_bytes_ok_drop, Hb.
      * apply buf_bytes_ok_drop, Hb.
Qed.

(* ------------------------------------------------------------------------------------- *)
(* ensure_space: the growth loop terminates (64 units of fuel are never exhausted)         *)
(* ------------------------------------------------------------------------------------- *)
Lemma buf_grow_loop_ok fuel : forall a0 dlen needed,
  0 < a0 < 2 ^ 63 -> 0 <= dlen <= a0 -> 0 < needed -> dlen + needed <= 2 ^ 63 ->
  (fuel >= 1)%nat -> dlen + needed <= a0 * 2 ^ Z.of_nat fuel ->
  exists a, buf_grow_loop fuel a0 dlen needed = Ok a /\ dlen + needed <= a /\ 2 * a0 <= a /\
            a < 2 ^ 64 /\ (a = 2 * a0 \/ a < 2 * (dlen + needed)).
Proof.
  induction fuel as [|f IH]; intros a0 dlen needed Ha0 Hd Hn Hsum Hf Hcap; [lia|].
  cbn [buf_grow_loop].
  change (2 ^ 63) with 9223372036854775808 in *.
  assert (buf_w64 (a0 * 2) = 2 * a0) as Ea by (rewrite buf_w64_small by (change (2 ^ 64) with 18446744073709551616; lia); lia).
  rewrite Ea.
  assert (buf_w64 (2 * a0 - dlen) = 2 * a0 - dlen) as Er by (apply buf_w64_small; change (2 ^ 64) with 18446744073709551616; lia).
  rewrite Er.
  destruct (Z.ltb_spec (2 * a0 - dlen) needed) as [Hlt | Hge].
  - assert (1 <= Z.of_nat f) as Hf1.
    { destruct f as [|f']; [|lia]. exfalso. rewrite Nat2Z.inj_succ, Z.pow_succ_r in Hcap by lia.
      change (2 ^ Z.of_nat 0) with 1 in Hcap. lia. }
    destruct (IH (2 * a0) dlen needed) as (a & Hl & H1 & H2 & H3 & H4); try lia.
    + rewrite Nat2Z.inj_succ, Z.pow_succ_r in Hcap by lia. lia.
    + exists a. split; [exact Hl|]. repeat split; lia.
  - exists (2 * a0). split; [reflexivity|]. change (2 ^ 64) with 18446744073709551616. repeat split; try lia.
Qed.

Lemma buf_junk_block_zlen junk from to : from <= to -> buf_zlen (buf_junk_block junk from to) = to - from.
Proof. intros H. unfold buf_junk_block, buf_zlen. rewrite map_length, seq_length. lia. Qed.

Lemma buf_junk_block_bytes junk from to : (forall i, 0 <= junk i < 256) -> buf_bytes_ok (buf_junk_block junk from to).
Proof.
  intros Hj. unfold buf_junk_block, buf_bytes_ok. apply Forall_forall. intros x Hx.
  apply in_map_iff in Hx. destruct Hx as (i & <- & _). apply Hj.
Qed.

(* states with the same data, cursor and tag have the same abstract value *)
Lemma buf_abs_same_data b1 b2 :
  buf_data b1 = buf_data b2 -> b_off b1 = b_off b2 -> b_tag b1 = b_tag b2 ->
  (b_hasdata b1 && negb (b_hasabuf b1)) = (b_hasdata b2 && negb (b_hasabuf b2)) ->
  buf_abs b1 = buf_abs b2.
Proof.
  intros Hd Ho Ht Hc. unfold buf_abs, buf_consumed, buf_remaining. rewrite Hd, Ho, Ht, Hc. reflexivity.
Qed.

Definition buf_not_const (b : cbuf) : Prop := (b_hasdata b && negb (b_hasabuf b)) = false.

(* ensure_space(needed): EFORMERR on a const buffer; otherwise the abstract value is unchanged
   up to a reclaim, and on success there is room for needed+1 more bytes *)
Theorem buf_ensure_space_refines junk ok b n : buf_inv b -> 0 <= n < BUF_ALLOC_LIMIT ->
  exists st b', buf_ensure_space junk ok b n = Ok (st, b') /\ buf_inv b' /\
    (buf_abs b' = buf_abs b \/ buf_abs b' = spec_trim (buf_abs b)) /\
    ((forall i, 0 <= junk i < 256) -> buf_bytes_ok (b_mem b) -> buf_bytes_ok (b_mem b')) /\
    ((st = ARES_EFORMERR /\ s_const (buf_abs b) = true /\ b' = b) \/
     (st = ARES_SUCCESS /\ buf_not_const b /\ b_hasabuf b' = true /\ b_dlen b' + n < b_alloc b') \/
     (st = ARES_ENOMEM /\ buf_not_const b /\
      (ok = false \/ BUF_ALLOC_LIMIT <= 2 * b_alloc b \/ BUF_ALLOC_LIMIT <= 2 * (b_dlen b + n + 1)))).
Proof.
  intros Hi Hn. unfold buf_ensure_space. rewrite buf_is_const_eq. cbn [bind].
  destruct (b_hasdata b && negb (b_hasabuf b)) eqn:Ec; cbn [b2z Z.eqb negb].
  { exists ARES_EFORMERR, b. split; [reflexivity|]. split; [exact Hi|]. split; [left; reflexivity|].
    split; [auto|]. left. auto. }
  pose proof (buf_inv_mem_len b Hi) as [Hm Hl].
  assert (0 <= b_alloc b < BUF_ALLOC_LIMIT /\ b_dlen b <= b_alloc b) as [Hal Hdl].
  { destruct Hi as (Ho & _ & [Hs | [Hs | Hs]]).
    - destruct Hs as (_ & _ & _ & Hd0 & Ha0). rewrite Ha0, Hd0. buf_consts. lia.
    - destruct Hs as (Hd & Ha & _). rewrite Hd, Ha in Ec. discriminate.
    - destruct Hs as (_ & _ & _ & Hd0 & Ha0). lia. }
  assert (0 <= b_off b <= b_dlen b) as Ho by (destruct Hi as (Ho & _); exact Ho).
  rewrite (buf_w64_small (n + 1)) by (buf_consts; lia).
  rewrite (buf_w64_small (b_alloc b - b_dlen b)) by (buf_consts; lia).
  destruct (Z.geb_spec (b_alloc b - b_dlen b) (n + 1)) as [Hfit | Hnofit].
  { exists ARES_SUCCESS, b. split; [reflexivity|]. split; [exact Hi|]. split; [left; reflexivity|].
    split; [auto|]. right. left. repeat split; try lia; try exact Ec.
    destruct Hi as (_ & _ & [Hs | [Hs | Hs]]).
    - destruct Hs as (_ & _ & _ & Hd0 & Ha0). lia.
    - destruct Hs as (Hd & Ha & _). rewrite Hd, Ha in Ec. discriminate.
    - destruct Hs as (_ & Ha & _). exact Ha. }
  destruct (buf_reclaim_refines b Hi) as (b1 & Hr & Hi1 & Habs1 & Ha1 & Hd1 & Hhd1 & Hha1 & Hb1).
  rewrite Hr. cbn [bind].
  pose proof (buf_inv_mem_len b1 Hi1) as [Hm1 Hl1].
  assert (0 <= b_off b1 <= b_dlen b1) as Ho1 by (destruct Hi1 as (Ho1 & _); exact Ho1).
  rewrite (buf_w64_small (b_alloc b1 - b_dlen b1)) by (buf_consts; lia).
  assert (buf_not_const b1) as Ec1 by (unfold buf_not_const; rewrite Hhd1, Hha1; exact Ec).
  destruct (Z.geb_spec (b_alloc b1 - b_dlen b1) (n + 1)) as [Hfit1 | Hnofit1].
  { exists ARES_SUCCESS, b1. split; [reflexivity|]. split; [exact Hi1|]. split; [right; exact Habs1|].
    split; [auto|]. right. left. repeat split; try lia; try exact Ec.
    destruct Hi1 as (_ & _ & [Hs | [Hs | Hs]]).
    - destruct Hs as (_ & _ & _ & Hd0 & Ha0). lia.
    - destruct Hs as (Hd & Ha & _). unfold buf_not_const in Ec1. rewrite Hd, Ha in Ec1. discriminate.
    - destruct Hs as (_ & Ha & _). exact Ha. }
  set (a0 := if b_alloc b1 =? 0 then 16 else b_alloc b1).
  assert (0 < a0 < BUF_ALLOC_LIMIT /\ b_dlen b1 <= a0 /\ b_alloc b1 <= a0 /\ (a0 = 16 \/ a0 = b_alloc b1)) as (Ha0 & Hda0 & Haa0 & Ha0c).
  { unfold a0. destruct (Z.eqb_spec (b_alloc b1) 0) as [He | Hne]; buf_consts; lia. }
  destruct (buf_grow_loop_ok 64 a0 (b_dlen b1) (n + 1)) as (a & Hloop & Hg1 & Hg2 & Hg3 & Hg4);
    try (buf_consts; change (2 ^ 63) with 9223372036854775808; lia).
  rewrite Hloop. cbn [bind].
  unfold buf_alloc_answer.
  destruct (ok && (a <? BUF_ALLOC_LIMIT)) eqn:Eans.
  - apply andb_true_iff in Eans. destruct Eans as [_ Ealim]. apply Z.ltb_lt in Ealim.
    eexists ARES_SUCCESS, _. split; [reflexivity|].
    assert (buf_zlen (b_mem b1) = b_alloc b1) as Hmz1.
    { destruct Hi1 as (_ & _ & [Hs | [Hs | Hs]]).
      - destruct Hs as (_ & _ & Hm0 & _ & Ha0'). rewrite Hm0, Ha0'. reflexivity.
      - destruct Hs as (Hd & Ha & _). unfold buf_not_const in Ec1. rewrite Hd, Ha in Ec1. discriminate.
      - destruct Hs as (_ & _ & Hz & _). exact Hz. }
    assert (buf_zlen (b_mem b1 ++ buf_junk_block junk (buf_zlen (b_mem b1)) a) = a) as Hnz.
    { rewrite buf_zlen_app, buf_junk_block_zlen by lia. lia. }
    split; [|split; [|split]].
    + destruct Hi1 as (_ & Ht1 & _). split; [exact Ho1|]. split; [exact Ht1|].
      right. right. unfold buf_shape_dyn. cbn [b_hasdata b_hasabuf b_mem b_dlen b_alloc].
      repeat split; lia.
    + assert (buf_abs (mkBuf (b_mem b1 ++ buf_junk_block junk (buf_zlen (b_mem b1)) a) (b_dlen b1) a (b_off b1) (b_tag b1) true true) = buf_abs b1) as Eabs.
      { apply buf_abs_same_data; try reflexivity.
        - unfold buf_data. cbn [b_mem b_dlen]. apply buf_take_app_l. lia.
        - cbn [b_hasdata b_hasabuf]. symmetry. exact Ec1. }
      rewrite Eabs. right. exact Habs1.
    + intros Hj Hb. cbn [b_mem]. apply buf_bytes_ok_app; [apply Hb1, Hb | apply buf_junk_block_bytes, Hj].
    + right. left. cbn [b_hasabuf b_dlen b_alloc]. repeat split; try lia. exact Ec.
  - exists ARES_ENOMEM, b1. split; [reflexivity|]. split; [exact Hi1|]. split; [right; exact Habs1|].
    split; [auto|]. right. right. split; [reflexivity|]. split; [exact Ec|].
    apply andb_false_iff in Eans. destruct Eans as [Eok | Elim]; [left; exact Eok|].
    right. apply Z.ltb_ge in Elim. destruct Hg4 as [Hg4 | Hg4]; [|right; lia].
    destruct Ha0c as [Ha16 | Haeq]; [buf_consts; lia|]. left. lia.
Qed.

(* ------------------------------------------------------------------------------------- *)
(* append                                                                                  *)
(* ------------------------------------------------------------------------------------- *)

(* writing [bytes] behind the data of a dynamic buffer with enough room *)
Lemma buf_write_tail_abs b1 bytes :
  buf_inv b1 -> b_hasabuf b1 = true -> b_dlen b1 + buf_zlen bytes < b_alloc b1 ->
  let b' := mkBuf (buf_mem_write (b_mem b1) (b_dlen b1) bytes) (b_dlen b1 + buf_zlen bytes)
                  (b_alloc b1) (b_off b1) (b_tag b1) (b_hasdata b1) (b_hasabuf b1) in
  buf_inv b' /\ buf_abs b' = spec_app (buf_abs b1) bytes /\
  (buf_bytes_ok (b_mem b1) -> buf_bytes_ok bytes -> buf_bytes_ok (b_mem b')).
Proof.
  intros Hi Ha Hroom b'.
  pose proof (buf_inv_mem_len b1 Hi) as [Hm Hl].
  pose proof (buf_data_zlen b1 Hi) as Hdz.
  pose proof (buf_zlen_nonneg bytes) as Hbn.
  destruct Hi as (Ho & Ht & Hs).
  assert (buf_shape_dyn b1) as Hdyn.
  { destruct Hs as [Hs | [Hs | Hs]]; [destruct Hs as (_ & Ha' & _); congruence | destruct Hs as (_ & Ha' & _); congruence | exact Hs]. }
  destruct Hdyn as (Hd & _ & Hmz & Hda & Hal).
  assert (buf_zlen (buf_take (b_dlen b1) (b_mem b1)) = b_dlen b1) as Htz by (apply buf_take_zlen; lia).
  assert (buf_data b' = buf_data b1 ++ bytes) as Hdata.
  { unfold buf_data, b'. cbn [b_mem b_dlen]. unfold buf_mem_write.
    rewrite buf_take_app_r by lia. rewrite Htz.
    replace (b_dlen b1 + buf_zlen bytes - b_dlen b1) with (buf_zlen bytes) by lia.
    rewrite buf_take_app_exact by reflexivity. reflexivity. }
  split; [|split].
  - split; [cbn [b_off b_dlen b']; lia|]. split; [exact Ht|].
    right. right. unfold buf_shape_dyn, b'. cbn [b_hasdata b_hasabuf b_mem b_dlen b_alloc].
    assert (buf_zlen (buf_mem_write (b_mem b1) (b_dlen b1) bytes) = b_alloc b1) as Hz.
    { unfold buf_mem_write. rewrite !buf_zlen_app, Htz. rewrite buf_drop_zlen by lia. lia. }
    repeat split; try assumption; lia.
  - unfold buf_abs, spec_app. cbn [s_pre s_post s_tag s_const].
    unfold buf_consumed, buf_remaining. rewrite Hdata. unfold b'. cbn [b_off b_tag b_hasdata b_hasabuf].
    f_equal.
    + apply buf_take_app_l. lia.
    + apply buf_drop_app_l. lia.
  - intros Hb Hbytes. unfold b'. cbn [b_mem]. unfold buf_mem_write.
    apply buf_bytes_ok_app; [apply buf_bytes_ok_take, Hb|].
    apply buf_bytes_ok_app; [exact Hbytes | apply buf_bytes_ok_drop, Hb].
Qed.

(* ares_buf_append: success appends exactly the bytes at the back of the remaining bytes;
   ENOMEM leaves the abstract value unchanged (up to a reclaim); never UB *)
Theorem buf_append_refines junk ok b bytes : buf_inv b -> buf_zlen bytes < BUF_ALLOC_LIMIT ->
  exists st b', buf_append junk ok b bytes = Ok (st, b') /\ buf_inv b' /\
    In (st, buf_abs b') (spec_append_alts (buf_abs b) bytes) /\
    ((forall i, 0 <= junk i < 256) -> buf_bytes_ok (b_mem b) -> buf_bytes_ok bytes -> buf_bytes_ok (b_mem b')) /\
    (st = ARES_ENOMEM -> ok = false \/ BUF_ALLOC_LIMIT <= 2 * b_alloc b \/
                         BUF_ALLOC_LIMIT <= 2 * (b_dlen b + buf_zlen bytes + 1)).
Proof.
  intros Hi Hlen. unfold buf_append, spec_append_alts.
  pose proof (buf_zlen_nonneg bytes) as Hbn.
  destruct (Z.eqb_spec (buf_zlen bytes) 0) as [He | Hne].
  { exists ARES_SUCCESS, b. split; [reflexivity|]. split; [exact Hi|]. split; [left; reflexivity|].
    split; [auto|]. intros H. discriminate H. }
  destruct (buf_ensure_space_refines junk ok b (buf_zlen bytes) Hi) as (st & b1 & He & Hi1 & Habs & Hbytes & Hcases); [lia|].
  rewrite He. cbn [bind fst snd].
  destruct Hcases as [(Hst & Hc & Hb) | [(Hst & Hnc & Ha1 & Hroom) | (Hst & Hnc & Hwhy)]].
  - subst st b1. cbn [Z.eqb negb ARES_EFORMERR ARES_SUCCESS].
    exists ARES_EFORMERR, b. split; [reflexivity|]. split; [exact Hi|]. split.
    + rewrite Hc. left. reflexivity.
    + split; [auto|]. intros H. discriminate H.
  - subst st. cbn [Z.eqb negb ARES_SUCCESS].
    replace (negb (b_hasabuf b1)) with false by (rewrite Ha1; reflexivity).
    pose proof (buf_inv_mem_len b1 Hi1) as [Hm1 Hl1].
    assert (buf_zlen (b_mem b1) = b_alloc b1) as Hmz1.
    { destruct Hi1 as (_ & _ & [Hs | [Hs | Hs]]).
      - destruct Hs as (_ & Ha' & _). congruence.
      - destruct Hs as (_ & Ha' & _). congruence.
      - destruct Hs as (_ & _ & Hz & _). exact Hz. }
    replace (buf_zlen (b_mem b1) <? b_dlen b1 + buf_zlen bytes) with false by (symmetry; apply Z.ltb_ge; lia).
    assert (0 <= b_dlen b1) as Hd0 by (destruct Hi1 as (Ho1 & _); lia).
    rewrite buf_w64_small by (buf_consts; lia).
    destruct (buf_write_tail_abs b1 bytes Hi1 Ha1 Hroom) as (Hi' & Habs' & Hb').
    eexists ARES_SUCCESS, _. split; [reflexivity|]. split; [exact Hi'|]. split.
    + replace (s_const (buf_abs b)) with false by (symmetry; exact Hnc).
      rewrite Habs'. destruct Habs as [Habs | Habs]; rewrite Habs; [left | right; left]; reflexivity.
    + split; [|intros H; discriminate H]. intros Hj Hb Hbs. apply Hb'; [apply Hbytes; assumption | exact Hbs].
  - subst st. cbn [Z.eqb negb ARES_ENOMEM ARES_SUCCESS].
    exists ARES_ENOMEM, b1. split; [reflexivity|]. split; [exact Hi1|]. split.
    + replace (s_const (buf_abs b)) with false by (symmetry; exact Hnc).
      destruct Habs as [Habs | Habs]; rewrite Habs; [right; right; left | right; right; right; left]; reflexivity.
    + split; [|intros _; exact Hwhy]. intros Hj Hb Hbs. apply Hbytes; assumption.
Qed.
