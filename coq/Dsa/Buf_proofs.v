(* Proofs about the byte buffer model (Dsa/Buf.v): invariant, refinement to the byte queue. *)
From CAres.Dsa Require Import Buf.
From CAres.Gen Require Import Consts LeafFns.
Local Open Scope Z_scope.
Local Open Scope bool_scope.

(* ------------------------------------------------------------------------------------- *)
(* Z-indexed list lemmas                                                                   *)
(* ------------------------------------------------------------------------------------- *)
Lemma buf_zlen_nonneg {A} (l : list A) : 0 <= buf_zlen l.
Proof. unfold buf_zlen; lia. Qed.

Lemma buf_zlen_nil {A} : buf_zlen (@nil A) = 0.
Proof. reflexivity. Qed.

Lemma buf_zlen_cons {A} (x : A) l : buf_zlen (x :: l) = 1 + buf_zlen l.
Proof. unfold buf_zlen; simpl length; lia. Qed.

Lemma buf_zlen_app {A} (l1 l2 : list A) : buf_zlen (l1 ++ l2) = buf_zlen l1 + buf_zlen l2.
Proof. unfold buf_zlen; rewrite app_length; lia. Qed.

Lemma buf_zlen_0 {A} (l : list A) : buf_zlen l = 0 -> l = [].
Proof. unfold buf_zlen; destruct l; simpl; [reflexivity | lia]. Qed.

Lemma buf_take_zlen {A} n (l : list A) : 0 <= n <= buf_zlen l -> buf_zlen (buf_take n l) = n.
Proof. unfold buf_zlen, buf_take; intros H; rewrite firstn_length; lia. Qed.

Lemma buf_take_zlen_le {A} n (l : list A) : 0 <= n -> buf_zlen (buf_take n l) <= n.
Proof. unfold buf_zlen, buf_take; intros H; rewrite firstn_length; lia. Qed.

Lemma buf_drop_zlen {A} n (l : list A) : 0 <= n <= buf_zlen l -> buf_zlen (buf_drop n l) = buf_zlen l - n.
Proof. unfold buf_zlen, buf_drop; intros H; rewrite skipn_length; lia. Qed.

Lemma buf_take_drop {A} n (l : list A) : buf_take n l ++ buf_drop n l = l.
Proof. apply firstn_skipn. Qed.

Lemma buf_take_0 {A} n (l : list A) : n <= 0 -> buf_take n l = [].
Proof. unfold buf_take; intros H; replace (Z.to_nat n) with O by lia; reflexivity. Qed.

Lemma buf_drop_0 {A} n (l : list A) : n <= 0 -> buf_drop n l = l.
Proof. unfold buf_drop; intros H; replace (Z.to_nat n) with O by lia; reflexivity. Qed.

Lemma buf_take_all {A} n (l : list A) : buf_zlen l <= n -> buf_take n l = l.
Proof. unfold buf_zlen, buf_take; intros H; apply firstn_all2; lia. Qed.

Lemma buf_drop_all {A} n (l : list A) : buf_zlen l <= n -> buf_drop n l = [].
Proof. unfold buf_zlen, buf_drop; intros H; apply skipn_all2; lia. Qed.

Lemma buf_skipn_skipn {A} (a n : nat) (l : list A) : skipn n (skipn a l) = skipn (a + n) l.
Proof.
  revert l; induction a as [|a IH]; intros l; simpl; [reflexivity|].
  destruct l as [|x l]; [destruct n; reflexivity | apply IH].
Qed.

Lemma buf_drop_drop {A} a n (l : list A) : 0 <= a -> 0 <= n -> buf_drop n (buf_drop a l) = buf_drop (a + n) l.
Proof.
  unfold buf_drop; intros Ha Hn. rewrite buf_skipn_skipn. f_equal. lia.
Qed.

Lemma buf_take_take {A} n m (l : list A) : n <= m -> buf_take n (buf_take m l) = buf_take n l.
Proof.
  unfold buf_take; intros H. rewrite firstn_firstn. f_equal. lia.
Qed.

Lemma buf_firstn_skipn_comm {A} (a m : nat) (l : list A) :
  skipn a (firstn (a + m) l) = firstn m (skipn a l).
Proof.
  revert l; induction a as [|a IH]; intros l; simpl; [reflexivity|].
  destruct l as [|x l]; [destruct m; reflexivity | apply IH].
Qed.

Lemma buf_drop_take {A} a m (l : list A) : 0 <= a <= m -> buf_drop a (buf_take m l) = buf_take (m - a) (buf_drop a l).
Proof.
  unfold buf_drop, buf_take; intros H.
  replace (Z.to_nat m) with (Z.to_nat a + Z.to_nat (m - a))%nat by lia.
  apply buf_firstn_skipn_comm.
Qed.

Lemma buf_take_app_l {A} n (l1 l2 : list A) : n <= buf_zlen l1 -> buf_take n (l1 ++ l2) = buf_take n l1.
Proof.
  unfold buf_zlen, buf_take; intros H. rewrite firstn_app.
  replace (Z.to_nat n - length l1)%nat with O by lia. simpl. apply app_nil_r.
Qed.

Lemma buf_take_app_r {A} n (l1 l2 : list A) :
  buf_zlen l1 <= n -> buf_take n (l1 ++ l2) = l1 ++ buf_take (n - buf_zlen l1) l2.
Proof.
  unfold buf_zlen, buf_take; intros H. rewrite firstn_app.
  rewrite firstn_all2 by lia. f_equal. f_equal. lia.
Qed.

Lemma buf_take_app_exact {A} n (l1 l2 : list A) : n = buf_zlen l1 -> buf_take n (l1 ++ l2) = l1.
Proof.
  intros H. rewrite buf_take_app_l by lia. apply buf_take_all. lia.
Qed.

Lemma buf_drop_app_l {A} n (l1 l2 : list A) : n <= buf_zlen l1 -> buf_drop n (l1 ++ l2) = buf_drop n l1 ++ l2.
Proof.
  unfold buf_zlen, buf_drop; intros H. rewrite skipn_app.
  replace (Z.to_nat n - length l1)%nat with O by lia. reflexivity.
Qed.

Lemma buf_drop_app_r {A} n (l1 l2 : list A) :
  buf_zlen l1 <= n -> buf_drop n (l1 ++ l2) = buf_drop (n - buf_zlen l1) l2.
Proof.
  unfold buf_zlen, buf_drop; intros H. rewrite skipn_app.
  rewrite skipn_all2 by lia. simpl. f_equal. lia.
Qed.

Lemma buf_drop_app_exact {A} n (l1 l2 : list A) : n = buf_zlen l1 -> buf_drop n (l1 ++ l2) = l2.
Proof.
  intros H. rewrite buf_drop_app_r by lia. apply buf_drop_0. lia.
Qed.

Lemma buf_take_add {A} a n (l : list A) : 0 <= a -> 0 <= n ->
  buf_take (a + n) l = buf_take a l ++ buf_take n (buf_drop a l).
Proof.
  intros Ha Hn.
  rewrite <- (buf_take_drop a l) at 1.
  destruct (Z.le_gt_cases (buf_zlen l) a) as [Hl|Hl].
  - rewrite (buf_drop_all a l) by lia. rewrite app_nil_r.
    rewrite buf_take_all; [| rewrite buf_take_all by lia; lia].
    unfold buf_take at 3. rewrite firstn_nil. rewrite app_nil_r. reflexivity.
  - rewrite buf_take_app_r by (rewrite buf_take_zlen by lia; lia).
    rewrite buf_take_zlen by lia. f_equal. f_equal. lia.
Qed.

Ltac buf_consts :=
  unfold BUF_SIZE_MAX, BUF_ALLOC_LIMIT, buf_w64 in *;
  change (2 ^ 64) with 18446744073709551616 in *;
  change (2 ^ 62) with 4611686018427387904 in *.

Lemma buf_w64_small z : 0 <= z < 2 ^ 64 -> buf_w64 z = z.
Proof. intros H. unfold buf_w64. apply Z.mod_small. exact H. Qed.

(* ------------------------------------------------------------------------------------- *)
(* The invariant                                                                           *)
(* ------------------------------------------------------------------------------------- *)
Definition buf_shape_fresh (b : cbuf) : Prop :=
  cb_hasdata b = false /\ cb_hasabuf b = false /\ cb_mem b = [] /\ cb_dlen b = 0 /\ cb_alloc b = 0.
Definition buf_shape_const (b : cbuf) : Prop :=
  cb_hasdata b = true /\ cb_hasabuf b = false /\ buf_zlen (cb_mem b) = cb_dlen b /\ cb_alloc b = 0 /\
  0 < cb_dlen b < BUF_ALLOC_LIMIT.
Definition buf_shape_dyn (b : cbuf) : Prop :=
  cb_hasdata b = true /\ cb_hasabuf b = true /\ buf_zlen (cb_mem b) = cb_alloc b /\
  cb_dlen b < cb_alloc b /\ cb_alloc b < BUF_ALLOC_LIMIT.

(* offset <= data_len, data_len < alloc_buf_len (dynamic buffer: one spare byte for the
   terminator of finish_str), tag = none or tag <= offset *)
Definition buf_inv (b : cbuf) : Prop :=
  0 <= cb_off b <= cb_dlen b /\
  (cb_tag b = BUF_SIZE_MAX \/ 0 <= cb_tag b <= cb_off b) /\
  (buf_shape_fresh b \/ buf_shape_const b \/ buf_shape_dyn b).

Lemma buf_inv_mem_len b : buf_inv b -> cb_dlen b <= buf_zlen (cb_mem b) /\ cb_dlen b < BUF_ALLOC_LIMIT.
Proof.
  intros (Ho & _ & [Hs | [Hs | Hs]]).
  - destruct Hs as (_ & _ & Hm & Hd & _). rewrite Hm, Hd. buf_consts. cbn. lia.
  - destruct Hs as (_ & _ & Hm & _ & Hd). lia.
  - destruct Hs as (_ & _ & Hm & Hd & Ha). lia.
Qed.

Lemma buf_inv_tag_ne b : buf_inv b -> cb_tag b <> BUF_SIZE_MAX -> 0 <= cb_tag b <= cb_off b.
Proof. intros (_ & [Ht | Ht] & _) Hne; [contradiction | exact Ht]. Qed.

Lemma buf_is_const_eq b : buf_is_const b = Ok (b2z (cb_hasdata b && negb (cb_hasabuf b))).
Proof. unfold buf_is_const, c_ares_buf_is_const. destruct (cb_hasdata b), (cb_hasabuf b); reflexivity. Qed.

Lemma buf_with_off_same b : buf_with_off b (cb_off b) = b.
Proof. destruct b; reflexivity. Qed.
Lemma buf_with_tag_same b : buf_with_tag b (cb_tag b) = b.
Proof. destruct b; reflexivity. Qed.
Lemma buf_with_dlen_same b : buf_with_dlen b (cb_dlen b) = b.
Proof. destruct b; reflexivity. Qed.

(* ---- abstraction ---- *)
Lemma buf_data_zlen b : buf_inv b -> buf_zlen (buf_data b) = cb_dlen b.
Proof.
  intros Hi. pose proof (buf_inv_mem_len b Hi) as [Hm _]. destruct Hi as (Ho & _).
  unfold buf_data. apply buf_take_zlen. lia.
Qed.

Lemma buf_remaining_zlen b : buf_inv b -> buf_zlen (buf_remaining b) = cb_dlen b - cb_off b.
Proof.
  intros Hi. pose proof (buf_data_zlen b Hi) as Hd. destruct Hi as (Ho & _).
  unfold buf_remaining. rewrite buf_drop_zlen by lia. lia.
Qed.

Lemma buf_consumed_zlen b : buf_inv b -> buf_zlen (buf_consumed b) = cb_off b.
Proof.
  intros Hi. pose proof (buf_data_zlen b Hi) as Hd. destruct Hi as (Ho & _).
  unfold buf_consumed. apply buf_take_zlen. lia.
Qed.

Lemma buf_consumed_remaining b : buf_consumed b ++ buf_remaining b = buf_data b.
Proof. apply buf_take_drop. Qed.

(* the remaining bytes as a slice of the block *)
Lemma buf_remaining_mem b : buf_inv b ->
  buf_remaining b = buf_take (cb_dlen b - cb_off b) (buf_drop (cb_off b) (cb_mem b)).
Proof.
  intros (Ho & _). unfold buf_remaining, buf_data. apply buf_drop_take. lia.
Qed.

Lemma buf_abs_pre b : bs_pre (buf_abs b) = buf_consumed b. Proof. reflexivity. Qed.
Lemma buf_abs_post b : bs_post (buf_abs b) = buf_remaining b. Proof. reflexivity. Qed.

(* states that differ only in the cursor *)
Lemma buf_data_with_off b o : buf_data (buf_with_off b o) = buf_data b.
Proof. reflexivity. Qed.
Lemma buf_data_with_tag b t : buf_data (buf_with_tag b t) = buf_data b.
Proof. reflexivity. Qed.

Lemma buf_inv_with_off b o : buf_inv b -> 0 <= o <= cb_dlen b ->
  (cb_tag b = BUF_SIZE_MAX \/ cb_tag b <= o) -> buf_inv (buf_with_off b o).
Proof.
  intros (Ho & Ht & Hs) Hr Htag. split; [exact Hr|]. split.
  - cbn. destruct Ht as [Ht | Ht]; [left; exact Ht|]. destruct Htag as [Htag | Htag]; [left; exact Htag|]. right. lia.
  - exact Hs.
Qed.

Lemma buf_advance_abs b n : buf_inv b -> 0 <= n <= cb_dlen b - cb_off b ->
  buf_abs (buf_with_off b (cb_off b + n)) = bufs_advance (buf_abs b) n.
Proof.
  intros Hi Hn. pose proof (buf_data_zlen b Hi) as Hd. destruct Hi as (Ho & _).
  unfold buf_abs, bufs_advance. cbn [bs_pre bs_post bs_tag bs_const cb_tag cb_hasdata cb_hasabuf buf_with_off].
  f_equal.
  - unfold buf_consumed, buf_remaining. rewrite buf_data_with_off. cbn [cb_off buf_with_off].
    apply buf_take_add; lia.
  - unfold buf_remaining. rewrite buf_data_with_off. cbn [cb_off buf_with_off].
    symmetry. apply buf_drop_drop; lia.
Qed.

(* ------------------------------------------------------------------------------------- *)
(* Cursor operations (through the generated functions)                                     *)
(* ------------------------------------------------------------------------------------- *)
Lemma buf_len_ok b : buf_inv b -> buf_len b = Ok (cb_dlen b - cb_off b).
Proof.
  intros Hi. pose proof (buf_inv_mem_len b Hi) as [_ Hl]. destruct Hi as (Ho & _).
  unfold buf_len, c_ares_buf_len. f_equal. buf_consts. apply Z.mod_small. lia.
Qed.

Theorem buf_len_refines b : buf_inv b -> buf_len b = Ok (bufs_len (buf_abs b)).
Proof.
  intros Hi. rewrite buf_len_ok by exact Hi. unfold bufs_len. rewrite buf_abs_post.
  rewrite buf_remaining_zlen by exact Hi. reflexivity.
Qed.

Lemma buf_consume_ok b n : buf_inv b -> 0 <= n ->
  buf_consume b n = Ok (if cb_dlen b - cb_off b <? n then (ARES_EBADRESP, b)
                        else (ARES_SUCCESS, buf_with_off b (cb_off b + n))).
Proof.
  intros Hi Hn. unfold buf_consume. rewrite buf_len_ok by exact Hi.
  pose proof (buf_inv_mem_len b Hi) as [_ Hl]. destruct Hi as (Ho & _).
  cbn [bind]. unfold c_ares_buf_consume.
  destruct (Z.ltb_spec (cb_dlen b - cb_off b) n) as [Hlt | Hge]; cbn [bind fst snd].
  - rewrite buf_with_off_same. reflexivity.
  - f_equal. f_equal. f_equal. buf_consts. apply Z.mod_small. lia.
Qed.

Theorem buf_consume_refines b n : buf_inv b -> 0 <= n ->
  exists st b', buf_consume b n = Ok (st, b') /\ buf_inv b' /\
                (st, buf_abs b') = bufs_consume (buf_abs b) n.
Proof.
  intros Hi Hn. rewrite buf_consume_ok by assumption.
  unfold bufs_consume, bufs_len. rewrite buf_abs_post, buf_remaining_zlen by exact Hi.
  destruct (Z.ltb_spec (cb_dlen b - cb_off b) n) as [Hlt | Hge].
  - exists ARES_EBADRESP, b. auto.
  - exists ARES_SUCCESS, (buf_with_off b (cb_off b + n)). split; [reflexivity|]. split.
    + destruct Hi as (Ho & Ht & Hs). apply buf_inv_with_off; [split; [exact Ho | split; [exact Ht | exact Hs]] | lia |].
      destruct Ht as [Ht | Ht]; [left; exact Ht | right; lia].
    + f_equal. apply buf_advance_abs; [exact Hi | destruct Hi as (Ho & _); lia].
Qed.

Lemma buf_off_not_max b : buf_inv b -> (cb_off b =? BUF_SIZE_MAX) = false.
Proof.
  intros Hi. pose proof (buf_inv_mem_len b Hi) as [_ Hl]. destruct Hi as (Ho & _).
  apply Z.eqb_neq. buf_consts. lia.
Qed.

Theorem buf_tag_refines b : buf_inv b ->
  exists b', buf_tag b = Ok b' /\ buf_inv b' /\ buf_abs b' = bufs_tag (buf_abs b).
Proof.
  intros Hi. exists (buf_with_tag b (cb_off b)). split; [reflexivity|]. split.
  - destruct Hi as (Ho & Ht & Hs). split; [exact Ho|]. split; [right; cbn; lia | exact Hs].
  - unfold buf_abs, bufs_tag, bufs_position. cbn [bs_pre bs_post bs_tag bs_const cb_tag cb_hasdata cb_hasabuf buf_with_tag].
    rewrite buf_off_not_max by exact Hi.
    f_equal. f_equal. symmetry. apply buf_consumed_zlen. exact Hi.
Qed.

Lemma buf_tag_rollback_ok b :
  buf_tag_rollback b = Ok (if cb_tag b =? BUF_SIZE_MAX then (ARES_EFORMERR, b)
                           else (ARES_SUCCESS, buf_with_tag (buf_with_off b (cb_tag b)) BUF_SIZE_MAX)).
Proof.
  unfold buf_tag_rollback, c_ares_buf_tag_rollback. fold BUF_SIZE_MAX.
  destruct (cb_tag b =? BUF_SIZE_MAX); cbn [bind fst snd]; [|reflexivity].
  destruct b; reflexivity.
Qed.

(* tag, any fetches/consumes, rollback: position and remaining bytes are restored exactly *)
Theorem buf_tag_rollback_refines b : buf_inv b ->
  exists st b', buf_tag_rollback b = Ok (st, b') /\ buf_inv b' /\
                (st, buf_abs b') = bufs_tag_rollback (buf_abs b).
Proof.
  intros Hi. rewrite buf_tag_rollback_ok. unfold bufs_tag_rollback.
  cbn [buf_abs bs_tag].
  destruct (Z.eqb_spec (cb_tag b) BUF_SIZE_MAX) as [He | Hne].
  - exists ARES_EFORMERR, b. auto.
  - pose proof (buf_inv_tag_ne b Hi Hne) as Ht.
    pose proof (buf_consumed_zlen b Hi) as Hc.
    exists ARES_SUCCESS, (buf_with_tag (buf_with_off b (cb_tag b)) BUF_SIZE_MAX).
    split; [reflexivity|]. split.
    + destruct Hi as (Ho & _ & Hs). split; [cbn; lia|]. split; [left; reflexivity | exact Hs].
    + f_equal. unfold buf_abs. cbn [bs_pre bs_post bs_tag bs_const cb_tag cb_hasdata cb_hasabuf buf_with_tag buf_with_off].
      rewrite Z.eqb_refl. f_equal.
      * unfold buf_consumed. cbn [cb_off buf_with_tag buf_with_off]. fold (buf_data b).
        change (buf_data (buf_with_tag (buf_with_off b (cb_tag b)) BUF_SIZE_MAX)) with (buf_data b).
        symmetry. apply buf_take_take. lia.
      * unfold buf_remaining. cbn [cb_off buf_with_tag buf_with_off].
        change (buf_data (buf_with_tag (buf_with_off b (cb_tag b)) BUF_SIZE_MAX)) with (buf_data b).
        rewrite <- (buf_consumed_remaining b) at 1.
        rewrite buf_drop_app_l by lia. reflexivity.
Qed.

Theorem buf_tag_clear_refines b : buf_inv b ->
  exists st b', buf_tag_clear b = Ok (st, b') /\ buf_inv b' /\
                (st, buf_abs b') = bufs_tag_clear (buf_abs b).
Proof.
  intros Hi. unfold buf_tag_clear, c_ares_buf_tag_clear, bufs_tag_clear. fold BUF_SIZE_MAX.
  cbn [buf_abs bs_tag].
  destruct (Z.eqb_spec (cb_tag b) BUF_SIZE_MAX) as [He | Hne]; cbn [bind fst snd].
  - exists ARES_EFORMERR, b. rewrite buf_with_tag_same. auto.
  - exists ARES_SUCCESS, (buf_with_tag b BUF_SIZE_MAX). split; [reflexivity|]. split.
    + destruct Hi as (Ho & _ & Hs). split; [exact Ho|]. split; [left; reflexivity | exact Hs].
    + reflexivity.
Qed.

Theorem buf_tag_length_refines b : buf_inv b -> buf_tag_length b = Ok (bufs_tag_length (buf_abs b)).
Proof.
  intros Hi. unfold buf_tag_length, c_ares_buf_tag_length, bufs_tag_length. fold BUF_SIZE_MAX.
  cbn [buf_abs bs_tag bs_pre].
  destruct (Z.eqb_spec (cb_tag b) BUF_SIZE_MAX) as [He | Hne]; [reflexivity|].
  pose proof (buf_inv_tag_ne b Hi Hne) as Ht. pose proof (buf_inv_mem_len b Hi) as [_ Hl].
  rewrite buf_consumed_zlen by exact Hi. destruct Hi as (Ho & _).
  f_equal. buf_consts. apply Z.mod_small. lia.
Qed.

Theorem buf_get_position_refines b : buf_inv b -> buf_get_position b = Ok (bufs_position (buf_abs b)).
Proof.
  intros Hi. unfold buf_get_position, c_ares_buf_get_position, bufs_position.
  rewrite buf_abs_pre, buf_consumed_zlen by exact Hi. reflexivity.
Qed.

Lemma buf_set_position_ok b idx :
  buf_set_position b idx = Ok (if idx >? cb_dlen b then (ARES_EFORMERR, b)
                               else (ARES_SUCCESS, buf_with_off b idx)).
Proof.
  unfold buf_set_position, c_ares_buf_set_position.
  destruct (idx >? cb_dlen b); cbn [bind fst snd]; [rewrite buf_with_off_same|]; reflexivity.
Qed.

(* set_position: absolute repositioning; the invariant survives exactly when the caller does
   not move below an active tag (bufs_set_position_contract) *)
Theorem buf_set_position_refines b idx : buf_inv b -> 0 <= idx ->
  bufs_set_position_contract (buf_abs b) idx = true ->
  exists st b', buf_set_position b idx = Ok (st, b') /\ buf_inv b' /\
                (st, buf_abs b') = bufs_set_position (buf_abs b) idx.
Proof.
  intros Hi Hidx Hc. rewrite buf_set_position_ok. unfold bufs_set_position.
  rewrite buf_abs_pre, buf_abs_post, buf_consumed_remaining, buf_data_zlen by exact Hi.
  destruct (Z.gtb_spec idx (cb_dlen b)) as [Hgt | Hle].
  - exists ARES_EFORMERR, b. auto.
  - exists ARES_SUCCESS, (buf_with_off b idx). split; [reflexivity|]. split.
    + apply buf_inv_with_off; [exact Hi | lia |].
      unfold bufs_set_position_contract in Hc. cbn [buf_abs bs_tag bs_pre bs_post] in Hc.
      destruct (Z.eqb_spec (cb_tag b) BUF_SIZE_MAX) as [He | Hne]; [left; exact He|]. right.
      rewrite buf_consumed_remaining, buf_data_zlen in Hc by exact Hi.
      apply orb_true_iff in Hc. destruct Hc as [Hc | Hc]; lia.
    + reflexivity.
Qed.

(* ------------------------------------------------------------------------------------- *)
(* Reading                                                                                 *)
(* ------------------------------------------------------------------------------------- *)
Lemma buf_fetch_ok b : buf_inv b ->
  buf_fetch b = (cb_dlen b - cb_off b =? 0, cb_dlen b - cb_off b).
Proof.
  intros Hi. pose proof (buf_inv_mem_len b Hi) as [_ Hl]. destruct Hi as (Ho & _ & Hs).
  unfold buf_fetch. destruct Hs as [Hs | [Hs | Hs]].
  - destruct Hs as (Hd & _ & _ & Hdl & _). rewrite Hd. cbn. replace (cb_dlen b - cb_off b) with 0 by lia. reflexivity.
  - destruct Hs as (Hd & _). rewrite Hd. cbn [negb].
    rewrite buf_w64_small by (buf_consts; lia).
    destruct (Z.eqb_spec (cb_dlen b - cb_off b) 0) as [He | Hne]; [rewrite He|]; reflexivity.
  - destruct Hs as (Hd & _). rewrite Hd. cbn [negb].
    rewrite buf_w64_small by (buf_consts; lia).
    destruct (Z.eqb_spec (cb_dlen b - cb_off b) 0) as [He | Hne]; [rewrite He|]; reflexivity.
Qed.

Lemma buf_read_data b at_ n : buf_inv b -> 0 <= at_ -> 0 <= n -> at_ + n <= cb_dlen b ->
  buf_read b at_ n = Ok (buf_take n (buf_drop at_ (buf_data b))).
Proof.
  intros Hi Ha Hn Hle. pose proof (buf_inv_mem_len b Hi) as [Hm _].
  unfold buf_read.
  replace ((0 <=? at_) && (0 <=? n) && (at_ + n <=? buf_zlen (cb_mem b))) with true
    by (symmetry; rewrite !andb_true_iff; repeat split; apply Z.leb_le; lia).
  f_equal. unfold buf_data. rewrite buf_drop_take by lia. rewrite buf_take_take by lia. reflexivity.
Qed.

Lemma buf_read_remaining b n : buf_inv b -> 0 <= n <= cb_dlen b - cb_off b ->
  buf_read b (cb_off b) n = Ok (buf_take n (buf_remaining b)).
Proof.
  intros Hi Hn. destruct Hi as (Ho & Hrest).
  apply buf_read_data; [split; [exact Ho | exact Hrest] | lia | lia | lia].
Qed.

Theorem buf_peek_refines b : buf_inv b -> buf_peek b = Ok (bs_post (buf_abs b)).
Proof.
  intros Hi. unfold buf_peek. rewrite buf_fetch_ok by exact Hi. cbn [fst snd]. rewrite buf_abs_post.
  pose proof (buf_remaining_zlen b Hi) as Hr.
  destruct (Z.eqb_spec (cb_dlen b - cb_off b) 0) as [He | Hne].
  - f_equal. symmetry. apply buf_zlen_0. lia.
  - rewrite buf_read_remaining; [| exact Hi | destruct Hi as (Ho & _); lia].
    f_equal. apply buf_take_all. lia.
Qed.

Lemma buf_take_1 {A} (l : list A) : buf_take 1 l = match l with [] => [] | x :: _ => [x] end.
Proof. destruct l; reflexivity. Qed.

Theorem buf_peek_byte_refines b : buf_inv b -> buf_peek_byte b = Ok (bufs_peek_byte (buf_abs b)).
Proof.
  intros Hi. unfold buf_peek_byte, bufs_peek_byte. rewrite buf_fetch_ok by exact Hi. cbn [fst snd].
  rewrite buf_abs_post. pose proof (buf_remaining_zlen b Hi) as Hr.
  destruct (Z.eqb_spec (cb_dlen b - cb_off b) 0) as [He | Hne].
  - replace (buf_remaining b) with (@nil Z) by (symmetry; apply buf_zlen_0; lia). reflexivity.
  - rewrite buf_read_remaining; [| exact Hi | destruct Hi as (Ho & _); lia]. cbn [bind].
    rewrite buf_take_1. destruct (buf_remaining b) as [|x r] eqn:Er; [|reflexivity].
    rewrite buf_zlen_nil in Hr. destruct Hi as (Ho & _). lia.
Qed.

Theorem buf_fetch_bytes_refines b n : buf_inv b -> 0 <= n ->
  exists st b' out, buf_fetch_bytes b n = Ok (st, b', out) /\ buf_inv b' /\
                    (st, buf_abs b', out) = bufs_fetch_bytes (buf_abs b) n.
Proof.
  intros Hi Hn. unfold buf_fetch_bytes, bufs_fetch_bytes, bufs_len.
  rewrite buf_fetch_ok by exact Hi. cbn [fst snd].
  rewrite buf_abs_post, buf_remaining_zlen by exact Hi.
  destruct ((n =? 0) || (cb_dlen b - cb_off b <? n)) eqn:Eg.
  - exists ARES_EBADRESP, b, []. auto.
  - apply orb_false_iff in Eg. destruct Eg as [E0 Elt].
    apply Z.eqb_neq in E0. apply Z.ltb_ge in Elt.
    rewrite buf_read_remaining by (try exact Hi; lia). cbn [bind].
    rewrite buf_consume_ok by (try exact Hi; lia).
    replace (cb_dlen b - cb_off b <? n) with false by (symmetry; apply Z.ltb_ge; lia).
    cbn [bind fst snd].
    exists ARES_SUCCESS, (buf_with_off b (cb_off b + n)), (buf_take n (buf_remaining b)).
    split; [reflexivity|]. split.
    + destruct Hi as (Ho & Ht & Hs). apply buf_inv_with_off; [split; [exact Ho | split; [exact Ht | exact Hs]] | lia |].
      destruct Ht as [Ht | Ht]; [left; exact Ht | right; lia].
    + f_equal. f_equal. apply buf_advance_abs; [exact Hi | lia].
Qed.

(* ------------------------------------------------------------------------------------- *)
(* Big-endian integers                                                                     *)
(* ------------------------------------------------------------------------------------- *)
Definition buf_bytes_ok (l : list Z) : Prop := Forall (fun x => 0 <= x < 256) l.

Lemma buf_bytes_ok_take n l : buf_bytes_ok l -> buf_bytes_ok (buf_take n l).
Proof.
  unfold buf_bytes_ok, buf_take. intros H. rewrite <- (firstn_skipn (Z.to_nat n) l) in H.
  apply Forall_app in H. apply H.
Qed.
Lemma buf_bytes_ok_drop n l : buf_bytes_ok l -> buf_bytes_ok (buf_drop n l).
Proof.
  unfold buf_bytes_ok, buf_drop. intros H. rewrite <- (firstn_skipn (Z.to_nat n) l) in H.
  apply Forall_app in H. apply H.
Qed.
Lemma buf_bytes_ok_app l1 l2 : buf_bytes_ok l1 -> buf_bytes_ok l2 -> buf_bytes_ok (l1 ++ l2).
Proof. unfold buf_bytes_ok. intros H1 H2. apply Forall_app. split; assumption. Qed.
Lemma buf_bytes_ok_app_inv l1 l2 : buf_bytes_ok (l1 ++ l2) -> buf_bytes_ok l1 /\ buf_bytes_ok l2.
Proof. unfold buf_bytes_ok. intros H. apply Forall_app in H. exact H. Qed.

Lemma buf_lor_shiftl a b n : 0 <= n -> 0 <= b < 2 ^ n -> Z.lor (Z.shiftl a n) b = a * 2 ^ n + b.
Proof.
  intros Hn Hb.
  assert (Z.land (Z.shiftl a n) b = 0) as Hl.
  { apply Z.bits_inj'. intros m Hm. rewrite Z.land_spec, Z.bits_0.
    destruct (Z.lt_ge_cases m n) as [Hlt | Hge].
    - rewrite Z.shiftl_spec_low by lia. reflexivity.
    - destruct (Z.eq_dec b 0) as [-> | Hne]; [rewrite Z.bits_0; apply andb_false_r|].
      rewrite (Z.bits_above_log2 b m); [apply andb_false_r | lia |].
      apply Z.log2_lt_pow2; [lia|]. apply Z.lt_le_trans with (2 ^ n); [lia|]. apply Z.pow_le_mono_r; lia. }
  rewrite <- Z.lxor_lor by exact Hl. rewrite <- Z.add_nocarry_lxor by exact Hl.
  rewrite Z.shiftl_mul_pow2 by lia. reflexivity.
Qed.
Lemma buf_land_255 x : Z.land x 255 = x mod 256.
Proof. change 255 with (Z.ones 8). rewrite Z.land_ones by lia. reflexivity. Qed.
Lemma buf_land_65535 x : Z.land x 65535 = x mod 65536.
Proof. change 65535 with (Z.ones 16). rewrite Z.land_ones by lia. reflexivity. Qed.

Lemma buf_be16_decode p0 p1 : 0 <= p0 < 256 -> 0 <= p1 < 256 ->
  Z.land (Z.lor (Z.shiftl p0 8) p1) 65535 = bufs_be_value 0 [p0; p1].
Proof.
  intros H0 H1. rewrite buf_lor_shiftl by (change (2 ^ 8) with 256; lia).
  rewrite buf_land_65535. change (2 ^ 8) with 256. cbn [bufs_be_value].
  rewrite Z.mod_small by lia. lia.
Qed.

Lemma buf_be32_decode p0 p1 p2 p3 : 0 <= p0 < 256 -> 0 <= p1 < 256 -> 0 <= p2 < 256 -> 0 <= p3 < 256 ->
  Z.lor (Z.lor (Z.lor (Z.shiftl p0 24) (Z.shiftl p1 16)) (Z.shiftl p2 8)) p3 = bufs_be_value 0 [p0; p1; p2; p3].
Proof.
  intros H0 H1 H2 H3.
  replace (Z.shiftl p0 24) with (Z.shiftl (Z.shiftl (Z.shiftl p0 8) 8) 8)
    by (rewrite !Z.shiftl_shiftl by lia; reflexivity).
  replace (Z.shiftl p1 16) with (Z.shiftl (Z.shiftl p1 8) 8)
    by (rewrite !Z.shiftl_shiftl by lia; reflexivity).
  rewrite <- !Z.shiftl_lor.
  change (2 ^ 8) with 256.
  rewrite (buf_lor_shiftl p0 p1 8) by (change (2 ^ 8) with 256; lia). change (2 ^ 8) with 256.
  rewrite (buf_lor_shiftl (p0 * 256 + p1) p2 8) by (change (2 ^ 8) with 256; lia). change (2 ^ 8) with 256.
  rewrite (buf_lor_shiftl ((p0 * 256 + p1) * 256 + p2) p3 8) by (change (2 ^ 8) with 256; lia). change (2 ^ 8) with 256.
  cbn [bufs_be_value]. lia.
Qed.

Lemma buf_zlen_2 {A} (l : list A) : buf_zlen l = 2 -> exists a b, l = [a; b].
Proof.
  unfold buf_zlen. destruct l as [|a [|b [|c r]]]; simpl length; intros H; try lia. eauto.
Qed.
Lemma buf_zlen_4 {A} (l : list A) : buf_zlen l = 4 -> exists a b c d, l = [a; b; c; d].
Proof.
  unfold buf_zlen. destruct l as [|a [|b [|c [|d [|e r]]]]]; simpl length; intros H; try lia. eauto 6.
Qed.

(* fetch_be16 / fetch_be32 remove 2 / 4 bytes from the front and return their big-endian
   value; fewer bytes remaining: EBADRESP and nothing changes *)
Theorem buf_fetch_be16_refines b : buf_inv b -> buf_bytes_ok (buf_remaining b) ->
  exists st b' v, buf_fetch_be16 b = Ok (st, b', v) /\ buf_inv b' /\
                  (st, buf_abs b', v) = bufs_fetch_be 2 (buf_abs b).
Proof.
  intros Hi Hb. unfold buf_fetch_be16, bufs_fetch_be, bufs_len.
  rewrite buf_fetch_ok by exact Hi. cbn [fst snd].
  rewrite buf_abs_post, buf_remaining_zlen by exact Hi.
  destruct (Z.ltb_spec (cb_dlen b - cb_off b) 2) as [Hlt | Hge].
  - exists ARES_EBADRESP, b, 0. auto.
  - rewrite buf_read_remaining by (try exact Hi; lia). cbn [bind].
    pose proof (buf_remaining_zlen b Hi) as Hr.
    assert (buf_zlen (buf_take 2 (buf_remaining b)) = 2) as H2 by (apply buf_take_zlen; lia).
    destruct (buf_zlen_2 _ H2) as (p0 & p1 & Ep). rewrite Ep.
    rewrite buf_consume_ok by (try exact Hi; lia).
    replace (cb_dlen b - cb_off b <? 2) with false by (symmetry; apply Z.ltb_ge; lia).
    cbn [bind fst snd].
    exists ARES_SUCCESS, (buf_with_off b (cb_off b + 2)), (Z.land (Z.lor (Z.shiftl p0 8) p1) 65535).
    split; [reflexivity|]. split.
    + destruct Hi as (Ho & Ht & Hs). apply buf_inv_with_off; [split; [exact Ho | split; [exact Ht | exact Hs]] | lia |].
      destruct Ht as [Ht | Ht]; [left; exact Ht | right; lia].
    + pose proof (buf_bytes_ok_take 2 _ Hb) as Hb2. rewrite Ep in Hb2.
      inversion Hb2 as [|x0 l0 Hp0 Hb3]; subst. inversion Hb3 as [|x1 l1 Hp1 _]; subst.
      rewrite buf_be16_decode by assumption.
      f_equal. f_equal. apply buf_advance_abs; [exact Hi | lia].
Qed.

Theorem buf_fetch_be32_refines b : buf_inv b -> buf_bytes_ok (buf_remaining b) ->
  exists st b' v, buf_fetch_be32 b = Ok (st, b', v) /\ buf_inv b' /\
                  (st, buf_abs b', v) = bufs_fetch_be 4 (buf_abs b).
Proof.
  intros Hi Hb. unfold buf_fetch_be32, bufs_fetch_be, bufs_len.
  rewrite buf_fetch_ok by exact Hi. cbn [fst snd].
  rewrite buf_abs_post, buf_remaining_zlen by exact Hi.
  destruct (Z.ltb_spec (cb_dlen b - cb_off b) 4) as [Hlt | Hge].
  - exists ARES_EBADRESP, b, 0. auto.
  - rewrite buf_read_remaining by (try exact Hi; lia). cbn [bind].
    pose proof (buf_remaining_zlen b Hi) as Hr.
    assert (buf_zlen (buf_take 4 (buf_remaining b)) = 4) as H4 by (apply buf_take_zlen; lia).
    destruct (buf_zlen_4 _ H4) as (p0 & p1 & p2 & p3 & Ep). rewrite Ep.
    rewrite buf_consume_ok by (try exact Hi; lia).
    replace (cb_dlen b - cb_off b <? 4) with false by (symmetry; apply Z.ltb_ge; lia).
    cbn [bind fst snd].
    eexists ARES_SUCCESS, (buf_with_off b (cb_off b + 4)), _.
    split; [reflexivity|]. split.
    + destruct Hi as (Ho & Ht & Hs). apply buf_inv_with_off; [split; [exact Ho | split; [exact Ht | exact Hs]] | lia |].
      destruct Ht as [Ht | Ht]; [left; exact Ht | right; lia].
    + pose proof (buf_bytes_ok_take 4 _ Hb) as Hb2. rewrite Ep in Hb2.
      inversion Hb2 as [|x0 l0 Hp0 Hb3]; subst. inversion Hb3 as [|x1 l1 Hp1 Hb4]; subst.
      inversion Hb4 as [|x2 l2 Hp2 Hb5]; subst. inversion Hb5 as [|x3 l3 Hp3 _]; subst.
      rewrite buf_be32_decode by assumption.
      f_equal. f_equal. apply buf_advance_abs; [exact Hi | lia].
Qed.

(* ------------------------------------------------------------------------------------- *)
(* reclaim                                                                                 *)
(* ------------------------------------------------------------------------------------- *)
Lemma buf_abs_const_flag b : bs_const (buf_abs b) = cb_hasdata b && negb (cb_hasabuf b).
Proof. reflexivity. Qed.

Lemma buf_shape_not_dyn_trim b : buf_inv b -> cb_hasabuf b = false -> bufs_trim (buf_abs b) = buf_abs b.
Proof.
  intros Hi Ha. destruct Hi as (Ho & Ht & [Hs | [Hs | Hs]]).
  - destruct Hs as (Hd & _ & Hm & Hdl & _).
    assert (cb_off b = 0) as Hoff by lia.
    unfold bufs_trim, buf_abs. cbn [bs_const bs_tag bs_pre bs_post]. rewrite Hd, Ha. cbn [andb negb].
    assert (buf_consumed b = []) as Hc by (unfold buf_consumed; rewrite Hoff; apply buf_take_0; lia).
    rewrite Hc.
    destruct (Z.eqb_spec (cb_tag b) BUF_SIZE_MAX) as [He | Hne]; [reflexivity|].
    destruct Ht as [Ht | Ht]; [contradiction|]. replace (cb_tag b) with 0 by lia. reflexivity.
  - destruct Hs as (Hd & _). unfold bufs_trim. rewrite buf_abs_const_flag, Hd, Ha. reflexivity.
  - destruct Hs as (_ & Ha' & _). congruence.
Qed.

(* reclaim never changes the remaining bytes nor the tagged region; what it discards is
   exactly the consumed bytes before the tag (before the cursor when no tag is set) *)
Theorem buf_reclaim_refines b : buf_inv b ->
  exists b', buf_reclaim b = Ok b' /\ buf_inv b' /\ buf_abs b' = bufs_trim (buf_abs b) /\
             cb_alloc b' = cb_alloc b /\ cb_dlen b' <= cb_dlen b /\
             cb_hasdata b' = cb_hasdata b /\ cb_hasabuf b' = cb_hasabuf b /\
             (buf_bytes_ok (cb_mem b) -> buf_bytes_ok (cb_mem b')).
Proof.
  intros Hi. unfold buf_reclaim. rewrite buf_is_const_eq. cbn [bind].
  destruct (cb_hasabuf b) eqn:Ha.
  2:{ (* fresh or const: nothing happens *)
    assert (buf_reclaim_id : (if negb (b2z (cb_hasdata b && negb false) =? 0) then Ok b
                              else if negb false then Ok b else Ok b) = Ok b)
      by (destruct (negb (b2z (cb_hasdata b && negb false) =? 0)); reflexivity).
    exists b. split.
    - destruct (negb (b2z (cb_hasdata b && negb false) =? 0)); reflexivity.
    - split; [exact Hi|]. split; [symmetry; apply buf_shape_not_dyn_trim; assumption|].
      repeat split; auto; lia. }
  rewrite andb_false_r. cbn [b2z Z.eqb negb].
  pose proof (buf_inv_mem_len b Hi) as [Hm Hl].
  pose proof (buf_consumed_zlen b Hi) as Hcz.
  destruct Hi as (Ho & Ht & Hs).
  assert (buf_shape_dyn b) as Hdyn.
  { destruct Hs as [Hs | [Hs | Hs]]; [destruct Hs as (_ & Ha' & _); congruence | destruct Hs as (_ & Ha' & _); congruence | exact Hs]. }
  destruct Hdyn as (Hd & _ & Hmz & Hda & Hal).
  set (prefix := if negb (cb_tag b =? BUF_SIZE_MAX) && (cb_tag b <? cb_off b) then cb_tag b else cb_off b).
  assert (0 <= prefix <= cb_off b /\
          (cb_tag b = BUF_SIZE_MAX -> prefix = cb_off b) /\
          (cb_tag b <> BUF_SIZE_MAX -> prefix = cb_tag b)) as (Hp & Hpn & Hpt).
  { unfold prefix. destruct (Z.eqb_spec (cb_tag b) BUF_SIZE_MAX) as [He | Hne]; cbn [negb andb].
    - repeat split; intros; try lia; try contradiction.
    - destruct Ht as [Ht | Ht]; [contradiction|].
      destruct (Z.ltb_spec (cb_tag b) (cb_off b)); repeat split; intros; try lia; try contradiction. }
  destruct (Z.eqb_spec prefix 0) as [Hp0 | Hpne].
  - (* nothing to discard *)
    exists b. split; [reflexivity|]. split; [split; [exact Ho | split; [exact Ht | exact Hs]]|].
    split; [| repeat split; auto; lia].
    unfold bufs_trim. rewrite buf_abs_const_flag, Hd, Ha. cbn [andb negb].
    unfold buf_abs. cbn [bs_tag bs_pre bs_post]. rewrite Hd, Ha. cbn [andb negb].
    destruct (Z.eqb_spec (cb_tag b) BUF_SIZE_MAX) as [He | Hne].
    + f_equal. specialize (Hpn He). unfold buf_consumed. apply buf_take_0. lia.
    + specialize (Hpt Hne). rewrite <- Hpt, Hp0. rewrite buf_drop_0 by lia. reflexivity.
  - rewrite buf_w64_small by (buf_consts; lia).
    replace (buf_zlen (cb_mem b) <? prefix + (cb_dlen b - prefix)) with false
      by (symmetry; apply Z.ltb_ge; lia).
    set (ds := cb_dlen b - prefix).
    assert (buf_zlen (buf_take ds (buf_drop prefix (cb_mem b))) = ds) as Hmv.
    { apply buf_take_zlen. rewrite buf_drop_zlen by lia. unfold ds. lia. }
    eexists. split; [reflexivity|].
    (* the new data = the old data without its first [prefix] bytes *)
    assert (forall mem' dl o t hd ha, buf_data (mkBuf (buf_take ds (buf_drop prefix (cb_mem b)) ++ mem') ds dl o t hd ha)
                             = buf_drop prefix (buf_data b)) as Hdata.
    { intros. unfold buf_data. cbn [cb_mem cb_dlen]. rewrite buf_take_app_exact by (symmetry; exact Hmv).
      rewrite buf_drop_take by lia. reflexivity. }
    split; [|split; [|repeat split]].
    + (* invariant *)
      split; [cbn [cb_off cb_dlen]; rewrite buf_w64_small by (buf_consts; lia); unfold ds; lia|].
      split.
      * cbn [cb_tag cb_off]. destruct (Z.eqb_spec (cb_tag b) BUF_SIZE_MAX) as [He | Hne]; cbn [negb]; [left; exact He|].
        right. specialize (Hpt Hne). rewrite !buf_w64_small by (buf_consts; lia). lia.
      * right. right. unfold buf_shape_dyn. cbn [cb_hasdata cb_hasabuf cb_mem cb_dlen cb_alloc].
        assert (buf_zlen (buf_take ds (buf_drop prefix (cb_mem b)) ++ buf_drop ds (cb_mem b)) = cb_alloc b) as Hz.
        { rewrite buf_zlen_app, Hmv. rewrite buf_drop_zlen by (unfold ds; lia). lia. }
        repeat split; try assumption; try lia; unfold ds; lia.
    + (* abstraction *)
      unfold bufs_trim. rewrite buf_abs_const_flag, Hd, Ha. cbn [andb negb].
      unfold buf_abs at 1. cbn [cb_tag cb_hasdata cb_hasabuf]. cbn [andb negb].
      unfold buf_consumed, buf_remaining. rewrite Hdata. cbn [cb_off].
      rewrite buf_w64_small by (buf_consts; lia).
      assert (buf_drop (cb_off b - prefix) (buf_drop prefix (buf_data b)) = buf_remaining b) as Hrem.
      { rewrite buf_drop_drop by lia. unfold buf_remaining. f_equal. lia. }
      assert (buf_take (cb_off b - prefix) (buf_drop prefix (buf_data b)) = buf_drop prefix (buf_consumed b)) as Hcon.
      { unfold buf_consumed. rewrite buf_drop_take by lia. reflexivity. }
      rewrite Hrem, Hcon.
      cbn [buf_abs bs_tag bs_pre bs_post].
      destruct (Z.eqb_spec (cb_tag b) BUF_SIZE_MAX) as [He | Hne]; cbn [negb].
      * rewrite He. cbn [Z.eqb]. rewrite (Hpn He). rewrite buf_drop_all by lia. reflexivity.
      * specialize (Hpt Hne). rewrite Hpt. rewrite Z.sub_diag.
        change (buf_w64 0) with 0. cbn [Z.eqb]. reflexivity.
    + cbn [cb_dlen]. unfold ds. lia.
    + intros Hb. cbn [cb_mem]. apply buf_bytes_ok_app.
      * apply buf_bytes_ok_take, buf_bytes_ok_drop, Hb.
      * apply buf_bytes_ok_drop, Hb.
Qed.

(* ------------------------------------------------------------------------------------- *)
(* ensure_space: the growth loop terminates (64 units of fuel are never exhausted)         *)
(* ------------------------------------------------------------------------------------- *)
Lemma buf_grow_loop_ok fuel : forall a0 dlen needed,
  0 < a0 < 2 ^ 63 -> 0 <= dlen <= a0 -> 0 < needed -> dlen + needed <= 2 ^ 63 ->
  (fuel >= 1)%nat -> dlen + needed <= a0 * 2 ^ Z.of_nat fuel ->
  exists a, buf_grow_loop fuel a0 dlen needed = Ok a /\ dlen + needed <= a /\ 2 * a0 <= a /\
            a < 2 ^ 64 /\ (a = 2 * a0 \/ a < 2 * (dlen + needed)).
Proof.
  induction fuel as [|f IH]; intros a0 dlen needed Ha0 Hd Hn Hsum Hf Hcap; [lia|].
  cbn [buf_grow_loop].
  change (2 ^ 63) with 9223372036854775808 in *.
  assert (buf_w64 (a0 * 2) = 2 * a0) as Ea by (rewrite buf_w64_small by (change (2 ^ 64) with 18446744073709551616; lia); lia).
  rewrite Ea.
  assert (buf_w64 (2 * a0 - dlen) = 2 * a0 - dlen) as Er by (apply buf_w64_small; change (2 ^ 64) with 18446744073709551616; lia).
  rewrite Er.
  destruct (Z.ltb_spec (2 * a0 - dlen) needed) as [Hlt | Hge].
  - assert (1 <= Z.of_nat f) as Hf1.
    { destruct f as [|f']; [|lia]. exfalso. rewrite Nat2Z.inj_succ, Z.pow_succ_r in Hcap by lia.
      change (2 ^ Z.of_nat 0) with 1 in Hcap. lia. }
    destruct (IH (2 * a0) dlen needed) as (a & Hl & H1 & H2 & H3 & H4); try lia.
    + rewrite Nat2Z.inj_succ, Z.pow_succ_r in Hcap by lia. lia.
    + exists a. split; [exact Hl|]. repeat split; lia.
  - exists (2 * a0). split; [reflexivity|]. change (2 ^ 64) with 18446744073709551616. repeat split; try lia.
Qed.

Lemma buf_junk_block_zlen junk from to : from <= to -> buf_zlen (buf_junk_block junk from to) = to - from.
Proof. intros H. unfold buf_junk_block, buf_zlen. rewrite map_length, seq_length. lia. Qed.

Lemma buf_junk_block_bytes junk from to : (forall i, 0 <= junk i < 256) -> buf_bytes_ok (buf_junk_block junk from to).
Proof.
  intros Hj. unfold buf_junk_block, buf_bytes_ok. apply Forall_forall. intros x Hx.
  apply in_map_iff in Hx. destruct Hx as (i & <- & _). apply Hj.
Qed.

(* states with the same data, cursor and tag have the same abstract value *)
Lemma buf_abs_same_data b1 b2 :
  buf_data b1 = buf_data b2 -> cb_off b1 = cb_off b2 -> cb_tag b1 = cb_tag b2 ->
  (cb_hasdata b1 && negb (cb_hasabuf b1)) = (cb_hasdata b2 && negb (cb_hasabuf b2)) ->
  buf_abs b1 = buf_abs b2.
Proof.
  intros Hd Ho Ht Hc. unfold buf_abs, buf_consumed, buf_remaining. rewrite Hd, Ho, Ht, Hc. reflexivity.
Qed.

Definition buf_not_const (b : cbuf) : Prop := (cb_hasdata b && negb (cb_hasabuf b)) = false.

(* ensure_space(needed): EFORMERR on a const buffer; otherwise the abstract value is unchanged
   up to a reclaim, and on success there is room for needed+1 more bytes *)
Theorem buf_ensure_space_refines junk ok b n : buf_inv b -> 0 <= n < BUF_ALLOC_LIMIT ->
  exists st b', buf_ensure_space junk ok b n = Ok (st, b') /\ buf_inv b' /\
    (buf_abs b' = buf_abs b \/ buf_abs b' = bufs_trim (buf_abs b)) /\
    ((forall i, 0 <= junk i < 256) -> buf_bytes_ok (cb_mem b) -> buf_bytes_ok (cb_mem b')) /\
    ((st = ARES_EFORMERR /\ bs_const (buf_abs b) = true /\ b' = b) \/
     (st = ARES_SUCCESS /\ buf_not_const b /\ cb_hasabuf b' = true /\ cb_dlen b' + n < cb_alloc b') \/
     (st = ARES_ENOMEM /\ buf_not_const b /\
      (ok = false \/ BUF_ALLOC_LIMIT <= 2 * (cb_dlen b + n + 1)))).
Proof.
  intros Hi Hn. unfold buf_ensure_space. rewrite buf_is_const_eq. cbn [bind].
  destruct (cb_hasdata b && negb (cb_hasabuf b)) eqn:Ec; cbn [b2z Z.eqb negb].
  { exists ARES_EFORMERR, b. split; [reflexivity|]. split; [exact Hi|]. split; [left; reflexivity|].
    split; [auto|]. left. auto. }
  pose proof (buf_inv_mem_len b Hi) as [Hm Hl].
  assert (0 <= cb_alloc b < BUF_ALLOC_LIMIT /\ cb_dlen b <= cb_alloc b) as [Hal Hdl].
  { destruct Hi as (Ho & _ & [Hs | [Hs | Hs]]).
    - destruct Hs as (_ & _ & _ & Hd0 & Ha0). rewrite Ha0, Hd0. buf_consts. lia.
    - destruct Hs as (Hd & Ha & _). rewrite Hd, Ha in Ec. discriminate.
    - destruct Hs as (_ & _ & _ & Hd0 & Ha0). lia. }
  assert (0 <= cb_off b <= cb_dlen b) as Ho by (destruct Hi as (Ho & _); exact Ho).
  rewrite (buf_w64_small (n + 1)) by (buf_consts; lia).
  rewrite (buf_w64_small (cb_alloc b - cb_dlen b)) by (buf_consts; lia).
  destruct (Z.geb_spec (cb_alloc b - cb_dlen b) (n + 1)) as [Hfit | Hnofit].
  { exists ARES_SUCCESS, b. split; [reflexivity|]. split; [exact Hi|]. split; [left; reflexivity|].
    split; [auto|]. right. left. repeat split; try lia; try exact Ec.
    destruct Hi as (_ & _ & [Hs | [Hs | Hs]]).
    - destruct Hs as (_ & _ & _ & Hd0 & Ha0). lia.
    - destruct Hs as (Hd & Ha & _). rewrite Hd, Ha in Ec. discriminate.
    - destruct Hs as (_ & Ha & _). exact Ha. }
  destruct (buf_reclaim_refines b Hi) as (b1 & Hr & Hi1 & Habs1 & Ha1 & Hd1 & Hhd1 & Hha1 & Hb1).
  rewrite Hr. cbn [bind].
  pose proof (buf_inv_mem_len b1 Hi1) as [Hm1 Hl1].
  assert (0 <= cb_off b1 <= cb_dlen b1) as Ho1 by (destruct Hi1 as (Ho1 & _); exact Ho1).
  rewrite (buf_w64_small (cb_alloc b1 - cb_dlen b1)) by (buf_consts; lia).
  assert (buf_not_const b1) as Ec1 by (unfold buf_not_const; rewrite Hhd1, Hha1; exact Ec).
  destruct (Z.geb_spec (cb_alloc b1 - cb_dlen b1) (n + 1)) as [Hfit1 | Hnofit1].
  { exists ARES_SUCCESS, b1. split; [reflexivity|]. split; [exact Hi1|]. split; [right; exact Habs1|].
    split; [auto|]. right. left. repeat split; try lia; try exact Ec.
    destruct Hi1 as (_ & _ & [Hs | [Hs | Hs]]).
    - destruct Hs as (_ & _ & _ & Hd0 & Ha0). lia.
    - destruct Hs as (Hd & Ha & _). unfold buf_not_const in Ec1. rewrite Hd, Ha in Ec1. discriminate.
    - destruct Hs as (_ & Ha & _). exact Ha. }
  set (a0 := if cb_alloc b1 =? 0 then 16 else cb_alloc b1).
  assert (0 < a0 < BUF_ALLOC_LIMIT /\ cb_dlen b1 <= a0 /\ cb_alloc b1 <= a0 /\ (a0 = 16 \/ a0 = cb_alloc b1)) as (Ha0 & Hda0 & Haa0 & Ha0c).
  { unfold a0. destruct (Z.eqb_spec (cb_alloc b1) 0) as [He | Hne]; buf_consts; lia. }
  destruct (buf_grow_loop_ok 64 a0 (cb_dlen b1) (n + 1)) as (a & Hloop & Hg1 & Hg2 & Hg3 & Hg4);
    try (buf_consts; change (2 ^ 63) with 9223372036854775808; lia).
  rewrite Hloop. cbn [bind].
  unfold buf_alloc_answer.
  destruct (ok && (a <? BUF_ALLOC_LIMIT)) eqn:Eans.
  - apply andb_true_iff in Eans. destruct Eans as [_ Ealim]. apply Z.ltb_lt in Ealim.
    eexists ARES_SUCCESS, _. split; [reflexivity|].
    assert (buf_zlen (cb_mem b1) = cb_alloc b1) as Hmz1.
    { destruct Hi1 as (_ & _ & [Hs | [Hs | Hs]]).
      - destruct Hs as (_ & _ & Hm0 & _ & Ha0'). rewrite Hm0, Ha0'. reflexivity.
      - destruct Hs as (Hd & Ha & _). unfold buf_not_const in Ec1. rewrite Hd, Ha in Ec1. discriminate.
      - destruct Hs as (_ & _ & Hz & _). exact Hz. }
    assert (buf_zlen (cb_mem b1 ++ buf_junk_block junk (buf_zlen (cb_mem b1)) a) = a) as Hnz.
    { rewrite buf_zlen_app, buf_junk_block_zlen by lia. lia. }
    split; [|split; [|split]].
    + destruct Hi1 as (_ & Ht1 & _). split; [exact Ho1|]. split; [exact Ht1|].
      right. right. unfold buf_shape_dyn. cbn [cb_hasdata cb_hasabuf cb_mem cb_dlen cb_alloc].
      repeat split; lia.
    + assert (buf_abs (mkBuf (cb_mem b1 ++ buf_junk_block junk (buf_zlen (cb_mem b1)) a) (cb_dlen b1) a (cb_off b1) (cb_tag b1) true true) = buf_abs b1) as Eabs.
      { apply buf_abs_same_data; try reflexivity.
        - unfold buf_data. cbn [cb_mem cb_dlen]. apply buf_take_app_l. lia.
        - cbn [cb_hasdata cb_hasabuf]. symmetry. exact Ec1. }
      rewrite Eabs. right. exact Habs1.
    + intros Hj Hb. cbn [cb_mem]. apply buf_bytes_ok_app; [apply Hb1, Hb | apply buf_junk_block_bytes, Hj].
    + right. left. cbn [cb_hasabuf cb_dlen cb_alloc]. repeat split; try lia. exact Ec.
  - exists ARES_ENOMEM, b1. split; [reflexivity|]. split; [exact Hi1|]. split; [right; exact Habs1|].
    split; [auto|]. right. right. split; [reflexivity|]. split; [exact Ec|].
    apply andb_false_iff in Eans. destruct Eans as [Eok | Elim]; [left; exact Eok|].
    right. apply Z.ltb_ge in Elim. destruct Hg4 as [Hg4 | Hg4]; [|lia].
    destruct Ha0c as [Ha16 | Haeq]; [buf_consts; lia|]. lia.
Qed.

(* ------------------------------------------------------------------------------------- *)
(* append                                                                                  *)
(* ------------------------------------------------------------------------------------- *)

(* writing [bytes] behind the data of a dynamic buffer with enough room *)
Lemma buf_write_tail_abs b1 bytes :
  buf_inv b1 -> cb_hasabuf b1 = true -> cb_dlen b1 + buf_zlen bytes < cb_alloc b1 ->
  let b' := mkBuf (buf_mem_write (cb_mem b1) (cb_dlen b1) bytes) (cb_dlen b1 + buf_zlen bytes)
                  (cb_alloc b1) (cb_off b1) (cb_tag b1) (cb_hasdata b1) (cb_hasabuf b1) in
  buf_inv b' /\ buf_abs b' = bufs_app (buf_abs b1) bytes /\
  (buf_bytes_ok (cb_mem b1) -> buf_bytes_ok bytes -> buf_bytes_ok (cb_mem b')).
Proof.
  intros Hi Ha Hroom b'.
  pose proof (buf_inv_mem_len b1 Hi) as [Hm Hl].
  pose proof (buf_data_zlen b1 Hi) as Hdz.
  pose proof (buf_zlen_nonneg bytes) as Hbn.
  destruct Hi as (Ho & Ht & Hs).
  assert (buf_shape_dyn b1) as Hdyn.
  { destruct Hs as [Hs | [Hs | Hs]]; [destruct Hs as (_ & Ha' & _); congruence | destruct Hs as (_ & Ha' & _); congruence | exact Hs]. }
  destruct Hdyn as (Hd & _ & Hmz & Hda & Hal).
  assert (buf_zlen (buf_take (cb_dlen b1) (cb_mem b1)) = cb_dlen b1) as Htz by (apply buf_take_zlen; lia).
  assert (buf_data b' = buf_data b1 ++ bytes) as Hdata.
  { unfold buf_data, b'. cbn [cb_mem cb_dlen]. unfold buf_mem_write.
    rewrite buf_take_app_r by lia. rewrite Htz.
    replace (cb_dlen b1 + buf_zlen bytes - cb_dlen b1) with (buf_zlen bytes) by lia.
    rewrite buf_take_app_exact by reflexivity. reflexivity. }
  split; [|split].
  - split; [cbn [cb_off cb_dlen b']; lia|]. split; [exact Ht|].
    right. right. unfold buf_shape_dyn, b'. cbn [cb_hasdata cb_hasabuf cb_mem cb_dlen cb_alloc].
    assert (buf_zlen (buf_mem_write (cb_mem b1) (cb_dlen b1) bytes) = cb_alloc b1) as Hz.
    { unfold buf_mem_write. rewrite !buf_zlen_app, Htz. rewrite buf_drop_zlen by lia. lia. }
    repeat split; try assumption; lia.
  - unfold buf_abs, bufs_app. cbn [bs_pre bs_post bs_tag bs_const].
    unfold buf_consumed, buf_remaining. rewrite Hdata. unfold b'. cbn [cb_off cb_tag cb_hasdata cb_hasabuf].
    f_equal.
    + apply buf_take_app_l. lia.
    + apply buf_drop_app_l. lia.
  - intros Hb Hbytes. unfold b'. cbn [cb_mem]. unfold buf_mem_write.
    apply buf_bytes_ok_app; [apply buf_bytes_ok_take, Hb|].
    apply buf_bytes_ok_app; [exact Hbytes | apply buf_bytes_ok_drop, Hb].
Qed.

(* ares_buf_append: success appends exactly the bytes at the back of the remaining bytes;
   ENOMEM leaves the abstract value unchanged (up to a reclaim); never UB *)
Theorem buf_append_refines junk ok b bytes : buf_inv b -> buf_zlen bytes < BUF_ALLOC_LIMIT ->
  exists st b', buf_append junk ok b bytes = Ok (st, b') /\ buf_inv b' /\
    In (st, buf_abs b') (bufs_append_alts (buf_abs b) bytes) /\
    ((forall i, 0 <= junk i < 256) -> buf_bytes_ok (cb_mem b) -> buf_bytes_ok bytes -> buf_bytes_ok (cb_mem b')) /\
    (st = ARES_ENOMEM -> ok = false \/ BUF_ALLOC_LIMIT <= 2 * (cb_dlen b + buf_zlen bytes + 1)).
Proof.
  intros Hi Hlen. unfold buf_append, bufs_append_alts.
  pose proof (buf_zlen_nonneg bytes) as Hbn.
  destruct (Z.eqb_spec (buf_zlen bytes) 0) as [He | Hne].
  { exists ARES_SUCCESS, b. split; [reflexivity|]. split; [exact Hi|]. split; [left; reflexivity|].
    split; [auto|]. intros H. discriminate H. }
  destruct (buf_ensure_space_refines junk ok b (buf_zlen bytes) Hi) as (st & b1 & He & Hi1 & Habs & Hbytes & Hcases); [lia|].
  rewrite He. cbn [bind fst snd].
  destruct Hcases as [(Hst & Hc & Hb) | [(Hst & Hnc & Ha1 & Hroom) | (Hst & Hnc & Hwhy)]].
  - subst st b1. cbn [Z.eqb negb ARES_EFORMERR ARES_SUCCESS].
    exists ARES_EFORMERR, b. split; [reflexivity|]. split; [exact Hi|]. split.
    + rewrite Hc. left. reflexivity.
    + split; [auto|]. intros H. discriminate H.
  - subst st. cbn [Z.eqb negb ARES_SUCCESS].
    replace (negb (cb_hasabuf b1)) with false by (rewrite Ha1; reflexivity).
    pose proof (buf_inv_mem_len b1 Hi1) as [Hm1 Hl1].
    assert (buf_zlen (cb_mem b1) = cb_alloc b1) as Hmz1.
    { destruct Hi1 as (_ & _ & [Hs | [Hs | Hs]]).
      - destruct Hs as (_ & Ha' & _). congruence.
      - destruct Hs as (_ & Ha' & _). congruence.
      - destruct Hs as (_ & _ & Hz & _). exact Hz. }
    replace (buf_zlen (cb_mem b1) <? cb_dlen b1 + buf_zlen bytes) with false by (symmetry; apply Z.ltb_ge; lia).
    assert (0 <= cb_dlen b1) as Hd0 by (destruct Hi1 as (Ho1 & _); lia).
    rewrite buf_w64_small by (buf_consts; lia).
    destruct (buf_write_tail_abs b1 bytes Hi1 Ha1 Hroom) as (Hi' & Habs' & Hb').
    eexists ARES_SUCCESS, _. split; [reflexivity|]. split; [exact Hi'|]. split.
    + replace (bs_const (buf_abs b)) with false by (symmetry; exact Hnc).
      rewrite Habs'. destruct Habs as [Habs | Habs]; rewrite Habs; [left | right; left]; reflexivity.
    + split; [|intros H; discriminate H]. intros Hj Hb Hbs. apply Hb'; [apply Hbytes; assumption | exact Hbs].
  - subst st. cbn [Z.eqb negb ARES_ENOMEM ARES_SUCCESS].
    exists ARES_ENOMEM, b1. split; [reflexivity|]. split; [exact Hi1|]. split.
    + replace (bs_const (buf_abs b)) with false by (symmetry; exact Hnc).
      destruct Habs as [Habs | Habs]; rewrite Habs; [right; right; left | right; right; right; left]; reflexivity.
    + split; [|intros _; exact Hwhy]. intros Hj Hb Hbs. apply Hbytes; assumption.
Qed.

(* ------------------------------------------------------------------------------------- *)
(* The other append entry points                                                           *)
(* ------------------------------------------------------------------------------------- *)
Lemma buf_be16_bytes_spec v : [Z.land (Z.shiftr v 8) 255; Z.land v 255] = bufs_be_bytes 2 v.
Proof.
  cbn [bufs_be_bytes app]. rewrite !buf_land_255. rewrite Z.shiftr_div_pow2 by lia.
  change (2 ^ 8) with 256. reflexivity.
Qed.

Lemma buf_be32_bytes_spec v :
  [Z.land (Z.shiftr v 24) 255; Z.land (Z.shiftr v 16) 255; Z.land (Z.shiftr v 8) 255; Z.land v 255]
  = bufs_be_bytes 4 v.
Proof.
  cbn [bufs_be_bytes app]. rewrite !buf_land_255. rewrite !Z.shiftr_div_pow2 by lia.
  change (2 ^ 8) with 256. change (2 ^ 16) with (256 * 256). change (2 ^ 24) with (256 * 256 * 256).
  rewrite <- !Z.div_div by lia. reflexivity.
Qed.

Lemma bufs_be_bytes_ok k v : buf_bytes_ok (bufs_be_bytes k v).
Proof.
  revert v. induction k as [|k IH]; intros v; cbn [bufs_be_bytes]; [constructor|].
  apply buf_bytes_ok_app; [apply IH|]. constructor; [|constructor].
  apply Z.mod_pos_bound. lia.
Qed.

Lemma bufs_be_bytes_zlen k v : buf_zlen (bufs_be_bytes k v) = Z.of_nat k.
Proof.
  revert v. induction k as [|k IH]; intros v; cbn [bufs_be_bytes]; [reflexivity|].
  rewrite buf_zlen_app, IH. unfold buf_zlen. simpl length. lia.
Qed.

Lemma bufs_be_value_app acc l x : bufs_be_value acc (l ++ [x]) = bufs_be_value acc l * 256 + x.
Proof. revert acc. induction l as [|y l IH]; intros acc; cbn [bufs_be_value app]; [reflexivity | apply IH]. Qed.

(* decoding is the inverse of encoding: fetch_be16/32 after append_be16/32 returns the value *)
Theorem bufs_be_roundtrip k v : 0 <= v -> bufs_be_value 0 (bufs_be_bytes k v) = v mod 256 ^ Z.of_nat k.
Proof.
  revert v. induction k as [|k IH]; intros v Hv.
  - cbn. symmetry. apply Z.mod_1_r.
  - cbn [bufs_be_bytes]. rewrite bufs_be_value_app. rewrite IH by (apply Z.div_pos; lia).
    rewrite Nat2Z.inj_succ, Z.pow_succ_r by lia.
    rewrite (Z.rem_mul_r v 256 (256 ^ Z.of_nat k)) by (try lia; apply Z.pow_pos_nonneg; lia). lia.
Qed.

(* the encoding is the inverse of decoding on byte strings *)
Theorem bufs_be_bytes_of_value l : buf_bytes_ok l ->
  bufs_be_bytes (length l) (bufs_be_value 0 l) = l.
Proof.
  intros Hb. induction l as [|x l IH] using rev_ind; [reflexivity|].
  apply buf_bytes_ok_app_inv in Hb. destruct Hb as [Hl Hx]. inversion Hx as [|x0 l0 Hxr _]; subst.
  rewrite app_length. cbn [length]. rewrite Nat.add_1_r. cbn [bufs_be_bytes].
  rewrite bufs_be_value_app.
  replace ((bufs_be_value 0 l * 256 + x) / 256) with (bufs_be_value 0 l)
    by (rewrite Z.div_add_l by lia; rewrite Z.div_small by lia; lia).
  rewrite IH by exact Hl. f_equal.
  rewrite Z.add_comm, Z.mod_add by lia. rewrite Z.mod_small by lia. reflexivity.
Qed.

Theorem buf_append_be16_refines junk ok b v : buf_inv b ->
  exists st b', buf_append_be16 junk ok b v = Ok (st, b') /\ buf_inv b' /\
    In (st, buf_abs b') (bufs_append_alts (buf_abs b) (bufs_be_bytes 2 v)) /\
    ((forall i, 0 <= junk i < 256) -> buf_bytes_ok (cb_mem b) -> buf_bytes_ok (cb_mem b')).
Proof.
  intros Hi. unfold buf_append_be16. rewrite buf_be16_bytes_spec.
  destruct (buf_append_refines junk ok b (bufs_be_bytes 2 v) Hi) as (st & b' & He & Hi' & Hin & Hb & _).
  { rewrite bufs_be_bytes_zlen. buf_consts. lia. }
  exists st, b'. split; [exact He|]. split; [exact Hi'|]. split; [exact Hin|].
  intros Hj Hm. apply Hb; [exact Hj | exact Hm | apply bufs_be_bytes_ok].
Qed.

Theorem buf_append_be32_refines junk ok b v : buf_inv b ->
  exists st b', buf_append_be32 junk ok b v = Ok (st, b') /\ buf_inv b' /\
    In (st, buf_abs b') (bufs_append_alts (buf_abs b) (bufs_be_bytes 4 v)) /\
    ((forall i, 0 <= junk i < 256) -> buf_bytes_ok (cb_mem b) -> buf_bytes_ok (cb_mem b')).
Proof.
  intros Hi. unfold buf_append_be32. rewrite buf_be32_bytes_spec.
  destruct (buf_append_refines junk ok b (bufs_be_bytes 4 v) Hi) as (st & b' & He & Hi' & Hin & Hb & _).
  { rewrite bufs_be_bytes_zlen. buf_consts. lia. }
  exists st, b'. split; [exact He|]. split; [exact Hi'|]. split; [exact Hin|].
  intros Hj Hm. apply Hb; [exact Hj | exact Hm | apply bufs_be_bytes_ok].
Qed.

(* C14: an allocation failure inside an append reports ARES_ENOMEM and leaves the remaining
   bytes and the tagged region unchanged (positions may have been shifted by the reclaim) *)
Lemma bufs_trim_post s : bs_post (bufs_trim s) = bs_post s.
Proof. unfold bufs_trim. destruct (bs_const s); [reflexivity|]. destruct (bs_tag s); reflexivity. Qed.

Lemma bufs_trim_tagged s : (match bs_tag s with Some t => 0 <= t | None => True end) ->
  bufs_tagged (bufs_trim s) = bufs_tagged s.
Proof.
  intros Ht. unfold bufs_trim, bufs_tagged. destruct (bs_const s); [reflexivity|].
  destruct (bs_tag s) as [t|]; cbn [bs_tag bs_pre]; [|reflexivity]. apply buf_drop_0. lia.
Qed.

Lemma buf_abs_tag_nonneg b : buf_inv b -> match bs_tag (buf_abs b) with Some t => 0 <= t | None => True end.
Proof.
  intros Hi. cbn [buf_abs bs_tag]. destruct (Z.eqb_spec (cb_tag b) BUF_SIZE_MAX) as [He | Hne]; [exact I|].
  pose proof (buf_inv_tag_ne b Hi Hne). lia.
Qed.

Theorem buf_append_alloc_fail_atomic junk ok b bytes st b' :
  buf_inv b -> buf_zlen bytes < BUF_ALLOC_LIMIT ->
  buf_append junk ok b bytes = Ok (st, b') -> st = ARES_ENOMEM ->
  buf_inv b' /\ buf_remaining b' = buf_remaining b /\
  bufs_tagged (buf_abs b') = bufs_tagged (buf_abs b).
Proof.
  intros Hi Hl He Hst.
  destruct (buf_append_refines junk ok b bytes Hi Hl) as (st0 & b0 & He0 & Hi0 & Hin & _).
  rewrite He in He0. injection He0 as <- <-.
  split; [exact Hi0|].
  change (buf_remaining b') with (bs_post (buf_abs b')). change (buf_remaining b) with (bs_post (buf_abs b)).
  unfold bufs_append_alts in Hin.
  destruct (buf_zlen bytes =? 0); [destruct Hin as [Hin | []]; injection Hin as Hs _; subst st; discriminate|].
  destruct (bs_const (buf_abs b)); [destruct Hin as [Hin | []]; injection Hin as Hs _; subst st; discriminate|].
  destruct Hin as [Hin | [Hin | [Hin | [Hin | []]]]];
    pose proof (f_equal fst Hin) as Hs; pose proof (f_equal snd Hin) as Ha; cbn [fst snd] in Hs, Ha;
    subst st; try discriminate.
  - rewrite <- Ha. tauto.
  - rewrite <- Ha, bufs_trim_post, bufs_trim_tagged by (apply buf_abs_tag_nonneg; exact Hi). tauto.
Qed.

Theorem buf_ensure_space_alloc_fail_atomic junk ok b n st b' :
  buf_inv b -> 0 <= n < BUF_ALLOC_LIMIT ->
  buf_ensure_space junk ok b n = Ok (st, b') -> st = ARES_ENOMEM ->
  buf_inv b' /\ buf_remaining b' = buf_remaining b /\ bufs_tagged (buf_abs b') = bufs_tagged (buf_abs b).
Proof.
  intros Hi Hn He Hst.
  destruct (buf_ensure_space_refines junk ok b n Hi Hn) as (st0 & b0 & He0 & Hi0 & Habs & _).
  rewrite He in He0. injection He0 as <- <-.
  split; [exact Hi0|].
  change (buf_remaining b') with (bs_post (buf_abs b')). change (buf_remaining b) with (bs_post (buf_abs b)).
  destruct Habs as [Ha | Ha]; rewrite Ha; [tauto|].
  rewrite bufs_trim_post, bufs_trim_tagged by (apply buf_abs_tag_nonneg; exact Hi). tauto.
Qed.

(* ------------------------------------------------------------------------------------- *)
(* The duplicating fetches                                                                 *)
(* ------------------------------------------------------------------------------------- *)
Lemma buf_advance_ok b n : buf_inv b -> 0 <= n <= cb_dlen b - cb_off b ->
  buf_consume b n = Ok (ARES_SUCCESS, buf_with_off b (cb_off b + n)) /\
  buf_inv (buf_with_off b (cb_off b + n)) /\
  buf_abs (buf_with_off b (cb_off b + n)) = bufs_advance (buf_abs b) n.
Proof.
  intros Hi Hn. rewrite buf_consume_ok by (try exact Hi; lia).
  replace (cb_dlen b - cb_off b <? n) with false by (symmetry; apply Z.ltb_ge; lia).
  split; [reflexivity|]. split; [|apply buf_advance_abs; assumption].
  destruct Hi as (Ho & Ht & Hs). apply buf_inv_with_off; [split; [exact Ho | split; [exact Ht | exact Hs]] | lia |].
  destruct Ht as [Ht | Ht]; [left; exact Ht | right; lia].
Qed.

Lemma buf_fetch_guard b n : buf_inv b ->
  ((n =? 0) || (snd (buf_fetch b) <? n)) = ((n =? 0) || (bufs_len (buf_abs b) <? n)).
Proof.
  intros Hi. rewrite buf_fetch_ok by exact Hi. cbn [snd]. unfold bufs_len.
  rewrite buf_abs_post, buf_remaining_zlen by exact Hi. reflexivity.
Qed.

Theorem buf_fetch_bytes_dup_refines ok b n nt : buf_inv b -> 0 <= n ->
  exists st b' out, buf_fetch_bytes_dup ok b n nt = Ok (st, b', out) /\ buf_inv b' /\
                    cb_mem b' = cb_mem b /\
                    (st, buf_abs b', out) = bufs_fetch_dup ok (buf_abs b) n nt.
Proof.
  intros Hi Hn. unfold buf_fetch_bytes_dup, bufs_fetch_dup.
  rewrite buf_fetch_guard by exact Hi.
  destruct ((n =? 0) || (bufs_len (buf_abs b) <? n)) eqn:Eg.
  - exists ARES_EBADRESP, b, []. auto.
  - destruct ok; cbn [negb].
    2:{ exists ARES_ENOMEM, b, []. auto. }
    apply orb_false_iff in Eg. destruct Eg as [E0 Elt].
    apply Z.eqb_neq in E0. apply Z.ltb_ge in Elt. unfold bufs_len in Elt.
    rewrite buf_abs_post, buf_remaining_zlen in Elt by exact Hi.
    rewrite buf_read_remaining by (try exact Hi; lia). cbn [bind].
    destruct (buf_advance_ok b n Hi) as (Hc & Hi' & Ha); [lia|]. rewrite Hc. cbn [bind fst snd].
    eexists _, _, _. split; [reflexivity|]. split; [exact Hi'|]. split; [reflexivity|].
    rewrite Ha, buf_abs_post. reflexivity.
Qed.

Theorem buf_fetch_str_dup_refines ok b n : buf_inv b -> 0 <= n ->
  exists st b' out, buf_fetch_str_dup ok b n = Ok (st, b', out) /\ buf_inv b' /\
                    cb_mem b' = cb_mem b /\
                    (st, buf_abs b', out) = bufs_fetch_str_dup ok (buf_abs b) n.
Proof.
  intros Hi Hn. unfold buf_fetch_str_dup, bufs_fetch_str_dup.
  rewrite buf_fetch_guard by exact Hi.
  destruct ((n =? 0) || (bufs_len (buf_abs b) <? n)) eqn:Eg.
  - exists ARES_EBADRESP, b, []. auto.
  - apply orb_false_iff in Eg. destruct Eg as [E0 Elt].
    apply Z.eqb_neq in E0. apply Z.ltb_ge in Elt. unfold bufs_len in Elt.
    rewrite buf_abs_post, buf_remaining_zlen in Elt by exact Hi.
    rewrite buf_read_remaining by (try exact Hi; lia). cbn [bind]. rewrite buf_abs_post.
    destruct (forallb buf_isprint (buf_take n (buf_remaining b))); cbn [negb].
    2:{ exists ARES_EBADSTR, b, []. auto. }
    destruct ok; cbn [negb].
    2:{ exists ARES_ENOMEM, b, []. auto. }
    destruct (buf_advance_ok b n Hi) as (Hc & Hi' & Ha); [lia|]. rewrite Hc. cbn [bind fst snd].
    eexists _, _, _. split; [reflexivity|]. split; [exact Hi'|]. split; [reflexivity|].
    rewrite Ha. reflexivity.
Qed.

(* the state of a freshly created buffer *)
Lemma buf_empty_inv : buf_inv buf_empty.
Proof.
  unfold buf_inv, buf_empty. cbn. split; [lia|]. split; [left; reflexivity|]. left.
  unfold buf_shape_fresh. cbn. auto.
Qed.

Lemma buf_empty_abs : buf_abs buf_empty = bufs_create.
Proof. reflexivity. Qed.

Lemma buf_create_eq ok : buf_create ok = if ok then Some buf_empty else None.
Proof. reflexivity. Qed.

(* fetch_bytes_into_buf with a freshly created destination: the destination then holds exactly
   the fetched bytes, or the allocation failed and nothing changed *)
Theorem buf_fetch_bytes_into_buf_refines junk ok b n : buf_inv b -> 0 <= n ->
  exists st b' d', buf_fetch_bytes_into_buf junk ok b buf_empty n = Ok (st, b', d') /\ buf_inv b' /\
    buf_inv d' /\ cb_mem b' = cb_mem b /\
    ((st = ARES_EBADRESP /\ ((n =? 0) || (bufs_len (buf_abs b) <? n)) = true /\ b' = b /\ buf_remaining d' = []) \/
     (st = ARES_SUCCESS /\ ((n =? 0) || (bufs_len (buf_abs b) <? n)) = false /\
      buf_abs b' = bufs_advance (buf_abs b) n /\ buf_remaining d' = buf_take n (buf_remaining b)) \/
     (st = ARES_ENOMEM /\ ((n =? 0) || (bufs_len (buf_abs b) <? n)) = false /\ b' = b /\ buf_remaining d' = [])).
Proof.
  intros Hi Hn. unfold buf_fetch_bytes_into_buf.
  rewrite buf_fetch_guard by exact Hi.
  destruct ((n =? 0) || (bufs_len (buf_abs b) <? n)) eqn:Eg.
  - exists ARES_EBADRESP, b, buf_empty. split; [reflexivity|]. split; [exact Hi|]. split; [apply buf_empty_inv|].
    split; [reflexivity|]. left. auto.
  - apply orb_false_iff in Eg. destruct Eg as [E0 Elt].
    apply Z.eqb_neq in E0. apply Z.ltb_ge in Elt. unfold bufs_len in Elt.
    rewrite buf_abs_post, buf_remaining_zlen in Elt by exact Hi.
    pose proof (buf_inv_mem_len b Hi) as [_ Hlim].
    rewrite buf_read_remaining by (try exact Hi; lia). cbn [bind].
    assert (buf_zlen (buf_take n (buf_remaining b)) = n) as Htz
      by (apply buf_take_zlen; rewrite buf_remaining_zlen by exact Hi; lia).
    destruct (buf_append_refines junk ok buf_empty (buf_take n (buf_remaining b)) buf_empty_inv)
      as (st & d' & He & Hid & Hin & _ & _).
    { rewrite Htz. destruct Hi as (Ho & _). lia. }
    rewrite He. cbn [bind fst snd].
    unfold bufs_append_alts in Hin. rewrite Htz in Hin.
    replace (n =? 0) with false in Hin by (symmetry; apply Z.eqb_neq; exact E0).
    rewrite buf_empty_abs in Hin. cbn [bs_const bufs_create] in Hin.
    assert (bufs_trim bufs_create = bufs_create) as Htr by reflexivity. rewrite Htr in Hin.
    assert ((st = ARES_SUCCESS /\ buf_remaining d' = buf_take n (buf_remaining b)) \/
            (st = ARES_ENOMEM /\ buf_remaining d' = [])) as Hcase.
    { change (buf_remaining d') with (bs_post (buf_abs d')).
      destruct Hin as [Hin | [Hin | [Hin | [Hin | []]]]];
        pose proof (f_equal fst Hin) as Hs; pose proof (f_equal snd Hin) as Ha; cbn [fst snd] in Hs, Ha;
        rewrite <- Ha; [left | left | right | right]; split; auto. }
    destruct Hcase as [(Hst & Hrem) | (Hst & Hrem)]; subst st.
    + cbn [Z.eqb negb ARES_SUCCESS].
      destruct (buf_advance_ok b n Hi) as (Hc & Hi' & Ha); [lia|]. rewrite Hc. cbn [bind fst snd].
      eexists _, _, _. split; [reflexivity|]. split; [exact Hi'|]. split; [exact Hid|]. split; [reflexivity|].
      right. left. auto.
    + cbn [Z.eqb negb ARES_SUCCESS ARES_ENOMEM].
      eexists _, _, _. split; [reflexivity|]. split; [exact Hi|]. split; [exact Hid|]. split; [reflexivity|].
      right. right. auto.
Qed.

(* ------------------------------------------------------------------------------------- *)
(* Tag fetch                                                                               *)
(* ------------------------------------------------------------------------------------- *)
Lemma buf_tagged_read b : buf_inv b -> cb_tag b <> BUF_SIZE_MAX ->
  bs_tag (buf_abs b) = Some (cb_tag b) /\
  buf_zlen (bufs_tagged (buf_abs b)) = cb_off b - cb_tag b /\
  buf_read b (cb_tag b) (cb_off b - cb_tag b) = Ok (bufs_tagged (buf_abs b)).
Proof.
  intros Hi Hne. pose proof (buf_inv_tag_ne b Hi Hne) as Ht.
  pose proof (buf_consumed_zlen b Hi) as Hcz.
  assert (bs_tag (buf_abs b) = Some (cb_tag b)) as Est.
  { cbn [buf_abs bs_tag]. destruct (Z.eqb_spec (cb_tag b) BUF_SIZE_MAX); [contradiction | reflexivity]. }
  split; [exact Est|]. unfold bufs_tagged. rewrite Est, buf_abs_pre. split.
  - rewrite buf_drop_zlen by lia. lia.
  - destruct Hi as (Ho & Hrest).
    rewrite buf_read_data; [| split; [exact Ho | exact Hrest] | lia | lia | lia].
    f_equal. unfold buf_consumed. rewrite buf_drop_take by lia. reflexivity.
Qed.

Lemma buf_fresh_nothing_held b : buf_inv b -> cb_hasdata b = false -> bufs_nothing_held (buf_abs b) = true.
Proof.
  intros Hi Hd. pose proof (buf_data_zlen b Hi) as Hz.
  destruct Hi as (_ & _ & [Hs | [Hs | Hs]]).
  - destruct Hs as (_ & Ha & _ & Hdl & _). unfold bufs_nothing_held.
    rewrite buf_abs_pre, buf_abs_post, buf_consumed_remaining, Hz, Hdl, buf_abs_const_flag, Hd. reflexivity.
  - destruct Hs as (Hd' & _). congruence.
  - destruct Hs as (Hd' & _). congruence.
Qed.

Theorem buf_tag_fetch_bytes_refines b cap : buf_inv b -> 0 <= cap ->
  exists r, buf_tag_fetch_bytes b cap = Ok r /\ In r (bufs_tag_fetch_bytes_alts (buf_abs b) cap).
Proof.
  intros Hi Hc. unfold buf_tag_fetch_bytes, buf_tag_fetch, bufs_tag_fetch_bytes_alts.
  destruct (Z.eqb_spec (cb_tag b) BUF_SIZE_MAX) as [He | Hne]; cbn [orb].
  { exists (ARES_EFORMERR, []). split; [reflexivity|]. cbn [buf_abs bs_tag].
    rewrite He, Z.eqb_refl. left. reflexivity. }
  destruct (buf_tagged_read b Hi Hne) as (Est & Hz & Hr). rewrite Est.
  pose proof (buf_inv_tag_ne b Hi Hne) as Ht. pose proof (buf_inv_mem_len b Hi) as [_ Hl].
  destruct (cb_hasdata b) eqn:Hd; cbn [negb].
  2:{ exists (ARES_EFORMERR, []). split; [reflexivity|]. right.
      rewrite buf_fresh_nothing_held by assumption. left. reflexivity. }
  rewrite buf_w64_small by (destruct Hi as (Ho & _); buf_consts; lia). rewrite Hz.
  destruct (cap <? cb_off b - cb_tag b).
  { exists (ARES_EFORMERR, []). split; [reflexivity | left; reflexivity]. }
  destruct (Z.gtb_spec (cb_off b - cb_tag b) 0) as [Hgt | Hle].
  - rewrite Hr. cbn [bind]. eexists. split; [reflexivity | left; reflexivity].
  - eexists. split; [reflexivity|]. left. f_equal. apply buf_zlen_0. lia.
Qed.

Theorem buf_tag_fetch_string_refines b cap : buf_inv b -> 0 <= cap ->
  exists r, buf_tag_fetch_string b cap = Ok r /\ In r (bufs_tag_fetch_string_alts (buf_abs b) cap).
Proof.
  intros Hi Hc. unfold buf_tag_fetch_string, bufs_tag_fetch_string_alts.
  destruct (Z.eqb_spec cap 0) as [He | Hne].
  { exists (ARES_EFORMERR, []). split; [reflexivity | left; reflexivity]. }
  destruct (buf_tag_fetch_bytes_refines b (cap - 1) Hi) as (r & Hr & Hin); [lia|].
  rewrite Hr. cbn [bind].
  assert (forall x, In x (bufs_tag_fetch_bytes_alts (buf_abs b) (cap - 1)) ->
          In (if negb (fst x =? ARES_SUCCESS) then x
              else if negb (forallb buf_isprint (snd x)) then (ARES_EBADSTR, []) else x)
             (map (fun r0 => if negb (fst r0 =? ARES_SUCCESS) then r0
                             else if negb (forallb buf_isprint (snd r0)) then (ARES_EBADSTR, []) else r0)
                  (bufs_tag_fetch_bytes_alts (buf_abs b) (cap - 1)))) as Hmap
    by (intros x Hx; apply in_map_iff; exists x; split; [reflexivity | exact Hx]).
  specialize (Hmap r Hin).
  destruct (fst r =? ARES_SUCCESS) eqn:Es; cbn [negb] in *.
  - destruct (forallb buf_isprint (snd r)); cbn [negb] in *.
    + exists (ARES_SUCCESS, snd r). split; [reflexivity|].
      apply Z.eqb_eq in Es. destruct r as [st out]. cbn [fst snd] in *. subst st. exact Hmap.
    + exists (ARES_EBADSTR, []). split; [reflexivity | exact Hmap].
  - exists r. split; [reflexivity | exact Hmap].
Qed.

Theorem buf_tag_fetch_strdup_refines ok b : buf_inv b ->
  exists r, buf_tag_fetch_strdup ok b = Ok r /\ In r (bufs_tag_fetch_strdup_alts ok (buf_abs b)).
Proof.
  intros Hi. unfold buf_tag_fetch_strdup, buf_tag_fetch, bufs_tag_fetch_strdup_alts.
  destruct (Z.eqb_spec (cb_tag b) BUF_SIZE_MAX) as [He | Hne]; cbn [orb].
  { exists (ARES_EFORMERR, []). split; [reflexivity|]. cbn [buf_abs bs_tag].
    rewrite He, Z.eqb_refl. left. reflexivity. }
  destruct (buf_tagged_read b Hi Hne) as (Est & Hz & Hr). rewrite Est.
  pose proof (buf_inv_tag_ne b Hi Hne) as Ht. pose proof (buf_inv_mem_len b Hi) as [_ Hl].
  destruct (cb_hasdata b) eqn:Hd; cbn [negb].
  2:{ exists (ARES_EFORMERR, []). split; [reflexivity|]. right.
      rewrite buf_fresh_nothing_held by assumption. left. reflexivity. }
  rewrite buf_w64_small by (destruct Hi as (Ho & _); buf_consts; lia).
  rewrite Hr. cbn [bind].
  destruct (negb (forallb buf_isprint (bufs_tagged (buf_abs b)))).
  { eexists. split; [reflexivity | left; reflexivity]. }
  destruct (negb ok); eexists; (split; [reflexivity | left; reflexivity]).
Qed.

Lemma buf_const_inv bytes : 0 < buf_zlen bytes < BUF_ALLOC_LIMIT ->
  buf_inv (mkBuf bytes (buf_zlen bytes) 0 0 BUF_SIZE_MAX true false) /\
  buf_abs (mkBuf bytes (buf_zlen bytes) 0 0 BUF_SIZE_MAX true false) = bufs_create_const bytes.
Proof.
  intros Hz. split.
  - split; [cbn [cb_off cb_dlen]; lia|]. split; [left; reflexivity|]. right. left. unfold buf_shape_const.
    cbn [cb_hasdata cb_hasabuf cb_mem cb_dlen cb_alloc]. auto.
  - unfold buf_abs, bufs_create_const, buf_consumed, buf_remaining, buf_data. cbn [cb_mem cb_dlen cb_off cb_tag cb_hasdata cb_hasabuf].
    rewrite (buf_take_all (buf_zlen bytes) bytes) by lia. rewrite buf_take_0, buf_drop_0 by lia. reflexivity.
Qed.

Lemma buf_create_const_eq ok bytes :
  buf_create_const ok bytes =
  if (buf_zlen bytes =? 0) || negb ok then None
  else Some (mkBuf bytes (buf_zlen bytes) 0 0 BUF_SIZE_MAX true false).
Proof. unfold buf_create_const. destruct (buf_zlen bytes =? 0); [reflexivity|]. destruct ok; reflexivity. Qed.

Theorem buf_tag_fetch_constbuf_refines ok b : buf_inv b ->
  exists st nb, buf_tag_fetch_constbuf ok b = Ok (st, nb) /\
    In (st, match nb with None => [] | Some x => [buf_remaining x] end)
       (bufs_tag_fetch_constbuf_alts ok (buf_abs b)) /\
    match nb with None => True | Some x => buf_inv x end.
Proof.
  intros Hi. unfold buf_tag_fetch_constbuf, buf_tag_fetch, bufs_tag_fetch_constbuf_alts.
  destruct (Z.eqb_spec (cb_tag b) BUF_SIZE_MAX) as [He | Hne]; cbn [orb].
  { exists ARES_EFORMERR, None. split; [reflexivity|]. split; [|exact I]. cbn [buf_abs bs_tag].
    rewrite He, Z.eqb_refl. left. reflexivity. }
  destruct (buf_tagged_read b Hi Hne) as (Est & Hz & Hr). rewrite Est.
  pose proof (buf_inv_tag_ne b Hi Hne) as Ht. pose proof (buf_inv_mem_len b Hi) as [_ Hl].
  destruct (cb_hasdata b) eqn:Hd; cbn [negb].
  2:{ exists ARES_EFORMERR, None. split; [reflexivity|]. split; [|exact I]. right.
      rewrite buf_fresh_nothing_held by assumption. left. reflexivity. }
  rewrite buf_w64_small by (destruct Hi as (Ho & _); buf_consts; lia).
  rewrite Hr. cbn [bind]. rewrite buf_create_const_eq.
  destruct ((buf_zlen (bufs_tagged (buf_abs b)) =? 0) || negb ok) eqn:Eg.
  { exists ARES_ENOMEM, None. split; [reflexivity|]. split; [left; reflexivity | exact I]. }
  apply orb_false_iff in Eg. destruct Eg as [E0 _]. apply Z.eqb_neq in E0.
  destruct (buf_const_inv (bufs_tagged (buf_abs b))) as [Hci Hca].
  { destruct Hi as (Ho & _). lia. }
  eexists ARES_SUCCESS, (Some _). split; [reflexivity|]. split; [|exact Hci].
  left. f_equal. f_equal. change (buf_remaining ?x) with (bs_post (buf_abs x)). rewrite Hca. reflexivity.
Qed.

(* ------------------------------------------------------------------------------------- *)
(* append_start / append_finish, set_length                                                *)
(* ------------------------------------------------------------------------------------- *)
Theorem buf_append_via_start_refines junk ok b want bytes :
  buf_inv b -> 0 <= want < BUF_ALLOC_LIMIT -> buf_zlen bytes <= want ->
  exists nn k b', buf_append_via_start junk ok b want bytes = Ok (nn, k, b') /\ buf_inv b' /\
    In (mkBufObs nn [k] [], buf_abs b') (bufs_alts (buf_abs b) (BopAppendViaStart ok want bytes)) /\
    ((forall i, 0 <= junk i < 256) -> buf_bytes_ok (cb_mem b) -> buf_bytes_ok bytes -> buf_bytes_ok (cb_mem b')).
Proof.
  intros Hi Hw Hlen. unfold buf_append_via_start, buf_append_start. cbn [bufs_alts].
  pose proof (buf_zlen_nonneg bytes) as Hbn.
  destruct (Z.eqb_spec want 0) as [He | Hne]; cbn [bind fst snd orb].
  { exists 0, 0, b. split; [reflexivity|]. split; [exact Hi|]. split; [left; reflexivity | auto]. }
  destruct (buf_ensure_space_refines junk ok b want Hi Hw) as (st & b1 & He & Hi1 & Habs & Hbytes & Hcases).
  rewrite He. cbn [bind fst snd].
  destruct Hcases as [(Hst & Hc & Hb) | [(Hst & Hnc & Ha1 & Hroom) | (Hst & Hnc & Hwhy)]].
  - subst st b1. cbn [Z.eqb negb ARES_EFORMERR ARES_SUCCESS bind fst snd].
    exists 0, 0, b. split; [reflexivity|]. split; [exact Hi|]. rewrite Hc. split; [left; reflexivity | auto].
  - subst st. cbn [Z.eqb negb ARES_SUCCESS bind fst snd].
    pose proof (buf_inv_mem_len b1 Hi1) as [Hm1 Hl1].
    assert (0 <= cb_dlen b1) as Hd0 by (destruct Hi1 as (Ho1 & _); lia).
    assert (buf_zlen (cb_mem b1) = cb_alloc b1) as Hmz1.
    { destruct Hi1 as (_ & _ & [Hs | [Hs | Hs]]).
      - destruct Hs as (_ & Ha' & _). congruence.
      - destruct Hs as (_ & Ha' & _). congruence.
      - destruct Hs as (_ & _ & Hz & _). exact Hz. }
    assert (cb_alloc b1 < BUF_ALLOC_LIMIT) as Hal.
    { destruct Hi1 as (_ & _ & [Hs | [Hs | Hs]]).
      - destruct Hs as (_ & Ha' & _). congruence.
      - destruct Hs as (_ & Ha' & _). congruence.
      - destruct Hs as (_ & _ & _ & _ & Hz). exact Hz. }
    rewrite (buf_w64_small (cb_alloc b1 - cb_dlen b1)) by (buf_consts; lia).
    rewrite (buf_w64_small (cb_alloc b1 - cb_dlen b1 - 1)) by (buf_consts; lia).
    rewrite Z.min_l by lia.
    rewrite (buf_take_all (buf_zlen bytes) bytes) by lia.
    unfold buf_append_finish.
    replace (buf_zlen (cb_mem b1) <? cb_dlen b1 + buf_zlen bytes) with false by (symmetry; apply Z.ltb_ge; lia).
    unfold c_ares_buf_append_finish. cbn [bind].
    rewrite Z.add_comm. rewrite Z.mod_small by (buf_consts; lia).
    destruct (buf_write_tail_abs b1 bytes Hi1 Ha1) as (Hi' & Habs' & Hb'); [lia|].
    rewrite (Z.add_comm (buf_zlen bytes)).
    eexists 1, (buf_zlen bytes), _. split; [reflexivity|]. split; [exact Hi'|]. split.
    + replace (bs_const (buf_abs b)) with false by (symmetry; exact Hnc). cbn [orb].
      rewrite Habs'. unfold bufs_maybe_trim.
      destruct Habs as [Habs | Habs]; rewrite Habs; cbn [app]; [left | right; left]; reflexivity.
    + intros Hj Hb Hbs. apply Hb'; [apply Hbytes; assumption | exact Hbs].
  - subst st. cbn [Z.eqb negb ARES_ENOMEM ARES_SUCCESS bind fst snd].
    exists 0, 0, b1. split; [reflexivity|]. split; [exact Hi1|]. split.
    + replace (bs_const (buf_abs b)) with false by (symmetry; exact Hnc). cbn [orb].
      unfold bufs_maybe_trim. cbn [app].
      destruct Habs as [Habs | Habs]; rewrite Habs; [right; right; left | right; right; right; left]; reflexivity.
    + intros Hj Hb Hbs. apply Hbytes; assumption.
Qed.

Lemma buf_bytes_ok_repeat x n : 0 <= x < 256 -> buf_bytes_ok (repeat x n).
Proof. intros Hx. unfold buf_bytes_ok. apply Forall_forall. intros y Hy. apply repeat_spec in Hy. subst y. exact Hx. Qed.

Lemma buf_zlen_repeat {A} (x : A) n : buf_zlen (repeat x n) = Z.of_nat n.
Proof. unfold buf_zlen. rewrite repeat_length. reflexivity. Qed.

Theorem buf_set_length_fill_refines b len fill : buf_inv b -> 0 <= len ->
  exists st b', buf_set_length_fill b len fill = Ok (st, b') /\ buf_inv b' /\
    In (st, buf_abs b') (bufs_set_length_alts (buf_abs b) len fill) /\
    (0 <= fill < 256 -> buf_bytes_ok (cb_mem b) -> buf_bytes_ok (cb_mem b')) /\
    (* total: refused exactly when the buffer is const or len >= alloc_buf_len - offset *)
    (st = ARES_SUCCESS <-> (bs_const (buf_abs b) = false /\ len < cb_alloc b - cb_off b)).
Proof.
  intros Hi Hlen. unfold buf_set_length_fill, buf_set_length, bufs_set_length_alts.
  rewrite buf_is_const_eq. cbn [bind]. rewrite buf_abs_const_flag.
  unfold c_ares_buf_set_length.
  pose proof (buf_inv_mem_len b Hi) as [Hm Hl].
  assert (0 <= cb_off b <= cb_dlen b) as Ho by (destruct Hi as (Ho & _); exact Ho).
  destruct (cb_hasdata b && negb (cb_hasabuf b)) eqn:Ec; cbn [b2z Z.eqb negb bind fst snd ARES_EFORMERR ARES_SUCCESS].
  { rewrite buf_with_dlen_same. exists ARES_EFORMERR, b. split; [reflexivity|]. split; [exact Hi|].
    split; [left; reflexivity|]. split; [auto|]. split; [intros H; discriminate H | intros [H _]; discriminate H]. }
  assert (0 <= cb_alloc b < BUF_ALLOC_LIMIT /\ cb_off b <= cb_alloc b) as [Hal Hoa].
  { destruct Hi as (_ & _ & [Hs | [Hs | Hs]]).
    - destruct Hs as (_ & _ & _ & Hd0 & Ha0). rewrite Ha0. buf_consts. lia.
    - destruct Hs as (Hd & Ha & _). rewrite Hd, Ha in Ec. discriminate.
    - destruct Hs as (_ & _ & _ & Hd0 & Ha0). lia. }
  rewrite Z.mod_small by (buf_consts; lia).
  destruct (Z.geb_spec len (cb_alloc b - cb_off b)) as [Hge | Hlt]; cbn [bind fst snd Z.eqb negb ARES_EFORMERR ARES_SUCCESS].
  { rewrite buf_with_dlen_same. exists ARES_EFORMERR, b. split; [reflexivity|]. split; [exact Hi|].
    split; [right; left; reflexivity|]. split; [auto|]. split; [intros H; discriminate H | intros [_ H]; lia]. }
  rewrite Z.mod_small by (buf_consts; lia).
  cbn [buf_with_dlen cb_dlen cb_mem cb_alloc cb_off cb_tag cb_hasdata cb_hasabuf].
  assert (buf_shape_dyn b) as Hdyn.
  { destruct Hi as (_ & _ & [Hs | [Hs | Hs]]).
    - destruct Hs as (_ & _ & _ & Hd0 & Ha0). lia.
    - destruct Hs as (Hd & Ha & _). rewrite Hd, Ha in Ec. discriminate.
    - exact Hs. }
  destruct Hdyn as (Hd & Ha & Hmz & Hda & Halim).
  unfold bufs_len. rewrite buf_abs_post, buf_remaining_zlen by exact Hi.
  destruct (Z.gtb_spec (len + cb_off b - cb_dlen b) 0) as [Hext | Htrunc].
  - (* extension: the exposed bytes are filled *)
    replace (buf_zlen (cb_mem b) <? cb_dlen b + (len + cb_off b - cb_dlen b)) with false by (symmetry; apply Z.ltb_ge; lia).
    set (fillb := repeat fill (Z.to_nat (len + cb_off b - cb_dlen b))).
    assert (buf_zlen fillb = len + cb_off b - cb_dlen b) as Hfz by (unfold fillb; rewrite buf_zlen_repeat; lia).
    destruct (buf_write_tail_abs b fillb Hi Ha) as (Hi' & Habs' & Hb'); [lia|].
    rewrite Hfz in Hi', Habs', Hb'.
    replace (cb_dlen b + (len + cb_off b - cb_dlen b)) with (len + cb_off b) in Hi', Habs', Hb' by lia.
    eexists ARES_SUCCESS, _. split; [reflexivity|]. split; [exact Hi'|]. split; [|split].
    + left. rewrite Habs'. unfold bufs_app.
      replace (len <=? cb_dlen b - cb_off b) with false by (symmetry; apply Z.leb_gt; lia).
      rewrite buf_abs_const_flag, Ec. unfold fillb.
      replace (len + cb_off b - cb_dlen b) with (len - (cb_dlen b - cb_off b)) by lia. reflexivity.
    + intros Hf Hb. apply Hb'; [exact Hb | apply buf_bytes_ok_repeat; exact Hf].
    + split; [intros _; split; [reflexivity | lia] | reflexivity].
  - (* truncation *)
    eexists ARES_SUCCESS, _. split; [reflexivity|].
    set (b' := mkBuf (cb_mem b) (len + cb_off b) (cb_alloc b) (cb_off b) (cb_tag b) (cb_hasdata b) (cb_hasabuf b)).
    assert (buf_data b' = buf_take (len + cb_off b) (buf_data b)) as Hdata.
    { unfold buf_data, b'. cbn [cb_mem cb_dlen]. symmetry. apply buf_take_take. lia. }
    change (buf_with_dlen b (len + cb_off b)) with b'.
    split; [|split; [|split]].
    + destruct Hi as (_ & Ht & _). split; [unfold b'; cbn [cb_off cb_dlen]; lia|]. split; [exact Ht|].
      right. right. unfold buf_shape_dyn, b'. cbn [cb_hasdata cb_hasabuf cb_mem cb_dlen cb_alloc]. repeat split; try assumption; lia.
    + left. replace (len <=? cb_dlen b - cb_off b) with true by (symmetry; apply Z.leb_le; lia).
      assert (buf_consumed b' = buf_consumed b) as Hcon.
      { unfold buf_consumed. rewrite Hdata. unfold b'. cbn [cb_off]. apply buf_take_take. lia. }
      assert (buf_remaining b' = buf_take len (buf_remaining b)) as Hrem.
      { unfold buf_remaining. rewrite Hdata. unfold b'. cbn [cb_off]. rewrite buf_drop_take by lia. f_equal. lia. }
      change (buf_abs b') with (mkBufSpec (buf_consumed b') (buf_remaining b')
                                       (if cb_tag b =? BUF_SIZE_MAX then None else Some (cb_tag b))
                                       (cb_hasdata b && negb (cb_hasabuf b))).
      rewrite Hcon, Hrem, Ec. reflexivity.
    + intros _ Hb. exact Hb.
    + split; [intros _; split; [reflexivity | lia] | reflexivity].
Qed.

(* ------------------------------------------------------------------------------------- *)
(* consume_* family                                                                        *)
(* ------------------------------------------------------------------------------------- *)
Lemma buf_span_bounds p l : 0 <= buf_span p l <= buf_zlen l.
Proof.
  induction l as [|x l IH]; cbn [buf_span]; [unfold buf_zlen; simpl length; lia|].
  rewrite buf_zlen_cons. destruct (p x); lia.
Qed.

Lemma buf_scan_ok b : buf_inv b -> fst (buf_fetch b) = false ->
  buf_read b (cb_off b) (snd (buf_fetch b)) = Ok (buf_remaining b).
Proof.
  intros Hi Hf. rewrite buf_fetch_ok in Hf by exact Hi. rewrite buf_fetch_ok by exact Hi. cbn [fst snd] in *.
  apply Z.eqb_neq in Hf.
  rewrite buf_read_remaining by (try exact Hi; destruct Hi as (Ho & _); lia).
  f_equal. apply buf_take_all. rewrite buf_remaining_zlen by exact Hi. lia.
Qed.

Lemma buf_consume_ret_refines b i : buf_inv b -> 0 <= i <= cb_dlen b - cb_off b ->
  exists b', buf_consume_ret b i = Ok (i, b') /\ buf_inv b' /\ cb_mem b' = cb_mem b /\
             (i, buf_abs b') = bufs_consume_ret (buf_abs b) i.
Proof.
  intros Hi Hr. unfold buf_consume_ret, bufs_consume_ret.
  destruct (i >? 0).
  - destruct (buf_advance_ok b i Hi Hr) as (Hc & Hi' & Ha). rewrite Hc. cbn [bind snd].
    eexists. split; [reflexivity|]. split; [exact Hi'|]. split; [reflexivity|]. rewrite Ha. reflexivity.
  - exists b. auto.
Qed.

Lemma buf_remaining_empty b : buf_inv b -> fst (buf_fetch b) = true -> buf_remaining b = [].
Proof.
  intros Hi Hf. rewrite buf_fetch_ok in Hf by exact Hi. cbn [fst] in Hf. apply Z.eqb_eq in Hf.
  apply buf_zlen_0. rewrite buf_remaining_zlen by exact Hi. exact Hf.
Qed.

Ltac buf_scan_tac Hi :=
  let Hf := fresh "Hf" in
  destruct (fst (buf_fetch _)) eqn:Hf;
  [ rewrite (buf_remaining_empty _ Hi Hf) | rewrite (buf_scan_ok _ Hi Hf); cbn [bind] ].

Theorem buf_consume_whitespace_refines b inc : buf_inv b ->
  exists i b', buf_consume_whitespace b inc = Ok (i, b') /\ buf_inv b' /\ cb_mem b' = cb_mem b /\
               (i, buf_abs b') = bufs_whitespace (buf_abs b) inc.
Proof.
  intros Hi. unfold buf_consume_whitespace, bufs_whitespace. rewrite buf_abs_post.
  buf_scan_tac Hi.
  - exists 0, b. cbn [buf_span]. auto.
  - destruct (buf_consume_ret_refines b (buf_span (fun c => buf_is_whitespace c inc) (buf_remaining b)) Hi) as (b' & H).
    { rewrite <- buf_remaining_zlen by exact Hi. apply buf_span_bounds. }
    eexists _, b'. exact H.
Qed.

Theorem buf_consume_nonwhitespace_refines b : buf_inv b ->
  exists i b', buf_consume_nonwhitespace b = Ok (i, b') /\ buf_inv b' /\ cb_mem b' = cb_mem b /\
               (i, buf_abs b') = bufs_nonwhitespace (buf_abs b).
Proof.
  intros Hi. unfold buf_consume_nonwhitespace, bufs_nonwhitespace. rewrite buf_abs_post.
  buf_scan_tac Hi.
  - exists 0, b. cbn [buf_span]. auto.
  - destruct (buf_consume_ret_refines b (buf_span (fun c => negb (buf_is_whitespace c true)) (buf_remaining b)) Hi) as (b' & H).
    { rewrite <- buf_remaining_zlen by exact Hi. apply buf_span_bounds. }
    eexists _, b'. exact H.
Qed.

Theorem buf_consume_line_refines b inc : buf_inv b ->
  exists i b', buf_consume_line b inc = Ok (i, b') /\ buf_inv b' /\ cb_mem b' = cb_mem b /\
               (i, buf_abs b') = bufs_line (buf_abs b) inc.
Proof.
  intros Hi. unfold buf_consume_line, bufs_line, bufs_len. rewrite buf_abs_post.
  pose proof (buf_remaining_zlen b Hi) as Hrz.
  destruct (fst (buf_fetch b)) eqn:Hf.
  - rewrite (buf_remaining_empty b Hi Hf). cbn [buf_span]. change (buf_zlen (@nil Z)) with 0.
    replace (inc && (0 <? 0)) with false by (destruct inc; reflexivity).
    exists 0, b. auto.
  - rewrite (buf_scan_ok b Hi Hf). cbn [bind].
    rewrite buf_fetch_ok by exact Hi. cbn [snd]. rewrite Hrz.
    pose proof (buf_span_bounds (fun c => negb (c =? 10)) (buf_remaining b)) as Hsb.
    set (i0 := buf_span (fun c => negb (c =? 10)) (buf_remaining b)) in *.
    destruct (buf_consume_ret_refines b (if inc && (i0 <? cb_dlen b - cb_off b) then i0 + 1 else i0) Hi) as (b' & H).
    { destruct inc; cbn [andb]; [|lia]. destruct (Z.ltb_spec i0 (cb_dlen b - cb_off b)); lia. }
    eexists _, b'. exact H.
Qed.

Theorem buf_consume_charset_refines b cs : buf_inv b ->
  exists i b', buf_consume_charset b cs = Ok (i, b') /\ buf_inv b' /\ cb_mem b' = cb_mem b /\
               (i, buf_abs b') = bufs_charset (buf_abs b) cs.
Proof.
  intros Hi. unfold buf_consume_charset, bufs_charset. rewrite buf_abs_post.
  destruct (buf_zlen cs =? 0).
  - rewrite orb_true_r. exists 0, b. auto.
  - rewrite orb_false_r. buf_scan_tac Hi.
    + exists 0, b. cbn [buf_span]. auto.
    + destruct (buf_consume_ret_refines b (buf_span (buf_in_charset cs) (buf_remaining b)) Hi) as (b' & H).
      { rewrite <- buf_remaining_zlen by exact Hi. apply buf_span_bounds. }
      eexists _, b'. exact H.
Qed.

Theorem buf_consume_until_charset_refines b cs req : buf_inv b ->
  exists i b', buf_consume_until_charset b cs req = Ok (i, b') /\ buf_inv b' /\ cb_mem b' = cb_mem b /\
               (i, buf_abs b') = bufs_until_charset (buf_abs b) cs req.
Proof.
  intros Hi. unfold buf_consume_until_charset, bufs_until_charset, bufs_len. rewrite buf_abs_post.
  pose proof (buf_remaining_zlen b Hi) as Hrz. rewrite Hrz.
  rewrite buf_fetch_ok by exact Hi. cbn [fst snd].
  destruct ((cb_dlen b - cb_off b =? 0) || (buf_zlen cs =? 0)) eqn:Eg.
  - exists 0, b. auto.
  - apply orb_false_iff in Eg. destruct Eg as [E0 _].
    assert (fst (buf_fetch b) = false) as Hf by (rewrite buf_fetch_ok by exact Hi; exact E0).
    pose proof (buf_scan_ok b Hi Hf) as Hs. rewrite buf_fetch_ok in Hs by exact Hi. cbn [snd] in Hs.
    rewrite Hs. cbn [bind].
    pose proof (buf_span_bounds (fun c => negb (buf_in_charset cs c)) (buf_remaining b)) as Hsb.
    destruct (req && negb (buf_span (fun c => negb (buf_in_charset cs c)) (buf_remaining b) <? cb_dlen b - cb_off b)).
    + exists BUF_SIZE_MAX, b. auto.
    + destruct (buf_consume_ret_refines b (buf_span (fun c => negb (buf_in_charset cs c)) (buf_remaining b)) Hi) as (b' & H); [lia|].
      eexists _, b'. exact H.
Qed.

Theorem buf_begins_with_refines b data : buf_inv b ->
  buf_begins_with b data = Ok (bufs_begins_with (buf_abs b) data).
Proof.
  intros Hi. unfold buf_begins_with, bufs_begins_with, bufs_len. rewrite buf_abs_post.
  pose proof (buf_remaining_zlen b Hi) as Hrz. rewrite Hrz.
  rewrite buf_fetch_ok by exact Hi. cbn [fst snd].
  pose proof (buf_zlen_nonneg data) as Hdn.
  destruct (Z.eqb_spec (buf_zlen data) 0) as [He | Hne].
  - rewrite orb_true_r. reflexivity.
  - rewrite orb_false_r. cbn [orb].
    destruct (Z.eqb_spec (cb_dlen b - cb_off b) 0) as [E0 | E0].
    + replace (buf_zlen data >? cb_dlen b - cb_off b) with true by (symmetry; apply Z.gtb_lt; lia). reflexivity.
    + destruct (Z.gtb_spec (buf_zlen data) (cb_dlen b - cb_off b)) as [Hgt | Hle]; [reflexivity|].
      rewrite buf_read_remaining by (try exact Hi; lia). cbn [bind].
      destruct (buf_list_eqb (buf_take (buf_zlen data) (buf_remaining b)) data); reflexivity.
Qed.

(* ------------------------------------------------------------------------------------- *)
(* finish                                                                                  *)
(* ------------------------------------------------------------------------------------- *)
Lemma bufs_trim_pre_tagged s : bs_const s = false -> bs_pre (bufs_trim s) = bufs_tagged s.
Proof. intros Hc. unfold bufs_trim, bufs_tagged. rewrite Hc. destruct (bs_tag s); reflexivity. Qed.

(* finish_bin / finish_str hand out everything from the tag on (from the cursor when no tag is
   active): they return exactly the remaining bytes iff no tag lies before the cursor *)
Theorem buf_finish_refines junk ok b (str : bool) : buf_inv b ->
  exists r b', (if str then buf_finish_str junk ok b else buf_finish_bin junk ok b) = Ok (r, b') /\ buf_inv b' /\
    ((forall i, 0 <= junk i < 256) -> buf_bytes_ok (cb_mem b) -> buf_bytes_ok (cb_mem b')) /\
    In (match r with None => mkBufObs 0 [] [] | Some bytes => mkBufObs 1 [] [bytes] end,
        match r with None => buf_abs b' | Some _ => bufs_create end)
       (bufs_finish_alts str (buf_abs b)).
Proof.
  intros Hi.
  assert (exists r b', buf_finish_bin junk ok b = Ok (r, b') /\ buf_inv b' /\
    ((forall i, 0 <= junk i < 256) -> buf_bytes_ok (cb_mem b) -> buf_bytes_ok (cb_mem b')) /\
    match r with
    | None => (bs_const (buf_abs b) = true /\ b' = b) \/
              (bs_const (buf_abs b) = false /\ bufs_nothing_held (buf_abs b) = true /\ buf_abs b' = buf_abs b)
    | Some bytes => bs_const (buf_abs b) = false /\ bytes = bufs_tagged (buf_abs b) ++ bs_post (buf_abs b) /\
                    buf_zlen bytes < buf_zlen (cb_mem b')
    end) as Hbin.
  { unfold buf_finish_bin. rewrite buf_is_const_eq. cbn [bind]. rewrite <- buf_abs_const_flag.
    destruct (bs_const (buf_abs b)) eqn:Ec; cbn [b2z Z.eqb negb].
    { exists None, b. split; [reflexivity|]. split; [exact Hi|]. split; [auto|]. left. auto. }
    destruct (buf_reclaim_refines b Hi) as (b1 & Hr & Hi1 & Habs1 & Ha1 & Hd1 & Hhd1 & Hha1 & Hb1).
    rewrite Hr. cbn [bind].
    destruct (cb_hasabuf b1) eqn:Ha; cbn [negb bind fst snd Z.eqb ARES_SUCCESS].
    - (* allocated: hand out the block *)
      pose proof (buf_inv_mem_len b1 Hi1) as [Hm1 _].
      assert (0 <= cb_dlen b1) as Hd0 by (destruct Hi1 as (Ho1 & _); lia).
      rewrite buf_read_data by (try exact Hi1; lia). cbn [bind].
      exists (Some (buf_take (cb_dlen b1) (buf_drop 0 (buf_data b1)))), b1.
      split; [reflexivity|]. split; [exact Hi1|]. split; [intros _; exact Hb1|].
      split; [reflexivity|].
      rewrite buf_drop_0 by lia. rewrite buf_take_all by (rewrite buf_data_zlen by exact Hi1; lia).
      split.
      + rewrite <- buf_consumed_remaining. rewrite <- buf_abs_pre, <- buf_abs_post, Habs1.
        rewrite bufs_trim_post, bufs_trim_pre_tagged by exact Ec. reflexivity.
      + rewrite buf_data_zlen by exact Hi1.
        destruct Hi1 as (_ & _ & [Hs | [Hs | Hs]]).
        * destruct Hs as (_ & Ha' & _). congruence.
        * destruct Hs as (_ & Ha' & _). congruence.
        * destruct Hs as (_ & _ & Hz & Hlt & _). lia.
    - (* never allocated: ensure_space(1) *)
      assert (buf_shape_fresh b1) as Hfresh.
      { destruct Hi1 as (_ & _ & [Hs | [Hs | Hs]]); [exact Hs | | destruct Hs as (_ & Ha' & _); congruence].
        destruct Hs as (Hd' & Ha' & _). rewrite buf_abs_const_flag in Ec. rewrite <- Hhd1, Hd' in Ec.
        rewrite <- Hha1 in Ec. discriminate. }
      assert (bufs_trim (buf_abs b) = buf_abs b) as Htrim.
      { apply buf_shape_not_dyn_trim; [exact Hi | symmetry; exact Hha1]. }
      rewrite Htrim in Habs1.
      assert (bufs_nothing_held (buf_abs b) = true) as Hnh.
      { rewrite <- Habs1. apply buf_fresh_nothing_held; [exact Hi1 | destruct Hfresh as (Hd' & _); exact Hd']. }
      destruct (buf_ensure_space_refines junk ok b1 1 Hi1) as (st & b2 & He & Hi2 & Habs2 & Hbytes2 & Hcases); [buf_consts; lia|].
      rewrite He. cbn [bind fst snd].
      assert (buf_abs b2 = buf_abs b) as Habs2'.
      { destruct Habs2 as [H | H]; rewrite H, Habs1; [reflexivity | exact Htrim]. }
      destruct Hcases as [(Hst & Hc & _) | [(Hst & Hnc & Ha2 & Hroom) | (Hst & Hnc & _)]].
      + rewrite Habs1, Ec in Hc. discriminate.
      + subst st. cbn [Z.eqb negb ARES_SUCCESS].
        pose proof (buf_inv_mem_len b2 Hi2) as [Hm2 _].
        assert (0 <= cb_dlen b2) as Hd0 by (destruct Hi2 as (Ho2 & _); lia).
        rewrite buf_read_data by (try exact Hi2; lia). cbn [bind].
        eexists (Some _), b2. split; [reflexivity|]. split; [exact Hi2|].
        split; [intros Hj Hb; apply Hbytes2; [exact Hj | apply Hb1, Hb]|].
        split; [reflexivity|].
        rewrite buf_drop_0 by lia. rewrite buf_take_all by (rewrite buf_data_zlen by exact Hi2; lia).
        split.
        * rewrite <- buf_consumed_remaining. rewrite <- buf_abs_pre, <- buf_abs_post, Habs2'.
          unfold bufs_nothing_held in Hnh. apply andb_true_iff in Hnh. destruct Hnh as [Hz _].
          apply Z.eqb_eq in Hz. apply buf_zlen_0 in Hz. apply app_eq_nil in Hz. destruct Hz as [Hp Hq].
          rewrite Hp, Hq. unfold bufs_tagged. rewrite Hp. destruct (bs_tag (buf_abs b)) as [t|]; [|reflexivity].
          unfold buf_drop. rewrite skipn_nil. reflexivity.
        * rewrite buf_data_zlen by exact Hi2.
          destruct Hi2 as (_ & _ & [Hs | [Hs | Hs]]).
          -- destruct Hs as (_ & Ha' & _). congruence.
          -- destruct Hs as (_ & Ha' & _). congruence.
          -- destruct Hs as (_ & _ & Hz & Hlt & _). lia.
      + subst st. cbn [Z.eqb negb ARES_SUCCESS ARES_ENOMEM].
        exists None, b2. split; [reflexivity|]. split; [exact Hi2|].
        split; [intros Hj Hb; apply Hbytes2; [exact Hj | apply Hb1, Hb]|].
        right. auto. }
  destruct Hbin as (r & b' & He & Hi' & Hb' & Hr).
  destruct str.
  - unfold buf_finish_str. rewrite He. cbn [bind fst snd].
    destruct r as [bytes|].
    + destruct Hr as (Hc & Hbytes & Hlt).
      replace (buf_zlen (cb_mem b') <=? buf_zlen bytes) with false by (symmetry; apply Z.leb_gt; lia).
      eexists (Some _), b'. split; [reflexivity|]. split; [exact Hi'|]. split; [exact Hb'|].
      unfold bufs_finish_alts. rewrite Hc. left. rewrite Hbytes. reflexivity.
    + exists None, b'. split; [reflexivity|]. split; [exact Hi'|]. split; [exact Hb'|].
      unfold bufs_finish_alts. destruct Hr as [(Hc & Hbb) | (Hc & Hnh & Hab)].
      * rewrite Hc. subst b'. left. reflexivity.
      * rewrite Hc, Hnh, Hab. right. left. reflexivity.
  - rewrite He. exists r, b'. split; [reflexivity|]. split; [exact Hi'|]. split; [exact Hb'|].
    unfold bufs_finish_alts. destruct r as [bytes|].
    + destruct Hr as (Hc & Hbytes & _). rewrite Hc, Hbytes. left. reflexivity.
    + destruct Hr as [(Hc & Hbb) | (Hc & Hnh & Hab)].
      * rewrite Hc. subst b'. left. reflexivity.
      * rewrite Hc, Hnh, Hab. right. left. reflexivity.
Qed.

(* ------------------------------------------------------------------------------------- *)
(* append_num_dec / append_num_hex                                                         *)
(* ------------------------------------------------------------------------------------- *)
Lemma bufs_num_width_pos f base v : 1 <= bufs_num_width f base v.
Proof.
  revert v. induction f as [|f IH]; intros v; cbn [bufs_num_width]; [lia|].
  destruct (v <? base); [lia|]. specialize (IH (v / base)). lia.
Qed.

(* the counting loop of ares_count_digits: never out of fuel below 2^64, = the width *)
Lemma buf_count_digits_loop_ok base : 2 <= base -> forall f n d,
  0 <= n < 2 ^ Z.of_nat f ->
  buf_count_digits_loop (S f) base n d = Ok (d + (if n =? 0 then 0 else bufs_num_width f base n)).
Proof.
  intros Hb. induction f as [|f IH]; intros n d Hn.
  - change (2 ^ Z.of_nat 0) with 1 in Hn. assert (n = 0) as -> by lia. cbn. f_equal. lia.
  - change (buf_count_digits_loop (S (S f)) base n d)
      with (if n >? 0 then buf_count_digits_loop (S f) base (n / base) (d + 1) else Ok d).
    destruct (Z.gtb_spec n 0) as [Hgt | Hle].
    + replace (n =? 0) with false by (symmetry; apply Z.eqb_neq; lia).
      rewrite Nat2Z.inj_succ, Z.pow_succ_r in Hn by lia.
      assert (0 <= n / base < 2 ^ Z.of_nat f) as Hq.
      { split; [apply Z.div_pos; lia|]. apply Z.div_lt_upper_bound; [lia|].
        assert (2 * 2 ^ Z.of_nat f <= base * 2 ^ Z.of_nat f) by (apply Z.mul_le_mono_nonneg_r; lia). lia. }
      rewrite (IH (n / base) (d + 1) Hq). f_equal. cbn [bufs_num_width].
      destruct (Z.ltb_spec n base) as [Hlt | Hge].
      * rewrite Z.div_small by lia. cbn. lia.
      * assert (1 <= n / base) by (apply Z.div_le_lower_bound; lia).
        replace (n / base =? 0) with false by (symmetry; apply Z.eqb_neq; lia). lia.
    + assert (n = 0) as -> by lia. cbn. f_equal. lia.
Qed.

Lemma buf_count_digits_ok base n : 2 <= base -> 0 <= n < 2 ^ 64 ->
  buf_count_digits base n = Ok (bufs_num_width 64 base n).
Proof.
  intros Hb Hn. unfold buf_count_digits.
  rewrite (buf_count_digits_loop_ok base Hb 64 n 0) by exact Hn. cbn [bind].
  pose proof (bufs_num_width_pos 64 base n) as Hw.
  destruct (Z.eqb_spec n 0) as [-> | Hne].
  - cbn [Z.add Z.eqb]. cbn [bufs_num_width]. replace (0 <? base) with true by (symmetry; apply Z.ltb_lt; lia). reflexivity.
  - replace (0 + bufs_num_width 64 base n =? 0) with false by (symmetry; apply Z.eqb_neq; lia). f_equal.
Qed.

(* v has at most (width) digits; the width is at most k when v < base^k *)
Lemma bufs_num_width_bound base : 2 <= base -> forall f v, 0 <= v < 2 ^ Z.of_nat f ->
  v < base ^ bufs_num_width f base v.
Proof.
  intros Hb. induction f as [|f IH]; intros v Hv; cbn [bufs_num_width].
  - change (2 ^ Z.of_nat 0) with 1 in Hv. rewrite Z.pow_1_r. lia.
  - destruct (Z.ltb_spec v base) as [Hlt | Hge]; [rewrite Z.pow_1_r; exact Hlt|].
    rewrite Nat2Z.inj_succ, Z.pow_succ_r in Hv by lia.
    assert (0 <= v / base < 2 ^ Z.of_nat f) as Hq.
    { split; [apply Z.div_pos; lia|]. apply Z.div_lt_upper_bound; [lia|].
      assert (2 * 2 ^ Z.of_nat f <= base * 2 ^ Z.of_nat f) by (apply Z.mul_le_mono_nonneg_r; lia). lia. }
    specialize (IH (v / base) Hq). pose proof (bufs_num_width_pos f base (v / base)) as Hw.
    rewrite Z.pow_add_r, Z.pow_1_r by lia.
    pose proof (Z.div_mod v base ltac:(lia)) as Hdm. pose proof (Z.mod_pos_bound v base ltac:(lia)) as Hmb.
    assert (base * (v / base + 1) <= base * base ^ bufs_num_width f base (v / base)) by (apply Z.mul_le_mono_nonneg_l; lia).
    lia.
Qed.

Lemma bufs_num_width_le base : 2 <= base -> forall f v k, 0 <= v -> 1 <= k -> v < base ^ k ->
  bufs_num_width f base v <= k.
Proof.
  intros Hb. induction f as [|f IH]; intros v k Hv Hk Hlt; cbn [bufs_num_width]; [lia|].
  destruct (Z.ltb_spec v base) as [Hs | Hge]; [lia|].
  assert (2 <= k).
  { destruct (Z.eq_dec k 1) as [-> | Hne]; [rewrite Z.pow_1_r in Hlt; lia | lia]. }
  assert (bufs_num_width f base (v / base) <= k - 1); [|lia].
  apply IH; [apply Z.div_pos; lia | lia |].
  apply Z.div_lt_upper_bound; [lia|]. replace k with (1 + (k - 1)) in Hlt by lia.
  rewrite Z.pow_add_r, Z.pow_1_r in Hlt by lia. exact Hlt.
Qed.

(* the most significant of k+1 digits in front of the k lower ones *)
Lemma bufs_num_digits_cons base k : 0 < base -> forall v, 0 <= v ->
  bufs_num_digits base (S k) v = ((v / base ^ Z.of_nat k) mod base) :: bufs_num_digits base k v.
Proof.
  intros Hb. induction k as [|k IH]; intros v Hv.
  - cbn [bufs_num_digits app]. change (base ^ Z.of_nat 0) with 1. rewrite Z.div_1_r. reflexivity.
  - change (bufs_num_digits base (S (S k)) v) with (bufs_num_digits base (S k) (v / base) ++ [v mod base]).
    rewrite IH by (apply Z.div_pos; lia). cbn [app]. f_equal.
    rewrite Nat2Z.inj_succ, Z.pow_succ_r by lia. rewrite Z.div_div by (try apply Z.pow_pos_nonneg; lia). reflexivity.
Qed.

(* the characters in the order of the loop (i = k, k-1, ..., 1) *)
Definition buf_loop_chars (f : Z -> Z) (k : nat) : list Z := map (fun i => f (Z.of_nat i)) (rev (seq 1 k)).

Lemma buf_loop_chars_S f k : buf_loop_chars f (S k) = f (Z.of_nat (S k)) :: buf_loop_chars f k.
Proof. unfold buf_loop_chars. rewrite seq_S, rev_app_distr. reflexivity. Qed.

Lemma buf_loop_chars_zlen f k : buf_zlen (buf_loop_chars f k) = Z.of_nat k.
Proof. unfold buf_loop_chars, buf_zlen. rewrite map_length, rev_length, seq_length. reflexivity. Qed.

Lemma bufs_num_digits_loop base chr k v : 0 < base -> 0 <= v ->
  map chr (bufs_num_digits base k v) = buf_loop_chars (fun i => chr ((v / base ^ (i - 1)) mod base)) k.
Proof.
  intros Hb Hv. induction k as [|k IH]; [reflexivity|].
  rewrite bufs_num_digits_cons, buf_loop_chars_S by assumption. cbn [map]. rewrite IH. f_equal.
  f_equal. f_equal. f_equal. f_equal. lia.
Qed.

(* two adjacent memcpy's are one *)
Lemma buf_mem_write_app m d l1 l2 : 0 <= d -> d + buf_zlen l1 + buf_zlen l2 <= buf_zlen m ->
  buf_mem_write (buf_mem_write m d l1) (d + buf_zlen l1) l2 = buf_mem_write m d (l1 ++ l2).
Proof.
  intros Hd Hlen. pose proof (buf_zlen_nonneg l1) as H1. pose proof (buf_zlen_nonneg l2) as H2.
  unfold buf_mem_write.
  assert (buf_zlen (buf_take d m) = d) as Htz by (apply buf_take_zlen; lia).
  rewrite buf_take_app_r by lia. rewrite Htz. replace (d + buf_zlen l1 - d) with (buf_zlen l1) by lia.
  rewrite buf_take_app_exact by reflexivity.
  rewrite buf_drop_app_r by lia. rewrite Htz.
  replace (d + buf_zlen l1 + buf_zlen l2 - d) with (buf_zlen l1 + buf_zlen l2) by lia.
  rewrite buf_drop_app_r by lia. replace (buf_zlen l1 + buf_zlen l2 - buf_zlen l1) with (buf_zlen l2) by lia.
  rewrite buf_drop_drop by lia. rewrite buf_zlen_app. rewrite <- !app_assoc.
  replace (d + buf_zlen l1 + buf_zlen l2) with (d + (buf_zlen l1 + buf_zlen l2)) by lia. reflexivity.
Qed.

(* appending into room that is already there: no reclaim, no allocation, whatever the allocator says *)
Lemma buf_append_direct junk ok b bytes : buf_inv b -> cb_hasabuf b = true ->
  0 < buf_zlen bytes -> cb_dlen b + buf_zlen bytes < cb_alloc b ->
  buf_append junk ok b bytes =
  Ok (ARES_SUCCESS, mkBuf (buf_mem_write (cb_mem b) (cb_dlen b) bytes) (cb_dlen b + buf_zlen bytes)
                          (cb_alloc b) (cb_off b) (cb_tag b) (cb_hasdata b) (cb_hasabuf b)).
Proof.
  intros Hi Ha Hpos Hroom. pose proof (buf_inv_mem_len b Hi) as [Hm Hl].
  assert (buf_shape_dyn b) as (Hd & _ & Hmz & Hda & Hal).
  { destruct Hi as (_ & _ & [Hs | [Hs | Hs]]); [destruct Hs as (_ & Ha' & _); congruence | destruct Hs as (_ & Ha' & _); congruence | exact Hs]. }
  assert (0 <= cb_dlen b) as Hd0 by (destruct Hi as (Ho & _); lia).
  unfold buf_append. replace (buf_zlen bytes =? 0) with false by (symmetry; apply Z.eqb_neq; lia).
  unfold buf_ensure_space. rewrite buf_is_const_eq. rewrite Hd, Ha. cbn [andb negb b2z Z.eqb bind].
  rewrite (buf_w64_small (buf_zlen bytes + 1)) by (buf_consts; lia).
  rewrite (buf_w64_small (cb_alloc b - cb_dlen b)) by (buf_consts; lia).
  replace (cb_alloc b - cb_dlen b >=? buf_zlen bytes + 1) with true by (symmetry; rewrite Z.geb_leb; apply Z.leb_le; lia).
  cbn [bind fst snd Z.eqb negb ARES_SUCCESS]. rewrite Ha. cbn [negb].
  replace (buf_zlen (cb_mem b) <? cb_dlen b + buf_zlen bytes) with false by (symmetry; apply Z.ltb_ge; lia).
  rewrite buf_w64_small by (buf_consts; lia). rewrite ?Hd, ?Ha. reflexivity.
Qed.

(* the digit loop after the reservation = one memcpy of all characters *)
Lemma buf_num_loop_direct junk dc f ok : forall k b,
  (forall i, (1 <= i <= k)%nat -> dc (Z.of_nat i) = Ok (f (Z.of_nat i))) ->
  buf_inv b -> cb_hasabuf b = true -> cb_dlen b + Z.of_nat k < cb_alloc b ->
  buf_num_loop junk dc ok b k =
  Ok (ARES_SUCCESS, mkBuf (buf_mem_write (cb_mem b) (cb_dlen b) (buf_loop_chars f k)) (cb_dlen b + Z.of_nat k)
                          (cb_alloc b) (cb_off b) (cb_tag b) (cb_hasdata b) (cb_hasabuf b)).
Proof.
  induction k as [|k IH]; intros b Hdc Hi Ha Hroom.
  - cbn [buf_num_loop]. f_equal. f_equal. destruct b as [m d a o t hd ha]. cbn [cb_mem cb_dlen cb_alloc cb_off cb_tag cb_hasdata cb_hasabuf].
    unfold buf_loop_chars. cbn [seq rev map]. unfold buf_mem_write. cbn [app buf_zlen length Z.of_nat].
    rewrite !Z.add_0_r. rewrite buf_take_drop. reflexivity.
  - cbn [buf_num_loop]. rewrite Hdc by lia. cbn [bind]. unfold buf_append_byte.
    assert (buf_zlen [f (Z.of_nat (S k))] = 1) as H1 by reflexivity.
    rewrite buf_append_direct by (try assumption; rewrite H1; lia). cbn [bind fst snd Z.eqb negb ARES_SUCCESS].
    rewrite H1.
    destruct (buf_write_tail_abs b [f (Z.of_nat (S k))] Hi Ha) as (Hi' & _); [rewrite H1; lia|]. rewrite H1 in Hi'.
    rewrite IH; [| intros i Hr; apply Hdc; lia | exact Hi' | exact Ha | cbn [cb_dlen cb_alloc]; lia].
    cbn [cb_mem cb_dlen cb_alloc cb_off cb_tag cb_hasdata cb_hasabuf].
    pose proof (buf_inv_mem_len b Hi) as [Hm _].
    assert (buf_shape_dyn b) as (_ & _ & Hmz & _).
    { destruct Hi as (_ & _ & [Hs | [Hs | Hs]]); [destruct Hs as (_ & Ha' & _); congruence | destruct Hs as (_ & Ha' & _); congruence | exact Hs]. }
    assert (0 <= cb_dlen b) as Hd0 by (destruct Hi as (Ho & _); lia).
    rewrite <- H1 at 1. rewrite buf_mem_write_app by (try lia; rewrite H1, buf_loop_chars_zlen; lia).
    rewrite buf_loop_chars_S. cbn [app]. f_equal. f_equal. f_equal. lia.
Qed.

(* reservation + digit loop = ares_buf_append of all characters *)
Lemma buf_num_reserve_loop junk dc f ok b k : (0 < k)%nat -> Z.of_nat k < BUF_ALLOC_LIMIT ->
  (forall i, (1 <= i <= k)%nat -> dc (Z.of_nat i) = Ok (f (Z.of_nat i))) -> buf_inv b ->
  (do r <- buf_ensure_space junk ok b (Z.of_nat k);
   if negb (fst r =? ARES_SUCCESS) then Ok r else buf_num_loop junk dc ok (snd r) k)
  = buf_append junk ok b (buf_loop_chars f k).
Proof.
  intros Hk Hlim Hdc Hi. unfold buf_append. rewrite buf_loop_chars_zlen.
  replace (Z.of_nat k =? 0) with false by (symmetry; apply Z.eqb_neq; lia).
  destruct (buf_ensure_space_refines junk ok b (Z.of_nat k) Hi) as (st & b1 & He & Hi1 & _ & _ & Hcases); [lia|].
  rewrite He. cbn [bind fst snd].
  destruct Hcases as [(Hst & _) | [(Hst & _ & Ha1 & Hroom) | (Hst & _)]]; subst st;
    cbn [Z.eqb negb ARES_EFORMERR ARES_ENOMEM ARES_SUCCESS]; try reflexivity.
  rewrite (buf_num_loop_direct junk dc f ok k b1 Hdc Hi1 Ha1 Hroom).
  rewrite Ha1. cbn [negb].
  pose proof (buf_inv_mem_len b1 Hi1) as [Hm1 Hl1].
  assert (buf_shape_dyn b1) as (_ & _ & Hmz & _).
  { destruct Hi1 as (_ & _ & [Hs | [Hs | Hs]]); [destruct Hs as (_ & Ha' & _); congruence | destruct Hs as (_ & Ha' & _); congruence | exact Hs]. }
  replace (buf_zlen (cb_mem b1) <? cb_dlen b1 + Z.of_nat k) with false by (symmetry; apply Z.ltb_ge; lia).
  assert (0 <= cb_dlen b1) as Hd0 by (destruct Hi1 as (Ho & _); lia).
  rewrite buf_w64_small by (buf_consts; lia). rewrite ?Ha1. reflexivity.
Qed.

(* ares_pow(10, k) for the powers that fit *)
Lemma buf_pow10_small k : (k <= 19)%nat -> buf_pow 10 (Z.of_nat k) = Ok (10 ^ Z.of_nat k).
Proof.
  intros Hk. do 20 (destruct k as [|k]; [vm_compute; reflexivity|]). lia.
Qed.

Lemma buf_dec_digit_ok num i : 0 <= num < 2 ^ 64 -> 1 <= i ->
  buf_dec_digit num (bufs_num_width 64 10 num) i = Ok ((num / 10 ^ (i - 1)) mod 10).
Proof.
  intros Hn Hi. unfold buf_dec_digit.
  pose proof (bufs_num_width_pos 64 10 num) as Hw1.
  assert (bufs_num_width 64 10 num <= 20) as Hw2.
  { apply bufs_num_width_le; [lia | lia | lia |]. change (2 ^ 64) with 18446744073709551616 in Hn. change (10 ^ 20) with 100000000000000000000. lia. }
  destruct (Z.leb_spec i (bufs_num_width 64 10 num)) as [Hle | Hgt].
  - rewrite buf_w64_small by (buf_consts; lia).
    replace (i - 1) with (Z.of_nat (Z.to_nat (i - 1))) by lia.
    rewrite buf_pow10_small by lia. cbn [bind].
    assert (0 < 10 ^ Z.of_nat (Z.to_nat (i - 1))) by (apply Z.pow_pos_nonneg; lia).
    replace (10 ^ Z.of_nat (Z.to_nat (i - 1)) =? 0) with false by (symmetry; apply Z.eqb_neq; lia). reflexivity.
  - f_equal. symmetry.
    pose proof (bufs_num_width_bound 10 ltac:(lia) 64 num Hn) as Hb.
    assert (10 ^ bufs_num_width 64 10 num <= 10 ^ (i - 1)) by (apply Z.pow_le_mono_r; lia).
    rewrite Z.div_small by lia. reflexivity.
Qed.

Lemma buf_hex_digit_ok num i : 0 <= num < 2 ^ 64 -> 1 <= i ->
  buf_hex_digit num (bufs_num_width 64 16 num) i = Ok ((num / 16 ^ (i - 1)) mod 16).
Proof.
  intros Hn Hi. unfold buf_hex_digit.
  pose proof (bufs_num_width_pos 64 16 num) as Hw1.
  assert (bufs_num_width 64 16 num <= 16) as Hw2.
  { apply bufs_num_width_le; [lia | lia | lia |]. change (16 ^ 16) with (2 ^ 64). lia. }
  destruct (Z.leb_spec i (bufs_num_width 64 16 num)) as [Hle | Hgt].
  - rewrite (buf_w64_small (i - 1)) by (buf_consts; lia). rewrite buf_w64_small by (buf_consts; lia).
    replace ((i - 1) * 4 >=? 64) with false by (symmetry; rewrite Z.geb_leb; apply Z.leb_gt; lia).
    f_equal. rewrite Z.shiftr_div_pow2 by lia. change 15 with (Z.ones 4). rewrite Z.land_ones by lia.
    replace ((i - 1) * 4) with (4 * (i - 1)) by lia. rewrite Z.pow_mul_r by lia. reflexivity.
  - f_equal. symmetry.
    pose proof (bufs_num_width_bound 16 ltac:(lia) 64 num Hn) as Hb.
    assert (16 ^ bufs_num_width 64 16 num <= 16 ^ (i - 1)) by (apply Z.pow_le_mono_r; lia).
    rewrite Z.div_small by lia. reflexivity.
Qed.

Lemma buf_dec_char_ok d : 0 <= d < 10 -> buf_dec_char d = bufs_dec_char d.
Proof.
  intros Hd. unfold buf_dec_char, bufs_dec_char. rewrite !buf_land_255.
  rewrite (Z.mod_small d) by lia. apply Z.mod_small. lia.
Qed.

Lemma buf_hex_char_ok d : 0 <= d < 16 -> buf_hex_char d = Ok (bufs_hex_char d).
Proof.
  intros Hd. replace d with (Z.of_nat (Z.to_nat d)) by lia.
  assert (Z.to_nat d < 16)%nat as Hn by lia. revert Hn. generalize (Z.to_nat d). intros n Hn.
  do 16 (destruct n as [|n]; [vm_compute; reflexivity|]). lia.
Qed.

Lemma bufs_num_digits_range base k : 0 < base -> forall v, Forall (fun d => 0 <= d < base) (bufs_num_digits base k v).
Proof.
  intros Hb. induction k as [|k IH]; intros v; cbn [bufs_num_digits]; [constructor|].
  apply Forall_app. split; [apply IH|]. constructor; [apply Z.mod_pos_bound; lia | constructor].
Qed.

Lemma bufs_num_digits_zlen base k v : buf_zlen (bufs_num_digits base k v) = Z.of_nat k.
Proof.
  revert v. induction k as [|k IH]; intros v; cbn [bufs_num_digits]; [reflexivity|].
  rewrite buf_zlen_app, IH. unfold buf_zlen. cbn [length]. lia.
Qed.

Definition buf_num_len (base num len : Z) : Z := if len =? 0 then bufs_num_width 64 base num else len.

Lemma bufs_num_bytes_zlen base chr num len : 0 <= len ->
  buf_zlen (bufs_num_bytes base chr num len) = buf_num_len base num len /\ 0 < buf_num_len base num len.
Proof.
  intros Hl. unfold bufs_num_bytes, buf_num_len. pose proof (bufs_num_width_pos 64 base num) as Hw.
  unfold buf_zlen at 1. rewrite map_length. fold (buf_zlen (bufs_num_digits base (Z.to_nat (if len =? 0 then bufs_num_width 64 base num else len)) num)).
  rewrite bufs_num_digits_zlen. destruct (Z.eqb_spec len 0); lia.
Qed.

Lemma bufs_num_bytes_ok_dec num len : buf_bytes_ok (bufs_num_bytes 10 bufs_dec_char num len).
Proof.
  unfold bufs_num_bytes, buf_bytes_ok. apply Forall_map.
  eapply Forall_impl; [|apply (bufs_num_digits_range 10); lia]. intros d Hd. unfold bufs_dec_char. cbn beta in *. lia.
Qed.

Lemma bufs_num_bytes_ok_hex num len : buf_bytes_ok (bufs_num_bytes 16 bufs_hex_char num len).
Proof.
  unfold bufs_num_bytes, buf_bytes_ok. apply Forall_map.
  eapply Forall_impl; [|apply (bufs_num_digits_range 16); lia]. intros d Hd. unfold bufs_hex_char. cbn beta in *.
  destruct (d <? 10); lia.
Qed.

Lemma buf_num_bytes_lim base chr num len : 2 <= base -> 0 <= num < 2 ^ 64 -> 0 <= len < BUF_ALLOC_LIMIT ->
  buf_zlen (bufs_num_bytes base chr num len) < BUF_ALLOC_LIMIT.
Proof.
  intros Hb Hn Hl. destruct (bufs_num_bytes_zlen base chr num len) as [Hz _]; [lia|]. rewrite Hz.
  unfold buf_num_len. destruct (len =? 0); [|lia].
  assert (bufs_num_width 64 base num <= 64); [|buf_consts; lia].
  apply bufs_num_width_le; [lia | lia | lia |].
  assert (2 ^ 64 <= base ^ 64) by (apply Z.pow_le_mono_l; lia). lia.
Qed.

(* ares_buf_append_num_dec (patched) IS ares_buf_append of the decimal characters: the number
   zero-padded / cut to len characters (len = 0: its natural width) *)
Theorem buf_append_num_dec_eq junk ok b num len :
  buf_inv b -> 0 <= num < 2 ^ 64 -> 0 <= len < BUF_ALLOC_LIMIT ->
  buf_append_num_dec junk ok b num len = buf_append junk ok b (bufs_num_bytes 10 bufs_dec_char num len).
Proof.
  intros Hi Hn Hl. unfold buf_append_num_dec. rewrite buf_count_digits_ok by (try lia; exact Hn). cbn [bind].
  destruct (bufs_num_bytes_zlen 10 bufs_dec_char num len) as [_ Hpos]; [lia|]. unfold buf_num_len in Hpos.
  assert ((if len =? 0 then bufs_num_width 64 10 num else len) < BUF_ALLOC_LIMIT) as Hlim.
  { destruct (len =? 0); [|lia]. assert (bufs_num_width 64 10 num <= 20); [|buf_consts; lia].
    apply bufs_num_width_le; [lia | lia | lia |]. change (2 ^ 64) with 18446744073709551616 in Hn. change (10 ^ 20) with 100000000000000000000. lia. }
  unfold bufs_num_bytes. set (L := if len =? 0 then bufs_num_width 64 10 num else len) in *.
  rewrite bufs_num_digits_loop by lia.
  replace L with (Z.of_nat (Z.to_nat L)) at 1 by lia.
  apply buf_num_reserve_loop; [lia | lia | | exact Hi].
  intros i Hr. rewrite buf_dec_digit_ok by (try exact Hn; lia). cbn [bind]. f_equal.
  apply buf_dec_char_ok. apply Z.mod_pos_bound. lia.
Qed.

Theorem buf_append_num_hex_eq junk ok b num len :
  buf_inv b -> 0 <= num < 2 ^ 64 -> 0 <= len < BUF_ALLOC_LIMIT ->
  buf_append_num_hex junk ok b num len = buf_append junk ok b (bufs_num_bytes 16 bufs_hex_char num len).
Proof.
  intros Hi Hn Hl. unfold buf_append_num_hex. rewrite buf_count_digits_ok by (try lia; exact Hn). cbn [bind].
  destruct (bufs_num_bytes_zlen 16 bufs_hex_char num len) as [_ Hpos]; [lia|]. unfold buf_num_len in Hpos.
  assert ((if len =? 0 then bufs_num_width 64 16 num else len) < BUF_ALLOC_LIMIT) as Hlim.
  { destruct (len =? 0); [|lia]. assert (bufs_num_width 64 16 num <= 16); [|buf_consts; lia].
    apply bufs_num_width_le; [lia | lia | lia |]. change (16 ^ 16) with (2 ^ 64). lia. }
  unfold bufs_num_bytes. set (L := if len =? 0 then bufs_num_width 64 16 num else len) in *.
  rewrite bufs_num_digits_loop by lia.
  replace L with (Z.of_nat (Z.to_nat L)) at 1 by lia.
  apply buf_num_reserve_loop; [lia | lia | | exact Hi].
  intros i Hr. rewrite buf_hex_digit_ok by (try exact Hn; lia). cbn [bind].
  apply buf_hex_char_ok. apply Z.mod_pos_bound. lia.
Qed.

(* ------------------------------------------------------------------------------------- *)
(* parse_dns_binstr / parse_dns_str                                                        *)
(* ------------------------------------------------------------------------------------- *)
Lemma buf_fetch_bytes_ok b n : buf_inv b -> 0 < n ->
  buf_fetch_bytes b n = Ok (if cb_dlen b - cb_off b <? n then (ARES_EBADRESP, b, [])
                            else (ARES_SUCCESS, buf_with_off b (cb_off b + n), buf_take n (buf_remaining b))).
Proof.
  intros Hi Hn. unfold buf_fetch_bytes. rewrite buf_fetch_ok by exact Hi. cbn [fst snd].
  replace (n =? 0) with false by (symmetry; apply Z.eqb_neq; lia). cbn [orb].
  destruct (Z.ltb_spec (cb_dlen b - cb_off b) n) as [Hlt | Hge]; [reflexivity|].
  rewrite buf_read_remaining by (try exact Hi; lia). cbn [bind].
  rewrite buf_consume_ok by (try exact Hi; lia). cbn [bind].
  replace (cb_dlen b - cb_off b <? n) with false by (symmetry; apply Z.ltb_ge; lia). reflexivity.
Qed.

(* a fresh buffer has to ask the allocator for its first byte *)
Lemma buf_append_empty_fail junk bytes : 0 < buf_zlen bytes < BUF_ALLOC_LIMIT ->
  buf_append junk false buf_empty bytes = Ok (ARES_ENOMEM, buf_empty).
Proof.
  intros Hl. unfold buf_append. replace (buf_zlen bytes =? 0) with false by (symmetry; apply Z.eqb_neq; lia).
  unfold buf_ensure_space. change (buf_is_const buf_empty) with (Ok 0). cbn [bind Z.eqb negb].
  change (cb_alloc buf_empty) with 0. change (cb_dlen buf_empty) with 0. change (buf_w64 (0 - 0)) with 0.
  rewrite buf_w64_small by (buf_consts; lia).
  replace (0 >=? buf_zlen bytes + 1) with false by (symmetry; rewrite Z.geb_leb; apply Z.leb_gt; lia).
  change (buf_reclaim buf_empty) with (Ok buf_empty). cbn [bind].
  change (cb_alloc buf_empty) with 0. change (cb_dlen buf_empty) with 0. change (buf_w64 (0 - 0)) with 0.
  replace (0 >=? buf_zlen bytes + 1) with false by (symmetry; rewrite Z.geb_leb; apply Z.leb_gt; lia).
  cbn [Z.eqb].
  destruct (buf_grow_loop_ok 64 16 0 (buf_zlen bytes + 1)) as (a & Hloop & _);
    try (buf_consts; change (2 ^ 63) with 9223372036854775808; change (2 ^ Z.of_nat 64) with 18446744073709551616; lia).
  rewrite Hloop. cbn [bind]. unfold buf_alloc_answer. cbn [andb fst snd Z.eqb negb ARES_ENOMEM ARES_SUCCESS]. reflexivity.
Qed.

Lemma buf_finish_str_empty junk ok :
  exists b', buf_finish_str junk ok buf_empty = Ok (if ok then Some [0] else None, b').
Proof. destruct ok; eexists; vm_compute; reflexivity. Qed.

Lemma bufs_advance_0 s : bufs_advance s 0 = s.
Proof. destruct s as [p q t c]. unfold bufs_advance. cbn [bs_pre bs_post bs_tag bs_const]. rewrite buf_take_0, buf_drop_0 by lia. rewrite app_nil_r. reflexivity. Qed.

(* ares_buf_parse_dns_binstr / _str: ONE length-prefixed character-string.  Success: exactly the
   string bytes (plus the terminator when wanted), the cursor behind them.  Failure: the length
   byte stays consumed when the failure is detected after it was read (length beyond
   remaining_len or beyond the data, non-printable byte, allocation failure for the copy);
   nothing is consumed when remaining_len is 0, the first allocation fails or the buffer is
   empty.  Never UB. *)
Theorem buf_parse_dns_binstr_refines junk ok1 ok2 b rl want validate :
  buf_inv b -> buf_bytes_ok (buf_remaining b) -> 0 <= rl < 2 ^ 64 ->
  exists st b' out, buf_parse_dns_binstr_int junk ok1 ok2 b rl want validate = Ok (st, b', out) /\
    buf_inv b' /\ cb_mem b' = cb_mem b /\
    (st, buf_abs b', out) = bufs_parse_binstr ok1 ok2 (buf_abs b) rl want validate.
Proof.
  intros Hi Hb Hrl. unfold buf_parse_dns_binstr_int, bufs_parse_binstr.
  destruct (Z.eqb_spec rl 0) as [Hz | Hnz].
  { exists ARES_EBADRESP, b, None. auto. }
  rewrite buf_create_eq. destruct ok1; cbn [negb].
  2:{ exists ARES_ENOMEM, b, None. auto. }
  rewrite buf_fetch_bytes_ok by (try exact Hi; lia). cbn [bind].
  rewrite buf_abs_post. pose proof (buf_remaining_zlen b Hi) as Hrz.
  destruct (buf_remaining b) as [|len rest] eqn:Erem.
  { change (buf_zlen (@nil Z)) with 0 in Hrz.
    replace (cb_dlen b - cb_off b <? 1) with true by (symmetry; apply Z.ltb_lt; lia).
    cbn [fst snd Z.eqb negb ARES_EBADRESP ARES_SUCCESS]. exists ARES_EBADRESP, b, None. auto. }
  rewrite buf_zlen_cons in Hrz. pose proof (buf_zlen_nonneg rest) as Hrn.
  replace (cb_dlen b - cb_off b <? 1) with false by (symmetry; apply Z.ltb_ge; lia).
  cbn [fst snd Z.eqb negb ARES_SUCCESS]. rewrite buf_take_1.
  set (b1 := buf_with_off b (cb_off b + 1)).
  destruct (buf_advance_ok b 1 Hi ltac:(lia)) as (_ & Hi1 & Ha1). fold b1 in Hi1, Ha1.
  assert (buf_remaining b1 = rest) as Er1.
  { change (buf_remaining b1) with (bs_post (buf_abs b1)). rewrite Ha1. unfold bufs_advance. cbn [bs_post].
    rewrite buf_abs_post, Erem. reflexivity. }
  assert (0 <= len < 256) as Hlen by (inversion Hb; assumption).
  assert (cb_dlen b1 - cb_off b1 = buf_zlen rest) as Hl1 by (rewrite <- Er1; symmetry; apply buf_remaining_zlen; exact Hi1).
  rewrite buf_w64_small by lia.
  destruct (Z.gtb_spec len (rl - 1)) as [Hbig | Hfit]; cbn [orb].
  { exists ARES_EBADRESP, b1, None. split; [reflexivity|]. split; [exact Hi1|]. split; [reflexivity|]. rewrite Ha1. reflexivity. }
  destruct (Z.eqb_spec len 0) as [Hl0 | Hlne].
  - (* the empty string *)
    subst len. cbn [bind fst snd Z.eqb negb ARES_SUCCESS orb].
    replace (buf_zlen rest <? 0) with false by (symmetry; apply Z.ltb_ge; lia).
    rewrite buf_take_0 by lia. cbn [forallb negb]. rewrite andb_false_r.
    destruct want; cbn [negb andb].
    + destruct (buf_finish_str_empty junk ok2) as (bz & Hfz). rewrite Hfz. cbn [bind fst].
      destruct ok2; cbn [negb].
      * exists ARES_SUCCESS, b1, (Some [0]). split; [reflexivity|]. split; [exact Hi1|]. split; [reflexivity|].
        rewrite bufs_advance_0, Ha1. reflexivity.
      * exists ARES_ENOMEM, b1, None. split; [reflexivity|]. split; [exact Hi1|]. split; [reflexivity|]. rewrite Ha1. reflexivity.
    + exists ARES_SUCCESS, b1, None. split; [reflexivity|]. split; [exact Hi1|]. split; [reflexivity|].
      rewrite bufs_advance_0, Ha1. reflexivity.
  - replace (len =? 0) with false by (symmetry; apply Z.eqb_neq; exact Hlne).
    rewrite buf_len_ok by exact Hi1. cbn [bind]. rewrite Hl1.
    destruct (Z.ltb_spec (buf_zlen rest) len) as [Hshort | Henough].
    + (* the length byte points beyond the data *)
      replace (buf_zlen rest >=? len) with false by (symmetry; rewrite Z.geb_leb; apply Z.leb_gt; lia).
      rewrite andb_false_r. cbn [bind].
      destruct want.
      * unfold buf_fetch_bytes_into_buf. rewrite buf_fetch_ok by exact Hi1. cbn [fst snd]. rewrite Hl1.
        replace (buf_zlen rest <? len) with true by (symmetry; apply Z.ltb_lt; lia). rewrite orb_true_r.
        cbn [bind fst snd Z.eqb negb ARES_EBADRESP ARES_SUCCESS orb].
        exists ARES_EBADRESP, b1, None. split; [reflexivity|]. split; [exact Hi1|]. split; [reflexivity|]. rewrite Ha1. reflexivity.
      * rewrite buf_consume_ok by (try exact Hi1; lia). rewrite Hl1.
        replace (buf_zlen rest <? len) with true by (symmetry; apply Z.ltb_lt; lia).
        cbn [bind fst snd Z.eqb negb ARES_EBADRESP ARES_SUCCESS orb].
        exists ARES_EBADRESP, b1, None. split; [reflexivity|]. split; [exact Hi1|]. split; [reflexivity|]. rewrite Ha1. reflexivity.
    + replace (buf_zlen rest >=? len) with true by (symmetry; rewrite Z.geb_leb; apply Z.leb_le; lia).
      rewrite andb_true_r.
      assert (buf_read b1 (cb_off b1) len = Ok (buf_take len rest)) as Hrd
        by (rewrite buf_read_remaining by (try exact Hi1; lia); rewrite Er1; reflexivity).
      assert (buf_zlen (buf_take len rest) = len) as Htz by (apply buf_take_zlen; lia).
      destruct (buf_advance_ok b1 len Hi1 ltac:(lia)) as (Hc2 & Hi2 & Ha2).
      assert ((do bad <- (if validate then do data <- buf_read b1 (cb_off b1) len; Ok (negb (forallb buf_isprint data)) else Ok false);
               if bad then Ok (ARES_EBADSTR, b1, buf_empty)
               else if want then buf_fetch_bytes_into_buf junk ok2 b1 buf_empty len
                    else do c <- buf_consume b1 len; Ok (fst c, snd c, buf_empty)) =
              (if validate && negb (forallb buf_isprint (buf_take len rest)) then Ok (ARES_EBADSTR, b1, buf_empty)
               else if want then buf_fetch_bytes_into_buf junk ok2 b1 buf_empty len
                    else Ok (ARES_SUCCESS, buf_with_off b1 (cb_off b1 + len), buf_empty))) as Hmid.
      { destruct validate; cbn [andb]; [rewrite Hrd; cbn [bind]|cbn [bind]];
          (destruct (negb (forallb buf_isprint (buf_take len rest))) || idtac); try reflexivity;
          (destruct want; [reflexivity | rewrite Hc2; reflexivity]). }
      rewrite Hmid. clear Hmid.
      destruct (validate && negb (forallb buf_isprint (buf_take len rest))).
      { cbn [bind fst snd Z.eqb negb ARES_EBADSTR ARES_SUCCESS orb].
        exists ARES_EBADSTR, b1, None. split; [reflexivity|]. split; [exact Hi1|]. split; [reflexivity|]. rewrite Ha1. reflexivity. }
      destruct want; cbn [negb andb].
      * unfold buf_fetch_bytes_into_buf. rewrite buf_fetch_ok by exact Hi1. cbn [fst snd]. rewrite Hl1.
        replace (len =? 0) with false by (symmetry; apply Z.eqb_neq; exact Hlne).
        replace (buf_zlen rest <? len) with false by (symmetry; apply Z.ltb_ge; lia). cbn [orb].
        rewrite Hrd. cbn [bind].
        destruct ok2; cbn [negb].
        -- destruct (buf_append_refines junk true buf_empty (buf_take len rest) buf_empty_inv) as (st & d & Hap & Hid & Hin & _ & Hwhy);
             [rewrite Htz; buf_consts; lia|].
           assert (st = ARES_SUCCESS /\ buf_abs d = mkBufSpec [] (buf_take len rest) None false) as [Hst Had].
           { unfold bufs_append_alts in Hin. rewrite Htz in Hin.
             replace (len =? 0) with false in Hin by (symmetry; apply Z.eqb_neq; exact Hlne).
             rewrite buf_empty_abs in Hin. cbn [bufs_create bs_const] in Hin.
             destruct Hin as [Hin | [Hin | [Hin | [Hin | []]]]];
               pose proof (f_equal fst Hin) as Hs; pose proof (f_equal snd Hin) as Hab; cbn [fst snd] in Hs, Hab; subst st;
               try (destruct (Hwhy eq_refl) as [Hx | Hx]; [discriminate Hx | rewrite Htz in Hx; change (cb_dlen buf_empty) with 0 in Hx; buf_consts; lia]);
               (split; [reflexivity | rewrite <- Hab; reflexivity]). }
           subst st. rewrite Hap. cbn [bind fst snd Z.eqb negb ARES_SUCCESS orb]. rewrite Hc2. cbn [bind fst snd Z.eqb negb orb].
           destruct (buf_finish_refines junk true d true Hid) as (r & d' & Hfin & _ & _ & Hfa).
           cbn beta iota in Hfin. rewrite Hfin. cbn [bind fst].
           unfold bufs_finish_alts in Hfa. rewrite Had in Hfa. cbn [bs_const bufs_tagged bs_tag bs_post app] in Hfa.
           unfold bufs_nothing_held in Hfa. cbn [bs_pre bs_post bs_const app] in Hfa. rewrite Htz in Hfa.
           replace (len =? 0) with false in Hfa by (symmetry; apply Z.eqb_neq; exact Hlne). cbn [andb] in Hfa.
           destruct Hfa as [Hfa | []]. destruct r as [bytes|]; [|discriminate Hfa].
           injection Hfa as Hbytes. subst bytes.
           exists ARES_SUCCESS, (buf_with_off b1 (cb_off b1 + len)), (Some (buf_take len rest ++ [0])).
           split; [reflexivity|]. split; [exact Hi2|]. split; [reflexivity|]. rewrite Ha2, Ha1. reflexivity.
        -- rewrite buf_append_empty_fail by (rewrite Htz; buf_consts; lia).
           cbn [bind fst snd Z.eqb negb ARES_ENOMEM ARES_SUCCESS orb].
           exists ARES_ENOMEM, b1, None. split; [reflexivity|]. split; [exact Hi1|]. split; [reflexivity|]. rewrite Ha1. reflexivity.
      * cbn [bind fst snd Z.eqb negb ARES_SUCCESS orb].
        exists ARES_SUCCESS, (buf_with_off b1 (cb_off b1 + len)), None.
        split; [reflexivity|]. split; [exact Hi2|]. split; [reflexivity|]. rewrite Ha2, Ha1. reflexivity.
Qed.

(* ------------------------------------------------------------------------------------- *)
(* One operation of the API: the model step refines the specification                      *)
(* ------------------------------------------------------------------------------------- *)
Definition buf_op_ok (op : buf_op) : Prop :=
  match op with
  | BopAppend _ bytes | BopAppendStr _ bytes | BopNewConst _ bytes => buf_bytes_ok bytes /\ buf_zlen bytes < BUF_ALLOC_LIMIT
  | BopAppendByte _ x => 0 <= x < 256
  | BopAppendViaStart _ want bytes => buf_bytes_ok bytes /\ 0 <= want < BUF_ALLOC_LIMIT
  | BopFetchBytes n | BopConsume n | BopTagFetchBytes n | BopTagFetchString n | BopSetPosition n
  | BopFetchBytesDup _ n _ | BopFetchStrDup _ n | BopFetchIntoBuf _ n => 0 <= n
  | BopSetLength len fill => 0 <= len /\ 0 <= fill < 256
  | BopSplit _ delims flags max_sections => 0 <= flags /\ 0 <= max_sections
  | BopAppendNumDec _ num len | BopAppendNumHex _ num len => 0 <= num < 2 ^ 64 /\ 0 <= len < BUF_ALLOC_LIMIT
  | BopParseBinstr _ _ rl _ _ => 0 <= rl < 2 ^ 64
  | BopSplitFailAt n delims flags max_sections => 0 <= n /\ 0 <= flags /\ 0 <= max_sections
  | _ => True
  end.

Theorem buf_observe_refines b : buf_inv b -> buf_observe b = Ok (bufs_view (buf_abs b)).
Proof.
  intros Hi. unfold buf_observe, bufs_view.
  rewrite buf_len_refines, buf_get_position_refines, buf_tag_length_refines, buf_peek_refines by exact Hi.
  reflexivity.
Qed.

Lemma buf_remaining_bytes_ok b : buf_bytes_ok (cb_mem b) -> buf_bytes_ok (buf_remaining b).
Proof. intros H. unfold buf_remaining, buf_data. apply buf_bytes_ok_drop, buf_bytes_ok_take, H. Qed.

Lemma bufs_ok_bytes_eq st out : (if st =? ARES_SUCCESS then [out] else []) = bufs_ok_bytes st out.
Proof. reflexivity. Qed.
Lemma bufs_ok_val_eq st v : (if st =? ARES_SUCCESS then [v] else []) = bufs_ok_val st v.
Proof. reflexivity. Qed.

Definition buf_is_split (op : buf_op) : bool := match op with BopSplit _ _ _ _ => true | _ => false end.

Section StepRefines.
Variable junk : Z -> Z.
Hypothesis junk_bytes : forall i, 0 <= junk i < 256.

(* the split operation is proved separately (buf_split_refines) and plugged in here *)
Hypothesis split_refines : forall ok_arr b delims flags max_sections,
  buf_inv b -> 0 <= flags -> 0 <= max_sections ->
  exists st b' pieces, buf_split ok_arr (fun _ => true) b delims flags max_sections = Ok (st, b', pieces) /\
    buf_inv b' /\ cb_mem b' = cb_mem b /\
    In (mkBufObs st [buf_zlen pieces] pieces, buf_abs b') (bufs_split_alts ok_arr (buf_abs b) delims flags max_sections).
(* ... and so is the split with a refused allocation request (buf_split_fail_at_refines) *)
Hypothesis split_fail_refines : forall n b delims flags max_sections,
  buf_inv b -> 0 <= n -> 0 <= flags -> 0 <= max_sections ->
  exists st b' pieces, buf_split_fail_at n b delims flags max_sections = Ok (st, b', pieces) /\
    buf_inv b' /\ cb_mem b' = cb_mem b /\
    In (mkBufObs st [buf_zlen pieces] pieces, buf_abs b') (bufs_split_fail_alts n (buf_abs b) delims flags max_sections).

Lemma buf_step_refines_gen b op :
  buf_inv b -> buf_bytes_ok (cb_mem b) -> buf_op_ok op -> bufs_contract (buf_abs b) op = true ->
  exists o b', buf_step junk b op = Ok (o, b') /\ buf_inv b' /\ buf_bytes_ok (cb_mem b') /\
               In (o, buf_abs b') (bufs_alts (buf_abs b) op).
Proof.
  intros Hi Hb Hop Hc.
  destruct op; cbn [buf_step bufs_alts buf_op_ok] in *.
  - (* BopAppend *)
    destruct Hop as [Hbs Hl].
    destruct (buf_append_refines junk ok b bytes Hi Hl) as (st & b' & He & Hi' & Hin & Hb' & _).
    rewrite He. cbn [bind fst snd]. eexists _, b'. split; [reflexivity|]. split; [exact Hi'|].
    split; [apply Hb'; assumption|]. apply in_map_iff. exists (st, buf_abs b'). auto.
  - (* BopAppendByte *)
    assert (buf_bytes_ok [x]) as Hbs by (constructor; [exact Hop | constructor]).
    destruct (buf_append_refines junk ok b [x] Hi) as (st & b' & He & Hi' & Hin & Hb' & _);
      [unfold buf_zlen; simpl length; buf_consts; lia|].
    unfold buf_append_byte. rewrite He. cbn [bind fst snd]. eexists _, b'. split; [reflexivity|]. split; [exact Hi'|].
    split; [apply Hb'; assumption|]. apply in_map_iff. exists (st, buf_abs b'). auto.
  - (* BopAppendBe16 *)
    destruct (buf_append_be16_refines junk ok b v Hi) as (st & b' & He & Hi' & Hin & Hb').
    rewrite He. cbn [bind fst snd]. eexists _, b'. split; [reflexivity|]. split; [exact Hi'|].
    split; [apply Hb'; assumption|]. apply in_map_iff. exists (st, buf_abs b'). auto.
  - (* BopAppendBe32 *)
    destruct (buf_append_be32_refines junk ok b v Hi) as (st & b' & He & Hi' & Hin & Hb').
    rewrite He. cbn [bind fst snd]. eexists _, b'. split; [reflexivity|]. split; [exact Hi'|].
    split; [apply Hb'; assumption|]. apply in_map_iff. exists (st, buf_abs b'). auto.
  - (* BopAppendStr *)
    destruct Hop as [Hbs Hl].
    destruct (buf_append_refines junk ok b str Hi Hl) as (st & b' & He & Hi' & Hin & Hb' & _).
    rewrite He. cbn [bind fst snd]. eexists _, b'. split; [reflexivity|]. split; [exact Hi'|].
    split; [apply Hb'; assumption|]. apply in_map_iff. exists (st, buf_abs b'). auto.
  - (* BopAppendViaStart *)
    destruct Hop as [Hbs Hw]. cbn [bufs_contract] in Hc. apply Z.leb_le in Hc.
    destruct (buf_append_via_start_refines junk ok b want bytes Hi Hw Hc) as (nn & k & b' & He & Hi' & Hin & Hb').
    rewrite He. cbn [bind fst snd]. eexists _, b'. split; [reflexivity|]. split; [exact Hi'|].
    split; [apply Hb'; assumption | exact Hin].
  - (* BopFetchBytes *)
    destruct (buf_fetch_bytes_refines b n Hi Hop) as (st & b' & out & He & Hi' & Hs).
    rewrite He. cbn [bind fst snd]. eexists _, b'. split; [reflexivity|]. split; [exact Hi'|].
    split.
    + unfold buf_fetch_bytes in He. destruct ((n =? 0) || (snd (buf_fetch b) <? n)).
      * injection He as _ <- _. exact Hb.
      * destruct (buf_read b (cb_off b) n); cbn [bind] in He; try discriminate.
        rewrite buf_consume_ok in He by assumption. cbn [bind] in He.
        destruct (cb_dlen b - cb_off b <? n); cbn [fst snd] in He; injection He as _ <- _; exact Hb.
    + rewrite <- Hs. cbn [fst snd]. left. reflexivity.
  - (* BopFetchBe16 *)
    destruct (buf_fetch_be16_refines b Hi (buf_remaining_bytes_ok b Hb)) as (st & b' & v & He & Hi' & Hs).
    rewrite He. cbn [bind fst snd]. eexists _, b'. split; [reflexivity|]. split; [exact Hi'|].
    split.
    + assert (cb_mem b' = cb_mem b) as Hm; [|rewrite Hm; exact Hb].
      unfold buf_fetch_be16 in He. destruct (snd (buf_fetch b) <? 2); [injection He as _ <- _; reflexivity|].
      destruct (buf_read b (cb_off b) 2) as [bytes| |]; cbn [bind] in He; try discriminate.
      destruct bytes as [|p0 [|p1 [|p2 r]]]; try discriminate.
      rewrite buf_consume_ok in He by (try exact Hi; lia). cbn [bind] in He.
      destruct (cb_dlen b - cb_off b <? 2); cbn [fst snd] in He; injection He as _ <- _; reflexivity.
    + rewrite <- Hs. cbn [fst snd]. left. reflexivity.
  - (* BopFetchBe32 *)
    destruct (buf_fetch_be32_refines b Hi (buf_remaining_bytes_ok b Hb)) as (st & b' & v & He & Hi' & Hs).
    rewrite He. cbn [bind fst snd]. eexists _, b'. split; [reflexivity|]. split; [exact Hi'|].
    split.
    + assert (cb_mem b' = cb_mem b) as Hm; [|rewrite Hm; exact Hb].
      unfold buf_fetch_be32 in He. destruct (snd (buf_fetch b) <? 4); [injection He as _ <- _; reflexivity|].
      destruct (buf_read b (cb_off b) 4) as [bytes| |]; cbn [bind] in He; try discriminate.
      destruct bytes as [|p0 [|p1 [|p2 [|p3 [|p4 r]]]]]; try discriminate.
      rewrite buf_consume_ok in He by (try exact Hi; lia). cbn [bind] in He.
      destruct (cb_dlen b - cb_off b <? 4); cbn [fst snd] in He; injection He as _ <- _; reflexivity.
    + rewrite <- Hs. cbn [fst snd]. left. reflexivity.
  - (* BopPeekByte *)
    rewrite buf_peek_byte_refines by exact Hi. cbn [bind fst snd].
    eexists _, b. split; [reflexivity|]. split; [exact Hi|]. split; [exact Hb|]. left. reflexivity.
  - (* BopFetchBytesDup *)
    destruct (buf_fetch_bytes_dup_refines ok b n null_term Hi Hop) as (st & b' & out & He & Hi' & Hm & Hs).
    rewrite He. cbn [bind fst snd]. eexists _, b'. split; [reflexivity|]. split; [exact Hi'|].
    split; [rewrite Hm; exact Hb|]. rewrite <- Hs. cbn [fst snd]. left. reflexivity.
  - (* BopFetchStrDup *)
    destruct (buf_fetch_str_dup_refines ok b n Hi Hop) as (st & b' & out & He & Hi' & Hm & Hs).
    rewrite He. cbn [bind fst snd]. eexists _, b'. split; [reflexivity|]. split; [exact Hi'|].
    split; [rewrite Hm; exact Hb|]. rewrite <- Hs. cbn [fst snd]. left. reflexivity.
  - (* BopFetchIntoBuf *)
    destruct (buf_fetch_bytes_into_buf_refines junk ok b n Hi Hop) as (st & b' & d' & He & Hi' & Hid & Hm & Hcases).
    rewrite He. cbn [bind fst snd]. rewrite buf_peek_refines by exact Hid. cbn [bind]. rewrite buf_abs_post.
    eexists _, b'. split; [reflexivity|]. split; [exact Hi'|]. split; [rewrite Hm; exact Hb|].
    destruct Hcases as [(Hst & Hg & Hbb & Hd) | [(Hst & Hg & Ha & Hd) | (Hst & Hg & Hbb & Hd)]]; rewrite Hg, Hd, Hst.
    + subst b'. left. reflexivity.
    + rewrite Ha. left. rewrite buf_abs_post. reflexivity.
    + subst b'. right. left. reflexivity.
  - (* BopConsume *)
    destruct (buf_consume_refines b n Hi Hop) as (st & b' & He & Hi' & Hs).
    rewrite He. cbn [bind fst snd]. eexists _, b'. split; [reflexivity|]. split; [exact Hi'|].
    split.
    + rewrite buf_consume_ok in He by assumption. destruct (cb_dlen b - cb_off b <? n); injection He as _ <-; exact Hb.
    + rewrite <- Hs. left. reflexivity.
  - (* BopTag *)
    destruct (buf_tag_refines b Hi) as (b' & He & Hi' & Hs).
    rewrite He. cbn [bind]. eexists _, b'. split; [reflexivity|]. split; [exact Hi'|].
    split; [injection He as <-; exact Hb|]. rewrite Hs. left. reflexivity.
  - (* BopRollback *)
    destruct (buf_tag_rollback_refines b Hi) as (st & b' & He & Hi' & Hs).
    rewrite He. cbn [bind fst snd]. eexists _, b'. split; [reflexivity|]. split; [exact Hi'|].
    split.
    + rewrite buf_tag_rollback_ok in He. destruct (cb_tag b =? BUF_SIZE_MAX); injection He as _ <-; exact Hb.
    + rewrite <- Hs. left. reflexivity.
  - (* BopTagClear *)
    destruct (buf_tag_clear_refines b Hi) as (st & b' & He & Hi' & Hs).
    rewrite He. cbn [bind fst snd]. eexists _, b'. split; [reflexivity|]. split; [exact Hi'|].
    split.
    + unfold buf_tag_clear, c_ares_buf_tag_clear in He. destruct (cb_tag b =? 18446744073709551615); cbn [bind fst snd] in He; injection He as _ <-; exact Hb.
    + rewrite <- Hs. left. reflexivity.
  - (* BopTagFetchBytes *)
    destruct (buf_tag_fetch_bytes_refines b cap Hi Hop) as (r & He & Hin).
    rewrite He. cbn [bind]. eexists _, b. split; [reflexivity|]. split; [exact Hi|]. split; [exact Hb|].
    apply in_map_iff. exists r. auto.
  - (* BopTagFetchString *)
    destruct (buf_tag_fetch_string_refines b cap Hi Hop) as (r & He & Hin).
    rewrite He. cbn [bind]. eexists _, b. split; [reflexivity|]. split; [exact Hi|]. split; [exact Hb|].
    apply in_map_iff. exists r. auto.
  - (* BopTagFetchStrdup *)
    destruct (buf_tag_fetch_strdup_refines ok b Hi) as (r & He & Hin).
    rewrite He. cbn [bind]. eexists _, b. split; [reflexivity|]. split; [exact Hi|]. split; [exact Hb|].
    apply in_map_iff. exists r. auto.
  - (* BopTagFetchConstbuf *)
    destruct (buf_tag_fetch_constbuf_refines ok b Hi) as (st & nb & He & Hin & Hnb).
    rewrite He. cbn [bind fst snd].
    destruct nb as [x|].
    + rewrite buf_peek_refines by exact Hnb. cbn [bind]. rewrite buf_abs_post.
      eexists _, b. split; [reflexivity|]. split; [exact Hi|]. split; [exact Hb|].
      apply in_map_iff. eexists (st, _). split; [|exact Hin]. reflexivity.
    + eexists _, b. split; [reflexivity|]. split; [exact Hi|]. split; [exact Hb|].
      apply in_map_iff. eexists (st, _). split; [|exact Hin]. reflexivity.
  - (* BopSetLength *)
    destruct Hop as [Hl Hf].
    destruct (buf_set_length_fill_refines b len fill Hi Hl) as (st & b' & He & Hi' & Hin & Hb' & _).
    rewrite He. cbn [bind fst snd]. eexists _, b'. split; [reflexivity|]. split; [exact Hi'|].
    split; [apply Hb'; assumption|]. apply in_map_iff. exists (st, buf_abs b'). auto.
  - (* BopSetPosition *)
    cbn [bufs_contract] in Hc.
    destruct (buf_set_position_refines b idx Hi Hop Hc) as (st & b' & He & Hi' & Hs).
    rewrite He. cbn [bind fst snd]. eexists _, b'. split; [reflexivity|]. split; [exact Hi'|].
    split.
    + rewrite buf_set_position_ok in He. destruct (idx >? cb_dlen b); injection He as _ <-; exact Hb.
    + rewrite <- Hs. left. reflexivity.
  - (* BopReclaim *)
    destruct (buf_reclaim_refines b Hi) as (b' & He & Hi' & Hs & _ & _ & _ & _ & Hb').
    rewrite He. cbn [bind]. eexists _, b'. split; [reflexivity|]. split; [exact Hi'|].
    split; [apply Hb', Hb|]. rewrite Hs. left. reflexivity.
  - (* BopWhitespace *)
    destruct (buf_consume_whitespace_refines b include_linefeed Hi) as (i & b' & He & Hi' & Hm & Hs).
    rewrite He. cbn [bind fst snd]. eexists _, b'. split; [reflexivity|]. split; [exact Hi'|].
    split; [rewrite Hm; exact Hb|]. rewrite <- Hs. left. reflexivity.
  - (* BopNonWhitespace *)
    destruct (buf_consume_nonwhitespace_refines b Hi) as (i & b' & He & Hi' & Hm & Hs).
    rewrite He. cbn [bind fst snd]. eexists _, b'. split; [reflexivity|]. split; [exact Hi'|].
    split; [rewrite Hm; exact Hb|]. rewrite <- Hs. left. reflexivity.
  - (* BopLine *)
    destruct (buf_consume_line_refines b include_linefeed Hi) as (i & b' & He & Hi' & Hm & Hs).
    rewrite He. cbn [bind fst snd]. eexists _, b'. split; [reflexivity|]. split; [exact Hi'|].
    split; [rewrite Hm; exact Hb|]. rewrite <- Hs. left. reflexivity.
  - (* BopCharset *)
    destruct (buf_consume_charset_refines b cs Hi) as (i & b' & He & Hi' & Hm & Hs).
    rewrite He. cbn [bind fst snd]. eexists _, b'. split; [reflexivity|]. split; [exact Hi'|].
    split; [rewrite Hm; exact Hb|]. rewrite <- Hs. left. reflexivity.
  - (* BopUntilCharset *)
    destruct (buf_consume_until_charset_refines b cs require Hi) as (i & b' & He & Hi' & Hm & Hs).
    rewrite He. cbn [bind fst snd]. eexists _, b'. split; [reflexivity|]. split; [exact Hi'|].
    split; [rewrite Hm; exact Hb|]. rewrite <- Hs. left. reflexivity.
  - (* BopBeginsWith *)
    rewrite buf_begins_with_refines by exact Hi. cbn [bind].
    eexists _, b. split; [reflexivity|]. split; [exact Hi|]. split; [exact Hb|]. left. reflexivity.
  - (* BopSplit *)
    destruct Hop as [Hfl Hmx].
    destruct (split_refines ok_arr b delims flags max_sections Hi Hfl Hmx) as (st & b' & pieces & He & Hi' & Hm & Hin).
    rewrite He. cbn [bind fst snd]. eexists _, b'. split; [reflexivity|]. split; [exact Hi'|].
    split; [rewrite Hm; exact Hb | exact Hin].
  - (* BopFinishBin *)
    destruct (buf_finish_refines junk ok b false Hi) as (r & b' & He & Hi' & Hb' & Hin).
    cbn beta iota in He. rewrite He. cbn [bind fst snd].
    destruct r as [bytes|].
    + eexists _, buf_empty. split; [reflexivity|]. split; [apply buf_empty_inv|]. split; [constructor|].
      rewrite buf_empty_abs. exact Hin.
    + eexists _, b'. split; [reflexivity|]. split; [exact Hi'|]. split; [apply Hb'; assumption | exact Hin].
  - (* BopFinishStr *)
    destruct (buf_finish_refines junk ok b true Hi) as (r & b' & He & Hi' & Hb' & Hin).
    cbn beta iota in He. rewrite He. cbn [bind fst snd].
    destruct r as [bytes|].
    + eexists _, buf_empty. split; [reflexivity|]. split; [apply buf_empty_inv|]. split; [constructor|].
      rewrite buf_empty_abs. exact Hin.
    + eexists _, b'. split; [reflexivity|]. split; [exact Hi'|]. split; [apply Hb'; assumption | exact Hin].
  - (* BopNew *)
    rewrite buf_create_eq. destruct ok.
    + eexists _, buf_empty. split; [reflexivity|]. split; [apply buf_empty_inv|]. split; [constructor|].
      left. reflexivity.
    + eexists _, b. split; [reflexivity|]. split; [exact Hi|]. split; [exact Hb|]. left. reflexivity.
  - (* BopNewConst *)
    destruct Hop as [Hbs Hl]. rewrite buf_create_const_eq.
    pose proof (buf_zlen_nonneg bytes) as Hn.
    destruct (Z.eqb_spec (buf_zlen bytes) 0) as [He | Hne]; cbn [orb negb].
    + eexists _, b. split; [reflexivity|]. split; [exact Hi|]. split; [exact Hb|].
      rewrite andb_false_r. left. reflexivity.
    + destruct ok; cbn [negb andb].
      * destruct (buf_const_inv bytes) as [Hci Hca]; [lia|].
        eexists _, _. split; [reflexivity|]. split; [exact Hci|]. split; [exact Hbs|].
        rewrite Hca. left. reflexivity.
      * eexists _, b. split; [reflexivity|]. split; [exact Hi|]. split; [exact Hb|]. left. reflexivity.
  - (* BopAppendNumDec *)
    destruct Hop as [Hn Hl]. rewrite buf_append_num_dec_eq by assumption.
    destruct (buf_append_refines junk ok b (bufs_num_bytes 10 bufs_dec_char num len) Hi) as (st & b' & He & Hi' & Hin & Hb' & _).
    { apply buf_num_bytes_lim; [lia | exact Hn | exact Hl]. }
    rewrite He. cbn [bind fst snd]. eexists _, b'. split; [reflexivity|]. split; [exact Hi'|].
    split; [apply Hb'; try assumption; apply bufs_num_bytes_ok_dec|]. apply in_map_iff. exists (st, buf_abs b'). auto.
  - (* BopAppendNumHex *)
    destruct Hop as [Hn Hl]. rewrite buf_append_num_hex_eq by assumption.
    destruct (buf_append_refines junk ok b (bufs_num_bytes 16 bufs_hex_char num len) Hi) as (st & b' & He & Hi' & Hin & Hb' & _).
    { apply buf_num_bytes_lim; [lia | exact Hn | exact Hl]. }
    rewrite He. cbn [bind fst snd]. eexists _, b'. split; [reflexivity|]. split; [exact Hi'|].
    split; [apply Hb'; try assumption; apply bufs_num_bytes_ok_hex|]. apply in_map_iff. exists (st, buf_abs b'). auto.
  - (* BopParseBinstr *)
    destruct (buf_parse_dns_binstr_refines junk ok1 ok2 b remaining_len want validate Hi (buf_remaining_bytes_ok b Hb) Hop)
      as (st & b' & out & He & Hi' & Hm & Hs).
    rewrite He. cbn [bind fst snd].
    exists (match out with None => mkBufObs st [] [] | Some bytes => mkBufObs st [buf_zlen bytes - 1] [bytes] end), b'.
    split; [destruct out; reflexivity|]. split; [exact Hi'|]. split; [rewrite Hm; exact Hb|].
    rewrite <- Hs. cbn [fst snd]. left. destruct out; reflexivity.
  - (* BopSplitFailAt *)
    destruct Hop as (Hn & Hfl & Hmx).
    destruct (split_fail_refines n b delims flags max_sections Hi Hn Hfl Hmx) as (st & b' & pieces & He & Hi' & Hm & Hin).
    rewrite He. cbn [bind fst snd]. eexists _, b'. split; [reflexivity|]. split; [exact Hi'|].
    split; [rewrite Hm; exact Hb | exact Hin].
Qed.
End StepRefines.

(* ------------------------------------------------------------------------------------- *)
(* Lifting to operation sequences                                                          *)
(* ------------------------------------------------------------------------------------- *)
Lemma buf_list_eqb_refl l : buf_list_eqb l l = true.
Proof. induction l as [|x l IH]; cbn [buf_list_eqb]; [reflexivity|]. rewrite Z.eqb_refl, IH. reflexivity. Qed.
Lemma buf_zlists_eqb_refl l : buf_zlists_eqb l l = true.
Proof. induction l as [|x l IH]; cbn [buf_zlists_eqb]; [reflexivity|]. rewrite buf_list_eqb_refl, IH. reflexivity. Qed.
Lemma bobs_eqb_refl o : bobs_eqb o o = true.
Proof. unfold bobs_eqb. rewrite Z.eqb_refl, buf_list_eqb_refl, buf_zlists_eqb_refl. reflexivity. Qed.
Lemma bview_eqb_refl v : bview_eqb v v = true.
Proof. unfold bview_eqb. rewrite !Z.eqb_refl, buf_list_eqb_refl. reflexivity. Qed.

Lemma bufs_monitor_step_in states op s o s' :
  In s states -> In (o, s') (bufs_alts s op) -> In s' (bufs_monitor_step states op o (bufs_view s')).
Proof.
  intros Hs Ha. unfold bufs_monitor_step. apply nodup_In. apply in_flat_map. exists s. split; [exact Hs|].
  apply in_map_iff. exists (o, s'). split; [reflexivity|].
  apply filter_In. split; [exact Ha|]. cbn [fst snd]. rewrite bobs_eqb_refl, bview_eqb_refl. reflexivity.
Qed.

Section RunRefines.
Variable junk : Z -> Z.
Hypothesis junk_bytes : forall i, 0 <= junk i < 256.
Hypothesis split_refines : forall ok_arr b delims flags max_sections,
  buf_inv b -> 0 <= flags -> 0 <= max_sections ->
  exists st b' pieces, buf_split ok_arr (fun _ => true) b delims flags max_sections = Ok (st, b', pieces) /\
    buf_inv b' /\ cb_mem b' = cb_mem b /\
    In (mkBufObs st [buf_zlen pieces] pieces, buf_abs b') (bufs_split_alts ok_arr (buf_abs b) delims flags max_sections).
Hypothesis split_fail_refines : forall n b delims flags max_sections,
  buf_inv b -> 0 <= n -> 0 <= flags -> 0 <= max_sections ->
  exists st b' pieces, buf_split_fail_at n b delims flags max_sections = Ok (st, b', pieces) /\
    buf_inv b' /\ cb_mem b' = cb_mem b /\
    In (mkBufObs st [buf_zlen pieces] pieces, buf_abs b') (bufs_split_fail_alts n (buf_abs b) delims flags max_sections).

Lemma buf_run_refines_gen ops : forall b states,
  buf_inv b -> buf_bytes_ok (cb_mem b) -> Forall buf_op_ok ops -> In (buf_abs b) states ->
  exists tr, buf_run_checked junk b ops = Ok tr /\ bufs_accepts states ops tr = true.
Proof.
  induction ops as [|op ops IH]; intros b states Hi Hb Hops Hin.
  - exists []. split; reflexivity.
  - inversion Hops as [|x l Hop Hrest]; subst.
    cbn [buf_run_checked bufs_accepts].
    destruct (bufs_contract (buf_abs b) op) eqn:Hc.
    + destruct (buf_step_refines_gen junk junk_bytes split_refines split_fail_refines b op Hi Hb Hop Hc) as (o & b' & Hs & Hi' & Hb' & Halt).
      rewrite Hs. cbn [bind fst snd]. rewrite buf_observe_refines by exact Hi'. cbn [bind].
      pose proof (bufs_monitor_step_in states op (buf_abs b) o (buf_abs b') Hin Halt) as Hmon.
      destruct (IH b' (bufs_monitor_step states op o (bufs_view (buf_abs b'))) Hi' Hb' Hrest Hmon) as (tl & Hrun & Hacc).
      rewrite Hrun. cbn [bind]. eexists. split; [reflexivity|].
      destruct (forallb (fun s => bufs_contract s op) states); [|reflexivity].
      destruct (bufs_monitor_step states op o (bufs_view (buf_abs b'))) as [|s0 ss] eqn:Em; [destruct Hmon|].
      exact Hacc.
    + exists []. split; [reflexivity|].
      destruct (forallb (fun s => bufs_contract s op) states) eqn:Ef; [|reflexivity].
      rewrite forallb_forall in Ef. rewrite (Ef _ Hin) in Hc. discriminate.
Qed.
End RunRefines.

(* ------------------------------------------------------------------------------------- *)
(* split, stage 1: the loop over the buffer refines the same loop over the abstract cursor   *)
(* ------------------------------------------------------------------------------------- *)
Fixpoint bufs_split_loop (fuel : nat) (s : bspec) (delims : list Z) (flags max_sections : Z)
         (first : bool) (arr : list (list Z)) : option (bspec * list (list Z)) :=
  match fuel with
  | O => None
  | S f =>
    if bufs_len s =? 0 then Some (s, arr)
    else
      let s1 := if first then bufs_tag s
                else if buf_flag flags ARES_BUF_SPLIT_KEEP_DELIMS then snd (bufs_consume (bufs_tag s) 1)
                     else bufs_tag (snd (bufs_consume s 1)) in
      let s2 := if bufs_split_full max_sections arr then snd (bufs_consume s1 (bufs_len s1))
                else snd (bufs_until_charset s1 delims false) in
      bufs_split_loop f s2 delims flags max_sections false (bufs_split_emit flags arr (rev (bufs_tagged s2)))
  end.

Lemma bufs_split_emit_eq flags arr sect :
  bufs_split_emit flags arr (rev sect) =
  let sect := if buf_flag flags ARES_BUF_SPLIT_LTRIM then buf_ltrim sect else sect in
  let sect := if buf_flag flags ARES_BUF_SPLIT_RTRIM then buf_rtrim sect else sect in
  if negb (buf_zlen sect =? 0) || buf_flag flags ARES_BUF_SPLIT_ALLOW_BLANK
  then if negb (buf_flag flags ARES_BUF_SPLIT_NO_DUPLICATES) || negb (buf_split_isdup arr sect flags)
       then arr ++ [sect] else arr
  else arr.
Proof. unfold bufs_split_emit. rewrite rev_involutive. reflexivity. Qed.

Lemma buf_split_loop_refines delims flags max_sections :
  forall fuel b first arr, buf_inv b ->
  match bufs_split_loop fuel (buf_abs b) delims flags max_sections first arr with
  | None => True
  | Some (s', pieces) =>
    exists b', buf_split_loop fuel (fun _ => true) b delims flags max_sections first arr = Ok (ARES_SUCCESS, b', pieces) /\
               buf_inv b' /\ cb_mem b' = cb_mem b /\ buf_abs b' = s'
  end.
Proof.
  induction fuel as [|f IH]; intros b first arr Hi; [exact I|].
  cbn [bufs_split_loop buf_split_loop].
  rewrite buf_len_refines by exact Hi. cbn [bind].
  destruct (Z.eqb_spec (bufs_len (buf_abs b)) 0) as [Hz | Hnz].
  { exists b. auto. }
  (* after tagging / eating the delimiter *)
  assert (exists b1, (if first then buf_tag b
                      else if buf_flag flags ARES_BUF_SPLIT_KEEP_DELIMS
                           then do t <- buf_tag b; do r <- buf_consume t 1; Ok (snd r)
                           else do r <- buf_consume b 1; buf_tag (snd r)) = Ok b1 /\
                     buf_inv b1 /\ cb_mem b1 = cb_mem b /\
                     buf_abs b1 = (if first then bufs_tag (buf_abs b)
                                   else if buf_flag flags ARES_BUF_SPLIT_KEEP_DELIMS
                                        then snd (bufs_consume (bufs_tag (buf_abs b)) 1)
                                        else bufs_tag (snd (bufs_consume (buf_abs b) 1)))) as (b1 & He1 & Hi1 & Hm1 & Ha1).
  { destruct first.
    - destruct (buf_tag_refines b Hi) as (b1 & He & Hi1 & Ha). exists b1.
      split; [exact He|]. split; [exact Hi1|]. split; [injection He as <-; reflexivity | exact Ha].
    - destruct (buf_flag flags ARES_BUF_SPLIT_KEEP_DELIMS).
      + destruct (buf_tag_refines b Hi) as (t & He & Hit & Hat). rewrite He. cbn [bind].
        destruct (buf_consume_refines t 1 Hit) as (st & b1 & Hc & Hi1 & Hs); [lia|]. rewrite Hc. cbn [bind snd].
        exists b1. split; [reflexivity|]. split; [exact Hi1|]. split.
        * injection He as <-. rewrite buf_consume_ok in Hc by (try exact Hit; lia).
          destruct (cb_dlen (buf_with_tag b (cb_off b)) - cb_off (buf_with_tag b (cb_off b)) <? 1); injection Hc as _ <-; reflexivity.
        * rewrite <- Hat, <- Hs. reflexivity.
      + destruct (buf_consume_refines b 1 Hi) as (st & c & Hc & Hic & Hs); [lia|]. rewrite Hc. cbn [bind snd].
        destruct (buf_tag_refines c Hic) as (b1 & He & Hi1 & Ha). exists b1. split; [exact He|]. split; [exact Hi1|]. split.
        * injection He as <-. rewrite buf_consume_ok in Hc by (try exact Hi; lia).
          destruct (cb_dlen b - cb_off b <? 1); injection Hc as _ <-; reflexivity.
        * rewrite Ha, <- Hs. reflexivity. }
  rewrite He1. cbn [bind].
  (* the section *)
  assert (exists b2, (if negb (max_sections =? 0) && (buf_zlen arr >=? buf_w64 (max_sections - 1))
                      then do l1 <- buf_len b1; do r <- buf_consume b1 l1; Ok (snd r)
                      else do r <- buf_consume_until_charset b1 delims false; Ok (snd r)) = Ok b2 /\
                     buf_inv b2 /\ cb_mem b2 = cb_mem b1 /\
                     buf_abs b2 = (if bufs_split_full max_sections arr then snd (bufs_consume (buf_abs b1) (bufs_len (buf_abs b1)))
                                   else snd (bufs_until_charset (buf_abs b1) delims false))) as (b2 & He2 & Hi2 & Hm2 & Ha2).
  { unfold bufs_split_full.
    destruct (negb (max_sections =? 0) && (buf_zlen arr >=? buf_w64 (max_sections - 1))).
    - rewrite buf_len_refines by exact Hi1. cbn [bind].
      destruct (buf_consume_refines b1 (bufs_len (buf_abs b1)) Hi1) as (st & b2 & Hc & Hi2 & Hs).
      { unfold bufs_len. apply buf_zlen_nonneg. }
      rewrite Hc. cbn [bind snd]. exists b2. split; [reflexivity|]. split; [exact Hi2|]. split.
      + rewrite buf_consume_ok in Hc by (try exact Hi1; unfold bufs_len; apply buf_zlen_nonneg).
        destruct (cb_dlen b1 - cb_off b1 <? bufs_len (buf_abs b1)); injection Hc as _ <-; reflexivity.
      + rewrite <- Hs. reflexivity.
    - destruct (buf_consume_until_charset_refines b1 delims false Hi1) as (i & b2 & Hc & Hi2 & Hm & Hs).
      rewrite Hc. cbn [bind snd]. exists b2. split; [reflexivity|]. split; [exact Hi2|]. split; [exact Hm|].
      rewrite <- Hs. reflexivity. }
  rewrite He2. cbn [bind].
  (* the tag is set and the buffer holds data: the section is the tagged region *)
  assert (cb_tag b2 <> BUF_SIZE_MAX /\ cb_hasdata b2 = true) as [Htag2 Hd2].
  { assert (bs_tag (buf_abs b2) <> None) as Hsome.
    { rewrite Ha2, Ha1. unfold bufs_until_charset, bufs_consume, bufs_consume_ret.
      repeat match goal with |- context [if ?c then _ else _] => destruct c end; cbn [snd bufs_tag bufs_advance bs_tag]; discriminate. }
    split.
    - intros He. apply Hsome. cbn [buf_abs bs_tag]. rewrite He, Z.eqb_refl. reflexivity.
    - destruct (cb_hasdata b2) eqn:Hd; [reflexivity|]. exfalso.
      assert (cb_mem b2 = []) as Hmem.
      { destruct Hi2 as (_ & _ & [Hs | [Hs | Hs]]); [destruct Hs as (_ & _ & Hm0 & _); exact Hm0 | destruct Hs as (Hd' & _); congruence | destruct Hs as (Hd' & _); congruence]. }
      rewrite Hm2, Hm1 in Hmem. apply Hnz. unfold bufs_len. rewrite buf_abs_post.
      unfold buf_remaining, buf_data. rewrite Hmem. unfold buf_take, buf_drop. rewrite firstn_nil, skipn_nil. reflexivity. }
  unfold buf_tag_fetch. replace (cb_tag b2 =? BUF_SIZE_MAX) with false by (symmetry; apply Z.eqb_neq; exact Htag2).
  rewrite Hd2. cbn [orb negb].
  destruct (buf_tagged_read b2 Hi2 Htag2) as (_ & Hz2 & Hr2).
  pose proof (buf_inv_tag_ne b2 Hi2 Htag2) as Ht2. pose proof (buf_inv_mem_len b2 Hi2) as [_ Hl2].
  rewrite buf_w64_small by (destruct Hi2 as (Ho2 & _); buf_consts; lia).
  rewrite Hr2. cbn [bind].
  rewrite bufs_split_emit_eq. cbn zeta.
  specialize (IH b2 false (bufs_split_emit flags arr (rev (bufs_tagged (buf_abs b2)))) Hi2).
  rewrite Ha2, Ha1 in IH. rewrite Ha2, Ha1.
  rewrite bufs_split_emit_eq in IH. cbn zeta in IH.
  match type of IH with
  | match ?X with _ => _ end => destruct X as [[s' pieces]|] eqn:Eloop; [|exact I]
  end.
  destruct IH as (b' & Hloop & Hi' & Hm' & Ha').
  exists b'. split; [|split; [exact Hi' | split; [rewrite Hm', Hm2, Hm1; reflexivity | exact Ha']]].
  rewrite <- Hloop. rewrite <- Ha1, <- Ha2.
  set (sect0 := bufs_tagged (buf_abs b2)).
  set (sect1 := if buf_flag flags ARES_BUF_SPLIT_LTRIM then buf_ltrim sect0 else sect0).
  set (sect2 := if buf_flag flags ARES_BUF_SPLIT_RTRIM then buf_rtrim sect1 else sect1).
  destruct (negb (buf_zlen sect2 =? 0) || buf_flag flags ARES_BUF_SPLIT_ALLOW_BLANK); [|reflexivity].
  destruct (negb (buf_flag flags ARES_BUF_SPLIT_NO_DUPLICATES) || negb (buf_split_isdup arr sect2 flags)); reflexivity.
Qed.

(* ------------------------------------------------------------------------------------- *)
(* split, stage 2: the loop over the abstract cursor computes the byte-by-byte machine       *)
(* ------------------------------------------------------------------------------------- *)
Lemma buf_take_succ {A} k (x : A) r : 0 <= k -> buf_take (1 + k) (x :: r) = x :: buf_take k r.
Proof. intros Hk. unfold buf_take. replace (Z.to_nat (1 + k)) with (S (Z.to_nat k)) by lia. reflexivity. Qed.
Lemma buf_drop_succ {A} k (x : A) r : 0 <= k -> buf_drop (1 + k) (x :: r) = buf_drop k r.
Proof. intros Hk. unfold buf_drop. replace (Z.to_nat (1 + k)) with (S (Z.to_nat k)) by lia. reflexivity. Qed.

Section SplitMachine.
Variables (delims : list Z) (flags max_sections : Z).
Notation go := (bufs_split_go delims flags max_sections).
Notation emit := (bufs_split_emit flags).
Notation full := (bufs_split_full max_sections).
Notation keep := (buf_flag flags ARES_BUF_SPLIT_KEEP_DELIMS).
Notation nondelim := (fun c => negb (buf_in_charset delims c)).

Lemma bufs_split_go_all acc cur pos start l :
  go acc cur true pos start l = (emit acc (rev l ++ cur), start).
Proof.
  revert cur pos. induction l as [|x r IH]; intros cur pos; cbn [bufs_split_go]; [reflexivity|].
  cbn [negb andb]. rewrite IH. cbn [rev]. rewrite <- app_assoc. reflexivity.
Qed.

Lemma bufs_split_go_span acc cur pos start l :
  go acc cur false pos start l =
  go acc (rev (buf_take (buf_span nondelim l) l) ++ cur) false (pos + buf_span nondelim l) start
     (buf_drop (buf_span nondelim l) l).
Proof.
  revert cur pos. induction l as [|x r IH]; intros cur pos.
  - cbn [buf_span]. rewrite Z.add_0_r. reflexivity.
  - cbn [buf_span]. destruct (buf_in_charset delims x) eqn:Ex; cbn [negb].
    + rewrite buf_take_0, buf_drop_0 by lia. rewrite Z.add_0_r. reflexivity.
    + pose proof (buf_span_bounds nondelim r) as Hb.
      rewrite buf_take_succ, buf_drop_succ by lia.
      cbn [bufs_split_go]. rewrite Ex. cbn [negb andb]. rewrite IH. cbn [rev].
      rewrite <- app_assoc. cbn [app]. f_equal. lia.
Qed.

Lemma buf_drop_span_head p l y r : buf_drop (buf_span p l) l = y :: r -> p y = false.
Proof.
  induction l as [|x l IH]; cbn [buf_span].
  - unfold buf_drop. rewrite skipn_nil. discriminate.
  - destruct (p x) eqn:Ex.
    + pose proof (buf_span_bounds p l) as Hb. rewrite buf_drop_succ by lia. exact IH.
    + rewrite buf_drop_0 by lia. intros H. injection H as <- _. exact Ex.
Qed.

Lemma bufs_split_go_shift k acc cur all pos start l :
  go acc cur all (pos + k) (start + k) l =
  (fst (go acc cur all pos start l), snd (go acc cur all pos start l) + k).
Proof.
  revert acc cur all pos start. induction l as [|x r IH]; intros acc cur all pos start; cbn [bufs_split_go].
  - reflexivity.
  - destruct (negb all && buf_in_charset delims x).
    + destruct keep.
      * replace (pos + k + 1) with (pos + 1 + k) by lia. apply IH.
      * replace (pos + k + 1) with (pos + 1 + k) by lia. apply IH.
    + replace (pos + k + 1) with (pos + 1 + k) by lia. apply IH.
Qed.

(* closed form of the cursor after collecting one section *)
Lemma bufs_section_state pre1 body T c arr : 0 < buf_zlen delims ->
  let s1 := mkBufSpec pre1 body (Some T) c in
  let n := if full arr then buf_zlen body else buf_span nondelim body in
  (if full arr then snd (bufs_consume s1 (bufs_len s1)) else snd (bufs_until_charset s1 delims false))
  = mkBufSpec (pre1 ++ buf_take n body) (buf_drop n body) (Some T) c.
Proof.
  intros Hd s1 n. unfold n. destruct (full arr).
  - unfold bufs_consume, bufs_len, s1. cbn [bs_post]. rewrite Z.ltb_irrefl. cbn [snd]. reflexivity.
  - unfold bufs_until_charset, bufs_len, s1. cbn [bs_post].
    replace (buf_zlen delims =? 0) with false by (symmetry; apply Z.eqb_neq; lia). rewrite orb_false_r.
    destruct (Z.eqb_spec (buf_zlen body) 0) as [Hz | Hnz].
    + apply buf_zlen_0 in Hz. subst body. cbn [snd buf_span]. rewrite buf_take_0, buf_drop_0 by lia.
      rewrite app_nil_r. reflexivity.
    + cbn [andb]. unfold bufs_consume_ret.
      destruct (Z.gtb_spec (buf_span nondelim body) 0) as [Hgt | Hle]; cbn [snd].
      * reflexivity.
      * pose proof (buf_span_bounds nondelim body) as Hb.
        replace (buf_span nondelim body) with 0 by lia.
        rewrite buf_take_0, buf_drop_0 by lia. rewrite app_nil_r. reflexivity.
Qed.

Lemma bufs_split_loop_machine : 0 < buf_zlen delims ->
  forall fuel pre post tag c (first : bool) arr,
  buf_zlen post + (if first then 1 else 0) < Z.of_nat fuel ->
  (first = false -> match post with [] => True | x :: _ => buf_in_charset delims x = true end) ->
  bufs_split_loop fuel (mkBufSpec pre post tag c) delims flags max_sections first arr =
  Some (match post with
        | [] => (mkBufSpec pre post tag c, arr)
        | x :: r =>
          let R := if first then go arr [] (full arr) 0 0 post
                   else go arr (if keep then [x] else []) (full arr) 1 (if keep then 0 else 1) r in
          (mkBufSpec (pre ++ post) [] (Some (buf_zlen pre + snd R)) c, fst R)
        end).
Proof.
  intros Hd. induction fuel as [|f IH]; intros pre post tag c first arr Hfuel Hhead.
  { pose proof (buf_zlen_nonneg post). destruct first; lia. }
  cbn [bufs_split_loop]. unfold bufs_len at 1. cbn [bs_post].
  destruct post as [|x r].
  { reflexivity. }
  rewrite buf_zlen_cons in *. pose proof (buf_zlen_nonneg r) as Hrn.
  replace (1 + buf_zlen r =? 0) with false by (symmetry; apply Z.eqb_neq; lia).
  (* the three ways of starting a section: (pre1, body, T, cur0, p0) *)
  set (pre1 := if first then pre else pre ++ [x]).
  set (body := if first then x :: r else r).
  set (T := if first then buf_zlen pre else if keep then buf_zlen pre else buf_zlen pre + 1).
  set (hd := if first then [] else if keep then [x] else @nil Z).
  set (p0 := if first then 0 else 1).
  assert ((if first then bufs_tag (mkBufSpec pre (x :: r) tag c)
           else if keep then snd (bufs_consume (bufs_tag (mkBufSpec pre (x :: r) tag c)) 1)
                else bufs_tag (snd (bufs_consume (mkBufSpec pre (x :: r) tag c) 1)))
          = mkBufSpec pre1 body (Some T) c) as Hs1.
  { unfold pre1, body, T. destruct first; [reflexivity|].
    assert (forall tg, bufs_consume (mkBufSpec pre (x :: r) tg c) 1 = (ARES_SUCCESS, mkBufSpec (pre ++ [x]) r tg c)) as Hc1.
    { intros tg. unfold bufs_consume, bufs_len. cbn [bs_post]. rewrite buf_zlen_cons.
      replace (1 + buf_zlen r <? 1) with false by (symmetry; apply Z.ltb_ge; lia). reflexivity. }
    destruct keep.
    - unfold bufs_tag. cbn [bs_pre bs_post bs_const]. rewrite Hc1. reflexivity.
    - rewrite Hc1. cbn [snd]. unfold bufs_tag, bufs_position. cbn [bs_pre bs_post bs_const].
      rewrite buf_zlen_app. reflexivity. }
  rewrite Hs1.
  pose proof (bufs_section_state pre1 body T c arr Hd) as Hs2. cbn zeta in Hs2. rewrite Hs2. clear Hs2.
  set (n := if full arr then buf_zlen body else buf_span nondelim body).
  assert (0 <= n <= buf_zlen body) as Hn.
  { unfold n. destruct (full arr); [pose proof (buf_zlen_nonneg body); lia | apply buf_span_bounds]. }
  assert (buf_zlen body <= buf_zlen r + 1) as Hbl.
  { unfold body. destruct first; [rewrite buf_zlen_cons|]; lia. }
  assert (buf_zlen pre1 = buf_zlen pre + p0) as Hp1.
  { unfold pre1, p0. destruct first; [lia|]. rewrite buf_zlen_app. reflexivity. }
  (* the tagged region of the section = hd ++ the collected bytes *)
  assert (bufs_tagged (mkBufSpec (pre1 ++ buf_take n body) (buf_drop n body) (Some T) c) = hd ++ buf_take n body) as Htg.
  { unfold bufs_tagged. cbn [bs_tag bs_pre]. unfold pre1, T, hd. destruct first.
    - rewrite buf_drop_app_exact by reflexivity. reflexivity.
    - destruct keep.
      + rewrite <- app_assoc. rewrite buf_drop_app_exact by reflexivity. reflexivity.
      + rewrite buf_drop_app_exact by (rewrite buf_zlen_app; reflexivity). reflexivity. }
  rewrite Htg.
  (* recursive call *)
  rewrite IH.
  2:{ rewrite buf_drop_zlen by lia. unfold body in *. rewrite Nat2Z.inj_succ in Hfuel. destruct first; [rewrite buf_zlen_cons in *|]; lia. }
  2:{ intros _. unfold n. destruct (full arr).
      - rewrite buf_drop_all by lia. exact I.
      - destruct (buf_drop (buf_span nondelim body) body) as [|y r2] eqn:Ed; [exact I|].
        apply buf_drop_span_head in Ed. apply negb_false_iff in Ed. exact Ed. }
  f_equal.
  (* what the machine computes for this section *)
  assert ((if first then go arr [] (full arr) 0 0 (x :: r)
           else go arr (if keep then [x] else []) (full arr) 1 (if keep then 0 else 1) r)
          = go arr (rev hd) (full arr) p0 (T - buf_zlen pre) body) as Hgo.
  { unfold hd, p0, T, body. destruct first; [rewrite Z.sub_diag; reflexivity|].
    destruct keep; [rewrite Z.sub_diag; reflexivity|]. replace (buf_zlen pre + 1 - buf_zlen pre) with 1 by lia. reflexivity. }
  cbn zeta. rewrite Hgo. clear Hgo.
  assert (pre1 ++ body = pre ++ x :: r) as Hall.
  { unfold pre1, body. destruct first; [reflexivity|]. rewrite <- app_assoc. reflexivity. }
  unfold n in *. clear n.
  destruct (full arr) eqn:Efull.
  - (* max_sections reached: the rest is one section *)
    rewrite buf_drop_all by lia. rewrite (buf_take_all (buf_zlen body) body) by lia.
    rewrite bufs_split_go_all. cbn [fst snd]. rewrite rev_app_distr.
    rewrite Hall. f_equal. f_equal. f_equal. lia.
  - rewrite bufs_split_go_span.
    set (k := buf_span nondelim body) in *.
    destruct (buf_drop k body) as [|y r2] eqn:Ed.
    + cbn [bufs_split_go fst snd]. rewrite rev_app_distr.
      assert (buf_take k body = body) as Htk.
      { rewrite <- (buf_take_drop k body) at 2. rewrite Ed, app_nil_r. reflexivity. }
      rewrite Htk, Hall. f_equal. f_equal. f_equal. lia.
    + assert (buf_in_charset delims y = true) as Hy.
      { apply buf_drop_span_head in Ed. apply negb_false_iff in Ed. exact Ed. }
      cbn [bufs_split_go]. rewrite Hy. cbn [negb andb].
      rewrite <- rev_app_distr.
      set (arr' := emit arr (rev (hd ++ buf_take k body))).
      assert ((pre1 ++ buf_take k body) ++ y :: r2 = pre ++ x :: r) as Hall2.
      { rewrite <- Hall. rewrite <- app_assoc. rewrite <- Ed. rewrite buf_take_drop. reflexivity. }
      rewrite Hall2.
      assert (buf_zlen (buf_take k body) = k) as Hkz by (apply buf_take_zlen; lia).
      assert (forall cur st0, go arr' cur (full arr') (p0 + k + 1) (st0 + (p0 + k)) r2 =
                              (fst (go arr' cur (full arr') 1 st0 r2), snd (go arr' cur (full arr') 1 st0 r2) + (p0 + k))) as Hshift.
      { intros cur st0. replace (p0 + k + 1) with (1 + (p0 + k)) by lia. apply bufs_split_go_shift. }
      destruct keep.
      * replace (go arr' [y] (full arr') (p0 + k + 1) (p0 + k) r2)
          with (go arr' [y] (full arr') (p0 + k + 1) (0 + (p0 + k)) r2) by (f_equal; lia).
        rewrite Hshift. cbn [fst snd].
        f_equal. f_equal. f_equal. rewrite buf_zlen_app, Hkz, Hp1. lia.
      * replace (go arr' [] (full arr') (p0 + k + 1) (p0 + k + 1) r2)
          with (go arr' [] (full arr') (p0 + k + 1) (1 + (p0 + k)) r2) by (f_equal; lia).
        rewrite Hshift. cbn [fst snd].
        f_equal. f_equal. f_equal. rewrite buf_zlen_app, Hkz, Hp1. lia.
Qed.
End SplitMachine.

(* ares_buf_split: the pieces are exactly what the byte-by-byte reference machine produces
   from the remaining bytes; afterwards everything is consumed and the tag marks the start of
   the last section; the 2 + length units of fuel are never exhausted; never UB *)
Theorem buf_split_refines ok_arr b delims flags max_sections :
  buf_inv b -> 0 <= flags -> 0 <= max_sections ->
  exists st b' pieces, buf_split ok_arr (fun _ => true) b delims flags max_sections = Ok (st, b', pieces) /\
    buf_inv b' /\ cb_mem b' = cb_mem b /\
    In (mkBufObs st [buf_zlen pieces] pieces, buf_abs b') (bufs_split_alts ok_arr (buf_abs b) delims flags max_sections).
Proof.
  intros Hi _ _. unfold buf_split, bufs_split_alts.
  pose proof (buf_zlen_nonneg delims) as Hdn.
  destruct (Z.eqb_spec (buf_zlen delims) 0) as [Hd0 | Hdne].
  { exists ARES_EFORMERR, b, []. split; [reflexivity|]. split; [exact Hi|]. split; [reflexivity|]. left. reflexivity. }
  destruct ok_arr; cbn [negb].
  2:{ exists ARES_ENOMEM, b, []. split; [reflexivity|]. split; [exact Hi|]. split; [reflexivity|]. left. reflexivity. }
  rewrite buf_len_refines by exact Hi. cbn [bind].
  pose proof (buf_split_loop_refines delims flags max_sections
                (S (S (Z.to_nat (bufs_len (buf_abs b))))) b true [] Hi) as Hloop.
  destruct (buf_abs b) as [pre post tag c] eqn:Eabs.
  unfold bufs_len in *. cbn [bs_post bs_pre bs_const] in *.
  pose proof (buf_zlen_nonneg post) as Hpn.
  rewrite (bufs_split_loop_machine delims flags max_sections) in Hloop; [| lia | lia | intros H; discriminate H].
  destruct post as [|x r].
  - destruct Hloop as (b' & He & Hi' & Hm & Ha). exists ARES_SUCCESS, b', [].
    split; [exact He|]. split; [exact Hi'|]. split; [exact Hm|]. rewrite Ha. left. reflexivity.
  - cbn zeta in Hloop. destruct Hloop as (b' & He & Hi' & Hm & Ha).
    eexists ARES_SUCCESS, b', _. split; [exact He|]. split; [exact Hi'|]. split; [exact Hm|].
    rewrite buf_zlen_cons. replace (1 + buf_zlen r =? 0) with false by (symmetry; apply Z.eqb_neq; pose proof (buf_zlen_nonneg r); lia).
    rewrite Ha. left. reflexivity.
Qed.

(* ------------------------------------------------------------------------------------- *)
(* split with an arbitrary per-piece allocation oracle: allocation failure in the MIDDLE     *)
(* ------------------------------------------------------------------------------------- *)
(* the buffer with only the cursor and the tag changed *)
Definition buf_at (b : cbuf) (o t : Z) : cbuf :=
  mkBuf (cb_mem b) (cb_dlen b) (cb_alloc b) o t (cb_hasdata b) (cb_hasabuf b).

Lemma buf_at_same b : buf_at b (cb_off b) (cb_tag b) = b.
Proof. destruct b; reflexivity. Qed.

Lemma buf_at_inv b o t : buf_inv b -> 0 <= t <= o -> o <= cb_dlen b -> buf_inv (buf_at b o t).
Proof.
  intros (Ho & Ht & Hs) H1 H2. split; [cbn; lia|]. split; [right; cbn; lia | exact Hs].
Qed.

Lemma buf_at_remaining b o t : buf_inv b -> cb_off b <= o <= cb_dlen b ->
  buf_remaining (buf_at b o t) = buf_drop (o - cb_off b) (buf_remaining b) /\
  buf_consumed (buf_at b o t) = buf_consumed b ++ buf_take (o - cb_off b) (buf_remaining b).
Proof.
  intros Hi Ho. pose proof (buf_data_zlen b Hi) as Hd. destruct Hi as (Hob & _).
  unfold buf_remaining, buf_consumed. change (buf_data (buf_at b o t)) with (buf_data b). cbn [buf_at cb_off].
  split.
  - rewrite buf_drop_drop by lia. f_equal. lia.
  - replace o with (cb_off b + (o - cb_off b)) at 1 by lia. apply buf_take_add; lia.
Qed.

Lemma buf_consume_at b o t n : buf_inv (buf_at b o t) -> 0 <= n <= cb_dlen b - o ->
  buf_consume (buf_at b o t) n = Ok (ARES_SUCCESS, buf_at b (o + n) t).
Proof.
  intros Hi Hn. rewrite buf_consume_ok by (try exact Hi; lia). cbn [buf_at cb_dlen cb_off].
  replace (cb_dlen b - o <? n) with false by (symmetry; apply Z.ltb_ge; lia). reflexivity.
Qed.

Lemma buf_until_charset_at b cs : buf_inv b ->
  exists i o2, buf_consume_until_charset b cs false = Ok (i, buf_at b o2 (cb_tag b)) /\
               cb_off b <= o2 <= cb_dlen b.
Proof.
  intros Hi. assert (0 <= cb_off b <= cb_dlen b) as Hob by (destruct Hi as (Ho & _); exact Ho).
  unfold buf_consume_until_charset. rewrite buf_fetch_ok by exact Hi. cbn [fst snd].
  destruct ((cb_dlen b - cb_off b =? 0) || (buf_zlen cs =? 0)) eqn:Eg.
  - exists 0, (cb_off b). rewrite buf_at_same. split; [reflexivity | lia].
  - apply orb_false_iff in Eg. destruct Eg as [E0 _].
    assert (fst (buf_fetch b) = false) as Hf by (rewrite buf_fetch_ok by exact Hi; exact E0).
    pose proof (buf_scan_ok b Hi Hf) as Hs. rewrite buf_fetch_ok in Hs by exact Hi. cbn [snd] in Hs.
    rewrite Hs. cbn [bind andb].
    pose proof (buf_span_bounds (fun c => negb (buf_in_charset cs c)) (buf_remaining b)) as Hsb.
    rewrite buf_remaining_zlen in Hsb by exact Hi.
    set (k := buf_span (fun c => negb (buf_in_charset cs c)) (buf_remaining b)) in *.
    unfold buf_consume_ret. destruct (k >? 0).
    + destruct (buf_advance_ok b k Hi) as (Hc & _); [lia|]. rewrite Hc. cbn [bind snd].
      exists k, (cb_off b + k). split; [destruct b; reflexivity | lia].
    + exists k, (cb_off b). rewrite buf_at_same. split; [reflexivity | lia].
Qed.

Definition buf_split_trimmed (flags : Z) (sect : list Z) : list Z :=
  let sect := if buf_flag flags ARES_BUF_SPLIT_LTRIM then buf_ltrim sect else sect in
  if buf_flag flags ARES_BUF_SPLIT_RTRIM then buf_rtrim sect else sect.
Definition buf_split_keeps (flags : Z) (arr : list (list Z)) (sect : list Z) : bool :=
  (negb (buf_zlen sect =? 0) || buf_flag flags ARES_BUF_SPLIT_ALLOW_BLANK) &&
  (negb (buf_flag flags ARES_BUF_SPLIT_NO_DUPLICATES) || negb (buf_split_isdup arr sect flags)).

(* one pass of the while loop: the section that is collected does not depend on the allocator *)
Lemma buf_split_loop_step delims flags max_sections b first arr :
  buf_inv b -> cb_dlen b - cb_off b <> 0 ->
  exists o2 t2 sect, cb_off b <= t2 <= o2 /\ o2 <= cb_dlen b /\
    forall okp f,
      buf_split_loop (S f) okp b delims flags max_sections first arr =
      if buf_split_keeps flags arr sect
      then if okp (length arr)
           then buf_split_loop f okp (buf_at b o2 t2) delims flags max_sections false (arr ++ [sect])
           else Ok (ARES_ENOMEM, buf_at b o2 t2, [])
      else buf_split_loop f okp (buf_at b o2 t2) delims flags max_sections false arr.
Proof.
  intros Hi Hne.
  assert (0 <= cb_off b <= cb_dlen b) as Hob by (destruct Hi as (Ho & _); exact Ho).
  pose proof (buf_inv_mem_len b Hi) as [_ Hlim].
  (* the buffer holds data *)
  assert (cb_hasdata b = true) as Hd.
  { destruct Hi as (_ & _ & [Hs | [Hs | Hs]]); [destruct Hs as (_ & _ & _ & Hz & _); lia | apply Hs | apply Hs]. }
  (* after tagging / eating the delimiter: offset o1, tag t1 *)
  set (o1 := if first then cb_off b else cb_off b + 1).
  set (t1 := if first then cb_off b else if buf_flag flags ARES_BUF_SPLIT_KEEP_DELIMS then cb_off b else cb_off b + 1).
  assert (cb_off b <= t1 <= o1 /\ o1 <= cb_dlen b) as Hb1.
  { unfold o1, t1. destruct first; [lia|]. destruct (buf_flag flags ARES_BUF_SPLIT_KEEP_DELIMS); lia. }
  assert (buf_inv (buf_at b o1 t1)) as Hi1 by (apply buf_at_inv; [exact Hi | lia | lia]).
  assert ((if first then buf_tag b
           else if buf_flag flags ARES_BUF_SPLIT_KEEP_DELIMS
                then do t <- buf_tag b; do r <- buf_consume t 1; Ok (snd r)
                else do r <- buf_consume b 1; buf_tag (snd r)) = Ok (buf_at b o1 t1)) as He1.
  { unfold o1, t1. destruct first; [reflexivity|].
    destruct (buf_flag flags ARES_BUF_SPLIT_KEEP_DELIMS).
    - change (buf_tag b) with (Ok (buf_at b (cb_off b) (cb_off b))). cbn [bind].
      rewrite buf_consume_at by (try (apply buf_at_inv; [exact Hi | lia | lia]); lia). reflexivity.
    - rewrite <- (buf_at_same b) at 1. rewrite buf_consume_at by (try (rewrite buf_at_same; exact Hi); lia).
      reflexivity. }
  (* the section *)
  assert (exists o2, o1 <= o2 <= cb_dlen b /\
            (if negb (max_sections =? 0) && (buf_zlen arr >=? buf_w64 (max_sections - 1))
             then do l1 <- buf_len (buf_at b o1 t1); do r <- buf_consume (buf_at b o1 t1) l1; Ok (snd r)
             else do r <- buf_consume_until_charset (buf_at b o1 t1) delims false; Ok (snd r)) = Ok (buf_at b o2 t1))
    as (o2 & Hb2 & He2).
  { destruct (negb (max_sections =? 0) && (buf_zlen arr >=? buf_w64 (max_sections - 1))).
    - rewrite buf_len_ok by exact Hi1. cbn [bind buf_at cb_dlen cb_off].
      rewrite buf_consume_at by (try exact Hi1; lia). cbn [bind snd].
      exists (cb_dlen b). split; [lia|]. f_equal. f_equal. lia.
    - destruct (buf_until_charset_at (buf_at b o1 t1) delims Hi1) as (i & o2 & Hc & Ho2).
      rewrite Hc. cbn [bind snd buf_at cb_tag cb_off cb_dlen] in *. exists o2. split; [lia | reflexivity]. }
  assert (buf_inv (buf_at b o2 t1)) as Hi2 by (apply buf_at_inv; [exact Hi | lia | lia]).
  assert (cb_tag (buf_at b o2 t1) <> BUF_SIZE_MAX) as Htag2 by (cbn [buf_at cb_tag]; buf_consts; lia).
  destruct (buf_tagged_read (buf_at b o2 t1) Hi2 Htag2) as (_ & _ & Hr2).
  cbn [buf_at cb_tag cb_off] in Hr2.
  exists o2, t1, (buf_split_trimmed flags (bufs_tagged (buf_abs (buf_at b o2 t1)))).
  split; [lia|]. split; [lia|]. intros okp f.
  cbn [buf_split_loop]. rewrite buf_len_ok by exact Hi. cbn [bind].
  replace (cb_dlen b - cb_off b =? 0) with false by (symmetry; apply Z.eqb_neq; exact Hne).
  rewrite He1. cbn [bind]. rewrite He2. cbn [bind].
  unfold buf_tag_fetch. cbn [buf_at cb_tag cb_hasdata cb_off].
  replace (t1 =? BUF_SIZE_MAX) with false by (symmetry; apply Z.eqb_neq; buf_consts; lia).
  rewrite Hd. cbn [orb negb]. rewrite buf_w64_small by (buf_consts; lia).
  rewrite Hr2. cbn [bind]. unfold buf_split_keeps, buf_split_trimmed.
  set (sect0 := bufs_tagged (buf_abs (buf_at b o2 t1))).
  set (sect1 := if buf_flag flags ARES_BUF_SPLIT_LTRIM then buf_ltrim sect0 else sect0).
  set (sect2 := if buf_flag flags ARES_BUF_SPLIT_RTRIM then buf_rtrim sect1 else sect1).
  destruct (negb (buf_zlen sect2 =? 0) || buf_flag flags ARES_BUF_SPLIT_ALLOW_BLANK); [|reflexivity].
  destruct (negb (buf_flag flags ARES_BUF_SPLIT_NO_DUPLICATES) || negb (buf_split_isdup arr sect2 flags)); reflexivity.
Qed.

Lemma buf_split_loop_done delims flags max_sections okp f b first arr :
  buf_inv b -> cb_dlen b - cb_off b = 0 ->
  buf_split_loop (S f) okp b delims flags max_sections first arr = Ok (ARES_SUCCESS, b, arr).
Proof.
  intros Hi Hz. cbn [buf_split_loop]. rewrite buf_len_ok by exact Hi. cbn [bind]. rewrite Hz. reflexivity.
Qed.

(* the run with an arbitrary oracle next to the run in which every request is granted *)
Lemma buf_split_loop_okp okp delims flags max_sections :
  forall fuel b first arr st b' pieces, buf_inv b ->
  buf_split_loop fuel (fun _ => true) b delims flags max_sections first arr = Ok (st, b', pieces) ->
  st = ARES_SUCCESS /\ (exists ext, pieces = arr ++ ext) /\
  ( (buf_split_loop fuel okp b delims flags max_sections first arr = Ok (st, b', pieces) /\
     forall i, (length arr <= i < length pieces)%nat -> okp i = true)
    \/
    (exists k o t, (length arr <= k < length pieces)%nat /\ okp k = false /\
       (forall i, (length arr <= i < k)%nat -> okp i = true) /\
       buf_split_loop fuel okp b delims flags max_sections first arr = Ok (ARES_ENOMEM, buf_at b o t, []) /\
       cb_off b <= t <= o /\ o <= cb_dlen b) ).
Proof.
  induction fuel as [|f IH]; intros b first arr st b' pieces Hi Hrun; [discriminate Hrun|].
  destruct (Z.eq_dec (cb_dlen b - cb_off b) 0) as [Hz | Hnz].
  - rewrite buf_split_loop_done in Hrun by assumption. injection Hrun as <- <- <-.
    split; [reflexivity|]. split; [exists []; rewrite app_nil_r; reflexivity|]. left.
    split; [apply buf_split_loop_done; assumption | intros i Hr; lia].
  - destruct (buf_split_loop_step delims flags max_sections b first arr Hi Hnz) as (o2 & t2 & sect & Hb1 & Hb2 & Hstep).
    assert (buf_inv (buf_at b o2 t2)) as Hi2.
    { assert (0 <= cb_off b) by (destruct Hi as (Ho & _); lia). apply buf_at_inv; [exact Hi | lia | lia]. }
    rewrite Hstep in Hrun. rewrite Hstep.
    destruct (buf_split_keeps flags arr sect).
    + (* the section is a piece *)
      destruct (IH (buf_at b o2 t2) false (arr ++ [sect]) st b' pieces Hi2 Hrun) as (Hst & (ext & Hext) & Hdich).
      split; [exact Hst|]. split; [exists (sect :: ext); rewrite Hext, <- app_assoc; reflexivity|].
      assert (length pieces = (length arr + 1 + length ext)%nat) as Hlen
        by (rewrite Hext, !app_length; cbn [length]; lia).
      rewrite app_length in Hdich. cbn [length] in Hdich.
      destruct (okp (length arr)) eqn:Eok.
      * destruct Hdich as [(Hsame & Hall) | (k & o & t & Hk & Hkf & Hbefore & Hfail & Hbt & Hbo)].
        -- left. split; [exact Hsame|]. intros i Hr.
           destruct (Nat.eq_dec i (length arr)) as [-> | Hne]; [exact Eok | apply Hall; lia].
        -- right. exists k, o, t. split; [lia|]. split; [exact Hkf|]. split.
           ++ intros i Hr. destruct (Nat.eq_dec i (length arr)) as [-> | Hne]; [exact Eok | apply Hbefore; lia].
           ++ split; [exact Hfail|]. cbn [buf_at cb_off cb_dlen] in Hbt, Hbo. split; lia.
      * right. exists (length arr), o2, t2. split; [lia|]. split; [exact Eok|].
        split; [intros i Hr; lia|]. split; [reflexivity|]. split; lia.
    + (* dropped: blank or duplicate *)
      destruct (IH (buf_at b o2 t2) false arr st b' pieces Hi2 Hrun) as (Hst & Hext & Hdich).
      split; [exact Hst|]. split; [exact Hext|].
      destruct Hdich as [Hl | (k & o & t & Hk & Hkf & Hbefore & Hfail & Hbt & Hbo)]; [left; exact Hl|].
      right. exists k, o, t. split; [exact Hk|]. split; [exact Hkf|]. split; [exact Hbefore|].
      split; [exact Hfail|]. cbn [buf_at cb_off cb_dlen] in Hbt, Hbo. split; lia.
Qed.

(* ares_buf_split under ANY behaviour of the allocator during the call ([okp i] = the requests
   for the i-th piece are granted).  Either no request of a piece the split produces is refused
   and the result is the result of the run in which nothing is refused; or the requests of the
   first k pieces are granted, one for piece k is refused, and the call returns ARES_ENOMEM
   WITHOUT pieces (the k finished ones are destroyed with the array).  In that case nothing of
   the buffer's memory, data_len, alloc_buf_len or pointers has changed; NOT restored are the
   cursor - it stays behind the section of piece k, inside the input - and the tag: the
   caller's tag is overwritten with the start of that section (as it is on success).  The
   remaining bytes are a suffix of the remaining bytes before the call.  Never UB, never out
   of fuel. *)
Theorem buf_split_okp okp b delims flags max_sections :
  buf_inv b -> 0 <= flags -> 0 <= max_sections ->
  exists st b' pieces,
    buf_split true (fun _ => true) b delims flags max_sections = Ok (st, b', pieces) /\
    ( (buf_split true okp b delims flags max_sections = Ok (st, b', pieces) /\
       forall i, (i < length pieces)%nat -> okp i = true)
      \/
      (exists k o t, (k < length pieces)%nat /\ okp k = false /\ (forall i, (i < k)%nat -> okp i = true) /\
         buf_split true okp b delims flags max_sections = Ok (ARES_ENOMEM, buf_at b o t, []) /\
         cb_off b <= t <= o /\ o <= cb_dlen b /\ buf_inv (buf_at b o t) /\
         buf_remaining (buf_at b o t) = buf_drop (o - cb_off b) (buf_remaining b) /\
         buf_consumed (buf_at b o t) = buf_consumed b ++ buf_take (o - cb_off b) (buf_remaining b)) ).
Proof.
  intros Hi Hf Hm.
  destruct (buf_split_refines true b delims flags max_sections Hi Hf Hm) as (st & b' & pieces & He & _).
  exists st, b', pieces. split; [exact He|].
  unfold buf_split in *. destruct (buf_zlen delims =? 0); [left; split; [exact He | injection He as _ _ <-; intros i Hr; cbn [length] in Hr; lia]|].
  cbn [negb] in *. rewrite buf_len_ok in * by exact Hi. cbn [bind] in *.
  destruct (buf_split_loop_okp okp delims flags max_sections _ b true [] st b' pieces Hi He) as (_ & _ & Hdich).
  destruct Hdich as [(Hsame & Hall) | (k & o & t & Hk & Hkf & Hbefore & Hfail & Hbt & Hbo)].
  - left. split; [exact Hsame|]. intros i Hr. apply Hall. cbn [length]. lia.
  - right. exists k, o, t. cbn [length] in Hk. split; [lia|]. split; [exact Hkf|].
    split; [intros i Hr; apply Hbefore; cbn [length]; lia|]. split; [exact Hfail|].
    assert (0 <= cb_off b) by (destruct Hi as (Ho & _); lia).
    split; [exact Hbt|]. split; [exact Hbo|]. split; [apply buf_at_inv; [exact Hi | lia | lia]|].
    apply buf_at_remaining; [exact Hi | lia].
Qed.

Lemma bufs_zseq_in from n i : (i < n)%nat -> In (from + Z.of_nat i) (bufs_zseq from n).
Proof. intros H. unfold bufs_zseq. apply in_map_iff. exists i. split; [reflexivity|]. apply in_seq. lia. Qed.

(* the split with the n-th allocation request refused, against the byte-queue specification *)
Theorem buf_split_fail_at_refines n b delims flags max_sections :
  buf_inv b -> 0 <= n -> 0 <= flags -> 0 <= max_sections ->
  exists st b' pieces, buf_split_fail_at n b delims flags max_sections = Ok (st, b', pieces) /\
    buf_inv b' /\ cb_mem b' = cb_mem b /\
    In (mkBufObs st [buf_zlen pieces] pieces, buf_abs b') (bufs_split_fail_alts n (buf_abs b) delims flags max_sections).
Proof.
  intros Hi Hn Hf Hm. unfold buf_split_fail_at, bufs_split_fail_alts.
  destruct (Z.eqb_spec n 0) as [-> | Hne]; cbn [negb].
  { rewrite orb_true_r. cbn [orb].
    replace (buf_split false (buf_split_fail_okp 0) b delims flags max_sections)
      with (buf_split false (fun _ => true) b delims flags max_sections)
      by (unfold buf_split; destruct (buf_zlen delims =? 0); reflexivity).
    apply buf_split_refines; assumption. }
  rewrite orb_false_r.
  destruct (buf_split_refines true b delims flags max_sections Hi Hf Hm) as (st0 & b0 & pieces0 & He0 & Hi0 & Hm0 & Hin0).
  destruct (buf_split_okp (buf_split_fail_okp n) b delims flags max_sections Hi Hf Hm) as (st & b' & pieces & He & Hdich).
  rewrite He0 in He. injection He as <- <- <-.
  destruct Hdich as [(Hsame & _) | (k & o & t & Hk & _ & _ & Hfail & Hbt & Hbo & Hio & Hrem & Hcons)].
  - exists st0, b0, pieces0. split; [exact Hsame|]. split; [exact Hi0|]. split; [exact Hm0|].
    destruct ((buf_zlen delims =? 0) || (bufs_len (buf_abs b) =? 0)); [exact Hin0 | apply in_or_app; left; exact Hin0].
  - exists ARES_ENOMEM, (buf_at b o t), []. split; [exact Hfail|]. split; [exact Hio|]. split; [reflexivity|].
    assert (((buf_zlen delims =? 0) || (bufs_len (buf_abs b) =? 0)) = false) as Hnd.
    { apply orb_false_iff. unfold bufs_split_alts in Hin0. split.
      - destruct (buf_zlen delims =? 0); [|reflexivity]. destruct Hin0 as [H | []].
        injection H as _ _ Hp _. rewrite <- Hp in Hk. cbn [length] in Hk. lia.
      - destruct (buf_zlen delims =? 0); [destruct Hin0 as [H | []]; injection H as _ _ Hp _; rewrite <- Hp in Hk; cbn [length] in Hk; lia|].
        cbn [negb] in Hin0. destruct (bufs_len (buf_abs b) =? 0); [|reflexivity]. destruct Hin0 as [H | []].
        injection H as _ _ Hp _. rewrite <- Hp in Hk. cbn [length] in Hk. lia. }
    rewrite Hnd. apply in_or_app. right.
    assert (0 <= cb_off b) as Ho0 by (destruct Hi as (Ho & _); lia).
    pose proof (buf_remaining_zlen b Hi) as Hrz.
    apply in_flat_map. exists (o - cb_off b). split.
    + replace (o - cb_off b) with (0 + Z.of_nat (Z.to_nat (o - cb_off b))) at 1 by lia. apply bufs_zseq_in.
      unfold bufs_len. rewrite buf_abs_post, Hrz. lia.
    + apply in_map_iff. exists (t - cb_off b). split.
      * f_equal. rewrite buf_abs_pre, buf_abs_post. unfold bufs_position. rewrite buf_abs_pre, buf_consumed_zlen by exact Hi.
        rewrite <- Hrem, <- Hcons. unfold buf_abs. cbn [buf_at cb_tag cb_hasdata cb_hasabuf].
        replace (t =? BUF_SIZE_MAX) with false by (symmetry; apply Z.eqb_neq; pose proof (buf_inv_mem_len b Hi) as [_ Hl]; buf_consts; lia).
        f_equal. f_equal. lia.
      * replace (t - cb_off b) with (0 + Z.of_nat (Z.to_nat (t - cb_off b))) at 1 by lia. apply bufs_zseq_in. lia.
Qed.

(* the hypotheses are satisfiable and both branches occur: "a,b,c" split at ','  with the
   request for the second piece refused stops behind "b" (cursor 3, tag 2) without pieces *)
Example buf_split_okp_example :
  let b := mkBuf [97; 44; 98; 44; 99] 5 0 0 BUF_SIZE_MAX true false in
  buf_inv b /\
  buf_split true (fun _ => true) b [44] 0 0 = Ok (ARES_SUCCESS, buf_at b 5 4, [[97]; [98]; [99]]) /\
  buf_split true (fun i => negb (Nat.eqb i 1)) b [44] 0 0 = Ok (ARES_ENOMEM, buf_at b 3 2, []).
Proof.
  cbn zeta. split; [|split; vm_compute; reflexivity].
  split; [cbn; lia|]. split; [left; reflexivity|]. right. left. unfold buf_shape_const. cbn.
  repeat split; try reflexivity; buf_consts; lia.
Qed.

(* ------------------------------------------------------------------------------------- *)
(* The main theorem: every operation sequence                                              *)
(* ------------------------------------------------------------------------------------- *)
Theorem buf_step_refines junk b op : (forall i, 0 <= junk i < 256) ->
  buf_inv b -> buf_bytes_ok (cb_mem b) -> buf_op_ok op -> bufs_contract (buf_abs b) op = true ->
  exists o b', buf_step junk b op = Ok (o, b') /\ buf_inv b' /\ buf_bytes_ok (cb_mem b') /\
               In (o, buf_abs b') (bufs_alts (buf_abs b) op).
Proof.
  intros Hj. apply (buf_step_refines_gen junk Hj).
  - intros ok_arr b0 delims flags mx H1 H2 H3. apply buf_split_refines; assumption.
  - intros n b0 delims flags mx H1 H2 H3 H4. apply buf_split_fail_at_refines; assumption.
Qed.

Theorem buf_run_refines junk ops : (forall i, 0 <= junk i < 256) -> Forall buf_op_ok ops ->
  exists tr, buf_run_checked junk buf_empty ops = Ok tr /\ bufs_accepts [bufs_create] ops tr = true.
Proof.
  intros Hj Hops.
  apply (buf_run_refines_gen junk Hj); [| | apply buf_empty_inv | constructor | exact Hops | left; reflexivity].
  - intros ok_arr b0 delims flags mx H1 H2 H3. apply buf_split_refines; assumption.
  - intros n b0 delims flags mx H1 H2 H3 H4. apply buf_split_fail_at_refines; assumption.
Qed.

(* the hypotheses are satisfiable by a non-trivial run (and the run is what one expects) *)
Example buf_run_example :
  let ops := [BopAppend true [1; 2; 3; 4; 5]; BopFetchBytes 2; BopTag; BopConsume 1; BopAppendBe16 true 4660;
              BopReclaim; BopRollback; BopFetchBe16; BopSplit true [18] 0 0; BopFinishBin true] in
  Forall buf_op_ok ops /\
  match buf_run_checked (fun _ => 0) buf_empty ops with
  | Ok tr => map (fun x => (bo_st (fst x), bo_vals (fst x), bo_bytes (fst x), bv_rem (snd x))) tr =
             [(0, [], [], [1; 2; 3; 4; 5]); (0, [], [[1; 2]], [3; 4; 5]); (0, [], [], [3; 4; 5]);
              (0, [], [], [4; 5]); (0, [], [], [4; 5; 18; 52]); (0, [], [], [4; 5; 18; 52]);
              (0, [], [], [3; 4; 5; 18; 52]); (0, [772], [], [5; 18; 52]);
              (0, [2], [[5]; [52]], []) ; (1, [], [[52]], [])]
  | _ => False
  end.
Proof.
  cbn zeta. split.
  - repeat (apply Forall_cons; [cbn [buf_op_ok]; try exact I; try lia |]); try apply Forall_nil.
    split; [unfold buf_bytes_ok; repeat constructor; lia | vm_compute; reflexivity].
  - vm_compute. reflexivity.
Qed.
