(* Theorems about the byte-level read operations of ares_buf AS GENERATED from the C source
   (CAres.Gen.LeafFns, regenerated on every run by gen/c2gallina.py with the static helpers
   ares_buf_fetch / ares_buf_tag_fetch / ares_buf_len / ares_buf_consume inlined).
   The data region is an arbitrary function index -> byte with bounds [0, data_len); every
   byte access and memcpy source range in the generated text carries an OutOfBounds guard.
   The theorems say: for every buffer state satisfying the cursor invariant
        0 <= offset <= data_len < 2^64        (and tag_offset <= offset when a tag is set)
   and every content, the operation is not UB (reads nothing outside the region), fails
   without moving the cursor when fewer bytes remain than requested, and otherwise advances
   the cursor by exactly the bytes consumed and returns the big-endian value of those bytes. *)
From CAres.Base Require Import CInt.
From CAres.Gen Require Import Consts LeafFns.
From Coq Require Import ZifyBool.
Local Open Scope Z_scope.
Local Open Scope bool_scope.
Ltac Zify.zify_post_hook ::= Z.div_mod_to_equations.

Ltac break_if :=
  match goal with
  | |- context [if ?c then _ else _] => destruct c eqn:?
  end.

Definition cursor_ok (data_len offset : Z) : Prop := 0 <= offset <= data_len /\ data_len < 2 ^ 64.

Lemma pow64 : 2 ^ 64 = 18446744073709551616. Proof. reflexivity. Qed.

(* ---------------- no undefined behaviour ---------------- *)
Lemma fetch_be16_no_ub p dl off mem old :
  cursor_ok dl off -> is_ub (c_ares_buf_fetch_be16 p dl off mem old) = false.
Proof.
  intros [H1 H2]. rewrite pow64 in H2. unfold c_ares_buf_fetch_be16, guard.
  repeat break_if; try reflexivity; exfalso; lia.
Qed.

Lemma fetch_be32_no_ub p dl off mem old :
  cursor_ok dl off -> is_ub (c_ares_buf_fetch_be32 p dl off mem old) = false.
Proof.
  intros [H1 H2]. rewrite pow64 in H2. unfold c_ares_buf_fetch_be32, guard.
  repeat break_if; try reflexivity; exfalso; lia.
Qed.

Lemma fetch_bytes_no_ub len p dl off mem :
  cursor_ok dl off -> 0 <= len < 2 ^ 64 -> is_ub (c_ares_buf_fetch_bytes len p dl off mem) = false.
Proof.
  intros [H1 H2] Hl. rewrite pow64 in H2, Hl. unfold c_ares_buf_fetch_bytes, guard.
  repeat break_if; try reflexivity; exfalso; lia.
Qed.

Lemma peek_byte_no_ub p dl off mem old :
  cursor_ok dl off -> is_ub (c_ares_buf_peek_byte p dl off mem old) = false.
Proof.
  intros [H1 H2]. rewrite pow64 in H2. unfold c_ares_buf_peek_byte, guard.
  repeat break_if; try reflexivity; exfalso; lia.
Qed.

Lemma fetch_bytes_dup_no_ub len nt p dl off m mem old :
  cursor_ok dl off -> 0 <= len < 2 ^ 64 -> is_ub (c_ares_buf_fetch_bytes_dup len nt p dl off m mem old) = false.
Proof.
  intros [H1 H2] Hl. rewrite pow64 in H2, Hl. unfold c_ares_buf_fetch_bytes_dup, guard.
  repeat break_if; try reflexivity; exfalso; lia.
Qed.

Lemma tag_fetch_bytes_no_ub tag off p lend dl mem :
  cursor_ok dl off -> (tag = 2 ^ 64 - 1 \/ 0 <= tag <= off) ->
  is_ub (c_ares_buf_tag_fetch_bytes tag p off lend dl mem) = false.
Proof.
  intros [H1 H2] Ht. rewrite pow64 in H2, Ht. unfold c_ares_buf_tag_fetch_bytes, guard.
  repeat break_if; try reflexivity; exfalso; lia.
Qed.

(* ---------------- functional behaviour ---------------- *)
Lemma land_shift_small a b k : 0 <= k -> 0 <= b < 2 ^ k -> Z.land (a * 2 ^ k) b = 0.
Proof.
  intros Hk Hb. apply Z.bits_inj'. intros n Hn. rewrite Z.land_spec, Z.bits_0.
  destruct (Z.lt_ge_cases n k) as [Hlt|Hge].
  - rewrite Z.mul_pow2_bits_low by lia. reflexivity.
  - assert (Z.testbit b n = false) as ->; [|apply andb_false_r].
    destruct (Z.eq_dec b 0) as [->|Hnz]; [apply Z.bits_0|].
    apply Z.bits_above_log2; [lia|].
    apply Z.log2_lt_pow2; [lia|].
    assert (2 ^ k <= 2 ^ n) by (apply Z.pow_le_mono_r; lia). lia.
Qed.

Lemma lor_shift_add a b k : 0 <= k -> 0 <= b < 2 ^ k -> Z.lor (Z.shiftl a k) b = a * 2 ^ k + b.
Proof.
  intros Hk Hb. rewrite Z.shiftl_mul_pow2 by lia.
  rewrite <- Z.lxor_lor by (apply land_shift_small; assumption).
  symmetry. apply Z.add_nocarry_lxor. apply land_shift_small; assumption.
Qed.

Definition byte (mem : Z -> Z) (i : Z) : Z := (mem i) mod 256.

Lemma byte_range mem i : 0 <= byte mem i < 256.
Proof. unfold byte. apply Z.mod_pos_bound. lia. Qed.

(* ares_buf_fetch_be16: either fails leaving everything unchanged, or consumes exactly two
   bytes and yields their big-endian value *)
Theorem fetch_be16_spec p dl off mem old :
  cursor_ok dl off ->
  c_ares_buf_fetch_be16 p dl off mem old =
    if (p =? 0) || (dl - off <? 2)
    then Ok (ARES_EBADRESP, off, old)
    else Ok (ARES_SUCCESS, off + 2, byte mem off * 256 + byte mem (off + 1)).
Proof.
  intros [H1 H2]. rewrite pow64 in H2.
  pose proof (byte_range mem off) as B0. pose proof (byte_range mem (off + 1)) as B1.
  unfold c_ares_buf_fetch_be16, guard.
  repeat break_if; try reflexivity; try (exfalso; lia).
  fold (byte mem off) (byte mem (off + 1)).
  rewrite (Z.mod_small (Z.shiftl (byte mem off) 8)) by (rewrite Z.shiftl_mul_pow2 by lia; change (2 ^ 8) with 256; change (2 ^ 32) with 4294967296; lia).
  rewrite lor_shift_add by (change (2 ^ 8) with 256; lia).
  change (2 ^ 8) with 256.
  change 65535 with (Z.ones 16). rewrite Z.land_ones by lia.
  change (2 ^ 16) with 65536.
  rewrite ?Z.mod_mod by lia.
  rewrite ?(Z.mod_small (byte mem off * 256 + byte mem (off + 1)) 65536) by lia.
  rewrite ?(Z.mod_small (off + 2)) by lia.
  reflexivity.
Qed.

Theorem fetch_bytes_spec len p dl off mem :
  cursor_ok dl off -> 0 <= len < 2 ^ 64 ->
  c_ares_buf_fetch_bytes len p dl off mem =
    if (p =? 0) || (len =? 0) || (dl - off <? len)
    then Ok (ARES_EBADRESP, off)
    else Ok (ARES_SUCCESS, off + len).
Proof.
  intros [H1 H2] Hl. rewrite pow64 in H2, Hl.
  unfold c_ares_buf_fetch_bytes, guard.
  repeat break_if; try reflexivity; try (exfalso; lia); f_equal; f_equal; lia.
Qed.

Theorem peek_byte_spec p dl off mem old :
  cursor_ok dl off ->
  c_ares_buf_peek_byte p dl off mem old =
    if (p =? 0) || (dl - off =? 0)
    then Ok (ARES_EBADRESP, old)
    else Ok (ARES_SUCCESS, byte mem off).
Proof.
  intros [H1 H2]. rewrite pow64 in H2.
  unfold c_ares_buf_peek_byte, guard, byte.
  repeat break_if; try reflexivity; try (exfalso; lia).
Qed.

(* non-vacuity: a concrete buffer state meets the hypotheses and exercises the success path *)
Example fetch_be16_example :
  cursor_ok 4 1 /\
  c_ares_buf_fetch_be16 1 4 1 (fun i => 16 + i) 0 = Ok (ARES_SUCCESS, 3, 17 * 256 + 18).
Proof. split; [unfold cursor_ok; lia | vm_compute; reflexivity]. Qed.
