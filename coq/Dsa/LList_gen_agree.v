(* ares_llist_node_detach: the heap model (Dsa/LList.v) agrees with the text generated from the C
   source.  The generated function works on scalar copies of the cells the C code touches
   (node->prev->next, node->next->prev, node->parent->head / tail / cnt, node->parent) and
   compares pointers with the parameter [node], which it represents by the constant 1; NULL is 0.
   Under the local well-formedness that the list invariant provides for a member (the neighbours
   are live nodes different from the node and from each other, the parent is a live list with
   cnt > 0) the cells of the heap after [ll_node_detach] are the outputs of the generated function. *)
From CAres.Dsa Require Import LList LList_proofs.
From CAres.Gen Require Import Consts LeafFns.
From CAres.Base Require Import CInt.
From Coq Require Import ZArith Lia.

(* pointer encoding relative to the node being detached *)
Definition ll_enc (n : nat) (p : option nat) : Z :=
  match p with
  | None => 0%Z
  | Some m => if Nat.eqb m n then 1%Z else (Z.of_nat m + 2)%Z
  end.

Lemma ll_enc_null n p : (ll_enc n p =? 0)%Z = ll_is_null p.
Proof.
  destruct p as [m|]; [|reflexivity]. cbn [ll_enc ll_is_null].
  destruct (Nat.eqb m n); [reflexivity|]. apply Z.eqb_neq. lia.
Qed.

Lemma ll_enc_self n p : (1 =? ll_enc n p)%Z = ll_ptr_eqb (Some n) p.
Proof.
  destruct p as [m|]; [|reflexivity]. cbn [ll_enc ll_ptr_eqb].
  rewrite (Nat.eqb_sym n m).
  destruct (Nat.eqb m n); [reflexivity|]. apply Z.eqb_neq. lia.
Qed.

Definition ll_node_at (h : ll_heap) (p : option nat) : option ll_node :=
  match p with Some m => match nth_error (lh_nodes h) m with Some (Some nd) => Some nd | _ => None end | None => None end.
Definition ll_list_at (h : ll_heap) (l : nat) : option ll_list :=
  match nth_error (lh_lists h) l with Some (Some L) => Some L | _ => None end.

Ltac ll_nth :=
  cbn [lh_nodes lh_lists];
  repeat first [ rewrite ll_upd_nth_neq by congruence
               | rewrite ll_upd_nth_eq by (rewrite ?ll_upd_length; eapply ll_nth_lt; eassumption) ];
  try eassumption; try reflexivity.

Ltac ll_rw_fields :=
  repeat match goal with
         | H : ln_prev _ = _ |- _ => rewrite H
         | H : ln_next _ = _ |- _ => rewrite H
         end.

Ltac ll_exec :=
  repeat first
    [ erewrite ll_rd_node_ok by ll_nth
    | erewrite ll_rd_list_ok by ll_nth
    | erewrite ll_mod_node_ok by ll_nth
    | erewrite ll_mod_list_ok by ll_nth
    | progress ll_rw_fields
    | match goal with H : ll_ptr_eqb _ _ = _ |- _ => rewrite H end
    | match goal with H : ll_cnt _ = S _ |- _ => rewrite H end
    | progress cbn [bind ll_deref_list ll_is_null negb ll_set_head ll_set_tail ll_set_cnt ll_head ll_tail ll_cnt] ].

Ltac ll_close :=
  eexists _, _, _; split; [reflexivity|];
  unfold ll_list_at, ll_node_at; cbn [lh_nodes lh_lists];
  split; [ll_nth|]; split; [ll_nth|];
  eexists _, _; split;
  [ cbn [ll_set_parent ll_set_cnt ll_set_tail ll_set_head ln_parent ll_cnt ll_head ll_tail];
    ll_rw_fields; reflexivity
  | split; [ intros xd'; ll_nth; intros E; inversion E; try subst xd'; try reflexivity
           | intros pd'; ll_nth; intros E; inversion E; try subst pd'; try reflexivity ] ].

Theorem ll_node_detach_agrees_generated h n nd l L c :
  nth_error (lh_nodes h) n = Some (Some nd) ->
  ln_parent nd = Some l ->
  nth_error (lh_lists h) l = Some (Some L) ->
  ll_cnt L = S c -> (Z.of_nat (S c) < 2 ^ 64)%Z ->
  (* the neighbours are live nodes, different from the node and from each other *)
  (forall p, ln_prev nd = Some p -> p <> n /\ ll_node_at h (Some p) <> None) ->
  (forall x, ln_next nd = Some x -> x <> n /\ ll_node_at h (Some x) <> None) ->
  (forall p x, ln_prev nd = Some p -> ln_next nd = Some x -> p <> x) ->
  forall nextprev_in prevnext_in,
  (forall xd, ll_node_at h (ln_next nd) = Some xd -> nextprev_in = ll_enc n (ln_prev xd)) ->
  (forall pd, ll_node_at h (ln_prev nd) = Some pd -> prevnext_in = ll_enc n (ln_next pd)) ->
  exists h' L' nd',
    ll_node_detach h (Some n) = Ok h' /\
    ll_list_at h' l = Some L' /\ ll_node_at h' (Some n) = Some nd' /\
    exists o1 o6,
      c_ares_llist_node_detach (ll_enc n (ln_prev nd)) (ll_enc n (ln_next nd))
                               (ll_enc n (ll_head L)) (ll_enc n (ll_tail L))
                               (Z.of_nat (ll_cnt L)) (ll_enc n (ll_tail L)) (ll_enc n (ll_head L))
                               nextprev_in prevnext_in
        = Ok (o1, ll_enc n (ln_parent nd'), Z.of_nat (ll_cnt L'), ll_enc n (ll_head L'), ll_enc n (ll_tail L'), o6) /\
      (forall xd', ll_node_at h' (ln_next nd) = Some xd' -> o1 = ll_enc n (ln_prev xd')) /\
      (forall pd', ll_node_at h' (ln_prev nd) = Some pd' -> o6 = ll_enc n (ln_next pd')).
Proof.
  intros Hn Hpar Hl Hc Hbound Hprev Hnext Hpx npi pni Hnpi Hpni.
  unfold c_ares_llist_node_detach.
  rewrite !ll_enc_null, !ll_enc_self. rewrite Hc.
  replace ((Z.of_nat (S c) - 1) mod 2 ^ 64)%Z with (Z.of_nat c) by (rewrite Z.mod_small; lia).
  unfold ll_node_detach.
  rewrite (ll_rd_node_ok _ _ _ Hn). cbn [bind]. rewrite Hpar.
  destruct (ll_ptr_eqb (Some n) (ll_head L)) eqn:Eh; destruct (ll_ptr_eqb (Some n) (ll_tail L)) eqn:Et;
  destruct (ln_prev nd) as [p|] eqn:Ep; destruct (ln_next nd) as [x|] eqn:Ex;
  try (destruct (Hprev p eq_refl) as [Hpn Hpl]; cbn [ll_node_at] in Hpl;
       destruct (nth_error (lh_nodes h) p) as [[pd|]|] eqn:Hp; try congruence);
  try (destruct (Hnext x eq_refl) as [Hxn Hxl]; cbn [ll_node_at] in Hxl;
       destruct (nth_error (lh_nodes h) x) as [[xd|]|] eqn:Hx; try congruence);
  try (pose proof (Hpx p x eq_refl eq_refl) as Hpx');
  ll_exec; ll_close.
Qed.

(* the hypotheses are satisfiable: the middle node of a three-element list *)
Example ll_node_detach_agrees_example :
  let h := mkLH [Some (mkLN 10 None (Some 1) (Some 0)); Some (mkLN 11 (Some 0) (Some 2) (Some 0));
                 Some (mkLN 12 (Some 1) None (Some 0))]
                [Some (mkLL (Some 0) (Some 2) false 3)] in
  exists h', ll_node_detach h (Some 1) = Ok h' /\
    c_ares_llist_node_detach (ll_enc 1 (Some 0)) (ll_enc 1 (Some 2)) (ll_enc 1 (Some 0)) (ll_enc 1 (Some 2))
                             3 (ll_enc 1 (Some 2)) (ll_enc 1 (Some 0)) (ll_enc 1 (Some 1)) (ll_enc 1 (Some 1))
    = Ok (ll_enc 1 (Some 0), 0%Z, 2%Z, ll_enc 1 (Some 0), ll_enc 1 (Some 2), ll_enc 1 (Some 2)) /\
    ll_list_at h' 0 = Some (mkLL (Some 0) (Some 2) false 2) /\
    ll_node_at h' (Some 0) = Some (mkLN 10 None (Some 2) (Some 0)) /\
    ll_node_at h' (Some 2) = Some (mkLN 12 (Some 0) None (Some 0)).
Proof. eexists. repeat split; vm_compute; reflexivity. Qed.
