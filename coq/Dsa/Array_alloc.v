(* C14 - ares_array insert under an allocation failure (model: Dsa/Array.v, where the
   allocator's answer is the argument [alloc_ok] of arr_set_size / arr_insertdata_at).

   The model is functional: an operation that fails returns [Err s] and the caller keeps the
   array it passed in.  For this to say something about the C code, which works in place, the
   failing step must come before any write to the array.  That is what is proved here: with
   alloc_ok = false the insert either does not consult the allocator at all (same result as
   with alloc_ok = true), or fails with ARES_ENOMEM in arr_set_size - the FIRST step of
   ares_array_insert_at, before the memmoves and before the member is written; and
   ARES_ENOMEM never comes from anywhere else. *)
From CAres.Dsa Require Import Array.
From CAres.Gen Require Import Consts.
Local Open Scope nat_scope.

Lemma arr_set_size_alloc a size :
  arr_set_size false a size = arr_set_size true a size \/
  (arr_set_size false a size = Err ARES_ENOMEM /\
   exists a', arr_set_size true a size = Ok a' /\ alloc_cnt a < alloc_cnt a' /\
              a_cnt a' = a_cnt a /\ a_off a' = a_off a /\
              firstn (alloc_cnt a) (a_cells a') = a_cells a).
Proof.
  unfold arr_set_size.
  destruct (Nat.eqb size 0 || Nat.ltb size (a_cnt a)); [left; reflexivity|].
  set (sz := if Nat.ltb (round_up_pow2 size) (Z.to_nat ARES__ARRAY_MIN)
             then Z.to_nat ARES__ARRAY_MIN else round_up_pow2 size).
  destruct (Nat.leb_spec sz (alloc_cnt a)) as [Hle|Hgt]; [left; reflexivity|].
  right. split; [reflexivity|]. eexists. split; [reflexivity|].
  unfold alloc_cnt in *. simpl. rewrite app_length, repeat_length.
  repeat split; try lia.
  rewrite firstn_app, Nat.sub_diag, firstn_all. simpl. apply app_nil_r.
Qed.

Lemma arr_set_size_no_enomem a size : arr_set_size true a size <> Err ARES_ENOMEM.
Proof.
  unfold arr_set_size.
  destruct (Nat.eqb size 0 || Nat.ltb size (a_cnt a)); [discriminate|].
  destruct (Nat.leb _ (alloc_cnt a)); discriminate.
Qed.

Lemma arr_move_no_enomem a d s : arr_move a d s <> Err ARES_ENOMEM.
Proof.
  unfold arr_move.
  repeat match goal with |- context [if ?c then _ else _] => destruct c end; discriminate.
Qed.

(* the insert with a failing allocator *)
Lemma arr_insert_alloc_atomic a idx v :
  arr_insertdata_at false a idx v = arr_insertdata_at true a idx v \/
  (arr_insertdata_at false a idx v = Err ARES_ENOMEM /\
   arr_set_size false a (a_cnt a + 1) = Err ARES_ENOMEM /\
   exists a', arr_set_size true a (a_cnt a + 1) = Ok a' /\ alloc_cnt a < alloc_cnt a').
Proof.
  unfold arr_insertdata_at.
  destruct (Nat.ltb (a_cnt a) idx); [left; reflexivity|].
  destruct (arr_set_size_alloc a (a_cnt a + 1)) as [E | [E [a' [E' [Hlt _]]]]].
  - left. rewrite E. reflexivity.
  - right. rewrite E. simpl. split; [reflexivity|]. split; [reflexivity|]. eauto.
Qed.

Lemma if_ub_ok_ne {A} (b : bool) k (y : A) s : (if b then UB k else Ok y) <> Err s.
Proof. destruct b; discriminate. Qed.

(* ARES_ENOMEM is reported only when the allocator refused *)
Lemma bind_err {A B} (m : outcome A) (f : A -> outcome B) s :
  bind m f = Err s -> m = Err s \/ exists x, m = Ok x /\ f x = Err s.
Proof. destruct m as [x|s'|k]; simpl; intros H; [right; eauto | left; inversion H; reflexivity | discriminate]. Qed.

Lemma arr_insert_enomem_only_from_allocator a idx v :
  arr_insertdata_at true a idx v <> Err ARES_ENOMEM.
Proof.
  intros H. unfold arr_insertdata_at in H.
  destruct (Nat.ltb (a_cnt a) idx); [discriminate|].
  apply bind_err in H as [H | [a1 [_ H]]]; [eapply arr_set_size_no_enomem; exact H|].
  apply bind_err in H as [H | [a2 [_ H]]].
  - destruct (Nat.ltb (alloc_cnt a1) (a_cnt a1 + 1 + a_off a1)); [|discriminate].
    apply bind_err in H as [H | [m [_ H]]]; [eapply arr_move_no_enomem; exact H | discriminate].
  - apply bind_err in H as [H | [a3 [_ H]]].
    + destruct (negb (Nat.eqb idx (a_cnt a2))); [eapply arr_move_no_enomem; exact H | discriminate].
    + eapply if_ub_ok_ne; exact H.
Qed.

Lemma arr_insert_alloc_c14 a idx v :
  (arr_insertdata_at false a idx v = arr_insertdata_at true a idx v \/
   (arr_insertdata_at false a idx v = Err ARES_ENOMEM /\
    arr_set_size false a (a_cnt a + 1) = Err ARES_ENOMEM /\
    exists a', arr_set_size true a (a_cnt a + 1) = Ok a' /\ alloc_cnt a < alloc_cnt a'))
  /\ arr_insertdata_at true a idx v <> Err ARES_ENOMEM.
Proof. split; [apply arr_insert_alloc_atomic | apply arr_insert_enomem_only_from_allocator]. Qed.

(* non-vacuity: a full array of ARES__ARRAY_MIN members needs the allocator for the next
   insert, and refuses cleanly *)
Example arr_insert_alloc_example :
  let a := mkArr (repeat 7%Z (Z.to_nat ARES__ARRAY_MIN)) (Z.to_nat ARES__ARRAY_MIN) 0 in
  arr_insertdata_at false a 3 9%Z = Err ARES_ENOMEM /\
  exists a', arr_insertdata_at true a 3 9%Z = Ok a' /\ a_cnt a' = S (a_cnt a).
Proof. simpl. split; [vm_compute; reflexivity|]. eexists. split; vm_compute; reflexivity. Qed.
