(* The hand model of the byte-level reads of ares_buf (Dsa/Buf.v: buf_fetch_be16,
   buf_peek_byte, buf_fetch_bytes) agrees with the text GENERATED from the C source
   (CAres.Gen.LeafFns.c_ares_buf_fetch_be16 / c_ares_buf_peek_byte / c_ares_buf_fetch_bytes,
   static helpers inlined, data region as a function index -> byte; closed forms in
   Dsa/BufFetch_proofs.v): same status, same cursor, same value, on every state satisfying the
   buffer invariant.  So the read side of the container model is tied to generated text too. *)
From CAres.Dsa Require Import Buf Buf_proofs BufFetch_proofs.
From CAres.Gen Require Import Consts LeafFns.
Local Open Scope Z_scope.
Local Open Scope bool_scope.

(* the data region of the record as the generated functions see it *)
Definition buf_memf (b : cbuf) : Z -> Z := fun i => nth (Z.to_nat i) (cb_mem b) 0.

Lemma buf_nth_of_skipn2 (l : list Z) (o : nat) a c :
  firstn 2 (skipn o l) = [a; c] -> nth o l 0 = a /\ nth (S o) l 0 = c.
Proof.
  revert l. induction o as [|o IH]; intros l H.
  - destruct l as [|x [|y r]]; simpl in H; try discriminate. inversion H. auto.
  - destruct l as [|x l]; [destruct o; discriminate|]. simpl in H. apply IH in H. exact H.
Qed.

Lemma buf_nth_of_skipn1 (l : list Z) (o : nat) a :
  firstn 1 (skipn o l) = [a] -> nth o l 0 = a.
Proof.
  revert l. induction o as [|o IH]; intros l H.
  - destruct l as [|x r]; simpl in H; try discriminate. inversion H. reflexivity.
  - destruct l as [|x l]; [destruct o; discriminate|]. simpl in H. apply IH in H. exact H.
Qed.

Lemma buf_cursor_ok b : buf_inv b -> cursor_ok (cb_dlen b) (cb_off b).
Proof.
  intros Hi. pose proof (buf_inv_mem_len b Hi) as [_ Hl]. destruct Hi as (Ho & _).
  unfold cursor_ok. unfold BUF_ALLOC_LIMIT in Hl.
  assert (2 ^ 62 < 2 ^ 64) by (apply Z.pow_lt_mono_r; lia). lia.
Qed.

(* data == NULL exactly for the never-allocated buffer, which holds no data *)
Lemma buf_hasdata_false b : buf_inv b -> cb_hasdata b = false -> cb_dlen b - cb_off b = 0.
Proof.
  intros (Ho & _ & [Hs | [Hs | Hs]]) Hd.
  - destruct Hs as (_ & _ & _ & Hdl & _). lia.
  - destruct Hs as (Hd' & _). congruence.
  - destruct Hs as (Hd' & _). congruence.
Qed.

(* remaining bytes seen through the index function *)
Lemma buf_remaining_take2 b p0 p1 : buf_inv b -> 2 <= cb_dlen b - cb_off b ->
  buf_take 2 (buf_remaining b) = [p0; p1] ->
  buf_memf b (cb_off b) = p0 /\ buf_memf b (cb_off b + 1) = p1.
Proof.
  intros Hi Hge E. pose proof (buf_inv_mem_len b Hi) as [Hm _]. destruct Hi as (Ho & _).
  unfold buf_remaining, buf_data, buf_take, buf_drop in E.
  rewrite skipn_firstn_comm in E. rewrite firstn_firstn in E.
  replace (Init.Nat.min (Z.to_nat 2) (Z.to_nat (cb_dlen b) - Z.to_nat (cb_off b))) with 2%nat in E by lia.
  apply buf_nth_of_skipn2 in E. unfold buf_memf.
  replace (Z.to_nat (cb_off b + 1)) with (S (Z.to_nat (cb_off b))) by lia. exact E.
Qed.

Lemma buf_remaining_take1 b p0 : buf_inv b -> 1 <= cb_dlen b - cb_off b ->
  buf_take 1 (buf_remaining b) = [p0] -> buf_memf b (cb_off b) = p0.
Proof.
  intros Hi Hge E. pose proof (buf_inv_mem_len b Hi) as [Hm _]. destruct Hi as (Ho & _).
  unfold buf_remaining, buf_data, buf_take, buf_drop in E.
  rewrite skipn_firstn_comm in E. rewrite firstn_firstn in E.
  replace (Init.Nat.min (Z.to_nat 1) (Z.to_nat (cb_dlen b) - Z.to_nat (cb_off b))) with 1%nat in E by lia.
  apply buf_nth_of_skipn1 in E. exact E.
Qed.

(* ares_buf_fetch_be16 *)
Theorem buf_fetch_be16_agrees_generated b old :
  buf_inv b -> buf_bytes_ok (buf_remaining b) ->
  exists st b' v v',
    buf_fetch_be16 b = Ok (st, b', v) /\
    c_ares_buf_fetch_be16 (b2z (cb_hasdata b)) (cb_dlen b) (cb_off b) (buf_memf b) old
      = Ok (st, cb_off b', v') /\
    (st = ARES_SUCCESS -> v' = v) /\ (st <> ARES_SUCCESS -> v' = old /\ b' = b).
Proof.
  intros Hi Hb. rewrite fetch_be16_spec by (apply buf_cursor_ok; exact Hi).
  unfold buf_fetch_be16. rewrite buf_fetch_ok by exact Hi. cbn [fst snd].
  destruct (Z.ltb_spec (cb_dlen b - cb_off b) 2) as [Hlt | Hge].
  - rewrite orb_true_r. exists ARES_EBADRESP, b, 0, old. repeat split; try reflexivity.
    intros E; vm_compute in E; discriminate E.
  - assert (cb_hasdata b = true) as Hd.
    { destruct (cb_hasdata b) eqn:E; [reflexivity|]. pose proof (buf_hasdata_false b Hi E). lia. }
    rewrite Hd. cbn [b2z Z.eqb orb].
    rewrite buf_read_remaining by (try exact Hi; lia). cbn [bind].
    pose proof (buf_remaining_zlen b Hi) as Hr.
    assert (buf_zlen (buf_take 2 (buf_remaining b)) = 2) as H2 by (apply buf_take_zlen; lia).
    destruct (buf_zlen_2 _ H2) as (p0 & p1 & Ep). rewrite Ep.
    rewrite buf_consume_ok by (try exact Hi; lia).
    replace (cb_dlen b - cb_off b <? 2) with false by (symmetry; apply Z.ltb_ge; lia).
    cbn [bind fst snd].
    destruct (buf_remaining_take2 b p0 p1 Hi Hge Ep) as [E0 E1].
    pose proof (buf_bytes_ok_take 2 _ Hb) as Hb2. rewrite Ep in Hb2.
    inversion Hb2 as [|x0 l0 Hp0 Hb3]; subst x0 l0. inversion Hb3 as [|x1 l1 Hp1 _]; subst x1 l1.
    exists ARES_SUCCESS, (buf_with_off b (cb_off b + 2)), (Z.land (Z.lor (Z.shiftl p0 8) p1) 65535),
           (byte (buf_memf b) (cb_off b) * 256 + byte (buf_memf b) (cb_off b + 1)).
    split; [reflexivity|]. split; [reflexivity|]. split.
    + intros _. unfold byte. rewrite E0, E1. rewrite !Z.mod_small by lia.
      rewrite buf_be16_decode by assumption. cbn [Buf.bufs_be_value]. lia.
    + intros N. exfalso. apply N. reflexivity.
Qed.

(* ares_buf_peek_byte *)
Theorem buf_peek_byte_agrees_generated b old :
  buf_inv b -> buf_bytes_ok (buf_remaining b) ->
  exists st v v',
    buf_peek_byte b = Ok (st, v) /\
    c_ares_buf_peek_byte (b2z (cb_hasdata b)) (cb_dlen b) (cb_off b) (buf_memf b) old = Ok (st, v') /\
    (st = ARES_SUCCESS -> v' = v) /\ (st <> ARES_SUCCESS -> v' = old).
Proof.
  intros Hi Hb. rewrite peek_byte_spec by (apply buf_cursor_ok; exact Hi).
  unfold buf_peek_byte. rewrite buf_fetch_ok by exact Hi. cbn [fst snd].
  destruct (Z.eqb_spec (cb_dlen b - cb_off b) 0) as [He | Hne].
  - rewrite orb_true_r. exists ARES_EBADRESP, 0, old. repeat split; try reflexivity.
    intros E; vm_compute in E; discriminate E.
  - assert (cb_hasdata b = true) as Hd.
    { destruct (cb_hasdata b) eqn:E; [reflexivity|]. pose proof (buf_hasdata_false b Hi E). lia. }
    rewrite Hd. cbn [b2z Z.eqb orb].
    destruct Hi as (Ho & Hrest). assert (buf_inv b) as Hi by (split; assumption).
    rewrite buf_read_remaining by (try exact Hi; lia). cbn [bind].
    pose proof (buf_remaining_zlen b Hi) as Hr.
    assert (buf_zlen (buf_take 1 (buf_remaining b)) = 1) as H1 by (apply buf_take_zlen; lia).
    destruct (buf_take 1 (buf_remaining b)) as [|p0 [|p1 r]] eqn:Ep;
      unfold buf_zlen in H1; simpl length in H1; try lia.
    pose proof (buf_remaining_take1 b p0 Hi ltac:(lia) Ep) as E0.
    pose proof (buf_bytes_ok_take 1 _ Hb) as Hb1. rewrite Ep in Hb1.
    inversion Hb1 as [|x0 l0 Hp0 _]; subst x0 l0.
    exists ARES_SUCCESS, p0, (byte (buf_memf b) (cb_off b)).
    split; [reflexivity|]. split; [reflexivity|]. split.
    + intros _. unfold byte. rewrite E0. apply Z.mod_small. lia.
    + intros N. exfalso. apply N. reflexivity.
Qed.

(* ares_buf_fetch_bytes: status and cursor (the copied bytes are the hand model's output) *)
Theorem buf_fetch_bytes_agrees_generated b len :
  buf_inv b -> 0 <= len < 2 ^ 62 ->
  exists st b' bytes,
    buf_fetch_bytes b len = Ok (st, b', bytes) /\
    c_ares_buf_fetch_bytes len (b2z (cb_hasdata b)) (cb_dlen b) (cb_off b) (buf_memf b)
      = Ok (st, cb_off b').
Proof.
  intros Hi Hl.
  assert (2 ^ 62 < 2 ^ 64) as Hp by (apply Z.pow_lt_mono_r; lia).
  rewrite fetch_bytes_spec by (try (apply buf_cursor_ok; exact Hi); lia).
  unfold buf_fetch_bytes. rewrite buf_fetch_ok by exact Hi. cbn [fst snd].
  destruct (Z.eqb_spec len 0) as [E0 | N0].
  - rewrite orb_true_r. cbn [orb]. eauto.
  - cbn [orb]. destruct (Z.ltb_spec (cb_dlen b - cb_off b) len) as [Hlt | Hge].
    + rewrite orb_true_r. eauto.
    + assert (cb_hasdata b = true) as Hd.
      { destruct (cb_hasdata b) eqn:E; [reflexivity|]. pose proof (buf_hasdata_false b Hi E). lia. }
      rewrite Hd. cbn [b2z Z.eqb orb].
      rewrite buf_read_remaining by (try exact Hi; lia). cbn [bind].
      rewrite buf_consume_ok by (try exact Hi; lia).
      replace (cb_dlen b - cb_off b <? len) with false by (symmetry; apply Z.ltb_ge; lia).
      cbn [bind fst snd]. eauto.
Qed.
