(* Agreement of the two models of ares_buf_parse_dns_binstr_int:
     - CAres.Dsa.Buf.buf_parse_dns_binstr_int  (this container: the whole ares_buf_t, allocation
       oracles, the temporary buffer and ares_buf_finish_str),
     - CAres.Wire.Cursor.parse_dns_binstr      (the read side used by the wire codec, C02/C03/C04:
       a cursor over a list of N, no allocation failure).
   Both describe the function of THIS tree, which reads one length-prefixed character-string
   (there is no loop over remaining_len).  For a buffer and a cursor over the same bytes at the
   same offset, with an allocator that grants every request, they return the same status, the
   same bytes and the same new offset.  (On failure the Wire model returns the status only; the
   Dsa model additionally says where the cursor is left.) *)
From CAres.Dsa Require Import Buf Buf_proofs.
From CAres.Gen Require Import Consts LeafFns Tables.
From CAres.Wire Require Cursor Cursor_proofs.
Local Open Scope Z_scope.
Local Open Scope bool_scope.

(* same block, same declared length, same offset *)
Definition buf_cur_rel (b : cbuf) (c : Cursor.cursor) : Prop :=
  cb_mem b = map Z.of_N (Cursor.c_data c) /\ cb_dlen b = Cursor.c_len c /\ cb_off b = Cursor.c_off c /\
  Cursor.cur_ok c /\ Cursor.c_len c = Z.of_nat (length (Cursor.c_data c)) /\
  Forall (fun x => (x < 256)%N) (Cursor.c_data c).

(* the generated isprint table is the range test of the ares_isprint macro *)
Lemma buf_isprint_table x : (x < 256)%N -> c_isprint (Z.of_N x) = buf_isprint (Z.of_N x).
Proof.
  intros Hx.
  assert (forallb (fun n => Bool.eqb (c_isprint (Z.of_nat n)) (buf_isprint (Z.of_nat n))) (seq 0 256) = true) as Hall
    by (vm_compute; reflexivity).
  rewrite forallb_forall in Hall. specialize (Hall (N.to_nat x)).
  replace (Z.of_nat (N.to_nat x)) with (Z.of_N x) in Hall by lia.
  apply Bool.eqb_prop. apply Hall. apply in_seq. lia.
Qed.

Lemma buf_all_printable_eq l : Forall (fun x => (x < 256)%N) l ->
  Cursor.all_printable l = forallb buf_isprint (map Z.of_N l).
Proof.
  induction 1 as [|x l Hx _ IH]; [reflexivity|]. unfold Cursor.all_printable in *. cbn [forallb map].
  rewrite buf_isprint_table by exact Hx. rewrite IH. reflexivity.
Qed.

Lemma buf_take_exact_enough n : forall (l : list N), (n <= length l)%nat -> Cursor.take_exact n l = Some (firstn n l).
Proof.
  intros l Hl. destruct (Cursor_proofs.take_exact_ok n l Hl) as (r & Hr & _).
  rewrite Hr. destruct (Cursor_proofs.take_exact_firstn n l r Hr) as [-> _]. reflexivity.
Qed.

Lemma buf_skipn_next {A} (l : list A) n x r : skipn n l = x :: r -> skipn (S n) l = r.
Proof.
  intros H. replace (S n) with (n + 1)%nat by lia. rewrite <- Cursor_proofs.skipn_skipn'. rewrite H. reflexivity.
Qed.

Lemma buf_cur_rel_remaining b c : buf_inv b -> buf_cur_rel b c ->
  buf_remaining b = map Z.of_N (Cursor.c_rest c).
Proof.
  intros Hi (Hm & Hd & Ho & Hok & Hlen & _). destruct Hok as (Hoff & _ & _ & Hrest).
  unfold buf_remaining, buf_data. rewrite buf_take_all by (rewrite Hm, Hd, Hlen; unfold buf_zlen; rewrite map_length; lia).
  rewrite Hm, Hrest, Ho. unfold buf_drop. apply skipn_map.
Qed.

Lemma buf_cur_rel_set_off b c o : buf_inv b -> buf_cur_rel b c -> cb_off b <= o <= cb_dlen b ->
  buf_cur_rel (buf_with_off b o) (Cursor.set_off c o).
Proof.
  intros Hi (Hm & Hd & Ho & Hok & Hlen & Hby) Hle.
  assert (0 <= Cursor.c_off c) by (destruct Hok as (H0 & _); lia).
  repeat split; cbn [buf_with_off cb_mem cb_dlen cb_off Cursor.set_off Cursor.c_data Cursor.c_len Cursor.c_off Cursor.c_rest];
    try assumption; try lia.
  destruct Hok as (_ & H1 & H2 & _); lia.
Qed.

Theorem buf_wire_binstr_agree junk b c rl want vp :
  buf_inv b -> buf_cur_rel b c -> 0 <= rl < 2 ^ 64 ->
  exists st b' out,
    buf_parse_dns_binstr_int junk true true b rl want vp = Ok (st, b', out) /\
    match Cursor.parse_dns_binstr c rl want vp with
    | Ok (bytes, c') =>
      st = ARES_SUCCESS /\ out = (if want then Some (map Z.of_N bytes ++ [0]) else None) /\
      (want = false -> bytes = []) /\ cb_off b' = Cursor.c_off c' /\ buf_cur_rel b' c'
    | Err e => st = e /\ e <> ARES_SUCCESS /\ out = None
    | UB _ => False
    end.
Proof.
  intros Hi Hrel Hrl.
  pose proof (buf_cur_rel_remaining b c Hi Hrel) as Hrem.
  pose proof Hrel as (Hm & Hd & Ho & Hok & Hlen & Hby).
  assert (buf_bytes_ok (buf_remaining b)) as Hbok.
  { rewrite Hrem. unfold buf_bytes_ok. apply Forall_map. destruct Hok as (_ & _ & _ & Hr). rewrite Hr.
    apply Forall_forall. intros x Hx. rewrite Forall_forall in Hby. specialize (Hby x).
    assert (In x (Cursor.c_data c)) as Hin.
    { rewrite <- (firstn_skipn (Z.to_nat (Cursor.c_off c)) (Cursor.c_data c)). apply in_or_app. right. exact Hx. }
    specialize (Hby Hin). lia. }
  (* the Dsa model through its specification; then the concrete result by cases *)
  unfold buf_parse_dns_binstr_int. unfold Cursor.parse_dns_binstr.
  destruct (Z.eqb_spec rl 0) as [Hz | Hnz].
  { exists ARES_EBADRESP, b, None. split; [reflexivity|]. split; [reflexivity|]. split; [discriminate | reflexivity]. }
  rewrite buf_create_eq. rewrite buf_fetch_bytes_ok by (try exact Hi; lia). cbn [bind].
  pose proof (buf_remaining_zlen b Hi) as Hrz.
  unfold Cursor.fetch_u8, Cursor.fetch_remaining. rewrite Cursor_proofs.buf_len_ok by exact Hok. cbn [bind].
  rewrite <- Hd, <- Ho.
  assert (length (Cursor.c_rest c) = Z.to_nat (cb_dlen b - cb_off b)) as Hrl2.
  { rewrite Hrem in Hrz. unfold buf_zlen in Hrz. rewrite map_length in Hrz. lia. }
  destruct (Cursor.c_rest c) as [|x rest] eqn:Erest.
  { cbn [length] in Hrl2. assert (0 <= cb_off b <= cb_dlen b) by (destruct Hi as (H0 & _); exact H0).
    replace (cb_dlen b - cb_off b <? 1) with true by (symmetry; apply Z.ltb_lt; lia).
    cbn [fst snd Z.eqb negb ARES_EBADRESP ARES_SUCCESS].
    exists ARES_EBADRESP, b, None. split; [reflexivity|]. split; [reflexivity|]. split; [discriminate | reflexivity]. }
  cbn [length] in Hrl2.
  assert (1 <= cb_dlen b - cb_off b) as Hge1 by lia.
  replace (cb_dlen b - cb_off b <? 1) with false by (symmetry; apply Z.ltb_ge; lia).
  cbn [fst snd Z.eqb negb ARES_SUCCESS]. rewrite Hrem. cbn [map]. rewrite buf_take_1.
  unfold Cursor.byte_rel. rewrite Erest. cbn [nth_error bind].
  rewrite Cursor_proofs.checked_consume_spec by (try exact Hok; lia). rewrite <- Hd, <- Ho.
  replace (cb_dlen b - cb_off b <? 1) with false by (symmetry; apply Z.ltb_ge; lia). cbn [bind].
  set (b1 := buf_with_off b (cb_off b + 1)). set (c1 := Cursor.set_off c (cb_off b + 1)).
  destruct (buf_advance_ok b 1 Hi ltac:(lia)) as (_ & Hi1 & _). fold b1 in Hi1.
  assert (buf_cur_rel b1 c1) as Hrel1.
  { unfold b1, c1. apply buf_cur_rel_set_off; [exact Hi | exact Hrel | lia]. }
  pose proof Hrel1 as (_ & Hd1 & Ho1 & Hok1 & _ & _).
  assert (Cursor.c_rest c1 = rest) as Er1.
  { unfold c1. cbn [Cursor.set_off Cursor.c_rest]. destruct Hok as (H0 & _ & _ & Hr). rewrite Hr in Erest.
    replace (Z.to_nat (cb_off b + 1)) with (S (Z.to_nat (cb_off b))) by lia. rewrite Ho.
    eapply buf_skipn_next. exact Erest. }
  pose proof (buf_cur_rel_remaining b1 c1 Hi1 Hrel1) as Hrem1. rewrite Er1 in Hrem1.
  assert (cb_dlen b1 - cb_off b1 = Z.of_nat (length rest)) as Hl1.
  { rewrite <- (buf_remaining_zlen b1 Hi1), Hrem1. unfold buf_zlen. rewrite map_length. reflexivity. }
  assert ((x < 256)%N) as Hx.
  { rewrite Forall_forall in Hby. apply Hby. destruct Hok as (_ & _ & _ & Hr). rewrite Hr in Erest.
    rewrite <- (firstn_skipn (Z.to_nat (Cursor.c_off c)) (Cursor.c_data c)). apply in_or_app. right. rewrite Erest. left. reflexivity. }
  set (len := Z.of_N x) in *. assert (0 <= len < 256) as Hlenb by (unfold len; lia).
  rewrite buf_w64_small by lia. rewrite Z.mod_small by lia.
  destruct (Z.gtb_spec len (rl - 1)) as [Hbig | Hfit].
  { exists ARES_EBADRESP, b1, None. split; [reflexivity|]. split; [reflexivity|]. split; [discriminate | reflexivity]. }
  destruct (Z.eqb_spec len 0) as [Hl0 | Hlne].
  - (* the empty string *)
    cbn [bind fst snd Z.eqb negb ARES_SUCCESS orb].
    destruct want; cbn [negb].
    + destruct (buf_finish_str_empty junk true) as (bz & Hfz). rewrite Hfz. cbn [bind fst].
      exists ARES_SUCCESS, b1, (Some [0]). split; [reflexivity|].
      split; [reflexivity|]. split; [reflexivity|]. split; [discriminate|]. split; [exact Ho1 | exact Hrel1].
    + exists ARES_SUCCESS, b1, None. split; [reflexivity|].
      split; [reflexivity|]. split; [reflexivity|]. split; [reflexivity|]. split; [exact Ho1 | exact Hrel1].
  - rewrite buf_len_ok by exact Hi1. rewrite Cursor_proofs.buf_len_ok by exact Hok1. cbn [bind].
    rewrite <- Hd1, <- Ho1. rewrite Hl1.
    assert (0 <= cb_off b1 <= cb_dlen b1) as Hob1 by (destruct Hi1 as (H0 & _); exact H0).
    destruct (Z.ltb_spec (Z.of_nat (length rest)) len) as [Hshort | Henough].
    + (* the length byte points beyond the data: no validation, the fetch fails *)
      replace (Z.of_nat (length rest) >=? len) with false by (symmetry; rewrite Z.geb_leb; apply Z.leb_gt; lia).
      rewrite !andb_false_r. cbn [bind].
      destruct want.
      * unfold buf_fetch_bytes_into_buf. rewrite buf_fetch_ok by exact Hi1. cbn [fst snd]. rewrite Hl1.
        replace (Z.of_nat (length rest) <? len) with true by (symmetry; apply Z.ltb_lt; lia). rewrite orb_true_r.
        cbn [bind fst snd Z.eqb negb ARES_EBADRESP ARES_SUCCESS orb].
        unfold Cursor.fetch_bytes, Cursor.fetch_remaining. rewrite Cursor_proofs.buf_len_ok by exact Hok1. cbn [bind].
        rewrite <- Hd1, <- Ho1, Hl1.
        replace (Z.of_nat (length rest) <? len) with true by (symmetry; apply Z.ltb_lt; lia). rewrite orb_true_r.
        exists ARES_EBADRESP, b1, None. split; [reflexivity|]. split; [reflexivity|]. split; [discriminate | reflexivity].
      * rewrite buf_consume_ok by (try exact Hi1; lia). rewrite Hl1.
        replace (Z.of_nat (length rest) <? len) with true by (symmetry; apply Z.ltb_lt; lia).
        cbn [bind fst snd Z.eqb negb ARES_EBADRESP ARES_SUCCESS orb].
        rewrite Cursor_proofs.checked_consume_spec by (try exact Hok1; lia). rewrite <- Hd1, <- Ho1, Hl1.
        replace (Z.of_nat (length rest) <? len) with true by (symmetry; apply Z.ltb_lt; lia). cbn [bind].
        exists ARES_EBADRESP, b1, None. split; [reflexivity|]. split; [reflexivity|]. split; [discriminate | reflexivity].
    + replace (Z.of_nat (length rest) >=? len) with true by (symmetry; rewrite Z.geb_leb; apply Z.leb_le; lia).
      rewrite !andb_true_r.
      assert (buf_read b1 (cb_off b1) len = Ok (map Z.of_N (firstn (Z.to_nat len) rest))) as Hrd.
      { rewrite buf_read_remaining by (try exact Hi1; lia). rewrite Hrem1. unfold buf_take. rewrite firstn_map. reflexivity. }
      assert (Cursor.read_bytes c1 (Z.to_nat len) = Ok (firstn (Z.to_nat len) rest)) as Hrd1.
      { unfold Cursor.read_bytes. rewrite Er1. rewrite buf_take_exact_enough by lia. reflexivity. }
      assert (Forall (fun y => (y < 256)%N) (firstn (Z.to_nat len) rest)) as Hby2.
      { assert (Forall (fun y => (y < 256)%N) rest) as Hbr.
        { apply Forall_forall. intros y Hy. rewrite Forall_forall in Hby. apply Hby.
          destruct Hok as (_ & _ & _ & Hr). rewrite Hr in Erest.
          rewrite <- (firstn_skipn (Z.to_nat (Cursor.c_off c)) (Cursor.c_data c)). apply in_or_app. right. rewrite Erest. right. exact Hy. }
        rewrite <- (firstn_skipn (Z.to_nat len) rest) in Hbr. apply Forall_app in Hbr. apply Hbr. }
      destruct (buf_advance_ok b1 len Hi1 ltac:(lia)) as (Hc2 & Hi2 & _).
      assert (buf_cur_rel (buf_with_off b1 (cb_off b1 + len)) (Cursor.set_off c1 (cb_off b1 + len))) as Hrel2
        by (apply buf_cur_rel_set_off; [exact Hi1 | exact Hrel1 | lia]).
      unfold Cursor.peek_bytes.
      set (bytes := firstn (Z.to_nat len) rest) in *.
      set (bad := vp && negb (forallb buf_isprint (map Z.of_N bytes))).
      assert ((if vp then do data <- buf_read b1 (cb_off b1) len; Ok (negb (forallb buf_isprint data)) else Ok false)
              = Ok bad) as Hbad1 by (unfold bad; destruct vp; [rewrite Hrd; reflexivity | reflexivity]).
      assert ((if vp then do data <- Cursor.read_bytes c1 (Z.to_nat len);
                          if negb (Cursor.all_printable data) then Err ARES_EBADSTR else Ok tt
               else Ok tt) = (if bad then Err ARES_EBADSTR else Ok tt)) as Hbad2
        by (unfold bad; destruct vp; [rewrite Hrd1; cbn [bind]; rewrite (buf_all_printable_eq _ Hby2); reflexivity | reflexivity]).
      rewrite Hbad1, Hbad2. cbn [bind]. clear Hbad1 Hbad2.
      destruct bad; cbn [bind].
      { cbn [fst snd Z.eqb negb ARES_EBADSTR ARES_SUCCESS orb].
        exists ARES_EBADSTR, b1, None. split; [reflexivity|]. split; [reflexivity|]. split; [discriminate | reflexivity]. }
      assert (buf_zlen (map Z.of_N bytes) = len) as Htz.
      { unfold buf_zlen, bytes. rewrite map_length, firstn_length. lia. }
      destruct want; cbn [negb].
      * (* the copy *)
        unfold buf_fetch_bytes_into_buf. rewrite buf_fetch_ok by exact Hi1. cbn [fst snd]. rewrite Hl1.
        replace (len =? 0) with false by (symmetry; apply Z.eqb_neq; exact Hlne).
        replace (Z.of_nat (length rest) <? len) with false by (symmetry; apply Z.ltb_ge; lia). cbn [orb].
        rewrite Hrd. cbn [bind].
        destruct (buf_append_refines junk true buf_empty (map Z.of_N bytes) buf_empty_inv) as (st & d & Hap & Hid & Hin & _ & Hwhy);
          [rewrite Htz; buf_consts; lia|].
        assert (st = ARES_SUCCESS /\ buf_abs d = mkBufSpec [] (map Z.of_N bytes) None false) as [Hst Had].
        { assert (st <> ARES_ENOMEM) as Hnem.
          { intros E. destruct (Hwhy E) as [Hw | Hw]; [discriminate Hw|].
            rewrite Htz in Hw. change (cb_dlen buf_empty) with 0 in Hw. buf_consts. lia. }
          unfold bufs_append_alts in Hin. rewrite Htz in Hin.
          replace (len =? 0) with false in Hin by (symmetry; apply Z.eqb_neq; exact Hlne).
          rewrite buf_empty_abs in Hin. cbn [bufs_create bs_const] in Hin.
          destruct Hin as [Hin | [Hin | [Hin | [Hin | []]]]];
            pose proof (f_equal fst Hin) as Hs; pose proof (f_equal snd Hin) as Hab; cbn [fst snd] in Hs, Hab; subst st;
            try (exfalso; apply Hnem; reflexivity);
            (split; [reflexivity | rewrite <- Hab; reflexivity]). }
        subst st. rewrite Hap. cbn [bind fst snd Z.eqb negb ARES_SUCCESS orb]. rewrite Hc2. cbn [bind fst snd Z.eqb negb orb].
        destruct (buf_finish_refines junk true d true Hid) as (r & d' & Hfin & _ & _ & Hfa).
        cbn beta iota in Hfin. rewrite Hfin. cbn [bind fst].
        unfold bufs_finish_alts in Hfa. rewrite Had in Hfa. cbn [bs_const bufs_tagged bs_tag bs_post app] in Hfa.
        unfold bufs_nothing_held in Hfa. cbn [bs_pre bs_post bs_const app] in Hfa. rewrite Htz in Hfa.
        replace (len =? 0) with false in Hfa by (symmetry; apply Z.eqb_neq; exact Hlne). cbn [andb] in Hfa.
        destruct Hfa as [Hfa | []]. destruct r as [obytes|]; [|discriminate Hfa].
        injection Hfa as Hbytes. subst obytes.
        unfold Cursor.fetch_bytes, Cursor.fetch_remaining. rewrite Cursor_proofs.buf_len_ok by exact Hok1. cbn [bind].
        rewrite <- Hd1, <- Ho1, Hl1.
        replace (len =? 0) with false by (symmetry; apply Z.eqb_neq; exact Hlne).
        replace (Z.of_nat (length rest) <? len) with false by (symmetry; apply Z.ltb_ge; lia). cbn [orb].
        rewrite Hrd1. cbn [bind].
        rewrite Cursor_proofs.checked_consume_spec by (try exact Hok1; lia). rewrite <- Hd1, <- Ho1, Hl1.
        replace (Z.of_nat (length rest) <? len) with false by (symmetry; apply Z.ltb_ge; lia). cbn [bind].
        eexists ARES_SUCCESS, _, _. split; [reflexivity|].
        split; [reflexivity|]. split; [reflexivity|]. split; [discriminate|]. split; [reflexivity | exact Hrel2].
      * rewrite Hc2. cbn [bind fst snd Z.eqb negb ARES_SUCCESS orb].
        rewrite Cursor_proofs.checked_consume_spec by (try exact Hok1; lia). rewrite <- Hd1, <- Ho1, Hl1.
        replace (Z.of_nat (length rest) <? len) with false by (symmetry; apply Z.ltb_ge; lia). cbn [bind].
        eexists ARES_SUCCESS, _, None. split; [reflexivity|].
        split; [reflexivity|]. split; [reflexivity|]. split; [reflexivity|]. split; [reflexivity | exact Hrel2].
Qed.

(* the hypotheses are satisfiable: ares_buf_create_const over a block of octets and the Wire
   cursor over the same block are related (so the agreement holds from the start of every
   message and, by the [buf_cur_rel b' c'] conclusion, after every successful call) *)
Lemma buf_cur_rel_of_bytes (bs : list N) :
  Forall (fun x => (x < 256)%N) bs -> 0 < Z.of_nat (length bs) < BUF_ALLOC_LIMIT ->
  let b := mkBuf (map Z.of_N bs) (buf_zlen (map Z.of_N bs)) 0 0 BUF_SIZE_MAX true false in
  buf_create_const true (map Z.of_N bs) = Some b /\ buf_inv b /\ buf_cur_rel b (Cursor.cur_of_bytes bs).
Proof.
  intros Hby Hl b. assert (buf_zlen (map Z.of_N bs) = Z.of_nat (length bs)) as Hz by (unfold buf_zlen; rewrite map_length; reflexivity).
  split.
  { rewrite buf_create_const_eq. replace (buf_zlen (map Z.of_N bs) =? 0) with false by (symmetry; apply Z.eqb_neq; lia). reflexivity. }
  split; [apply buf_const_inv; lia|].
  unfold buf_cur_rel, b, Cursor.cur_of_bytes. cbn [cb_mem cb_dlen cb_off Cursor.c_data Cursor.c_len Cursor.c_off].
  split; [reflexivity|]. split; [exact Hz|]. split; [reflexivity|]. split; [|split; [reflexivity | exact Hby]].
  apply Cursor_proofs.cur_of_bytes_ok. buf_consts. lia.
Qed.

Example buf_wire_binstr_agree_example :
  let bs := [3; 97; 98; 99; 1; 128]%N in
  Cursor.parse_dns_binstr (Cursor.cur_of_bytes bs) 6 true true
    = Ok ([97; 98; 99]%N, Cursor.set_off (Cursor.cur_of_bytes bs) 4) /\
  exists b', buf_parse_dns_binstr_int (fun _ => 0) true true
               (mkBuf (map Z.of_N bs) 6 0 0 BUF_SIZE_MAX true false) 6 true true
             = Ok (ARES_SUCCESS, b', Some [97; 98; 99; 0]) /\ cb_off b' = 4.
Proof. cbn zeta. split; [vm_compute; reflexivity|]. eexists. split; vm_compute; reflexivity. Qed.
