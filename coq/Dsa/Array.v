(* Model of src/lib/dsa/ares_array.c, in the shape of the C code.

   The array is a block of [alloc_cnt] cells of which the [cnt] cells starting at [offset]
   are members.  Members are abstract values (Z); the C code stores member_size bytes per
   cell, the harness uses 8-byte integers.  An out-of-range memmove is an explicit UB, a
   size_t underflow in the member-count computation is an explicit UB. *)
From CAres.Base Require Export Outcome.
From CAres.Gen Require Import Consts.
Local Open Scope nat_scope.

Record arr := mkArr {
  a_cells : list Z;     (* alloc_cnt = length a_cells; realloc_zero fills with 0 *)
  a_cnt   : nat;
  a_off   : nat }.

Definition alloc_cnt (a : arr) : nat := length (a_cells a).

Definition arr_create : arr := mkArr [] 0 0.

Definition arr_len (a : arr) : nat := a_cnt a.

(* ares_array_at: NULL (None) when idx >= cnt *)
Definition arr_at (a : arr) (idx : nat) : option Z :=
  if Nat.leb (a_cnt a) idx then None else nth_error (a_cells a) (idx + a_off a).

(* ares_round_up_pow2 for n >= 1 *)
Definition round_up_pow2 (n : nat) : nat := 2 ^ Nat.log2_up n.

(* memmove(cells + dest, cells + src, n) *)
Definition memmove_cells (cells : list Z) (dest src n : nat) : list Z :=
  firstn dest cells ++ firstn n (skipn src cells) ++ skipn (dest + n) cells.

(* ares_array_move: operates on actual indexes *)
Definition arr_move (a : arr) (dest src : nat) : outcome arr :=
  if Nat.leb (alloc_cnt a) dest || Nat.leb (alloc_cnt a) src then Err ARES_EFORMERR
  else if Nat.eqb dest src then Ok a
  else if Nat.ltb src dest && Nat.ltb (alloc_cnt a) (a_cnt a + (dest - src)) then Err ARES_EFORMERR
  else if Nat.ltb src (a_off a) then UB SizeUnderflow
  else if Nat.ltb (a_cnt a) (src - a_off a) then UB SizeUnderflow
  else
    let n := a_cnt a - (src - a_off a) in
    if Nat.ltb (alloc_cnt a) (src + n) || Nat.ltb (alloc_cnt a) (dest + n) then UB OutOfBounds
    else Ok (mkArr (memmove_cells (a_cells a) dest src n) (a_cnt a) (a_off a)).

(* ares_array_set_size; [alloc_ok] is the allocator's answer if it is asked *)
Definition arr_set_size (alloc_ok : bool) (a : arr) (size : nat) : outcome arr :=
  if Nat.eqb size 0 || Nat.ltb size (a_cnt a) then Err ARES_EFORMERR
  else
    let size := round_up_pow2 size in
    let size := if Nat.ltb size (Z.to_nat ARES__ARRAY_MIN) then Z.to_nat ARES__ARRAY_MIN else size in
    if Nat.leb size (alloc_cnt a) then Ok a
    else if alloc_ok then
      Ok (mkArr (a_cells a ++ repeat 0%Z (size - alloc_cnt a)) (a_cnt a) (a_off a))
    else Err ARES_ENOMEM.

Definition set_cell (cells : list Z) (i : nat) (v : Z) : list Z :=
  firstn i cells ++ v :: skipn (S i) cells.

(* ares_array_insert_at followed by the memcpy of ares_array_insertdata_at *)
Definition arr_insertdata_at (alloc_ok : bool) (a : arr) (idx : nat) (v : Z) : outcome arr :=
  if Nat.ltb (a_cnt a) idx then Err ARES_EFORMERR
  else
    do a1 <- arr_set_size alloc_ok a (a_cnt a + 1);
    do a2 <- (if Nat.ltb (alloc_cnt a1) (a_cnt a1 + 1 + a_off a1)
              then do m <- arr_move a1 0 (a_off a1); Ok (mkArr (a_cells m) (a_cnt m) 0)
              else Ok a1);
    do a3 <- (if negb (Nat.eqb idx (a_cnt a2))
              then arr_move a2 (idx + a_off a2 + 1) (idx + a_off a2)
              else Ok a2);
    if Nat.leb (alloc_cnt a3) (idx + a_off a3) then UB OutOfBounds
    else Ok (mkArr (set_cell (a_cells a3) (idx + a_off a3) v) (S (a_cnt a3)) (a_off a3)).

Definition arr_insertdata_last (alloc_ok : bool) (a : arr) (v : Z) : outcome arr :=
  arr_insertdata_at alloc_ok a (arr_len a) v.

Definition arr_insertdata_first (alloc_ok : bool) (a : arr) (v : Z) : outcome arr :=
  arr_insertdata_at alloc_ok a 0 v.

(* ares_array_claim_at (dest = NULL) / ares_array_remove_at; returns the removed member *)
Definition arr_remove_at (a : arr) (idx : nat) : outcome (arr * Z) :=
  match arr_at a idx with
  | None => Err ARES_EFORMERR
  | Some v =>
    do a1 <- (if Nat.eqb idx 0 then Ok (mkArr (a_cells a) (a_cnt a) (S (a_off a)))
              else if negb (Nat.eqb idx (a_cnt a - 1))
                   then arr_move a (idx + a_off a) (idx + a_off a + 1)
                   else Ok a);
    let c := a_cnt a1 - 1 in
    Ok (mkArr (a_cells a1) c (if Nat.eqb c 0 then 0 else a_off a1), v)
  end.

Definition arr_remove_first (a : arr) : outcome (arr * Z) := arr_remove_at a 0.
Definition arr_remove_last (a : arr) : outcome (arr * Z) :=
  if Nat.eqb (a_cnt a) 0 then Err ARES_EFORMERR else arr_remove_at a (a_cnt a - 1).

(* ares_array_finish: the members are moved to the start of the allocation and the block is
   handed to the caller together with the member count (None = NULL on a failed move) *)
Definition arr_finish (a : arr) : outcome (list Z) :=
  do a1 <- (if negb (Nat.eqb (a_off a) 0)
            then do m <- arr_move a 0 (a_off a); Ok (mkArr (a_cells m) (a_cnt m) 0)
            else Ok a);
  if Nat.ltb (alloc_cnt a1) (a_cnt a1) then UB OutOfBounds
  else Ok (firstn (a_cnt a1) (a_cells a1)).

(* abstraction: the member sequence *)
Definition arr_abs (a : arr) : list Z := firstn (a_cnt a) (skipn (a_off a) (a_cells a)).

Definition arr_inv (a : arr) : Prop := a_off a + a_cnt a <= alloc_cnt a.

(* ---- the trivial reference model (specification) ---- *)
Definition spec_insert (l : list Z) (idx : nat) (v : Z) : option (list Z) :=
  if Nat.ltb (length l) idx then None else Some (firstn idx l ++ v :: skipn idx l).
Definition spec_remove (l : list Z) (idx : nat) : option (list Z * Z) :=
  match nth_error l idx with
  | None => None
  | Some v => Some (firstn idx l ++ skipn (S idx) l, v)
  end.

(* ---- operation sequences: the model run and the reference run ---- *)
Section ArrOps.
(* qsort(base, nmemb, size, cmp) of the C library with the caller's comparison function, as a
   function on the block of members it is given; theorems assume only what the C standard
   promises (the result is a permutation of the input, sorted by cmp) *)
Variable qsort : list Z -> list Z.

(* ares_array_sort: qsort over the [cnt] members starting at [offset] *)
Definition arr_sort (a : arr) : outcome arr :=
  if Nat.ltb (a_cnt a) 2 then Ok a
  else if Nat.ltb (alloc_cnt a) (a_off a + a_cnt a) then UB OutOfBounds
  else Ok (mkArr (firstn (a_off a) (a_cells a)
                  ++ qsort (firstn (a_cnt a) (skipn (a_off a) (a_cells a)))
                  ++ skipn (a_off a + a_cnt a) (a_cells a)) (a_cnt a) (a_off a)).

Definition arr_first (a : arr) : option Z := arr_at a 0.
(* ares_array_last *)
Definition arr_last (a : arr) : option Z :=
  if Nat.eqb (arr_len a) 0 then None else arr_at a (arr_len a - 1).

Inductive arr_op :=
| AInsAt (idx : nat) (v : Z) | AInsFirst (v : Z) | AInsLast (v : Z)
| ARemAt (idx : nat) | ARemFirst | ARemLast
| AAt (idx : nat) | AFirst | ALast | ALen
| ASetSize (n : nat)
| ASort.

Inductive arr_res :=
| RStatus (s : Z)          (* status of an insert, or of a failed removal *)
| RRemoved (v : Z)         (* ARES_SUCCESS + the member handed to the destructor *)
| RVal (o : option Z)      (* member pointer result: NULL = None *)
| RLen (n : nat)
| RUB.

Definition arr_res_ins (a : arr) (m : outcome arr) : arr * arr_res :=
  match m with
  | Ok a' => (a', RStatus ARES_SUCCESS)
  | Err s => (a, RStatus s)
  | UB _ => (a, RUB)
  end.
Definition arr_res_rem (a : arr) (m : outcome (arr * Z)) : arr * arr_res :=
  match m with
  | Ok (a', v) => (a', RRemoved v)
  | Err s => (a, RStatus s)
  | UB _ => (a, RUB)
  end.

(* one API call; [alloc_ok] is the allocator's answer should the call ask *)
Definition arr_step (alloc_ok : bool) (a : arr) (o : arr_op) : arr * arr_res :=
  match o with
  | AInsAt idx v => arr_res_ins a (arr_insertdata_at alloc_ok a idx v)
  | AInsFirst v => arr_res_ins a (arr_insertdata_first alloc_ok a v)
  | AInsLast v => arr_res_ins a (arr_insertdata_last alloc_ok a v)
  | ARemAt idx => arr_res_rem a (arr_remove_at a idx)
  | ARemFirst => arr_res_rem a (arr_remove_first a)
  | ARemLast => arr_res_rem a (arr_remove_last a)
  | AAt idx => (a, RVal (arr_at a idx))
  | AFirst => (a, RVal (arr_first a))
  | ALast => (a, RVal (arr_last a))
  | ALen => (a, RLen (arr_len a))
  | ASetSize n => arr_res_ins a (arr_set_size alloc_ok a n)
  | ASort => arr_res_ins a (arr_sort a)
  end.

Fixpoint arr_run (a : arr) (ops : list (bool * arr_op)) : arr * list arr_res :=
  match ops with
  | [] => (a, [])
  | (ok, o) :: ops' =>
    let '(a1, r) := arr_step ok a o in
    let '(a2, rs) := arr_run a1 ops' in (a2, r :: rs)
  end.

(* the reference: a plain list *)
Definition aspec_step (l : list Z) (o : arr_op) : list Z * arr_res :=
  match o with
  | AInsAt idx v =>
    match spec_insert l idx v with
    | Some l' => (l', RStatus ARES_SUCCESS)
    | None => (l, RStatus ARES_EFORMERR)
    end
  | AInsFirst v => (v :: l, RStatus ARES_SUCCESS)
  | AInsLast v => (l ++ [v], RStatus ARES_SUCCESS)
  | ARemAt idx =>
    match spec_remove l idx with
    | Some (l', v) => (l', RRemoved v)
    | None => (l, RStatus ARES_EFORMERR)
    end
  | ARemFirst =>
    match l with
    | [] => (l, RStatus ARES_EFORMERR)
    | x :: t => (t, RRemoved x)
    end
  | ARemLast =>
    match l with
    | [] => (l, RStatus ARES_EFORMERR)
    | _ => (removelast l, RRemoved (last l 0%Z))
    end
  | AAt idx => (l, RVal (nth_error l idx))
  | AFirst => (l, RVal (hd_error l))
  | ALast => (l, RVal (match l with [] => None | _ => Some (last l 0%Z) end))
  | ALen => (l, RLen (length l))
  | ASetSize n =>
    (l, RStatus (if Nat.eqb n 0 || Nat.ltb n (length l) then ARES_EFORMERR else ARES_SUCCESS))
  | ASort => (qsort l, RStatus ARES_SUCCESS)
  end.

Fixpoint aspec_run (l : list Z) (ops : list arr_op) : list Z * list arr_res :=
  match ops with
  | [] => (l, [])
  | o :: ops' =>
    let '(l1, r) := aspec_step l o in
    let '(l2, rs) := aspec_run l1 ops' in (l2, r :: rs)
  end.

(* A run in which the allocator may refuse: each step either is the reference step, or -
   only if the allocator said no ([ok = false]) and the reference would have accepted the
   insert - reports ARES_ENOMEM and leaves the sequence unchanged. *)
(* calls that may ask the allocator *)
Definition arr_op_is_insert (o : arr_op) : bool :=
  match o with AInsAt _ _ | AInsFirst _ | AInsLast _ | ASetSize _ => true | _ => false end.

Fixpoint aspec_trace (l : list Z) (ops : list (bool * arr_op)) (rs : list arr_res) (lfinal : list Z) : Prop :=
  match ops, rs with
  | [], [] => lfinal = l
  | (ok, o) :: ops', r :: rs' =>
    (r = snd (aspec_step l o) /\ aspec_trace (fst (aspec_step l o)) ops' rs' lfinal)
    \/ (ok = false /\ arr_op_is_insert o = true /\ snd (aspec_step l o) = RStatus ARES_SUCCESS
        /\ r = RStatus ARES_ENOMEM /\ aspec_trace l ops' rs' lfinal)
  | _, _ => False
  end.
End ArrOps.
