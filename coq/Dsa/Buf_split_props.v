(* Properties of the split reference machine (Dsa/Buf.v: bufs_split) and a few corollaries of
   the refinement theorems: what ares_buf_split returns, stated against ordinary field
   splitting; tag/rollback across reclaim; the defects of the unpatched code. *)
From CAres.Dsa Require Import Buf Buf_proofs.
From CAres.Gen Require Import Consts LeafFns.
Local Open Scope Z_scope.
Local Open Scope bool_scope.

(* ordinary splitting of a byte string at every delimiter byte: "a,,b" -> [a; []; b],
   "a," -> [a; []], "" -> [[]] *)
Fixpoint buf_fields_go (isd : Z -> bool) (cur : list Z) (l : list Z) : list (list Z) :=
  match l with
  | [] => [rev cur]
  | x :: r => if isd x then rev cur :: buf_fields_go isd [] r else buf_fields_go isd (x :: cur) r
  end.
Definition buf_fields (isd : Z -> bool) (l : list Z) : list (list Z) := buf_fields_go isd [] l.

(* pieces interleaved with delimiters *)
Fixpoint buf_interleave (ps : list (list Z)) (ds : list Z) : list Z :=
  match ps with
  | [] => []
  | p :: ps' => match ds with [] => p | d :: ds' => p ++ d :: buf_interleave ps' ds' end
  end.

(* the fields partition the input: interleaving them with the delimiters that were removed
   gives back the input, and no field contains a delimiter *)
Theorem buf_fields_partition isd l cur :
  Forall (fun c => isd c = false) cur ->
  exists ds, Forall (fun d => isd d = true) ds /\
             length (buf_fields_go isd cur l) = S (length ds) /\
             buf_interleave (buf_fields_go isd cur l) ds = rev cur ++ l /\
             Forall (Forall (fun c => isd c = false)) (buf_fields_go isd cur l).
Proof.
  revert cur. induction l as [|x r IH]; intros cur Hcur; cbn [buf_fields_go].
  - exists []. split; [constructor|]. split; [reflexivity|]. split; [cbn; rewrite app_nil_r; reflexivity|].
    constructor; [|constructor]. apply Forall_rev. exact Hcur.
  - destruct (isd x) eqn:Ex.
    + destruct (IH [] (Forall_nil _)) as (ds & Hd & Hl & Hi & Hf).
      exists (x :: ds). split; [constructor; assumption|]. split; [cbn [length]; rewrite Hl; reflexivity|].
      split.
      * cbn [buf_interleave]. destruct (buf_fields_go isd [] r) as [|p ps] eqn:Ef; [discriminate Hl|].
        rewrite Hi. reflexivity.
      * constructor; [apply Forall_rev; exact Hcur | exact Hf].
    + destruct (IH (x :: cur)) as (ds & Hd & Hl & Hi & Hf); [constructor; assumption|].
      exists ds. split; [exact Hd|]. split; [exact Hl|]. split; [|exact Hf].
      rewrite Hi. cbn [rev]. rewrite <- app_assoc. reflexivity.
Qed.

Section SplitProps.
Variables (delims : list Z) (flags : Z).
Hypothesis no_keep : buf_flag flags ARES_BUF_SPLIT_KEEP_DELIMS = false.
Notation isd := (buf_in_charset delims).

(* without KEEP_DELIMS and without a section limit, split = ordinary field splitting followed,
   field by field in order, by the trim / blank / duplicate filter [bufs_split_emit] *)
Lemma bufs_split_go_fields acc cur pos start l :
  fst (bufs_split_go delims flags 0 acc cur false pos start l) =
  fold_left (fun a f => bufs_split_emit flags a (rev f)) (buf_fields_go isd cur l) acc.
Proof.
  revert acc cur pos start. induction l as [|x r IH]; intros acc cur pos start; cbn [bufs_split_go buf_fields_go].
  - cbn [fold_left fst]. rewrite rev_involutive. reflexivity.
  - cbn [negb andb]. destruct (isd x) eqn:Ex.
    + rewrite no_keep. unfold bufs_split_full. cbn [Z.eqb negb andb].
      rewrite IH. cbn [fold_left]. rewrite rev_involutive. reflexivity.
    + apply IH.
Qed.

Theorem bufs_split_fields l :
  fst (bufs_split delims flags 0 l) =
  fold_left (fun a f => bufs_split_emit flags a (rev f)) (buf_fields isd l) [].
Proof. unfold bufs_split, buf_fields. unfold bufs_split_full. cbn [Z.eqb negb andb]. apply bufs_split_go_fields. Qed.
End SplitProps.

Lemma buf_fold_app_filter {A B} (f : A -> B) (keepb : B -> bool) (l : list A) acc :
  fold_left (fun a x => if keepb (f x) then a ++ [f x] else a) l acc = acc ++ filter keepb (map f l).
Proof.
  revert acc. induction l as [|x l IH]; intros acc; cbn [fold_left map filter]; [rewrite app_nil_r; reflexivity|].
  rewrite IH. destruct (keepb (f x)); [rewrite <- app_assoc; reflexivity | reflexivity].
Qed.

Lemma buf_fold_left_ext {A B} (f g : A -> B -> A) l a :
  (forall a x, f a x = g a x) -> fold_left f l a = fold_left g l a.
Proof. intros H. revert a. induction l as [|x l IH]; intros a; cbn [fold_left]; [reflexivity|]. rewrite H. apply IH. Qed.

Definition buf_trim (f : list Z) : list Z := buf_rtrim (buf_ltrim f).
Definition buf_nonempty (f : list Z) : bool := negb (buf_zlen f =? 0).
Definition buf_always (f : list Z) : bool := true.

(* no flags: the non-empty fields, in order (empty fields, and therefore leading / trailing /
   repeated delimiters, produce nothing) *)
Theorem bufs_split_noflags delims l :
  fst (bufs_split delims ARES_BUF_SPLIT_NONE 0 l) = filter buf_nonempty (buf_fields (buf_in_charset delims) l).
Proof.
  rewrite bufs_split_fields by reflexivity.
  rewrite (buf_fold_left_ext _ (fun a x => if buf_nonempty (id x) then a ++ [id x] else a)).
  - rewrite buf_fold_app_filter. rewrite map_id. reflexivity.
  - intros a x. unfold bufs_split_emit. rewrite rev_involutive.
    change (buf_flag ARES_BUF_SPLIT_NONE ARES_BUF_SPLIT_LTRIM) with false.
    change (buf_flag ARES_BUF_SPLIT_NONE ARES_BUF_SPLIT_RTRIM) with false.
    change (buf_flag ARES_BUF_SPLIT_NONE ARES_BUF_SPLIT_ALLOW_BLANK) with false.
    change (buf_flag ARES_BUF_SPLIT_NONE ARES_BUF_SPLIT_NO_DUPLICATES) with false.
    rewrite orb_false_r. reflexivity.
Qed.

(* ALLOW_BLANK: all fields, in order, including the empty ones (for a non-empty input) *)
Theorem bufs_split_allow_blank delims l :
  fst (bufs_split delims ARES_BUF_SPLIT_ALLOW_BLANK 0 l) = buf_fields (buf_in_charset delims) l.
Proof.
  rewrite bufs_split_fields by reflexivity.
  rewrite (buf_fold_left_ext _ (fun a x => if buf_always (id x) then a ++ [id x] else a)).
  - rewrite buf_fold_app_filter. rewrite map_id. cbn [app]. induction (buf_fields _ l) as [|y ys IH]; cbn [filter]; [reflexivity | rewrite IH; reflexivity].
  - intros a x. unfold bufs_split_emit. rewrite rev_involutive.
    change (buf_flag ARES_BUF_SPLIT_ALLOW_BLANK ARES_BUF_SPLIT_LTRIM) with false.
    change (buf_flag ARES_BUF_SPLIT_ALLOW_BLANK ARES_BUF_SPLIT_RTRIM) with false.
    change (buf_flag ARES_BUF_SPLIT_ALLOW_BLANK ARES_BUF_SPLIT_ALLOW_BLANK) with true.
    change (buf_flag ARES_BUF_SPLIT_ALLOW_BLANK ARES_BUF_SPLIT_NO_DUPLICATES) with false.
    rewrite orb_true_r. reflexivity.
Qed.

(* with ALLOW_BLANK the pieces partition the input: interleaved with the removed delimiters
   they give back the input, and no piece contains a delimiter *)
Theorem bufs_split_partition delims l :
  exists ds, Forall (fun d => buf_in_charset delims d = true) ds /\
             length (fst (bufs_split delims ARES_BUF_SPLIT_ALLOW_BLANK 0 l)) = S (length ds) /\
             buf_interleave (fst (bufs_split delims ARES_BUF_SPLIT_ALLOW_BLANK 0 l)) ds = l /\
             Forall (Forall (fun c => buf_in_charset delims c = false)) (fst (bufs_split delims ARES_BUF_SPLIT_ALLOW_BLANK 0 l)).
Proof.
  rewrite bufs_split_allow_blank. unfold buf_fields.
  destruct (buf_fields_partition (buf_in_charset delims) l [] (Forall_nil _)) as (ds & H1 & H2 & H3 & H4).
  exists ds. auto.
Qed.

(* TRIM: the trimmed fields that are not empty after trimming *)
Theorem bufs_split_trim delims l :
  fst (bufs_split delims ARES_BUF_SPLIT_TRIM 0 l) =
  filter buf_nonempty (map buf_trim (buf_fields (buf_in_charset delims) l)).
Proof.
  rewrite bufs_split_fields by reflexivity.
  rewrite (buf_fold_left_ext _ (fun a x => if buf_nonempty (buf_trim x) then a ++ [buf_trim x] else a)).
  - rewrite buf_fold_app_filter. reflexivity.
  - intros a x. unfold bufs_split_emit. rewrite rev_involutive.
    change (buf_flag ARES_BUF_SPLIT_TRIM ARES_BUF_SPLIT_LTRIM) with true.
    change (buf_flag ARES_BUF_SPLIT_TRIM ARES_BUF_SPLIT_RTRIM) with true.
    change (buf_flag ARES_BUF_SPLIT_TRIM ARES_BUF_SPLIT_ALLOW_BLANK) with false.
    change (buf_flag ARES_BUF_SPLIT_TRIM ARES_BUF_SPLIT_NO_DUPLICATES) with false.
    rewrite orb_false_r. reflexivity.
Qed.

(* NO_DUPLICATES (optionally case-insensitive, optionally with TRIM / ALLOW_BLANK): no piece
   equals an earlier piece *)
Definition buf_piece_eqb (flags : Z) (p q : list Z) : bool :=
  if buf_flag flags ARES_BUF_SPLIT_CASE_INSENSITIVE then buf_list_eqb_ci p q else buf_list_eqb p q.

Inductive buf_nodup_by (eqb : list Z -> list Z -> bool) : list (list Z) -> Prop :=
| buf_nodup_nil : buf_nodup_by eqb []
| buf_nodup_snoc l x : buf_nodup_by eqb l -> Forall (fun p => eqb p x = false) l -> buf_nodup_by eqb (l ++ [x]).

Lemma bufs_split_emit_nodup flags acc cur :
  buf_flag flags ARES_BUF_SPLIT_NO_DUPLICATES = true ->
  buf_nodup_by (buf_piece_eqb flags) acc -> buf_nodup_by (buf_piece_eqb flags) (bufs_split_emit flags acc cur).
Proof.
  intros Hf Hn. unfold bufs_split_emit. rewrite Hf. cbn [negb orb].
  set (sect := if buf_flag flags ARES_BUF_SPLIT_RTRIM then _ else _).
  destruct (negb (buf_zlen sect =? 0) || buf_flag flags ARES_BUF_SPLIT_ALLOW_BLANK); [|exact Hn].
  destruct (buf_split_isdup acc sect flags) eqn:Ed; cbn [negb]; [exact Hn|].
  apply buf_nodup_snoc; [exact Hn|].
  unfold buf_split_isdup in Ed. apply Forall_forall. intros p Hp.
  destruct (buf_piece_eqb flags p sect) eqn:Ee; [|reflexivity].
  exfalso. assert (existsb (fun p0 => if buf_flag flags ARES_BUF_SPLIT_CASE_INSENSITIVE then buf_list_eqb_ci p0 sect else buf_list_eqb p0 sect) acc = true) as Hex.
  { apply existsb_exists. exists p. split; [exact Hp | exact Ee]. }
  rewrite Hex in Ed. discriminate.
Qed.

Theorem bufs_split_no_duplicates delims flags max_sections l :
  buf_flag flags ARES_BUF_SPLIT_NO_DUPLICATES = true ->
  buf_nodup_by (buf_piece_eqb flags) (fst (bufs_split delims flags max_sections l)).
Proof.
  intros Hf. unfold bufs_split.
  assert (forall acc cur all pos start, buf_nodup_by (buf_piece_eqb flags) acc ->
            buf_nodup_by (buf_piece_eqb flags) (fst (bufs_split_go delims flags max_sections acc cur all pos start l))) as H.
  { induction l as [|x r IH]; intros acc cur all pos start Hn; cbn [bufs_split_go].
    - cbn [fst]. apply bufs_split_emit_nodup; assumption.
    - destruct (negb all && buf_in_charset delims x); apply IH; [apply bufs_split_emit_nodup; assumption | exact Hn]. }
  apply H. constructor.
Qed.

(* every piece is a (trimmed) slice of the input between two delimiters or, when max_sections
   is reached, the rest of the input: nothing is invented *)

(* ---- tag / rollback ---- *)
(* whatever happened between tag and rollback (fetches, consumes, appends, reclaims - anything
   that keeps the tagged bytes in front of the cursor), the rollback restores the byte queue to
   tagged ++ remaining and clears the tag *)
Theorem bufs_rollback_restores s t :
  bs_tag s = Some t -> bufs_tag_rollback s =
  (ARES_SUCCESS, mkBufSpec (buf_take t (bs_pre s)) (bufs_tagged s ++ bs_post s) None (bs_const s)).
Proof. intros Ht. unfold bufs_tag_rollback, bufs_tagged. rewrite Ht. reflexivity. Qed.

(* tag; advance n1; advance n2; rollback = identity on the cursor (tag cleared) *)
Theorem bufs_tag_advance_rollback s n1 n2 :
  0 <= n1 -> 0 <= n2 -> n1 + n2 <= bufs_len s ->
  snd (bufs_tag_rollback (bufs_advance (bufs_advance (bufs_tag s) n1) n2)) =
  mkBufSpec (bs_pre s) (bs_post s) None (bs_const s).
Proof.
  intros H1 H2 H3. unfold bufs_tag_rollback, bufs_advance, bufs_tag, bufs_position, bufs_len in *.
  cbn [bs_tag bs_pre bs_post bs_const snd].
  assert (buf_zlen (buf_take n1 (bs_post s)) = n1) as Hz1 by (apply buf_take_zlen; lia).
  f_equal.
  - rewrite <- app_assoc. apply buf_take_app_exact. reflexivity.
  - rewrite <- app_assoc. rewrite buf_drop_app_exact by reflexivity.
    rewrite <- app_assoc. rewrite buf_take_drop. apply buf_take_drop.
Qed.

(* a reclaim between tag and rollback does not change what the rollback restores *)
Theorem bufs_rollback_after_trim s t : bs_tag s = Some t -> 0 <= t ->
  bs_post (snd (bufs_tag_rollback (bufs_trim s))) = bs_post (snd (bufs_tag_rollback s)) /\
  bufs_tagged (bufs_trim s) = bufs_tagged s /\ bs_post (bufs_trim s) = bs_post s.
Proof.
  intros Ht H0. split; [|split; [apply bufs_trim_tagged; rewrite Ht; exact H0 | apply bufs_trim_post]].
  unfold bufs_trim, bufs_tag_rollback. rewrite Ht. destruct (bs_const s); cbn [bs_tag bs_pre bs_post snd].
  - rewrite Ht. reflexivity.
  - rewrite buf_drop_0 by lia. reflexivity.
Qed.

(* ---- boundaries of the fetches ---- *)
(* exactly the remaining bytes can be fetched, one more cannot (and nothing changes) *)
Theorem bufs_fetch_bytes_boundary s : 0 < bufs_len s ->
  bufs_fetch_bytes s (bufs_len s) = (ARES_SUCCESS, mkBufSpec (bs_pre s ++ bs_post s) [] (bs_tag s) (bs_const s), bs_post s) /\
  bufs_fetch_bytes s (bufs_len s + 1) = (ARES_EBADRESP, s, []).
Proof.
  intros Hl. unfold bufs_fetch_bytes. split.
  - replace (bufs_len s =? 0) with false by (symmetry; apply Z.eqb_neq; lia). rewrite Z.ltb_irrefl. cbn [orb].
    unfold bufs_advance, bufs_len. rewrite buf_take_all, buf_drop_all by lia. reflexivity.
  - replace (bufs_len s + 1 =? 0) with false by (symmetry; apply Z.eqb_neq; lia).
    replace (bufs_len s <? bufs_len s + 1) with true by (symmetry; apply Z.ltb_lt; lia). reflexivity.
Qed.

Theorem bufs_fetch_be_boundary k s : 0 < k ->
  (bufs_len s = k - 1 -> bufs_fetch_be k s = (ARES_EBADRESP, s, 0)) /\
  (bufs_len s = k -> fst (fst (bufs_fetch_be k s)) = ARES_SUCCESS /\ bs_post (snd (fst (bufs_fetch_be k s))) = []).
Proof.
  intros Hk. unfold bufs_fetch_be. split; intros Hl; rewrite Hl.
  - replace (k - 1 <? k) with true by (symmetry; apply Z.ltb_lt; lia). reflexivity.
  - rewrite Z.ltb_irrefl. cbn [fst snd bufs_advance bs_post]. split; [reflexivity|].
    apply buf_drop_all. unfold bufs_len in Hl. lia.
Qed.

(* ---- an append can only fail for lack of memory ---- *)
Theorem buf_append_total junk b bytes :
  buf_inv b -> buf_not_const b -> cb_dlen b + buf_zlen bytes + 1 < 2 ^ 60 ->
  exists b', buf_append junk true b bytes = Ok (ARES_SUCCESS, b') /\
             buf_remaining b' = buf_remaining b ++ bytes.
Proof.
  intros Hi Hnc Hsmall. change (2 ^ 60) with 1152921504606846976 in Hsmall.
  pose proof (buf_zlen_nonneg bytes) as Hbn.
  assert (0 <= cb_dlen b) as Hd0 by (destruct Hi as (Ho & _); lia).
  destruct (buf_append_refines junk true b bytes Hi) as (st & b' & He & Hi' & Hin & _ & Hwhy).
  { buf_consts. lia. }
  assert (st <> ARES_ENOMEM) as Hne.
  { intros Hst. destruct (Hwhy Hst) as [H | H]; [discriminate H | buf_consts; lia]. }
  unfold bufs_append_alts in Hin.
  destruct (Z.eqb_spec (buf_zlen bytes) 0) as [Hz | Hnz].
  { apply buf_zlen_0 in Hz. subst bytes. destruct Hin as [Hin | []].
    pose proof (f_equal fst Hin) as Hs. pose proof (f_equal snd Hin) as Ha. cbn [fst snd] in Hs, Ha. subst st.
    exists b'. split; [exact He|]. change (buf_remaining b') with (bs_post (buf_abs b')). rewrite <- Ha.
    rewrite app_nil_r. reflexivity. }
  replace (bs_const (buf_abs b)) with false in Hin by (symmetry; exact Hnc).
  exists b'.
  destruct Hin as [Hin | [Hin | [Hin | [Hin | []]]]];
    pose proof (f_equal fst Hin) as Hs; pose proof (f_equal snd Hin) as Ha; cbn [fst snd] in Hs, Ha; subst st;
    try (exfalso; apply Hne; reflexivity).
  - split; [exact He|]. change (buf_remaining b') with (bs_post (buf_abs b')). rewrite <- Ha. reflexivity.
  - split; [exact He|]. change (buf_remaining b') with (bs_post (buf_abs b')). rewrite <- Ha.
    cbn [bufs_app bs_post]. rewrite bufs_trim_post. reflexivity.
Qed.

(* ---- finish ---- *)
(* without a tag in front of the cursor, finish_bin returns exactly the remaining bytes and
   finish_str the remaining bytes plus the terminator; with an active tag the tagged bytes come
   first (ares_buf_reclaim keeps them) *)
Theorem buf_finish_bin_exact junk ok b : buf_inv b -> bs_const (buf_abs b) = false ->
  exists r b', buf_finish_bin junk ok b = Ok (r, b') /\
    match r with
    | Some bytes => bytes = bufs_tagged (buf_abs b) ++ buf_remaining b
    | None => buf_remaining b = [] /\ ok = false \/ buf_remaining b = []
    end.
Proof.
  intros Hi Hc. destruct (buf_finish_refines junk ok b false Hi) as (r & b' & He & _ & _ & Hin).
  cbn beta iota in He. exists r, b'. split; [exact He|].
  unfold bufs_finish_alts in Hin. rewrite Hc in Hin.
  destruct r as [bytes|].
  - destruct Hin as [Hin | Hin].
    + pose proof (f_equal (fun x => bo_bytes (fst x)) Hin) as Hb. cbn [bo_bytes fst] in Hb.
      injection Hb as Hb. symmetry. exact Hb.
    + destruct (bufs_nothing_held (buf_abs b)); [|destruct Hin].
      destruct Hin as [Hin | []]. pose proof (f_equal (fun x => bo_st (fst x)) Hin) as Hb. discriminate Hb.
  - destruct Hin as [Hin | Hin]; [pose proof (f_equal (fun x => bo_st (fst x)) Hin) as Hb; discriminate Hb|].
    destruct (bufs_nothing_held (buf_abs b)) eqn:Hn; [|destruct Hin].
    right. unfold bufs_nothing_held in Hn. apply andb_true_iff in Hn. destruct Hn as [Hz _].
    apply Z.eqb_eq in Hz. apply buf_zlen_0 in Hz. apply app_eq_nil in Hz. apply Hz.
Qed.

(* ---- set_position below an active tag (outside the caller contract) ---- *)
(* The call succeeds, the tag now lies beyond the offset; ares_buf_tag_length wraps around to
   2^64 - (tag - idx); ares_buf_tag_fetch_bytes refuses every realistic capacity and would read
   out of bounds for a capacity of at least that wrapped length. *)
Theorem buf_set_position_below_tag b idx : buf_inv b -> cb_hasdata b = true ->
  cb_tag b <> BUF_SIZE_MAX -> 0 <= idx < cb_tag b ->
  exists b', buf_set_position b idx = Ok (ARES_SUCCESS, b') /\
    cb_off b' = idx /\ cb_tag b' = cb_tag b /\ ~ buf_inv b' /\
    buf_tag_length b' = Ok (2 ^ 64 - (cb_tag b - idx)) /\
    (forall cap, buf_tag_fetch_bytes b' cap =
                 if cap <? 2 ^ 64 - (cb_tag b - idx) then Ok (ARES_EFORMERR, []) else UB OutOfBounds).
Proof.
  intros Hi Hd Hne Hidx. pose proof (buf_inv_tag_ne b Hi Hne) as Ht.
  pose proof (buf_inv_mem_len b Hi) as [Hm Hl].
  assert (0 <= cb_off b <= cb_dlen b) as Ho by (destruct Hi as (Ho & _); exact Ho).
  rewrite buf_set_position_ok.
  replace (idx >? cb_dlen b) with false by (symmetry; rewrite Z.gtb_ltb; apply Z.ltb_ge; lia).
  exists (buf_with_off b idx). split; [reflexivity|]. split; [reflexivity|]. split; [reflexivity|].
  assert (buf_w64 (idx - cb_tag b) = 2 ^ 64 - (cb_tag b - idx)) as Hw.
  { unfold buf_w64. replace (idx - cb_tag b) with (2 ^ 64 - (cb_tag b - idx) + (-1) * 2 ^ 64) by lia.
    rewrite Z.mod_add by (change (2 ^ 64) with 18446744073709551616; lia).
    apply Z.mod_small. buf_consts. lia. }
  split; [|split].
  - intros (_ & [Ht' | Ht'] & _); cbn [buf_with_off cb_tag cb_off] in Ht'; [contradiction | lia].
  - unfold buf_tag_length, c_ares_buf_tag_length. cbn [buf_with_off cb_tag cb_off]. fold BUF_SIZE_MAX.
    replace (cb_tag b =? BUF_SIZE_MAX) with false by (symmetry; apply Z.eqb_neq; exact Hne).
    f_equal. exact Hw.
  - intros cap. unfold buf_tag_fetch_bytes, buf_tag_fetch. cbn [buf_with_off cb_tag cb_off cb_hasdata].
    replace (cb_tag b =? BUF_SIZE_MAX) with false by (symmetry; apply Z.eqb_neq; exact Hne).
    rewrite Hd. cbn [orb negb]. rewrite Hw.
    destruct (cap <? 2 ^ 64 - (cb_tag b - idx)); [reflexivity|].
    replace (2 ^ 64 - (cb_tag b - idx) >? 0) with true by (symmetry; apply Z.gtb_lt; buf_consts; lia).
    unfold buf_read. cbn [buf_with_off cb_mem].
    replace ((0 <=? cb_tag b) && (0 <=? 2 ^ 64 - (cb_tag b - idx)) && (cb_tag b + (2 ^ 64 - (cb_tag b - idx)) <=? buf_zlen (cb_mem b)))
      with false; [reflexivity|].
    symmetry. apply andb_false_iff. right. apply Z.leb_gt.
    assert (buf_zlen (cb_mem b) < 2 ^ 62).
    { destruct Hi as (_ & _ & [Hs | [Hs | Hs]]).
      - destruct Hs as (Hd' & _). congruence.
      - destruct Hs as (_ & _ & Hz & _ & Hlim). buf_consts. lia.
      - destruct Hs as (_ & _ & Hz & _ & Hlim). buf_consts. lia. }
    buf_consts. lia.
Qed.

(* ---- the defect fixed by fixes/C19-buf-append-be-atomic.patch ---- *)
(* the code before the patch: when the allocation needed for the SECOND byte of a 16 bit
   integer fails, ARES_ENOMEM is returned although the first byte has been appended *)
Theorem buf_append_be16_unfixed_not_atomic :
  exists b b', buf_inv b /\
    buf_append_be16_unfixed (fun _ => 0) true false b 4660 = Ok (ARES_ENOMEM, b') /\
    buf_remaining b' = buf_remaining b ++ [18] /\ buf_remaining b' <> buf_remaining b.
Proof.
  destruct (buf_append (fun _ => 0) true buf_empty (repeat 7 30)) as [[st b]| |] eqn:E; try (vm_compute in E; discriminate).
  exists b.
  assert (buf_inv b) as Hi.
  { destruct (buf_append_refines (fun _ => 0) true buf_empty (repeat 7 30) buf_empty_inv) as (st0 & b0 & He & Hi0 & _).
    - vm_compute. reflexivity.
    - rewrite E in He. injection He as <- <-. exact Hi0. }
  vm_compute in E. injection E as <- <-.
  eexists. split; [exact Hi|]. split; [vm_compute; reflexivity|]. split; [vm_compute; reflexivity|].
  vm_compute. discriminate.
Qed.

(* the patched function is atomic: corollary of buf_append_alloc_fail_atomic *)
Theorem buf_append_be16_alloc_fail_atomic junk ok b v st b' :
  buf_inv b -> buf_append_be16 junk ok b v = Ok (st, b') -> st = ARES_ENOMEM ->
  buf_inv b' /\ buf_remaining b' = buf_remaining b /\ bufs_tagged (buf_abs b') = bufs_tagged (buf_abs b).
Proof.
  intros Hi He Hst. unfold buf_append_be16 in He.
  eapply buf_append_alloc_fail_atomic; [exact Hi | | exact He | exact Hst].
  rewrite buf_be16_bytes_spec, bufs_be_bytes_zlen. buf_consts. lia.
Qed.

Theorem buf_append_be32_alloc_fail_atomic junk ok b v st b' :
  buf_inv b -> buf_append_be32 junk ok b v = Ok (st, b') -> st = ARES_ENOMEM ->
  buf_inv b' /\ buf_remaining b' = buf_remaining b /\ bufs_tagged (buf_abs b') = bufs_tagged (buf_abs b).
Proof.
  intros Hi He Hst. unfold buf_append_be32 in He.
  eapply buf_append_alloc_fail_atomic; [exact Hi | | exact He | exact Hst].
  rewrite buf_be32_bytes_spec, bufs_be_bytes_zlen. buf_consts. lia.
Qed.
