(* Refinement of the skip-list model to the sorted-list specification, operation by operation
   and for whole operation sequences.  Heap-level lemmas (level chains, push, pop, find) are in
   SList_heap.v. *)
From CAres.Dsa Require Export SList SList_heap.
From Coq Require Export Permutation.
From CAres.Gen Require Import Consts.
Local Open Scope nat_scope.

Section SLR.
Context {D : Type}.
Variable cmp : D -> D -> Z.
(* what the code needs from the callback: the sign of cmp is a total preorder *)
Hypothesis cmp_anti : forall a b, (cmp a b > 0 <-> cmp b a < 0)%Z.
Hypothesis cmp_trans : forall a b c, (cmp a b <= 0 -> cmp b c <= 0 -> cmp a c <= 0)%Z.

(* ---- lists of (id, data) ---- *)
Lemma sl_map_fst_split (l : list (nat * D)) A y B :
  map fst l = A ++ y :: B ->
  exists lA d lB, l = lA ++ (y, d) :: lB /\ map fst lA = A /\ map fst lB = B.
Proof.
  revert A; induction l as [|[n d] l IH]; intros A H.
  - destruct A; discriminate.
  - destruct A as [|a A]; simpl in H.
    + injection H as -> H. exists [], d, l. auto.
    + injection H as -> H. destruct (IH A H) as (lA & d' & lB & -> & <- & <-).
      exists ((a, d) :: lA), d', lB. auto.
Qed.

Lemma sl_in_ids (l : list (nat * D)) n : In n (map fst l) -> exists d, In (n, d) l.
Proof.
  intros H. apply in_map_iff in H. destruct H as ([n' d] & <- & H). eauto.
Qed.

Lemma sl_ids_in (l : list (nat * D)) n d : In (n, d) l -> In n (map fst l).
Proof. intros H. apply in_map_iff. exists (n, d). auto. Qed.

Lemma sl_lookup_hit (A B : list (nat * D)) n d :
  ~ In n (map fst A) -> sl_spec_lookup n (A ++ (n, d) :: B) = Some (n, d).
Proof.
  intros H. unfold sl_spec_lookup. rewrite sl_find_app_skip.
  - simpl. rewrite Nat.eqb_refl. reflexivity.
  - intros [m dm] Hm. simpl. apply Nat.eqb_neq. intros ->. apply H. eapply sl_ids_in; eauto.
Qed.

Lemma sl_lookup_miss (l : list (nat * D)) n : ~ In n (map fst l) -> sl_spec_lookup n l = None.
Proof.
  intros H. unfold sl_spec_lookup. rewrite <- (app_nil_r l). rewrite sl_find_app_skip; auto.
  intros [m dm] Hm. simpl. apply Nat.eqb_neq. intros ->. apply H. eapply sl_ids_in; eauto.
Qed.

Lemma sl_remove_miss (l : list (nat * D)) n : ~ In n (map fst l) -> sl_spec_remove n l = l.
Proof.
  induction l as [|[m dm] l IH]; simpl; intros H; auto.
  destruct (Nat.eqb_spec m n) as [->|Hne]; [tauto|]. simpl. f_equal. apply IH. tauto.
Qed.

Lemma sl_remove_hit (A B : list (nat * D)) n d :
  ~ In n (map fst A) -> ~ In n (map fst B) -> sl_spec_remove n (A ++ (n, d) :: B) = A ++ B.
Proof.
  intros HA HB. unfold sl_spec_remove. rewrite filter_app. simpl. rewrite Nat.eqb_refl. simpl.
  fold (sl_spec_remove n A). fold (sl_spec_remove n B).
  rewrite !sl_remove_miss; auto.
Qed.

Lemma sl_after_hit (A B : list (nat * D)) n d :
  ~ In n (map fst A) -> sl_spec_after n (A ++ (n, d) :: B) = hd_error B.
Proof.
  induction A as [|[m dm] A IH]; simpl; intros H.
  - rewrite Nat.eqb_refl. reflexivity.
  - destruct (Nat.eqb_spec m n) as [->|Hne]; [tauto|]. apply IH. tauto.
Qed.

Lemma sl_before_hit (A B : list (nat * D)) n d :
  ~ In n (map fst B) -> sl_spec_before n (A ++ (n, d) :: B) = hd_error (rev A).
Proof.
  intros H. unfold sl_spec_before. rewrite rev_app_distr. simpl. rewrite <- app_assoc. simpl.
  apply sl_after_hit. rewrite map_rev. rewrite <- in_rev. exact H.
Qed.

Lemma sl_nodup_split_notin {A} (l1 l2 : list A) x :
  NoDup (l1 ++ x :: l2) -> ~ In x l1 /\ ~ In x l2.
Proof.
  intros H. apply NoDup_remove_2 in H. split; intros Hi; apply H, in_or_app; auto.
Qed.

Lemma sl_hd_map_fst (l : list (nat * D)) : option_map fst (hd_error l) = hd_error (map fst l).
Proof. destruct l; reflexivity. Qed.

Lemma sl_spec_ins_length x (l : list (nat * D)) : length (sl_spec_ins cmp x l) = S (length l).
Proof.
  induction l as [|y t IH]; simpl; auto. destruct (cmp (snd x) (snd y) >? 0)%Z; simpl; auto.
Qed.

(* ---- the refinement relation ---- *)
Definition sl_R (s : slist D) (sp : sl_spec D) : Prop :=
  sl_rep s (map fst (sp_l sp)) /\
  (forall n d, In (n, d) (sp_l sp) -> sl_DATA s n = Some d) /\
  sl_sorted cmp (map snd (sp_l sp)) /\
  sl_cnt s = length (sp_l sp) /\
  (forall n, sl_is_live s n = true -> In n (map fst (sp_l sp))) /\
  sp_next sp = length (sl_heap s) /\
  sp_levels sp = sl_levels s /\ 0 < sl_levels s.

Lemma sl_is_live_LEV (s : slist D) n : sl_wf s -> (sl_is_live s n = true <-> 0 < sl_LEV s n).
Proof.
  intros W. unfold sl_is_live. split.
  - destruct (sl_node_at s n) eqn:E; [|discriminate]. intros _. eapply sl_live_LEV; eauto.
  - intros H. apply sl_LEV_live in H. destruct H as (nd & ->). reflexivity.
Qed.

Lemma sl_R_ordered s sp : sl_R s sp -> sl_ordered cmp s (map fst (sp_l sp)).
Proof.
  intros (RP & DAT & SO & _). split.
  - intros y Hy. apply sl_in_ids in Hy. destruct Hy as (d & Hd). eauto.
  - intros A y B z E Hz.
    apply sl_map_fst_split in E. destruct E as (lA & dy & lB & El & <- & <-).
    apply sl_in_ids in Hz. destruct Hz as (dz & Hz).
    exists dy, dz. split; [|split].
    + apply DAT. rewrite El. apply in_or_app. right. left. auto.
    + apply DAT. rewrite El. apply in_or_app. right. right. auto.
    + rewrite El, map_app in SO. apply sl_sorted_app_r in SO. simpl in SO.
      apply SO. apply in_map_iff. exists (z, dz). auto.
Qed.

Lemma sl_R_live_in s sp n : sl_R s sp -> (sl_is_live s n = true <-> In n (map fst (sp_l sp))).
Proof.
  intros (RP & _ & _ & _ & LI & _). split; auto.
  intros H. destruct RP as (W & _ & LV & _). apply sl_is_live_LEV; auto.
Qed.

Lemma sl_R_spec_in s sp n : sl_R s sp -> sl_spec_in n sp = sl_is_live s n.
Proof.
  intros R. pose proof (sl_R_live_in s sp n R) as HL.
  unfold sl_spec_in. destruct (sl_is_live s n).
  - assert (In n (map fst (sp_l sp))) as H by (apply HL; auto).
    destruct R as ((_ & ND & _) & _).
    apply in_split in H. destruct H as (A & B & E).
    apply sl_map_fst_split in E. destruct E as (lA & d & lB & El & <- & <-).
    rewrite El in ND |- *. rewrite map_app in ND. simpl in ND.
    apply sl_nodup_split_notin in ND. rewrite sl_lookup_hit; tauto.
  - rewrite sl_lookup_miss; auto. intros H. apply HL in H. discriminate.
Qed.

(* decomposition of the specification list around a live node *)
Lemma sl_R_split s sp n :
  sl_R s sp -> sl_is_live s n = true ->
  exists A d B, sp_l sp = A ++ (n, d) :: B /\ ~ In n (map fst A) /\ ~ In n (map fst B) /\
                sl_DATA s n = Some d.
Proof.
  intros R HL. apply (sl_R_live_in s sp n R) in HL.
  destruct R as ((_ & ND & _) & DAT & _).
  apply in_split in HL. destruct HL as (A & B & E).
  apply sl_map_fst_split in E. destruct E as (lA & d & lB & El & <- & <-).
  exists lA, d, lB. rewrite El in ND. rewrite map_app in ND. simpl in ND.
  apply sl_nodup_split_notin in ND. repeat split; try tauto.
  apply DAT. rewrite El. apply in_or_app. right. left. auto.
Qed.


(* ---- read-only operations ---- *)
Lemma sl_rep_level0 (s : slist D) ids :
  sl_rep s ids -> 0 < sl_levels s -> sl_lvl_ok s 0 ids.
Proof.
  intros (W & ND & LV & LK & TL) H0. specialize (LK 0 H0). rewrite (sl_chain_0 _ _ LV) in LK. exact LK.
Qed.

Lemma sl_first_ok s sp : sl_R s sp -> sl_node_first s = Ok (hd_error (map fst (sp_l sp))).
Proof.
  intros (RP & _ & _ & _ & _ & _ & _ & H0). pose proof (sl_rep_level0 s _ RP H0) as [Hs _].
  destruct RP as (W & _). unfold sl_node_first. rewrite sl_get_head_ok by auto.
  apply sl_seg_start in Hs. rewrite Hs. destruct (map fst (sp_l sp)); reflexivity.
Qed.

Lemma sl_last_ok s sp : sl_R s sp -> sl_node_last s = Ok (hd_error (rev (map fst (sp_l sp)))).
Proof.
  intros ((_ & _ & _ & _ & TL) & _). unfold sl_node_last. rewrite TL, sl_last_rev. reflexivity.
Qed.

Lemma sl_next_ok s sp A n d B :
  sl_R s sp -> sp_l sp = A ++ (n, d) :: B -> sl_node_next s n = Ok (hd_error (map fst B)).
Proof.
  intros (RP & _ & _ & _ & _ & _ & _ & H0) E. pose proof (sl_rep_level0 s _ RP H0) as [Hs _].
  destruct RP as (W & _ & LV & _). unfold sl_node_next.
  rewrite E, map_app in Hs, LV. simpl in Hs, LV.
  rewrite sl_get_next_ok; auto.
  - rewrite (sl_seg_next _ _ _ _ _ Hs). reflexivity.
  - apply LV, in_or_app. right. left. auto.
Qed.

Lemma sl_prev_ok s sp A n d B :
  sl_R s sp -> sp_l sp = A ++ (n, d) :: B -> sl_node_prev s n = Ok (hd_error (rev (map fst A))).
Proof.
  intros (RP & _ & _ & _ & _ & _ & _ & H0) E. pose proof (sl_rep_level0 s _ RP H0) as [_ Hb].
  destruct RP as (W & _ & LV & _). unfold sl_node_prev.
  rewrite E, map_app in Hb, LV. simpl in Hb, LV.
  rewrite sl_get_prev_ok; auto.
  - rewrite (sl_bwd_prev _ _ _ _ Hb), sl_last_rev. reflexivity.
  - apply LV, in_or_app. right. left. auto.
Qed.

Lemma sl_val_ok s sp n d : sl_R s sp -> In (n, d) (sp_l sp) -> sl_node_val s n = Ok d.
Proof. intros (_ & DAT & _) H. apply sl_node_data_ok. auto. Qed.

Lemma sl_opt_val_ok s sp (o : option (nat * D)) :
  sl_R s sp -> (forall e, o = Some e -> In e (sp_l sp)) ->
  sl_opt_val s (option_map fst o) = Ok (option_map snd o).
Proof.
  intros R H. destruct o as [[n d]|]; simpl; auto.
  rewrite (sl_val_ok s sp n d); auto.
Qed.

Lemma sl_walk_fwd_ok s sp : forall B A e acc fuel,
  sl_R s sp -> sp_l sp = A ++ e :: B -> length B < fuel ->
  sl_walk fuel s true (Some (fst e)) acc = Ok (rev acc ++ e :: B).
Proof.
  induction B as [|e' B IH]; intros A [n d] acc fuel R E Hf;
    (destruct fuel as [|f]; [simpl in Hf; lia|]); cbn [sl_walk fst].
  - rewrite (sl_val_ok s sp n d) by (auto; rewrite E; apply in_or_app; right; left; auto).
    cbn [bind]. rewrite (sl_next_ok s sp A n d [] R E). cbn [bind map hd_error].
    destruct f; reflexivity.
  - rewrite (sl_val_ok s sp n d) by (auto; rewrite E; apply in_or_app; right; left; auto).
    cbn [bind]. rewrite (sl_next_ok s sp A n d (e' :: B) R E). cbn [bind map hd_error].
    rewrite (IH (A ++ [(n, d)]) e' ((n, d) :: acc) f R).
    + simpl. rewrite <- app_assoc. reflexivity.
    + rewrite <- app_assoc. exact E.
    + simpl in Hf. lia.
Qed.

Lemma sl_walk_bwd_ok s sp : forall A B e acc fuel,
  sl_R s sp -> sp_l sp = A ++ e :: B -> length A < fuel ->
  sl_walk fuel s false (Some (fst e)) acc = Ok (rev acc ++ e :: rev A).
Proof.
  induction A as [|e' A IH] using rev_ind; intros B [n d] acc fuel R E Hf;
    (destruct fuel as [|f]; [simpl in Hf; lia|]); cbn [sl_walk fst].
  - rewrite (sl_val_ok s sp n d) by (auto; rewrite E; apply in_or_app; right; left; auto).
    cbn [bind]. rewrite (sl_prev_ok s sp [] n d B R E). cbn [bind map rev hd_error].
    destruct f; reflexivity.
  - rewrite (sl_val_ok s sp n d) by (auto; rewrite E; apply in_or_app; right; left; auto).
    cbn [bind]. rewrite (sl_prev_ok s sp (A ++ [e']) n d B R E).
    rewrite map_app, rev_app_distr. cbn [map rev app hd_error bind].
    rewrite <- app_assoc in E. cbn [app] in E.
    rewrite (IH ((n, d) :: B) e' ((n, d) :: acc) f R E).
    + rewrite rev_app_distr. simpl. rewrite <- app_assoc. reflexivity.
    + rewrite app_length in Hf. simpl in Hf. lia.
Qed.

Lemma sl_walk_fwd_all s sp : sl_R s sp -> sl_walk_fwd s = Ok (sp_l sp).
Proof.
  intros R. unfold sl_walk_fwd. rewrite (sl_first_ok s sp R). cbn [bind].
  destruct (sp_l sp) as [|e l] eqn:E; cbn [map hd_error].
  - destruct (sl_cnt s); reflexivity.
  - rewrite (sl_walk_fwd_ok s sp l [] e [] (sl_cnt s) R E); auto.
    destruct R as (_ & _ & _ & C & _). rewrite C, E. simpl. lia.
Qed.

Lemma sl_walk_bwd_all s sp : sl_R s sp -> sl_walk_bwd s = Ok (rev (sp_l sp)).
Proof.
  intros R. unfold sl_walk_bwd. rewrite (sl_last_ok s sp R). cbn [bind].
  destruct (sl_last_cases (sp_l sp)) as [E|(l & e & E)]; rewrite E.
  - simpl. destruct (sl_cnt s); reflexivity.
  - rewrite map_app, !rev_app_distr. cbn [map rev app hd_error].
    rewrite (sl_walk_bwd_ok s sp l [] e [] (sl_cnt s) R E); auto.
    destruct R as (_ & _ & _ & C & _). rewrite C, E, app_length. simpl. lia.
Qed.

(* ---- find ---- *)
Lemma sl_find_ok s sp v :
  sl_R s sp -> sl_node_find cmp s v = Ok (option_map fst (sl_spec_find cmp v (sp_l sp))).
Proof.
  intros R. pose proof (sl_R_ordered s sp R) as OR.
  pose proof R as (RP & DAT & SO & CNT & _ & _ & _ & H0).
  destruct (sl_node_find_ok cmp cmp_anti cmp_trans s v (map fst (sp_l sp)) RP OR) as (r & E & HR); auto.
  { rewrite map_length. exact CNT. }
  rewrite E. f_equal. unfold sl_spec_find. destruct r as [f|].
  - destruct HR as (A' & B' & EA & HA & (df & Edf & Hf)).
    apply sl_map_fst_split in EA. destruct EA as (lA & d & lB & El & <- & <-).
    rewrite El, sl_find_app_skip.
    + assert (d = df) as ->.
      { assert (sl_DATA s f = Some d) as H by (apply DAT; rewrite El; apply in_or_app; right; left; auto).
        congruence. }
      simpl. rewrite Hf. reflexivity.
    + intros [m dm] Hm. simpl. apply Z.eqb_neq. intros Hc.
      apply (HA m); [eapply sl_ids_in; eauto|]. exists dm. split; auto.
      apply DAT. rewrite El. apply in_or_app. auto.
  - rewrite <- (app_nil_r (sp_l sp)), sl_find_app_skip; auto.
    intros [m dm] Hm. simpl. apply Z.eqb_neq. intros Hc.
    apply (HR m); [eapply sl_ids_in; eauto|]. exists dm. split; auto.
Qed.


(* ---- moving the structural invariant across heap changes that do not touch the members ---- *)
Lemma sl_HD_high (s : slist D) k : sl_wf s -> sl_levels s <= k -> sl_HD s k = None.
Proof.
  intros [_ W] H. unfold sl_HD. destruct (nth_error (sl_head s) k) eqn:E; auto.
  assert (k < length (sl_head s)) by (apply nth_error_Some; congruence). lia.
Qed.

Lemma sl_rep_transfer (s s' : slist D) ids :
  sl_rep s ids -> sl_wf s' ->
  (forall y, In y ids -> (forall k, sl_NX s' y k = sl_NX s y k) /\
                         (forall k, sl_PV s' y k = sl_PV s y k) /\ sl_LEV s' y = sl_LEV s y) ->
  (forall k, sl_HD s' k = sl_HD s k) -> sl_tail s' = sl_tail s -> sl_levels s <= sl_levels s' ->
  sl_rep s' ids.
Proof.
  intros (W & ND & LV & LK & TL) W' HM HH HT HL.
  split; [exact W'|]. split; [exact ND|]. split; [|split].
  - intros n Hn. destruct (HM n Hn) as (_ & _ & ->). auto.
  - intros k Hk.
    assert (EC : sl_chain (sl_LEV s') k ids = sl_chain (sl_LEV s) k ids).
    { apply filter_ext_in. intros y Hy. destruct (HM y Hy) as (_ & _ & ->). reflexivity. }
    rewrite EC. destruct (Nat.lt_ge_cases k (sl_levels s)) as [Hlt|Hge].
    + apply (sl_lvl_ok_ext_in s); auto.
      * intros y Hy. apply sl_chain_in in Hy. apply HM. tauto.
      * intros y Hy. apply sl_chain_in in Hy. apply HM. tauto.
    + rewrite sl_chain_high.
      * split; simpl; auto. rewrite HH. apply sl_HD_high; auto.
      * intros y Hy. pose proof (sl_wf_LEV s y W). lia.
  - congruence.
Qed.

Lemma sl_rep_set_cnt (s : slist D) c ids : sl_rep s ids -> sl_rep (sl_set_cnt s c) ids.
Proof. intros H. exact H. Qed.

(* the state of ares_slist_insert after its allocations, before node_push *)
Definition sl_alloc_state (s : slist D) (d : D) (lvl : nat) : slist D :=
  mkSl (sl_heap s ++ [Some (mkSlNode d (repeat None lvl) (repeat None lvl) lvl)])
       (if sl_levels s <? lvl then sl_head s ++ repeat None (lvl - sl_levels s) else sl_head s)
       (if sl_levels s <? lvl then lvl else sl_levels s) (sl_tail s) (sl_cnt s).

Lemma sl_alloc_node_at s d lvl m :
  sl_node_at (sl_alloc_state s d lvl) m =
  if m =? length (sl_heap s) then Some (mkSlNode d (repeat None lvl) (repeat None lvl) lvl)
  else sl_node_at s m.
Proof.
  unfold sl_node_at, sl_alloc_state. cbn [sl_heap].
  destruct (Nat.eqb_spec m (length (sl_heap s))) as [->|Hne].
  - rewrite nth_error_app2 by lia. rewrite Nat.sub_diag. reflexivity.
  - destruct (Nat.lt_ge_cases m (length (sl_heap s))) as [Hlt|Hge].
    + rewrite nth_error_app1 by auto. reflexivity.
    + assert (nth_error (sl_heap s) m = None) as -> by (apply nth_error_None; lia).
      assert (nth_error (sl_heap s ++ [Some (mkSlNode d (repeat None lvl) (repeat None lvl) lvl)]) m = None) as ->.
      { apply nth_error_None. rewrite app_length. simpl. lia. }
      reflexivity.
Qed.

Lemma sl_alloc_HD s d lvl k : sl_wf s -> sl_HD (sl_alloc_state s d lvl) k = sl_HD s k.
Proof.
  intros W. unfold sl_HD at 1, sl_alloc_state. cbn [sl_head].
  destruct (Nat.ltb_spec (sl_levels s) lvl) as [Hlt|Hge]; [|reflexivity].
  destruct W as [_ WH].
  destruct (Nat.lt_ge_cases k (length (sl_head s))) as [Hk|Hk].
  - rewrite nth_error_app1 by auto. reflexivity.
  - rewrite nth_error_app2 by auto.
    assert (sl_HD s k = None) as ->.
    { unfold sl_HD. assert (nth_error (sl_head s) k = None) as -> by (apply nth_error_None; lia). reflexivity. }
    destruct (nth_error (repeat None (lvl - sl_levels s)) (k - length (sl_head s))) eqn:E; auto.
    apply nth_error_In, repeat_spec in E. subst. reflexivity.
Qed.

Lemma sl_alloc_ok s d lvl ids :
  sl_rep s ids -> (forall y, In y ids -> y < length (sl_heap s)) -> 1 <= lvl ->
  let s1 := sl_alloc_state s d lvl in
  let n := length (sl_heap s) in
  sl_rep s1 ids /\ sl_LEV s1 n = lvl /\ sl_DATA s1 n = Some d /\
  (forall m, m <> n -> sl_DATA s1 m = sl_DATA s m /\ sl_LEV s1 m = sl_LEV s m) /\
  length (sl_heap s1) = S n /\ sl_cnt s1 = sl_cnt s /\
  sl_levels s1 = (if sl_levels s <? lvl then lvl else sl_levels s).
Proof.
  intros RP HB Hl s1 n.
  assert (W1 : sl_wf s1).
  { destruct RP as ((WN & WH) & _). split.
    - intros m nd. unfold s1. rewrite sl_alloc_node_at.
      destruct (Nat.eqb_spec m (length (sl_heap s))) as [_|_].
      + intros [= <-]. unfold sl_node_wf. cbn [sn_next sn_prev sn_levels sl_levels sl_alloc_state]. rewrite !repeat_length.
        destruct (Nat.ltb_spec (sl_levels s) lvl); lia.
      + intros H. apply WN in H. unfold sl_node_wf in *. cbn [sl_levels sl_alloc_state].
        destruct (Nat.ltb_spec (sl_levels s) lvl); lia.
    - unfold s1, sl_alloc_state. cbn [sl_head sl_levels].
      destruct (Nat.ltb_spec (sl_levels s) lvl); auto.
      rewrite app_length, repeat_length. lia. }
  assert (NA : forall m, m <> n -> sl_node_at s1 m = sl_node_at s m).
  { intros m Hm. unfold s1. rewrite sl_alloc_node_at.
    destruct (Nat.eqb_spec m (length (sl_heap s))); [contradiction|reflexivity]. }
  assert (NN : sl_node_at s1 n = Some (mkSlNode d (repeat None lvl) (repeat None lvl) lvl)).
  { unfold s1. rewrite sl_alloc_node_at. unfold n. rewrite Nat.eqb_refl. reflexivity. }
  split; [|split; [|split; [|split; [|split; [|split]]]]].
  - apply (sl_rep_transfer s); auto.
    + intros y Hy. assert (y <> n) as Hne by (specialize (HB y Hy); unfold n; lia).
      unfold sl_NX, sl_PV, sl_LEV. rewrite (NA y Hne). auto.
    + intros k. apply sl_alloc_HD. apply RP.
    + unfold s1, sl_alloc_state. cbn [sl_levels]. destruct (Nat.ltb_spec (sl_levels s) lvl); lia.
  - unfold sl_LEV. rewrite NN. reflexivity.
  - unfold sl_DATA. rewrite NN. reflexivity.
  - intros m Hm. unfold sl_DATA, sl_LEV. rewrite (NA m Hm). auto.
  - unfold s1, sl_alloc_state. cbn [sl_heap]. rewrite app_length. simpl. unfold n. lia.
  - reflexivity.
  - reflexivity.
Qed.

Lemma sl_free_node_at (s : slist D) n m :
  n < length (sl_heap s) ->
  sl_node_at (sl_free_node s n) m = if m =? n then None else sl_node_at s m.
Proof.
  intros H. unfold sl_node_at, sl_free_node. cbn [sl_heap].
  destruct (Nat.eqb_spec m n) as [->|Hne].
  - rewrite sl_upd_nth_same by auto. reflexivity.
  - rewrite sl_upd_nth_other by auto. reflexivity.
Qed.

Lemma sl_free_ok (s : slist D) n ids :
  sl_rep s ids -> ~ In n ids -> 0 < sl_LEV s n ->
  let s2 := sl_free_node s n in
  sl_rep s2 ids /\ sl_LEV s2 n = 0 /\
  (forall m, m <> n -> sl_DATA s2 m = sl_DATA s m /\ sl_LEV s2 m = sl_LEV s m) /\
  length (sl_heap s2) = length (sl_heap s) /\ sl_cnt s2 = sl_cnt s /\ sl_levels s2 = sl_levels s.
Proof.
  intros RP NI LVn s2.
  assert (Hlt : n < length (sl_heap s)).
  { apply sl_LEV_live in LVn. destruct LVn as (nd & E). eapply sl_node_at_lt; eauto. }
  assert (NA : forall m, sl_node_at s2 m = if m =? n then None else sl_node_at s m).
  { intros m. apply sl_free_node_at. exact Hlt. }
  assert (W2 : sl_wf s2).
  { destruct RP as ((WN & WH) & _). split; auto.
    intros m nd. rewrite NA. destruct (m =? n); [discriminate|]. apply WN. }
  split; [|split; [|split; [|split; [|split]]]].
  - apply (sl_rep_transfer s); auto.
    intros y Hy. assert (y <> n) as Hne by (intros ->; auto).
    unfold sl_NX, sl_PV, sl_LEV. rewrite NA.
    destruct (Nat.eqb_spec y n); [contradiction|auto].
  - unfold sl_LEV. rewrite NA, Nat.eqb_refl. reflexivity.
  - intros m Hm. unfold sl_DATA, sl_LEV. rewrite NA.
    destruct (Nat.eqb_spec m n); [contradiction|auto].
  - unfold s2, sl_free_node. cbn [sl_heap]. apply sl_upd_length.
  - reflexivity.
  - reflexivity.
Qed.

Lemma sl_set_data_ok (s : slist D) n d ids :
  sl_rep s ids -> 0 < sl_LEV s n ->
  exists s1, sl_set_data s n d = Ok s1 /\ sl_rep s1 ids /\ sl_DATA s1 n = Some d /\
    (forall m, m <> n -> sl_DATA s1 m = sl_DATA s m) /\ (forall m, sl_LEV s1 m = sl_LEV s m) /\
    length (sl_heap s1) = length (sl_heap s) /\ sl_cnt s1 = sl_cnt s /\ sl_levels s1 = sl_levels s.
Proof.
  intros RP LVn. pose proof RP as ((WN & WH) & _).
  pose proof (sl_LEV_live _ _ LVn) as (nd & E).
  unfold sl_set_data, sl_load. rewrite E. cbn [bind].
  eexists. split; [reflexivity|].
  set (f := fun nd0 : sl_node D => mkSlNode d (sn_prev nd0) (sn_next nd0) (sn_levels nd0)).
  set (s1 := sl_map_node s n f).
  assert (NA : forall m, sl_node_at s1 m = if m =? n then Some (f nd) else sl_node_at s m).
  { intros m. unfold s1. rewrite sl_node_at_map. rewrite E. reflexivity. }
  assert (W1 : sl_wf s1).
  { split; [|exact WH]. intros m nd0. rewrite NA. destruct (Nat.eqb_spec m n) as [->|_].
    - intros [= <-]. apply WN in E. exact E.
    - apply WN. }
  assert (LE : forall m, sl_LEV s1 m = sl_LEV s m).
  { intros m. unfold sl_LEV. rewrite NA. destruct (Nat.eqb_spec m n) as [->|_]; auto. rewrite E. reflexivity. }
  split; [|split; [|split; [|split; [|split; [|split]]]]].
  - apply (sl_rep_transfer s); auto.
    intros y Hy. split; [|split]; auto.
    + intros k. unfold sl_NX. rewrite NA. destruct (Nat.eqb_spec y n) as [->|_]; auto. rewrite E. reflexivity.
    + intros k. unfold sl_PV. rewrite NA. destruct (Nat.eqb_spec y n) as [->|_]; auto. rewrite E. reflexivity.
  - unfold sl_DATA. rewrite NA, Nat.eqb_refl. reflexivity.
  - intros m Hm. unfold sl_DATA. rewrite NA. destruct (Nat.eqb_spec m n); [contradiction|reflexivity].
  - exact LE.
  - unfold s1, sl_map_node. cbn [sl_heap]. rewrite E. apply sl_upd_length.
  - reflexivity.
  - reflexivity.
Qed.


(* ---- ares_slist_insert ---- *)
Lemma sl_calc_level_ge maxl heads : forall level, level <= sl_calc_level maxl level heads.
Proof.
  induction heads as [|h IH]; intros level; simpl; auto.
  destruct (level <? maxl); auto. specialize (IH (S level)). lia.
Qed.

Lemma sl_rep_members_lt (s : slist D) ids y : sl_rep s ids -> In y ids -> y < length (sl_heap s).
Proof.
  intros (_ & _ & LV & _) Hy. apply LV in Hy. apply sl_LEV_live in Hy.
  destruct Hy as (nd & E). eapply sl_node_at_lt; eauto.
Qed.

Lemma sl_same_live (s s' : slist D) n : sl_wf s -> sl_wf s' -> sl_same s s' ->
  sl_is_live s' n = sl_is_live s n.
Proof.
  intros W W' (_ & SL & _).
  pose proof (sl_is_live_LEV s n W) as H1. pose proof (sl_is_live_LEV s' n W') as H2.
  rewrite SL in H2. destruct (sl_is_live s n), (sl_is_live s' n); auto.
  - apply (proj2 H2), (proj1 H1). reflexivity.
  - symmetry. apply (proj2 H1), (proj1 H2). reflexivity.
Qed.

Lemma sl_insert_ok s sp d heads a1 a2 a3 a4 :
  sl_R s sp ->
  exists s' sp' r,
    sl_insert cmp heads a1 a2 a3 a4 s d = Ok (s', r) /\
    sl_step_spec cmp sp (SlInsert d heads a1 a2 a3 a4) = (sp', SlRNode r) /\
    sl_R s' sp'.
Proof.
  intros R. pose proof R as (RP & DAT & SO & CNT & LI & NX & LVS & H0).
  unfold sl_insert. cbn [sl_step_spec]. rewrite <- CNT, LVS.
  set (lvl := sl_calc_level (sl_max_level (sl_cnt s) (sl_levels s)) 1 heads).
  change (mkSl (sl_heap s ++ [Some (mkSlNode d (repeat None lvl) (repeat None lvl) lvl)])
               (if sl_levels s <? lvl then sl_head s ++ repeat None (lvl - sl_levels s) else sl_head s)
               (if sl_levels s <? lvl then lvl else sl_levels s)
               (sl_tail s) (sl_cnt s)) with (sl_alloc_state s d lvl).
  destruct a1; cbn [negb andb]; [|exists s, sp, None; auto].
  destruct a2; cbn [negb andb]; [|exists s, sp, None; auto].
  destruct a3; cbn [negb andb]; [|exists s, sp, None; auto].
  destruct (sl_levels s <? lvl) eqn:EG, a4; cbn [negb andb orb];
    try (exists s, sp, None; split; [reflexivity|split; [reflexivity|exact R]]).
  all: set (n := length (sl_heap s));
    assert (Hl : 1 <= lvl) by apply sl_calc_level_ge;
    destruct (sl_alloc_ok s d lvl _ RP (fun y => sl_rep_members_lt s _ y RP) Hl)
      as (RP1 & LV1 & D1 & OTH1 & HL1 & C1 & LS1);
    fold n in LV1, D1, OTH1, HL1;
    destruct (sl_spec_ins_split cmp cmp_trans (sp_next sp, d) (sp_l sp) SO) as (P0 & S0 & El & Ei & HP & HS);
    rewrite NX in Ei |- *; fold n in Ei |- *;
    assert (Hn : forall y, In y (map fst (sp_l sp)) -> y <> n)
      by (intros y Hy; pose proof (sl_rep_members_lt s _ y RP Hy); unfold n; lia);
    rewrite El, map_app in RP1, Hn;
    destruct (sl_node_push_ok cmp (sl_alloc_state s d lvl) n d (map fst P0) (map fst S0) RP1)
      as (s2 & E2 & RP2 & SM2);
    try (intros Hin; apply (Hn n Hin); reflexivity);
    try (rewrite LV1; lia); try exact D1;
    try (intros y Hy; apply sl_in_ids in Hy; destruct Hy as (dy & Hy); exists dy; split;
         [ destruct (OTH1 y) as [-> _];
           [ apply Hn, in_or_app; first [ left; eapply sl_ids_in; eassumption | right; eapply sl_ids_in; eassumption ]
           | apply DAT; rewrite El; apply in_or_app; auto ]
         | first [ apply (HP (y, dy) Hy) | apply (HS (y, dy) Hy) ] ]);
    try (rewrite C1, CNT, El, <- map_app, map_length; lia).
  all: rewrite E2; cbn [bind]; do 3 eexists; split; [reflexivity|]; split; [reflexivity|].
  all: pose proof SM2 as (SMD & SML & SMl & SMc & SMh);
       pose proof RP1 as (W1 & _); pose proof RP2 as (W2 & _).
  all: unfold sl_R; cbn [sp_l sp_next sp_levels]; rewrite Ei.
  all: split; [apply sl_rep_set_cnt; rewrite map_app; exact RP2|].
  all: split; [intros m dm Hm; change (sl_DATA (sl_set_cnt s2 (S (sl_cnt s2))) m) with (sl_DATA s2 m);
               rewrite SMD; apply in_app_or in Hm; destruct Hm as [Hm|[Hm|Hm]];
               [ destruct (OTH1 m) as [-> _];
                 [apply Hn, in_or_app; left; eapply sl_ids_in; eauto
                 |apply DAT; rewrite El; apply in_or_app; auto]
               | injection Hm as <- <-; exact D1
               | destruct (OTH1 m) as [-> _];
                 [apply Hn, in_or_app; right; eapply sl_ids_in; eauto
                 |apply DAT; rewrite El; apply in_or_app; auto] ]|].
  all: split; [rewrite <- Ei; apply sl_spec_ins_sorted; auto|].
  all: split; [cbn [sl_cnt sl_set_cnt]; rewrite SMc, C1, CNT, <- Ei, sl_spec_ins_length; reflexivity|].
  all: split; [intros m Hm; change (sl_is_live (sl_set_cnt s2 (S (sl_cnt s2))) m) with (sl_is_live s2 m) in Hm;
               rewrite (sl_same_live _ _ m W1 W2 SM2) in Hm;
               rewrite map_app; cbn [map fst]; apply in_or_app;
               destruct (Nat.eq_dec m n) as [->|Hne]; [right; left; reflexivity|];
               apply (sl_is_live_LEV _ _ W1) in Hm; destruct (OTH1 m Hne) as [_ EL]; rewrite EL in Hm;
               assert (In m (map fst (sp_l sp))) as Hi
                 by (apply LI; apply (sl_is_live_LEV s m); [apply RP|exact Hm]);
               rewrite El, map_app in Hi; apply in_app_or in Hi; destruct Hi; [left|right; right]; auto|].
  all: split; [cbn [sl_heap sl_set_cnt]; rewrite SMh, HL1; reflexivity|].
  all: cbn [sl_levels sl_set_cnt]; rewrite SMl, LS1, EG; split; auto.
  all: apply Nat.ltb_lt in EG; lia.
Qed.


(* ---- ares_slist_node_claim / ares_slist_node_destroy ---- *)
Lemma sl_claim_ok s sp n A d B :
  sl_R s sp -> sp_l sp = A ++ (n, d) :: B ->
  exists s', sl_node_claim s n = Ok (s', d) /\
             sl_R s' (mkSlSpec (sp_next sp) (A ++ B) (sp_levels sp)).
Proof.
  intros R E. pose proof R as (RP & DAT & SO & CNT & LI & NX & LVS & H0).
  rewrite E, map_app in RP. cbn [map fst] in RP.
  pose proof RP as (W & ND & LV & _).
  pose proof (sl_nodup_split_notin _ _ _ ND) as [NA NB].
  assert (LVn : 0 < sl_LEV s n) by (apply LV, in_or_app; right; left; auto).
  assert (Dn : sl_DATA s n = Some d) by (apply DAT; rewrite E; apply in_or_app; right; left; auto).
  destruct (sl_node_pop_ok s n (map fst A) (map fst B) RP) as (s1 & E1 & RP1 & SM1).
  pose proof SM1 as (SMD & SML & SMl & SMc & SMh).
  assert (NI : ~ In n (map fst A ++ map fst B)) by (intros H; apply in_app_or in H; tauto).
  destruct (sl_free_ok s1 n _ RP1 NI) as (RP2 & LV2 & OTH2 & HL2 & C2 & LS2).
  { rewrite SML. exact LVn. }
  unfold sl_node_claim, sl_load. unfold sl_DATA in Dn.
  destruct (sl_node_at s n) as [nd|] eqn:En; [|discriminate]. simpl in Dn. injection Dn as Dn.
  cbn [bind]. rewrite E1. cbn [bind].
  assert (Hc : sl_cnt (sl_free_node s1 n) = S (length (A ++ B))).
  { rewrite C2, SMc, CNT, E, !app_length. simpl. lia. }
  rewrite Hc. cbn [Nat.eqb]. rewrite Dn. eexists. split; [reflexivity|].
  pose proof RP2 as (W2 & _).
  unfold sl_R. cbn [sp_l sp_next sp_levels].
  split; [apply sl_rep_set_cnt; rewrite map_app; exact RP2|].
  assert (Hm : forall m dm, In (m, dm) (A ++ B) -> m <> n /\ In (m, dm) (sp_l sp)).
  { intros m dm Hin. split.
    - intros ->. apply NI. rewrite <- map_app. eapply sl_ids_in; eauto.
    - rewrite E. apply in_app_or in Hin. apply in_or_app. destruct Hin; [left|right; right]; auto. }
  split; [|split; [|split; [|split; [|split; [|split]]]]].
  - intros m dm Hin. destruct (Hm m dm Hin) as [Hne Hin'].
    change (sl_DATA (sl_set_cnt (sl_free_node s1 n) (S (length (A ++ B)) - 1)) m)
      with (sl_DATA (sl_free_node s1 n) m).
    destruct (OTH2 m Hne) as [-> _]. rewrite SMD. auto.
  - rewrite E, map_app in SO. cbn [map snd] in SO. rewrite map_app. eapply sl_sorted_remove; eauto.
  - cbn [sl_cnt sl_set_cnt]. lia.
  - intros m Hlive.
    change (sl_is_live (sl_set_cnt (sl_free_node s1 n) (S (length (A ++ B)) - 1)) m)
      with (sl_is_live (sl_free_node s1 n) m) in Hlive.
    apply (sl_is_live_LEV _ _ W2) in Hlive.
    assert (m <> n) as Hne by (intros ->; lia).
    destruct (OTH2 m Hne) as [_ EL]. rewrite EL, SML in Hlive.
    assert (In m (map fst (sp_l sp))) as Hi by (apply LI; apply (sl_is_live_LEV s m W); exact Hlive).
    rewrite E, map_app in Hi. cbn [map fst] in Hi. rewrite map_app.
    apply in_app_or in Hi. apply in_or_app. destruct Hi as [Hi|[Hi|Hi]]; auto. congruence.
  - cbn [sl_heap sl_set_cnt]. rewrite HL2, SMh. exact NX.
  - cbn [sl_levels sl_set_cnt]. rewrite LS2, SMl. exact LVS.
  - cbn [sl_levels sl_set_cnt]. rewrite LS2, SMl. exact H0.
Qed.

(* ---- key change + ares_slist_node_reinsert ---- *)
Lemma sl_reinsert_ok s sp n d' A d B :
  sl_R s sp -> sp_l sp = A ++ (n, d) :: B ->
  exists s', (do s1 <- sl_set_data s n d'; sl_node_reinsert cmp s1 n) = Ok s' /\
             sl_R s' (mkSlSpec (sp_next sp) (sl_spec_ins cmp (n, d') (A ++ B)) (sp_levels sp)).
Proof.
  intros R E. pose proof R as (RP & DAT & SO & CNT & LI & NX & LVS & H0).
  pose proof RP as (W & ND & LV & _).
  rewrite E, map_app in ND, LV. cbn [map fst] in ND, LV.
  pose proof (sl_nodup_split_notin _ _ _ ND) as [NA NB].
  assert (LVn : 0 < sl_LEV s n) by (apply LV, in_or_app; right; left; auto).
  destruct (sl_set_data_ok s n d' _ RP LVn) as (s1 & E1 & RP1 & D1 & OD1 & L1 & HL1 & C1 & LS1).
  rewrite E1. cbn [bind]. unfold sl_node_reinsert.
  rewrite E, map_app in RP1. cbn [map fst] in RP1.
  destruct (sl_node_pop_ok s1 n (map fst A) (map fst B) RP1) as (s2 & E2 & RP2 & SM2).
  rewrite E2. cbn [bind].
  pose proof SM2 as (SMD & SML & SMl & SMc & SMh).
  assert (SO' : sl_sorted cmp (map snd (A ++ B))).
  { rewrite E, map_app in SO. cbn [map snd] in SO. rewrite map_app. eapply sl_sorted_remove; eauto. }
  destruct (sl_spec_ins_split cmp cmp_trans (n, d') (A ++ B) SO') as (P0 & S0 & El & Ei & HP & HS).
  assert (NI : ~ In n (map fst (A ++ B))) by (rewrite map_app; intros H; apply in_app_or in H; tauto).
  assert (Hm : forall m dm, In (m, dm) (A ++ B) -> m <> n /\ In (m, dm) (sp_l sp)).
  { intros m dm Hin. split.
    - intros ->. apply NI. eapply sl_ids_in; eauto.
    - rewrite E. apply in_app_or in Hin. apply in_or_app. destruct Hin; [left|right; right]; auto. }
  assert (Dm : forall m dm, In (m, dm) (A ++ B) -> sl_DATA s2 m = Some dm).
  { intros m dm Hin. destruct (Hm m dm Hin) as [Hne Hin']. rewrite SMD, OD1; auto. }
  rewrite <- map_app, El, map_app in RP2.
  destruct (sl_node_push_ok cmp s2 n d' (map fst P0) (map fst S0) RP2) as (s3 & E3 & RP3 & SM3).
  { rewrite <- map_app, <- El. exact NI. }
  { rewrite SML, L1. exact LVn. }
  { rewrite SMD. exact D1. }
  { intros y Hy. apply sl_in_ids in Hy. destruct Hy as (dy & Hy). exists dy. split.
    - apply Dm. rewrite El. apply in_or_app. auto.
    - apply (HP (y, dy) Hy). }
  { intros y Hy. apply sl_in_ids in Hy. destruct Hy as (dy & Hy). exists dy. split.
    - apply Dm. rewrite El. apply in_or_app. auto.
    - apply (HS (y, dy) Hy). }
  { rewrite <- map_app, <- El, map_length, SMc, C1, CNT, E, !app_length. simpl. lia. }
  exists s3. split; [exact E3|].
  pose proof SM3 as (SMD3 & SML3 & SMl3 & SMc3 & SMh3).
  pose proof RP3 as (W3 & _).
  unfold sl_R. cbn [sp_l sp_next sp_levels]. rewrite Ei.
  split; [rewrite map_app; exact RP3|].
  split; [|split; [|split; [|split; [|split; [|split]]]]].
  - intros m dm Hin. rewrite SMD3. apply in_app_or in Hin. destruct Hin as [Hin|[Hin|Hin]].
    + apply Dm. rewrite El. apply in_or_app. auto.
    + injection Hin as <- <-. rewrite SMD. exact D1.
    + apply Dm. rewrite El. apply in_or_app. auto.
  - rewrite <- Ei. apply sl_spec_ins_sorted; auto.
  - rewrite SMc3, SMc, C1, CNT, <- Ei, sl_spec_ins_length, E, !app_length. simpl. lia.
  - intros m Hlive. apply (sl_is_live_LEV _ _ W3) in Hlive. rewrite SML3, SML, L1 in Hlive.
    assert (In m (map fst (sp_l sp))) as Hi by (apply LI; apply (sl_is_live_LEV s m W); exact Hlive).
    rewrite E, map_app in Hi. cbn [map fst] in Hi.
    rewrite map_app. cbn [map fst].
    assert (In m (map fst (A ++ B)) -> In m (map fst P0 ++ n :: map fst S0)) as Hsub.
    { rewrite El, map_app. intros H. apply in_app_or in H. apply in_or_app.
      destruct H; [left|right; right]; auto. }
    apply in_app_or in Hi. destruct Hi as [Hi|[Hi|Hi]].
    + apply Hsub. rewrite map_app. apply in_or_app. auto.
    + subst m. apply in_or_app. right. left. auto.
    + apply Hsub. rewrite map_app. apply in_or_app. auto.
  - rewrite SMh3, SMh, HL1. exact NX.
  - rewrite SMl3, SMl, LS1. exact LVS.
  - rewrite SMl3, SMl, LS1. exact H0.
Qed.


(* ---- every operation refines its specification ---- *)
Theorem sl_step_refines s sp o :
  sl_R s sp ->
  exists s' sp' r, sl_step_model cmp s o = Ok (s', r) /\ sl_step_spec cmp sp o = (sp', r) /\ sl_R s' sp'.
Proof.
  intros R. pose proof R as (RP & DAT & SO & CNT & LI & NX & LVS & H0).
  destruct o as [d heads a1 a2 a3 a4|v| | |n|n|n| | | |n|n|n d| | ].
  - destruct (sl_insert_ok s sp d heads a1 a2 a3 a4 R) as (s' & sp' & r & E1 & E2 & R').
    exists s', sp', (SlRNode r). cbn [sl_step_model]. rewrite E1. cbn [bind fst snd]. auto.
  - cbn [sl_step_model sl_step_spec]. rewrite (sl_find_ok s sp v R). cbn [bind].
    do 3 eexists. split; [reflexivity|]. split; [reflexivity|exact R].
  - cbn [sl_step_model sl_step_spec]. rewrite (sl_first_ok s sp R). cbn [bind].
    rewrite <- sl_hd_map_fst. do 3 eexists. split; [reflexivity|]. split; [reflexivity|exact R].
  - cbn [sl_step_model sl_step_spec]. rewrite (sl_last_ok s sp R). cbn [bind].
    rewrite <- map_rev, <- sl_hd_map_fst. do 3 eexists. split; [reflexivity|]. split; [reflexivity|exact R].
  - cbn [sl_step_model sl_step_spec]. rewrite (sl_R_spec_in s sp n R).
    destruct (sl_is_live s n) eqn:EL.
    + destruct (sl_R_split s sp n R EL) as (A & d & B & E & NA & NB & Dn).
      rewrite (sl_next_ok s sp A n d B R E). cbn [bind]. rewrite E, sl_after_hit by auto.
      rewrite <- sl_hd_map_fst. do 3 eexists. split; [reflexivity|]. split; [reflexivity|exact R].
    + do 3 eexists. split; [reflexivity|]. split; [reflexivity|exact R].
  - cbn [sl_step_model sl_step_spec]. rewrite (sl_R_spec_in s sp n R).
    destruct (sl_is_live s n) eqn:EL.
    + destruct (sl_R_split s sp n R EL) as (A & d & B & E & NA & NB & Dn).
      rewrite (sl_prev_ok s sp A n d B R E). cbn [bind]. rewrite E, sl_before_hit by auto.
      rewrite <- map_rev, <- sl_hd_map_fst. do 3 eexists. split; [reflexivity|]. split; [reflexivity|exact R].
    + do 3 eexists. split; [reflexivity|]. split; [reflexivity|exact R].
  - cbn [sl_step_model sl_step_spec].
    destruct (sl_is_live s n) eqn:EL.
    + destruct (sl_R_split s sp n R EL) as (A & d & B & E & NA & NB & Dn).
      unfold sl_node_val. rewrite (sl_node_data_ok _ _ _ Dn). cbn [bind].
      rewrite E, sl_lookup_hit by auto. cbn [snd].
      do 3 eexists. split; [reflexivity|]. split; [reflexivity|exact R].
    + rewrite sl_lookup_miss.
      * do 3 eexists. split; [reflexivity|]. split; [reflexivity|exact R].
      * intros Hin. apply (sl_R_live_in s sp n R) in Hin. congruence.
  - cbn [sl_step_model sl_step_spec]. unfold sl_first_val. rewrite (sl_first_ok s sp R). cbn [bind].
    rewrite <- sl_hd_map_fst. rewrite (sl_opt_val_ok s sp (hd_error (sp_l sp)) R).
    + cbn [bind]. do 3 eexists. split; [reflexivity|]. split; [reflexivity|exact R].
    + intros e He. destruct (sp_l sp); [discriminate|]. injection He as ->. left; auto.
  - cbn [sl_step_model sl_step_spec]. unfold sl_last_val. rewrite (sl_last_ok s sp R). cbn [bind].
    rewrite <- map_rev, <- sl_hd_map_fst. rewrite (sl_opt_val_ok s sp (hd_error (rev (sp_l sp))) R).
    + cbn [bind]. do 3 eexists. split; [reflexivity|]. split; [reflexivity|exact R].
    + intros e He. apply in_rev. destruct (rev (sp_l sp)); [discriminate|]. injection He as ->. left; auto.
  - cbn [sl_step_model sl_step_spec]. unfold sl_len. rewrite CNT.
    do 3 eexists. split; [reflexivity|]. split; [reflexivity|exact R].
  - cbn [sl_step_model sl_step_spec].
    destruct (sl_is_live s n) eqn:EL.
    + destruct (sl_R_split s sp n R EL) as (A & d & B & E & NA & NB & Dn).
      destruct (sl_claim_ok s sp n A d B R E) as (s' & E1 & R').
      rewrite E1. cbn [bind fst snd]. rewrite E, sl_lookup_hit, sl_remove_hit by auto. cbn [snd].
      do 3 eexists. split; [reflexivity|]. split; [reflexivity|exact R'].
    + rewrite sl_lookup_miss.
      * do 3 eexists. split; [reflexivity|]. split; [reflexivity|exact R].
      * intros Hin. apply (sl_R_live_in s sp n R) in Hin. congruence.
  - cbn [sl_step_model sl_step_spec].
    destruct (sl_is_live s n) eqn:EL.
    + destruct (sl_R_split s sp n R EL) as (A & d & B & E & NA & NB & Dn).
      destruct (sl_claim_ok s sp n A d B R E) as (s' & E1 & R').
      rewrite E1. cbn [bind fst snd]. rewrite E, sl_lookup_hit, sl_remove_hit by auto. cbn [snd].
      do 3 eexists. split; [reflexivity|]. split; [reflexivity|exact R'].
    + rewrite sl_lookup_miss.
      * do 3 eexists. split; [reflexivity|]. split; [reflexivity|exact R].
      * intros Hin. apply (sl_R_live_in s sp n R) in Hin. congruence.
  - cbn [sl_step_model sl_step_spec]. rewrite (sl_R_spec_in s sp n R).
    destruct (sl_is_live s n) eqn:EL.
    + destruct (sl_R_split s sp n R EL) as (A & d0 & B & E & NA & NB & Dn).
      destruct (sl_reinsert_ok s sp n d A d0 B R E) as (s' & E1 & R').
      destruct (sl_set_data s n d) as [s1| |] eqn:ES; cbn [bind] in E1 |- *; try discriminate.
      rewrite E1. cbn [bind]. rewrite E, sl_remove_hit by auto.
      do 3 eexists. split; [reflexivity|]. split; [reflexivity|exact R'].
    + do 3 eexists. split; [reflexivity|]. split; [reflexivity|exact R].
  - cbn [sl_step_model sl_step_spec]. rewrite (sl_first_ok s sp R). cbn [bind].
    destruct (sp_l sp) as [|[n d] l] eqn:E; cbn [map hd_error fst].
    + do 3 eexists. split; [reflexivity|]. split; [reflexivity|exact R].
    + destruct (sl_claim_ok s sp n [] d l R E) as (s' & E1 & R').
      rewrite E1. cbn [bind fst snd].
      do 3 eexists. split; [reflexivity|]. split; [reflexivity|exact R'].
  - cbn [sl_step_model sl_step_spec].
    rewrite (sl_walk_fwd_all s sp R), (sl_walk_bwd_all s sp R). cbn [bind]. unfold sl_len. rewrite CNT.
    do 3 eexists. split; [reflexivity|]. split; [reflexivity|exact R].
Qed.

Theorem sl_run_refines : forall ops s sp,
  sl_R s sp ->
  exists s', sl_run_model cmp s ops = Ok (fst (sl_run_spec cmp sp ops), s') /\
             sl_R s' (snd (sl_run_spec cmp sp ops)).
Proof.
  induction ops as [|o ops IH]; intros s sp R.
  - exists s. split; auto.
  - cbn [sl_run_model sl_run_spec].
    destruct (sl_step_refines s sp o R) as (s1 & sp1 & r & E1 & E2 & R1).
    rewrite E1, E2. cbn [bind fst snd].
    destruct (IH s1 sp1 R1) as (s' & E & R').
    rewrite E. cbn [bind fst snd]. exists s'. auto.
Qed.

(* ---- create and destroy ---- *)
Lemma sl_start_levels_pos : 0 < sl_start_levels.
Proof. unfold sl_start_levels, ARES__SLIST_START_LEVELS. simpl. lia. Qed.

Lemma sl_create_R : exists s0, sl_create true true = Some s0 /\ sl_R s0 sl_spec_create.
Proof.
  eexists. split; [reflexivity|].
  set (s0 := mkSl _ _ _ _ _).
  assert (NA : forall n, sl_node_at s0 n = None).
  { intros n. unfold sl_node_at, s0. cbn [sl_heap]. destruct n; reflexivity. }
  unfold sl_R, sl_spec_create. cbn [sp_l sp_next sp_levels map].
  split; [|split; [|split; [|split; [|split; [|split; [|split]]]]]]; auto.
  - split; [|split; [|split; [|split]]].
    + split.
      * intros n nd. rewrite NA. discriminate.
      * unfold s0. cbn [sl_head sl_levels]. apply repeat_length.
    + constructor.
    + intros n [].
    + intros k Hk. cbn [sl_chain filter]. split; simpl; auto.
      unfold sl_HD, s0. cbn [sl_head].
      destruct (nth_error (repeat None sl_start_levels) k) eqn:E; auto.
      apply nth_error_In, repeat_spec in E. subst. reflexivity.
    + reflexivity.
  - intros n d [].
  - simpl. auto.
  - intros n. unfold sl_is_live. rewrite NA. discriminate.
  - apply sl_start_levels_pos.
Qed.

Lemma sl_destroy_loop_ok : forall l s sp acc fuel,
  sl_R s sp -> sp_l sp = l -> length l < fuel ->
  sl_destroy_loop fuel s acc = Ok (rev acc ++ map snd l).
Proof.
  induction l as [|[n d] l IH]; intros s sp acc fuel R E Hf;
    (destruct fuel as [|f]; [simpl in Hf; lia|]); cbn [sl_destroy_loop];
    rewrite (sl_first_ok s sp R), E; cbn [bind map hd_error fst].
  - rewrite app_nil_r. reflexivity.
  - destruct (sl_claim_ok s sp n [] d l R E) as (s' & E1 & R').
    rewrite E1. cbn [bind fst snd app].
    rewrite (IH s' _ (d :: acc) f R' eq_refl).
    + simpl. rewrite <- app_assoc. reflexivity.
    + simpl in Hf. lia.
Qed.

Lemma sl_destroy_ok s sp : sl_R s sp -> sl_destroy s = Ok (map snd (sp_l sp)).
Proof.
  intros R. unfold sl_destroy.
  rewrite (sl_destroy_loop_ok (sp_l sp) s sp [] (S (sl_cnt s)) R eq_refl); auto.
  destruct R as (_ & _ & _ & -> & _). lia.
Qed.

(* ---- the lifted statement: a whole life of the container ---- *)
Theorem sl_life_refines ops : sl_life_model cmp ops = Ok (sl_life_spec cmp ops).
Proof.
  unfold sl_life_model, sl_life_spec.
  destruct sl_create_R as (s0 & -> & R0).
  destruct (sl_run_refines ops s0 sl_spec_create R0) as (s' & E & R').
  rewrite E. cbn [bind fst snd]. rewrite (sl_destroy_ok s' _ R'). reflexivity.
Qed.

(* the state reached by any operation sequence is related to the specification's *)
Theorem sl_reach ops :
  exists s0 s, sl_create true true = Some s0 /\
    sl_run_model cmp s0 ops = Ok (fst (sl_run_spec cmp sl_spec_create ops), s) /\
    sl_R s (snd (sl_run_spec cmp sl_spec_create ops)).
Proof.
  destruct sl_create_R as (s0 & E0 & R0).
  destruct (sl_run_refines ops s0 sl_spec_create R0) as (s' & E & R').
  exists s0, s'. auto.
Qed.


(* ---- consequences, stated over arbitrary operation sequences ---- *)

(* level-0 traversals = the specification list, sorted, without duplicates, len *)
Theorem sl_sorted_stable ops :
  exists s0 rs s, sl_create true true = Some s0 /\ sl_run_model cmp s0 ops = Ok (rs, s) /\
    let l := sp_l (snd (sl_run_spec cmp sl_spec_create ops)) in
    sl_walk_fwd s = Ok l /\ sl_walk_bwd s = Ok (rev l) /\ sl_len s = length l /\
    sl_sorted cmp (map snd l) /\ NoDup (map fst l).
Proof.
  destruct (sl_reach ops) as (s0 & s & E0 & E & R).
  exists s0, (fst (sl_run_spec cmp sl_spec_create ops)), s. split; [exact E0|]. split; [exact E|]. cbv zeta.
  split; [apply sl_walk_fwd_all; auto|]. split; [apply sl_walk_bwd_all; auto|].
  destruct R as ((_ & ND & _) & _ & SO & CNT & _). auto.
Qed.

(* find returns the FIRST element equal to the probe, NULL when there is none *)
Theorem sl_find_first ops v :
  exists s0 rs s l, sl_create true true = Some s0 /\ sl_run_model cmp s0 ops = Ok (rs, s) /\
    sl_walk_fwd s = Ok l /\
    exists r, sl_node_find cmp s v = Ok r /\
      match r with
      | None => forall e, In e l -> cmp v (snd e) <> 0%Z
      | Some f => exists A d B, l = A ++ (f, d) :: B /\ cmp v d = 0%Z /\
                                forall e, In e A -> cmp v (snd e) <> 0%Z
      end.
Proof.
  destruct (sl_reach ops) as (s0 & s & E0 & E & R).
  set (sp := snd (sl_run_spec cmp sl_spec_create ops)) in *.
  exists s0, (fst (sl_run_spec cmp sl_spec_create ops)), s, (sp_l sp). split; [exact E0|]. split; [exact E|].
  split; [apply sl_walk_fwd_all; auto|].
  rewrite (sl_find_ok s sp v R). eexists. split; [reflexivity|].
  unfold sl_spec_find. destruct (find _ (sp_l sp)) as [[f d]|] eqn:EF; cbn [option_map fst].
  - pose proof (find_some _ _ EF) as [Hin Hc]. cbn [snd] in Hc. apply Z.eqb_eq in Hc.
    clear Hin. revert EF. generalize (sp_l sp) as l. intros l.
    induction l as [|e l IH]; simpl; [discriminate|].
    destruct (Z.eqb_spec (cmp v (snd e)) 0) as [He|He].
    + intros [= ->]. exists [], d, l. repeat split; auto; intros e' [].
    + intros EF. destruct (IH EF) as (A & d' & B & -> & Hd & HA).
      exists (e :: A), d', B. repeat split; auto. intros e' [<-|He']; auto.
  - intros e He. pose proof (find_none _ _ EF e He) as Hc. cbn in Hc. apply Z.eqb_neq in Hc. exact Hc.
Qed.

(* first = minimum *)
Theorem sl_first_minimum ops :
  exists s0 rs s l, sl_create true true = Some s0 /\ sl_run_model cmp s0 ops = Ok (rs, s) /\
    sl_walk_fwd s = Ok l /\
    sl_first_val s = Ok (option_map snd (hd_error l)) /\
    forall d, option_map snd (hd_error l) = Some d -> forall e, In e l -> (cmp d (snd e) <= 0)%Z.
Proof.
  destruct (sl_reach ops) as (s0 & s & E0 & E & R).
  set (sp := snd (sl_run_spec cmp sl_spec_create ops)) in *.
  exists s0, (fst (sl_run_spec cmp sl_spec_create ops)), s, (sp_l sp). split; [exact E0|]. split; [exact E|].
  split; [apply sl_walk_fwd_all; auto|]. split.
  - destruct (sl_step_refines s sp SlFirstVal R) as (s' & sp' & r & E1 & E2 & _).
    cbn [sl_step_model sl_step_spec] in E1, E2. injection E2 as _ <-.
    destruct (sl_first_val s); cbn [bind] in E1; try discriminate. injection E1 as _ ->. reflexivity.
  - destruct R as (_ & _ & SO & _). destruct (sp_l sp) as [|[n0 d0] l]; simpl; [discriminate|].
    intros d [= <-] e [<-|He].
    + cbn [snd]. rewrite (sl_cmp_refl cmp cmp_anti). lia.
    + simpl in SO. apply SO. apply in_map. exact He.
Qed.

End SLR.

(* ------------------------------------------------------------------------------------ *)
(* statements that do not need the comparator hypotheses *)

(* the specification's insertion adds exactly one element ... *)
Lemma sl_spec_ins_perm {D} (cmp : D -> D -> Z) x l : Permutation (sl_spec_ins cmp x l) (x :: l).
Proof.
  induction l as [|y t IH]; simpl; auto.
  destruct (cmp (snd x) (snd y) >? 0)%Z; auto.
  eapply perm_trans; [apply perm_skip, IH|apply perm_swap].
Qed.

(* ... and removal by node takes out exactly that node *)
Lemma sl_spec_remove_perm {D} (l : list (nat * D)) n d :
  NoDup (map fst l) -> In (n, d) l -> Permutation l ((n, d) :: sl_spec_remove n l).
Proof.
  intros ND Hin. apply in_split in Hin. destruct Hin as (A & B & ->).
  rewrite map_app in ND. simpl in ND. apply sl_nodup_split_notin in ND.
  rewrite sl_remove_hit by tauto. symmetry. apply Permutation_middle.
Qed.

(* C14: an allocation failure inside ares_slist_insert leaves the list untouched and reports NULL *)
Lemma sl_insert_alloc_fail_atomic {D} (cmp : D -> D -> Z) heads a_node a_next a_prev a_head (s : slist D) d :
  a_node = false \/ a_next = false \/ a_prev = false \/
  (a_head = false /\
   sl_levels s < sl_calc_level (sl_max_level (sl_cnt s) (sl_levels s)) 1 heads) ->
  sl_insert cmp heads a_node a_next a_prev a_head s d = Ok (s, None).
Proof.
  intros H. unfold sl_insert.
  destruct a_node; cbn [negb]; auto. destruct a_next; cbn [negb]; auto.
  destruct a_prev; cbn [negb]; auto.
  destruct H as [H|[H|[H|[-> H]]]]; try discriminate.
  apply Nat.ltb_lt in H. rewrite H. reflexivity.
Qed.

(* ... and it fails only then: with the invariant, insert succeeds whenever the allocator does *)
Lemma sl_insert_total {D} (cmp : D -> D -> Z)
  (cmp_anti : forall a b, (cmp a b > 0 <-> cmp b a < 0)%Z)
  (cmp_trans : forall a b c, (cmp a b <= 0 -> cmp b c <= 0 -> cmp a c <= 0)%Z)
  heads (s : slist D) sp d :
  sl_R cmp s sp -> exists s', sl_insert cmp heads true true true true s d = Ok (s', Some (length (sl_heap s))).
Proof.
  intros R. destruct (sl_insert_ok cmp cmp_anti cmp_trans s sp d heads true true true true R)
    as (s' & sp' & r & E1 & E2 & _).
  cbn [sl_step_spec andb negb orb] in E2. rewrite Bool.orb_true_r in E2. injection E2 as _ <-.
  destruct R as (_ & _ & _ & _ & _ & <- & _). eauto.
Qed.

(* use after free is an explicit UB of the model, not a totalised value *)
Lemma sl_dead_node_is_ub {D} (s : slist D) n :
  sl_is_live s n = false ->
  sl_node_claim s n = UB UseAfterFree /\ sl_node_next s n = UB UseAfterFree /\
  sl_node_prev s n = UB UseAfterFree /\ sl_node_val s n = UB UseAfterFree /\
  sl_node_pop s n = UB UseAfterFree.
Proof.
  unfold sl_is_live, sl_node_claim, sl_node_next, sl_node_prev, sl_node_val, sl_node_pop,
    sl_get_next, sl_get_prev, sl_node_data, sl_load.
  destruct (sl_node_at s n); [discriminate|]. intros _. repeat split; reflexivity.
Qed.

(* ---- results do not depend on the level choices ---- *)
Definition sl_op_erase {D} (o : sl_op D) : sl_op D :=
  match o with SlInsert d _ a1 a2 a3 a4 => SlInsert d 0 a1 a2 a3 a4 | _ => o end.
Definition sl_op_head_ok {D} (o : sl_op D) : Prop :=
  match o with SlInsert _ _ _ _ _ a4 => a4 = true | _ => True end.

Lemma sl_step_spec_levels_irrelevant {D} (cmp : D -> D -> Z) (sp sp' : sl_spec D) o o' :
  sp_next sp = sp_next sp' -> sp_l sp = sp_l sp' ->
  sl_op_erase o = sl_op_erase o' -> sl_op_head_ok o -> sl_op_head_ok o' ->
  snd (sl_step_spec cmp sp o) = snd (sl_step_spec cmp sp' o') /\
  sp_next (fst (sl_step_spec cmp sp o)) = sp_next (fst (sl_step_spec cmp sp' o')) /\
  sp_l (fst (sl_step_spec cmp sp o)) = sp_l (fst (sl_step_spec cmp sp' o')).
Proof.
  intros EN EL EO HO HO'.
  destruct o, o'; cbn [sl_op_erase] in EO; try discriminate; try (injection EO as EO);
    cbn [sl_op_head_ok] in HO, HO'; subst;
    cbn [sl_step_spec]; unfold sl_spec_in; rewrite <- ?EL, <- ?EN.
  - rewrite !Bool.orb_true_r, !Bool.andb_true_r.
    destruct (a_node0 && a_next0 && a_prev0); cbn [fst snd sp_next sp_l]; rewrite <- ?EN, <- ?EL; auto.
  - auto.
  - auto.
  - auto.
  - destruct (sl_spec_lookup n0 (sp_l sp)); cbn [fst snd]; auto.
  - destruct (sl_spec_lookup n0 (sp_l sp)); cbn [fst snd]; auto.
  - destruct (sl_spec_lookup n0 (sp_l sp)); cbn [fst snd]; auto.
  - auto.
  - auto.
  - auto.
  - destruct (sl_spec_lookup n0 (sp_l sp)); cbn [fst snd sp_next sp_l]; auto.
  - destruct (sl_spec_lookup n0 (sp_l sp)); cbn [fst snd sp_next sp_l]; auto.
  - destruct (sl_spec_lookup n0 (sp_l sp)); cbn [fst snd sp_next sp_l]; auto.
  - destruct (sp_l sp) eqn:E0; cbn [fst snd sp_next sp_l]; repeat split; congruence.
  - auto.
Qed.

Lemma sl_run_spec_levels_irrelevant {D} (cmp : D -> D -> Z) : forall ops ops' (sp sp' : sl_spec D),
  sp_next sp = sp_next sp' -> sp_l sp = sp_l sp' ->
  map sl_op_erase ops = map sl_op_erase ops' -> Forall sl_op_head_ok ops -> Forall sl_op_head_ok ops' ->
  fst (sl_run_spec cmp sp ops) = fst (sl_run_spec cmp sp' ops') /\
  sp_l (snd (sl_run_spec cmp sp ops)) = sp_l (snd (sl_run_spec cmp sp' ops')).
Proof.
  induction ops as [|o ops IH]; intros [|o' ops'] sp sp' EN EL EO HO HO'; try discriminate.
  - simpl. auto.
  - cbn [map] in EO. injection EO as EO1 EO2.
    apply Forall_cons_iff in HO. apply Forall_cons_iff in HO'. destruct HO as [HO1 HO2], HO' as [HO1' HO2'].
    destruct (sl_step_spec_levels_irrelevant cmp sp sp' o o' EN EL EO1 HO1 HO1') as (E1 & E2 & E3).
    cbn [sl_run_spec fst snd].
    destruct (IH ops' _ _ E2 E3 EO2 HO2 HO2') as (E4 & E5).
    rewrite E1, E4, E5. auto.
Qed.

Theorem sl_level_choice_irrelevant {D} (cmp : D -> D -> Z)
  (cmp_anti : forall a b, (cmp a b > 0 <-> cmp b a < 0)%Z)
  (cmp_trans : forall a b c, (cmp a b <= 0 -> cmp b c <= 0 -> cmp a c <= 0)%Z)
  (ops ops' : list (sl_op D)) :
  map sl_op_erase ops = map sl_op_erase ops' -> Forall sl_op_head_ok ops -> Forall sl_op_head_ok ops' ->
  sl_life_model cmp ops = sl_life_model cmp ops'.
Proof.
  intros EO HO HO'. rewrite !(sl_life_refines cmp cmp_anti cmp_trans). unfold sl_life_spec.
  destruct (sl_run_spec_levels_irrelevant cmp ops ops' sl_spec_create sl_spec_create eq_refl eq_refl EO HO HO')
    as (E1 & E2).
  rewrite E1, E2. reflexivity.
Qed.

(* ---- the hypotheses are satisfiable: the instance the drivers run ---- *)
Lemma sl_zcmp_anti : forall a b, (sl_zcmp a b > 0 <-> sl_zcmp b a < 0)%Z.
Proof.
  intros [a1 a2] [b1 b2]. unfold sl_zcmp. cbn [fst].
  rewrite (Z.compare_antisym a1 b1). destruct (Z.compare a1 b1); cbn; lia.
Qed.

Lemma sl_zcmp_trans : forall a b c, (sl_zcmp a b <= 0 -> sl_zcmp b c <= 0 -> sl_zcmp a c <= 0)%Z.
Proof.
  intros [a1 a2] [b1 b2] [c1 c2]. unfold sl_zcmp. cbn [fst].
  destruct (Z.compare_spec a1 b1), (Z.compare_spec b1 c1), (Z.compare_spec a1 c1); lia.
Qed.

Example sl_life_example :
  let k (a b : nat) : Z * Z := (Z.of_nat a, Z.of_nat b) in
  sl_life_model sl_zcmp
    [SlInsert (k 5 1) 0 true true true true; SlInsert (k 5 2) 7 true true true true;
     SlInsert (k 3 3) 2 true true true true; SlInsert (k 9 4) 1 true false true true;
     SlFind (k 5 0); SlReinsert 0 (k 1 1); SlFirst; SlClaim 2; SlNext 2; SlDump]
  = Ok ([SlRNode (Some 0); SlRNode (Some 1); SlRNode (Some 2); SlRNode None;
         SlRNode (Some 1); SlRDone; SlRNode (Some 0); SlRVal (Some (k 3 3)); SlRDead;
         SlRDump [(0, k 1 1); (1, k 5 2)] [(1, k 5 2); (0, k 1 1)] 2],
        [k 1 1; k 5 2]).
Proof. vm_compute. reflexivity. Qed.

(* never UB and never out of fuel, for any operation sequence on live nodes *)
Lemma sl_life_never_ub {D} (cmp : D -> D -> Z)
  (cmp_anti : forall a b, (cmp a b > 0 <-> cmp b a < 0)%Z)
  (cmp_trans : forall a b c, (cmp a b <= 0 -> cmp b c <= 0 -> cmp a c <= 0)%Z)
  (ops : list (sl_op D)) :
  is_ub (sl_life_model cmp ops) = false /\ sl_life_model cmp ops <> Err OutOfFuel.
Proof. rewrite (sl_life_refines cmp cmp_anti cmp_trans). split; [reflexivity|discriminate]. Qed.
