(* ares_buf_append_num_dec / _hex and ares_buf_parse_dns_binstr / _str: corollaries of the
   refinement theorems of Buf_proofs.v, and the defects of the unpatched code (witnesses). *)
From CAres.Dsa Require Import Buf Buf_proofs Buf_split_props.
From CAres.Gen Require Import Consts LeafFns.
Local Open Scope Z_scope.
Local Open Scope bool_scope.

(* ---- what is appended: the plain specification on examples ---- *)
Example bufs_num_bytes_examples :
  bufs_num_bytes 10 bufs_dec_char 0 0 = [48] /\                                      (* "0" *)
  bufs_num_bytes 10 bufs_dec_char 12345 0 = [49; 50; 51; 52; 53] /\                  (* natural width *)
  bufs_num_bytes 10 bufs_dec_char 12345 3 = [51; 52; 53] /\                          (* cut: the LOW digits stay *)
  bufs_num_bytes 10 bufs_dec_char 12345 8 = [48; 48; 48; 49; 50; 51; 52; 53] /\      (* zero padded *)
  bufs_num_bytes 10 bufs_dec_char 18446744073709551615 0 =
    [49; 56; 52; 52; 54; 55; 52; 52; 48; 55; 51; 55; 48; 57; 53; 53; 49; 54; 49; 53] /\
  bufs_num_bytes 16 bufs_hex_char 255 0 = [70; 70] /\
  bufs_num_bytes 16 bufs_hex_char 43981 6 = [48; 48; 65; 66; 67; 68] /\              (* "00ABCD" *)
  bufs_num_bytes 16 bufs_hex_char 255 17 = repeat 48 15 ++ [70; 70].
Proof. vm_compute. repeat split; reflexivity. Qed.

(* ---- ENOMEM is atomic for the patched functions (C14 container lemma) ---- *)
Theorem buf_append_num_dec_alloc_fail_atomic junk ok b num len st b' :
  buf_inv b -> 0 <= num < 2 ^ 64 -> 0 <= len < BUF_ALLOC_LIMIT ->
  buf_append_num_dec junk ok b num len = Ok (st, b') -> st = ARES_ENOMEM ->
  buf_inv b' /\ buf_remaining b' = buf_remaining b /\ bufs_tagged (buf_abs b') = bufs_tagged (buf_abs b).
Proof.
  intros Hi Hn Hl He Hst. rewrite buf_append_num_dec_eq in He by assumption.
  eapply buf_append_alloc_fail_atomic; [exact Hi | | exact He | exact Hst].
  apply buf_num_bytes_lim; [lia | exact Hn | exact Hl].
Qed.

Theorem buf_append_num_hex_alloc_fail_atomic junk ok b num len st b' :
  buf_inv b -> 0 <= num < 2 ^ 64 -> 0 <= len < BUF_ALLOC_LIMIT ->
  buf_append_num_hex junk ok b num len = Ok (st, b') -> st = ARES_ENOMEM ->
  buf_inv b' /\ buf_remaining b' = buf_remaining b /\ bufs_tagged (buf_abs b') = bufs_tagged (buf_abs b).
Proof.
  intros Hi Hn Hl He Hst. rewrite buf_append_num_hex_eq in He by assumption.
  eapply buf_append_alloc_fail_atomic; [exact Hi | | exact He | exact Hst].
  apply buf_num_bytes_lim; [lia | exact Hn | exact Hl].
Qed.

(* when the allocator says yes the digits are appended: exactly the decimal / hexadecimal digits
   of num, zero-padded or cut (low digits kept) to len characters, len = 0: natural width *)
Theorem buf_append_num_dec_total junk b num len :
  buf_inv b -> buf_not_const b -> 0 <= num < 2 ^ 64 -> 0 <= len < 2 ^ 59 -> cb_dlen b < 2 ^ 59 ->
  exists b', buf_append_num_dec junk true b num len = Ok (ARES_SUCCESS, b') /\
             buf_remaining b' = buf_remaining b ++ bufs_num_bytes 10 bufs_dec_char num len.
Proof.
  intros Hi Hnc Hn Hl Hd. change (2 ^ 59) with 576460752303423488 in *.
  rewrite buf_append_num_dec_eq by (try assumption; buf_consts; lia).
  apply buf_append_total; [exact Hi | exact Hnc|].
  destruct (bufs_num_bytes_zlen 10 bufs_dec_char num len) as [Hz _]; [lia|]. rewrite Hz. unfold buf_num_len.
  assert (bufs_num_width 64 10 num <= 64).
  { apply bufs_num_width_le; [lia | lia | lia |]. assert (2 ^ 64 <= 10 ^ 64) by (apply Z.pow_le_mono_l; lia). lia. }
  change (2 ^ 60) with 1152921504606846976. destruct (len =? 0); lia.
Qed.

Theorem buf_append_num_hex_total junk b num len :
  buf_inv b -> buf_not_const b -> 0 <= num < 2 ^ 64 -> 0 <= len < 2 ^ 59 -> cb_dlen b < 2 ^ 59 ->
  exists b', buf_append_num_hex junk true b num len = Ok (ARES_SUCCESS, b') /\
             buf_remaining b' = buf_remaining b ++ bufs_num_bytes 16 bufs_hex_char num len.
Proof.
  intros Hi Hnc Hn Hl Hd. change (2 ^ 59) with 576460752303423488 in *.
  rewrite buf_append_num_hex_eq by (try assumption; buf_consts; lia).
  apply buf_append_total; [exact Hi | exact Hnc|].
  destruct (bufs_num_bytes_zlen 16 bufs_hex_char num len) as [Hz _]; [lia|]. rewrite Hz. unfold buf_num_len.
  assert (bufs_num_width 64 16 num <= 64).
  { apply bufs_num_width_le; [lia | lia | lia |]. assert (2 ^ 64 <= 16 ^ 64) by (apply Z.pow_le_mono_l; lia). lia. }
  change (2 ^ 60) with 1152921504606846976. destruct (len =? 0); lia.
Qed.

(* ---- the defects fixed by fixes/C19-buf-append-num-atomic.patch and -num-width.patch ---- *)
(* a buffer with exactly one byte of room *)
Definition buf_num_witness : cbuf :=
  match buf_append (fun _ => 0) true buf_empty (repeat 7 30) with Ok (_, b) => b | _ => buf_empty end.

Lemma buf_num_witness_inv : buf_inv buf_num_witness.
Proof.
  destruct (buf_append_refines (fun _ => 0) true buf_empty (repeat 7 30) buf_empty_inv) as (st0 & b0 & He & Hi0 & _).
  - vm_compute. reflexivity.
  - unfold buf_num_witness. rewrite He. exact Hi0.
Qed.

(* the unpatched ares_buf_append_num_dec: the first digit of "12" fits, the allocation for the
   second digit is refused: ARES_ENOMEM although '1' has been appended *)
Theorem buf_append_num_dec_unfixed_not_atomic :
  exists b b', buf_inv b /\
    buf_append_num_dec_unfixed (fun _ => 0) (fun k => Nat.eqb k 0) b 12 0 = Ok (ARES_ENOMEM, b') /\
    buf_remaining b' = buf_remaining b ++ [49] /\ buf_remaining b' <> buf_remaining b.
Proof.
  exists buf_num_witness. eexists. split; [exact buf_num_witness_inv|].
  split; [vm_compute; reflexivity|]. split; [vm_compute; reflexivity|]. vm_compute. discriminate.
Qed.

(* the patched function in the same situation: nothing is appended *)
Example buf_append_num_dec_fixed_atomic_example :
  exists b', buf_append_num_dec (fun _ => 0) false buf_num_witness 12 0 = Ok (ARES_ENOMEM, b') /\
             buf_remaining b' = buf_remaining buf_num_witness.
Proof. eexists. split; vm_compute; reflexivity. Qed.

(* the unpatched ares_buf_append_num_dec with a 20 digit number (ares_pow(10, 20) wraps around):
   ARES_EFORMERR, and 18 wrong digits "375235627633582242" are left in the buffer; the patched
   function appends "18446744073709551615" *)
Theorem buf_append_num_dec_unfixed_wrong_digits :
  exists b', buf_append_num_dec_unfixed (fun _ => 0) (fun _ => true) buf_empty 18446744073709551615 0
             = Ok (ARES_EFORMERR, b') /\
             buf_remaining b' = [51; 55; 53; 50; 51; 53; 54; 50; 55; 54; 51; 51; 53; 56; 50; 50; 52; 50].
Proof. eexists. split; vm_compute; reflexivity. Qed.

Example buf_append_num_dec_fixed_max :
  exists b', buf_append_num_dec (fun _ => 0) true buf_empty 18446744073709551615 0 = Ok (ARES_SUCCESS, b') /\
             buf_remaining b' = [49; 56; 52; 52; 54; 55; 52; 52; 48; 55; 51; 55; 48; 57; 53; 53; 49; 54; 49; 53].
Proof. eexists. split; vm_compute; reflexivity. Qed.

(* a padding length of 64 or more divides by zero (10^64 = 0 mod 2^64) *)
Theorem buf_append_num_dec_unfixed_divzero :
  buf_append_num_dec_unfixed (fun _ => 0) (fun _ => true) buf_empty 5 64 = UB DivZero.
Proof. vm_compute. reflexivity. Qed.

(* the unpatched ares_buf_append_num_hex with a padding length above 16 shifts a 64 bit value by
   64 bits or more: undefined behaviour *)
Theorem buf_append_num_hex_unfixed_ub :
  buf_append_num_hex_unfixed (fun _ => 0) (fun _ => true) buf_empty 255 17 = UB ShiftTooWide.
Proof. vm_compute. reflexivity. Qed.

(* ---- parse_dns_binstr: the hypotheses of buf_parse_dns_binstr_refines are satisfiable; a
   run on "\003abc\001\200": the string abc, then _str rejects the byte 0x80 (the length byte stays
   consumed), _binstr accepts it ---- *)
Example buf_parse_dns_binstr_example :
  let b := mkBuf [3; 97; 98; 99; 1; 128] 6 0 0 BUF_SIZE_MAX true false in
  buf_inv b /\ buf_bytes_ok (buf_remaining b) /\
  (exists b1, buf_parse_dns_binstr_int (fun _ => 0) true true b 6 true true = Ok (ARES_SUCCESS, b1, Some [97; 98; 99; 0]) /\
     cb_off b1 = 4 /\
     (exists b2, buf_parse_dns_binstr_int (fun _ => 0) true true b1 2 true true = Ok (ARES_EBADSTR, b2, None) /\ cb_off b2 = 5) /\
     (exists b2, buf_parse_dns_binstr_int (fun _ => 0) true true b1 2 true false = Ok (ARES_SUCCESS, b2, Some [128; 0]) /\ cb_off b2 = 6) /\
     (* remaining_len 1 cannot hold a one byte string *)
     (exists b2, buf_parse_dns_binstr_int (fun _ => 0) true true b1 1 true false = Ok (ARES_EBADRESP, b2, None) /\ cb_off b2 = 5)).
Proof.
  cbn zeta. split.
  { split; [cbn; lia|]. split; [left; reflexivity|]. right. left. unfold buf_shape_const. cbn.
    repeat split; try reflexivity; buf_consts; lia. }
  split; [change (buf_bytes_ok [3; 97; 98; 99; 1; 128]); unfold buf_bytes_ok; repeat constructor; lia|].
  eexists. split; [vm_compute; reflexivity|]. split; [reflexivity|].
  split; [|split]; eexists; split; vm_compute; reflexivity.
Qed.
