(* ares_buf_split with a section limit (max_sections > 0) and with ARES_BUF_SPLIT_KEEP_DELIMS:
   closed forms of the reference machine [bufs_split] (Dsa/Buf.v; ares_buf_split is proved equal
   to it for every buffer by buf_split_refines) against ordinary field splitting.

   What the code does (src/lib/str/ares_buf.c, ares_buf_split):
   * limit: the test `max_sections && ares_array_len(arr) >= max_sections - 1` is made at the
     START of every section with the number of pieces KEPT so far (dropped blank / duplicate
     sections do not count).  When it holds the whole unsplit rest of the input - delimiters
     included - is taken as one last section; it still goes through the trim / blank /
     duplicate filter (so it can be trimmed, and it can be dropped: fewer than max_sections
     pieces).  Without KEEP_DELIMS the rest starts AFTER the delimiter that ended the previous
     section, with KEEP_DELIMS it starts WITH that delimiter.
   * KEEP_DELIMS: every section but the first begins with the delimiter that preceded it.  The
     header comment of ares_buf.h ("blank sections are dropped unless ALLOW_BLANK") is
     inaccurate there: such a section is never blank (it holds at least the delimiter) unless
     LTRIM/RTRIM removes the delimiter itself (a whitespace delimiter); ALLOW_BLANK only decides
     about the FIRST section (empty when the input begins with a delimiter). *)
From CAres.Dsa Require Import Buf Buf_proofs Buf_split_props.
From CAres.Gen Require Import Consts LeafFns.
Local Open Scope Z_scope.
Local Open Scope bool_scope.

(* ---- fields together with the unsplit rest of the input that starts at the field ---- *)
(* "a,b,c" -> [(a, "a,b,c"); (b, "b,c"); (c, "c")] *)
Fixpoint buf_fields_suffix_go (isd : Z -> bool) (cur : list Z) (l : list Z) : list (list Z * list Z) :=
  match l with
  | [] => [(rev cur, rev cur)]
  | x :: r => if isd x then (rev cur, rev cur ++ x :: r) :: buf_fields_suffix_go isd [] r
              else buf_fields_suffix_go isd (x :: cur) r
  end.
Definition buf_fields_suffix (isd : Z -> bool) (l : list Z) : list (list Z * list Z) :=
  buf_fields_suffix_go isd [] l.

Lemma buf_fields_suffix_go_head isd cur l :
  exists f rest, buf_fields_suffix_go isd cur l = (f, rev cur ++ l) :: rest.
Proof.
  revert cur. induction l as [|x r IH]; intros cur; cbn [buf_fields_suffix_go].
  - rewrite app_nil_r. eauto.
  - destruct (isd x); [eauto|]. destruct (IH (x :: cur)) as (f & rest & E). rewrite E.
    cbn [rev]. rewrite <- app_assoc. eauto.
Qed.

(* the first components are the ordinary fields *)
Lemma buf_fields_suffix_go_fst isd cur l :
  map fst (buf_fields_suffix_go isd cur l) = buf_fields_go isd cur l.
Proof.
  revert cur. induction l as [|x r IH]; intros cur; cbn [buf_fields_suffix_go buf_fields_go map fst]; [reflexivity|].
  destruct (isd x); cbn [map fst]; rewrite IH; reflexivity.
Qed.

Theorem buf_fields_suffix_fst isd l : map fst (buf_fields_suffix isd l) = buf_fields isd l.
Proof. apply buf_fields_suffix_go_fst. Qed.

(* the second components are the rests: the i-th one is what is left of the input when the
   first i fields and their delimiters are taken away = fields i, i+1, ... re-joined with the
   delimiters that separated them *)
Theorem buf_fields_suffix_go_rest isd l : forall cur,
  exists ds, Forall (fun d => isd d = true) ds /\
    length (buf_fields_suffix_go isd cur l) = S (length ds) /\
    forall i, (i < length (buf_fields_suffix_go isd cur l))%nat ->
      snd (nth i (buf_fields_suffix_go isd cur l) ([], [])) =
      buf_interleave (skipn i (buf_fields_go isd cur l)) (skipn i ds).
Proof.
  induction l as [|x r IH]; intros cur; cbn [buf_fields_suffix_go buf_fields_go].
  - exists []. split; [constructor|]. split; [reflexivity|]. intros i Hi. cbn [length] in Hi.
    assert (i = 0%nat) as -> by lia. reflexivity.
  - destruct (isd x) eqn:Ex.
    + destruct (IH []) as (ds & Hd & Hl & Hn). exists (x :: ds).
      split; [constructor; assumption|]. split; [cbn [length]; rewrite Hl; reflexivity|].
      intros i Hi. destruct i as [|j].
      * cbn [nth snd skipn buf_interleave].
        specialize (Hn 0%nat ltac:(lia)). cbn [skipn] in Hn.
        destruct (buf_fields_suffix_go_head isd [] r) as (f & rest & E). rewrite E in Hn. cbn [nth snd rev app] in Hn.
        rewrite <- Hn. reflexivity.
      * cbn [nth skipn]. apply Hn. cbn [length] in Hi. lia.
    + destruct (IH (x :: cur)) as (ds & Hd & Hl & Hn). exists ds. auto.
Qed.

Section SplitLimit.
Variables (delims : list Z) (flags max_sections : Z).
Notation isd := (buf_in_charset delims).
Notation go := (bufs_split_go delims flags max_sections).
Notation emit := (bufs_split_emit flags).
Notation full := (bufs_split_full max_sections).

(* the closed form: the trim / blank / duplicate filter [bufs_split_emit] applied to the fields
   in order; as soon as the limit test holds at the start of a field, the whole rest of the
   input that starts there is filtered as ONE piece and the split ends *)
Fixpoint buf_split_limit_spec (acc : list (list Z)) (fs : list (list Z * list Z)) : list (list Z) :=
  match fs with
  | [] => acc
  | (f, rest) :: fs' => if full acc then emit acc (rev rest)
                        else buf_split_limit_spec (emit acc (rev f)) fs'
  end.

Hypothesis no_keep : buf_flag flags ARES_BUF_SPLIT_KEEP_DELIMS = false.

Lemma bufs_split_go_limit l : forall acc cur pos start,
  fst (go acc cur (full acc) pos start l) = buf_split_limit_spec acc (buf_fields_suffix_go isd cur l).
Proof.
  induction l as [|x r IH]; intros acc cur pos start.
  - cbn [bufs_split_go buf_fields_suffix_go buf_split_limit_spec fst].
    destruct (full acc); rewrite rev_involutive; reflexivity.
  - destruct (full acc) eqn:Ef.
    + rewrite bufs_split_go_all. cbn [fst].
      destruct (buf_fields_suffix_go_head isd cur (x :: r)) as (f & rest & E). rewrite E.
      cbn [buf_split_limit_spec]. rewrite Ef. rewrite rev_app_distr, rev_involutive. reflexivity.
    + cbn [bufs_split_go buf_fields_suffix_go]. cbn [negb andb].
      destruct (isd x) eqn:Ex.
      * rewrite no_keep. cbn [buf_split_limit_spec]. rewrite Ef. rewrite rev_involutive. apply IH.
      * rewrite <- Ef. apply IH.
Qed.

(* (a) no KEEP_DELIMS, any limit (0 = none), any other flags *)
Theorem bufs_split_limit_fields l :
  fst (bufs_split delims flags max_sections l) = buf_split_limit_spec [] (buf_fields_suffix isd l).
Proof. unfold bufs_split, buf_fields_suffix. apply bufs_split_go_limit. Qed.
End SplitLimit.

(* without a limit the closed form is the plain fold over the fields (= bufs_split_fields) *)
Lemma buf_split_limit_spec_nolimit flags acc fs :
  buf_split_limit_spec flags 0 acc fs = fold_left (fun a f => bufs_split_emit flags a (rev f)) (map fst fs) acc.
Proof.
  revert acc. induction fs as [|[f rest] fs IH]; intros acc; cbn [buf_split_limit_spec map fold_left fst]; [reflexivity|].
  unfold bufs_split_full. cbn [Z.eqb negb andb]. apply IH.
Qed.

(* ---- limit, ALLOW_BLANK only: the pieces still partition the input ---- *)
Lemma bufs_split_emit_blank acc cur : bufs_split_emit ARES_BUF_SPLIT_ALLOW_BLANK acc cur = acc ++ [rev cur].
Proof. unfold bufs_split_emit. vm_compute buf_flag. rewrite orb_true_r. reflexivity. Qed.

Lemma bufs_split_full_spec n acc : 0 < n < 2 ^ 64 ->
  bufs_split_full n acc = (n - 1 <=? buf_zlen acc).
Proof.
  intros Hn. unfold bufs_split_full. replace (n =? 0) with false by (symmetry; apply Z.eqb_neq; lia).
  cbn [negb andb]. rewrite buf_w64_small by lia. rewrite Z.geb_leb. reflexivity.
Qed.

Section LimitPartition.
Variables (delims : list Z) (n : Z).
Hypothesis n_range : 0 < n < 2 ^ 64.
Notation isd := (buf_in_charset delims).
Notation go := (bufs_split_go delims ARES_BUF_SPLIT_ALLOW_BLANK n).
Notation full := (bufs_split_full n).

Lemma bufs_split_go_limit_partition l : forall acc cur pos start,
  Forall (fun c => isd c = false) cur -> buf_zlen acc <= n - 1 ->
  exists ps ds,
    fst (go acc cur (full acc) pos start l) = acc ++ ps /\
    Forall (fun d => isd d = true) ds /\ length ps = S (length ds) /\
    buf_interleave ps ds = rev cur ++ l /\
    buf_zlen (acc ++ ps) <= n /\
    Forall (Forall (fun c => isd c = false)) (removelast ps) /\
    (* the limit cuts only when it is reached: fewer than n pieces = ordinary fields *)
    (buf_zlen (acc ++ ps) < n -> Forall (Forall (fun c => isd c = false)) ps).
Proof.
  induction l as [|x r IH]; intros acc cur pos start Hcur Hacc.
  - cbn [bufs_split_go fst]. rewrite bufs_split_emit_blank.
    exists [rev cur], []. split; [reflexivity|]. split; [constructor|]. split; [reflexivity|].
    split; [cbn [buf_interleave]; rewrite app_nil_r; reflexivity|]. split; [rewrite buf_zlen_app; unfold buf_zlen at 2; cbn [length]; lia|].
    split; [constructor|]. intros _. constructor; [apply Forall_rev; exact Hcur | constructor].
  - destruct (full acc) eqn:Ef.
    + rewrite bufs_split_go_all. cbn [fst]. rewrite bufs_split_emit_blank.
      rewrite rev_app_distr, rev_involutive.
      rewrite bufs_split_full_spec in Ef by exact n_range. apply Z.leb_le in Ef.
      exists [rev cur ++ x :: r], []. split; [reflexivity|]. split; [constructor|]. split; [reflexivity|].
      split; [reflexivity|]. split; [rewrite buf_zlen_app; unfold buf_zlen at 2; cbn [length]; lia|].
      split; [constructor|]. rewrite buf_zlen_app. unfold buf_zlen at 2. cbn [length]. lia.
    + cbn [bufs_split_go]. cbn [negb andb].
      rewrite bufs_split_full_spec in Ef by exact n_range. apply Z.leb_gt in Ef.
      destruct (isd x) eqn:Ex.
      * change (buf_flag ARES_BUF_SPLIT_ALLOW_BLANK ARES_BUF_SPLIT_KEEP_DELIMS) with false. cbn iota.
        rewrite bufs_split_emit_blank.
        destruct (IH (acc ++ [rev cur]) [] (pos + 1) (pos + 1) (Forall_nil _)) as (ps & ds & He & Hd & Hl & Hi & Hn & Hnd & Hlt).
        { rewrite buf_zlen_app. unfold buf_zlen at 2. cbn [length]. lia. }
        exists (rev cur :: ps), (x :: ds). split; [rewrite He, <- app_assoc; reflexivity|].
        split; [constructor; assumption|]. split; [cbn [length]; rewrite Hl; reflexivity|].
        split; [cbn [buf_interleave]; rewrite Hi; reflexivity|].
        split; [rewrite <- app_assoc in Hn; exact Hn|].
        split.
        -- destruct ps as [|p ps']; [discriminate Hl|]. cbn [removelast]. fold (removelast (p :: ps')).
           constructor; [apply Forall_rev; exact Hcur | exact Hnd].
        -- intros Hlen. constructor; [apply Forall_rev; exact Hcur|]. apply Hlt. rewrite <- app_assoc. exact Hlen.
      * assert (full acc = false) as Ef0 by (rewrite bufs_split_full_spec by exact n_range; apply Z.leb_gt; exact Ef).
        destruct (IH acc (x :: cur) (pos + 1) start) as (ps & ds & He & Hd & Hl & Hi & Hn & Hnd & Hlt);
          [constructor; assumption | exact Hacc|].
        rewrite Ef0 in He.
        exists ps, ds. split; [exact He|]. split; [exact Hd|]. split; [exact Hl|].
        split; [rewrite Hi; cbn [rev]; rewrite <- app_assoc; reflexivity|]. auto.
Qed.

(* (a) ALLOW_BLANK with a limit of n sections: at most n pieces; interleaved with the removed
   delimiters they give back the input; no piece but the last contains a delimiter; when fewer
   than n pieces come out none does (the limit was not reached) *)
Theorem bufs_split_limit_partition l :
  let pieces := fst (bufs_split delims ARES_BUF_SPLIT_ALLOW_BLANK n l) in
  exists ds, Forall (fun d => isd d = true) ds /\ length pieces = S (length ds) /\
             buf_interleave pieces ds = l /\ buf_zlen pieces <= n /\
             Forall (Forall (fun c => isd c = false)) (removelast pieces) /\
             (buf_zlen pieces < n -> Forall (Forall (fun c => isd c = false)) pieces).
Proof.
  cbn zeta. unfold bufs_split.
  destruct (bufs_split_go_limit_partition l [] [] 0 0 (Forall_nil _)) as (ps & ds & He & Hd & Hl & Hi & Hn & Hnd & Hlt).
  { unfold buf_zlen. cbn [length]. lia. }
  cbn [app] in He, Hn, Hlt. rewrite He. exists ds. repeat (split; [assumption|]). assumption.
Qed.
End LimitPartition.

(* ---- KEEP_DELIMS ---- *)
(* the sections with KEEP_DELIMS: "a,b,,c" -> [a; ,b; ,; ,c] *)
Fixpoint buf_fields_keep_go (isd : Z -> bool) (cur : list Z) (l : list Z) : list (list Z) :=
  match l with
  | [] => [rev cur]
  | x :: r => if isd x then rev cur :: buf_fields_keep_go isd [x] r else buf_fields_keep_go isd (x :: cur) r
  end.
Definition buf_fields_keep (isd : Z -> bool) (l : list Z) : list (list Z) := buf_fields_keep_go isd [] l.

Definition buf_starts_delim (isd : Z -> bool) (p : list Z) : Prop :=
  match p with d :: _ => isd d = true | [] => False end.

Lemma buf_starts_delim_app isd p q : buf_starts_delim isd p -> buf_starts_delim isd (p ++ q).
Proof. destruct p; [intros []|]. cbn. auto. Qed.

Lemma buf_fields_keep_go_concat isd l : forall cur, concat (buf_fields_keep_go isd cur l) = rev cur ++ l.
Proof.
  induction l as [|x r IH]; intros cur; cbn [buf_fields_keep_go concat].
  - rewrite !app_nil_r. reflexivity.
  - destruct (isd x); cbn [concat]; rewrite IH; cbn [rev app]; [reflexivity | rewrite <- app_assoc; reflexivity].
Qed.

(* relation to ordinary fields: same number of sections; the first is the first field; the i-th
   later one is (i-th delimiter) :: (i-th later field) *)
Lemma buf_fields_go_nonnil isd l : forall cur, buf_fields_go isd cur l <> [].
Proof.
  induction l as [|x r IH]; intros cur; cbn [buf_fields_go]; [discriminate|].
  destruct (isd x); [discriminate | apply IH].
Qed.

Lemma buf_fields_keep_go_fields isd l : forall cur0 cur,
  exists ds, Forall (fun d => isd d = true) ds /\
    length (tl (buf_fields_go isd cur l)) = length ds /\
    buf_fields_keep_go isd (cur ++ cur0) l =
      (rev cur0 ++ hd [] (buf_fields_go isd cur l)) ::
      map (fun df => fst df :: snd df) (combine ds (tl (buf_fields_go isd cur l))).
Proof.
  induction l as [|x r IH]; intros cur0 cur; cbn [buf_fields_keep_go buf_fields_go].
  - exists []. split; [constructor|]. split; [reflexivity|]. cbn [hd tl combine map]. rewrite rev_app_distr. reflexivity.
  - destruct (isd x) eqn:Ex.
    + destruct (IH [x] []) as (ds & Hd & Hl & He). cbn [app] in He.
      exists (x :: ds). split; [constructor; assumption|].
      cbn [hd tl]. pose proof (buf_fields_go_nonnil isd r []) as Hnn.
      destruct (buf_fields_go isd [] r) as [|f0 fs] eqn:Ef; [contradiction|].
      cbn [hd tl] in *. split; [cbn [length]; rewrite Hl; reflexivity|].
      rewrite He. rewrite rev_app_distr. cbn [rev app combine map fst snd]. reflexivity.
    + destruct (IH cur0 (x :: cur)) as (ds & Hd & Hl & He). exists ds. split; [exact Hd|]. split; [exact Hl|].
      cbn [app] in He. exact He.
Qed.

Theorem buf_fields_keep_spec isd l :
  concat (buf_fields_keep isd l) = l /\
  exists ds, Forall (fun d => isd d = true) ds /\
    length (tl (buf_fields isd l)) = length ds /\
    buf_fields_keep isd l = hd [] (buf_fields isd l) ::
                            map (fun df => fst df :: snd df) (combine ds (tl (buf_fields isd l))).
Proof.
  split; [apply (buf_fields_keep_go_concat isd l [])|].
  destruct (buf_fields_keep_go_fields isd l [] []) as (ds & Hd & Hl & He). exists ds. auto.
Qed.

Section SplitKeep.
Variables (delims : list Z) (flags max_sections : Z).
Notation isd := (buf_in_charset delims).
Notation go := (bufs_split_go delims flags max_sections).
Notation emit := (bufs_split_emit flags).
Hypothesis keep : buf_flag flags ARES_BUF_SPLIT_KEEP_DELIMS = true.

(* (b) KEEP_DELIMS, no limit, any other flags: the trim / blank / duplicate filter folded over
   the KEEP_DELIMS sections *)
Lemma bufs_split_go_keep l : forall acc cur pos start, max_sections = 0 ->
  fst (go acc cur false pos start l) =
  fold_left (fun a f => emit a (rev f)) (buf_fields_keep_go isd cur l) acc.
Proof.
  induction l as [|x r IH]; intros acc cur pos start Hm; cbn [bufs_split_go buf_fields_keep_go].
  - cbn [fold_left fst]. rewrite rev_involutive. reflexivity.
  - cbn [negb andb]. destruct (isd x) eqn:Ex.
    + rewrite keep. unfold bufs_split_full. rewrite Hm. cbn [Z.eqb negb andb].
      rewrite <- Hm. rewrite IH by exact Hm. cbn [fold_left]. rewrite rev_involutive. reflexivity.
    + apply IH. exact Hm.
Qed.

(* the plain filter: no trimming, no duplicate removal *)
Hypothesis no_ltrim : buf_flag flags ARES_BUF_SPLIT_LTRIM = false.
Hypothesis no_rtrim : buf_flag flags ARES_BUF_SPLIT_RTRIM = false.
Hypothesis no_nodup : buf_flag flags ARES_BUF_SPLIT_NO_DUPLICATES = false.

Lemma bufs_split_emit_plain acc cur :
  emit acc cur = if negb (buf_zlen (rev cur) =? 0) || buf_flag flags ARES_BUF_SPLIT_ALLOW_BLANK
                 then acc ++ [rev cur] else acc.
Proof. unfold bufs_split_emit. rewrite no_ltrim, no_rtrim, no_nodup. reflexivity. Qed.

Lemma bufs_split_emit_plain_concat acc cur : concat (emit acc cur) = concat acc ++ rev cur.
Proof.
  rewrite bufs_split_emit_plain.
  destruct (Z.eqb_spec (buf_zlen (rev cur)) 0) as [Hz | Hnz]; cbn [negb orb].
  - apply buf_zlen_0 in Hz. rewrite Hz, app_nil_r.
    destruct (buf_flag flags ARES_BUF_SPLIT_ALLOW_BLANK); [|reflexivity].
    rewrite concat_app. cbn [concat]. rewrite !app_nil_r. reflexivity.
  - rewrite concat_app. cbn [concat]. rewrite app_nil_r. reflexivity.
Qed.

(* only a section that begins with a delimiter is ever added behind an existing piece *)
Lemma bufs_split_emit_plain_tl acc cur :
  Forall (buf_starts_delim isd) (tl acc) -> (acc = [] \/ buf_starts_delim isd (rev cur)) ->
  Forall (buf_starts_delim isd) (tl (emit acc cur)).
Proof.
  intros Ha Hc. rewrite bufs_split_emit_plain.
  destruct (negb (buf_zlen (rev cur) =? 0) || buf_flag flags ARES_BUF_SPLIT_ALLOW_BLANK); [|exact Ha].
  destruct acc as [|p acc']; [constructor|]. cbn [app tl] in *.
  destruct Hc as [Hc | Hc]; [discriminate Hc|]. apply Forall_app. split; [exact Ha | constructor; [exact Hc | constructor]].
Qed.

Lemma bufs_split_emit_plain_nonnil acc cur : acc <> [] -> emit acc cur <> [].
Proof.
  intros Ha. rewrite bufs_split_emit_plain.
  destruct (negb (buf_zlen (rev cur) =? 0) || buf_flag flags ARES_BUF_SPLIT_ALLOW_BLANK); [|exact Ha].
  destruct acc; [contradiction | discriminate].
Qed.

Lemma bufs_split_go_keep_concat l : forall acc cur all pos start,
  Forall (buf_starts_delim isd) (tl acc) -> (acc = [] \/ buf_starts_delim isd (rev cur)) ->
  concat (fst (go acc cur all pos start l)) = concat acc ++ rev cur ++ l /\
  Forall (buf_starts_delim isd) (tl (fst (go acc cur all pos start l))).
Proof.
  induction l as [|x r IH]; intros acc cur all pos start Ha Hc; cbn [bufs_split_go].
  - cbn [fst]. rewrite app_nil_r. split; [apply bufs_split_emit_plain_concat | apply bufs_split_emit_plain_tl; assumption].
  - destruct (negb all && isd x) eqn:Ed.
    + rewrite keep.
      destruct (IH (emit acc cur) [x] (bufs_split_full max_sections (emit acc cur)) (pos + 1) pos) as [Hcc Htl].
      * apply bufs_split_emit_plain_tl; assumption.
      * right. cbn. apply andb_true_iff in Ed. apply Ed.
      * split; [|exact Htl]. rewrite Hcc, bufs_split_emit_plain_concat. cbn [rev app]. rewrite <- !app_assoc. reflexivity.
    + destruct (IH acc (x :: cur) all (pos + 1) start) as [Hcc Htl]; [exact Ha | |].
      * destruct Hc as [Hc | Hc]; [left; exact Hc | right; cbn [rev]; apply buf_starts_delim_app; exact Hc].
      * split; [|exact Htl]. rewrite Hcc. cbn [rev]. rewrite <- !app_assoc. reflexivity.
Qed.

(* (b) KEEP_DELIMS without trim / duplicate flags, ANY limit, with or without ALLOW_BLANK: the
   plain concatenation of the pieces is the input, and every piece after the first begins with
   the delimiter that preceded it.  (Dropping an empty first section - input beginning with a
   delimiter, no ALLOW_BLANK - does not change the concatenation.) *)
Theorem bufs_split_keep_concat l :
  concat (fst (bufs_split delims flags max_sections l)) = l /\
  Forall (buf_starts_delim isd) (tl (fst (bufs_split delims flags max_sections l))).
Proof.
  unfold bufs_split.
  destruct (bufs_split_go_keep_concat l [] [] (bufs_split_full max_sections []) 0 0 (Forall_nil _) (or_introl eq_refl)) as [H1 H2].
  split; [exact H1 | exact H2].
Qed.
End SplitKeep.

Theorem bufs_split_keep_fields delims flags l :
  buf_flag flags ARES_BUF_SPLIT_KEEP_DELIMS = true ->
  fst (bufs_split delims flags 0 l) =
  fold_left (fun a f => bufs_split_emit flags a (rev f)) (buf_fields_keep (buf_in_charset delims) l) [].
Proof.
  intros Hk. unfold bufs_split, buf_fields_keep. unfold bufs_split_full at 1. cbn [Z.eqb negb andb].
  apply bufs_split_go_keep; [exact Hk | reflexivity].
Qed.

(* ---- what trimming does to the concatenation: only whitespace disappears ---- *)
Definition buf_nonws (c : Z) : bool := negb (buf_is_whitespace c true).

Lemma buf_ltrim_nonws l : filter buf_nonws (buf_ltrim l) = filter buf_nonws l.
Proof.
  induction l as [|x r IH]; cbn [buf_ltrim filter]; [reflexivity|].
  unfold buf_nonws at 2. destruct (buf_is_whitespace x true) eqn:Ew; cbn [negb]; [exact IH|].
  cbn [filter]. unfold buf_nonws at 1. rewrite Ew. reflexivity.
Qed.

Lemma buf_filter_rev {A} (p : A -> bool) l : filter p (rev l) = rev (filter p l).
Proof.
  induction l as [|x r IH]; cbn [rev filter]; [reflexivity|].
  rewrite filter_app, IH. cbn [filter]. destruct (p x); cbn [rev]; [reflexivity | rewrite app_nil_r; reflexivity].
Qed.

Lemma buf_rtrim_nonws l : filter buf_nonws (buf_rtrim l) = filter buf_nonws l.
Proof. unfold buf_rtrim. rewrite buf_filter_rev, buf_ltrim_nonws, buf_filter_rev, rev_involutive. reflexivity. Qed.

Section SplitKeepTrim.
Variables (delims : list Z) (flags max_sections : Z).
Notation isd := (buf_in_charset delims).
Notation go := (bufs_split_go delims flags max_sections).
Notation emit := (bufs_split_emit flags).
Hypothesis no_nodup : buf_flag flags ARES_BUF_SPLIT_NO_DUPLICATES = false.

Lemma bufs_split_emit_nonws acc cur :
  filter buf_nonws (concat (emit acc cur)) = filter buf_nonws (concat acc) ++ filter buf_nonws (rev cur).
Proof.
  unfold bufs_split_emit. rewrite no_nodup. cbn [negb orb].
  set (s1 := if buf_flag flags ARES_BUF_SPLIT_LTRIM then buf_ltrim (rev cur) else rev cur).
  set (s2 := if buf_flag flags ARES_BUF_SPLIT_RTRIM then buf_rtrim s1 else s1).
  assert (filter buf_nonws s2 = filter buf_nonws (rev cur)) as Hs.
  { unfold s2, s1. destruct (buf_flag flags ARES_BUF_SPLIT_RTRIM); [rewrite buf_rtrim_nonws|];
      (destruct (buf_flag flags ARES_BUF_SPLIT_LTRIM); [apply buf_ltrim_nonws | reflexivity]). }
  destruct (Z.eqb_spec (buf_zlen s2) 0) as [Hz | Hnz]; cbn [negb orb].
  - apply buf_zlen_0 in Hz. rewrite <- Hs, Hz. cbn [filter]. rewrite app_nil_r.
    destruct (buf_flag flags ARES_BUF_SPLIT_ALLOW_BLANK); [|reflexivity].
    rewrite concat_app. cbn [concat]. rewrite !app_nil_r. reflexivity.
  - rewrite concat_app. cbn [concat]. rewrite app_nil_r, filter_app, Hs. reflexivity.
Qed.

Lemma bufs_split_go_nonws l : forall acc cur all pos start,
  buf_flag flags ARES_BUF_SPLIT_KEEP_DELIMS = true ->
  filter buf_nonws (concat (fst (go acc cur all pos start l))) =
  filter buf_nonws (concat acc) ++ filter buf_nonws (rev cur ++ l).
Proof.
  induction l as [|x r IH]; intros acc cur all pos start Hk; cbn [bufs_split_go].
  - cbn [fst]. rewrite app_nil_r. apply bufs_split_emit_nonws.
  - destruct (negb all && isd x).
    + rewrite Hk. rewrite IH by exact Hk. rewrite bufs_split_emit_nonws. cbn [rev app].
      rewrite <- app_assoc. rewrite <- filter_app. reflexivity.
    + rewrite IH by exact Hk. cbn [rev]. rewrite <- app_assoc. reflexivity.
Qed.

(* (b) KEEP_DELIMS with LTRIM / RTRIM (any limit, with or without ALLOW_BLANK, no duplicate
   removal): the concatenation of the pieces is the input with some WHITESPACE removed - a
   whitespace delimiter kept by KEEP_DELIMS is itself trimmed away by LTRIM - and nothing else:
   after deleting all whitespace both sides are equal *)
Theorem bufs_split_keep_trim_concat l :
  buf_flag flags ARES_BUF_SPLIT_KEEP_DELIMS = true ->
  filter buf_nonws (concat (fst (bufs_split delims flags max_sections l))) = filter buf_nonws l.
Proof. intros Hk. unfold bufs_split. rewrite bufs_split_go_nonws by exact Hk. reflexivity. Qed.
End SplitKeepTrim.

(* ---- the link to the code-shaped model: what ares_buf_split returns for a non-empty input IS
   the machine's piece list of the remaining bytes, so every closed form above is a statement
   about buf_split (corollary of buf_split_refines) ---- *)
Theorem buf_split_pieces_machine b delims flags max_sections :
  buf_inv b -> 0 <= flags -> 0 <= max_sections -> 0 < buf_zlen delims -> buf_remaining b <> [] ->
  exists b', buf_split true (fun _ => true) b delims flags max_sections =
             Ok (ARES_SUCCESS, b', fst (bufs_split delims flags max_sections (buf_remaining b))) /\
             buf_inv b' /\ buf_remaining b' = [] /\ buf_consumed b' = buf_consumed b ++ buf_remaining b.
Proof.
  intros Hi Hf Hm Hd Hne.
  destruct (buf_split_refines true b delims flags max_sections Hi Hf Hm) as (st & b' & pieces & He & Hi' & _ & Hin).
  unfold bufs_split_alts in Hin.
  replace (buf_zlen delims =? 0) with false in Hin by (symmetry; apply Z.eqb_neq; lia).
  cbn [negb] in Hin. unfold bufs_len in Hin. rewrite buf_abs_post in Hin.
  destruct (Z.eqb_spec (buf_zlen (buf_remaining b)) 0) as [Hz | Hnz]; [apply buf_zlen_0 in Hz; contradiction|].
  destruct Hin as [Hin | []].
  injection Hin as Hst _ Hp Hpre Hpost _ _. subst st pieces.
  exists b'. split; [exact He|]. split; [exact Hi'|]. split; [symmetry; exact Hpost | symmetry; exact Hpre].
Qed.

(* ---- examples: the hypotheses are satisfiable and the corner cases are what is claimed ---- *)
(* "a,b,,c d" split at ',' *)
Example bufs_split_limit_example :
  let l := [97; 44; 98; 44; 44; 99; 32; 100] in
  (* limit 2, no flags: the rest keeps its delimiters *)
  fst (bufs_split [44] 0 2 l) = [[97]; [98; 44; 44; 99; 32; 100]] /\
  (* limit 3: blank sections are dropped and do NOT count: the third piece starts behind ",," *)
  fst (bufs_split [44] 0 3 l) = [[97]; [98]; [44; 99; 32; 100]] /\
  (* limit 1: the whole input *)
  fst (bufs_split [44] 0 1 l) = [l] /\
  (* KEEP_DELIMS, no ALLOW_BLANK: the "blank" section "," is kept *)
  fst (bufs_split [44] ARES_BUF_SPLIT_KEEP_DELIMS 0 l) = [[97]; [44; 98]; [44]; [44; 99; 32; 100]] /\
  (* KEEP_DELIMS with limit 2: the rest starts WITH the delimiter *)
  fst (bufs_split [44] ARES_BUF_SPLIT_KEEP_DELIMS 2 l) = [[97]; [44; 98; 44; 44; 99; 32; 100]] /\
  (* KEEP_DELIMS | LTRIM with a whitespace delimiter: the kept delimiter is trimmed away *)
  fst (bufs_split [32] (ARES_BUF_SPLIT_KEEP_DELIMS + ARES_BUF_SPLIT_LTRIM) 0 [97; 32; 98]) = [[97]; [98]].
Proof. vm_compute. repeat split; reflexivity. Qed.
