(* C15 - configuration text is parsed robustly and line-independently.
   Statements only; proofs are in Config/*_proofs.v, witnesses in Config/Witness.v. *)
From CAres.Config Require Import Spec Vif Lines_proofs Total_proofs Ranges_proofs Chan_ranges Witness.
From CAres.Gen Require Import Consts.
From Coq Require Import String.
Local Open Scope string_scope.

(* C15_total.  Full statement: on every byte string every handler returns Ok or Err, never UB.
   Proved: the only undefined behaviour reachable is the signed overflow of atoi() (everything
   ares_init_by_sysconfig reads: resolv.conf, nsswitch.conf, netsvc.conf, svc.conf, LOCALDOMAIN,
   RES_OPTIONS; for every address parser and interface table).  Missing for the full statement:
   atoi() on a digit string that does not fit an int is undefined in ISO C (sortlist mask,
   tcpport=, %<ifindex>), see C15_total_refuted. *)
Theorem C15_total_partial : forall nf ifs e k, read_sysconfig nf ifs e = UB k -> k = SignedOverflow.
Proof. exact ub_read_sysconfig. Qed.
Print Assumptions C15_total_partial.

Theorem C15_total_line_partial : forall nf ifs cfg l k, parse_resolv_line nf ifs cfg l = UB k -> k = SignedOverflow.
Proof. intros nf ifs cfg l. exact (ub_parse_resolv_line nf sortlist_fixed ifs cfg l). Qed.
Print Assumptions C15_total_line_partial.

Theorem C15_total_refuted :
  parse_sortlist inet_fns (B "1.2.3.4/99999999999") = UB SignedOverflow /\
  sconfig_append_fromstr inet_fns None None (B "dns://1.2.3.4:53?tcpport=99999999999") true = UB SignedOverflow /\
  sconfig_append_fromstr inet_fns (Some vif) None (B "fe80::1%999999999999999") true = UB SignedOverflow.
Proof. exact witness_atoi_overflow. Qed.
Print Assumptions C15_total_refuted.

(* C15_all_or_nothing: a resolv.conf line either has no effect or changes exactly the field group
   of its keyword (domains / lookups / appended servers / sortlist / numeric options); a line
   that fails (ARES_ENOMEM) aborts the file and nothing at all is applied to the channel. *)
Theorem C15_all_or_nothing : forall nf ifs cfg l cfg',
  parse_resolv_line nf ifs cfg l = Ok cfg' -> line_effect cfg cfg'.
Proof. intros nf ifs cfg l cfg'. exact (resolv_line_frame nf sortlist_fixed ifs cfg l cfg'). Qed.
Print Assumptions C15_all_or_nothing.

(* C15_junk_independent.  Full statement: for every line j that the grammar of Spec.v calls junk,
   parsing l1 ++ j :: l2 equals parsing l1 ++ l2.  Proved for the junk classes comment,
   unknown keyword, missing argument, bytes outside printable ASCII, over-long value,
   nameserver / sortlist arguments that cannot start a value, options with unknown plain names,
   lookup without a known word (with fixes/C15-sortlist-keep.patch for the sortlist class).
   Missing: classes JOptionsNumeric and JSearchEmpty, refuted below. *)
Theorem C15_junk_independent_partial : forall nf ifs cfg l1 j l2 cls,
  junk_class_resolv j = Some cls -> proved_class cls = true ->
  process_lines (parse_resolv_line nf ifs) cfg (l1 ++ j :: l2) = process_lines (parse_resolv_line nf ifs) cfg (l1 ++ l2).
Proof. exact junk_lines_independent. Qed.
Print Assumptions C15_junk_independent_partial.

Theorem C15_junk_independent_refuted_search :
  junk_class_resolv (B "search ,") = Some JSearchEmpty /\
  parse_resolv_line nf None cfg_with_server (B "search ,") = Err ARES_ENOMEM /\
  process_lines (parse_resolv_line nf None) sys_init [B "nameserver 1.2.3.4"; B "search ,"] = Err ARES_ENOMEM /\
  process_lines (parse_resolv_line nf None) sys_init [B "nameserver 1.2.3.4"] = Ok cfg_with_server.
Proof. exact witness_search_empty. Qed.
Print Assumptions C15_junk_independent_refuted_search.

Theorem C15_junk_independent_refuted_env :
  junk_localdomain [] = true /\ junk_res_options [] = true /\
  init_by_environment cfg_with_server (Some []) None = Err ARES_ENOMEM /\
  init_by_environment cfg_with_server None (Some []) = Err ARES_ENOMEM /\
  init_by_environment cfg_with_server None None = Ok cfg_with_server.
Proof. exact witness_env_empty. Qed.
Print Assumptions C15_junk_independent_refuted_env.

Theorem C15_junk_independent_refuted_numeric :
  junk_class_resolv (B "options ndots:abc") = Some JOptionsNumeric /\
  option_map s_ndots (match parse_resolv_line nf None sys_init (B "options ndots:abc") with Ok c => Some c | _ => None end) = Some 0%Z /\
  s_ndots sys_init = 1%Z /\
  junk_class_resolv (B "options timeout:5x") = Some JOptionsNumeric /\
  option_map s_timeout_ms (match parse_resolv_line nf None sys_init (B "options timeout:5x") with Ok c => Some c | _ => None end) = Some 5000%Z /\
  option_map s_ndots (match parse_resolv_line nf None sys_init (B "options ndots:-1") with Ok c => Some c | _ => None end) = Some 4294967295%Z.
Proof. exact witness_options_numeric. Qed.
Print Assumptions C15_junk_independent_refuted_numeric.

(* the code as pinned (without fixes/C15-sortlist-keep.patch): a junk sortlist line drops an
   earlier sortlist; with the patch it is the identity *)
Theorem C15_sortlist_pinned_refuted :
  junk_class_resolv (B "sortlist junk") = Some JSortlistToken /\
  List.length (s_sortlist cfg_with_sortlist) = 1%nat /\
  option_map s_sortlist (match parse_resolv_line_gen nf false None cfg_with_sortlist (B "sortlist junk") with Ok c => Some c | _ => None end) = Some [] /\
  parse_resolv_line_gen nf true None cfg_with_sortlist (B "sortlist junk") = Ok cfg_with_sortlist.
Proof. exact witness_sortlist_pinned. Qed.
Print Assumptions C15_sortlist_pinned_refuted.

(* C15_ranges: whatever the files and the environment contain, the numeric fields gathered from
   them are 32-bit values.  The documented range of ndots (0..15) is NOT enforced. *)
Theorem C15_ranges : forall nf ifs e s, read_sysconfig nf ifs e = Ok s -> sys_in_range s.
Proof. exact read_sysconfig_range. Qed.
Print Assumptions C15_ranges.

Theorem C15_ranges_ndots_refuted :
  option_map s_ndots (match parse_resolv_line nf None sys_init (B "options ndots:16") with Ok c => Some c | _ => None end) = Some 16%Z /\
  (16 > ndots_documented_max)%Z.
Proof. exact witness_ndots_range. Qed.
Print Assumptions C15_ranges_ndots_refuted.

(* a reinit with a resolv.conf whose only name server is unusable leaves the channel without any
   server (ARES_CONFIG_CHECK fails from then on) *)
Theorem C15_ranges_reinit_servers_refuted :
  List.length (c_servers chan_a) = 1%nat /\
  option_map (fun c => List.length (c_servers c))
    (match reinit nf (env_of_resolv "nameserver fe80::1%nope") chan_a with Ok c => Some c | _ => None end) = Some 0%nat /\
  option_map (fun c => List.length (c_servers c))
    (match reinit nf (env_of_resolv "# nothing") chan_a with Ok c => Some c | _ => None end) = Some 1%nat.
Proof. exact witness_reinit_no_servers. Qed.
Print Assumptions C15_ranges_reinit_servers_refuted.

(* C15_ranges, channel level: for all options, files and environment, a channel returned by
   ares_init_options has a positive timeout and try count, at least one server and a lookup
   order (ARES_CONFIG_CHECK); what the application did not set is a 32-bit value. *)
Theorem C15_ranges_channel : forall nf e o m c,
  init_options nf e o m = Ok c ->
  (0 < c_timeout c)%Z /\ (0 < c_tries c)%Z /\ c_servers c <> [] /\ c_lookups c <> None /\
  (has (c_optmask c) B_NDOTS = false -> (0 <= c_ndots c < 2 ^ 32)%Z) /\
  (has (c_optmask c) B_TIMEOUTMS = false -> (c_timeout c < 2 ^ 32)%Z) /\
  (has (c_optmask c) B_TRIES = false -> (c_tries c < 2 ^ 32)%Z).
Proof. exact Chan_ranges.init_options_ranges. Qed.
Print Assumptions C15_ranges_channel.

(* the same at the level of the file text (what the metamorphic oracle compares): inserting a raw
   junk line - blank, or junk after trimming - anywhere in a resolv.conf does not change the
   system configuration read from it (same classes as C15_junk_independent_partial) *)
Theorem C15_junk_independent_file_partial : forall nf ifs cfg rs1 j rs2 cls,
  Forall no_nl rs1 -> no_nl j -> Forall no_nl rs2 ->
  junk_class_raw j = Some cls -> proved_class cls = true ->
  process_buf (parse_resolv_line nf ifs) cfg (unlines (rs1 ++ j :: rs2)) =
  process_buf (parse_resolv_line nf ifs) cfg (unlines (rs1 ++ rs2)).
Proof. exact junk_file_independent. Qed.
Print Assumptions C15_junk_independent_file_partial.
