(* C15 - configuration text is parsed robustly and line-independently.
   Statements only; proofs are in Config/*_proofs.v, concrete instances in Config/Witness.v.
   The model is of the code with fixes/C15-*.patch applied (each defect was first exhibited as a
   refuted statement and replayed on the real library, see docs/C15.md). *)
From CAres.Config Require Import Spec Vif HostsSpec Lines_proofs Total_proofs Ranges_proofs Chan_ranges Hosts_proofs Witness Lookup_proofs.
From CAres.Gen Require Import Consts.
From Coq Require Import String.
Local Open Scope string_scope.

(* C15_total: on every byte string, for every address parser and interface table, everything
   ares_init_by_sysconfig reads (resolv.conf, nsswitch.conf, netsvc.conf, svc.conf, LOCALDOMAIN,
   RES_OPTIONS) is handled without C undefined behaviour: the result is Ok or Err. *)
Theorem C15_total : forall nf ifs e k, read_sysconfig nf ifs e <> UB k.
Proof. exact ub_read_sysconfig. Qed.
Print Assumptions C15_total.

Theorem C15_total_line : forall nf ifs cfg l k, parse_resolv_line nf ifs cfg l <> UB k.
Proof. intros nf ifs cfg l. exact (ub_parse_resolv_line nf sortlist_fixed ifs cfg l). Qed.
Print Assumptions C15_total_line.

(* the other text entry points: sortlist strings, server lists, option strings *)
Theorem C15_total_strings : forall nf ifs l s ign cfg k,
  parse_sortlist nf s <> UB k /\ sconfig_append_fromstr nf ifs l s ign <> UB k /\ set_options cfg s <> UB k.
Proof. intros nf ifs l s ign cfg k. exact (conj (ub_parse_sortlist nf s k) (conj (ub_sconfig_append_fromstr nf ifs l s ign k) (ub_set_options cfg s k))). Qed.
Print Assumptions C15_total_strings.

(* C15_all_or_nothing: a resolv.conf line either has no effect or changes exactly the field group
   of its keyword (domains / lookups / appended servers / sortlist / numeric options). *)
Theorem C15_all_or_nothing : forall nf ifs cfg l cfg',
  parse_resolv_line nf ifs cfg l = Ok cfg' -> line_effect cfg cfg'.
Proof. intros nf ifs cfg l cfg'. exact (resolv_line_frame nf sortlist_fixed ifs cfg l cfg'). Qed.
Print Assumptions C15_all_or_nothing.

(* C15_junk_independent: for every line j that the grammar of Spec.v calls junk (all eleven
   classes), parsing l1 ++ j :: l2 equals parsing l1 ++ l2 ... *)
Theorem C15_junk_independent : forall nf ifs cfg l1 j l2 cls,
  junk_class_resolv j = Some cls ->
  process_lines (parse_resolv_line nf ifs) cfg (l1 ++ j :: l2) = process_lines (parse_resolv_line nf ifs) cfg (l1 ++ l2).
Proof. exact junk_lines_independent. Qed.
Print Assumptions C15_junk_independent.

(* ... also on the file text (what the metamorphic oracle compares): inserting a raw junk line,
   blank or junk after trimming, anywhere in a resolv.conf ... *)
Theorem C15_junk_independent_file : forall nf ifs cfg rs1 j rs2 cls,
  Forall no_nl rs1 -> no_nl j -> Forall no_nl rs2 ->
  junk_class_raw j = Some cls ->
  process_buf (parse_resolv_line nf ifs) cfg (unlines (rs1 ++ j :: rs2)) =
  process_buf (parse_resolv_line nf ifs) cfg (unlines (rs1 ++ rs2)).
Proof. exact junk_file_independent. Qed.
Print Assumptions C15_junk_independent_file.

(* ... and LOCALDOMAIN / RES_OPTIONS holding junk behave as if unset *)
Theorem C15_junk_independent_env : forall cfg l r,
  (forall v, l = Some v -> junk_localdomain v = true) -> (forall v, r = Some v -> junk_res_options v = true) ->
  init_by_environment cfg l r = init_by_environment cfg None None.
Proof. exact junk_env_is_identity. Qed.
Print Assumptions C15_junk_independent_env.

(* ... numeric extremes of the sortlist prefix length: an entry "address/N" with N above 128 or with
   more than three digits (129, 255, 256, 264, 999, 2^32+8, ...; sortlist_has_bad_mask) makes the
   line junk by C15_junk_independent (class JSortlistMask), and given to ares_set_sortlist() it is
   refused with an error other than ENOMEM while the channel - its sortlist included - stays as it
   was.  The prefix length is compared as an unbounded integer BEFORE it is narrowed to the
   unsigned char field. *)
Theorem C15_sortlist_prefix_extremes : forall nf c s,
  sortlist_has_bad_mask s = true ->
  (exists st, parse_sortlist nf s = Err st /\ st <> ARES_ENOMEM /\ st <> ARES_SUCCESS) /\
  (exists st, chan_set_sortlist nf c s = Ok (st, c) /\ st <> ARES_ENOMEM /\ st <> ARES_SUCCESS).
Proof. intros nf c s H. exact (conj (parse_sortlist_bad_mask nf s H) (set_sortlist_bad_mask nf c s H)). Qed.
Print Assumptions C15_sortlist_prefix_extremes.

Theorem C15_sortlist_prefix_extremes_inhabited :
  junk_class_resolv (B "sortlist 10.0.0.0/264") = Some JSortlistMask /\
  junk_class_resolv (B "sortlist 10.0.0.0/8 2001:db8::/640") = Some JSortlistMask /\
  sortlist_has_bad_mask (B "10.0.0.0/4294967304") = true /\ sortlist_has_bad_mask (B "10.0.0.0/32;1.2.3.4/128") = false.
Proof. vm_compute. repeat split; reflexivity. Qed.
Print Assumptions C15_sortlist_prefix_extremes_inhabited.

(* instances that the code as pinned got wrong (now consequences of the theorems above) *)
Theorem C15_fixed_instances :
  (parse_resolv_line nf None cfg_with_server (B "search ,") = Ok cfg_with_server) /\
  (init_by_environment cfg_with_server (Some []) (Some []) = Ok cfg_with_server) /\
  (parse_resolv_line nf None sys_init (B "options ndots:abc timeout:5x ndots:-1 ndots attempts:") = Ok sys_init) /\
  (parse_sortlist nf (B "1.2.3.4/99999999999") = Err ARES_EBADSTR).
Proof.
  exact (conj (proj1 (proj2 fixed_search_empty)) (conj (proj2 (proj2 fixed_env_empty))
        (conj (proj1 (proj2 fixed_options_numeric)) (proj1 fixed_atoi_overflow)))).
Qed.
Print Assumptions C15_fixed_instances.

(* the sortlist handler as pinned (before fixes/C15-sortlist-keep.patch) dropped an earlier
   sortlist on a junk line; the fixed handler is the identity *)
Theorem C15_sortlist_pinned_refuted :
  junk_class_resolv (B "sortlist junk") = Some JSortlistToken /\
  List.length (s_sortlist cfg_with_sortlist) = 1%nat /\
  option_map s_sortlist (match parse_resolv_line_gen nf false None cfg_with_sortlist (B "sortlist junk") with Ok c => Some c | _ => None end) = Some [] /\
  parse_resolv_line_gen nf true None cfg_with_sortlist (B "sortlist junk") = Ok cfg_with_sortlist.
Proof. exact witness_sortlist_pinned. Qed.
Print Assumptions C15_sortlist_pinned_refuted.

(* C15_ranges: whatever the files and the environment contain, ndots lies in the documented
   0..15, tries is a 9-digit number and the timeout at most 4294967 s *)
Theorem C15_ranges : forall nf ifs e s, read_sysconfig nf ifs e = Ok s -> sys_in_range s.
Proof. exact read_sysconfig_range. Qed.
Print Assumptions C15_ranges.

(* the lookup order ("lookup" / "hostresorder" / "hosts:" lines): for ANY list of words the loop
   filling char lookupstr[32] neither overruns the array nor fails, and what it leaves is a string
   over 'b' and 'f' naming every source at most once (at most two characters) *)
Theorem C15_lookup_order_range : forall vals acc, lookup_ok acc ->
  exists ls, lookup_fold vals acc = Ok ls /\ lookup_ok ls /\ (List.length ls <= 2)%nat.
Proof.
  intros vals acc H. destruct (lookup_fold_ok vals acc H) as (ls & E & Hl).
  exists ls. split; [exact E | split; [exact Hl | exact (lookup_ok_short ls Hl)]].
Qed.
Print Assumptions C15_lookup_order_range.

Theorem C15_config_lookup_range : forall cfg buf seps,
  lookups_ok (s_lookups cfg) ->
  exists cfg', config_lookup cfg buf seps = Ok cfg' /\ lookups_ok (s_lookups cfg').
Proof. exact config_lookup_range. Qed.
Print Assumptions C15_config_lookup_range.

(* ... and a channel returned by ares_init_options has a positive timeout and try count, at
   least one server and a lookup order (ARES_CONFIG_CHECK); ndots not set by the application is
   within 0..15, timeout and tries not set by it are 32-bit values *)
Theorem C15_ranges_channel : forall nf e o m c,
  init_options nf e o m = Ok c ->
  (0 < c_timeout c)%Z /\ (0 < c_tries c)%Z /\ c_servers c <> [] /\ c_lookups c <> None /\
  (has (c_optmask c) B_NDOTS = false -> (0 <= c_ndots c <= 15)%Z) /\
  (has (c_optmask c) B_TIMEOUTMS = false -> (c_timeout c < 2 ^ 32)%Z) /\
  (has (c_optmask c) B_TRIES = false -> (c_tries c < 2 ^ 32)%Z).
Proof. exact Chan_ranges.init_options_ranges. Qed.
Print Assumptions C15_ranges_channel.

(* ... and a reinit never leaves a channel without servers *)
Theorem C15_ranges_reinit_servers : forall nf e c c',
  reinit nf e c = Ok c' -> c_servers c <> [] -> c_servers c' <> [].
Proof. exact Chan_ranges.reinit_keeps_servers. Qed.
Print Assumptions C15_ranges_reinit_servers.

(* The HOSTALIASES file (ares_lookup_hostaliases): a raw line that does not define the alias being
   looked up - another alias, the same alias with no target, with a target that is not a host name
   (other characters, over-long), unprintable - can be inserted anywhere, in particular BEFORE
   the line that does define it, without changing the result of the lookup. *)
Theorem C15_hostaliases_junk_independent : forall name rs1 j rs2,
  Forall no_nl rs1 -> no_nl j -> Forall no_nl rs2 -> junk_alias_line name j = true ->
  lookup_hostaliases name (unlines (rs1 ++ j :: rs2)) = lookup_hostaliases name (unlines (rs1 ++ rs2)).
Proof. exact junk_alias_file_independent. Qed.
Print Assumptions C15_hostaliases_junk_independent.

Theorem C15_hostaliases_junk_inhabited :
  junk_alias_line (B "www") (B "www www.exa!mple.com") = true /\ junk_alias_line (B "www") (B "WWW => realhost") = true /\
  junk_alias_line (B "www") (B "www") = true /\ junk_alias_line (B "www") (B "other host.example") = true /\
  junk_alias_line (B "www") (B " Www  host.example  trailing words") = false /\
  lookup_hostaliases (B "www") (unlines [B "www www.exa!mple.com"; B "www real.example.com"]) = Some (B "real.example.com").
Proof. vm_compute. repeat split; reflexivity. Qed.
Print Assumptions C15_hostaliases_junk_inhabited.

(* The hosts file (ares_hosts_file.c).  Totality: reading any content succeeds and yields tables
   in which no entry dangles, so a lookup never follows a stale pointer ... *)
Theorem C15_hosts_total : forall nf content, exists hf, parse_hosts nf content = Ok hf /\ hf_wf hf.
Proof. exact parse_hosts_total. Qed.
Print Assumptions C15_hosts_total.

Theorem C15_hosts_search_total : forall nf content hf name,
  parse_hosts nf content = Ok hf -> exists r, hosts_search_host hf name = Ok r.
Proof. exact hosts_search_total. Qed.
Print Assumptions C15_hosts_search_total.

(* ... and junk independence on the file text: a raw line that hosts(5) does not allow (blank,
   comment, no address, no usable name) can be inserted anywhere without changing the result *)
Theorem C15_hosts_junk_independent : forall nf rs1 j rs2 c,
  Forall no_nl rs1 -> no_nl j -> Forall no_nl rs2 -> junk_hosts_class nf j = Some c ->
  parse_hosts nf (unlines (rs1 ++ j :: rs2)) = parse_hosts nf (unlines (rs1 ++ rs2)).
Proof. exact junk_hosts_file_independent. Qed.
Print Assumptions C15_hosts_junk_independent.
