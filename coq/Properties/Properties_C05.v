(* C05 - only an authentic, matching response can answer a query or enter the cache.
   Statements only; proofs are in Core/Accept_proofs.v.

   Vocabulary (Core/Accept.v):  [run_trace cfg st evs] runs the model over an arbitrary event list -
   packets read from sockets ([ERead conn src now datagram]) interleaved arbitrarily with new
   requests, connection opens/closes, (re-)assignments of a query to a connection, time-outs,
   ends without a record and cookie bookkeeping - and returns, for every event, the state it was
   applied to and the outputs it produced.  [fixed cfg] = the connection guard and the QR test are
   present (the accept path of the tree with fixes/C05-qr-check.patch).  [authentic_b] is the
   specification predicate: assigned connection, server address (UDP), current id, exact question
   (case-sensitive when 0x20 applies), QR set, DNS-cookie checks.  [carries o tag]: output o is a
   callback handing over the record tagged tag, a success mark caused by it, or its insertion
   into the cache. *)
From Coq Require Import ZArith List Bool.
From CAres.Base Require Import Outcome.
From CAres.Gen Require Import Consts.
From CAres.Core Require Import Accept Accept_proofs.
From CAres.Core Require Cookie Accept_cookie_equiv.
Import ListNotations.
Local Open Scope Z_scope.

(* ---- delivery: for ALL event sequences ---------------------------------------------------- *)
Theorem C05_delivery_authentic : forall cfg servers evs tr stn,
  fixed cfg -> server_inv servers ->
  run_trace cfg (init_chan servers) evs = Ok (tr, stn) ->
  forall tr1 st e outs tr2, tr = tr1 ++ (st, e, outs) :: tr2 ->
  forall o tag, In o outs -> carries o tag ->
    (exists c src s u p cn sv q,
        e = ERead c src s u (DParsed p) /\ p_tag p = tag /\
        find_conn st c = Some cn /\ find_server st (cn_server cn) = Some sv /\
        In q (ch_queries st) /\ authentic_b cfg cn sv src p q = true /\
        (forall tok s0 dd, o = OCallback tok s0 dd -> tok = q_tok q)) \/
    (exists tok qd opcode rd cd has_opt nopts nore ids now,
        e = ENew tok qd opcode rd cd has_opt nopts nore false ids now /\
        o = OCallback tok ARES_SUCCESS (Some tag) /\
        exists x, In x tr1 /\ authentic_read cfg x tag).
Proof. exact delivery_authentic. Qed.
Print Assumptions C05_delivery_authentic.

(* the same for one packet, as a statement about process_answer *)
Theorem C05_accept_step_authentic : forall cfg st cn sv src s u d st' outs,
  cf_fix_conn cfg = true -> cf_fix_qr cfg = true ->
  assign_inv st -> find_conn st (cn_id cn) = Some cn ->
  (cn_tcp cn || (src =? sv_addr sv)) = true ->
  process_answer cfg st cn sv s u d = Ok (st', outs) ->
  forall o tag, In o outs -> carries o tag ->
  exists p q, d = DParsed p /\ p_tag p = tag /\ In q (ch_queries st) /\
              authentic_b cfg cn sv src p q = true /\
              (forall tok st0 dd, o = OCallback tok st0 dd -> tok = q_tok q).
Proof. exact process_answer_sound. Qed.
Print Assumptions C05_accept_step_authentic.

(* the accept path never assigns a query to a connection: a query that is on a connection when
   a packet of a batch is processed was on it when the batch was read (this is what lets the
   run-time monitor judge deliveries on the state dumped before the read) *)
Theorem C05_accept_only_unassigns : forall cfg st cn sv s u d st1 outs,
  process_answer cfg st cn sv s u d = Ok (st1, outs) ->
  forall q c, In q (ch_queries st1) -> q_conn q = Some c -> In q (ch_queries st).
Proof. exact process_answer_only_unassigns. Qed.
Print Assumptions C05_accept_only_unassigns.

(* ---- ids --------------------------------------------------------------------------------- *)
(* no two live queries share an id, in every state of every run, for every variant of the code *)
Theorem C05_qid_unique : forall cfg servers evs tr stn,
  server_inv servers ->
  run_trace cfg (init_chan servers) evs = Ok (tr, stn) ->
  NoDup (qids stn) /\ forall x, In x tr -> NoDup (qids (fst (fst x))).
Proof. exact qid_unique. Qed.
Print Assumptions C05_qid_unique.

Theorem C05_generate_unique_qid_fresh : forall live ids id,
  generate_unique_qid live ids = Ok id -> ~ In id live /\ In id ids.
Proof. exact generate_unique_qid_fresh. Qed.
Print Assumptions C05_generate_unique_qid_fresh.

(* the retry loop stops at the first candidate that is not in use (fuel = the candidate list is
   only exhausted when every candidate collides), and with fewer than 65536 live queries a free
   id exists *)
Theorem C05_generate_unique_qid_terminates : forall live ids,
  (exists id, In id ids /\ ~ In id live) -> exists r, generate_unique_qid live ids = Ok r.
Proof. exact generate_unique_qid_terminates. Qed.
Print Assumptions C05_generate_unique_qid_terminates.

Theorem C05_free_id_exists : forall live : list Z,
  (length live < 65536)%nat -> exists id, 0 <= id < 65536 /\ ~ In id live.
Proof. exact free_id_exists_stmt. Qed.
Print Assumptions C05_free_id_exists.

(* ---- forgeries are inert ------------------------------------------------------------------ *)
(* a parsed packet that is authentic for NO live query produces no output and leaves queries,
   connections, cache and provenance log untouched; only per-server cookie records may change
   (the "expected a server cookie" timer).  Exception, stated separately below: a datagram that
   does not parse closes the connection it arrived on. *)
Theorem C05_forgery_inert : forall cfg st c src s u p cn sv,
  fixed cfg -> inv st ->
  find_conn st c = Some cn -> find_server st (cn_server cn) = Some sv ->
  (forall q, In q (ch_queries st) -> authentic_b cfg cn sv src p q = false) ->
  exists st1, step cfg st (ERead c src s u (DParsed p)) = Ok (st1, []) /\ same_but_cookies st1 st.
Proof. exact forgery_inert. Qed.
Print Assumptions C05_forgery_inert.

Theorem C05_foreign_source_inert : forall cfg st c src s u d cn sv,
  find_conn st c = Some cn -> find_server st (cn_server cn) = Some sv ->
  cn_tcp cn = false -> src <> sv_addr sv ->
  step cfg st (ERead c src s u d) = Ok (st, []).
Proof. exact foreign_source_inert. Qed.
Print Assumptions C05_foreign_source_inert.

Theorem C05_malformed_no_data : forall cfg st c src s u tag st1 outs,
  step cfg st (ERead c src s u (DMalformed tag)) = Ok (st1, outs) -> Forall nodata outs.
Proof. exact malformed_no_data. Qed.
Print Assumptions C05_malformed_no_data.

(* ---- no undefined behaviour, the invariant ------------------------------------------------ *)
Theorem C05_run_no_ub : forall cfg evs servers,
  fixed cfg -> cf_fix_zerolen cfg = true -> server_inv servers ->
  is_ub (run_trace cfg (init_chan servers) evs) = false.
Proof. exact run_no_ub_stmt. Qed.
Print Assumptions C05_run_no_ub.

Theorem C05_step_preserves_invariant : forall cfg st e st1 outs,
  inv st -> step cfg st e = Ok (st1, outs) -> inv st1.
Proof. exact step_inv. Qed.
Print Assumptions C05_step_preserves_invariant.

(* ---- the pinned tree does NOT satisfy the statement: concrete witnesses --------------------- *)
(* without the connection guard (tree before ba01df8): query sent to server A, timed out, re-sent
   to server B, A's late reply on A's socket is delivered *)
Theorem C05_delivery_authentic_refuted_without_conn_guard :
  exists cfg evs tr stn st c src s u p outs tok status tag,
    cf_fix_conn cfg = false /\ cf_fix_qr cfg = true /\
    run_trace cfg (init_chan w_servers) evs = Ok (tr, stn) /\
    In (st, ERead c src s u (DParsed p), outs) tr /\
    In (OCallback tok status (Some tag)) outs /\
    authentic_for cfg st c src p = None.
Proof. exact delivery_authentic_refuted_without_conn_guard_stmt. Qed.
Print Assumptions C05_delivery_authentic_refuted_without_conn_guard.

(* without the QR test (the tree without fixes/C05-qr-check.patch): a query-shaped datagram that
   echoes id and question is delivered as the answer *)
Theorem C05_delivery_authentic_refuted_without_qr_test :
  exists cfg evs tr stn st c src s u p outs tok status tag,
    cf_fix_conn cfg = true /\ cf_fix_qr cfg = false /\
    run_trace cfg (init_chan w_servers) evs = Ok (tr, stn) /\
    In (st, ERead c src s u (DParsed p), outs) tr /\
    In (OCallback tok status (Some tag)) outs /\
    authentic_for cfg st c src p = None.
Proof. exact delivery_authentic_refuted_without_qr_test_stmt. Qed.
Print Assumptions C05_delivery_authentic_refuted_without_qr_test.

(* without `*read_bytes = 0` (tree before 00b9f6e) an empty UDP datagram from the server's
   address is undefined behaviour (uninitialised length) *)
Theorem C05_run_no_ub_refuted_without_zerolen_fix :
  exists cfg evs, fixed cfg /\ cf_fix_zerolen cfg = false /\
                  is_ub (run_trace cfg (init_chan w_servers) evs) = true.
Proof. exact run_no_ub_refuted_without_zerolen_fix_stmt. Qed.
Print Assumptions C05_run_no_ub_refuted_without_zerolen_fix.

(* ---- the hypotheses are satisfiable: a run in which the genuine answer is delivered, cached
   and served again, while the same histories' forged packets are dropped by the fixed code --- *)
Theorem C05_example_genuine_run :
  server_inv w_servers /\ fixed (w_cfg true true true) /\
  match run_trace (w_cfg true true true) (init_chan w_servers) w_genuine with
  | Ok (tr, st) =>
      map (fun x => snd x) (skipn 6 tr) =
      [[OCacheInsert 1; OServerGood 1 1; OCallback 1 ARES_SUCCESS (Some 1)];
       [OCallback 2 ARES_SUCCESS (Some 1)]] /\ ch_queries st = [] /\ ch_auth st = [1]
  | _ => False
  end.
Proof. exact example_genuine_run_stmt. Qed.
Print Assumptions C05_example_genuine_run.

Theorem C05_example_forged_packets_dropped :
  delivers_unauthentic (w_cfg true true true) w_late = false /\
  delivers_unauthentic (w_cfg true true true) w_echo = false.
Proof. exact example_forged_packets_dropped_stmt. Qed.
Print Assumptions C05_example_forged_packets_dropped.

(* the stronger reading "a packet failing any conjunct changes NO query, cache or server state"
   does not hold, WITHOUT fixes/C05-udp-garbage-drop.patch, for datagrams that do not parse: from
   the server's address they close the connection, mark the server failed and cost every query
   on it one try (no data is supplied: C05_malformed_no_data) *)
Theorem C05_forgery_inert_refuted_for_malformed_datagrams :
  exists tr st,
    run_trace (w_cfg true true true) (init_chan w_servers) w_malformed = Ok (tr, st) /\
    map (fun x => snd x) (skipn 3 tr) = [[OServerFail 0 9; OConnError 10]] /\
    map q_try (ch_queries st) = [1] /\ map q_conn (ch_queries st) = [None] /\ ch_conns st = [].
Proof. exact malformed_not_inert_stmt. Qed.
Print Assumptions C05_forgery_inert_refuted_for_malformed_datagrams.

(* ABOUT A VARIANT THAT IS NOT THE CODE IN /repo (hardening patch proposed, not applied):
   with fixes/C05-udp-garbage-drop.patch ([cf_udp_garbage_drop]) an empty or unparsable UDP
   datagram is inert as well, so on UDP EVERY datagram that is not an authentic response changes
   nothing but cookie bookkeeping (this theorem + C05_forgery_inert + C05_foreign_source_inert);
   on TCP an unparsable frame still terminates the connection *)
Theorem C05_udp_garbage_inert : forall cfg st c src s u d cn sv,
  cf_udp_garbage_drop cfg = true -> cf_fix_zerolen cfg = true ->
  find_conn st c = Some cn -> find_server st (cn_server cn) = Some sv -> cn_tcp cn = false ->
  (d = DEmpty \/ exists t, d = DMalformed t) ->
  exists st1, step cfg st (ERead c src s u d) = Ok (st1, []) /\ same_but_cookies st1 st.
Proof. exact udp_garbage_inert. Qed.
Print Assumptions C05_udp_garbage_inert.

Theorem C05_example_malformed_dropped_with_patch :
  exists tr st,
    run_trace w_cfg_drop (init_chan w_servers) w_malformed = Ok (tr, st) /\
    map (fun x => snd x) (skipn 3 tr) = [[]] /\
    map q_try (ch_queries st) = [0] /\ map q_conn (ch_queries st) = [Some 10].
Proof. exact malformed_inert_with_drop_stmt. Qed.
Print Assumptions C05_example_malformed_dropped_with_patch.

(* ---- glue to C17: the cookie decision inside the accept path (Accept.cookie_decide) is the
   decision of the cookie component model (Cookie.cookie_validate, property C17), under the
   abstraction rel_ck that forgets what the accept path never reads ------------------------- *)
Theorem C05_cookie_decision_agrees_with_cookie_component :
  forall (a : Accept.cookie) (c : Cookie.cookie) (reqc resp : option Accept.bytes)
         (rcode s u tr : Z) (tcp sent : bool),
  Accept_cookie_equiv.rel_ck a c -> Accept.zlen (Accept.ck_client a) = 8 ->
  Accept.cookie_len_ok reqc = true -> Cookie.norm_cookie resp = resp -> 0 <= tr < 2 ^ 64 - 1 ->
  exists a' d c' q' status rq,
    Accept.cookie_decide a reqc resp rcode s u = Ok (a', d) /\
    Cookie.cookie_validate c (Cookie.mkQ (Accept_cookie_equiv.req_of reqc) tr tcp sent) resp rcode
                           (Cookie.mkTv s u) = Ok (c', q', status, rq) /\
    Accept_cookie_equiv.rel_ck a' c' /\ Accept_cookie_equiv.agree d status rq /\
    (d <> Accept.CRequeue -> q' = Cookie.mkQ (Accept_cookie_equiv.req_of reqc) tr tcp sent) /\
    (d = Accept.CRequeue -> Cookie.q_try q' = tr + 1 /\
                            Cookie.q_tcp q' = (if COOKIE_RESEND_MAX <=? tr + 1 then true else tcp)).
Proof. exact Accept_cookie_equiv.cookie_decide_agrees. Qed.
Print Assumptions C05_cookie_decision_agrees_with_cookie_component.

(* the question comparison depends on nothing of the response but its question section: no header
   bit (TC, rcode, opcode, ...) and no OPT content can make a mismatching question match *)
Theorem C05_same_questions_reads_only_the_question : forall cfg q p p',
  p_qd p = p_qd p' -> same_questions cfg q p = same_questions cfg q p'.
Proof. exact same_questions_only_question. Qed.
Print Assumptions C05_same_questions_reads_only_the_question.
