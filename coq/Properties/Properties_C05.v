(* C05 - only an authentic, matching response can answer a query or enter the cache.
   Statements only; proofs are in Core/Accept_proofs.v *)
From Coq Require Import ZArith List Bool.
From CAres.Base Require Import Outcome.
From CAres.Core Require Import Accept Accept_proofs.
Import ListNotations.
Local Open Scope Z_scope.

(* one packet: whatever process_answer (fixed code) emits that carries data - a callback with a
   record, a success mark, a cache insertion - stems from a packet that is authentic for a live
   query at that instant, and a callback goes to that query's token *)
Theorem C05_accept_step_authentic : forall cfg st cn sv src s u d st' outs,
  cf_fix_conn cfg = true -> cf_fix_qr cfg = true ->
  assign_inv st -> find_conn st (cn_id cn) = Some cn ->
  (cn_tcp cn || (src =? sv_addr sv)) = true ->
  process_answer cfg st cn sv s u d = Ok (st', outs) ->
  forall o tag, In o outs -> carries o tag ->
  exists p q, d = DParsed p /\ p_tag p = tag /\ In q (ch_queries st) /\
              authentic_b cfg cn sv src p q = true /\
              (forall tok st0 dd, o = OCallback tok st0 dd -> tok = q_tok q).
Proof. exact process_answer_sound. Qed.
Print Assumptions C05_accept_step_authentic.

Theorem C05_generate_unique_qid_fresh : forall live ids id,
  generate_unique_qid live ids = Ok id -> ~ In id live /\ In id ids.
Proof. exact generate_unique_qid_fresh. Qed.
Print Assumptions C05_generate_unique_qid_fresh.
