(* C07 (event-thread half): no query outwaits its deadline with the built-in event thread. *)
From CAres.Core Require Import EventLoop EventLoop_proofs.
Local Open Scope Z_scope.

(* In every reachable state of the event-loop system (with the wake rule of the current
   ares_send_query, or any rule at least as eager), a blocked event thread with no wake pending has a timeout that expires
   at most 1 ms after every outstanding deadline; it sleeps without timeout only when no
   query is outstanding.  With "a signalled wake ends the wait" and "a wait with timeout t
   returns by t" this is: no application action is needed for any query to be processed at
   its deadline, whether it used a fresh, a busy or an idle kept-open connection. *)
Theorem C07_evthread_no_missed_deadline : forall rule, rule_safe rule -> forall tr s,
  erun rule einit tr = Some s ->
  forall u, e_th s = Blocked u -> e_wake s = false ->
  forall d, In d (e_dl s) -> exists t, u = Some t /\ t <= Z.max (e_now s) d + 1.
Proof. exact evthread_no_missed_deadline. Qed.
Print Assumptions C07_evthread_no_missed_deadline.

(* The wake rule of the pinned tree (wake only on socket-interest change) does NOT have the
   property; this witness replayed on the real library is corpus/C07/evthread.cases line 1
   (fixed by /repo commit "fix: wake the event thread when a newly sent query has the
   earliest deadline"). *)
Theorem C07_evthread_refuted_without_fix :
  exists tr s d, erun rule_pinned einit tr = Some s /\ e_th s = Blocked None /\ e_wake s = false /\ In d (e_dl s).
Proof. exact evthread_refuted_without_fix. Qed.
Print Assumptions C07_evthread_refuted_without_fix.

(* The current code's rule (wake when the new query is first in queries_by_timeout) is safe. *)
Theorem C07_evthread_current_rule_safe : rule_safe rule_earliest.
Proof. exact rule_earliest_safe. Qed.
Print Assumptions C07_evthread_current_rule_safe.

(* A weaker rule ("wake only when nothing else is outstanding") is not. *)
Theorem C07_evthread_refuted_wake_only_when_empty :
  exists tr s u d, erun rule_only einit tr = Some s /\ e_th s = Blocked (Some u) /\ e_wake s = false /\
                   In d (e_dl s) /\ Z.max (e_now s) d + 1 < u.
Proof. exact evthread_refuted_wake_only_when_empty. Qed.
Print Assumptions C07_evthread_refuted_wake_only_when_empty.

Theorem C07_trace_acceptor_sound : forall base tol tr,
  trace_accepts base tol tr = true ->
  a_need (acc_run base tol tr) = None /\ a_ok (acc_run base tol tr) = true.
Proof. exact trace_accepts_need. Qed.
Print Assumptions C07_trace_acceptor_sound.

(* The event thread's conversion of ares_timeout()'s hint to the backends' millisecond timeout
   (0 means "no timeout" to every backend): for every hint the conversion is usable - never 0,
   never above INT_MAX - ends strictly after the hint and at most 1 ms later (or early, at the
   int limit), and is what the event-loop model's wait_until abstracts. *)
Theorem C07_evthread_timeout_conversion_usable : forall sec usec,
  0 <= sec -> 0 <= usec < 1000000 -> wait_ms_ok (Some (ms_of_hint sec usec)) = true.
Proof. exact ms_of_hint_usable. Qed.
Print Assumptions C07_evthread_timeout_conversion_usable.

Theorem C07_evthread_timeout_conversion_covers : forall sec usec,
  0 <= sec -> 0 <= usec < 1000000 ->
  let ms := ms_of_hint sec usec in
  let hint_us := sec * 1000000 + usec in
  (ms < INT_MAX -> hint_us < ms * 1000 <= hint_us + 1000) /\
  (ms = INT_MAX -> INT_MAX * 1000 <= hint_us + 1000).
Proof. exact ms_of_hint_covers. Qed.
Print Assumptions C07_evthread_timeout_conversion_covers.

Theorem C07_evthread_wait_until_is_conversion : forall now l m, min_dl l = Some m ->
  let rem := Z.max 0 (m - now) in
  wait_until now l = Some (now + ms_of_hint (rem / 1000) ((rem mod 1000) * 1000)).
Proof. exact wait_until_is_conversion. Qed.
Print Assumptions C07_evthread_wait_until_is_conversion.

(* what the hook-trace acceptor's conversion verdict means for the implementation's trace *)
Theorem C07_trace_conversion_sound : forall tr,
  trace_conversion_ok tr = true ->
  (forall pre t ms post, tr = pre ++ TWait t ms :: post -> wait_ms_ok ms = true) /\
  (forall pre sec usec t m post, tr = pre ++ THint sec usec :: TWait t (Some m) :: post ->
     m = ms_of_hint sec usec).
Proof.
  intros tr H. split.
  - intros pre t ms post E. exact (trace_conversion_waits tr pre t ms post H E).
  - intros pre sec usec t m post E. exact (trace_conversion_hinted tr pre sec usec t m post H E).
Qed.
Print Assumptions C07_trace_conversion_sound.

(* Composition with C19: the deadline index is a skip list ordered by the comparator generated
   from ares_query_timeout_cmp_cb, which C07_deadline_order_total_preorder shows to be a total
   preorder; so after ANY sequence of operations on the index the hint of ares_timeout_int is
   never later than any pending deadline and never later than the caller's maximum - the
   sortedness hypothesis of C07_hint_sound is discharged by C19's skip-list refinement. *)
From CAres.Core Require Import Time Time_proofs Compose_index.
From CAres.Dsa Require Import SList.
Theorem C07_hint_sound_over_index : forall (ops : list (sl_op deadline)) now maxtv,
  tv_ok now -> maxtv_ok maxtv ->
  exists s0 rs s l,
    sl_create true true = Some s0 /\ sl_run_model dl_cmp s0 ops = Ok (rs, s) /\ sl_walk_fwd s = Ok l /\
    exists h, timeout_int (index_deadlines l) now maxtv = Ok h /\
      let v := hint_value h maxtv in
      (v = None <-> index_deadlines l = nil /\ maxtv = None) /\
      (forall t, v = Some t ->
         0 <= tv_sec t /\ 0 <= tv_usec t < 1000000 /\
         (forall d, In d (index_deadlines l) -> tv_us t <= Z.max 0 (tv_us d - tv_us now)) /\
         (forall m, maxtv = Some m -> tv_us t <= tv_us m)).
Proof. exact hint_sound_over_index. Qed.
Print Assumptions C07_hint_sound_over_index.
