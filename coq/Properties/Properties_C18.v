(* C18 - legacy reply parsers agree with the record API and respect caller limits.
   Statements only; proofs are in Legacy/Legacy_proofs.v.

   Models: Legacy/Legacy.v (code-shaped: loops with accumulators, pointer arrays with explicit
   bounds, outcome = Ok | UB).  Specification: Legacy/Legacy_spec.v (filter/map projections of
   the answer section).  "= Ok (...)" also says: no out-of-bounds store, every pointer array
   NULL-terminated.  [Parsed rec] / [ParseFail st] is the verdict of ares_dns_parse (input). *)
From CAres.Legacy Require Import Rec Legacy Legacy_spec Legacy_proofs.
From CAres.Gen Require Import Consts.
Local Open Scope Z_scope.

(* ---- a / aaaa: addresses of the family in answer order, aliases, TTLs, capacity ---- *)
Theorem C18_same_records_addr : forall family rec q qs want_host arr_given arr_len nopt,
  family = LEG_AF_INET \/ family = LEG_AF_INET6 ->
  r_questions rec = q :: qs ->
  (forall n, nopt = Some n -> 0 <= n <= arr_len /\ n <= LEG_INT_MAX) ->
  observe_addr (parse_addr_reply family false (Parsed rec) want_host arr_given arr_len nopt) =
  Ok (spec_addr_reply family rec want_host arr_given nopt).
Proof. exact addr_reply_spec. Qed.
Print Assumptions C18_same_records_addr.

Theorem C18_capacity : forall family rec q qs want_host cap,
  family = LEG_AF_INET \/ family = LEG_AF_INET6 ->
  r_questions rec = q :: qs ->
  0 <= cap <= LEG_INT_MAX ->
  exists r, parse_addr_reply family false (Parsed rec) want_host true cap (Some cap) = Ok r /\
            Z.of_nat (length (ar_written r)) = Z.min cap (Z.of_nat (length (filter_map (proj_addr family) (r_answers rec)))) /\
            map fst (ar_written r) = firstn (Z.to_nat cap) (map fst (filter_map (proj_addr family) (r_answers rec))) /\
            ar_naddr r = Some (Z.of_nat (length (ar_written r))).
Proof. exact addr_capacity. Qed.
Print Assumptions C18_capacity.

Theorem C18_nodata_addr : forall family rec q qs arr_given arr_len nopt,
  family = LEG_AF_INET \/ family = LEG_AF_INET6 ->
  r_questions rec = q :: qs ->
  (forall n, nopt = Some n -> 0 <= n <= arr_len /\ n <= LEG_INT_MAX) ->
  filter_map (proj_addr family) (r_answers rec) = [] -> filter_map proj_cname (r_answers rec) = [] ->
  exists r, parse_addr_reply family false (Parsed rec) true arr_given arr_len nopt = Ok r /\
            ar_status r = ARES_ENODATA /\ ar_host r = HNull /\ ar_written r = [].
Proof. exact addr_nodata. Qed.
Print Assumptions C18_nodata_addr.

(* ---- hostent parsers ---- *)
Theorem C18_same_records_ns : forall rec q qs, r_questions rec = q :: qs ->
  observe_hostres (parse_ns_reply false (Parsed rec)) = Ok (spec_ns rec).
Proof. exact parse_ns_spec. Qed.
Print Assumptions C18_same_records_ns.

Theorem C18_same_records_ptr : forall rec q qs addr addrlen family, r_questions rec = q :: qs ->
  observe_hostres (parse_ptr_reply false (Parsed rec) addr addrlen family) = Ok (spec_ptr rec addr addrlen family).
Proof. exact parse_ptr_spec. Qed.
Print Assumptions C18_same_records_ptr.

(* ---- linked-list parsers ---- *)
Theorem C18_same_records_mx : forall rec, parse_mx_reply false (Parsed rec) = spec_mx rec.
Proof. exact parse_mx_spec. Qed.
Print Assumptions C18_same_records_mx.
Theorem C18_same_records_srv : forall rec, parse_srv_reply false (Parsed rec) = spec_srv rec.
Proof. exact parse_srv_spec. Qed.
Print Assumptions C18_same_records_srv.
Theorem C18_same_records_naptr : forall rec, parse_naptr_reply false (Parsed rec) = spec_naptr rec.
Proof. exact parse_naptr_spec. Qed.
Print Assumptions C18_same_records_naptr.
Theorem C18_same_records_caa : forall rec, parse_caa_reply false (Parsed rec) = spec_caa rec.
Proof. exact parse_caa_spec. Qed.
Print Assumptions C18_same_records_caa.
Theorem C18_same_records_uri : forall rec, parse_uri_reply false (Parsed rec) = spec_uri rec.
Proof. exact parse_uri_spec. Qed.
Print Assumptions C18_same_records_uri.
Theorem C18_same_records_txt : forall rec, parse_txt_reply false (Parsed rec) = spec_txt false rec.
Proof. exact parse_txt_spec. Qed.
Print Assumptions C18_same_records_txt.
Theorem C18_same_records_txt_ext : forall rec, parse_txt_reply_ext false (Parsed rec) = spec_txt true rec.
Proof. exact parse_txt_ext_spec. Qed.
Print Assumptions C18_same_records_txt_ext.
Theorem C18_same_records_soa : forall rec, parse_soa_reply false (Parsed rec) = spec_soa rec.
Proof. exact parse_soa_spec. Qed.
Print Assumptions C18_same_records_soa.

(* ---- no-data status when the projection is empty ---- *)
Theorem C18_nodata_hostent : forall rec q qs addr addrlen family, r_questions rec = q :: qs ->
  (filter_map proj_ns (r_answers rec) = [] ->
     observe_hostres (parse_ns_reply false (Parsed rec)) = Ok (ARES_ENODATA, VNull)) /\
  (filter_map proj_ptr (r_answers rec) = [] ->
     observe_hostres (parse_ptr_reply false (Parsed rec) addr addrlen family) = Ok (ARES_ENODATA, VNull)).
Proof. exact hostent_nodata. Qed.
Print Assumptions C18_nodata_hostent.

(* an empty answer section gives ARES_ENODATA; a non-empty one without a record of the type
   gives ARES_SUCCESS with the NULL list (the behaviour the repository's tests pin down) *)
Theorem C18_nodata_lists : forall rec,
  (r_answers rec = [] ->
     parse_mx_reply false (Parsed rec) = (ARES_ENODATA, []) /\ parse_srv_reply false (Parsed rec) = (ARES_ENODATA, []) /\
     parse_naptr_reply false (Parsed rec) = (ARES_ENODATA, []) /\ parse_caa_reply false (Parsed rec) = (ARES_ENODATA, []) /\
     parse_uri_reply false (Parsed rec) = (ARES_ENODATA, []) /\ parse_txt_reply false (Parsed rec) = (ARES_ENODATA, []) /\
     parse_txt_reply_ext false (Parsed rec) = (ARES_ENODATA, [])) /\
  (r_answers rec <> [] -> filter_map proj_mx (r_answers rec) = [] -> parse_mx_reply false (Parsed rec) = (ARES_SUCCESS, [])).
Proof. exact lists_nodata. Qed.
Print Assumptions C18_nodata_lists.

(* ---- malformed status iff the record parser rejected the message ---- *)
Theorem C18_malformed_iff_addr : forall family p want_host arr_given arr_len nopt,
  family = LEG_AF_INET \/ family = LEG_AF_INET6 ->
  (forall n, nopt = Some n -> 0 <= n <= arr_len /\ n <= LEG_INT_MAX) ->
  wf_parsed p ->
  exists r, parse_addr_reply family false p want_host arr_given arr_len nopt = Ok r /\
            (is_malformed_status (ar_status r) = true <-> exists s, p = ParseFail s) /\
            ((exists s, p = ParseFail s) -> ar_written r = [] /\ ar_host r = HUntouched).
Proof. exact addr_malformed_iff. Qed.
Print Assumptions C18_malformed_iff_addr.

Theorem C18_malformed_iff_ns : forall p, wf_parsed p ->
  exists st ho, parse_ns_reply false p = Ok (st, ho) /\
                (is_malformed_status st = true <-> exists s, p = ParseFail s).
Proof. exact ns_malformed_iff. Qed.
Print Assumptions C18_malformed_iff_ns.

Theorem C18_malformed_iff_ptr : forall p addr addrlen family, wf_parsed p ->
  exists st ho, parse_ptr_reply false p addr addrlen family = Ok (st, ho) /\
                (is_malformed_status st = true <-> exists s, p = ParseFail s).
Proof. exact ptr_malformed_iff. Qed.
Print Assumptions C18_malformed_iff_ptr.

Theorem C18_malformed_iff_lists : forall p, wf_parsed p ->
  (is_malformed_status (fst (parse_mx_reply false p)) = true <-> exists st, p = ParseFail st) /\
  (is_malformed_status (fst (parse_srv_reply false p)) = true <-> exists st, p = ParseFail st) /\
  (is_malformed_status (fst (parse_naptr_reply false p)) = true <-> exists st, p = ParseFail st) /\
  (is_malformed_status (fst (parse_caa_reply false p)) = true <-> exists st, p = ParseFail st) /\
  (is_malformed_status (fst (parse_uri_reply false p)) = true <-> exists st, p = ParseFail st) /\
  (is_malformed_status (fst (parse_txt_reply false p)) = true <-> exists st, p = ParseFail st) /\
  (is_malformed_status (fst (parse_txt_reply_ext false p)) = true <-> exists st, p = ParseFail st).
Proof. exact lists_malformed_iff. Qed.
Print Assumptions C18_malformed_iff_lists.

(* full statement for soa would be the same "iff"; only this direction holds for the code *)
Theorem C18_malformed_iff_soa_partial : forall p, wf_parsed p -> (exists st, p = ParseFail st) ->
  is_malformed_status (fst (parse_soa_reply false p)) = true.
Proof. exact soa_malformed_if. Qed.
Print Assumptions C18_malformed_iff_soa_partial.

(* ... and the other direction is refuted: a well-formed response without SOA record gets the
   malformed status ARES_EBADRESP (findings/C18.json, corpus/C18/legacy.cases) *)
Theorem C18_malformed_iff_soa_refuted :
  exists rec, wf_parsed (Parsed rec) /\ is_malformed_status (fst (parse_soa_reply false (Parsed rec))) = true.
Proof. exact soa_malformed_iff_refuted. Qed.
Print Assumptions C18_malformed_iff_soa_refuted.

(* negative length: every parser answers ARES_EBADRESP before looking at the message *)
Theorem C18_negative_length : forall p family wh ag al n addr addrlen fam2,
  (exists r, parse_addr_reply family true p wh ag al n = Ok r /\ ar_status r = ARES_EBADRESP /\ ar_written r = []) /\
  parse_ns_reply true p = Ok (ARES_EBADRESP, HNull) /\
  parse_ptr_reply true p addr addrlen fam2 = Ok (ARES_EBADRESP, HUntouched) /\
  parse_mx_reply true p = (ARES_EBADRESP, []) /\ parse_srv_reply true p = (ARES_EBADRESP, []) /\
  parse_naptr_reply true p = (ARES_EBADRESP, []) /\ parse_caa_reply true p = (ARES_EBADRESP, []) /\
  parse_uri_reply true p = (ARES_EBADRESP, []) /\ parse_txt_reply true p = (ARES_EBADRESP, []) /\
  parse_txt_reply_ext true p = (ARES_EBADRESP, []) /\ parse_soa_reply true p = (ARES_EBADRESP, None).
Proof. exact negative_length. Qed.
Print Assumptions C18_negative_length.

(* TTLs (with fixes/C18-ttl-int-clamp.patch): never negative, within int; the record's value
   whenever it fits, 0 for a TTL with the top bit set (RFC 2181 s.8) *)
Theorem C18_ttl_range : forall family rec q qs want_host cap r,
  family = LEG_AF_INET \/ family = LEG_AF_INET6 ->
  r_questions rec = q :: qs -> 0 <= cap <= LEG_INT_MAX -> ttls_nonneg (r_answers rec) ->
  parse_addr_reply family false (Parsed rec) want_host true cap (Some cap) = Ok r ->
  Forall (fun e => 0 <= snd e <= LEG_INT_MAX) (ar_written r).
Proof. exact addr_ttl_range. Qed.
Print Assumptions C18_ttl_range.

Theorem C18_ttl_identity : forall z, 0 <= z <= LEG_INT_MAX -> ttl_to_int z = z.
Proof. exact ttl_to_int_id. Qed.
Print Assumptions C18_ttl_identity.

(* ---- "what it returns is released completely by its matching free function" ----
   Ownership ledger (Legacy/LegacyMem.v): every allocation of the conversion code is a block, the
   allocator's answers are an arbitrary function [fail]; ares_free_data / ares_free_hostent walk
   the result as the C code does.  For EVERY record, request shape and allocator behaviour: no
   invalid/double free (the results are Ok), a call that does not succeed hands out nothing and
   leaves the ledger empty, and after the matching free function the ledger is empty. *)
From CAres.Legacy Require Import LegacyMem LegacyMem_proofs.

Theorem C18_released_lists : forall fail items_of neg p,
  exists st out m', list_parser_mem fail items_of neg p mem0 = Ok (st, out, m') /\
    (st <> ARES_SUCCESS -> out = [] /\ m_live m' = []) /\
    exists m'', free_data out m' = Ok m'' /\ m_live m'' = [].
Proof. exact lists_release. Qed.
Print Assumptions C18_released_lists.

Theorem C18_released_soa : forall fail neg p,
  exists st out m', soa_mem fail neg p mem0 = Ok (st, out, m') /\
    (st <> ARES_SUCCESS -> out = None /\ m_live m' = []) /\
    exists m'', free_data (match out with Some n => [n] | None => [] end) m' = Ok m'' /\ m_live m'' = [].
Proof. exact soa_release. Qed.
Print Assumptions C18_released_soa.

Theorem C18_released_ns : forall fail neg p, released (ns_mem fail neg p mem0).
Proof. exact ns_release. Qed.
Print Assumptions C18_released_ns.

Theorem C18_released_ptr : forall fail neg p addr_given, released (ptr_mem fail neg p addr_given mem0).
Proof. exact ptr_release. Qed.
Print Assumptions C18_released_ptr.

Theorem C18_released_addr : forall fail family neg p want_host, released (addr_reply_mem fail family neg p want_host mem0).
Proof. exact addr_release. Qed.
Print Assumptions C18_released_addr.

(* with an allocator that never fails the list parsers succeed with one node per projected item *)
Theorem C18_nofail_lists : forall fail items_of rec m, wf m -> (forall j, fail j = false) -> r_answers rec <> [] ->
  exists out m', list_parser_mem fail items_of false (Parsed rec) m = Ok (ARES_SUCCESS, out, m') /\
                 length out = length (flat_map items_of (r_answers rec)).
Proof. exact list_parser_nofail. Qed.
Print Assumptions C18_nofail_lists.
