(* C18 - legacy reply parsers agree with the record API and respect caller limits.
   Statements only; proofs are in Legacy/Legacy_proofs.v *)
From CAres.Legacy Require Import Rec Legacy Legacy_spec.
From CAres.Gen Require Import Consts.

Theorem C18_placeholder_compat : forall s, compat s <> ARES_EBADNAME.
Proof. intros s. unfold compat. destruct (Z.eqb_spec s ARES_EBADNAME); [discriminate | assumption]. Qed.
Print Assumptions C18_placeholder_compat.
