(* C07 - timers are sound and live (single-threaded half: hint arithmetic, deadline order,
   pop-while-expired).  Statements only; proofs are in Core/Time_proofs.v.  The event-thread half
   is in Properties_C07_evthread.v. *)
From CAres.Base Require Import CInt.
From CAres.Gen Require Import Consts LeafFns.
From CAres.Core Require Import Time Time_proofs.
From Coq Require Import Sorted.
Local Open Scope Z_scope.

(* ares_timedout (generated): true exactly when now >= check, no UB in range *)
Theorem C07_timedout_iff : forall now check, tv_ok now -> tv_ok check ->
  timedout now check = Ok (tv_us check <=? tv_us now).
Proof. exact timedout_iff. Qed.
Print Assumptions C07_timedout_iff.

(* ares_timeval_remaining (generated): no UB, 0 when expired, else exactly tout - now,
   never negative, normalised *)
Theorem C07_remaining_sound : forall now tout, tv_ok now -> tv_ok tout ->
  exists r, timeval_remaining now tout = Ok r /\
            0 <= tv_sec r /\ 0 <= tv_usec r < 1000000 /\
            tv_us r = Z.max 0 (tv_us tout - tv_us now).
Proof. exact remaining_sound. Qed.
Print Assumptions C07_remaining_sound.

(* ares_query_timeout_cmp_cb (generated): a total preorder that is exactly the deadline order *)
Theorem C07_deadline_order_total_preorder :
  (forall a, tv_ok a -> cmp_leb a a = true) /\
  (forall a b c, tv_ok a -> tv_ok b -> tv_ok c -> cmp_leb a b = true -> cmp_leb b c = true -> cmp_leb a c = true) /\
  (forall a b, tv_ok a -> tv_ok b -> cmp_leb a b = true \/ cmp_leb b a = true) /\
  (forall a b, tv_ok a -> tv_ok b ->
     exists c, query_timeout_cmp a b = Ok c /\ (c = -1 \/ c = 0 \/ c = 1) /\
               query_timeout_cmp b a = Ok (- c) /\ (c = 0 <-> tv_us a = tv_us b)).
Proof. exact cmp_total_preorder. Qed.
Print Assumptions C07_deadline_order_total_preorder.

Theorem C07_deadline_order_is_time_order : forall a b, tv_ok a -> tv_ok b ->
  (cmp_leb a b = true <-> tv_us a <= tv_us b).
Proof. exact cmp_leb_iff. Qed.
Print Assumptions C07_deadline_order_is_time_order.

(* ares_timeout_int: the hint is never negative, never later than ANY pending deadline, never
   later than the caller's maximum, NULL only when nothing is outstanding and no maximum was
   given, and exactly min(remaining to first deadline, maxtv).  Hypothesis: the index is sorted
   by the comparator above (the skip list's sortedness is C19's theorem). *)
Theorem C07_hint_sound : forall deadlines now maxtv,
  tv_ok now -> Forall tv_ok deadlines -> sorted_deadlines deadlines -> maxtv_ok maxtv ->
  exists h, timeout_int deadlines now maxtv = Ok h /\
    let v := hint_value h maxtv in
    (v = None <-> deadlines = [] /\ maxtv = None) /\
    (forall t, v = Some t ->
       0 <= tv_sec t /\ 0 <= tv_usec t < 1000000 /\
       (forall d, In d deadlines -> tv_us t <= Z.max 0 (tv_us d - tv_us now)) /\
       (forall m, maxtv = Some m -> tv_us t <= tv_us m) /\
       match deadlines, maxtv with
       | [], _ => maxtv = Some t
       | first :: _, None => tv_us t = Z.max 0 (tv_us first - tv_us now)
       | first :: _, Some m => tv_us t = Z.min (Z.max 0 (tv_us first - tv_us now)) (tv_us m)
       end).
Proof. exact timeout_int_sound. Qed.
Print Assumptions C07_hint_sound.

(* process_timeouts: on a sorted index every query whose deadline is <= now is handled
   (re-sent or ended) exactly once and in order, none with a later deadline is touched, the
   loop needs no more iterations than there are entries, and the index stays sorted.
   [requeue q = Some w]: the query is re-sent with a wait of w ms, 1 <= w < 2^63 (C06_wait_bounds). *)
Theorem C07_process_timeouts_sound :
  forall (Q : Type) (requeue : Q -> option Z) (now : timeval),
  tv_ok now -> tv_sec now < 2 ^ 61 ->
  (forall q w, requeue q = Some w -> 1 <= w < 2 ^ 63) ->
  forall idx, entries_ok Q idx -> entries_sorted Q idx ->
  exists idx',
    process_timeouts Q requeue (length idx) now idx [] = Ok (idx', map fst (filter (expiredb Q now) idx)) /\
    Forall (fun y => tv_us now < tv_us (snd y)) idx' /\
    (forall x, In x idx -> tv_us now < tv_us (snd x) -> In x idx') /\
    (forall x, In x idx' -> origin Q requeue now idx x) /\
    entries_sorted Q idx'.
Proof. exact process_timeouts_sound. Qed.
Print Assumptions C07_process_timeouts_sound.

(* the hypotheses are inhabited by a non-trivial state: three deadlines, one already passed *)
Theorem C07_example_nontrivial :
  let now := TV 100 500000 in
  let dl := [TV 100 400000; TV 101 0; TV 150 7] in
  tv_ok now /\ Forall tv_ok dl /\ sorted_deadlines dl /\
  timeout_int dl now (Some (TV 0 250000)) = Ok (HintBuf (TV 0 0)) /\
  timeout_int (tl dl) now (Some (TV 0 250000)) = Ok HintMax /\
  timeout_int (tl dl) now None = Ok (HintBuf (TV 0 500000)).
Proof. exact hint_example. Qed.
Print Assumptions C07_example_nontrivial.
